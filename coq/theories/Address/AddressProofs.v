(* Address layer, part 1: well-formed networks, prefix detection, and the two workers
   checkEncodeCashAddress / checkDecodeCashAddress:
     check_decode_cash_encode : decoding what check_encode_cash produced (in either ASCII case)
                                returns the hash and type                      (round trip)
     check_decode_cash_inv    : whatever check_decode_cash accepts is, lower-cased, exactly
                                prefix ":" check_encode_cash of what it returns  (canonicity) *)
From BU Require Import Lib.Bytes Lib.PolyMod Gen.Xbchutil Gen.Nets Base58.Base58 Base58.Base58Proofs
  CashAddr.CashAddr Checksum.StepFacts Checksum.Valid
  Address.Bits Address.BitsProofs Address.Address Address.CashProofs.
From Coq Require Import ZifyBool ZifyN ZifyNat.

(* ---------- well-formed networks ---------- *)
Definition wf_net (n : net) : bool :=
  negb (length (cash_prefix n) =? 0)%nat &&
  forallb is_lower (cash_prefix n) && forallb is_lower (slp_prefix n) &&
  negb (list_eqb (cash_prefix n) (slp_prefix n)) &&
  (length (cash_prefix n) <=? 23)%nat && (length (slp_prefix n) <=? 23)%nat.

Definition has_slp (n : net) : bool := negb (length (slp_prefix n) =? 0)%nat.

(* the CashAddr checksum register differs after the two prefixes *)
Definition slp_sep (n : net) : bool := negb (post_state (cash_prefix n) =? post_state (slp_prefix n)).

Lemma all_nets_wf : forallb wf_net all_nets = true.
Proof. vm_compute. reflexivity. Qed.

Lemma all_nets_slp_sep : forallb (fun n => negb (has_slp n) || slp_sep n) all_nets = true.
Proof. vm_compute. reflexivity. Qed.

Record WF (n : net) : Prop := {
  wf_cash_ne : cash_prefix n <> [];
  wf_cash_lower : Forall (fun c => is_lower c = true) (cash_prefix n);
  wf_slp_lower : Forall (fun c => is_lower c = true) (slp_prefix n);
  wf_distinct : cash_prefix n <> slp_prefix n;
  wf_cash_len : (length (cash_prefix n) <= 23)%nat;
  wf_slp_len : (length (slp_prefix n) <= 23)%nat }.

Lemma forallb_Forall {A} (f : A -> bool) l : forallb f l = true <-> Forall (fun x => f x = true) l.
Proof. rewrite forallb_forall, Forall_forall. reflexivity. Qed.

Lemma wf_net_WF n : wf_net n = true -> WF n.
Proof.
  unfold wf_net. rewrite !andb_true_iff, !negb_true_iff, !forallb_Forall.
  intros [[[[[H1 H2] H3] H4] H5] H6]. constructor; auto.
  - intros E. rewrite E in H1. discriminate.
  - intros E. rewrite <- E, list_eqb_refl in H4. discriminate.
  - apply Nat.leb_le. exact H5.
  - apply Nat.leb_le. exact H6.
Qed.

Lemma net_prefix_lower n slp : WF n -> Forall (fun c => is_lower c = true) (net_prefix n slp).
Proof. intros W. destruct slp; [apply (wf_slp_lower n W)|apply (wf_cash_lower n W)]. Qed.

Lemma lower_is_letter p : Forall (fun c => is_lower c = true) p -> Forall (fun c => is_letter c = true) p.
Proof. apply Forall_impl. intros c H. unfold is_letter. rewrite H. reflexivity. Qed.

Lemma lower_not_upper p : Forall (fun c => is_lower c = true) p -> Forall (fun c => is_upper c = false) p.
Proof. apply Forall_impl. intros c H. destruct (class_disjoint c) as (D & _). apply (D H). Qed.

Lemma ascii_lower_lower_word p : Forall (fun c => is_lower c = true) p -> ascii_lower p = p.
Proof. intros H. apply ascii_lower_fixed. apply lower_not_upper. exact H. Qed.

Lemma letters_no_colon P : Forall (fun c => is_letter c = true) P -> ~ In 58 P.
Proof.
  intros H Hin. rewrite Forall_forall in H. specialize (H 58 Hin). vm_compute in H. discriminate.
Qed.

Lemma alnum_no_colon P : Forall (fun c => is_alnum c = true) P -> ~ In 58 P.
Proof.
  intros H Hin. rewrite Forall_forall in H. specialize (H 58 Hin). vm_compute in H. discriminate.
Qed.

Lemma colon_unique (P1 : list N) : forall P2 b1 b2, P1 ++ 58 :: b1 = P2 ++ 58 :: b2 ->
  ~ In 58 P1 -> ~ In 58 P2 -> P1 = P2 /\ b1 = b2.
Proof.
  induction P1 as [|x P1 IH]; intros [|y P2] b1 b2 H N1 N2; cbn [app] in H.
  - injection H as <-. auto.
  - injection H as <- _. exfalso. apply N2. left. reflexivity.
  - injection H as -> _. exfalso. apply N1. left. reflexivity.
  - injection H as <- H. destruct (IH P2 b1 b2 H) as [<- <-].
    + intros Hin. apply N1. right. exact Hin.
    + intros Hin. apply N2. right. exact Hin.
    + auto.
Qed.

(* ---------- strings.EqualFold against "<prefix>:" ---------- *)
Lemma fold_eq_lower a b : is_lower b = true -> fold_eq a b = true -> is_letter a = true /\ ascii_lower_c a = b.
Proof.
  intros Hb H. rewrite ascii_lower_c_eq. unfold fold_eq, is_letter, is_lower, is_upper in *.
  destruct (N.eqb_spec a b) as [->|Hne].
  - split; [lia|]. destruct ((65 <=? b) && (b <=? 90)) eqn:E; [lia|reflexivity].
  - destruct ((65 <=? a) && (a <=? 90)) eqn:E; [split; lia|lia].
Qed.

Lemma fold_eq_colon a : fold_eq a 58 = true -> a = 58.
Proof. unfold fold_eq, is_upper. lia. Qed.

Lemma fold_eq_of_lower a b : is_letter a = true -> ascii_lower_c a = b -> fold_eq a b = true.
Proof.
  intros Ha <-. rewrite ascii_lower_c_eq. unfold fold_eq, is_letter, is_lower, is_upper in *.
  destruct ((65 <=? a) && (a <=? 90)) eqn:E; lia.
Qed.

Lemma equal_fold_inv pfx : forall s, Forall (fun c => is_lower c = true) pfx ->
  equal_fold s (pfx ++ [58]) = true ->
  exists P, s = P ++ [58] /\ Forall (fun c => is_letter c = true) P /\ ascii_lower P = pfx.
Proof.
  induction pfx as [|b pfx IH]; intros s HF H.
  - destruct s as [|a [|a' s']]; cbn in H; try discriminate.
    + rewrite andb_true_r in H. apply fold_eq_colon in H. subst a. exists []. repeat split. constructor.
    + rewrite andb_false_r in H. discriminate.
  - inversion HF as [|? ? Hb HF']; subst. destruct s as [|a s]; [discriminate|].
    cbn [app equal_fold] in H. apply andb_true_iff in H as [H1 H2].
    destruct (fold_eq_lower a b Hb H1) as [La Ea]. destruct (IH s HF' H2) as (P & -> & HP & EP).
    exists (a :: P). repeat split.
    + constructor; auto.
    + cbn [ascii_lower map]. rewrite Ea. f_equal. exact EP.
Qed.

Lemma equal_fold_intro P : forall pfx, Forall (fun c => is_letter c = true) P -> ascii_lower P = pfx ->
  equal_fold (P ++ [58]) (pfx ++ [58]) = true.
Proof.
  induction P as [|a P IH]; intros pfx HF E.
  - cbn in E. subst pfx. reflexivity.
  - inversion HF as [|? ? Ha HF']; subst. cbn [ascii_lower map app equal_fold].
    rewrite (fold_eq_of_lower a _ Ha eq_refl). apply (IH _ HF' eq_refl).
Qed.

Lemma equal_fold_has_colon s pfx : equal_fold s (pfx ++ [58]) = true -> In 58 s.
Proof.
  revert s. induction pfx as [|b pfx IH]; intros s H.
  - destruct s as [|a [|a' s']]; cbn in H; try discriminate.
    + rewrite andb_true_r in H. apply fold_eq_colon in H. left. auto.
    + rewrite andb_false_r in H. discriminate.
  - destruct s as [|a s]; [discriminate|]. cbn [app equal_fold] in H.
    apply andb_true_iff in H as [_ H]. right. apply IH. exact H.
Qed.

Lemma in_firstn {A} (x : A) n l : In x (firstn n l) -> In x l.
Proof. intros H. rewrite <- (firstn_skipn n l). apply in_or_app. left. exact H. Qed.

Lemma has_prefix_no_colon n s : ~ In 58 s -> has_prefix n s = false.
Proof.
  intros H. unfold has_prefix, colon.
  destruct (equal_fold (firstn _ s) (cash_prefix n ++ [58])) eqn:E1.
  { exfalso. apply H. eapply in_firstn. eapply equal_fold_has_colon. exact E1. }
  destruct (equal_fold (firstn _ s) (slp_prefix n ++ [58])) eqn:E2.
  { exfalso. apply H. eapply in_firstn. eapply equal_fold_has_colon. exact E2. }
  reflexivity.
Qed.

(* a string carrying one of the two prefixes (in any case) splits at its first colon *)
Lemma has_prefix_inv n s : WF n -> has_prefix n s = true ->
  exists P rest, s = P ++ 58 :: rest /\ Forall (fun c => is_letter c = true) P /\
                 (ascii_lower P = cash_prefix n \/ ascii_lower P = slp_prefix n).
Proof.
  intros W H. unfold has_prefix, colon in H. apply orb_true_iff in H.
  assert (G : forall pfx k, Forall (fun c => is_lower c = true) pfx ->
              equal_fold (firstn k s) (pfx ++ [58]) = true ->
              exists P rest, s = P ++ 58 :: rest /\ Forall (fun c => is_letter c = true) P /\ ascii_lower P = pfx).
  { intros pfx k HF E. destruct (equal_fold_inv pfx _ HF E) as (P & EP & HP & EL).
    exists P, (skipn k s). repeat split; auto.
    rewrite <- (firstn_skipn k s) at 1. rewrite EP, <- app_assoc. reflexivity. }
  destruct H as [H|H].
  - destruct (G _ _ (wf_cash_lower n W) H) as (P & rest & E & HP & EL). exists P, rest. auto.
  - destruct (G _ _ (wf_slp_lower n W) H) as (P & rest & E & HP & EL). exists P, rest. auto.
Qed.

Lemma has_prefix_intro n slp P rest : WF n -> Forall (fun c => is_letter c = true) P ->
  ascii_lower P = net_prefix n slp -> has_prefix n (P ++ 58 :: rest) = true.
Proof.
  intros W HP EL. unfold has_prefix, colon. change (N.to_nat (DA 2)) with 1%nat. change (N.to_nat (DA 3)) with 1%nat.
  assert (Hlen : length P = length (net_prefix n slp)).
  { rewrite <- EL. unfold ascii_lower. rewrite map_length. reflexivity. }
  assert (F : firstn (length P + 1) (P ++ 58 :: rest) = P ++ [58]).
  { replace (P ++ 58 :: rest) with ((P ++ [58]) ++ rest) by (rewrite <- app_assoc; reflexivity).
    replace (length P + 1)%nat with (length (P ++ [58])) by (rewrite app_length; reflexivity).
    apply firstn_app_exact. }
  destruct slp; cbn [net_prefix] in *; rewrite <- Hlen, F, (equal_fold_intro P _ HP EL).
  - apply orb_true_r.
  - reflexivity.
Qed.

(* ---------- packAddressData / checkEncodeCashAddress on the three constructible shapes ---------- *)
(* (version byte, hash length, AddressType passed to the encoder, AddressType returned by the decoder) *)
Inductive shape : N -> nat -> N -> N -> Prop :=
| ShapePKH : shape 0 20 0 0
| ShapeSH : shape 8 20 1 1
| ShapeSH32 : shape 11 32 1 2.

Lemma pack_address_data_eval v n te td h : shape v n te td -> length h = n ->
  pack_address_data te h =
  match convert_bits (v :: h) 8 5 true with Ok p => Ok p | Err _ => Err 4 | Panic k => Panic k end.
Proof.
  intros S Hl. unfold pack_address_data, lenN. rewrite Hl. destruct S; reflexivity.
Qed.

(* the symbols of an address: padded regrouping of version :: hash, then the checksum *)
Lemma check_encode_cash_ok v n te td h pfx : shape v n te td -> length h = n -> Bytes h ->
  exists p, convert_bits (v :: h) 8 5 true = Ok p /\ Forall (fun x => x < 32) p /\
            convert_bits p 5 8 false = Ok (v :: h) /\
            lenN p = (8 * (N.of_nat n + 1) + 4) / 5 /\
            check_encode_cash h pfx te = Ok (map chr (p ++ create_checksum pfx p)).
Proof.
  intros S Hl Hb.
  assert (Hv : Bytes (v :: h)) by (apply Bytes_cons; split; [destruct S; lia|exact Hb]).
  destruct (unpack_pack _ Hv) as (p & Hp & Hp32 & _ & _ & Hu).
  exists p. repeat split; auto.
  - rewrite (pack_length _ _ Hv Hp). unfold lenN. cbn [length]. rewrite Hl. f_equal. lia.
  - unfold check_encode_cash. rewrite (pack_address_data_eval v n te td h S Hl), Hp.
    unfold CashAddr.encode. apply to_chars_ok. apply Forall_app. split; [exact Hp32|apply cashaddr_create_lt32].
Qed.

(* ---------- checkDecodeCashAddress ---------- *)
Lemma check_decode_cash_eq input : check_decode_cash input =
  match decode_cashaddr input with
  | Err e => ([], Err e)
  | Panic k => ([], Panic k)
  | Ok (prefix, data5) =>
      match convert_bits data5 5 8 false with
      | Err _ => (prefix, Err 20)
      | Panic k => (prefix, Panic k)
      | Ok data =>
          let n := lenN data in
          if negb (n =? 21) && negb (n =? 33) then (prefix, Err 21)
          else match nth_error data 0 with
               | None => (prefix, Panic 1)
               | Some v =>
                   if (v =? 0) && (n =? 21) then (prefix, Ok (skipn 1 data, 0))
                   else if (v =? 8) && (n =? 21) then (prefix, Ok (skipn 1 data, 1))
                   else if (v =? 11) && (n =? 33) then (prefix, Ok (skipn 1 data, 2))
                   else (prefix, Err 22)
               end
      end
  end.
Proof. reflexivity. Qed.

Lemma check_decode_cash_no_panic input k : snd (check_decode_cash input) <> Panic k.
Proof.
  rewrite check_decode_cash_eq.
  destruct (decode_cashaddr input) as [[pfx data5]| |] eqn:Ed; cbn [snd]; try discriminate.
  2:{ exfalso. eapply decode_cashaddr_no_panic. exact Ed. }
  destruct (decode_cashaddr_inv _ _ _ Ed) as (P & body & vals & _ & _ & _ & _ & _ & Hv & _ & _ & ->).
  destruct (to_values_props _ _ Hv) as (H32 & _).
  assert (Hf : Forall (fun x => x < 32) (firstn (length vals - 8) vals)).
  { rewrite Forall_forall in *. intros x Hx. apply H32. eapply in_firstn. exact Hx. }
  destruct (convert_bits _ 5 8 false) as [data| |] eqn:Ec; cbn [snd]; try discriminate.
  2:{ exfalso. eapply convert_bits_58_no_panic; eauto. }
  cbv zeta. destruct (negb _ && negb _) eqn:En; cbn [snd]; [discriminate|].
  destruct data as [|v data]; [exfalso; cbn in En; discriminate|]. cbn [nth_error].
  repeat match goal with |- context [if ?b then _ else _] => destruct b end; cbn [snd]; discriminate.
Qed.

(* decoding the encoder's output, written with prefix P (any case) and body in the same case *)
Lemma check_decode_cash_syms P body p pfx v n te td h : shape v n te td -> length h = n ->
  P <> [] -> Forall (fun c => is_letter c = true) P -> ascii_lower P = pfx ->
  Forall (fun c => is_alnum c = true) body ->
  existsb is_upper (P ++ body) && existsb is_lower (P ++ body) = false ->
  Forall (fun x => x < 32) p -> convert_bits p 5 8 false = Ok (v :: h) ->
  forall ck, length ck = 8%nat -> to_values body = Ok (p ++ ck) ->
  check_decode_cash (P ++ 58 :: body) =
  if verify_checksum pfx (p ++ ck) then (pfx, Ok (h, td)) else ([], Err 8).
Proof.
  intros S Hl HP HPl EP HB Hcase Hp Hu ck Hck Hv.
  rewrite check_decode_cash_eq.
  rewrite (decode_cashaddr_eval P body (p ++ ck)); auto.
  2:{ rewrite app_length. lia. }
  rewrite (map_lower_case_letters P HPl), EP.
  destruct (verify_checksum pfx (p ++ ck)); [|reflexivity].
  replace (length (p ++ ck) - 8)%nat with (length p) by (rewrite app_length; lia).
  rewrite firstn_app_exact, Hu. cbv zeta. unfold lenN. cbn [length nth_error skipn]. rewrite Hl.
  destruct S; reflexivity.
Qed.

(* inversion: what an accepted string looks like *)
Lemma check_decode_cash_inv str pfx h td : check_decode_cash str = (pfx, Ok (h, td)) ->
  exists P body p v n te,
    str = P ++ 58 :: body /\ P <> [] /\ Forall (fun c => is_letter c = true) P /\ pfx = ascii_lower P /\
    Forall (fun c => is_alnum c = true) body /\
    shape v n te td /\ length h = n /\ Bytes h /\
    Forall (fun x => x < 32) p /\ convert_bits (v :: h) 8 5 true = Ok p /\
    to_values body = Ok (p ++ create_checksum pfx p).
Proof.
  rewrite check_decode_cash_eq.
  destruct (decode_cashaddr str) as [[pfx' data5]| |] eqn:Ed; try discriminate.
  destruct (decode_cashaddr_inv _ _ _ Ed) as (P & body & vals & -> & HP & HPl & HB & -> & Hv & Hlen & Hvc & ->).
  destruct (to_values_props _ _ Hv) as (H32 & _).
  set (p := firstn (length vals - 8) vals) in *.
  assert (Hsplit : vals = p ++ skipn (length vals - 8) vals) by (symmetry; apply firstn_skipn).
  assert (Hp32 : Forall (fun x => x < 32) p).
  { rewrite Forall_forall in *. intros x Hx. apply H32. eapply in_firstn. exact Hx. }
  assert (Hs32 : Forall (fun x => x < 32) (skipn (length vals - 8) vals)).
  { rewrite Forall_forall in *. intros x Hx. apply H32. rewrite Hsplit. apply in_or_app. right. exact Hx. }
  pose proof (cashaddr_checksum_unique _ _ Hlen Hs32 Hvc) as Hck. fold p in Hck.
  destruct (convert_bits p 5 8 false) as [data| |] eqn:Ec; try discriminate.
  destruct (pack_unpack p data Hp32 Ec) as (Hd & Hpk).
  cbv zeta. destruct (negb _ && negb _) eqn:En; [discriminate|].
  destruct data as [|v data]; [cbn in En; discriminate|]. cbn [nth_error skipn].
  unfold lenN. cbn [length].
  intros H.
  assert (Hfin : exists n te, shape v n te td /\ length data = n /\ pfx = map lower_case P /\ h = data).
  { destruct ((v =? 0) && (N.of_nat (S (length data)) =? 21)) eqn:E0.
    { injection H as <- <- <-. exists 20%nat, 0. repeat split; auto; [|lia].
      replace v with 0 by lia. constructor. }
    destruct ((v =? 8) && (N.of_nat (S (length data)) =? 21)) eqn:E1.
    { injection H as <- <- <-. exists 20%nat, 1. repeat split; auto; [|lia].
      replace v with 8 by lia. constructor. }
    destruct ((v =? 11) && (N.of_nat (S (length data)) =? 33)) eqn:E2.
    { injection H as <- <- <-. exists 32%nat, 1. repeat split; auto; [|lia].
      replace v with 11 by lia. constructor. }
    discriminate. }
  destruct Hfin as (n & te & S & Hn & -> & ->).
  exists P, body, p, v, n, te. rewrite <- (map_lower_case_letters P HPl).
  repeat split; auto.
  - apply Bytes_cons in Hd. apply Hd.
  - rewrite <- Hck, <- Hsplit. exact Hv.
Qed.

(* canonicity of the worker: the accepted string, lower-cased, is prefix ":" re-encoding *)
Theorem check_decode_cash_canonical str pfx h td : check_decode_cash str = (pfx, Ok (h, td)) ->
  exists v n te enc, shape v n te td /\ length h = n /\ Bytes h /\
    check_encode_cash h pfx te = Ok enc /\ ascii_lower str = pfx ++ 58 :: enc.
Proof.
  intros H. destruct (check_decode_cash_inv _ _ _ _ H) as
    (P & body & p & v & n & te & -> & HP & HPl & -> & HB & S & Hn & Hh & Hp32 & Hpk & Hv).
  exists v, n, te, (ascii_lower body). repeat split; auto.
  - destruct (check_encode_cash_ok v n te td h (ascii_lower P) S Hn Hh) as (p' & Hp' & _ & _ & _ & He).
    rewrite Hpk in Hp'. injection Hp' as <-. rewrite He. f_equal.
    destruct (to_values_props _ _ Hv) as (_ & Hc & _). exact Hc.
  - rewrite ascii_lower_app. cbn [ascii_lower map]. reflexivity.
Qed.

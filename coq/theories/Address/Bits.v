(* Model of convertBits (address.go): the general power-of-two regrouping loop on Go's
   64-bit [uint], with the masks the source computes.  Literals come from Gen.Xbchutil.
   Domain on which the wrap-free reading below is exact: 1 <= tobits, fromBits + tobits <= 64
   (the callers use 8->5 with padding and 5->8 strict). *)
From BU Require Import Lib.Bytes Lib.PolyMod Gen.Xbchutil.

Definition lenN {A} (l : list A) : N := N.of_nat (length l).   (* len(x) as a number *)

Definition CB := lit lits_convertBits.
Definition w64 (x : N) : N := x mod 18446744073709551616.

(* for bits >= tobits { bits -= tobits; ret = append(ret, (acc>>bits)&maxv) }
   every iteration lowers [bits] by tobits >= 1; with tobits = 0 the Go loop never ends
   (out of fuel = Panic 9) *)
Fixpoint cb_emit (fuel : nat) (acc bits tobits maxv : N) : res (N * list N) :=
  match fuel with
  | O => Panic 9
  | S f =>
      if tobits <=? bits then
        let b := bits - tobits in
        do (b', r) <- cb_emit f acc b tobits maxv ;;
        Ok (b', N.land (N.shiftr acc b) maxv :: r)
      else Ok (bits, [])
  end.

Fixpoint cb_loop (data : list N) (acc bits fromb tob maxv maxacc : N) : res (N * N * list N) :=
  match data with
  | [] => Ok (acc, bits, [])
  | v :: t =>
      let acc1 := N.land (N.lor (w64 (N.shiftl acc fromb)) v) maxacc in
      do (bits2, out) <- cb_emit (S (N.to_nat (bits + fromb))) acc1 (bits + fromb) tob maxv ;;
      do (a, b, rest) <- cb_loop t acc1 bits2 fromb tob maxv maxacc ;;
      Ok (a, b, out ++ rest)
  end.

(* error class 1 = "encoding padding error" *)
Definition convert_bits (data : list N) (fromb tob : N) (pad : bool) : res (list N) :=
  let maxv := w64 (N.shiftl (CB 2) tob) - CB 3 in
  let maxacc := w64 (N.shiftl (CB 4) (fromb + tob - CB 5)) - CB 6 in
  do (acc, bits, ret) <- cb_loop data (CB 0) (CB 1) fromb tob maxv maxacc ;;
  if pad then
    Ok (map (fun x => x mod 256)
            (if CB 7 <? bits then ret ++ [N.land (w64 (N.shiftl acc (tob - bits))) maxv] else ret))
  else if (fromb <=? bits) || negb (N.land (w64 (N.shiftl acc (tob - bits))) maxv =? CB 8) then Err 1
  else Ok (map (fun x => x mod 256) ret).

(* Address layer, part 4: one lemma per rejection rule of C02, each phrased over strings that
   carry a VALID checksum over an arbitrary 5-bit payload (so the rule itself, not the checksum,
   does the rejecting), plus network membership of what is accepted.
   "Rejected" for the CashAddr rules means: not decoded to a cash-format address.  (A 66/130
   character string over the 14 characters common to the CashAddr charset and hex could in
   principle also be the hex of a public key; then it is a public key, canonically so.) *)
From BU Require Import Lib.Bytes Lib.Radix Lib.PolyMod Lib.Sha256 Gen.Xbchutil Gen.Nets
  Base58.Base58 Base58.Base58Proofs CashAddr.CashAddr Checksum.StepFacts Checksum.Valid
  Address.Bits Address.BitsProofs Address.Address Address.CashProofs Address.AddressProofs
  Address.DecodeProofs Address.LegacyProofs.
From Coq Require Import ZifyBool ZifyN ZifyNat.

Lemma map_chr_inj a : forall b, Forall (fun x => x < 32) a -> Forall (fun x => x < 32) b ->
  map chr a = map chr b -> a = b.
Proof.
  intros b Ha Hb E. pose proof (to_values_chr a Ha) as Ta. pose proof (to_values_chr b Hb) as Tb.
  rewrite E in Ta. congruence.
Qed.

Lemma app_inv_len8 (a b c d : list N) : length c = 8%nat -> length d = 8%nat -> a ++ c = b ++ d -> a = b /\ c = d.
Proof.
  intros Hc Hd. revert b. induction a as [|x a IH]; intros [|y b] E; cbn [app] in E.
  - auto.
  - exfalso. apply (f_equal (@length N)) in E. cbn [length] in E. rewrite app_length in E. lia.
  - exfalso. apply (f_equal (@length N)) in E. cbn [length] in E. rewrite app_length in E. lia.
  - injection E as <- E. destruct (IH b E) as [<- <-]. auto.
Qed.

Lemma map_chr_no_colon syms : Forall (fun x => x < 32) syms -> ~ In 58 (map chr syms).
Proof. intros H. apply alnum_no_colon. apply (enc_props syms H). Qed.

(* when the strict regrouping refuses: the leftover r = 5*len mod 8 bits are >= 5 in number or not all zero *)
Lemma strict_refuses p : Forall (fun x => x < 32) p ->
  let r := (5 * lenN p) mod 8 in
  5 <= r \/ (val 5 p) mod 2 ^ r <> 0 -> convert_bits p 5 8 false = Err 1.
Proof.
  intros Hp r Hbad. destruct (unpack_spec p Hp) as (out & r' & X & Hr' & HX & _ & Hlen & Hv & E).
  assert (r' = r) by (subst r; lia). subst r'.
  assert (X = val 5 p mod 2 ^ r).
  { rewrite Hv. rewrite N.add_comm, N.mod_add by (apply N.pow_nonzero; lia). symmetry. apply N.mod_small. exact HX. }
  rewrite E. destruct Hbad as [H5|Hnz].
  - destruct (N.leb_spec 5 r); [reflexivity|lia].
  - destruct (N.eqb_spec X 0); [congruence|]. cbn [negb]. rewrite orb_true_r. reflexivity.
Qed.


Section Reject.
Variable ripemd160 : list N -> list N.
Variable P : Type.
Variable ec_parse : list N -> option P.
Variable ec_ser : N -> P -> list N.
Notation addr := (addr P).
Notation encode_address := (encode_address ripemd160 P ec_ser).
Notation decode_address := (decode_address P ec_parse).
Notation is_cash := (is_cash P).
Notation mk_cash := (mk_cash P).

Variable net : net.
Variables rp rs : list N.
Hypothesis W : WF net.

(* [s] is, up to ASCII case, the symbols [p ++ ck] written with the charset, bare or behind [q:] *)
Definition spells (s q p ck : list N) : Prop :=
  ascii_lower s = map chr (p ++ ck) \/ ascii_lower s = q ++ 58 :: map chr (p ++ ck).

(* the core: an accepted cash-format string over symbols p ++ ck has p canonical and ck the checksum *)
Theorem cash_accept_inv s q p ck a : Forall (fun x => x < 32) p -> Forall (fun x => x < 32) ck ->
  length ck = 8%nat -> ~ In 58 q -> spells s q p ck ->
  decode_address net rp rs s = Ok a -> is_cash a = true ->
  exists v n te td pa h, shape v n te td /\ length h = n /\ Bytes h /\ a = mk_cash td pa h /\
    (pa = cash_prefix net \/ pa = slp_prefix net) /\
    convert_bits (v :: h) 8 5 true = Ok p /\ ck = create_checksum pa p /\
    (ascii_lower s = q ++ 58 :: map chr (p ++ ck) -> q = pa).
Proof.
  intros Hp Hck Hlen Hq Hs Hd Hc.
  destruct (decode_cash_canonical ripemd160 P ec_parse ec_ser net rp rs s a W Hd Hc) as
    (v & n & te & td & pa & h & enc & S & Hn & Hb & Ea & Hpa & He & _ & Hl).
  destruct (check_encode_cash_ok v n te td h pa S Hn Hb) as (p' & Hp' & Hp32 & _ & _ & He').
  rewrite He in He'. injection He' as ->.
  assert (Hsy : Forall (fun x => x < 32) (p ++ ck)) by (apply Forall_app; auto).
  assert (Hsy' : Forall (fun x => x < 32) (p' ++ create_checksum pa p')).
  { apply Forall_app. split; [exact Hp32|apply cashaddr_create_lt32]. }
  assert (Hpal : ~ In 58 pa).
  { apply letters_no_colon, lower_is_letter.
    destruct Hpa as [-> | ->]; [apply (wf_cash_lower net W)|apply (wf_slp_lower net W)]. }
  assert (Core : map chr (p ++ ck) = map chr (p' ++ create_checksum pa p') ->
            convert_bits (v :: h) 8 5 true = Ok p /\ ck = create_checksum pa p).
  { intros E. apply map_chr_inj in E; auto.
    apply app_inv_len8 in E; [|exact Hlen|apply cashaddr_create_length]. destruct E as [<- ->]. auto. }
  exists v, n, te, td, pa, h.
  destruct Hs as [Hs|Hs]; destruct Hl as [Hl|Hl]; rewrite Hs in Hl.
  - destruct (Core Hl) as [C1 C2]. repeat split; auto.
    intros E. exfalso. rewrite Hs in E. apply (map_chr_no_colon _ Hsy). rewrite E. apply in_or_app. right. left. reflexivity.
  - exfalso. apply (map_chr_no_colon _ Hsy). rewrite Hl. apply in_or_app. right. left. reflexivity.
  - exfalso. apply (map_chr_no_colon _ Hsy'). rewrite <- Hl. apply in_or_app. right. left. reflexivity.
  - destruct (colon_unique _ _ _ _ Hl Hq Hpal) as [Eq Eb]. destruct (Core Eb) as [C1 C2]. repeat split; auto.
Qed.

(* ---------- the rejection rules ---------- *)
Definition shape_ok (v : N) (n : nat) : Prop := (v = 0 /\ n = 20%nat) \/ (v = 8 /\ n = 20%nat) \/ (v = 11 /\ n = 32%nat).

Lemma shape_shape_ok v n te td : shape v n te td -> shape_ok v n.
Proof. unfold shape_ok. destruct 1; auto. Qed.

(* unknown version byte (all 253 others, reserved bit included), size/length disagreement, wrong
   payload length: the payload is the padded regrouping of some byte string [d] that is not
   (known version byte) :: (hash of the announced length) *)
Theorem unknown_version_rejected s q d p a : Bytes d -> convert_bits d 8 5 true = Ok p ->
  (forall v h, d = v :: h -> ~ shape_ok v (length h)) ->
  ~ In 58 q -> (spells s q p (create_checksum q p)) ->
  decode_address net rp rs s = Ok a -> is_cash a = false.
Proof.
  intros Hd Hpk Hbad Hq Hs Hdec. destruct (is_cash a) eqn:Hc; [|reflexivity]. exfalso.
  destruct (unpack_pack d Hd) as (p0 & Hp0 & Hp32 & _ & _ & Hu). rewrite Hpk in Hp0. injection Hp0 as <-.
  destruct (cash_accept_inv s q p (create_checksum q p) a Hp32 (cashaddr_create_lt32 _ _)
              (cashaddr_create_length _ _) Hq Hs Hdec Hc) as (v & n & te & td & pa & h & S & Hn & Hb & _ & _ & Hpk' & _).
  assert (Hvb : Bytes (v :: h)) by (apply Bytes_cons; split; [destruct S; lia|exact Hb]).
  destruct (unpack_pack (v :: h) Hvb) as (p1 & Hp1 & _ & _ & _ & Hu1). rewrite Hpk' in Hp1. injection Hp1 as <-.
  rewrite Hu in Hu1. injection Hu1 as ->.
  apply (Hbad v h eq_refl). rewrite Hn. apply (shape_shape_ok v n te td S).
Qed.

Corollary wrong_length_rejected s q d p a : Bytes d -> convert_bits d 8 5 true = Ok p ->
  length d <> 21%nat -> length d <> 33%nat ->
  ~ In 58 q -> (spells s q p (create_checksum q p)) ->
  decode_address net rp rs s = Ok a -> is_cash a = false.
Proof.
  intros Hd Hpk H21 H33. apply (unknown_version_rejected s q d p a Hd Hpk).
  intros v h -> [(_ & E)|[(_ & E)|(_ & E)]]; cbn [length] in *; lia.
Qed.

(* non-zero padding bits, or a surplus symbol: the strict 5 -> 8 regrouping refuses the payload *)
Theorem nonzero_padding_rejected s q p a : Forall (fun x => x < 32) p ->
  convert_bits p 5 8 false = Err 1 ->
  ~ In 58 q -> (spells s q p (create_checksum q p)) ->
  decode_address net rp rs s = Ok a -> is_cash a = false.
Proof.
  intros Hp Herr Hq Hs Hdec. destruct (is_cash a) eqn:Hc; [|reflexivity]. exfalso.
  destruct (cash_accept_inv s q p (create_checksum q p) a Hp (cashaddr_create_lt32 _ _)
              (cashaddr_create_length _ _) Hq Hs Hdec Hc) as (v & n & te & td & pa & h & S & Hn & Hb & _ & _ & Hpk' & _).
  assert (Hvb : Bytes (v :: h)) by (apply Bytes_cons; split; [destruct S; lia|exact Hb]).
  destruct (unpack_pack (v :: h) Hvb) as (p1 & Hp1 & _ & _ & _ & Hu1). rewrite Hpk' in Hp1. injection Hp1 as <-.
  congruence.
Qed.

(* failing checksum: any other 8 symbols in the checksum position *)
Theorem bad_checksum_rejected s q p ck a : Forall (fun x => x < 32) p -> Forall (fun x => x < 32) ck ->
  length ck = 8%nat -> ~ In 58 q -> spells s q p ck ->
  ck <> create_checksum (cash_prefix net) p -> ck <> create_checksum (slp_prefix net) p ->
  decode_address net rp rs s = Ok a -> is_cash a = false.
Proof.
  intros Hp Hck Hlen Hq Hs H1 H2 Hdec. destruct (is_cash a) eqn:Hc; [|reflexivity]. exfalso.
  destruct (cash_accept_inv s q p ck a Hp Hck Hlen Hq Hs Hdec Hc) as
    (v & n & te & td & pa & h & _ & _ & _ & _ & [-> | ->] & _ & E & _); contradiction.
Qed.

(* another prefix: a string with a colon whose part before the first colon is neither prefix of
   the network (in any ASCII case) is not an address at all *)
Theorem foreign_prefix_rejected q rest : ~ In 58 q ->
  ascii_lower q <> cash_prefix net -> ascii_lower q <> slp_prefix net ->
  forall a, decode_address net rp rs (q ++ 58 :: rest) <> Ok a.
Proof.
  intros Hq H1 H2 a Hdec.
  assert (Hin : In 58 (q ++ 58 :: rest)) by (apply in_or_app; right; left; reflexivity).
  destruct (decode_cases P ec_parse net rp rs _ a Hdec) as [Hc|(f & Ht)].
  - destruct (decode_cash_canonical ripemd160 P ec_parse ec_ser net rp rs _ a W Hdec Hc) as
      (v & n & te & td & pa & h & enc & S & Hn & Hb & _ & Hpa & He & _ & Hl).
    destruct (check_encode_cash_ok v n te td h pa S Hn Hb) as (p' & _ & Hp32 & _ & _ & He').
    rewrite He in He'. injection He' as ->.
    assert (Hsy : Forall (fun x => x < 32) (p' ++ create_checksum pa p')).
    { apply Forall_app. split; [exact Hp32|apply cashaddr_create_lt32]. }
    rewrite ascii_lower_app in Hl. cbn [ascii_lower map] in Hl. fold (ascii_lower rest) in Hl.
    destruct Hl as [Hl|Hl].
    + apply (map_chr_no_colon _ Hsy). rewrite <- Hl. apply in_or_app. right. left. reflexivity.
    + assert (Hql : ~ In 58 (ascii_lower q)) by (intros X; apply Hq, ascii_lower_colon, X).
      assert (Hpal : ~ In 58 pa).
      { apply letters_no_colon, lower_is_letter.
        destruct Hpa as [-> | ->]; [apply (wf_cash_lower net W)|apply (wf_slp_lower net W)]. }
      destruct (colon_unique _ _ _ _ Hl Hql Hpal) as [E _]. destruct Hpa; congruence.
  - unfold tail_path in Ht. destruct (_ || _).
    + destruct (hex_decode (q ++ 58 :: rest)) as [ser|] eqn:Eh; [|discriminate].
      apply (hex_decode_canonical _ _ Eh). exact Hin.
    + destruct (legacy_path_canonical P _ _ _ _ _ Ht) as (id & hsh & _ & _ & Es & _).
      rewrite Es in Hin. unfold check_encode in Hin.
      pose proof (encode_alphabet ((id :: hsh) ++ checksum (id :: hsh))) as A.
      rewrite Forall_forall in A. apply alphabet_no_colon. apply A. exact Hin.
Qed.

(* a string containing a colon can only ever be taken by a CashAddr attempt (hex digits and the
   Base58 alphabet have no colon): for prefix-qualified strings "not a cash address" is "rejected" *)
Lemma colon_only_cash s a : In 58 s -> decode_address net rp rs s = Ok a -> is_cash a = true.
Proof.
  intros Hin Hdec.
  destruct (decode_cases P ec_parse net rp rs _ a Hdec) as [Hc|(f & Ht)]; [exact Hc|]. exfalso.
  unfold tail_path in Ht. destruct (_ || _).
  - destruct (hex_decode s) as [ser|] eqn:Eh; [|discriminate].
    apply (hex_decode_canonical _ _ Eh). exact Hin.
  - destruct (legacy_path_canonical P _ _ _ _ _ Ht) as (id & hsh & _ & _ & Es & _).
    rewrite Es in Hin. unfold check_encode in Hin.
    pose proof (encode_alphabet ((id :: hsh) ++ checksum (id :: hsh))) as A.
    rewrite Forall_forall in A. apply alphabet_no_colon. apply A. exact Hin.
Qed.

Corollary prefixed_not_cash_rejected s : In 58 s ->
  (forall a, decode_address net rp rs s = Ok a -> is_cash a = false) ->
  forall a, decode_address net rp rs s <> Ok a.
Proof.
  intros Hin Hnc a Hd. pose proof (colon_only_cash s a Hin Hd) as H1. rewrite (Hnc a Hd) in H1. discriminate.
Qed.

(* public-key format byte: only 02, 03, 04, 06, 07 *)
Theorem pubkey_format_strict s fmt pt id : decode_address net rp rs s = Ok (PubKey fmt pt id) ->
  exists b0 t, hex_decode s = Some (b0 :: t) /\ ec_parse (b0 :: t) = Some pt /\
    ((b0 = 2 \/ b0 = 3) /\ fmt = PKFCompressed \/ (b0 = 6 \/ b0 = 7) /\ fmt = PKFHybrid \/ b0 = 4 /\ fmt = PKFUncompressed).
Proof.
  intros H. destruct (decode_cases P ec_parse net rp rs s _ H) as [Hc|(f & Ht)]; [discriminate|].
  unfold tail_path in Ht. destruct (_ || _).
  2:{ destruct (legacy_path_canonical P _ _ _ _ _ Ht) as (i & hh & [E|E] & _); discriminate. }
  destruct (hex_decode s) as [ser|] eqn:Eh; [|discriminate].
  rewrite new_pubkey_eq in Ht. destruct (ec_parse ser) as [pt'|] eqn:Ep; [|discriminate].
  destruct ser as [|b0 t]; [discriminate|]. destruct (fmt_of_byte b0) as [f'|] eqn:Ef; [|discriminate].
  injection Ht as <- <- <-. exists b0, t. split; [reflexivity|]. split; [exact Ep|].
  unfold fmt_of_byte in Ef.
  destruct ((b0 =? 2) || (b0 =? 3)) eqn:E1; [injection Ef as <-; left; split; [lia|reflexivity]|].
  destruct ((b0 =? 6) || (b0 =? 7)) eqn:E2; [injection Ef as <-; right; left; split; [lia|reflexivity]|].
  destruct (b0 =? 4) eqn:E3; [injection Ef as <-; right; right; split; [lia|reflexivity]|discriminate].
Qed.

(* ---------- network membership of what is accepted ---------- *)
Theorem cash_is_for_net s a : decode_address net rp rs s = Ok a -> is_cash a = true ->
  (addr_prefix P a = cash_prefix net \/ addr_prefix P a = slp_prefix net) /\
  (addr_prefix P a <> slp_prefix net -> is_for_net P a net = true) /\
  (forall n', is_for_net P a n' = true <-> cash_prefix n' = addr_prefix P a).
Proof.
  intros Hd Hc.
  destruct (decode_cash_canonical ripemd160 P ec_parse ec_ser net rp rs s a W Hd Hc) as
    (v & n & te & td & pa & h & enc & S & _ & _ & -> & Hpa & _).
  assert (E : addr_prefix P (mk_cash td pa h) = pa) by (destruct S; reflexivity). rewrite E.
  assert (F : forall n', is_for_net P (mk_cash td pa h) n' = list_eqb pa (cash_prefix n')) by (intros; destruct S; reflexivity).
  split; [exact Hpa|]. split.
  - intros Hns. rewrite F. apply list_eqb_eq. destruct Hpa; congruence.
  - intros n'. rewrite F, list_eqb_eq. split; congruence.
Qed.

Theorem legacy_nets_exact s a : decode_address net rp rs s = Ok a -> is_cash a = false ->
  (forall f pt id, a <> PubKey f pt id) ->
  exists id hsh, length hsh = 20%nat /\ s = check_encode hsh id /\
    ((a = LegPKH id hsh /\ mem id rp = true /\ forall n', is_for_net P a n' = true <-> pkh_id n' = id) \/
     (a = LegSH id hsh /\ mem id rs = true /\ forall n', is_for_net P a n' = true <-> sh_id n' = id)).
Proof.
  intros Hd Hc Hnp.
  destruct (decode_cases P ec_parse net rp rs s a Hd) as [X|(f & Ht)]; [congruence|].
  unfold tail_path in Ht. destruct (_ || _).
  { destruct (hex_decode s); [|discriminate]. rewrite new_pubkey_eq in Ht.
    destruct (ec_parse l); [|discriminate]. destruct l; [discriminate|]. destruct (fmt_of_byte n); [|discriminate].
    injection Ht as <-. exfalso. eapply Hnp. reflexivity. }
  destruct (legacy_path_canonical P _ _ _ _ _ Ht) as (id & hsh & Hor & Hl & Es & M1 & M2).
  exists id, hsh. split; [exact Hl|]. split; [exact Es|].
  destruct Hor as [-> | ->]; [left|right]; (split; [reflexivity|]); (split; [auto|]);
    intros n'; cbn [is_for_net]; rewrite N.eqb_eq; split; congruence.
Qed.

(* the Base58Check branch accepts nothing but the canonical string *)
Theorem legacy_canonical s a : decode_address net rp rs s = Ok a -> is_cash a = false ->
  (forall f pt id, a <> PubKey f pt id) -> encode_address a = Ok s.
Proof.
  intros Hd Hc Hnp. destruct (legacy_nets_exact s a Hd Hc Hnp) as (id & hsh & Hl & Es & Hor).
  assert (He : encode_legacy hsh id = Ok s).
  { unfold encode_legacy, ripemd160_size. rewrite Hl. cbn [Nat.ltb Nat.leb]. rewrite <- Hl, firstn_all, Es. reflexivity. }
  destruct Hor as [(-> & _)|(-> & _)]; exact He.
Qed.
End Reject.

(* The C01 / C02 theorems in closed form: the dependencies (RIPEMD-160, secp256k1 parse and
   serialise) are bundled in a record and quantified over; what is assumed of them is stated as
   explicit premises of the theorems that need it.  Props/C01.v and Props/C02.v restate these. *)
From BU Require Import Lib.Bytes Lib.PolyMod Lib.Sha256 Gen.Xbchutil Gen.Nets
  Base58.Base58 Base58.Base58Proofs CashAddr.CashAddr Checksum.StepFacts Checksum.Valid
  Address.Bits Address.BitsProofs Address.Address Address.CashProofs Address.AddressProofs
  Address.DecodeProofs Address.LegacyProofs Address.RejectProofs Address.Spec Address.SpecProofs.
From Coq Require Import ZifyBool ZifyN ZifyNat.

Record Deps := {
  d_ripemd160 : list N -> list N;        (* golang.org/x/crypto/ripemd160 *)
  d_P : Type;                            (* a parsed secp256k1 public key *)
  d_parse : list N -> option d_P;        (* bchec.ParsePubKey *)
  d_ser : N -> d_P -> list N }.          (* bchec Serialize{Uncompressed,Compressed,Hybrid} by PubKeyFormat *)

Definition Addr (D : Deps) : Type := addr (d_P D).
Definition enc (D : Deps) : Addr D -> res (list N) := encode_address (d_ripemd160 D) (d_P D) (d_ser D).
Definition str (D : Deps) : Addr D -> res (list N) := addr_string (d_ripemd160 D) (d_P D) (d_ser D).
Definition dec (D : Deps) (n : net) (s : list N) : res (Addr D) :=
  decode_address (d_P D) (d_parse D) n registered_pkh_ids registered_sh_ids s.
Definition for_net (D : Deps) (a : Addr D) (n : net) : bool := is_for_net (d_P D) a n.

(* a cash-format address by the decoder's type tag: 0 P2PKH, 1 P2SH, 2 P2SH32 *)
Definition cash_addr (D : Deps) (td : N) (prefix h : list N) : Addr D := mk_cash (d_P D) td prefix h.

(* serialisations have the announced length and first byte, and parse back *)
Record EC_roundtrip (D : Deps) : Prop := {
  ec_len : forall fmt pt, length (d_ser D fmt pt) = if fmt =? PKFCompressed then 33%nat else 65%nat;
  ec_bytes : forall fmt pt, Bytes (d_ser D fmt pt);
  ec_parse_ser : forall fmt pt, fmt = PKFUncompressed \/ fmt = PKFCompressed \/ fmt = PKFHybrid ->
      d_parse D (d_ser D fmt pt) = Some pt /\
      exists b0 t, d_ser D fmt pt = b0 :: t /\ fmt_of_byte b0 = Some fmt }.

(* serialise inverts parse on the encodings NewAddressPubKey lets through *)
Definition EC_canonical (D : Deps) : Prop :=
  forall ser pt b0 t f, d_parse D ser = Some pt -> ser = b0 :: t -> fmt_of_byte b0 = Some f -> d_ser D f pt = ser.

(* ---------------- C01 ---------------- *)
Theorem decode_encode_cash : forall (D : Deps) (net : net), wf_net net = true ->
  forall slp : bool, (slp = true -> has_slp net = true /\ slp_sep net = true) ->
  forall v n te td h, shape v n te td -> length h = n -> Bytes h ->
  let prefix := net_prefix net slp in
  let a := cash_addr D td prefix h in
  exists s, enc D a = Ok s /\ str D a = Ok s /\
    dec D net s = Ok a /\ dec D net (ascii_upper s) = Ok a /\
    dec D net (prefix ++ 58 :: s) = Ok a /\ dec D net (ascii_upper (prefix ++ 58 :: s)) = Ok a /\
    (slp = false -> for_net D a net = true).
Proof.
  intros D net Hw slp Hslp v n te td h S Hn Hb prefix a.
  destruct (decode_renderings (d_ripemd160 D) (d_P D) (d_parse D) (d_ser D) net registered_pkh_ids registered_sh_ids
              (wf_net_WF net Hw) slp Hslp v n te td h S Hn Hb) as (s & H1 & _ & _ & _ & H2 & H3 & H4 & H5).
  exists s. repeat split; auto.
  - unfold str, a, cash_addr. unfold enc in H1. destruct S; exact H1.
  - intros ->. unfold for_net, a, cash_addr, prefix. destruct S; cbn; apply list_eqb_refl.
Qed.

Theorem decode_encode_legacy : forall (D : Deps) (net : Nets.net), wf_net net = true ->
  forall (id : N) (h : list N) (sh : bool), Bytes h -> length h = 20%nat -> id < 256 ->
  mem id registered_pkh_ids = negb sh -> mem id registered_sh_ids = sh ->
  let a : Addr D := if sh then LegSH id h else LegPKH id h in
  exists s, enc D a = Ok s /\ str D a = Ok s /\ s = check_encode h id /\ dec D net s = Ok a.
Proof.
  intros D net Hw id h sh Hb Hl Hid Hp Hs.
  exact (LegacyProofs.decode_encode_legacy (d_ripemd160 D) (d_P D) (d_parse D) (d_ser D) net _ _ id h sh
           (wf_net_WF net Hw) Hb Hl Hid Hp Hs).
Qed.

Theorem decode_string_pubkey : forall (D : Deps) (net : Nets.net), wf_net net = true -> EC_roundtrip D ->
  forall fmt pt, fmt = PKFUncompressed \/ fmt = PKFCompressed \/ fmt = PKFHybrid ->
  let a : Addr D := PubKey fmt pt (pkh_id net) in
  exists s, str D a = Ok s /\ s = hex_encode (d_ser D fmt pt) /\
    dec D net s = Ok a /\ dec D net (ascii_upper s) = Ok a /\ for_net D a net = true.
Proof.
  intros D net Hw HE fmt pt Hf.
  destruct (ec_parse_ser D HE fmt pt Hf) as (Hp & Hb0).
  exact (LegacyProofs.decode_string_pubkey (d_ripemd160 D) (d_P D) (d_parse D) (d_ser D) (ec_len D HE) (ec_bytes D HE)
           net _ _ fmt pt (wf_net_WF net Hw) Hf Hp Hb0).
Qed.

Theorem encode_is_spec : forall (D : Deps),
  (forall v n te td prefix h, shape v n te td -> length h = n -> Bytes h ->
     exists s, enc D (cash_addr D td prefix h) = Ok s /\ spec_cashaddr prefix te h = Some s) /\
  (forall id h, length h = 20%nat ->
     let s := Base58.encode ((id :: h) ++ firstn 4 (sha256 (sha256 (id :: h)))) in
     enc D (LegPKH id h) = Ok s /\ enc D (LegSH id h) = Ok s) /\
  (forall fmt pt id, length (d_ripemd160 D (sha256 (serialize (d_P D) (d_ser D) fmt pt))) = 20%nat ->
     let h := d_ripemd160 D (sha256 (serialize (d_P D) (d_ser D) fmt pt)) in
     enc D (PubKey fmt pt id) = Ok (Base58.encode ((id :: h) ++ firstn 4 (sha256 (sha256 (id :: h)))))).
Proof.
  intros D. split; [|split].
  - intros v n te td prefix h. apply encode_is_spec_cash.
  - intros id h Hl. apply encode_is_spec_legacy. exact Hl.
  - intros fmt pt id Hl. apply encode_is_spec_pubkey. exact Hl.
Qed.

Theorem script_constructors_hash : forall (D : Deps) (net : Nets.net) (script : list N),
  (forall x, length (d_ripemd160 D x) = 20%nat) ->
  new_sh_script (d_ripemd160 D) (d_P D) net script = Ok (SH (cash_prefix net) (d_ripemd160 D (sha256 script))) /\
  new_sh32_script (d_P D) net script = Ok (SH32 (cash_prefix net) (sha256 (sha256 script))) /\
  new_leg_sh_script (d_ripemd160 D) (d_P D) net script = Ok (LegSH (sh_id net) (d_ripemd160 D (sha256 script))).
Proof. intros D net script. apply SpecProofs.script_constructors_hash. Qed.

(* the exported constructors build exactly the values the round-trip theorems are about, and
   ScriptAddress() of the result is the hash / serialisation that was handed in *)
Theorem constructors_build : forall (D : Deps) (net : Nets.net) (slp : bool) (h : list N),
  (length h = 20%nat ->
     new_pkh (d_P D) net slp h = Ok (PKH (net_prefix net slp) h) /\
     new_sh (d_P D) net slp h = Ok (SH (net_prefix net slp) h) /\
     new_leg_pkh (d_P D) (pkh_id net) h = Ok (LegPKH (pkh_id net) h) /\
     new_leg_sh (d_P D) (sh_id net) h = Ok (LegSH (sh_id net) h)) /\
  (length h = 32%nat -> new_sh32 (d_P D) net slp h = Ok (SH32 (net_prefix net slp) h)) /\
  (forall p id, script_address (d_P D) (d_ser D) (PKH p h) = h /\ script_address (d_P D) (d_ser D) (SH p h) = h /\
                script_address (d_P D) (d_ser D) (SH32 p h) = h /\ script_address (d_P D) (d_ser D) (LegPKH id h) = h /\
                script_address (d_P D) (d_ser D) (LegSH id h) = h) /\
  (EC_roundtrip D -> forall fmt pt, fmt = PKFUncompressed \/ fmt = PKFCompressed \/ fmt = PKFHybrid ->
     new_pubkey (d_P D) (d_parse D) net (d_ser D fmt pt) = Ok (PubKey fmt pt (pkh_id net)) /\
     script_address (d_P D) (d_ser D) (PubKey fmt pt (pkh_id net)) = d_ser D fmt pt).
Proof.
  intros D net slp h. split; [|split; [|split]].
  - intros Hl. unfold new_pkh, new_sh, new_leg_pkh, new_leg_sh, ripemd160_size. rewrite Hl. cbn. auto.
  - intros Hl. unfold new_sh32, sha256_size. rewrite Hl. reflexivity.
  - intros p id. cbn. auto.
  - intros HE fmt pt Hf. destruct (ec_parse_ser D HE fmt pt Hf) as (Hp & b0 & t & Es & Hb0). split.
    + rewrite new_pubkey_eq, Hp, Es, Hb0. reflexivity.
    + unfold script_address, serialize.
      destruct Hf as [ -> | [ -> | -> ] ]; reflexivity.
Qed.

(* the six networks of chaincfg as linked: well-formed, SLP prefixes separated from the cash
   prefixes by the checksum, legacy ids registered for exactly one kind *)
Theorem six_nets_ok :
  Forall (fun n => wf_net n = true /\ (has_slp n = true -> slp_sep n = true) /\
                   mem (pkh_id n) registered_pkh_ids = true /\ mem (pkh_id n) registered_sh_ids = false /\
                   mem (sh_id n) registered_sh_ids = true /\ mem (sh_id n) registered_pkh_ids = false /\
                   pkh_id n < 256 /\ sh_id n < 256) all_nets.
Proof. repeat constructor; try reflexivity; try (vm_compute; reflexivity). Qed.

(* ---------------- C02 ---------------- *)
(* the normal form of an accepted string: ASCII lower-casing and one optional "<prefix>:" for the
   cash format, ASCII lower-casing for hex public keys, nothing for Base58Check *)
Definition canonical_of (D : Deps) (a : Addr D) (s text : list N) : Prop :=
  match a with
  | PKH p _ | SH p _ | SH32 p _ => ascii_lower s = text \/ ascii_lower s = p ++ 58 :: text
  | LegPKH _ _ | LegSH _ _ => s = text
  | PubKey _ _ _ => ascii_lower s = text
  end.

Theorem decode_canonical : forall (D : Deps) (net : Nets.net) (s : list N) (a : Addr D),
  wf_net net = true -> EC_canonical D -> dec D net s = Ok a ->
  exists text, str D a = Ok text /\ canonical_of D a s text.
Proof.
  intros D net s a Hw HE Hd. pose proof (wf_net_WF net Hw) as W.
  destruct (is_cash (d_P D) a) eqn:Hc.
  - destruct (decode_cash_canonical (d_ripemd160 D) (d_P D) (d_parse D) (d_ser D) net _ _ s a W Hd Hc) as
      (v & n & te & td & pa & h & e & S & _ & _ & -> & _ & _ & He & Hl).
    exists e. split; [destruct S; exact He|]. destruct S; exact Hl.
  - destruct a as [| | |id h|id h|fmt pt id]; try discriminate.
    + exists s. split; [|reflexivity].
      apply (legacy_canonical (d_ripemd160 D) (d_P D) (d_parse D) (d_ser D) net _ _ s _ Hd Hc). intros; discriminate.
    + exists s. split; [|reflexivity].
      apply (legacy_canonical (d_ripemd160 D) (d_P D) (d_parse D) (d_ser D) net _ _ s _ Hd Hc). intros; discriminate.
    + exists (ascii_lower s). split; [|reflexivity].
      apply (pubkey_canonical (d_ripemd160 D) (d_P D) (d_parse D) (d_ser D) net _ _ s fmt pt id HE Hd).
Qed.

(* hence decoding is injective up to the normal form *)
Corollary decode_injective : forall (D : Deps) (net : Nets.net) (s1 s2 : list N) (a : Addr D),
  wf_net net = true -> EC_canonical D -> dec D net s1 = Ok a -> dec D net s2 = Ok a ->
  exists text, canonical_of D a s1 text /\ canonical_of D a s2 text.
Proof.
  intros D net s1 s2 a Hw HE H1 H2.
  destruct (decode_canonical D net s1 a Hw HE H1) as (t1 & E1 & C1).
  destruct (decode_canonical D net s2 a Hw HE H2) as (t2 & E2 & C2).
  rewrite E1 in E2. injection E2 as <-. exists t1. auto.
Qed.

Definition not_cash (D : Deps) (r : res (Addr D)) : Prop := forall a, r = Ok a -> is_cash (d_P D) a = false.

Theorem unknown_version_rejected : forall (D : Deps) (net : Nets.net) (s q d p : list N), wf_net net = true ->
  Bytes d -> convert_bits d 8 5 true = Ok p ->
  (forall v h, d = v :: h -> ~ shape_ok v (length h)) ->
  ~ In 58 q -> spells s q p (create_checksum q p) -> not_cash D (dec D net s).
Proof.
  intros D net s q d p Hw Hd Hp Hbad Hq Hs a Ha.
  exact (RejectProofs.unknown_version_rejected (d_ripemd160 D) (d_P D) (d_parse D) (d_ser D) net _ _ (wf_net_WF net Hw)
           s q d p a Hd Hp Hbad Hq Hs Ha).
Qed.

Theorem wrong_length_rejected : forall (D : Deps) (net : Nets.net) (s q d p : list N), wf_net net = true ->
  Bytes d -> convert_bits d 8 5 true = Ok p -> length d <> 21%nat -> length d <> 33%nat ->
  ~ In 58 q -> spells s q p (create_checksum q p) -> not_cash D (dec D net s).
Proof.
  intros D net s q d p Hw Hd Hp H1 H2 Hq Hs a Ha.
  exact (RejectProofs.wrong_length_rejected (d_ripemd160 D) (d_P D) (d_parse D) (d_ser D) net _ _ (wf_net_WF net Hw)
           s q d p a Hd Hp H1 H2 Hq Hs Ha).
Qed.

Theorem nonzero_padding_rejected : forall (D : Deps) (net : Nets.net) (s q p : list N), wf_net net = true ->
  Forall (fun x => x < 32) p ->
  (5 <= (5 * lenN p) mod 8 \/ (val 5 p) mod 2 ^ ((5 * lenN p) mod 8) <> 0) ->
  ~ In 58 q -> spells s q p (create_checksum q p) -> not_cash D (dec D net s).
Proof.
  intros D net s q p Hw Hp Hbad Hq Hs a Ha.
  exact (RejectProofs.nonzero_padding_rejected (d_ripemd160 D) (d_P D) (d_parse D) (d_ser D) net _ _ (wf_net_WF net Hw)
           s q p a Hp (strict_refuses p Hp Hbad) Hq Hs Ha).
Qed.

Theorem bad_checksum_rejected : forall (D : Deps) (net : Nets.net) (s q p ck : list N), wf_net net = true ->
  Forall (fun x => x < 32) p -> Forall (fun x => x < 32) ck -> length ck = 8%nat -> ~ In 58 q ->
  spells s q p ck ->
  ck <> create_checksum (cash_prefix net) p -> ck <> create_checksum (slp_prefix net) p ->
  not_cash D (dec D net s).
Proof.
  intros D net s q p ck Hw Hp Hck Hl Hq Hs H1 H2 a Ha.
  exact (RejectProofs.bad_checksum_rejected (d_ripemd160 D) (d_P D) (d_parse D) (d_ser D) net _ _ (wf_net_WF net Hw)
           s q p ck a Hp Hck Hl Hq Hs H1 H2 Ha).
Qed.

Theorem foreign_prefix_rejected : forall (D : Deps) (net : Nets.net) (q rest : list N), wf_net net = true ->
  ~ In 58 q -> ascii_lower q <> cash_prefix net -> ascii_lower q <> slp_prefix net ->
  forall a, dec D net (q ++ 58 :: rest) <> Ok a.
Proof.
  intros D net q rest Hw.
  exact (RejectProofs.foreign_prefix_rejected (d_ripemd160 D) (d_P D) (d_parse D) (d_ser D) net _ _ (wf_net_WF net Hw) q rest).
Qed.

(* for a prefix-qualified string (one containing ':') "not a cash address" means rejected outright *)
Theorem prefixed_not_cash_rejected : forall (D : Deps) (net : Nets.net) (s : list N), wf_net net = true ->
  In 58 s -> not_cash D (dec D net s) -> forall a, dec D net s <> Ok a.
Proof.
  intros D net s Hw Hin Hnc.
  exact (RejectProofs.prefixed_not_cash_rejected (d_P D) (d_parse D) net _ _ s Hin Hnc).
Qed.

(* an SLP-prefixed checksum never verifies under the cash prefix (and conversely): six nets *)
Theorem slp_cash_separated :
  Forall (fun n => has_slp n = true -> forall p, Forall (fun x => x < 32) p ->
            verify_checksum (cash_prefix n) (p ++ create_checksum (slp_prefix n) p) = false /\
            verify_checksum (slp_prefix n) (p ++ create_checksum (cash_prefix n) p) = false) all_nets.
Proof.
  pose proof all_nets_slp_sep as H. rewrite forallb_forall in H. apply Forall_forall. intros n Hin Hs p Hp.
  specialize (H n Hin). rewrite Hs in H. cbn [negb orb] in H. unfold slp_sep in H.
  split; apply checksum_separates; auto; lia.
Qed.

Theorem pubkey_format_strict : forall (D : Deps) (net : Nets.net) (s : list N) fmt pt id,
  dec D net s = Ok (PubKey fmt pt id) ->
  exists b0 t, hex_decode s = Some (b0 :: t) /\ d_parse D (b0 :: t) = Some pt /\
    ((b0 = 2 \/ b0 = 3) /\ fmt = PKFCompressed \/ (b0 = 6 \/ b0 = 7) /\ fmt = PKFHybrid \/ b0 = 4 /\ fmt = PKFUncompressed).
Proof.
  intros D net s fmt pt id.
  exact (RejectProofs.pubkey_format_strict (d_ripemd160 D) (d_P D) (d_parse D) (d_ser D) net _ _ s fmt pt id).
Qed.

Theorem cash_is_for_net : forall (D : Deps) (net : Nets.net) (s : list N) (a : Addr D), wf_net net = true ->
  dec D net s = Ok a -> is_cash (d_P D) a = true ->
  (addr_prefix (d_P D) a = cash_prefix net \/ addr_prefix (d_P D) a = slp_prefix net) /\
  (addr_prefix (d_P D) a <> slp_prefix net -> for_net D a net = true) /\
  (forall n', for_net D a n' = true <-> cash_prefix n' = addr_prefix (d_P D) a).
Proof.
  intros D net s a Hw.
  exact (RejectProofs.cash_is_for_net (d_ripemd160 D) (d_P D) (d_parse D) (d_ser D) net _ _ (wf_net_WF net Hw) s a).
Qed.

Theorem legacy_nets_exact : forall (D : Deps) (net : Nets.net) (s : list N) (a : Addr D),
  dec D net s = Ok a -> is_cash (d_P D) a = false -> (forall f pt id, a <> PubKey f pt id) ->
  exists id h, length h = 20%nat /\ s = check_encode h id /\
    ((a = LegPKH id h /\ mem id registered_pkh_ids = true /\ forall n', for_net D a n' = true <-> pkh_id n' = id) \/
     (a = LegSH id h /\ mem id registered_sh_ids = true /\ forall n', for_net D a n' = true <-> sh_id n' = id)).
Proof.
  intros D net s a.
  exact (RejectProofs.legacy_nets_exact (d_P D) (d_parse D) net _ _ s a).
Qed.

(* ---------------- the hypotheses are satisfiable: concrete instances ---------------- *)
Definition D0 : Deps := {| d_ripemd160 := fun _ => repeat 0 20; d_P := unit; d_parse := fun _ => None; d_ser := fun _ _ => [] |}.

Example mainnet_p2pkh_vector :
  dec D0 mainnet [113;112;109;50;113;115;122;110;104;107;115;50;51;122;55;54;50;57;109;109;115;54;115;52;99;119;101;102;55;52;118;99;119;118;121;50;50;103;100;120;54;97]
  = Ok (PKH (cash_prefix mainnet) spec_example_hash).
Proof. vm_compute. reflexivity. Qed.

(* a version byte with the reserved bit set, 20-byte hash, valid checksum: not a cash address *)
Example reserved_bit_witness :
  let d := 128 :: spec_example_hash in
  exists p, convert_bits d 8 5 true = Ok p /\ (forall v h, d = v :: h -> ~ shape_ok v (length h)) /\
    is_ok (dec D0 mainnet (map chr (p ++ create_checksum (cash_prefix mainnet) p))) = false.
Proof.
  eexists. split; [vm_compute; reflexivity|]. split.
  - intros v h E. injection E as <- <-. unfold shape_ok. cbn. lia.
  - vm_compute. reflexivity.
Qed.

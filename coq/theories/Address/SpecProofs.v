(* The model's encoder produces exactly the specification's string (Address/Spec.v), and the
   script-taking constructors hash the script.  The tie between the specification's literals
   and the constants extracted from the Go source is [spec_tie] (by computation: a changed
   literal in address.go breaks it at build time). *)
From BU Require Import Lib.Bytes Lib.PolyMod Lib.Sha256 Gen.Xbchutil Gen.Nets
  Base58.Base58 CashAddr.CashAddr Checksum.StepFacts Checksum.Valid
  Address.Bits Address.BitsProofs Address.Address Address.CashProofs Address.AddressProofs
  Address.DecodeProofs Address.Spec.
From Coq Require Import ZifyBool ZifyN ZifyNat.

Lemma spec_tie : spec_params = cash_params /\ spec_charset = charset /\ CashAddr.L 0 = 1 /\ CashAddr.L 19 = 1 /\
  lit lits_expandPrefix 2 = 31.
Proof. repeat split. Qed.

Lemma spec_polymod_eq v : spec_polymod v = polymod v.
Proof. reflexivity. Qed.

Lemma spec_checksum_eq prefix payload : spec_checksum prefix payload = create_checksum prefix payload.
Proof.
  unfold spec_checksum, create_checksum, expand_prefix. rewrite spec_polymod_eq, <- app_assoc. reflexivity.
Qed.

Lemma be_value_val l : forall acc, be_value l acc = fold_left (fun a x => a * 2 ^ 8 + x) l acc.
Proof. induction l as [|b t IH]; intros acc; cbn [be_value fold_left]; [reflexivity|]. rewrite IH. reflexivity. Qed.

Lemma packbe_val l : packbe l = val 5 l.
Proof. reflexivity. Qed.

Lemma spec_payload_eq d p : Bytes d -> convert_bits d 8 5 true = Ok p -> spec_payload d = p.
Proof.
  intros Hd Hp. destruct (pack_spec d Hd) as (p' & pd & Hp' & H32 & Hpd & Hlen & Hv).
  rewrite Hp in Hp'. injection Hp' as <-.
  unfold spec_payload. fold (lenN d). rewrite (be_value_val d 0). fold (val 8 d).
  assert (Em : (8 * lenN d + 4) / 5 = lenN p) by lia. rewrite Em.
  assert (Epd : 5 * lenN p - 8 * lenN d = pd) by lia. rewrite Epd, <- Hv, <- packbe_val.
  unfold lenN. rewrite Nat2N.id. apply unpack_packbe. exact H32.
Qed.

Section Spec.
Variable ripemd160 : list N -> list N.
Variable P : Type.
Variable ec_ser : N -> P -> list N.
Notation encode_address := (encode_address ripemd160 P ec_ser).

(* type bits of the version byte: 0 = P2PKH, 1 = P2SH (20 or 32 byte hash) *)
Theorem encode_is_spec_cash v n te td pfx h : shape v n te td -> length h = n -> Bytes h ->
  exists s, encode_address (mk_cash P td pfx h) = Ok s /\ spec_cashaddr pfx te h = Some s.
Proof.
  intros S Hn Hb.
  destruct (check_encode_cash_ok v n te td h pfx S Hn Hb) as (p & Hp & Hp32 & _ & _ & He).
  exists (map chr (p ++ create_checksum pfx p)). split.
  - destruct S; exact He.
  - unfold spec_cashaddr. rewrite Hn.
    assert (Hv : Bytes (v :: h)) by (apply Bytes_cons; split; [destruct S; lia|exact Hb]).
    assert (E : spec_size_code (N.of_nat n) = Some (v - te * 8) /\ spec_version te (v - te * 8) = v) by (destruct S; split; reflexivity).
    destruct E as (E1 & E2). rewrite E1. cbv zeta. rewrite E2, (spec_payload_eq _ _ Hv Hp), spec_checksum_eq.
    reflexivity.
Qed.

(* Base58Check: Base58 of version || hash || first four bytes of SHA256(SHA256(version || hash)) *)
Theorem encode_is_spec_legacy id h : length h = 20%nat ->
  encode_address (LegPKH id h) = Ok (Base58.encode ((id :: h) ++ firstn 4 (sha256 (sha256 (id :: h))))) /\
  encode_address (LegSH id h) = Ok (Base58.encode ((id :: h) ++ firstn 4 (sha256 (sha256 (id :: h))))).
Proof.
  intros Hl. cbn [Address.encode_address]. unfold encode_legacy, ripemd160_size. rewrite Hl. cbn [Nat.ltb Nat.leb].
  rewrite <- Hl, firstn_all. split; reflexivity.
Qed.

Theorem encode_is_spec_pubkey fmt pt id : length (ripemd160 (sha256 (serialize P ec_ser fmt pt))) = 20%nat ->
  let h := ripemd160 (sha256 (serialize P ec_ser fmt pt)) in
  encode_address (PubKey fmt pt id) = Ok (Base58.encode ((id :: h) ++ firstn 4 (sha256 (sha256 (id :: h))))).
Proof.
  intros Hl. cbv zeta. cbn [Address.encode_address]. unfold encode_legacy, ripemd160_size, hash160. rewrite Hl. cbn [Nat.ltb Nat.leb].
  rewrite <- Hl, firstn_all. reflexivity.
Qed.

(* the script-taking constructors hash the script: HASH160 for the 20-byte kinds, SHA256d for P2SH32 *)
Theorem script_constructors_hash net script :
  (forall x, length (ripemd160 x) = 20%nat) ->
  new_sh_script ripemd160 P net script = Ok (SH (cash_prefix net) (ripemd160 (sha256 script))) /\
  new_sh32_script P net script = Ok (SH32 (cash_prefix net) (sha256 (sha256 script))) /\
  new_leg_sh_script ripemd160 P net script = Ok (LegSH (sh_id net) (ripemd160 (sha256 script))).
Proof.
  intros Hr. unfold new_sh_script, new_sh32_script, new_leg_sh_script, new_sh, new_sh32, new_leg_sh, hash160, hash256.
  rewrite Hr, sha256_length_32. repeat split.
Qed.
End Spec.

(* the specification's published vectors *)
Example spec_vector_p2pkh :
  spec_cashaddr ascii_bitcoincash 0 spec_example_hash =
  Some [113;112;109;50;113;115;122;110;104;107;115;50;51;122;55;54;50;57;109;109;115;54;115;52;99;119;101;102;55;52;118;99;119;118;121;50;50;103;100;120;54;97].
Proof. vm_compute. reflexivity. Qed.   (* qpm2qsznhks23z7629mms6s4cwef74vcwvy22gdx6a *)

Example spec_vector_p2sh :
  spec_cashaddr ascii_bitcoincash 1 spec_example_hash =
  Some [112;112;109;50;113;115;122;110;104;107;115;50;51;122;55;54;50;57;109;109;115;54;115;52;99;119;101;102;55;52;118;99;119;118;110;48;104;56;50;57;112;113].
Proof. vm_compute. reflexivity. Qed.   (* ppm2qsznhks23z7629mms6s4cwef74vcwvn0h829pq *)

Example spec_vector_legacy :
  Base58.encode ((0 :: spec_example_hash) ++ firstn 4 (sha256 (sha256 (0 :: spec_example_hash)))) =
  [49;66;112;69;105;54;68;102;68;65;85;70;100;55;71;116;105;116;116;76;83;100;66;101;89;74;118;99;111;97;86;103;103;117].
Proof. vm_compute. reflexivity. Qed.   (* 1BpEi6DfDAUFd7GtittLSdBeYJvcoaVggu *)

(* Address layer, part 2: the dispatch of DecodeAddress.  Canonicity of accepted cash-format
   strings, which error/accept class each attempt can produce, and the round trip for the three
   cash kinds in the four renderings. *)
From BU Require Import Lib.Bytes Lib.PolyMod Gen.Xbchutil Gen.Nets Base58.Base58 Base58.Base58Proofs
  CashAddr.CashAddr Checksum.StepFacts Checksum.Valid
  Address.Bits Address.BitsProofs Address.Address Address.CashProofs Address.AddressProofs.
From Coq Require Import ZifyBool ZifyN ZifyNat.

Section Decode.
Variable ripemd160 : list N -> list N.
Variable P : Type.
Variable ec_parse : list N -> option P.
Variable ec_ser : N -> P -> list N.

Notation addr := (addr P).
Notation encode_address := (encode_address ripemd160 P ec_ser).
Notation addr_string := (addr_string ripemd160 P ec_ser).
Notation decode_address := (decode_address P ec_parse).

Definition is_cash (a : addr) : bool :=
  match a with PKH _ _ | SH _ _ | SH32 _ _ => true | _ => false end.
Definition addr_prefix (a : addr) : list N :=
  match a with PKH p _ | SH p _ | SH32 p _ => p | _ => [] end.
Definition addr_hash (a : addr) : list N :=
  match a with PKH _ h | SH _ h | SH32 _ h | LegPKH _ h | LegSH _ h => h | PubKey _ _ _ => [] end.

(* the address a decoder type tag stands for *)
Definition mk_cash (td : N) (p h : list N) : addr :=
  if td =? 0 then PKH p h else if td =? 1 then SH p h else SH32 p h.

Lemma cash_dispatch_shape v n te td net slp h : shape v n te td -> length h = n ->
  cash_dispatch P net slp h td = Ok (mk_cash td (net_prefix net slp) h) /\
  encode_address (mk_cash td (net_prefix net slp) h) = check_encode_cash h (net_prefix net slp) te.
Proof.
  intros S Hl. unfold cash_dispatch, new_pkh, new_sh, new_sh32. rewrite Hl. destruct S; split; reflexivity.
Qed.

Lemma cash_dispatch_cash net slp h td a : cash_dispatch P net slp h td = Ok a ->
  is_cash a = true /\ addr_prefix a = net_prefix net slp /\ addr_hash a = h.
Proof.
  unfold cash_dispatch, new_pkh, new_sh, new_sh32.
  repeat match goal with |- context [if ?b then _ else _] => destruct b end; try discriminate;
    intros H; injection H as <-; auto.
Qed.

Lemma new_pubkey_not_cash net ser a : new_pubkey P ec_parse net ser = Ok a -> is_cash a = false.
Proof.
  unfold new_pubkey. destruct (ec_parse ser); [|discriminate]. destruct (nth_error _ _); [|discriminate].
  repeat match goal with |- context [if ?b then _ else _] => destruct b end; try discriminate;
    intros H; injection H as <-; reflexivity.
Qed.

Lemma legacy_path_not_cash rp rs s f a : legacy_path P rp rs s f = Ok a -> is_cash a = false.
Proof.
  unfold legacy_path, new_leg_pkh, new_leg_sh. destruct (check_decode s) as [[d id]|e|k]; try discriminate.
  - repeat match goal with |- context [if ?b then _ else _] => destruct b end; try discriminate;
      intros H; injection H as <-; reflexivity.
  - repeat match goal with |- context [if ?b then _ else _] => destruct b end; discriminate.
Qed.

Lemma tail_path_not_cash net rp rs s f a : tail_path P ec_parse net rp rs s f = Ok a -> is_cash a = false.
Proof.
  unfold tail_path. destruct (_ || _).
  - destruct (hex_decode s); [apply new_pubkey_not_cash|discriminate].
  - apply legacy_path_not_cash.
Qed.

(* one attempt (cash or SLP prefix) that succeeds pins down the string *)
Lemma attempt_canonical net slp s pfx h td : WF net ->
  check_decode_cash (with_prefix net slp s) = (pfx, Ok (h, td)) ->
  exists v n te enc, shape v n te td /\ length h = n /\ Bytes h /\
    check_encode_cash h pfx te = Ok enc /\
    ((has_prefix net s = true /\ (pfx = cash_prefix net \/ pfx = slp_prefix net) /\
      ascii_lower s = pfx ++ 58 :: enc) \/
     (has_prefix net s = false /\ pfx = net_prefix net slp /\ ascii_lower s = enc)).
Proof.
  intros W H.
  destruct (check_decode_cash_canonical _ _ _ _ H) as (v & n & te & enc & S & Hn & Hb & He & Hl).
  exists v, n, te, enc. repeat split; auto.
  destruct (check_decode_cash_inv _ _ _ _ H) as (P0 & body & _ & _ & _ & _ & Hstr & HP0 & HPl & Hpfx & HB & _).
  unfold with_prefix in *. destruct (has_prefix net s) eqn:Ehp.
  - left. repeat split; auto.
    destruct (has_prefix_inv net s W Ehp) as (P1 & rest & Es & HP1 & Hor).
    rewrite Es in Hstr.
    destruct (colon_unique P1 P0 rest body Hstr (letters_no_colon _ HP1) (letters_no_colon _ HPl)) as [<- _].
    rewrite Hpfx. exact Hor.
  - right. split; [reflexivity|].
    pose proof (net_prefix_lower net slp W) as HL.
    unfold colon in Hstr. cbn [app] in Hstr.
    destruct (colon_unique (net_prefix net slp) P0 (ascii_lower s) body Hstr
                (letters_no_colon _ (lower_is_letter _ HL)) (letters_no_colon _ HPl)) as [<- <-].
    rewrite (ascii_lower_lower_word _ HL) in Hpfx. split; [exact Hpfx|].
    unfold colon in Hl. cbn [app] in Hl. rewrite ascii_lower_app in Hl. cbn [ascii_lower map] in Hl.
    fold (ascii_lower (ascii_lower s)) in Hl.
    rewrite (ascii_lower_lower_word _ HL), ascii_lower_lower, Hpfx in Hl.
    apply app_inv_head in Hl. injection Hl as Hl. exact Hl.
Qed.

(* ---------- C02: accepted cash-format strings are canonical ---------- *)
Theorem decode_cash_canonical net rp rs s a : WF net ->
  decode_address net rp rs s = Ok a -> is_cash a = true ->
  exists v n te td pa h enc, shape v n te td /\ length h = n /\ Bytes h /\ a = mk_cash td pa h /\
    (pa = cash_prefix net \/ pa = slp_prefix net) /\
    check_encode_cash h pa te = Ok enc /\ encode_address a = Ok enc /\
    (ascii_lower s = enc \/ ascii_lower s = pa ++ 58 :: enc).
Proof.
  intros W H Hc. unfold decode_address in H.
  match goal with |- ?G => set (Concl := G) end.
  destruct (_ || _); [discriminate|].
  destruct (check_decode_cash (with_prefix net false s)) as [pfx1 r1] eqn:E1.
  (* what a successful attempt yields *)
  assert (Fin : forall slp pfx h td, check_decode_cash (with_prefix net slp s) = (pfx, Ok (h, td)) ->
            (has_prefix net s = true -> pfx = net_prefix net slp) ->
            cash_dispatch P net slp h td = Ok a -> Concl).
  { intros slp pfx h td Hatt Hpfx Hdisp. subst Concl.
    destruct (attempt_canonical net slp s pfx h td W Hatt) as (v & n & te & enc & S & Hn & Hb & He & Hor).
    destruct (cash_dispatch_shape v n te td net slp h S Hn) as (Hd & Henc).
    rewrite Hd in Hdisp. injection Hdisp as <-.
    assert (Epfx : pfx = net_prefix net slp) by (destruct Hor as [(Hhp & _)|(_ & Hp & _)]; auto).
    exists v, n, te, td, (net_prefix net slp), h, enc. rewrite Henc, <- Epfx. repeat split; auto.
    - rewrite Epfx. destruct slp; auto.
    - destruct Hor as [(_ & _ & Hs)|(_ & _ & Hs)]; auto. }
  set (retry := match snd (check_decode_cash (with_prefix net true s)) with
                | Ok (decoded, typ) => cash_dispatch P net true decoded typ
                | Err e => tail_path P ec_parse net rp rs s (e =? 8)
                | Panic k => Panic k end) in H.
  (* the retry branch: only reached with the SLP prefix when the string carries a prefix *)
  assert (Retry : retry = Ok a -> (has_prefix net s = true -> r1 = snd (check_decode_cash (with_prefix net true s)) /\ pfx1 = fst (check_decode_cash (with_prefix net true s))) ->
            (has_prefix net s = true -> forall h td, r1 = Ok (h, td) -> pfx1 = slp_prefix net) -> Concl).
  { intros Hr Hsame Hslp. subst retry.
    destruct (check_decode_cash (with_prefix net true s)) as [pfx2 r2] eqn:E2. cbn [snd fst] in *.
    destruct r2 as [[h2 td2]|e|k]; [|apply tail_path_not_cash in Hr; congruence|discriminate].
    apply (Fin true pfx2 h2 td2 E2); [|exact Hr].
    intros Hhp. destruct (Hsame Hhp) as [-> ->]. apply (Hslp Hhp h2 td2 eq_refl). }
  assert (Hsame : has_prefix net s = true -> r1 = snd (check_decode_cash (with_prefix net true s)) /\ pfx1 = fst (check_decode_cash (with_prefix net true s))).
  { intros Hhp. unfold with_prefix in *. rewrite Hhp in *. rewrite E1. auto. }
  destruct r1 as [[h td]|e|k]; [| |discriminate].
  - destruct (list_eqb pfx1 (slp_prefix net)) eqn:Eslp; cbn [negb] in H.
    + apply Retry; auto. intros _ h0 td0 _. apply list_eqb_eq. exact Eslp.
    + apply (Fin false pfx1 h td E1); [|exact H].
      intros Hhp. destruct (attempt_canonical net false s pfx1 h td W E1) as (v0 & n0 & te0 & enc0 & _ & _ & _ & _ & Hor).
      destruct Hor as [(_ & [Hp|Hp] & _)|(Hf & _)]; [exact Hp| |congruence].
      exfalso. rewrite Hp, list_eqb_refl in Eslp. discriminate.
  - destruct ((e =? 8) || list_eqb pfx1 (slp_prefix net)).
    + apply Retry; auto. intros _ h0 td0 Hx. discriminate.
    + apply tail_path_not_cash in H. congruence.
Qed.

(* ---------- C01: round trip of the three cash kinds in the four renderings ---------- *)
Lemma upper_of_lower c : is_lower c = true ->
  is_upper (ascii_upper_c c) = true /\ is_letter (ascii_upper_c c) = true /\
  is_lower (ascii_upper_c c) = false /\ ascii_lower_c (ascii_upper_c c) = c.
Proof.
  intros H. rewrite ascii_lower_c_eq. unfold ascii_upper_c. rewrite H.
  unfold is_letter, is_lower, is_upper in *.
  assert (E : (65 <=? c - 32) && (c - 32 <=? 90) = true) by lia. rewrite E. repeat split; lia.
Qed.

Lemma upper_word_props pfx : Forall (fun c => is_lower c = true) pfx ->
  Forall (fun c => is_letter c = true) (ascii_upper pfx) /\ ascii_lower (ascii_upper pfx) = pfx /\
  existsb is_lower (ascii_upper pfx) = false.
Proof.
  induction 1 as [|c t Hc _ (I1 & I2 & I3)]; [repeat split; constructor|].
  destruct (upper_of_lower c Hc) as (U1 & U2 & U3 & U4).
  cbn [ascii_upper ascii_lower map existsb]. fold (ascii_upper t). fold (ascii_lower (ascii_upper t)).
  repeat split.
  - constructor; auto.
  - rewrite U4, I2. reflexivity.
  - rewrite U3, I3. reflexivity.
Qed.

Lemma lower_word_flags pfx : Forall (fun c => is_lower c = true) pfx -> existsb is_upper pfx = false.
Proof.
  induction 1 as [|c t Hc _ IH]; [reflexivity|]. cbn [existsb]. rewrite IH.
  destruct (class_disjoint c) as (D & _). destruct (D Hc) as (-> & _). reflexivity.
Qed.

(* the characters the encoder emits, and their upper-case rendering *)
Lemma enc_props syms : Forall (fun x => x < 32) syms ->
  let enc := map chr syms in
  Forall (fun c => is_alnum c = true) enc /\ existsb is_upper enc = false /\ ascii_lower enc = enc /\
  to_values enc = Ok syms /\
  Forall (fun c => is_alnum c = true) (ascii_upper enc) /\ existsb is_lower (ascii_upper enc) = false /\
  ascii_lower (ascii_upper enc) = enc /\ to_values (ascii_upper enc) = Ok syms.
Proof.
  intros H enc. subst enc.
  split; [|split; [|split; [|split; [apply to_values_chr; exact H|split; [|split; [|split; [|apply to_values_chr_upper; exact H]]]]]]];
  induction H as [|d t Hd _ IH]; try (constructor; fail); try reflexivity;
  destruct (chr_props d Hd) as (_ & _ & C3 & C4 & C5 & C6 & C7);
  cbn [map ascii_upper ascii_lower existsb]; fold (ascii_upper (map chr t)); fold (ascii_lower (map chr t));
  fold (ascii_lower (ascii_upper (map chr t))).
  - constructor; [|exact IH]. unfold is_alnum, is_letter. destruct (is_lower (chr d)); cbn in *; [reflexivity|]. rewrite C3. apply orb_true_r.
  - rewrite C4, IH. reflexivity.
  - rewrite (ascii_lower_not_upper _ C4), IH. reflexivity.
  - constructor; [exact C6|exact IH].
  - rewrite C7, IH. reflexivity.
  - rewrite C5, IH. reflexivity.
Qed.

Lemma upper_colon_app pfx enc : ascii_upper (pfx ++ 58 :: enc) = ascii_upper pfx ++ 58 :: ascii_upper enc.
Proof. unfold ascii_upper. rewrite map_app. reflexivity. Qed.

Lemma lenN_ge_nat {A} (l : list A) k : (k <= length l)%nat -> N.of_nat k <= lenN l.
Proof. unfold lenN. lia. Qed.

Section RoundTrip.
Variable net : net.
Variables rp rs : list N.
Hypothesis W : WF net.
Variable slp : bool.
Hypothesis Hslp : slp = true -> has_slp net = true /\ slp_sep net = true.
Variables (v : N) (n : nat) (te td : N) (h : list N).
Hypothesis S : shape v n te td.
Hypothesis Hl : length h = n.
Hypothesis Hb : Bytes h.

Let a := mk_cash td (net_prefix net slp) h.
Let pfx := net_prefix net slp.

Lemma pfx_ne : pfx <> [].
Proof.
  subst pfx. destruct slp; cbn [net_prefix]; [|apply (wf_cash_ne net W)].
  destruct (Hslp eq_refl) as (H1 & _). unfold has_slp in H1. intros E. rewrite E in H1. discriminate.
Qed.

(* decoding any body that lower-cases to the encoder's output, bare or behind the prefix *)
Lemma decode_renderings :
  exists enc, encode_address a = Ok enc /\ (25 <= length enc)%nat /\ ~ In 58 enc /\
    Forall (fun c => is_lower c = true \/ is_digit c = true) enc /\
    decode_address net rp rs enc = Ok a /\
    decode_address net rp rs (ascii_upper enc) = Ok a /\
    decode_address net rp rs (pfx ++ 58 :: enc) = Ok a /\
    decode_address net rp rs (ascii_upper (pfx ++ 58 :: enc)) = Ok a.
Proof.
  destruct (check_encode_cash_ok v n te td h pfx S Hl Hb) as (p & Hp & Hp32 & Hu & Hlen & He).
  set (ck := create_checksum pfx p) in *. set (syms := p ++ ck) in *.
  assert (Hck : length ck = 8%nat) by apply cashaddr_create_length.
  assert (Hs32 : Forall (fun x => x < 32) syms).
  { apply Forall_app. split; [exact Hp32|apply cashaddr_create_lt32]. }
  destruct (enc_props syms Hs32) as (A1 & A2 & A3 & A4 & B1 & B2 & B3 & B4).
  set (enc := map chr syms) in *.
  destruct (cash_dispatch_shape v n te td net slp h S Hl) as (Hd & Henc). fold a pfx in Hd, Henc.
  assert (Hlenenc : (25 <= length enc)%nat).
  { subst enc syms. rewrite map_length, app_length, Hck. unfold lenN in Hlen. destruct S; cbn in Hlen; lia. }
  assert (Hnc : ~ In 58 enc) by (apply alnum_no_colon; exact A1).
  assert (Hncu : ~ In 58 (ascii_upper enc)) by (apply alnum_no_colon; exact B1).
  pose proof (net_prefix_lower net slp W) as HL. fold pfx in HL.
  pose proof (wf_cash_lower net W) as HLc. pose proof (wf_cash_ne net W) as Hcne.
  pose proof pfx_ne as Hpne.
  (* the two attempts on the lower-case prefixed forms *)
  assert (Att : forall q, Forall (fun c => is_lower c = true) q -> q <> [] ->
            check_decode_cash (q ++ 58 :: enc) =
            if verify_checksum q syms then (q, Ok (h, td)) else ([], Err 8)).
  { intros q Hq Hqne.
    apply (check_decode_cash_syms q enc p q v n te td h S Hl Hqne (lower_is_letter _ Hq)
             (ascii_lower_lower_word _ Hq) A1); auto.
    rewrite existsb_app, (lower_word_flags q Hq), A2. reflexivity. }
  assert (AttU : check_decode_cash (ascii_upper pfx ++ 58 :: ascii_upper enc) =
            if verify_checksum pfx syms then (pfx, Ok (h, td)) else ([], Err 8)).
  { destruct (upper_word_props pfx HL) as (U1 & U2 & U3).
    apply (check_decode_cash_syms (ascii_upper pfx) (ascii_upper enc) p pfx v n te td h S Hl); auto.
    - intros E. apply Hpne. rewrite <- U2, E. reflexivity.
    - rewrite (existsb_app is_lower), U3, B2. apply andb_false_r. }
  assert (Vok : verify_checksum pfx syms = true) by apply cashaddr_checksum_valid_strong.
  assert (Hlenchk : forall s0 : list N, (25 <= length s0)%nat ->
            (lenN s0 <? lenN (cash_prefix net) + DA 0) || (lenN s0 <? lenN (slp_prefix net) + DA 1) = false).
  { intros s0 H0. pose proof (wf_cash_len net W). pose proof (wf_slp_len net W).
    change (DA 0) with 2. change (DA 1) with 2. unfold lenN. lia. }
  (* decoding a string whose two attempts are known *)
  assert (Flow : forall s0, (25 <= length s0)%nat ->
            check_decode_cash (with_prefix net false s0) =
              (if verify_checksum (if has_prefix net s0 then pfx else cash_prefix net) syms
               then (if has_prefix net s0 then pfx else cash_prefix net, Ok (h, td)) else ([], Err 8)) ->
            (slp = true -> check_decode_cash (with_prefix net true s0) = (pfx, Ok (h, td))) ->
            decode_address net rp rs s0 = Ok a).
  { intros s0 H0 E1 E2. unfold decode_address. rewrite (Hlenchk s0 H0), E1.
    destruct slp eqn:Eslp.
    - (* SLP address *)
      destruct (Hslp eq_refl) as (_ & Hsep). unfold slp_sep in Hsep.
      rewrite (E2 eq_refl). cbn [snd].
      destruct (has_prefix net s0).
      + rewrite Vok. subst pfx. cbn [net_prefix]. rewrite list_eqb_refl. cbn [negb]. exact Hd.
      + subst syms ck pfx. cbn [net_prefix].
        rewrite (checksum_separates (cash_prefix net) (slp_prefix net) p); [|lia|exact Hp32].
        change (8 =? 8) with true. cbn [orb]. exact Hd.
    - (* cash address *)
      assert (Ec : pfx = cash_prefix net) by reflexivity.
      assert (Vc : verify_checksum (if has_prefix net s0 then pfx else cash_prefix net) syms = true).
      { destruct (has_prefix net s0); [|rewrite <- Ec]; exact Vok. }
      rewrite Vc.
      assert (Hn : list_eqb (if has_prefix net s0 then pfx else cash_prefix net) (slp_prefix net) = false).
      { destruct (list_eqb _ _) eqn:E; [|reflexivity]. apply list_eqb_eq in E.
        exfalso. apply (wf_distinct net W). destruct (has_prefix net s0); congruence. }
      rewrite Hn. cbn [negb]. exact Hd. }
  exists enc. split; [rewrite Henc; exact He|]. split; [exact Hlenenc|]. split; [exact Hnc|].
  split.
  { clear - Hs32. subst enc. induction Hs32 as [|d t Hd _ IH]; constructor; auto.
    destruct (chr_props d Hd) as (_ & _ & C3 & _). apply orb_true_iff in C3. exact C3. }
  assert (Bare : forall s0, ~ In 58 s0 -> ascii_lower s0 = enc -> length s0 = length enc ->
            decode_address net rp rs s0 = Ok a).
  { intros s0 Hn0 El0 Hlen0. apply Flow; [lia| |].
    - unfold with_prefix. rewrite (has_prefix_no_colon net s0 Hn0). cbn [net_prefix]. rewrite El0.
      apply (Att (cash_prefix net) HLc Hcne).
    - intros Es. unfold with_prefix. rewrite (has_prefix_no_colon net s0 Hn0). rewrite El0.
      change (net_prefix net true ++ [colon] ++ enc) with (net_prefix net true ++ 58 :: enc).
      assert (Epf : net_prefix net true = pfx) by (subst pfx; rewrite Es; reflexivity).
      rewrite Epf, (Att pfx HL Hpne), Vok. reflexivity. }
  assert (Pref : forall P0 body, Forall (fun c => is_letter c = true) P0 -> ascii_lower P0 = pfx ->
            length body = length enc ->
            check_decode_cash (P0 ++ 58 :: body) = (pfx, Ok (h, td)) ->
            decode_address net rp rs (P0 ++ 58 :: body) = Ok a).
  { intros P0 body HP0 EP0 Hlb Hcd.
    pose proof (has_prefix_intro net slp P0 body W HP0 EP0) as Hhp.
    apply Flow.
    - rewrite app_length. cbn [length]. lia.
    - unfold with_prefix. rewrite Hhp, Vok. exact Hcd.
    - intros _. unfold with_prefix. rewrite Hhp. exact Hcd. }
  split; [apply Bare; auto|].
  split; [apply Bare; auto; unfold ascii_upper; apply map_length|].
  split.
  - apply Pref; auto.
    + apply lower_is_letter. exact HL.
    + apply ascii_lower_lower_word. exact HL.
    + rewrite (Att pfx HL Hpne), Vok. reflexivity.
  - rewrite upper_colon_app. destruct (upper_word_props pfx HL) as (U1 & U2 & U3). apply Pref; auto.
    + unfold ascii_upper. apply map_length.
    + rewrite AttU, Vok. reflexivity.
Qed.
End RoundTrip.
End Decode.

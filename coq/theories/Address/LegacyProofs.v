(* Address layer, part 3: the Base58Check and hex branches of DecodeAddress.
   Length facts (a Base58Check string of 25 bytes has 25..35 characters, so the CashAddr
   attempts can never take it; likewise a 66/130 character hex string), hex inverse laws,
   round trip and canonicity for legacy addresses and public keys. *)
From BU Require Import Lib.Bytes Lib.Radix Lib.PolyMod Lib.Sha256 Gen.Xbchutil Gen.Nets
  Base58.Base58 Base58.Base58Proofs CashAddr.CashAddr Checksum.StepFacts Checksum.Valid
  Address.Bits Address.BitsProofs Address.Address Address.CashProofs Address.AddressProofs Address.DecodeProofs.
From Coq Require Import ZifyBool ZifyN ZifyNat.

(* ---------- length of a positional representation ---------- *)
Section DigitsLen.
Variable b : N.
Hypothesis Hb : 2 <= b.

Lemma digits_length_le n : forall k, n < b ^ N.of_nat k -> (length (digits b n) <= k)%nat.
Proof.
  induction n as [|n Hn IH] using (div_ind b Hb); intros k Hk.
  - rewrite digits_0. cbn. lia.
  - rewrite (digits_step b Hb n Hn), app_length. cbn [length].
    destruct k as [|k]; [cbn in Hk; lia|].
    assert (n / b < b ^ N.of_nat k).
    { rewrite Nat2N.inj_succ, N.pow_succ_r' in Hk. apply N.div_lt_upper_bound; lia. }
    specialize (IH k H). lia.
Qed.

Lemma digits_length_gt n : forall k, b ^ N.of_nat k <= n -> (k < length (digits b n))%nat.
Proof.
  induction n as [|n Hn IH] using (div_ind b Hb); intros k Hk.
  - assert (0 < b ^ N.of_nat k) by (apply N.neq_0_lt_0, N.pow_nonzero; lia). lia.
  - rewrite (digits_step b Hb n Hn), app_length. cbn [length].
    destruct k as [|k]; [lia|].
    assert (b ^ N.of_nat k <= n / b).
    { rewrite Nat2N.inj_succ, N.pow_succ_r' in Hk. apply N.div_le_lower_bound; lia. }
    specialize (IH k H). lia.
Qed.

Lemma value_lower t : forall acc, acc * b ^ N.of_nat (length t) <= value b t acc.
Proof.
  induction t as [|x t IH]; intros acc; cbn [value length].
  - rewrite N.pow_0_r. lia.
  - specialize (IH (acc * b + x)). rewrite Nat2N.inj_succ, N.pow_succ_r'.
    assert (0 < b ^ N.of_nat (length t)) by (apply N.neq_0_lt_0, N.pow_nonzero; lia). nia.
Qed.

Lemma value_upper t : Forall (fun d => d < b) t -> forall acc, value b t acc < (acc + 1) * b ^ N.of_nat (length t).
Proof.
  induction 1 as [|x t Hx _ IH]; intros acc; cbn [value length].
  - rewrite N.pow_0_r. lia.
  - specialize (IH (acc * b + x)). rewrite Nat2N.inj_succ, N.pow_succ_r'.
    assert (0 < b ^ N.of_nat (length t)) by (apply N.neq_0_lt_0, N.pow_nonzero; lia). nia.
Qed.
End DigitsLen.

Lemma two_le_58 : 2 <= 58. Proof. lia. Qed.
Lemma two_le_256 : 2 <= 256. Proof. lia. Qed.

Lemma pow_tab_b : forallb (fun z => 256 ^ (25 - z) <=? 58 ^ (35 - z)) (range 26) = true.
Proof. vm_compute. reflexivity. Qed.

(* Base58 of 25 bytes has between 25 and 35 characters *)
Lemma base58_len25 bs : Bytes bs -> length bs = 25%nat ->
  (25 <= length (Base58.encode bs) <= 35)%nat.
Proof.
  intros Hb Hl. unfold Base58.encode. rewrite app_length, repeat_length, map_length.
  destruct (count_leading_split 0 bs) as (r & E & Hr).
  set (z := count_leading 0 bs) in *.
  assert (Hv : value 256 bs 0 = value 256 r 0) by (rewrite E at 1; apply value_repeat0).
  rewrite Hv.
  assert (Hlr : (z + length r = 25)%nat) by (rewrite E, app_length, repeat_length in Hl; exact Hl).
  assert (Hbr : Bytes r) by (rewrite E in Hb; apply Bytes_app in Hb; apply Hb).
  destruct r as [|d t].
  - change (value 256 [] 0) with 0. rewrite (digits_0 58). cbn [length] in *. lia.
  - cbn [length] in Hlr. apply Bytes_cons in Hbr as [Hd Ht]. cbn [value].
    change (0 * 256 + d) with d.
    pose proof (value_lower 256 two_le_256 t d) as Lo.
    pose proof (value_upper 256 two_le_256 t Ht d) as Up.
    set (V := value 256 t d) in *. set (m := length t) in *.
    split.
    + assert (58 ^ N.of_nat m <= V).
      { eapply N.le_trans; [|exact Lo]. assert (58 ^ N.of_nat m <= 256 ^ N.of_nat m) by (apply N.pow_le_mono_l; lia).
        assert (0 < 256 ^ N.of_nat m) by (apply N.neq_0_lt_0, N.pow_nonzero; lia). nia. }
      pose proof (digits_length_gt 58 two_le_58 V m H). lia.
    + assert (Hz : N.of_nat z < 26) by lia.
      pose proof pow_tab_b as T. rewrite forallb_forall in T.
      specialize (T (N.of_nat z) (proj2 (range_spec 26 (N.of_nat z)) Hz)). apply N.leb_le in T.
      assert (V < 58 ^ N.of_nat (35 - z)).
      { eapply N.lt_le_trans; [exact Up|].
        replace (N.of_nat (35 - z)) with (35 - N.of_nat z) by lia.
        eapply N.le_trans; [|exact T].
        replace (25 - N.of_nat z) with (N.of_nat m + 1) by lia.
        rewrite N.pow_add_r, N.pow_1_r.
        assert (0 < 256 ^ N.of_nat m) by (apply N.neq_0_lt_0, N.pow_nonzero; lia). nia. }
      pose proof (digits_length_le 58 two_le_58 V (35 - z) H). lia.
Qed.

Lemma alphabet_no_colon : ~ In 58 alphabet.
Proof. vm_compute. intuition discriminate. Qed.

Lemma check_encode_props hsh id : Bytes hsh -> length hsh = 20%nat -> id < 256 ->
  (25 <= length (check_encode hsh id) <= 35)%nat /\ ~ In 58 (check_encode hsh id).
Proof.
  intros Hb Hl Hid. unfold check_encode. split.
  - apply base58_len25.
    + apply Bytes_app. split; [apply Bytes_cons; auto|].
      unfold checksum. pose proof (sha256_bytes (sha256 (id :: hsh))) as B. unfold sha256d.
      unfold Bytes in *. rewrite Forall_forall in *. intros x Hx. apply B. eapply in_firstn. exact Hx.
    + rewrite app_length, checksum_length. cbn [length]. lia.
  - intros Hin. pose proof (encode_alphabet ((id :: hsh) ++ checksum (id :: hsh))) as A.
    rewrite Forall_forall in A. apply alphabet_no_colon. apply A. exact Hin.
Qed.

(* ---------- encoding/hex ---------- *)
Lemma hex_val_some c x : hex_val c = Some x -> x < 16 /\ hex_digit x = ascii_lower_c c /\ c <> 58.
Proof.
  rewrite ascii_lower_c_eq. unfold hex_val, hex_digit, is_upper.
  destruct ((48 <=? c) && (c <=? 57)) eqn:E1; [intros H; injection H as <-; repeat split; try lia;
    destruct (c - 48 <? 10) eqn:E; destruct ((65 <=? c) && (c <=? 90)) eqn:E'; lia|].
  destruct ((97 <=? c) && (c <=? 102)) eqn:E2; [intros H; injection H as <-; repeat split; try lia;
    destruct (c - 87 <? 10) eqn:E; destruct ((65 <=? c) && (c <=? 90)) eqn:E'; lia|].
  destruct ((65 <=? c) && (c <=? 70)) eqn:E3; [intros H; injection H as <-; repeat split; try lia;
    destruct (c - 55 <? 10) eqn:E; destruct ((65 <=? c) && (c <=? 90)) eqn:E'; lia|].
  discriminate.
Qed.

Lemma hex_tab_b : forallb (fun d => match hex_val (hex_digit d), hex_val (ascii_upper_c (hex_digit d)) with
    | Some x, Some y => (x =? d) && (y =? d) && negb (hex_digit d =? 58) && negb (ascii_upper_c (hex_digit d) =? 58)
    | _, _ => false end) (range 16) = true.
Proof. vm_compute. reflexivity. Qed.

Lemma hex_digit_props d : d < 16 ->
  hex_val (hex_digit d) = Some d /\ hex_val (ascii_upper_c (hex_digit d)) = Some d /\
  hex_digit d <> 58 /\ ascii_upper_c (hex_digit d) <> 58.
Proof.
  intros Hd. pose proof hex_tab_b as T. rewrite forallb_forall in T.
  specialize (T d (proj2 (range_spec 16 d) Hd)).
  destruct (hex_val (hex_digit d)) as [x|]; [|discriminate].
  destruct (hex_val (ascii_upper_c (hex_digit d))) as [y|]; [|discriminate].
  rewrite !andb_true_iff, !negb_true_iff in T. destruct T as [[[T1 T2] T3] T4].
  apply N.eqb_eq in T1, T2. apply N.eqb_neq in T3, T4. subst. auto.
Qed.

Lemma hex_decode_cons2 a b t : hex_decode (a :: b :: t) =
  match hex_val a, hex_val b, hex_decode t with
  | Some x, Some y, Some r => Some (16 * x + y :: r)
  | _, _, _ => None
  end.
Proof. reflexivity. Qed.

Lemma hex_decode_encode bs : Bytes bs ->
  hex_decode (hex_encode bs) = Some bs /\ hex_decode (ascii_upper (hex_encode bs)) = Some bs /\
  length (hex_encode bs) = (2 * length bs)%nat /\ ~ In 58 (hex_encode bs) /\ ~ In 58 (ascii_upper (hex_encode bs)).
Proof.
  induction 1 as [|x t Hx _ (I1 & I2 & I3 & I4 & I5)]; [repeat split; auto|].
  assert (Hq : x / 16 < 16) by lia. assert (Hr : x mod 16 < 16) by lia.
  destruct (hex_digit_props _ Hq) as (Q1 & Q2 & Q3 & Q4). destruct (hex_digit_props _ Hr) as (R1 & R2 & R3 & R4).
  assert (Ex : 16 * (x / 16) + x mod 16 = x) by lia.
  unfold hex_encode in *. cbn [flat_map app ascii_upper map]. fold (ascii_upper (flat_map (fun x => [hex_digit (x / 16); hex_digit (x mod 16)]) t)).
  rewrite !hex_decode_cons2, Q1, R1, Q2, R2, I1, I2, Ex. cbn [length]. rewrite I3.
  repeat split; try lia.
  - intros [H|[H|H]]; auto.
  - intros [H|[H|H]]; auto.
Qed.

Lemma hex_decode_canonical s : forall bs, hex_decode s = Some bs ->
  hex_encode bs = ascii_lower s /\ Bytes bs /\ length s = (2 * length bs)%nat /\ ~ In 58 s.
Proof.
  induction s as [s IH] using (well_founded_induction (well_founded_ltof _ (@length N))). intros bs H.
  destruct s as [|a [|b t]]; [injection H as <-; repeat split; auto; constructor|discriminate|].
  rewrite hex_decode_cons2 in H.
  destruct (hex_val a) as [x|] eqn:Ea; [|discriminate]. destruct (hex_val b) as [y|] eqn:Eb; [|discriminate].
  destruct (hex_decode t) as [r|] eqn:Et; [|discriminate].
  remember (16 * x + y) as w eqn:Ew in H. injection H as <-.
  destruct (hex_val_some _ _ Ea) as (X1 & X2 & X3). destruct (hex_val_some _ _ Eb) as (Y1 & Y2 & Y3).
  destruct (IH t) with (bs := r) as (J1 & J2 & J3 & J4); [unfold ltof; cbn; lia|exact Et|].
  unfold hex_encode in *. cbn [flat_map app ascii_lower map length].
  replace (w / 16) with x by lia. replace (w mod 16) with y by lia.
  rewrite X2, Y2, J1. repeat split; auto.
  - constructor; [lia|exact J2].
  - lia.
  - intros [E|[E|E]]; auto.
Qed.

(* ---------- when neither CashAddr attempt can succeed ---------- *)
Lemma ascii_lower_colon s : In 58 (ascii_lower s) -> In 58 s.
Proof.
  unfold ascii_lower. rewrite in_map_iff. intros (c & E & Hin). rewrite ascii_lower_c_eq in E.
  destruct (is_upper c) eqn:Eu; [unfold is_upper in Eu; lia|]. subst. exact Hin.
Qed.

(* an accepted CashAddr body has 42 or 61 characters *)
Lemma check_decode_cash_body_len str pfx hsh td : check_decode_cash str = (pfx, Ok (hsh, td)) ->
  exists P body, str = P ++ 58 :: body /\ P <> [] /\ Forall (fun c => is_letter c = true) P /\
                 (length body = 42%nat \/ length body = 61%nat).
Proof.
  intros H. destruct (check_decode_cash_inv _ _ _ _ H) as
    (P & body & p & v & n & te & -> & HP & HPl & _ & _ & S & Hn & Hh & Hp32 & Hpk & Hv).
  exists P, body. repeat split; auto.
  destruct (to_values_props _ _ Hv) as (_ & _ & _ & Hlen).
  rewrite app_length, cashaddr_create_length in Hlen.
  assert (Hb : Bytes (v :: hsh)) by (apply Bytes_cons; split; [destruct S; lia|exact Hh]).
  pose proof (pack_length _ _ Hb Hpk) as Hpl. unfold lenN in Hpl. cbn [length] in Hpl. rewrite Hn in Hpl.
  destruct S; cbn in Hpl; [left|left|right]; lia.
Qed.

Lemma attempt_fails net slp s pfx hsh td : WF net -> ~ In 58 s ->
  length s <> 42%nat -> length s <> 61%nat ->
  check_decode_cash (with_prefix net slp s) <> (pfx, Ok (hsh, td)).
Proof.
  intros W Hnc H42 H61 H. unfold with_prefix in H. rewrite (has_prefix_no_colon net s Hnc) in H.
  destruct (check_decode_cash_body_len _ _ _ _ H) as (P & body & E & HP & HPl & Hlen).
  unfold colon in E. cbn [app] in E.
  pose proof (net_prefix_lower net slp W) as HL.
  destruct (colon_unique _ _ _ _ E (letters_no_colon _ (lower_is_letter _ HL)) (letters_no_colon _ HPl)) as [_ Eb].
  rewrite <- Eb in Hlen. unfold ascii_lower in Hlen. rewrite map_length in Hlen. lia.
Qed.

Section Tail.
Variable ripemd160 : list N -> list N.
Variable P : Type.
Variable ec_parse : list N -> option P.
Variable ec_ser : N -> P -> list N.
Notation addr := (addr P).
Notation encode_address := (encode_address ripemd160 P ec_ser).
Notation addr_string := (addr_string ripemd160 P ec_ser).
Notation decode_address := (decode_address P ec_parse).

(* strings without a colon whose length rules out CashAddr go to the hex / Base58Check branch *)
Lemma decode_falls_through net rp rs s : WF net -> ~ In 58 s -> (25 <= length s)%nat ->
  length s <> 42%nat -> length s <> 61%nat ->
  exists f, decode_address net rp rs s = tail_path P ec_parse net rp rs s f.
Proof.
  intros W Hnc Hlen H42 H61. unfold decode_address.
  assert (Hl : (lenN s <? lenN (cash_prefix net) + DA 0) || (lenN s <? lenN (slp_prefix net) + DA 1) = false).
  { pose proof (wf_cash_len net W). pose proof (wf_slp_len net W).
    change (DA 0) with 2. change (DA 1) with 2. unfold lenN. lia. }
  rewrite Hl.
  pose proof (attempt_fails net false s) as F1. pose proof (attempt_fails net true s) as F2.
  pose proof (check_decode_cash_no_panic (with_prefix net false s)) as N1.
  pose proof (check_decode_cash_no_panic (with_prefix net true s)) as N2.
  destruct (check_decode_cash (with_prefix net false s)) as [pfx1 r1].
  destruct (check_decode_cash (with_prefix net true s)) as [pfx2 r2]. cbn [snd] in *.
  assert (R : exists f, match r2 with
              | Ok (decoded, typ) => cash_dispatch P net true decoded typ
              | Err e => tail_path P ec_parse net rp rs s (e =? 8)
              | Panic k => Panic k end = tail_path P ec_parse net rp rs s f).
  { destruct r2 as [[h2 t2]|e|k].
    - exfalso. apply (F2 pfx2 h2 t2); auto.
    - eexists. reflexivity.
    - exfalso. apply (N2 k). reflexivity. }
  destruct r1 as [[h1 t1]|e|k].
  - exfalso. apply (F1 pfx1 h1 t1); auto.
  - destruct ((e =? 8) || list_eqb pfx1 (slp_prefix net)); [exact R|eexists; reflexivity].
  - exfalso. apply (N1 k). reflexivity.
Qed.

(* every accepted string is taken either by a CashAddr attempt or by the hex / Base58Check branch *)
Lemma decode_cases net rp rs s a : decode_address net rp rs s = Ok a ->
  is_cash P a = true \/ exists f, tail_path P ec_parse net rp rs s f = Ok a.
Proof.
  unfold decode_address. destruct (_ || _); [discriminate|].
  destruct (check_decode_cash (with_prefix net false s)) as [pfx1 r1].
  destruct (check_decode_cash (with_prefix net true s)) as [pfx2 r2]. cbn [snd].
  assert (R : match r2 with
              | Ok (decoded, typ) => cash_dispatch P net true decoded typ
              | Err e => tail_path P ec_parse net rp rs s (e =? 8)
              | Panic k => Panic k end = Ok a ->
              is_cash P a = true \/ exists f, tail_path P ec_parse net rp rs s f = Ok a).
  { destruct r2 as [[h2 t2]|e|k]; [|eauto|discriminate].
    intros H. left. apply (cash_dispatch_cash P net true h2 t2 a H). }
  destruct r1 as [[h1 t1]|e|k]; [| |discriminate].
  - destruct (negb _); [|exact R]. intros H. left. apply (cash_dispatch_cash P net false h1 t1 a H).
  - destruct (_ || _); [exact R|eauto].
Qed.

(* ---------- legacy addresses ---------- *)
Theorem decode_encode_legacy net rp rs id hsh (sh : bool) : WF net ->
  Bytes hsh -> length hsh = 20%nat -> id < 256 ->
  mem id rp = negb sh -> mem id rs = sh ->
  let a := if sh then LegSH id hsh else LegPKH id hsh in
  exists s, encode_address a = Ok s /\ addr_string a = Ok s /\ s = check_encode hsh id /\
            decode_address net rp rs s = Ok a.
Proof.
  intros W Hb Hl Hid Hp Hs a. exists (check_encode hsh id).
  assert (He : encode_legacy hsh id = Ok (check_encode hsh id)).
  { unfold encode_legacy, ripemd160_size. rewrite Hl. cbn [Nat.ltb Nat.leb].
    rewrite <- Hl, firstn_all. reflexivity. }
  split; [destruct sh; exact He|]. split; [destruct sh; exact He|]. split; [reflexivity|].
  destruct (check_encode_props hsh id Hb Hl Hid) as (Hlen & Hnc).
  destruct (decode_falls_through net rp rs (check_encode hsh id) W Hnc) as (f & ->); try lia.
  unfold tail_path. change (DA 6) with 130. change (DA 7) with 66.
  assert (E : (lenN (check_encode hsh id) =? 130) || (lenN (check_encode hsh id) =? 66) = false) by (unfold lenN; lia).
  rewrite E. unfold legacy_path. rewrite (check_roundtrip hsh id Hb Hid).
  unfold ripemd160_size. rewrite Hl. cbn [Nat.eqb]. rewrite Hp, Hs.
  unfold new_leg_pkh, new_leg_sh, ripemd160_size. rewrite Hl. subst a. destruct sh; reflexivity.
Qed.

(* what the Base58Check branch accepts is exactly the re-encoding of its result *)
Lemma legacy_path_canonical rp rs s f a : legacy_path P rp rs s f = Ok a ->
  exists id hsh, (a = LegPKH id hsh \/ a = LegSH id hsh) /\ length hsh = 20%nat /\
    s = check_encode hsh id /\
    (a = LegPKH id hsh -> mem id rp = true) /\ (a = LegSH id hsh -> mem id rs = true).
Proof.
  unfold legacy_path. destruct (check_decode s) as [[d id]|e|k] eqn:Ec; try discriminate.
  2:{ repeat match goal with |- context [if ?b then _ else _] => destruct b end; discriminate. }
  assert (Hs : s = check_encode d id).
  { apply check_accept_iff in Ec. destruct Ec as (ck & Ed & Hlen & Eck).
    unfold check_encode. rewrite <- Eck, <- Ed. symmetry. apply encode_decode.
    destruct (Forall_Exists_dec (fun c => In c alphabet)) with (l := s) as [F|F].
    { intros c. destruct (in_dec N.eq_dec c alphabet); auto. }
    { exact F. }
    exfalso. apply Exists_exists in F. destruct F as (c & Hin & Hna).
    rewrite (foreign_char_empty s) in Ed by eauto. destruct ck; discriminate. }
  unfold new_leg_pkh, new_leg_sh.
  destruct (length d =? ripemd160_size)%nat eqn:El; [|discriminate].
  apply Nat.eqb_eq in El. unfold ripemd160_size in El.
  destruct (mem id rp) eqn:Mp; destruct (mem id rs) eqn:Ms; cbn [andb]; try discriminate;
    intros H; injection H as <-; exists id, d; repeat split; auto; try discriminate.
Qed.

(* ---------- public keys ---------- *)
Hypothesis ec_ser_len : forall fmt pt, length (ec_ser fmt pt) = if fmt =? PKFCompressed then 33%nat else 65%nat.
Hypothesis ec_ser_bytes : forall fmt pt, Bytes (ec_ser fmt pt).

Definition fmt_of_byte (b0 : N) : option N :=
  if (b0 =? 2) || (b0 =? 3) then Some PKFCompressed
  else if (b0 =? 6) || (b0 =? 7) then Some PKFHybrid
  else if b0 =? 4 then Some PKFUncompressed else None.

Lemma new_pubkey_eq net ser : new_pubkey P ec_parse net ser =
  match ec_parse ser with
  | None => Err 5
  | Some pt => match ser with
               | [] => Panic 1
               | b0 :: _ => match fmt_of_byte b0 with
                            | Some f => Ok (PubKey f pt (pkh_id net))
                            | None => Err 6
                            end
               end
  end.
Proof.
  unfold new_pubkey, fmt_of_byte. destruct (ec_parse ser); [|reflexivity].
  change (N.to_nat (PKL 0)) with 0%nat. destruct ser as [|b0 t]; [reflexivity|]. cbn [nth_error].
  change (PKL 1) with 2. change (PKL 2) with 3. change (PKL 3) with 6. change (PKL 4) with 7. change (PKL 5) with 4.
  repeat match goal with |- context [if ?b then _ else _] => destruct b end; reflexivity.
Qed.

Lemma serialize_eq fmt pt : fmt = PKFUncompressed \/ fmt = PKFCompressed \/ fmt = PKFHybrid ->
  serialize P ec_ser fmt pt = ec_ser fmt pt.
Proof. intros [->|[->| ->]]; reflexivity. Qed.

(* parse after serialise is the identity, and the first byte announces the format *)
Theorem decode_string_pubkey net rp rs fmt pt : WF net ->
  (fmt = PKFUncompressed \/ fmt = PKFCompressed \/ fmt = PKFHybrid) ->
  ec_parse (ec_ser fmt pt) = Some pt ->
  (exists b0 t, ec_ser fmt pt = b0 :: t /\ fmt_of_byte b0 = Some fmt) ->
  let a := PubKey fmt pt (pkh_id net) in
  exists s, addr_string a = Ok s /\ s = hex_encode (ec_ser fmt pt) /\
            decode_address net rp rs s = Ok a /\ decode_address net rp rs (ascii_upper s) = Ok a /\
            is_for_net P a net = true.
Proof.
  intros W Hf Hparse (b0 & t & Eser & Hb0) a. exists (hex_encode (ec_ser fmt pt)).
  split; [subst a; unfold Address.addr_string; rewrite (serialize_eq fmt pt Hf); reflexivity|]. split; [reflexivity|].
  destruct (hex_decode_encode _ (ec_ser_bytes fmt pt)) as (H1 & H2 & H3 & H4 & H5).
  rewrite ec_ser_len in H3.
  assert (G : forall s, ~ In 58 s -> length s = length (hex_encode (ec_ser fmt pt)) ->
              hex_decode s = Some (ec_ser fmt pt) -> decode_address net rp rs s = Ok a).
  { intros s Hnc Hlen Hd.
    assert (Hl66 : length s = 66%nat \/ length s = 130%nat) by (rewrite Hlen, H3; destruct (fmt =? PKFCompressed); lia).
    destruct (decode_falls_through net rp rs s W Hnc) as (f & ->); try lia.
    unfold tail_path. change (DA 6) with 130. change (DA 7) with 66.
    assert (E : (lenN s =? 130) || (lenN s =? 66) = true) by (unfold lenN; lia).
    rewrite E, Hd, new_pubkey_eq, Hparse, Eser, Hb0. reflexivity. }
  split; [apply G; auto|]. split.
  - apply G; auto. unfold ascii_upper. apply map_length.
  - cbn. apply N.eqb_refl.
Qed.

(* canonicity: an accepted hex string is the lower-case hex of the key's serialisation,
   provided serialise inverts parse on what NewAddressPubKey lets through *)
Theorem pubkey_canonical net rp rs s fmt pt id :
  (forall ser pt b0 t f, ec_parse ser = Some pt -> ser = b0 :: t -> fmt_of_byte b0 = Some f -> ec_ser f pt = ser) ->
  decode_address net rp rs s = Ok (PubKey fmt pt id) ->
  id = pkh_id net /\ addr_string (PubKey fmt pt id) = Ok (ascii_lower s) /\
  exists b0 t, hex_decode s = Some (b0 :: t) /\ fmt_of_byte b0 = Some fmt.
Proof.
  intros Hinv H. destruct (decode_cases net rp rs s _ H) as [Hc|(f & Ht)]; [discriminate|].
  unfold tail_path in Ht. destruct (_ || _).
  2:{ destruct (legacy_path_canonical _ _ _ _ _ Ht) as (i & hh & [E|E] & _); discriminate. }
  destruct (hex_decode s) as [ser|] eqn:Eh; [|discriminate].
  rewrite new_pubkey_eq in Ht. destruct (ec_parse ser) as [pt'|] eqn:Ep; [|discriminate].
  destruct ser as [|b0 t]; [discriminate|]. destruct (fmt_of_byte b0) as [f'|] eqn:Ef; [|discriminate].
  injection Ht as <- <- <-. split; [reflexivity|]. split.
  - unfold Address.addr_string. f_equal.
    assert (Hf : f' = PKFUncompressed \/ f' = PKFCompressed \/ f' = PKFHybrid).
    { unfold fmt_of_byte in Ef. repeat match type of Ef with context [if ?b then _ else _] => destruct b end;
        try discriminate; injection Ef as <-; auto. }
    rewrite (serialize_eq f' pt' Hf), (Hinv _ _ _ _ _ Ep eq_refl Ef).
    apply (hex_decode_canonical s _ Eh).
  - exists b0, t. auto.
Qed.
End Tail.

(* convertBits: what the loop computes, in positional-value form, for the two ways address.go
   calls it (8 -> 5 with zero padding, 5 -> 8 strict), and the two facts everything above rests on:
     unpack_pack : strict 5->8 inverts padded 8->5                      (round trip, C01)
     pack_unpack : whatever strict 5->8 accepts is the padded 8->5 image of its result
                   (canonicity: no second symbol string decodes to the same bytes, C02). *)
From BU Require Import Lib.Bytes Lib.PolyMod Gen.Xbchutil Address.Bits.
From Coq Require Import ZifyBool ZifyN ZifyNat.


(* big-endian value of a digit string in base 2^w *)
Definition val (w : N) (l : list N) : N := fold_left (fun a x => a * 2 ^ w + x) l 0.

Lemma pow2_pos n : 0 < 2 ^ n.
Proof. apply N.neq_0_lt_0. apply N.pow_nonzero. lia. Qed.

Lemma lenN_cons {A} (x : A) l : lenN (x :: l) = lenN l + 1.
Proof. unfold lenN. cbn [length]. lia. Qed.
Lemma lenN_app {A} (a b : list A) : lenN (a ++ b) = lenN a + lenN b.
Proof. unfold lenN. rewrite app_length. lia. Qed.
Lemma lenN_nil {A} : lenN (@nil A) = 0.
Proof. reflexivity. Qed.

Lemma val_acc w l a : fold_left (fun a x => a * 2 ^ w + x) l a = a * 2 ^ (w * lenN l) + val w l.
Proof.
  unfold val. revert a. induction l as [|x l IH]; intros a; cbn [fold_left].
  - rewrite lenN_nil, N.mul_0_r, N.pow_0_r. lia.
  - rewrite IH, (IH (0 * 2 ^ w + x)). rewrite lenN_cons.
    replace (w * (lenN l + 1)) with (w + w * lenN l) by lia. rewrite N.pow_add_r. lia.
Qed.

Lemma val_nil w : val w [] = 0.
Proof. reflexivity. Qed.

Lemma val_cons w x l : val w (x :: l) = x * 2 ^ (w * lenN l) + val w l.
Proof. unfold val at 1. cbn [fold_left]. rewrite val_acc. lia. Qed.

Lemma val_app w a b : val w (a ++ b) = val w a * 2 ^ (w * lenN b) + val w b.
Proof. unfold val at 1. rewrite fold_left_app. fold (val w a). apply val_acc. Qed.

Lemma val_snoc w l x : val w (l ++ [x]) = val w l * 2 ^ w + x.
Proof. unfold val. rewrite fold_left_app. reflexivity. Qed.

Lemma lenN_snoc {A} (l : list A) x : lenN (l ++ [x]) = lenN l + 1.
Proof. unfold lenN. rewrite app_length. cbn [length]. lia. Qed.

Lemma val_bound w l : Forall (fun x => x < 2 ^ w) l -> val w l < 2 ^ (w * lenN l).
Proof.
  induction 1 as [|x l Hx HF IH].
  - rewrite val_nil. apply pow2_pos.
  - rewrite val_cons, lenN_cons. replace (w * (lenN l + 1)) with (w + w * lenN l) by lia.
    rewrite N.pow_add_r. pose proof (pow2_pos (w * lenN l)). nia.
Qed.

Lemma val_inj w a : forall b, length a = length b ->
  Forall (fun x => x < 2 ^ w) a -> Forall (fun x => x < 2 ^ w) b -> val w a = val w b -> a = b.
Proof.
  induction a as [|x a IH]; intros [|y b] Hlen Ha Hb Hv; try discriminate; auto.
  inversion Ha as [|? ? Hx Ha']; inversion Hb as [|? ? Hy Hb']; subst.
  cbn [length] in Hlen. injection Hlen as Hlen.
  rewrite !val_cons in Hv. assert (El : lenN a = lenN b) by (unfold lenN; congruence).
  rewrite El in Hv.
  pose proof (val_bound w a Ha') as Ba. pose proof (val_bound w b Hb') as Bb. rewrite El in Ba.
  set (M := 2 ^ (w * lenN b)) in *.
  assert (x = y) by nia. subst y.
  f_equal. apply IH; auto. lia.
Qed.

Lemma map_mod256_small l w : w <= 8 -> Forall (fun x => x < 2 ^ w) l -> map (fun x => x mod 256) l = l.
Proof.
  intros Hw HF. induction HF as [|x l Hx HF IH]; cbn [map]; [reflexivity|].
  rewrite IH. f_equal. apply N.mod_small.
  eapply N.lt_le_trans; [exact Hx|]. change 256 with (2 ^ 8). apply N.pow_le_mono_r; lia.
Qed.

(* ---------- bit operations as arithmetic ---------- *)
Lemma testbit_small x n m : x < 2 ^ n -> n <= m -> N.testbit x m = false.
Proof.
  intros Hx Hm. rewrite <- (N.mod_small x (2 ^ n)) by exact Hx.
  apply N.mod_pow2_bits_high. exact Hm.
Qed.

Lemma lor_shifted_add a x k : x < 2 ^ k -> N.lor (a * 2 ^ k) x = a * 2 ^ k + x.
Proof.
  intros Hx. rewrite <- N.shiftl_mul_pow2.
  assert (H0 : N.land (N.shiftl a k) x = 0).
  { apply N.bits_inj. intros n. rewrite N.land_spec, N.bits_0.
    destruct (N.ltb_spec n k) as [Hlt|Hge].
    - rewrite N.shiftl_spec_low by exact Hlt. reflexivity.
    - rewrite (testbit_small x k n Hx Hge). apply andb_false_r. }
  rewrite <- N.lxor_lor by exact H0. symmetry. apply N.add_nocarry_lxor. exact H0.
Qed.

Lemma land_mask a k m : m = N.ones k -> N.land a m = a mod 2 ^ k.
Proof. intros ->. apply N.land_ones. Qed.

(* ---------- the loop, generically in a one-value step lemma ---------- *)
Section Loop.
Variables f t maxv maxacc ACC : N.
Definition acc1 (acc v : N) : N := N.land (N.lor (w64 (N.shiftl acc f)) v) maxacc.

Hypothesis Hstep : forall acc bits v, bits < t -> acc < ACC -> v < 2 ^ f ->
  exists b1 out1,
    cb_emit (S (N.to_nat (bits + f))) (acc1 acc v) (bits + f) t maxv = Ok (b1, out1) /\
    b1 < t /\ acc1 acc v < ACC /\ Forall (fun x => x < 2 ^ t) out1 /\
    b1 + t * lenN out1 = bits + f /\
    (acc mod 2 ^ bits) * 2 ^ f + v = val t out1 * 2 ^ b1 + (acc1 acc v) mod 2 ^ b1.

Lemma loop_spec data : forall acc bits,
  Forall (fun x => x < 2 ^ f) data -> bits < t -> acc < ACC ->
  exists acc' bits' out,
    cb_loop data acc bits f t maxv maxacc = Ok (acc', bits', out) /\
    bits' < t /\ acc' < ACC /\ Forall (fun x => x < 2 ^ t) out /\
    bits' + t * lenN out = bits + f * lenN data /\
    (acc mod 2 ^ bits) * 2 ^ (f * lenN data) + val f data = val t out * 2 ^ bits' + acc' mod 2 ^ bits'.
Proof.
  induction data as [|v tl IH]; intros acc bits HF Hb Ha.
  - exists acc, bits, []. cbn [cb_loop]. repeat split; auto.
    + rewrite lenN_nil. clear; lia.
    + rewrite lenN_nil, N.mul_0_r, N.pow_0_r, !val_nil. clear; lia.
  - inversion HF as [|? ? Hv HF']; subst.
    destruct (Hstep acc bits v Hb Ha Hv) as (b1 & out1 & Hem & Hb1 & Ha1 & HF1 & Hl1 & He1).
    destruct (IH (acc1 acc v) b1 HF' Hb1 Ha1) as (acc' & bits' & rest & Hlp & Hb' & Ha' & HFr & Hlr & Her).
    exists acc', bits', (out1 ++ rest).
    cbn [cb_loop]. fold (acc1 acc v). rewrite Hem. cbn [rbind]. rewrite Hlp. cbn [rbind].
    repeat split; auto.
    + apply Forall_app. auto.
    + rewrite lenN_app, lenN_cons. clear - Hl1 Hlr. lia.
    + rewrite lenN_cons, val_cons, val_app.
      replace (f * (lenN tl + 1)) with (f + f * lenN tl) by (clear; lia). rewrite N.pow_add_r.
      assert (Hp : 2 ^ b1 * 2 ^ (f * lenN tl) = 2 ^ bits' * 2 ^ (t * lenN rest)).
      { rewrite <- !N.pow_add_r. f_equal. clear - Hlr. lia. }
      clear Hem Hlp Hstep IH.
      set (A := 2 ^ (f * lenN tl)) in *. set (B := 2 ^ b1) in *. set (C := 2 ^ bits') in *.
      set (D := 2 ^ (t * lenN rest)) in *. set (F := 2 ^ f) in *.
      set (X := acc mod 2 ^ bits) in *. set (X1 := acc1 acc v mod B) in *. set (X' := acc' mod C) in *.
      set (O1 := val t out1) in *. set (R := val t rest) in *. set (T := val f tl) in *.
      clearbody A B C D F X X1 X' O1 R T.
      transitivity ((X * F + v) * A + T); [clear; lia|]. rewrite He1.
      transitivity (O1 * (B * A) + (X1 * A + T)); [clear; lia|]. rewrite Hp, Her. clear; lia.
Qed.
End Loop.

(* ---------- the two instances ---------- *)
Lemma consts_85 : CB 0 = 0 /\ CB 1 = 0 /\ CB 7 = 0 /\ CB 8 = 0 /\
  w64 (N.shiftl (CB 2) 5) - CB 3 = 31 /\ w64 (N.shiftl (CB 4) (8 + 5 - CB 5)) - CB 6 = 4095 /\
  w64 (N.shiftl (CB 2) 8) - CB 3 = 255 /\ w64 (N.shiftl (CB 4) (5 + 8 - CB 5)) - CB 6 = 4095.
Proof. vm_compute. repeat split. Qed.

Lemma acc1_arith f acc v : f <= 8 -> acc < 4096 -> v < 2 ^ f ->
  acc1 f 4095 acc v = (acc * 2 ^ f + v) mod 4096.
Proof.
  intros Hf Ha Hv. unfold acc1, w64. rewrite N.shiftl_mul_pow2.
  assert (2 ^ f <= 2 ^ 8) by (apply N.pow_le_mono_r; lia). change (2 ^ 8) with 256 in *.
  rewrite (N.mod_small (acc * 2 ^ f)) by nia.
  rewrite lor_shifted_add by exact Hv.
  apply (land_mask _ 12). reflexivity.
Qed.

Lemma digit_arith a k w m : m = N.ones w -> N.land (N.shiftr a k) m = (a / 2 ^ k) mod 2 ^ w.
Proof. intros ->. rewrite N.shiftr_div_pow2. apply N.land_ones. Qed.

Lemma emit85 acc b : b < 5 ->
  cb_emit (S (N.to_nat (b + 8))) acc (b + 8) 5 31 =
  Ok (if b <? 2 then (b + 3, [N.land (N.shiftr acc (b + 3)) 31])
      else (b - 2, [N.land (N.shiftr acc (b + 3)) 31; N.land (N.shiftr acc (b - 2)) 31])).
Proof.
  intros Hb. assert (H : b = 0 \/ b = 1 \/ b = 2 \/ b = 3 \/ b = 4) by lia.
  destruct H as [->|[->|[->|[->| ->]]]]; reflexivity.
Qed.

Lemma emit58 acc b : b < 8 ->
  cb_emit (S (N.to_nat (b + 5))) acc (b + 5) 8 255 =
  Ok (if b <? 3 then (b + 5, []) else (b - 3, [N.land (N.shiftr acc (b - 3)) 255])).
Proof.
  intros Hb. assert (H : b = 0 \/ b = 1 \/ b = 2 \/ b = 3 \/ b = 4 \/ b = 5 \/ b = 6 \/ b = 7) by lia.
  destruct H as [->|[->|[->|[->|[->|[->|[->| ->]]]]]]]; reflexivity.
Qed.

Lemma step85 acc bits v : bits < 5 -> acc < 4096 -> v < 2 ^ 8 ->
  exists b1 out1,
    cb_emit (S (N.to_nat (bits + 8))) (acc1 8 4095 acc v) (bits + 8) 5 31 = Ok (b1, out1) /\
    b1 < 5 /\ acc1 8 4095 acc v < 4096 /\ Forall (fun x => x < 2 ^ 5) out1 /\
    b1 + 5 * lenN out1 = bits + 8 /\
    (acc mod 2 ^ bits) * 2 ^ 8 + v = val 5 out1 * 2 ^ b1 + (acc1 8 4095 acc v) mod 2 ^ b1.
Proof.
  intros Hb Ha Hv. rewrite emit85 by exact Hb.
  rewrite acc1_arith by (auto; lia). change (2 ^ 8) with 256 in *.
  set (a1 := (acc * 256 + v) mod 4096).
  assert (Ha1 : a1 < 4096) by (apply N.mod_lt; lia).
  assert (H : bits = 0 \/ bits = 1 \/ bits = 2 \/ bits = 3 \/ bits = 4) by lia.
  destruct H as [->|[->|[->|[->| ->]]]]; cbn [N.ltb N.compare Pos.compare Pos.compare_cont];
    eexists; eexists; (split; [reflexivity|]);
    rewrite ?(digit_arith _ _ 5) by reflexivity;
    unfold val, lenN; cbn [fold_left length];
    repeat match goal with |- context [2 ^ ?k] => let x := eval vm_compute in (2 ^ k) in change (2 ^ k) with x end;
    (assert (E : a1 = (acc mod 16) * 256 + v) by (subst a1; lia)); clearbody a1;
    (repeat split; try lia; repeat constructor; apply N.mod_lt; lia).
Qed.

Lemma step58 acc bits v : bits < 8 -> acc < 4096 -> v < 2 ^ 5 ->
  exists b1 out1,
    cb_emit (S (N.to_nat (bits + 5))) (acc1 5 4095 acc v) (bits + 5) 8 255 = Ok (b1, out1) /\
    b1 < 8 /\ acc1 5 4095 acc v < 4096 /\ Forall (fun x => x < 2 ^ 8) out1 /\
    b1 + 8 * lenN out1 = bits + 5 /\
    (acc mod 2 ^ bits) * 2 ^ 5 + v = val 8 out1 * 2 ^ b1 + (acc1 5 4095 acc v) mod 2 ^ b1.
Proof.
  intros Hb Ha Hv. rewrite emit58 by exact Hb.
  rewrite acc1_arith by (auto; lia). change (2 ^ 5) with 32 in *.
  set (a1 := (acc * 32 + v) mod 4096).
  assert (Ha1 : a1 < 4096) by (apply N.mod_lt; lia).
  assert (H : bits = 0 \/ bits = 1 \/ bits = 2 \/ bits = 3 \/ bits = 4 \/ bits = 5 \/ bits = 6 \/ bits = 7) by lia.
  destruct H as [->|[->|[->|[->|[->|[->|[->| ->]]]]]]]; cbn [N.ltb N.compare Pos.compare Pos.compare_cont];
    eexists; eexists; (split; [reflexivity|]);
    rewrite ?(digit_arith _ _ 8) by reflexivity;
    unfold val, lenN; cbn [fold_left length];
    repeat match goal with |- context [2 ^ ?k] => let x := eval vm_compute in (2 ^ k) in change (2 ^ k) with x end;
    (assert (E : a1 = (acc mod 128) * 32 + v) by (subst a1; lia)); clearbody a1;
    (repeat split; try lia; repeat constructor; apply N.mod_lt; lia).
Qed.

(* ---------- convertBits as called by address.go ---------- *)
Lemma convert_bits_85 d :
  convert_bits d 8 5 true =
  (do (acc, bits, ret) <- cb_loop d 0 0 8 5 31 4095 ;;
   Ok (map (fun x => x mod 256)
           (if 0 <? bits then ret ++ [N.land (w64 (N.shiftl acc (5 - bits))) 31] else ret))).
Proof. reflexivity. Qed.

Lemma convert_bits_58 p :
  convert_bits p 5 8 false =
  (do (acc, bits, ret) <- cb_loop p 0 0 5 8 255 4095 ;;
   if (5 <=? bits) || negb (N.land (w64 (N.shiftl acc (8 - bits))) 255 =? 0) then Err 1
   else Ok (map (fun x => x mod 256) ret)).
Proof. reflexivity. Qed.

Lemma Bytes_lt_pow8 d : Bytes d -> Forall (fun x => x < 2 ^ 8) d.
Proof. exact (fun H => H). Qed.

Lemma last85 acc b : acc < 4096 -> 0 < b -> b < 5 ->
  N.land (w64 (N.shiftl acc (5 - b))) 31 = (acc mod 2 ^ b) * 2 ^ (5 - b).
Proof.
  intros Ha H0 Hb. unfold w64. rewrite N.shiftl_mul_pow2.
  rewrite (land_mask _ 5) by reflexivity.
  assert (H : b = 1 \/ b = 2 \/ b = 3 \/ b = 4) by lia.
  destruct H as [->|[->|[->| ->]]];
    repeat match goal with |- context [2 ^ ?k] => let x := eval vm_compute in (2 ^ k) in change (2 ^ k) with x end;
    lia.
Qed.

Lemma last58 acc b : acc < 4096 -> b < 8 ->
  (N.land (w64 (N.shiftl acc (8 - b))) 255 =? 0) = (acc mod 2 ^ b =? 0).
Proof.
  intros Ha Hb. unfold w64. rewrite N.shiftl_mul_pow2.
  rewrite (land_mask _ 8) by reflexivity.
  assert (H : b = 0 \/ b = 1 \/ b = 2 \/ b = 3 \/ b = 4 \/ b = 5 \/ b = 6 \/ b = 7) by lia.
  destruct H as [->|[->|[->|[->|[->|[->|[->| ->]]]]]]];
    repeat match goal with |- context [2 ^ ?k] => let x := eval vm_compute in (2 ^ k) in change (2 ^ k) with x end;
    lia.
Qed.

(* padded 8 -> 5: the symbols are the digits of (value of the bytes) * 2^pd, pd < 5 padding bits *)
Theorem pack_spec d : Bytes d ->
  exists p pd, convert_bits d 8 5 true = Ok p /\ Forall (fun x => x < 32) p /\ pd < 5 /\
               5 * lenN p = 8 * lenN d + pd /\ val 5 p = val 8 d * 2 ^ pd.
Proof.
  intros Hd.
  destruct (loop_spec 8 5 31 4095 4096 step85 d 0 0 (Bytes_lt_pow8 d Hd)) as
    (acc' & bits' & out & Hl & Hb & Ha & HF & Hlen & He); [lia | lia |].
  rewrite convert_bits_85, Hl. cbn [rbind].
  change (0 mod 2 ^ 0) with 0 in He. rewrite N.mul_0_l, N.add_0_l in He.
  change (2 ^ 5) with 32 in HF.
  destruct (N.ltb_spec 0 bits') as [Hpos|Hz].
  - exists (out ++ [(acc' mod 2 ^ bits') * 2 ^ (5 - bits')]), (5 - bits').
    rewrite last85 by assumption.
    assert (Hlast : (acc' mod 2 ^ bits') * 2 ^ (5 - bits') < 32).
    { assert (H : bits' = 1 \/ bits' = 2 \/ bits' = 3 \/ bits' = 4) by lia.
      destruct H as [->|[->|[->| ->]]];
        repeat match goal with |- context [2 ^ ?k] => let x := eval vm_compute in (2 ^ k) in change (2 ^ k) with x end; lia. }
    assert (HF' : Forall (fun x => x < 32) (out ++ [(acc' mod 2 ^ bits') * 2 ^ (5 - bits')])).
    { apply Forall_app. split; [exact HF|]. constructor; [exact Hlast|constructor]. }
    split; [|split; [exact HF'|split; [lia|split]]].
    + f_equal. apply (map_mod256_small _ 5); [lia|exact HF'].
    + rewrite lenN_snoc. clear - Hlen Hb Hpos. lia.
    + rewrite val_snoc. rewrite He.
      assert (Hp : 2 ^ 5 = 2 ^ bits' * 2 ^ (5 - bits')) by (rewrite <- N.pow_add_r; f_equal; lia).
      rewrite Hp. clear. lia.
  - assert (bits' = 0) by lia. subst bits'. exists out, 0.
    split; [|split; [exact HF|split; [lia|split]]].
    + f_equal. apply (map_mod256_small _ 5); [lia|exact HF].
    + clear - Hlen. lia.
    + rewrite He. change (2 ^ 0) with 1. rewrite N.mod_1_r. lia.
Qed.

(* strict 5 -> 8: accepted exactly when fewer than 5 leftover bits remain and they are all zero *)
Theorem unpack_spec p : Forall (fun x => x < 32) p ->
  exists out r X, r < 8 /\ X < 2 ^ r /\ Bytes out /\ r + 8 * lenN out = 5 * lenN p /\
    val 5 p = val 8 out * 2 ^ r + X /\
    convert_bits p 5 8 false = (if (5 <=? r) || negb (X =? 0) then Err 1 else Ok out).
Proof.
  intros Hp.
  destruct (loop_spec 5 8 255 4095 4096 step58 p 0 0 Hp) as
    (acc' & bits' & out & Hl & Hb & Ha & HF & Hlen & He); [lia | lia |].
  exists out, bits', (acc' mod 2 ^ bits').
  change (0 mod 2 ^ 0) with 0 in He. rewrite N.mul_0_l, N.add_0_l in He.
  rewrite convert_bits_58, Hl. cbn [rbind]. rewrite last58 by assumption.
  rewrite (map_mod256_small out 8) by (auto; lia).
  repeat split; auto.
  all: try (apply N.mod_lt; apply N.pow_nonzero; lia).
  all: try (clear - Hlen; lia).
Qed.

Lemma convert_bits_58_no_panic p k : Forall (fun x => x < 32) p -> convert_bits p 5 8 false <> Panic k.
Proof.
  intros Hp. destruct (unpack_spec p Hp) as (out & r & X & _ & _ & _ & _ & _ & E).
  rewrite E. destruct ((5 <=? r) || negb (X =? 0)); discriminate.
Qed.

Lemma convert_bits_58_err p e : Forall (fun x => x < 32) p -> convert_bits p 5 8 false = Err e -> e = 1.
Proof.
  intros Hp. destruct (unpack_spec p Hp) as (out & r & X & _ & _ & _ & _ & _ & E).
  rewrite E. destruct ((5 <=? r) || negb (X =? 0)); congruence.
Qed.

(* what strict 5 -> 8 returns, in value form *)
Theorem unpack_ok p d : Forall (fun x => x < 32) p -> convert_bits p 5 8 false = Ok d ->
  Bytes d /\ exists r, r < 5 /\ r + 8 * lenN d = 5 * lenN p /\ val 5 p = val 8 d * 2 ^ r.
Proof.
  intros Hp H. destruct (unpack_spec p Hp) as (out & r & X & Hr & HX & Hout & Hlen & Hv & E).
  rewrite E in H. destruct (N.leb_spec 5 r) as [|Hr5]; [discriminate|].
  destruct (N.eqb_spec X 0) as [HX0|]; [|discriminate]. cbn in H. injection H as <-.
  split; [exact Hout|]. exists r. subst X. repeat split; auto. lia.
Qed.

(* and conversely anything of that shape is accepted *)
Theorem unpack_accepts p d r : Forall (fun x => x < 32) p -> Bytes d -> r < 5 ->
  r + 8 * lenN d = 5 * lenN p -> val 5 p = val 8 d * 2 ^ r -> convert_bits p 5 8 false = Ok d.
Proof.
  intros Hp Hd Hr Hlen Hv.
  destruct (unpack_spec p Hp) as (out & r' & X & Hr' & HX & Hout & Hlen' & Hv' & E).
  assert (r' = r /\ lenN out = lenN d) as [-> El] by (clear - Hlen Hlen' Hr Hr'; lia).
  pose proof (pow2_pos r) as Hpos.
  assert (X = 0 /\ val 8 out = val 8 d) as [-> Ev].
  { rewrite Hv in Hv'. clear - Hv' HX Hpos. set (P := 2 ^ r) in *.
    assert (Ev : val 8 out = val 8 d).
    { rewrite (N.div_unique (val 8 d * P) P (val 8 out) X HX) by lia. rewrite N.div_mul; lia. }
    split; [|exact Ev]. rewrite Ev in Hv'. lia. }
  rewrite E. destruct (N.leb_spec 5 r); [lia|]. cbn. f_equal.
  apply (val_inj 8); auto. unfold lenN in El. lia.
Qed.

(* round trip: strict 5 -> 8 inverts padded 8 -> 5 *)
Theorem unpack_pack d : Bytes d ->
  exists p, convert_bits d 8 5 true = Ok p /\ Forall (fun x => x < 32) p /\
            5 * lenN p < 8 * lenN d + 5 /\ 8 * lenN d <= 5 * lenN p /\
            convert_bits p 5 8 false = Ok d.
Proof.
  intros Hd. destruct (pack_spec d Hd) as (p & pd & Hc & Hp & Hpd & Hlen & Hv).
  exists p. repeat split; auto; try lia.
  apply (unpack_accepts p d pd); auto. lia.
Qed.

(* canonicity: an accepted symbol string is the padded regrouping of the bytes it yields *)
Theorem pack_unpack p d : Forall (fun x => x < 32) p -> convert_bits p 5 8 false = Ok d ->
  Bytes d /\ convert_bits d 8 5 true = Ok p.
Proof.
  intros Hp H. destruct (unpack_ok p d Hp H) as (Hd & r & Hr & Hlen & Hv).
  split; [exact Hd|].
  destruct (pack_spec d Hd) as (p' & pd & Hc & Hp' & Hpd & Hlen' & Hv').
  rewrite Hc. f_equal.
  assert (pd = r /\ lenN p' = lenN p) as [-> El] by (clear - Hlen Hlen' Hr Hpd; lia).
  apply (val_inj 5); auto.
  - unfold lenN in El. lia.
  - congruence.
Qed.

(* lengths: n bytes <-> ceil(8n/5) symbols *)
Lemma pack_length d p : Bytes d -> convert_bits d 8 5 true = Ok p -> lenN p = (8 * lenN d + 4) / 5.
Proof.
  intros Hd H. destruct (pack_spec d Hd) as (p' & pd & Hc & _ & Hpd & Hlen & _).
  rewrite Hc in H. injection H as <-. clear - Hpd Hlen. lia.
Qed.

Lemma unpack_length p d : Forall (fun x => x < 32) p -> convert_bits p 5 8 false = Ok d ->
  lenN d = 5 * lenN p / 8 /\ (5 * lenN p) mod 8 < 5.
Proof.
  intros Hp H. destruct (unpack_ok p d Hp H) as (_ & r & Hr & Hlen & _). clear - Hr Hlen. lia.
Qed.

(* Model of address.go above the CashAddr symbol layer: packAddressData, checkEncodeCashAddress,
   checkDecodeCashAddress, the six address kinds with their constructors, EncodeAddress / String /
   ScriptAddress / IsForNet, asciiLower and the dispatch of DecodeAddress.
   Dependencies are section variables: RIPEMD-160, secp256k1 parse / serialise.  SHA-256 is the
   in-Coq Lib.Sha256 (compared with crypto/sha256 on every run).  strings.EqualFold is modelled by
   its ASCII reading, which is exact here: both arguments have the same byte length and the second
   is an ASCII prefix followed by ':' (see design/notes_C02.md).  hex is encoding/hex. *)
From BU Require Import Lib.Bytes Lib.PolyMod Lib.Sha256 Gen.Xbchutil Gen.Nets
  Base58.Base58 CashAddr.CashAddr Address.Bits.

Definition ripemd160_size : nat := 20.   (* golang.org/x/crypto/ripemd160.Size *)
Definition sha256_size : nat := 32.      (* crypto/sha256.Size *)

Definition AddrTypePKH : N := Z.to_N c_AddrTypePayToPubKeyHash.
Definition AddrTypeSH : N := Z.to_N c_AddrTypePayToScriptHash.
Definition AddrTypeSH32 : N := Z.to_N c_AddrTypePayToScriptHash32.
Definition PKFUncompressed : N := Z.to_N c_PKFUncompressed.
Definition PKFCompressed : N := Z.to_N c_PKFCompressed.
Definition PKFHybrid : N := Z.to_N c_PKFHybrid.


(* ---------- packAddressData / checkEncodeCashAddress ---------- *)
Definition PK := lit lits_packAddressData.

(* error classes: 1 invalid AddressType, 2 invalid hash size, 3 encoded size out of range, 4 padding *)
Definition pack_address_data (t : N) (h : list N) : res (list N) :=
  if negb (t =? AddrTypePKH) && negb (t =? AddrTypeSH) then Err 1 else
  let version := w64 (N.shiftl t (PK 0)) in
  let n := lenN h in
  (* (uint(len(addrHash)) - 20) / 4 on uint64 *)
  let encoded_size := w64 (n + 18446744073709551616 - PK 1) / PK 2 in
  (* (len(addrHash)-20)%4 != 0 on int: Go's % truncates towards zero *)
  if negb (Z.rem (Z.of_N n - Z.of_N (PK 3)) (Z.of_N (PK 4)) =? Z.of_N (PK 5))%Z then Err 2 else
  if (encoded_size <? PK 6) || (PK 7 <? encoded_size) then Err 3 else
  let version := N.lor version encoded_size in
  match convert_bits ((version mod 256) :: h) (PK 8) (PK 9) true with
  | Ok p => Ok p
  | Err _ => Err 4
  | Panic k => Panic k
  end.

(* a packing error yields the empty string *)
Definition check_encode_cash (input prefix : list N) (t : N) : res (list N) :=
  match pack_address_data t input with
  | Ok k => CashAddr.encode prefix k
  | Err _ => Ok []
  | Panic k => Panic k
  end.

(* ---------- checkDecodeCashAddress ---------- *)
Definition CD := lit lits_checkDecodeCashAddress.

(* returns the prefix the Go function returns next to the error, and (hash, type) or an error class:
   1..8 as CashAddr.decode_cashaddr (8 = ErrChecksumMismatch), 20 padding, 21 data length,
   22 ErrUnknownAddressType *)
Definition check_decode_cash (input : list N) : list N * res (list N * N) :=
  match decode_cashaddr input with
  | Err e => ([], Err e)
  | Panic k => ([], Panic k)
  | Ok (prefix, data5) =>
      match convert_bits data5 (CD 0) (CD 1) false with
      | Err _ => (prefix, Err 20)
      | Panic k => (prefix, Panic k)
      | Ok data =>
          let n := lenN data in
          if negb (n =? CD 2 + N.of_nat ripemd160_size) && negb (n =? CD 3 + N.of_nat sha256_size)
          then (prefix, Err 21)
          else match nth_error data (N.to_nat (CD 4)) with
               | None => (prefix, Panic 1)
               | Some v =>
                   if (v =? CD 5) && (n =? CD 6 + N.of_nat ripemd160_size) then (prefix, Ok (skipn (N.to_nat (CD 13)) data, AddrTypePKH))
                   else if (v =? CD 8) && (n =? CD 9 + N.of_nat ripemd160_size) then (prefix, Ok (skipn (N.to_nat (CD 13)) data, AddrTypeSH))
                   else if (v =? CD 11) && (n =? CD 12 + N.of_nat sha256_size) then (prefix, Ok (skipn (N.to_nat (CD 13)) data, AddrTypeSH32))
                   else (prefix, Err 22)
               end
      end
  end.

(* ---------- ASCII helpers ---------- *)
Definition AL := lit lits_asciiLower.
Definition ascii_lower_c (c : N) : N :=
  if (AL 0 <=? c) && (c <=? AL 1) then (c + (AL 2 - AL 3)) mod 256 else c.
Definition ascii_lower (s : list N) : list N := map ascii_lower_c s.

(* strings.EqualFold restricted to what DecodeAddress feeds it *)
Definition is_upper (c : N) : bool := (65 <=? c) && (c <=? 90).
Definition fold_eq (a b : N) : bool :=
  (a =? b) || (is_upper a && (b =? a + 32)) || (is_upper b && (a =? b + 32)).
Fixpoint equal_fold (s t : list N) : bool :=
  match s, t with
  | [], [] => true
  | a :: s', b :: t' => fold_eq a b && equal_fold s' t'
  | _, _ => false
  end.

(* encoding/hex *)
Definition hex_val (c : N) : option N :=
  if (48 <=? c) && (c <=? 57) then Some (c - 48)
  else if (97 <=? c) && (c <=? 102) then Some (c - 87)
  else if (65 <=? c) && (c <=? 70) then Some (c - 55)
  else None.
Fixpoint hex_decode (s : list N) : option (list N) :=
  match s with
  | [] => Some []
  | [_] => None
  | a :: b :: t =>
      match hex_val a, hex_val b, hex_decode t with
      | Some x, Some y, Some r => Some (16 * x + y :: r)
      | _, _, _ => None
      end
  end.
Definition hex_digit (d : N) : N := if d <? 10 then 48 + d else 87 + d.
Definition hex_encode (b : list N) : list N :=
  flat_map (fun x => [hex_digit (x / 16); hex_digit (x mod 16)]) b.

Definition colon : N := 58.

Section Model.
Variable ripemd160 : list N -> list N.       (* golang.org/x/crypto/ripemd160 *)
Variable P : Type.                            (* a parsed secp256k1 public key *)
Variable ec_parse : list N -> option P.       (* bchec.ParsePubKey *)
Variable ec_ser : N -> P -> list N.           (* SerializeUncompressed / Compressed / Hybrid by PubKeyFormat *)

Definition hash160 (b : list N) : list N := ripemd160 (sha256 b).
Definition hash256 (b : list N) : list N := sha256 (sha256 b).

Inductive addr :=
| PKH (prefix hash : list N)        (* AddressPubKeyHash *)
| SH (prefix hash : list N)         (* AddressScriptHash *)
| SH32 (prefix hash : list N)       (* AddressScriptHash32 *)
| LegPKH (id : N) (hash : list N)   (* LegacyAddressPubKeyHash *)
| LegSH (id : N) (hash : list N)    (* LegacyAddressScriptHash *)
| PubKey (fmt : N) (pt : P) (id : N).   (* AddressPubKey *)

(* ---------- constructors (error class 10 = wrong hash length) ---------- *)
Definition net_prefix (net : net) (slp : bool) : list N :=
  if slp then slp_prefix net else cash_prefix net.

Definition new_pkh (net : net) (slp : bool) (h : list N) : res addr :=
  if (length h =? ripemd160_size)%nat then Ok (PKH (net_prefix net slp) h) else Err 10.
Definition new_sh (net : net) (slp : bool) (h : list N) : res addr :=
  if (length h =? ripemd160_size)%nat then Ok (SH (net_prefix net slp) h) else Err 10.
Definition new_sh32 (net : net) (slp : bool) (h : list N) : res addr :=
  if (length h =? sha256_size)%nat then Ok (SH32 (net_prefix net slp) h) else Err 10.
Definition new_leg_pkh (id : N) (h : list N) : res addr :=
  if (length h =? ripemd160_size)%nat then Ok (LegPKH id h) else Err 10.
Definition new_leg_sh (id : N) (h : list N) : res addr :=
  if (length h =? ripemd160_size)%nat then Ok (LegSH id h) else Err 10.

(* script-taking constructors *)
Definition new_sh_script (net : net) (script : list N) : res addr := new_sh net false (hash160 script).
Definition new_sh32_script (net : net) (script : list N) : res addr := new_sh32 net false (hash256 script).
Definition new_leg_sh_script (net : net) (script : list N) : res addr := new_leg_sh (sh_id net) (hash160 script).

(* NewAddressPubKey: error classes 5 = bchec.ParsePubKey failed, 6 = unknown format byte *)
Definition PKL := lit lits_NewAddressPubKey.
Definition new_pubkey (net : net) (ser : list N) : res addr :=
  match ec_parse ser with
  | None => Err 5
  | Some pt =>
      match nth_error ser (N.to_nat (PKL 0)) with
      | None => Panic 1
      | Some b0 =>
          if (b0 =? PKL 1) || (b0 =? PKL 2) then Ok (PubKey PKFCompressed pt (pkh_id net))
          else if (b0 =? PKL 3) || (b0 =? PKL 4) then Ok (PubKey PKFHybrid pt (pkh_id net))
          else if b0 =? PKL 5 then Ok (PubKey PKFUncompressed pt (pkh_id net))
          else Err 6
      end
  end.

(* ---------- methods ---------- *)
(* AddressPubKey.serialize: unknown formats fall through to uncompressed *)
Definition serialize (fmt : N) (pt : P) : list N :=
  if fmt =? PKFCompressed then ec_ser PKFCompressed pt
  else if fmt =? PKFHybrid then ec_ser PKFHybrid pt
  else ec_ser PKFUncompressed pt.

(* encodeLegacyAddress: hash160[:ripemd160.Size] panics on a shorter slice *)
Definition encode_legacy (h : list N) (id : N) : res (list N) :=
  if (length h <? ripemd160_size)%nat then Panic 2
  else Ok (check_encode (firstn ripemd160_size h) id).

Definition encode_address (a : addr) : res (list N) :=
  match a with
  | PKH p h => check_encode_cash h p AddrTypePKH
  | SH p h => check_encode_cash h p AddrTypeSH
  | SH32 p h => check_encode_cash h p AddrTypeSH     (* the 32-byte length selects size code 3 *)
  | LegPKH id h => encode_legacy h id
  | LegSH id h => encode_legacy h id
  | PubKey fmt pt id => encode_legacy (hash160 (serialize fmt pt)) id
  end.

Definition addr_string (a : addr) : res (list N) :=
  match a with
  | PubKey fmt pt _ => Ok (hex_encode (serialize fmt pt))
  | _ => encode_address a
  end.

Definition script_address (a : addr) : list N :=
  match a with
  | PKH _ h | SH _ h | SH32 _ h | LegPKH _ h | LegSH _ h => h
  | PubKey fmt pt _ => serialize fmt pt
  end.

Definition is_for_net (a : addr) (n : net) : bool :=
  match a with
  | PKH p _ | SH p _ | SH32 p _ => list_eqb p (cash_prefix n)
  | LegPKH id _ => id =? pkh_id n
  | LegSH id _ => id =? sh_id n
  | PubKey _ _ id => id =? pkh_id n
  end.

(* ---------- DecodeAddress ---------- *)
Definition DA := lit lits_DecodeAddress.

(* error classes of decode_address:
   1 invalid length, 2 ErrUnknownAddressType, 3 unknown size, 4 hex, 5 EC parse, 6 pubkey format byte,
   7 ErrChecksumMismatch, 8 ErrUnknownFormat, 9 ErrAddressCollision, 10 constructor length *)
Definition cash_dispatch (net : net) (slp : bool) (decoded : list N) (typ : N) : res addr :=
  if (length decoded =? ripemd160_size)%nat then
    if typ =? AddrTypePKH then new_pkh net slp decoded
    else if typ =? AddrTypeSH then new_sh net slp decoded
    else Err 2
  else if (length decoded =? sha256_size)%nat then
    if typ =? AddrTypeSH32 then new_sh32 net slp decoded else Err 2
  else Err 3.

Definition mem (x : N) (l : list N) : bool := existsb (N.eqb x) l.

Definition legacy_path (reg_pkh reg_sh : list N) (s : list N) (cash_checksum_err : bool) : res addr :=
  match check_decode s with
  | Panic k => Panic k
  | Err e => if e =? 2 then Err 7 else if cash_checksum_err then Err 7 else Err 8
  | Ok (decoded, net_id) =>
      if (length decoded =? ripemd160_size)%nat then
        let is_pkh := mem net_id reg_pkh in
        let is_sh := mem net_id reg_sh in
        if is_pkh && is_sh then Err 9
        else if is_pkh then new_leg_pkh net_id decoded
        else if is_sh then new_leg_sh net_id decoded
        else Err 2
      else Err 3
  end.

Definition tail_path (net : net) (reg_pkh reg_sh : list N) (s : list N) (cash_checksum_err : bool) : res addr :=
  if (lenN s =? DA 6) || (lenN s =? DA 7) then
    match hex_decode s with
    | None => Err 4
    | Some ser => new_pubkey net ser
    end
  else legacy_path reg_pkh reg_sh s cash_checksum_err.

Definition has_prefix (net : net) (s : list N) : bool :=
  equal_fold (firstn (length (cash_prefix net) + N.to_nat (DA 2)) s) (cash_prefix net ++ [colon]) ||
  equal_fold (firstn (length (slp_prefix net) + N.to_nat (DA 3)) s) (slp_prefix net ++ [colon]).

Definition with_prefix (net : net) (slp : bool) (s : list N) : list N :=
  if has_prefix net s then s else net_prefix net slp ++ [colon] ++ ascii_lower s.

Definition decode_address (net : net) (reg_pkh reg_sh : list N) (s : list N) : res addr :=
  let bch := cash_prefix net in
  let slp := slp_prefix net in
  if (lenN s <? lenN bch + DA 0) || (lenN s <? lenN slp + DA 1) then Err 1 else
  let '(prefix, r) := check_decode_cash (with_prefix net false s) in
  let retry :=
    match snd (check_decode_cash (with_prefix net true s)) with
    | Ok (decoded, typ) => cash_dispatch net true decoded typ
    | Err e => tail_path net reg_pkh reg_sh s (e =? 8)
    | Panic k => Panic k
    end in
  match r with
  | Panic k => Panic k
  | Ok (decoded, typ) =>
      if negb (list_eqb prefix slp) then cash_dispatch net false decoded typ
      else retry
  | Err e =>
      if (e =? 8) || list_eqb prefix slp then retry
      else tail_path net reg_pkh reg_sh s false
  end.

End Model.

Arguments PKH {P}. Arguments SH {P}. Arguments SH32 {P}. Arguments LegPKH {P}. Arguments LegSH {P}.
Arguments PubKey {P}.

(* The CashAddr address format written from the specification text
   (bitcoincashorg/bitcoincash.org, spec/cashaddr.md) with its own literals; nothing here comes
   from the Go source.  The bit regrouping is stated arithmetically: the payload's bit string,
   padded with zero bits to a multiple of 5, is the base-32 expansion of value * 2^padding. *)
From BU Require Import Lib.Bytes Lib.PolyMod.

Definition spec_charset : list N :=   (* "qpzry9x8gf2tvdw0s3jn54khce6mua7l" *)
  [113;112;122;114;121;57;120;56;103;102;50;116;118;100;119;48;115;51;106;110;53;52;107;104;99;101;54;109;117;97;55;108].

(* PolyMod of the specification: c0 = c >> 35; c = ((c & 0x07ffffffff) << 5) ^ d;
   if (c0 & 0x01) c ^= 0x98f2bc8e61; ... ; return c ^ 1 *)
Definition spec_params : pm_params :=
  {| pm_shift := 35; pm_mask := 34359738367; pm_sym := 5;
     pm_gens := [(1, 656907472481); (2, 522768456162); (4, 1044723512260); (8, 748107326120); (16, 130178868336)] |}.
Definition spec_polymod (v : list N) : N := N.lxor (pm_fold spec_params 1 v) 1.

(* size bits of the version byte *)
Definition spec_size_code (nbytes : N) : option N :=
  if nbytes =? 20 then Some 0 else if nbytes =? 24 then Some 1 else if nbytes =? 28 then Some 2
  else if nbytes =? 32 then Some 3 else if nbytes =? 40 then Some 4 else if nbytes =? 48 then Some 5
  else if nbytes =? 56 then Some 6 else if nbytes =? 64 then Some 7 else None.

(* version byte: reserved bit 0, four type bits, three size bits *)
Definition spec_version (type_bits size : N) : N := type_bits * 8 + size.

Definition spec_payload (bytes : list N) : list N :=
  let n := N.of_nat (length bytes) in
  let m := (8 * n + 4) / 5 in
  unpack (N.to_nat m) (be_value bytes 0 * 2 ^ (5 * m - 8 * n)).

Definition spec_checksum (prefix payload : list N) : list N :=
  unpack 8 (spec_polymod (map (fun c => N.land c 31) prefix ++ [0] ++ payload ++ repeat 0 8)).

Definition spec_cashaddr (prefix : list N) (type_bits : N) (hash : list N) : option (list N) :=
  match spec_size_code (N.of_nat (length hash)) with
  | None => None
  | Some sz =>
      let payload := spec_payload (spec_version type_bits sz :: hash) in
      Some (map (fun d => nth (N.to_nat d) spec_charset 0) (payload ++ spec_checksum prefix payload))
  end.

(* the specification's own example: 20-byte hash 76a04053bda0a88bda5177b86a15c3b29f559873 *)
Definition spec_example_hash : list N :=
  [118;160;64;83;189;160;168;139;218;81;119;184;106;21;195;178;159;85;152;115].
Definition ascii_bitcoincash : list N := [98;105;116;99;111;105;110;99;97;115;104].

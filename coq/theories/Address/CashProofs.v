(* Facts about the CashAddr symbol layer (CashAddr/CashAddr.v) needed by the address theorems:
   the character tables are mutually inverse up to ASCII case (finite checks over the extracted
   tables), what the scanning loop of DecodeCashAddress accepts, forward evaluation and inversion
   of decode_cashaddr, and separation of two prefixes by their post-prefix checksum state. *)
From BU Require Import Lib.Bytes Lib.PolyMod Gen.Xbchutil Base58.Base58Proofs CashAddr.CashAddr
  Checksum.StepFacts Checksum.Valid Address.Bits Address.Address.
From Coq Require Import ZifyBool ZifyN ZifyNat.

(* ---------- character classes ---------- *)
Definition is_lower (c : N) : bool := (97 <=? c) && (c <=? 122).
Definition is_digit (c : N) : bool := (48 <=? c) && (c <=? 57).
Definition is_letter (c : N) : bool := is_lower c || is_upper c.
Definition is_alnum (c : N) : bool := is_letter c || is_digit c.
Definition ascii_upper_c (c : N) : N := if is_lower c then c - 32 else c.
Definition ascii_upper (s : list N) : list N := map ascii_upper_c s.

Definition chr (d : N) : N := nth (N.to_nat d) charset 0.

(* one iteration of the value-decoding loop *)
Definition sym_of (c : N) : option N :=
  if 127 <? c then None else
  match nth_error charset_rev (N.to_nat c) with
  | None => None
  | Some v => if (v =? -1)%Z then None else Some (Z.to_N v mod 256)
  end.

Lemma charset_len : length charset = 32%nat.
Proof. reflexivity. Qed.
Lemma charset_rev_len : length charset_rev = 128%nat.
Proof. reflexivity. Qed.

(* finite checks over the extracted tables *)
Lemma tab_rev_b : forallb (fun c =>
    match sym_of c with
    | None => true
    | Some v => (v <? 32) && (chr v =? ascii_lower_c c) && is_alnum c
    end) (range 128) = true.
Proof. vm_compute. reflexivity. Qed.

Lemma tab_chr_b : forallb (fun d =>
    match sym_of (chr d), sym_of (ascii_upper_c (chr d)) with
    | Some v, Some v' => (v =? d) && (v' =? d) && (is_lower (chr d) || is_digit (chr d)) &&
                         negb (is_upper (chr d)) && (ascii_lower_c (ascii_upper_c (chr d)) =? chr d) &&
                         is_alnum (ascii_upper_c (chr d)) && negb (is_lower (ascii_upper_c (chr d)))
    | _, _ => false
    end) (range 32) = true.
Proof. vm_compute. reflexivity. Qed.

Lemma tab_lower_case_b : forallb (fun c => negb (is_letter c) || (lower_case c =? ascii_lower_c c)) (range 128) = true.
Proof. vm_compute. reflexivity. Qed.

Lemma sym_of_some c v : sym_of c = Some v ->
  v < 32 /\ chr v = ascii_lower_c c /\ is_alnum c = true.
Proof.
  intros H. assert (Hc : c < 128).
  { unfold sym_of in H. destruct (N.ltb_spec 127 c); [discriminate|lia]. }
  pose proof tab_rev_b as T. rewrite forallb_forall in T.
  specialize (T c (proj2 (range_spec 128 c) Hc)). rewrite H in T.
  rewrite !andb_true_iff in T. destruct T as [[T1 T2] T3]. repeat split; auto; lia.
Qed.

Lemma chr_props d : d < 32 ->
  sym_of (chr d) = Some d /\ sym_of (ascii_upper_c (chr d)) = Some d /\
  (is_lower (chr d) || is_digit (chr d)) = true /\ is_upper (chr d) = false /\
  ascii_lower_c (ascii_upper_c (chr d)) = chr d /\
  is_alnum (ascii_upper_c (chr d)) = true /\ is_lower (ascii_upper_c (chr d)) = false.
Proof.
  intros Hd. pose proof tab_chr_b as T. rewrite forallb_forall in T.
  specialize (T d (proj2 (range_spec 32 d) Hd)).
  destruct (sym_of (chr d)) as [v|]; [|discriminate].
  destruct (sym_of (ascii_upper_c (chr d))) as [v'|]; [|discriminate].
  rewrite !andb_true_iff, !negb_true_iff in T.
  destruct T as [[[[[[T1 T2] T3] T4] T5] T6] T7].
  apply N.eqb_eq in T1, T2, T5. subst. repeat split; auto.
Qed.

Lemma lower_case_letter c : is_letter c = true -> lower_case c = ascii_lower_c c.
Proof.
  intros H. assert (Hc : c < 128) by (unfold is_letter, is_lower, is_upper in H; lia).
  pose proof tab_lower_case_b as T. rewrite forallb_forall in T.
  specialize (T c (proj2 (range_spec 128 c) Hc)). rewrite H in T. cbn in T. lia.
Qed.

Lemma ascii_lower_c_eq c : ascii_lower_c c = if is_upper c then c + 32 else c.
Proof.
  unfold ascii_lower_c, is_upper. change (AL 0) with 65. change (AL 1) with 90. change (AL 2 - AL 3) with 32.
  destruct ((65 <=? c) && (c <=? 90)) eqn:E; [|reflexivity]. apply N.mod_small. lia.
Qed.

Lemma ascii_lower_idem c : ascii_lower_c (ascii_lower_c c) = ascii_lower_c c.
Proof.
  rewrite !ascii_lower_c_eq. destruct (is_upper c) eqn:E; [|rewrite E; reflexivity].
  assert (is_upper (c + 32) = false) by (unfold is_upper in *; lia). rewrite H. reflexivity.
Qed.

Lemma ascii_lower_not_upper c : is_upper c = false -> ascii_lower_c c = c.
Proof. intros H. rewrite ascii_lower_c_eq, H. reflexivity. Qed.

Lemma ascii_lower_app a b : ascii_lower (a ++ b) = ascii_lower a ++ ascii_lower b.
Proof. apply map_app. Qed.

Lemma ascii_lower_fixed s : Forall (fun c => is_upper c = false) s -> ascii_lower s = s.
Proof.
  induction 1 as [|c s Hc _ IH]; [reflexivity|]. cbn [ascii_lower map].
  rewrite ascii_lower_not_upper by exact Hc. f_equal. exact IH.
Qed.

Lemma ascii_lower_lower s : ascii_lower (ascii_lower s) = ascii_lower s.
Proof. unfold ascii_lower. rewrite map_map. apply map_ext. intros. apply ascii_lower_idem. Qed.

(* ---------- to_chars / to_values ---------- *)
Lemma to_chars_ok syms : Forall (fun x => x < 32) syms -> to_chars syms = Ok (map chr syms).
Proof.
  induction 1 as [|c t Hc _ IH]; [reflexivity|]. cbn [to_chars map].
  rewrite (nth_error_nth' charset 0) by (rewrite charset_len; lia).
  rewrite IH. reflexivity.
Qed.

Lemma to_values_cons c t : to_values (c :: t) =
  match sym_of c with
  | None => Err 6
  | Some v => do r <- to_values t ;; Ok (v :: r)
  end.
Proof.
  cbn [to_values]. unfold sym_of. change (D 17) with 127. change (D 18) with 1.
  destruct (127 <? c) eqn:E; [reflexivity|].
  destruct (nth_error charset_rev (N.to_nat c)) as [v|] eqn:En.
  - change (- Z.of_N 1)%Z with (-1)%Z. destruct (v =? -1)%Z; reflexivity.
  - exfalso. apply nth_error_None in En. rewrite charset_rev_len in En. lia.
Qed.

Lemma to_values_ok chars vals : to_values chars = Ok vals -> map sym_of chars = map Some vals.
Proof.
  revert vals. induction chars as [|c t IH]; intros vals H.
  - cbn in H. injection H as <-. reflexivity.
  - rewrite to_values_cons in H. destruct (sym_of c) as [v|] eqn:E; [|discriminate].
    destruct (to_values t) as [r| |]; try discriminate. cbn in H. injection H as <-.
    cbn [map]. rewrite E, (IH r eq_refl). reflexivity.
Qed.

Lemma to_values_of_syms chars vals : map sym_of chars = map Some vals -> to_values chars = Ok vals.
Proof.
  revert vals. induction chars as [|c t IH]; intros [|v vals] H; try discriminate; [reflexivity|].
  cbn [map] in H. injection H as Hc Ht. rewrite to_values_cons, Hc, (IH vals Ht). reflexivity.
Qed.

Lemma to_values_no_panic chars k : to_values chars <> Panic k.
Proof.
  induction chars as [|c t IH]; [discriminate|]. rewrite to_values_cons.
  destruct (sym_of c); [|discriminate]. destruct (to_values t); cbn [rbind]; try discriminate. exact IH.
Qed.

Lemma to_values_err chars e : to_values chars = Err e -> e = 6.
Proof.
  induction chars as [|c t IH]; [discriminate|]. rewrite to_values_cons.
  destruct (sym_of c); [|congruence]. destruct (to_values t); cbn [rbind]; try discriminate. exact IH.
Qed.

(* accepted characters: values below 32, and re-encoding gives the lower-cased characters *)
Lemma to_values_props chars vals : to_values chars = Ok vals ->
  Forall (fun x => x < 32) vals /\ map chr vals = ascii_lower chars /\
  Forall (fun c => is_alnum c = true) chars /\ length vals = length chars.
Proof.
  revert vals. induction chars as [|c t IH]; intros vals H.
  - cbn in H. injection H as <-. repeat split; constructor.
  - rewrite to_values_cons in H. destruct (sym_of c) as [v|] eqn:E; [|discriminate].
    destruct (to_values t) as [r| |] eqn:Et; try discriminate. cbn in H. injection H as <-.
    destruct (sym_of_some c v E) as (H1 & H2 & H3). destruct (IH r eq_refl) as (I1 & I2 & I3 & I4).
    repeat split.
    + constructor; auto.
    + cbn [map ascii_lower]. rewrite H2. f_equal. exact I2.
    + constructor; auto.
    + cbn [length]. congruence.
Qed.

Lemma to_values_chr syms : Forall (fun x => x < 32) syms -> to_values (map chr syms) = Ok syms.
Proof.
  intros H. apply to_values_of_syms. induction H as [|d t Hd _ IH]; [reflexivity|].
  cbn [map]. rewrite (proj1 (chr_props d Hd)), IH. reflexivity.
Qed.

Lemma to_values_chr_upper syms : Forall (fun x => x < 32) syms -> to_values (ascii_upper (map chr syms)) = Ok syms.
Proof.
  intros H. apply to_values_of_syms. induction H as [|d t Hd _ IH]; [reflexivity|].
  cbn [map ascii_upper]. destruct (chr_props d Hd) as (_ & E & _). rewrite E. f_equal. exact IH.
Qed.

(* ---------- the scanning loop ---------- *)
Lemma scan_cons c t i l u ps : scan (c :: t) i l u ps =
  if is_lower c then scan t (i + 1) true u ps
  else if is_upper c then scan t (i + 1) l true ps
  else if is_digit c then (if ps =? 0 then Err 1 else scan t (i + 1) l u ps)
  else if c =? 58 then (if (i =? 0) || negb (ps =? 0) then Err 2 else scan t (i + 1) l u i)
  else Err 3.
Proof. reflexivity. Qed.

Lemma class_disjoint c :
  (is_lower c = true -> is_upper c = false /\ is_digit c = false /\ c <> 58) /\
  (is_upper c = true -> is_lower c = false /\ is_digit c = false /\ c <> 58) /\
  (is_digit c = true -> is_lower c = false /\ is_upper c = false /\ c <> 58) /\
  (c = 58 -> is_lower c = false /\ is_upper c = false /\ is_digit c = false).
Proof. unfold is_lower, is_upper, is_digit. repeat split; intros; subst; lia. Qed.

(* after the separator: letters and digits only *)
Lemma scan_body s : forall i l u ps, ps <> 0 -> Forall (fun c => is_alnum c = true) s ->
  scan s i l u ps = Ok (l || existsb is_lower s, u || existsb is_upper s, ps).
Proof.
  induction s as [|c t IH]; intros i l u ps Hps HF.
  - cbn. rewrite !orb_false_r. reflexivity.
  - inversion HF as [|? ? Hc HF']; subst. rewrite scan_cons. cbn [existsb].
    unfold is_alnum, is_letter in Hc. destruct (class_disjoint c) as (D1 & D2 & D3 & _).
    destruct (is_lower c) eqn:El.
    + rewrite IH by assumption. destruct (D1 eq_refl) as (-> & _). rewrite !orb_true_r. reflexivity.
    + destruct (is_upper c) eqn:Eu.
      * rewrite IH by assumption. rewrite !orb_true_r. reflexivity.
      * cbn in Hc. rewrite Hc. destruct (N.eqb_spec ps 0); [contradiction|].
        rewrite IH by assumption. reflexivity.
Qed.

Lemma scan_body_inv s : forall i l u ps l' u' ps', ps <> 0 ->
  scan s i l u ps = Ok (l', u', ps') -> ps' = ps /\ Forall (fun c => is_alnum c = true) s.
Proof.
  induction s as [|c t IH]; intros i l u ps l' u' ps' Hps H.
  - cbn in H. injection H as _ _ <-. split; [reflexivity|constructor].
  - rewrite scan_cons in H. unfold is_alnum, is_letter.
    assert (Step : forall i l u, scan t i l u ps = Ok (l', u', ps') -> is_lower c || is_upper c || is_digit c = true ->
                   ps' = ps /\ Forall (fun c => is_lower c || is_upper c || is_digit c = true) (c :: t)).
    { intros i0 l0 u0 H0 Hc. destruct (IH _ _ _ _ _ _ _ Hps H0) as [E HF]. split; [exact E|]. constructor; assumption. }
    destruct (is_lower c) eqn:El; [exact (Step _ _ _ H eq_refl)|].
    destruct (is_upper c) eqn:Eu; [exact (Step _ _ _ H eq_refl)|].
    destruct (is_digit c) eqn:Ed.
    + destruct (N.eqb_spec ps 0); [discriminate|]. exact (Step _ _ _ H eq_refl).
    + destruct (c =? 58); [|discriminate]. destruct (N.eqb_spec ps 0); [contradiction|].
      rewrite orb_true_r in H. discriminate.
Qed.

(* before the separator: letters only *)
Lemma scan_prefix P : forall rest i l u, Forall (fun c => is_letter c = true) P ->
  scan (P ++ rest) i l u 0 = scan rest (i + lenN P) (l || existsb is_lower P) (u || existsb is_upper P) 0.
Proof.
  induction P as [|c t IH]; intros rest i l u HF.
  - cbn [app existsb]. rewrite !orb_false_r. unfold lenN. cbn. rewrite N.add_0_r. reflexivity.
  - inversion HF as [|? ? Hc HF']; subst. cbn [app]. rewrite scan_cons. cbn [existsb].
    unfold is_letter in Hc. destruct (class_disjoint c) as (D1 & D2 & _).
    replace (i + lenN (c :: t)) with (i + 1 + lenN t) by (unfold lenN; cbn [length]; lia).
    destruct (is_lower c) eqn:El.
    + rewrite IH by assumption. destruct (D1 eq_refl) as (-> & _). rewrite !orb_true_r, !orb_false_l. reflexivity.
    + cbn in Hc. rewrite Hc. rewrite IH by assumption. rewrite !orb_true_r, !orb_false_l. reflexivity.
Qed.

Lemma scan_full P body : P <> [] -> Forall (fun c => is_letter c = true) P ->
  Forall (fun c => is_alnum c = true) body ->
  scan (P ++ 58 :: body) 0 false false 0 =
  Ok (existsb is_lower (P ++ body), existsb is_upper (P ++ body), lenN P).
Proof.
  intros HP HF HB. rewrite scan_prefix by exact HF. rewrite scan_cons.
  destruct (class_disjoint 58) as (_ & _ & _ & D4). destruct (D4 eq_refl) as (-> & -> & ->).
  change (58 =? 58) with true. cbn [negb orb N.eqb].
  assert (Hl : lenN P <> 0) by (destruct P; [contradiction|unfold lenN; cbn; lia]).
  rewrite N.add_0_l. destruct (N.eqb_spec (lenN P) 0); [contradiction|].
  rewrite scan_body by assumption. rewrite !existsb_app, !orb_false_l. reflexivity.
Qed.

Lemma scan_inv s : forall i l u l' u' ps', scan s i l u 0 = Ok (l', u', ps') -> ps' <> 0 ->
  exists P body, s = P ++ 58 :: body /\ Forall (fun c => is_letter c = true) P /\
                 Forall (fun c => is_alnum c = true) body /\ ps' = i + lenN P.
Proof.
  induction s as [|c t IH]; intros i l u l' u' ps' H Hps.
  - cbn in H. injection H as _ _ <-. contradiction.
  - rewrite scan_cons in H.
    assert (Step : forall l u, scan t (i + 1) l u 0 = Ok (l', u', ps') -> is_letter c = true ->
                   exists P body, c :: t = P ++ 58 :: body /\ Forall (fun c => is_letter c = true) P /\
                                  Forall (fun c => is_alnum c = true) body /\ ps' = i + lenN P).
    { intros l0 u0 H0 Hc. destruct (IH _ _ _ _ _ _ H0 Hps) as (P & body & -> & HP & HB & Hl).
      exists (c :: P), body. repeat split; auto. unfold lenN in *. cbn [length]. lia. }
    destruct (is_lower c) eqn:El; [apply (Step _ _ H); unfold is_letter; rewrite El; reflexivity|].
    destruct (is_upper c) eqn:Eu; [apply (Step _ _ H); unfold is_letter; rewrite El, Eu; reflexivity|].
    destruct (is_digit c); [discriminate|].
    destruct (N.eqb_spec c 58) as [->|]; [|discriminate].
    cbn [negb N.eqb orb] in H. rewrite orb_false_r in H.
    destruct (N.eqb_spec i 0); [discriminate|].
    destruct (scan_body_inv _ _ _ _ _ _ _ _ n H) as (-> & HB).
    exists [], t. repeat split; auto. unfold lenN. cbn. lia.
Qed.

(* ---------- decode_cashaddr: forward evaluation and inversion ---------- *)
Lemma firstn_app_exact {A} (a b : list A) : firstn (length a) (a ++ b) = a.
Proof. rewrite firstn_app, Nat.sub_diag, firstn_all. cbn. apply app_nil_r. Qed.

Lemma skipn_app_exact {A} (a b : list A) x : skipn (length a + 1) (a ++ x :: b) = b.
Proof.
  rewrite skipn_app. rewrite skipn_all2 by lia.
  replace (length a + 1 - length a)%nat with 1%nat by lia. reflexivity.
Qed.

Lemma decode_cashaddr_eval P body vals : P <> [] ->
  Forall (fun c => is_letter c = true) P -> Forall (fun c => is_alnum c = true) body ->
  existsb is_upper (P ++ body) && existsb is_lower (P ++ body) = false ->
  to_values body = Ok vals -> (8 <= length vals)%nat ->
  decode_cashaddr (P ++ 58 :: body) =
  if verify_checksum (map lower_case P) vals
  then Ok (map lower_case P, firstn (length vals - 8) vals) else Err 8.
Proof.
  intros HP HF HB Hcase Hv Hlen. unfold decode_cashaddr.
  change (D 0) with 0. rewrite scan_full by assumption. cbn [rbind].
  change (D 12) with 0. change (D 19) with 8. change (D 20) with 8.
  assert (Hl : lenN P <> 0) by (destruct P; [contradiction|unfold lenN; cbn; lia]).
  destruct (N.eqb_spec (lenN P) 0); [contradiction|]. rewrite Hcase.
  unfold lenN. rewrite Nat2N.id. rewrite firstn_app_exact, skipn_app_exact. rewrite Hv. cbn [rbind].
  destruct (N.ltb_spec (N.of_nat (length vals)) 8); [lia|].
  destruct (verify_checksum (map lower_case P) vals); reflexivity.
Qed.

Lemma decode_cashaddr_inv str pfx data : decode_cashaddr str = Ok (pfx, data) ->
  exists P body vals, str = P ++ 58 :: body /\ P <> [] /\
    Forall (fun c => is_letter c = true) P /\ Forall (fun c => is_alnum c = true) body /\
    pfx = map lower_case P /\ to_values body = Ok vals /\ (8 <= length vals)%nat /\
    verify_checksum pfx vals = true /\ data = firstn (length vals - 8) vals.
Proof.
  unfold decode_cashaddr. change (D 0) with 0. change (D 12) with 0. change (D 19) with 8. change (D 20) with 8.
  destruct (scan str 0 false false 0) as [[[l u] ps]| |] eqn:Es; try discriminate. cbn [rbind].
  destruct (N.eqb_spec ps 0) as [|Hps]; [discriminate|].
  destruct (u && l); [discriminate|].
  destruct (scan_inv _ _ _ _ _ _ _ Es Hps) as (P & body & -> & HP & HB & Hl).
  rewrite N.add_0_l in Hl. subst ps. unfold lenN. rewrite Nat2N.id.
  rewrite firstn_app_exact, skipn_app_exact.
  destruct (to_values body) as [vals| |] eqn:Ev; try discriminate. cbn [rbind].
  destruct (N.ltb_spec (N.of_nat (length vals)) 8); [discriminate|].
  destruct (verify_checksum (map lower_case P) vals) eqn:Evc; [|discriminate].
  cbn [negb]. intros Hres. injection Hres as <- <-.
  exists P, body, vals. repeat split; auto.
  - intros ->. apply Hps. reflexivity.
  - lia.
Qed.

Lemma scan_no_panic s : forall i l u ps k, scan s i l u ps <> Panic k.
Proof.
  induction s as [|c t IH]; intros; [discriminate|]. rewrite scan_cons.
  repeat match goal with |- context [if ?b then _ else _] => destruct b end; auto; discriminate.
Qed.

Lemma decode_cashaddr_no_panic str k : decode_cashaddr str <> Panic k.
Proof.
  unfold decode_cashaddr.
  destruct (scan str 0 false false (D 0)) as [[[l u] ps]| |] eqn:Es; try discriminate;
    [|exfalso; eapply scan_no_panic; eauto].
  cbn [rbind]. destruct (ps =? D 12); [discriminate|]. destruct (u && l); [discriminate|].
  destruct (to_values _) as [vals| |] eqn:Ev; try discriminate; [|exfalso; eapply to_values_no_panic; eauto].
  cbn [rbind]. destruct (_ <? _); [discriminate|]. destruct (negb _); discriminate.
Qed.

Lemma map_lower_case_letters P : Forall (fun c => is_letter c = true) P -> map lower_case P = ascii_lower P.
Proof.
  induction 1 as [|c t Hc _ IH]; [reflexivity|]. cbn [map ascii_lower].
  rewrite lower_case_letter by exact Hc. f_equal. exact IH.
Qed.

(* ---------- two prefixes are separated by their post-prefix register state ---------- *)
Definition post_state (prefix : list N) : N := pm_fold cash_params (CashAddr.L 0) (expand_prefix prefix).

Lemma lxor_cancel_l a b c : N.lxor a b = N.lxor a c -> b = c.
Proof.
  intros H. apply (f_equal (N.lxor a)) in H.
  rewrite <- !N.lxor_assoc, !N.lxor_nilpotent, !N.lxor_0_l in H. exact H.
Qed.

Lemma lxor_cancel_r a b c : N.lxor b a = N.lxor c a -> b = c.
Proof. rewrite (N.lxor_comm b), (N.lxor_comm c). apply lxor_cancel_l. Qed.

Lemma mod_pow2_lxor a b k : (N.lxor a b) mod 2 ^ k = N.lxor (a mod 2 ^ k) (b mod 2 ^ k).
Proof. rewrite <- !N.land_ones. apply land_lxor_distr_l. Qed.

(* the low symbol of the feedback is the symbol shifted out (generator constant terms 1,2,4,8,16) *)
Lemma fb_low_b : forallb (fun c0 => (feedback (pm_gens cash_params) c0 0) mod 32 =? c0) (range 32) = true.
Proof. vm_compute. reflexivity. Qed.

Lemma fb_low c0 : c0 < 32 -> (feedback (pm_gens cash_params) c0 0) mod 32 = c0.
Proof.
  intros H. pose proof fb_low_b as T. rewrite forallb_forall in T.
  specialize (T c0 (proj2 (range_spec 32 c0) H)). lia.
Qed.

Lemma cash_step_eq c d :
  pm_step cash_params c d =
  N.lxor (N.lxor (N.shiftl (N.land c (N.ones 35)) 5) d) (feedback (pm_gens cash_params) (N.shiftr c 35 mod 256) 0).
Proof. unfold pm_step. rewrite (feedback_xor). reflexivity. Qed.

Lemma cash_step_inj c c' d : c < 2 ^ 40 -> c' < 2 ^ 40 ->
  pm_step cash_params c d = pm_step cash_params c' d -> c = c'.
Proof.
  intros Hc Hc' H. rewrite !cash_step_eq in H.
  rewrite !N.shiftr_div_pow2, !N.land_ones, !N.shiftl_mul_pow2 in H.
  change (2 ^ 35) with 34359738368 in *. change (2 ^ 40) with 1099511627776 in *. change (2 ^ 5) with 32 in *.
  assert (Hq : c / 34359738368 < 32) by lia. assert (Hq' : c' / 34359738368 < 32) by lia.
  rewrite (N.mod_small (c / 34359738368)), (N.mod_small (c' / 34359738368)) in H by lia.
  set (q := c / 34359738368) in *. set (q' := c' / 34359738368) in *.
  set (r := c mod 34359738368) in *. set (r' := c' mod 34359738368) in *.
  assert (E0 : q = q').
  { pose proof (f_equal (fun x => x mod 2 ^ 5) H) as H5. cbv beta in H5.
    rewrite !mod_pow2_lxor in H5. change (2 ^ 5) with 32 in H5.
    rewrite !N.mod_mul in H5 by lia. rewrite !fb_low in H5 by assumption.
    rewrite !N.lxor_0_l in H5. apply lxor_cancel_l in H5. exact H5. }
  rewrite <- E0 in H. apply lxor_cancel_r in H. apply lxor_cancel_r in H.
  assert (r = r') by lia.
  pose proof (N.div_mod c 34359738368). pose proof (N.div_mod c' 34359738368). lia.
Qed.

Lemma cash_width : pm_width cash_params = 40.
Proof. reflexivity. Qed.

Lemma cash_fold_inj xs : forall c c', Forall (fun x => x < 2 ^ 40) xs -> c < 2 ^ 40 -> c' < 2 ^ 40 ->
  pm_fold cash_params c xs = pm_fold cash_params c' xs -> c = c'.
Proof.
  induction xs as [|x xs IH]; intros c c' HF Hc Hc' H; [exact H|].
  inversion HF as [|? ? Hx HF']; subst. unfold pm_fold in *. cbn [fold_left] in H.
  apply (cash_step_inj c c' x Hc Hc'). apply IH; auto.
  - pose proof (step_bound cash_params cash_wf c x) as B. rewrite cash_width in B. auto.
  - pose proof (step_bound cash_params cash_wf c' x) as B. rewrite cash_width in B. auto.
Qed.

Lemma post_state_bound prefix : post_state prefix < 2 ^ 40.
Proof.
  unfold post_state, expand_prefix, pm_fold. rewrite fold_left_app. cbn [fold_left].
  pose proof (step_bound cash_params cash_wf) as B. rewrite cash_width in B. apply B. reflexivity.
Qed.

Lemma unpack8_inj a b : a < 2 ^ 40 -> b < 2 ^ 40 -> unpack 8 a = unpack 8 b -> a = b.
Proof.
  intros Ha Hb H. apply (f_equal packbe) in H. rewrite !packbe_unpack in H.
  change (5 * N.of_nat 8) with 40 in H. rewrite !N.mod_small in H by assumption. exact H.
Qed.

Lemma lt32_lt40 xs : Forall (fun x => x < 32) xs -> Forall (fun x => x < 2 ^ 40) xs.
Proof. apply Forall_impl. intros a H. change (2 ^ 40) with 1099511627776. lia. Qed.

Lemma one_lt : CashAddr.L 19 < 2 ^ 40.
Proof. vm_compute. reflexivity. Qed.
Lemma zeros_bound c : pm_fold cash_params c (repeat 0 8) < 2 ^ 40.
Proof. pose proof (fold_zeros_bound cash_params cash_wf c 8) as FB. rewrite cash_width in FB. apply FB. lia. Qed.
Lemma polymod_bound p data : polymod (expand_prefix p ++ data ++ repeat 0 8) < 2 ^ 40.
Proof.
  rewrite app_assoc. rewrite cash_polymod_app. apply lxor_lt_pow2; [apply zeros_bound|exact one_lt].
Qed.
Lemma zeros_lt40 : Forall (fun x => x < 2 ^ 40) (repeat 0 8).
Proof. repeat constructor. Qed.

Theorem checksum_separates p1 p2 data : post_state p1 <> post_state p2 -> Forall (fun x => x < 32) data ->
  verify_checksum p1 (data ++ create_checksum p2 data) = false.
Proof.
  intros Hne Hd. destruct (verify_checksum p1 (data ++ create_checksum p2 data)) eqn:E; [|reflexivity].
  exfalso. apply Hne.
  pose proof (cashaddr_checksum_unique_app p1 data (create_checksum p2 data)
                (cashaddr_create_length _ _) (cashaddr_create_lt32 _ _) E) as E'. clear E.
  unfold create_checksum in E'.
  assert (Hz : Forall (fun x => x < 2 ^ 40) (data ++ repeat 0 8)).
  { apply Forall_app. split; [apply lt32_lt40; exact Hd|exact zeros_lt40]. }
  apply unpack8_inj in E'; [|apply polymod_bound|apply polymod_bound].
  rewrite !cash_polymod_app in E'. apply lxor_cancel_r in E'.
  symmetry. apply (cash_fold_inj (data ++ repeat 0 8)); auto; apply post_state_bound.
Qed.

(* Correspondence driver shared by C01 and C02: evaluates the Address / Bits models on the inputs
   the harness ran through the Go implementation and compares the projected observables.
   RIPEMD-160 and secp256k1 parse/serialise are oracle tables written into each case; the model
   looks results up by the full argument, so a disagreement about what is fed to them shows up
   as a mismatch. *)
From BU Require Export Lib.Bytes.
From BU Require Import Lib.Sha256 Gen.Nets Base58.Base58 CashAddr.CashAddr Address.Bits Address.Address.

Fixpoint lookup {B} (t : list (list N * B)) (k : list N) : option B :=
  match t with
  | [] => None
  | (k', v) :: r => if list_eqb k k' then Some v else lookup r k
  end.

(* a parsed key is represented by its three serialisations (uncompressed, compressed, hybrid) *)
Definition PT : Type := (list N * list N * list N)%type.
Record oracle := { o_ripemd : list (list N * list N); o_ec : list (list N * option PT) }.

Definition rip (o : oracle) (x : list N) : list N :=
  match lookup (o_ripemd o) x with Some v => v | None => [] end.
Definition ecp (o : oracle) (x : list N) : option PT :=
  match lookup (o_ec o) x with Some v => v | None => None end.
Definition ecs (fmt : N) (pt : PT) : list N :=
  let '(u, c, h) := pt in if fmt =? 1 then c else if fmt =? 2 then h else u.

Definition the_net (i : N) : net := nth (N.to_nat i) all_nets mainnet.

(* what the harness observes of an Address value *)
Record obs := { o_cls : N;            (* 0 ok; 1 other error; 2 ErrUnknownAddressType; 7 ErrChecksumMismatch;
                                         8 ErrUnknownFormat; 9 ErrAddressCollision; 99 panic *)
                o_kind : N;           (* 0 PKH 1 SH 2 SH32 3 LegPKH 4 LegSH 5 PubKey *)
                o_payload : list N;   (* ScriptAddress() *)
                o_enc : list N;       (* EncodeAddress() *)
                o_str : list N;       (* String() *)
                o_fmt : N;            (* PubKeyFormat for kind 5, else 0 *)
                o_nets : list bool }. (* IsForNet on the six nets *)

Definition coarse (e : N) : N :=
  if e =? 2 then 2 else if e =? 7 then 7 else if e =? 8 then 8 else if e =? 9 then 9 else 1.

Definition kind_of (a : addr PT) : N :=
  match a with PKH _ _ => 0 | SH _ _ => 1 | SH32 _ _ => 2 | LegPKH _ _ => 3 | LegSH _ _ => 4 | PubKey _ _ _ => 5 end.
Definition fmt_of (a : addr PT) : N := match a with PubKey f _ _ => f | _ => 0 end.

Definition list_eqb_bool (a b : list bool) : bool :=
  (length a =? length b)%nat && forallb (fun p => Bool.eqb (fst p) (snd p)) (combine a b).

Definition check_addr (o : oracle) (r : res (addr PT)) (ob : obs) : bool :=
  match r with
  | Panic _ => o_cls ob =? 99
  | Err e => o_cls ob =? coarse e
  | Ok a =>
      (o_cls ob =? 0) && (kind_of a =? o_kind ob) &&
      list_eqb (script_address PT ecs a) (o_payload ob) &&
      match encode_address (rip o) PT ecs a with Ok s => list_eqb s (o_enc ob) | _ => false end &&
      match addr_string (rip o) PT ecs a with Ok s => list_eqb s (o_str ob) | _ => false end &&
      (fmt_of a =? o_fmt ob) &&
      list_eqb_bool (map (is_for_net PT a) all_nets) (o_nets ob)
  end.

Inductive case :=
| Sha (msg out : list N)                                                   (* crypto/sha256 vs Lib.Sha256 *)
| Conv (data : list N) (fromb tob : N) (pad ok : bool) (out : list N)      (* convertBits *)
| Pack (t : N) (h : list N) (ok : bool) (out : list N)                     (* packAddressData *)
| ChkEnc (input prefix : list N) (t : N) (out : list N)                    (* checkEncodeCashAddress *)
| ChkDec (input : list N) (cls : N) (prefix hash : list N) (t : N)         (* checkDecodeCashAddress: cls 0 ok, 8 checksum, 22 unknown type, 1 other, 99 panic *)
| Dec (o : oracle) (net : N) (s : list N) (ob : obs)                       (* DecodeAddress *)
| New (o : oracle) (net : N) (ctor : N) (arg : list N) (ob : obs).         (* constructors *)

Definition coarse_cd (e : N) : N := if e =? 8 then 8 else if e =? 22 then 22 else 1.

Definition construct (o : oracle) (n : net) (ctor : N) (arg : list N) : res (addr PT) :=
  match ctor with
  | 0 => new_pkh PT n false arg
  | 1 => new_pkh PT n true arg
  | 2 => new_sh PT n false arg
  | 3 => new_sh PT n true arg
  | 4 => new_sh32 PT n false arg
  | 5 => new_sh32 PT n true arg
  | 6 => new_leg_pkh PT (pkh_id n) arg
  | 7 => new_leg_sh PT (sh_id n) arg
  | 8 => new_sh_script (rip o) PT n arg
  | 9 => new_sh32_script PT n arg
  | 10 => new_leg_sh_script (rip o) PT n arg
  | _ => new_pubkey PT (ecp o) n arg
  end.

Definition check (c : case) : bool :=
  match c with
  | Sha msg out => list_eqb (sha256 msg) out
  | Conv data f t pad ok out =>
      match convert_bits data f t pad with
      | Ok r => ok && list_eqb r out
      | Err _ => negb ok
      | Panic _ => false
      end
  | Pack t h ok out =>
      match pack_address_data t h with
      | Ok r => ok && list_eqb r out
      | Err _ => negb ok
      | Panic _ => false
      end
  | ChkEnc input prefix t out =>
      match check_encode_cash input prefix t with Ok s => list_eqb s out | _ => false end
  | ChkDec input cls prefix hash t =>
      let '(p, r) := check_decode_cash input in
      list_eqb p prefix &&
      match r with
      | Ok (h, ty) => (cls =? 0) && list_eqb h hash && (ty =? t)
      | Err e => cls =? coarse_cd e
      | Panic _ => cls =? 99
      end
  | Dec o n s ob =>
      check_addr o (decode_address PT (ecp o) (the_net n) registered_pkh_ids registered_sh_ids s) ob
  | New o n ctor arg ob => check_addr o (construct o (the_net n) ctor arg) ob
  end.

Fixpoint mism (i : nat) (cs : list case) : list nat :=
  match cs with
  | [] => []
  | c :: t => if check c then mism (S i) t else i :: mism (S i) t
  end.
Definition mismatches (cs : list case) : list nat := mism 0 cs.

(* Facts about the specification alone (PmtSpec.v): every matched leaf of a well-shaped partial tree
   has a merkle path to the tree's root; the serialisation (flag bits, hashes) of well-shaped trees
   is prefix-free, so the tree a message is parsed into is unique. *)
From BU Require Import Lib.Bytes Merkle.Merkle Merkle.PmtSpec Merkle.MerkleArith.
From Coq Require Import ZifyBool ZifyN ZifyNat.

Local Open Scope N_scope.

Section WithNodeHash.
Variable node_hash : hash -> hash -> hash.
Notation pmt_root := (pmt_root node_hash).
Notation path_root := (path_root node_hash).
Notation path_step := (path_step node_hash).

(* ---------- merkle paths ---------- *)
Lemma path_root_app pos cur a s :
  path_root pos cur (a ++ [s]) = path_step (pos / 2 ^ N.of_nat (length a)) (path_root pos cur a) s.
Proof.
  revert pos cur. induction a as [|s0 a IH]; intros pos cur.
  - cbn [app length path_root N.of_nat]. rewrite N.pow_0_r, N.div_1_r. reflexivity.
  - cbn [app length path_root]. rewrite IH. rewrite pow2_S, N.div_div by (try discriminate; apply N.pow_nonzero; discriminate).
    reflexivity.
Qed.

Lemma path_ok_app n lvl pos a s :
  path_ok n lvl pos (a ++ [s]) <->
  path_ok n lvl pos a /\ path_step_ok n (lvl + length a) (pos / 2 ^ N.of_nat (length a)) s.
Proof.
  revert lvl pos. induction a as [|s0 a IH]; intros lvl pos.
  - cbn [app length path_ok N.of_nat]. rewrite N.pow_0_r, N.div_1_r, Nat.add_0_r. tauto.
  - cbn [app length path_ok]. rewrite IH.
    rewrite pow2_S, N.div_div by (try discriminate; apply N.pow_nonzero; discriminate).
    replace (S lvl + length a)%nat with (lvl + S (length a))%nat by lia. tauto.
Qed.

Lemma even_double p : N.even (2 * p) = true.
Proof. rewrite N.even_mul. reflexivity. Qed.

Lemma even_double_1 p : N.even (2 * p + 1) = false.
Proof. rewrite N.add_comm, N.even_add_mul_2. reflexivity. Qed.

Lemma matches_have_paths n : forall h pos t p x,
  pos < width n h -> shape n h pos t -> In (p, x) (pmt_matches pos t) ->
  p / 2 ^ N.of_nat h = pos /\
  exists path, length path = h /\ path_ok n 0 p path /\ path_root p x path = pmt_root t.
Proof.
  induction h as [|h' IH]; intros pos t p x Hpos Hshape Hin.
  - destruct t as [m y| | |]; try contradiction.
    destruct m; cbn [pmt_matches] in Hin; [|contradiction].
    destruct Hin as [Heq|[]]. inversion Heq; subst.
    split. { cbn. apply N.div_1_r. }
    exists []. cbn. auto.
  - pose proof (width_child_l _ _ _ Hpos) as Hl.
    destruct t as [| |l|l r]; try contradiction.
    + destruct Hshape as [Hw Hsl]. cbn [pmt_matches] in Hin.
      destruct (IH _ _ _ _ Hl Hsl Hin) as (Hdiv & path & Hlen & Hok & Hroot).
      split.
      { rewrite pow2_S, N.mul_comm, <- N.div_div by (try discriminate; apply N.pow_nonzero; discriminate).
        rewrite Hdiv. rewrite N.mul_comm, N.div_mul by discriminate. reflexivity. }
      exists (path ++ [None]). rewrite app_length, Hlen. cbn [length]. split; [lia|]. split.
      * apply path_ok_app. split; [exact Hok|]. rewrite Hlen, Hdiv. cbn [path_step_ok Nat.add].
        split; [apply even_double|exact Hw].
      * rewrite path_root_app, Hlen, Hdiv, Hroot. reflexivity.
    + destruct Hshape as (Hw & Hsl & Hsr). cbn [pmt_matches] in Hin. apply in_app_or in Hin as [Hin|Hin].
      * destruct (IH _ _ _ _ Hl Hsl Hin) as (Hdiv & path & Hlen & Hok & Hroot).
        split.
        { rewrite pow2_S, N.mul_comm, <- N.div_div by (try discriminate; apply N.pow_nonzero; discriminate).
          rewrite Hdiv. rewrite N.mul_comm, N.div_mul by discriminate. reflexivity. }
        exists (path ++ [Some (pmt_root r)]). rewrite app_length, Hlen. cbn [length]. split; [lia|]. split.
        -- apply path_ok_app. split; [exact Hok|]. rewrite Hlen, Hdiv. cbn [path_step_ok Nat.add].
           right. exact Hw.
        -- rewrite path_root_app, Hlen, Hdiv, Hroot. cbn [path_step]. rewrite even_double. reflexivity.
      * destruct (IH _ _ _ _ Hw Hsr Hin) as (Hdiv & path & Hlen & Hok & Hroot).
        split.
        { rewrite pow2_S, N.mul_comm, <- N.div_div by (try discriminate; apply N.pow_nonzero; discriminate).
          rewrite Hdiv. rewrite N.add_comm, N.mul_comm, N.div_add by discriminate. reflexivity. }
        exists (path ++ [Some (pmt_root l)]). rewrite app_length, Hlen. cbn [length]. split; [lia|]. split.
        -- apply path_ok_app. split; [exact Hok|]. rewrite Hlen, Hdiv. cbn [path_step_ok Nat.add].
           left. apply even_double_1.
        -- rewrite path_root_app, Hlen, Hdiv, Hroot. cbn [path_step]. rewrite even_double_1. reflexivity.
Qed.

(* positions of matches are below n: carried through the recursion (leaves are at height 0 where pos < width n 0 = n) *)
Lemma matches_lt_n n : forall h pos t p x,
  pos < width n h -> shape n h pos t -> In (p, x) (pmt_matches pos t) -> p < n.
Proof.
  induction h as [|h' IH]; intros pos t p x Hpos Hshape Hin.
  - destruct t as [m y| | |]; try contradiction.
    destruct m; cbn [pmt_matches] in Hin; [|contradiction].
    destruct Hin as [Heq|[]]. inversion Heq; subst. rewrite width_0 in Hpos. exact Hpos.
  - pose proof (width_child_l _ _ _ Hpos) as Hl.
    destruct t as [| |l|l r]; try contradiction.
    + destruct Hshape as [Hw Hsl]. eapply IH; eauto.
    + destruct Hshape as (Hw & Hsl & Hsr). cbn [pmt_matches] in Hin. apply in_app_or in Hin as [Hin|Hin].
      * eapply IH; [exact Hl|exact Hsl|exact Hin].
      * eapply IH; [exact Hw|exact Hsr|exact Hin].
Qed.

Lemma matches_merkle_paths n H t :
  0 < n -> shape n H 0 t ->
  Forall (fun ph => has_merkle_path node_hash n H (pmt_root t) (fst ph) (snd ph)) (pmt_matches 0 t).
Proof.
  intros Hn Hshape. apply Forall_forall. intros [p x] Hin. cbn [fst snd].
  assert (0 < width n H) as Hpos by (apply width_pos; exact Hn).
  split.
  - eapply matches_lt_n; eauto.
  - destruct (matches_have_paths n H 0 t p x Hpos Hshape Hin) as (_ & path & Hlen & Hok & Hroot).
    exists path. auto.
Qed.

(* matches are in strictly increasing position order (block order) *)
Lemma matches_sorted n : forall h pos t,
  pos < width n h -> shape n h pos t ->
  forall p x, In (p, x) (pmt_matches pos t) -> pos * 2 ^ N.of_nat h <= p < (pos + 1) * 2 ^ N.of_nat h.
Proof.
  intros h pos t Hpos Hshape p x Hin.
  destruct (matches_have_paths n h pos t p x Hpos Hshape Hin) as [Hdiv _].
  pose proof (pow2_pos (N.of_nat h)) as HP. subst pos.
  pose proof (N.div_mod p (2 ^ N.of_nat h) ltac:(lia)).
  pose proof (N.mod_lt p (2 ^ N.of_nat h) ltac:(lia)). nia.
Qed.

End WithNodeHash.

(* a partial tree never carries more hashes than there are transactions below it *)
Lemma shape_hashes_le n : forall h pos t,
  pos < width n h -> shape n h pos t ->
  N.of_nat (length (pmt_hashes t)) + pos * 2 ^ N.of_nat h <= N.min ((pos + 1) * 2 ^ N.of_nat h) n.
Proof.
  induction h as [|h' IH]; intros pos t Hpos Hshape.
  - destruct t; try contradiction. rewrite width_0 in Hpos. cbn [pmt_hashes length].
    change (N.of_nat 0) with 0. rewrite N.pow_0_r. lia.
  - pose proof (width_child_l _ _ _ Hpos) as Hl.
    pose proof Hpos as Hpos'. apply width_lt_iff in Hpos'.
    rewrite pow2_S in *. pose proof (pow2_pos (N.of_nat h')) as HP.
    set (P := 2 ^ N.of_nat h') in *.
    destruct t as [| |l|l r]; try contradiction.
    + cbn [pmt_hashes length]. lia.
    + destruct Hshape as [Hw Hsl]. cbn [pmt_hashes]. specialize (IH _ _ Hl Hsl). fold P in IH. lia.
    + destruct Hshape as (Hw & Hsl & Hsr). cbn [pmt_hashes]. rewrite app_length.
      pose proof (IH _ _ Hl Hsl) as I1. pose proof (IH _ _ Hw Hsr) as I2. fold P in I1, I2. lia.
Qed.

(* ---------- the serialisation is prefix-free ---------- *)
Fixpoint erase (t : pmt) : pmt :=
  match t with
  | Leaf m _ => Leaf m zero_hash
  | Pruned _ => Pruned zero_hash
  | Node1 l => Node1 (erase l)
  | Node2 l r => Node2 (erase l) (erase r)
  end.

Lemma b2n_inj x y : b2n x = b2n y -> x = y.
Proof. destruct x, y; cbn; congruence. Qed.

Lemma flags_prefix_free n : forall h pos t t' (r1 r2 : list N),
  shape n h pos t -> shape n h pos t' ->
  map b2n (pmt_flags t) ++ r1 = map b2n (pmt_flags t') ++ r2 -> erase t = erase t' /\ r1 = r2.
Proof.
  induction h as [|h' IH]; intros pos t t' r1 r2 Hs Hs' Heq.
  - destruct t; try contradiction. destruct t'; try contradiction.
    cbn in Heq. inversion Heq as [[Hm Hr]]. apply b2n_inj in Hm. subst. auto.
  - destruct t as [| |l|l r]; try contradiction; destruct t' as [| |l'|l' r']; try contradiction;
      cbn [pmt_flags map app b2n] in Heq; try discriminate; cbn [shape] in Hs, Hs'.
    + inversion Heq; auto.
    + inversion Heq as [Heq']. destruct Hs as [_ Hs]. destruct Hs' as [_ Hs'].
      destruct (IH _ _ _ _ _ Hs Hs' Heq') as [He Hr]. cbn [erase]. rewrite He. auto.
    + tauto.
    + tauto.
    + inversion Heq as [Heq']. destruct Hs as (_ & Hsl & Hsr). destruct Hs' as (_ & Hsl' & Hsr').
      rewrite !map_app, <- !app_assoc in Heq'.
      destruct (IH _ _ _ _ _ Hsl Hsl' Heq') as [He Hr].
      destruct (IH _ _ _ _ _ Hsr Hsr' Hr) as [He2 Hr2].
      cbn [erase]. rewrite He, He2. auto.
Qed.

Lemma erase_hashes_length : forall t t', erase t = erase t' -> length (pmt_hashes t) = length (pmt_hashes t').
Proof.
  induction t as [m x|x|l IHl|l IHl r IHr]; intros [m' x'|x'|l'|l' r'] H; cbn in H; try discriminate; cbn [pmt_hashes length].
  - reflexivity.
  - reflexivity.
  - inversion H. auto.
  - inversion H. rewrite !app_length. rewrite (IHl l'), (IHr r'); auto.
Qed.

Lemma erase_flags : forall t t', erase t = erase t' -> pmt_flags t = pmt_flags t'.
Proof.
  induction t as [m x|x|l IHl|l IHl r IHr]; intros [m' x'|x'|l'|l' r'] H; cbn in H; try discriminate; cbn [pmt_flags].
  - inversion H; reflexivity.
  - reflexivity.
  - inversion H. rewrite (IHl l'); auto.
  - inversion H. rewrite (IHl l'), (IHr r'); auto.
Qed.

Lemma hashes_determine : forall t t' q1 q2,
  erase t = erase t' -> pmt_hashes t ++ q1 = pmt_hashes t' ++ q2 -> t = t' /\ q1 = q2.
Proof.
  induction t as [m x|x|l IHl|l IHl r IHr]; intros [m' x'|x'|l'|l' r'] q1 q2 He Hh; cbn in He; try discriminate;
    cbn [pmt_hashes app] in Hh.
  - inversion He; inversion Hh; subst; auto.
  - inversion Hh; subst; auto.
  - inversion He as [He']. destruct (IHl _ _ _ He' Hh) as [-> ->]. auto.
  - inversion He as [[He1 He2]]. rewrite <- !app_assoc in Hh.
    destruct (IHl _ _ _ He1 Hh) as [-> Hq]. destruct (IHr _ _ _ He2 Hq) as [-> ->]. auto.
Qed.

(* the tree a message is parsed into is unique *)
Lemma parse_unique n h pos t t' r1 r2 q1 q2 :
  shape n h pos t -> shape n h pos t' ->
  map b2n (pmt_flags t) ++ r1 = map b2n (pmt_flags t') ++ r2 -> pmt_hashes t ++ q1 = pmt_hashes t' ++ q2 ->
  t = t' /\ r1 = r2 /\ q1 = q2.
Proof.
  intros Hs Hs' Hf Hh. destruct (flags_prefix_free n h pos t t' r1 r2 Hs Hs' Hf) as [He Hr].
  destruct (hashes_determine t t' q1 q2 He Hh) as [Ht Hq]. auto.
Qed.

Lemma flags_ge_hashes : forall t, (length (pmt_hashes t) <= length (pmt_flags t))%nat.
Proof.
  induction t as [m x|x|l IHl|l IHl r IHr]; cbn [pmt_hashes pmt_flags length]; try lia.
  rewrite !app_length. lia.
Qed.


Lemma map_b2n_inj a b : map b2n a = map b2n b -> a = b.
Proof.
  revert b; induction a as [|x a IH]; intros [|y b] H; cbn in H; try discriminate; auto.
  inversion H as [[Hx Ht]]. f_equal; [|apply IH; exact Ht].
  destruct x, y; cbn in Hx; congruence.
Qed.

Lemma map_b2n_app_inv (a b : list bool) (r1 r2 : list N) :
  length a = length b -> map b2n a ++ r1 = map b2n b ++ r2 -> a = b /\ r1 = r2.
Proof.
  revert b; induction a as [|x a IH]; intros [|y b] Hl H; cbn in *; try discriminate; auto.
  inversion H as [[Hx Ht]]. destruct (IH b ltac:(lia) Ht) as [-> ->].
  split; [|reflexivity]. f_equal. destruct x, y; cbn in Hx; congruence.
Qed.

(* ---------- matches come in strictly increasing position order (block order, no position twice) ---------- *)
From Coq Require Import Sorting.Sorted.

Lemma ssorted_app {A} (R : A -> A -> Prop) (l1 l2 : list A) :
  StronglySorted R l1 -> StronglySorted R l2 ->
  (forall a b, In a l1 -> In b l2 -> R a b) -> StronglySorted R (l1 ++ l2).
Proof.
  induction l1 as [|x l1 IH]; intros H1 H2 H12; [exact H2|].
  cbn [app]. inversion H1 as [|? ? Hs Hf]; subst. constructor.
  - apply IH; auto. intros a b Ha Hb. apply H12; [right; exact Ha|exact Hb].
  - apply Forall_forall. intros y Hy. apply in_app_or in Hy as [Hy|Hy].
    + rewrite Forall_forall in Hf. apply Hf, Hy.
    + apply H12; [left; reflexivity|exact Hy].
Qed.

Lemma matches_increasing (node_hash : hash -> hash -> hash) n : forall h pos t,
  pos < width n h -> shape n h pos t -> StronglySorted pos_lt (pmt_matches pos t).
Proof.
  induction h as [|h' IH]; intros pos t Hpos Hshape.
  - destruct t as [m y| | |]; try contradiction. destruct m; cbn [pmt_matches]; repeat constructor.
  - pose proof (width_child_l _ _ _ Hpos) as Hl.
    destruct t as [| |l|l r]; try contradiction; cbn [pmt_matches].
    + constructor.
    + destruct Hshape as [Hw Hsl]. apply IH; assumption.
    + destruct Hshape as (Hw & Hsl & Hsr). apply ssorted_app; [apply IH; assumption|apply IH; assumption|].
      intros [p x] [q y] Ha Hb. unfold pos_lt. cbn [fst].
      pose proof (matches_sorted node_hash n h' (2 * pos) l Hl Hsl p x Ha) as [_ H1].
      pose proof (matches_sorted node_hash n h' (2 * pos + 1) r Hw Hsr q y Hb) as [H2 _]. lia.
Qed.

(* Concrete instances showing that the hypotheses of the C11/C12 theorems are satisfiable:
   a 7-transaction block with the subset {2, 6} chosen, under a toy injective node hash. *)
From BU Require Import Lib.Bytes Merkle.Merkle Merkle.PmtSpec.

Local Open Scope N_scope.

(* injective: the length prefix separates the two arguments *)
Definition toy_hash (a b : hash) : hash := N.of_nat (length a) :: a ++ b.

Lemma toy_hash_inj a b c d : toy_hash a b = toy_hash c d -> a = c /\ b = d.
Proof.
  unfold toy_hash. intros H. inversion H as [[Hl Happ]]. apply Nat2N.inj in Hl. clear H.
  revert c Hl Happ. induction a as [|x a IH]; intros [|y c] Hl Happ; cbn in *; try discriminate; auto.
  inversion Happ; subst. destruct (IH c) as [-> ->]; auto.
Qed.

Definition leaves7 : list hash := [[1]; [2]; [3]; [4]; [5]; [6]; [7]].
Definition sel7 : list bool := [false; false; true; false; false; false; true].
Definition txnset7 : list hash := [[7]; [3]].

Definition msg7 : msg :=
  match mb_new_with_txnset toy_hash [] leaves7 txnset7 with
  | Ok (m, _) => m
  | _ => mkMsg [] 0 [] []
  end.

Example msg7_value :
  mb_new_with_txnset toy_hash [] leaves7 txnset7 =
  Ok (mkMsg [] 7 [[1; 1; 2]; [3]; [4]; [1; 5; 6]; [7]] [91; 3], [2; 6]).
Proof. vm_compute. reflexivity. Qed.

Example msg7_extracts :
  extract toy_hash 2098360 msg7 = Ok (merkle_root toy_hash leaves7, [(2, [3]); (6, [7])]).
Proof. vm_compute. reflexivity. Qed.

Example leaves7_nodup : NoDup leaves7.
Proof. repeat constructor; cbn; intuition discriminate. Qed.

(* a message with a duplicated subtree (CVE-2012-2459 shape) is rejected with the latch set *)
Example cve_2012_2459_rejected :
  extract toy_hash 2098360 (mkMsg [] 4 [[1]; [2]; [1]; [2]] [127]) = Err 5.
Proof. vm_compute. reflexivity. Qed.

(* why [extract_build] needs distinct nodes: a block whose two transactions have the same id builds a
   proof whose root has equal children, which extraction rejects (the CVE-2012-2459 rule cannot tell
   this from the attack) *)
Example duplicate_leaves_rejected :
  exists leaves txnset m idx,
    leaves <> [] /\
    mb_new_with_txnset toy_hash [] leaves txnset = Ok (m, idx) /\
    extract toy_hash 2098360 m = Err 5.
Proof.
  exists [[1]; [1]], [[1]]. eexists. eexists. split; [discriminate|]. split; vm_compute; reflexivity.
Qed.

Example msg7_is_height : is_height 7 3.
Proof.
  split; [vm_compute; discriminate|]. intros h' Hh'.
  destruct h' as [|[|[|h']]]; try lia; vm_compute; reflexivity.
Qed.

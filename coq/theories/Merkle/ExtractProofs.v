(* Proofs about the extraction model (merkleblock/decode.go): soundness against arbitrary
   messages (C12), completeness on well-formed trees (used by C11), rejection rules, cost. *)
From BU Require Import Lib.Bytes Lib.PolyMod Gen.Xmerkleblock Merkle.Merkle Merkle.PmtSpec Merkle.MerkleArith.
From Coq Require Import ZifyBool ZifyN ZifyNat.

Local Open Scope N_scope.

(* ---------- list helpers ---------- *)
Lemma nth_error_skipn_cons {A} (l : list A) k x :
  nth_error l k = Some x -> skipn k l = x :: skipn (S k) l.
Proof.
  revert l; induction k as [|k IH]; intros [|y l] H; simpl in *; try discriminate.
  - inversion H; reflexivity.
  - apply IH in H. exact H.
Qed.

Lemma skipn_cons_nth_error {A} (l : list A) k x rest :
  skipn k l = x :: rest -> nth_error l k = Some x /\ skipn (S k) l = rest.
Proof.
  revert l; induction k as [|k IH]; intros [|y l] H; simpl in *; try discriminate.
  - inversion H; auto.
  - apply IH in H. exact H.
Qed.

Lemma skipn_app_len {A} (l a b : list A) k :
  skipn k l = a ++ b -> skipn (k + length a) l = b.
Proof.
  revert l; induction k as [|k IH]; intros l H.
  - simpl in *. subst l. rewrite skipn_app, skipn_all, Nat.sub_diag. reflexivity.
  - destruct l as [|y l].
    + simpl in H. symmetry in H. apply app_eq_nil in H as [-> ->]. apply skipn_nil.
    + simpl in *. apply IH. exact H.
Qed.

Lemma skipn_nil_nth_error {A} (l : list A) k : skipn k l = [] -> nth_error l k = None.
Proof.
  revert l; induction k as [|k IH]; intros [|y l] H; simpl in *; try discriminate; auto.
Qed.

Definition bit01 (b : N) : Prop := b = 0 \/ b = 1.

Lemma b2n_eqb1 b : bit01 b -> b2n (b =? 1) = b.
Proof. intros [->| ->]; reflexivity. Qed.

(* ---------- NewMerkleBlockFromMsg ---------- *)
Definition byte_bits_plain (b : N) : list N :=
  map (fun j => if N.land b (N.shiftl 1 j mod 256) =? 0 then 0 else 1) (nseq 0 8).

Lemma byte_bits_eq b : byte_bits b = byte_bits_plain b.
Proof. reflexivity. Qed.

Lemma bits_of_flags_eq flags : bits_of_flags flags = flat_map byte_bits_plain flags.
Proof. reflexivity. Qed.

Lemma bits_of_flags_01 flags : Forall bit01 (bits_of_flags flags).
Proof.
  rewrite bits_of_flags_eq. induction flags as [|b t IH]; cbn [flat_map]; [constructor|].
  apply Forall_app; split; [|exact IH].
  unfold byte_bits_plain. apply Forall_forall. intros x Hx. apply in_map_iff in Hx as [j [<- _]].
  destruct (_ =? 0); [left|right]; reflexivity.
Qed.

Lemma bits_of_flags_length flags : length (bits_of_flags flags) = (8 * length flags)%nat.
Proof.
  rewrite bits_of_flags_eq. induction flags as [|b t IH]; cbn [flat_map]; [reflexivity|].
  rewrite app_length, IH. unfold byte_bits_plain. rewrite map_length. cbn [nseq length]. lia.
Qed.

Section WithNodeHash.
Variable node_hash : hash -> hash -> hash.
Variable n : N.                       (* numTx *)
Variable bits : list N.
Variable hashes : list hash.

Notation TE := (traverse_extract node_hash n bits hashes).
Notation bu := x_bits_used.
Notation hu := x_hashes_used.

(* ---------- equations with the literals of the source evaluated ---------- *)
Lemma take_hash_eq at_leaf parent pos s :
  take_hash hashes at_leaf parent pos s =
  match nth_error hashes (hu s) with
  | None => (zero_hash, x_set_bad s)
  | Some h => (h, if at_leaf && (parent =? 1) then x_add_match (x_inc_hashes s) pos h else x_inc_hashes s)
  end.
Proof. reflexivity. Qed.

Lemma te_O pos s :
  TE O pos s =
  match nth_error bits (bu s) with
  | None => (zero_hash, x_set_bad (x_tick s))
  | Some parent => take_hash hashes true parent pos (x_inc_bits (x_tick s))
  end.
Proof. reflexivity. Qed.

Lemma te_S h' pos s :
  TE (S h') pos s =
  match nth_error bits (bu s) with
  | None => (zero_hash, x_set_bad (x_tick s))
  | Some parent =>
      if parent =? 0 then take_hash hashes false parent pos (x_inc_bits (x_tick s))
      else
        let '(hl, s1) := TE h' (wmul pos 2) (x_inc_bits (x_tick s)) in
        if wadd (wmul pos 2) 1 <? tw n (N.of_nat h')
        then let '(hr, s2) := TE h' (wadd (wmul pos 2) 1) s1 in
             (node_hash hl hr, if hash_eqb hr hl then x_set_bad s2 else s2)
        else (node_hash hl hl, s1)
  end.
Proof. reflexivity. Qed.

Ltac xsimpl := cbn [x_bad x_bits_used x_hashes_used x_matched x_calls
                    x_tick x_set_bad x_inc_bits x_inc_hashes x_add_match fst snd] in *.

(* ---------- the latch is a latch; cursors only move forward; cost ---------- *)
Lemma take_hash_frame at_leaf parent pos s r s' :
  take_hash hashes at_leaf parent pos s = (r, s') ->
  (x_bad s = true -> x_bad s' = true) /\ bu s' = bu s /\ x_calls s' = x_calls s /\ (hu s <= hu s')%nat.
Proof.
  rewrite take_hash_eq. destruct (nth_error hashes (hu s)); intros H; inversion H; subst; clear H.
  - destruct (at_leaf && _); xsimpl; auto.
  - xsimpl. auto.
Qed.

Lemma te_frame : forall h pos s r s', TE h pos s = (r, s') ->
  (x_bad s = true -> x_bad s' = true) /\
  (bu s <= bu s')%nat /\ ((bu s <= length bits)%nat -> (bu s' <= length bits)%nat) /\
  (x_calls s' + 2 * bu s <= x_calls s + 2 * bu s' + 1)%nat /\
  (x_calls s < x_calls s')%nat.
Proof.
  induction h as [|h' IH]; intros pos s r s'.
  - rewrite te_O. destruct (nth_error bits (bu s)) eqn:E.
    + intros H. apply take_hash_frame in H as (Hb & Hu & Hc & _). xsimpl.
      assert (bu s < length bits)%nat by (apply nth_error_Some; congruence).
      repeat split; auto; lia.
    + intros H; inversion H; subst; xsimpl. repeat split; auto; lia.
  - rewrite te_S. destruct (nth_error bits (bu s)) eqn:E.
    + assert (bu s < length bits)%nat as Hlt by (apply nth_error_Some; congruence).
      destruct (n0 =? 0).
      * intros H. apply take_hash_frame in H as (Hb & Hu & Hc & _). xsimpl. repeat split; auto; lia.
      * destruct (TE h' (wmul pos 2) (x_inc_bits (x_tick s))) as [hl s1] eqn:E1.
        apply IH in E1 as (Hb1 & Hu1 & Hl1 & Hc1 & Hd1). xsimpl.
        destruct (_ <? _).
        -- destruct (TE h' (wadd (wmul pos 2) 1) s1) as [hr s2] eqn:E2.
           apply IH in E2 as (Hb2 & Hu2 & Hl2 & Hc2 & Hd2).
           intros H; inversion H; subst; clear H.
           destruct (hash_eqb hr hl); xsimpl; repeat split; try lia; auto.
        -- intros H; inversion H; subst; clear H. repeat split; try lia; auto.
    + intros H; inversion H; subst; xsimpl. repeat split; auto; lia.
Qed.

(* ---------- soundness of the traversal ---------- *)
Hypothesis n_small : n < 2 ^ 31.
Hypothesis bits_01 : Forall bit01 bits.

Lemma nth_bits_01 k b : nth_error bits k = Some b -> bit01 b.
Proof. intros H. apply nth_error_In in H. rewrite Forall_forall in bits_01. auto. Qed.

Lemma pos_small h pos : pos < width n h -> pos < 2 ^ 31.
Proof. intros H. pose proof (width_le n h). lia. Qed.

Definition parsed (h : nat) (pos : N) (s s' : xstate) (r : hash) (t : pmt) : Prop :=
  shape n h pos t /\
  skipn (bu s) bits = map b2n (pmt_flags t) ++ skipn (bu s') bits /\
  bu s' = (bu s + length (pmt_flags t))%nat /\
  skipn (hu s) hashes = pmt_hashes t ++ skipn (hu s') hashes /\
  hu s' = (hu s + length (pmt_hashes t))%nat /\
  r = pmt_root node_hash t /\
  x_matched s' = x_matched s ++ pmt_matches pos t /\
  no_equal_children node_hash t.

Lemma take_hash_sound (at_leaf : bool) parent pos s0 r s' h :
  nth_error bits (bu s0) = Some parent ->
  (at_leaf = true /\ h = O \/ at_leaf = false /\ parent = 0 /\ (0 < h)%nat) ->
  take_hash hashes at_leaf parent pos (x_inc_bits (x_tick s0)) = (r, s') ->
  x_bad s' = false ->
  x_bad s0 = false /\ exists t, parsed h pos s0 s' r t.
Proof.
  intros Hbit Hcase. rewrite take_hash_eq. xsimpl.
  destruct (nth_error hashes (hu s0)) as [x|] eqn:Eh; intros H Hbad; inversion H; subst; clear H.
  2:{ xsimpl. discriminate. }
  pose proof (nth_error_skipn_cons _ _ _ Hbit) as Sb.
  pose proof (nth_error_skipn_cons _ _ _ Eh) as Sh.
  pose proof (nth_bits_01 _ _ Hbit) as H01.
  destruct Hcase as [[-> ->]|(-> & -> & Hh)].
  - split.
    { destruct (true && (parent =? 1)); xsimpl; exact Hbad. }
    exists (Leaf (parent =? 1) r). unfold parsed. cbn [pmt_flags pmt_hashes pmt_root map length app shape no_equal_children].
    rewrite b2n_eqb1 by exact H01.
    cbn [andb]. destruct (parent =? 1); xsimpl; cbn [pmt_matches];
      repeat split; auto; try lia; rewrite ?app_nil_r; auto.
  - split.
    { xsimpl. exact Hbad. }
    exists (Pruned r). unfold parsed. destruct h as [|h']; [lia|].
    cbn [pmt_flags pmt_hashes pmt_root map length app shape no_equal_children pmt_matches b2n andb].
    xsimpl. repeat split; auto; try lia. rewrite app_nil_r. reflexivity.
Qed.

Lemma te_sound : forall h pos s r s',
  (h <= 31)%nat -> pos < width n h ->
  TE h pos s = (r, s') -> x_bad s' = false ->
  x_bad s = false /\ exists t, parsed h pos s s' r t.
Proof.
  induction h as [|h' IH]; intros pos s r s' Hh Hpos.
  - rewrite te_O. destruct (nth_error bits (bu s)) as [parent|] eqn:Eb.
    + intros H Hbad. eapply take_hash_sound; eauto.
    + intros H Hbad. inversion H; subst. xsimpl. discriminate.
  - rewrite te_S. destruct (nth_error bits (bu s)) as [parent|] eqn:Eb.
    2:{ intros H Hbad. inversion H; subst. xsimpl. discriminate. }
    destruct (parent =? 0) eqn:Ep.
    + apply N.eqb_eq in Ep. intros H Hbad. eapply take_hash_sound; eauto. right. repeat split; auto. lia.
    + assert (parent = 1) as -> by (destruct (nth_bits_01 _ _ Eb) as [->| ->]; [discriminate|reflexivity]).
      pose proof (pos_small _ _ Hpos) as Hps.
      rewrite wmul2add1, wmul2 by exact Hps. rewrite tw_width by (auto; lia).
      pose proof (width_child_l _ _ _ Hpos) as Hl.
      destruct (TE h' (2 * pos) (x_inc_bits (x_tick s))) as [hl s1] eqn:E1.
      pose proof (nth_error_skipn_cons _ _ _ Eb) as Sb.
      destruct (2 * pos + 1 <? width n h') eqn:Ew.
      * apply N.ltb_lt in Ew.
        destruct (TE h' (2 * pos + 1) s1) as [hr s2] eqn:E2.
        intros H Hbad. inversion H; subst; clear H.
        destruct (hash_eqb hr hl) eqn:Eeq; [xsimpl; discriminate|].
        destruct (IH _ _ _ _ ltac:(lia) Ew E2 Hbad) as (Hb1 & tr & Sr & Fr & Ur & Hr & Vr & Rr & Mr & Nr).
        destruct (IH _ _ _ _ ltac:(lia) Hl E1 Hb1) as (Hb0 & tl & Sl & Fl & Ul & Hl' & Vl & Rl & Ml & Nl).
        xsimpl. split; [exact Hb0|].
        exists (Node2 tl tr). unfold parsed.
        cbn [pmt_flags pmt_hashes pmt_root map length app shape no_equal_children pmt_matches b2n].
        rewrite map_app, !app_length.
        repeat split; auto; try lia.
        -- rewrite Sb, Fl, Fr, <- app_assoc. reflexivity.
        -- rewrite Hl', Hr, <- app_assoc. reflexivity.
        -- subst; reflexivity.
        -- rewrite Mr, Ml, <- app_assoc. reflexivity.
        -- subst. intros Heq. unfold hash_eqb in Eeq.
           rewrite Heq, list_eqb_refl in Eeq. discriminate.
      * apply N.ltb_ge in Ew.
        intros H Hbad. inversion H; subst; clear H.
        destruct (IH _ _ _ _ ltac:(lia) Hl E1 Hbad) as (Hb0 & tl & Sl & Fl & Ul & Hl' & Vl & Rl & Ml & Nl).
        xsimpl. split; [exact Hb0|].
        exists (Node1 tl). unfold parsed.
        cbn [pmt_flags pmt_hashes pmt_root map length app shape no_equal_children pmt_matches b2n].
        repeat split; auto; try lia.
        -- rewrite Sb, Fl. reflexivity.
        -- subst; reflexivity.
Qed.

(* ---------- completeness of the traversal on well-shaped trees ---------- *)
Lemma mkX_ext b u u' v v' m m' c :
  u = u' -> v = v' -> m = m' -> mkX b u v m c = mkX b u' v' m' c.
Proof. intros; subst; reflexivity. Qed.

Lemma te_complete : forall h pos t s restb resth,
  (h <= 31)%nat -> pos < width n h ->
  shape n h pos t -> no_equal_children node_hash t ->
  skipn (bu s) bits = map b2n (pmt_flags t) ++ restb ->
  skipn (hu s) hashes = pmt_hashes t ++ resth ->
  exists c, TE h pos s =
    (pmt_root node_hash t,
     mkX (x_bad s) (bu s + length (pmt_flags t)) (hu s + length (pmt_hashes t))
         (x_matched s ++ pmt_matches pos t) c).
Proof.
  induction h as [|h' IH]; intros pos t s restb resth Hh Hpos Hshape Hne Hb Hhs.
  - destruct t; try contradiction.
    cbn [pmt_flags pmt_hashes map app] in *.
    apply skipn_cons_nth_error in Hb as [Hb _]. apply skipn_cons_nth_error in Hhs as [Hhs _].
    rewrite te_O, Hb, take_hash_eq. xsimpl. rewrite Hhs.
    cbn [pmt_root pmt_flags pmt_hashes length andb].
    destruct matched; cbn [b2n N.eqb Pos.eqb pmt_matches]; unfold x_add_match, x_inc_hashes; xsimpl;
      eexists; (f_equal; apply mkX_ext; [lia|lia|rewrite ?app_nil_r; reflexivity]).
  - destruct t; try contradiction.
    + (* Pruned *)
      cbn [pmt_flags pmt_hashes map app b2n] in *.
      apply skipn_cons_nth_error in Hb as [Hb _]. apply skipn_cons_nth_error in Hhs as [Hhs _].
      rewrite te_S, Hb. cbn [N.eqb]. rewrite take_hash_eq. xsimpl. rewrite Hhs.
      cbn [pmt_root pmt_flags pmt_hashes length andb pmt_matches].
      unfold x_inc_hashes; xsimpl.
      eexists; (f_equal; apply mkX_ext; [lia|lia|rewrite ?app_nil_r; reflexivity]).
    + (* Node1 *)
      cbn [shape no_equal_children pmt_flags pmt_hashes map app b2n] in *.
      destruct Hshape as [Hw Hsl].
      apply skipn_cons_nth_error in Hb as [Hb Hb'].
      pose proof (pos_small _ _ Hpos) as Hps.
      rewrite te_S, Hb. cbn [N.eqb].
      rewrite wmul2add1, wmul2 by exact Hps. rewrite tw_width by (auto; lia).
      pose proof (width_child_l _ _ _ Hpos) as Hl.
      destruct (IH (2 * pos) t (x_inc_bits (x_tick s)) restb resth ltac:(lia) Hl Hsl Hne) as [c Hc].
      { xsimpl. exact Hb'. }
      { xsimpl. exact Hhs. }
      rewrite Hc. assert ((2 * pos + 1 <? width n h') = false) as Hw2 by (apply N.ltb_ge; lia). rewrite Hw2.
      cbn [pmt_root pmt_flags pmt_hashes length pmt_matches]. xsimpl.
      exists c. f_equal. apply mkX_ext; [lia|lia|reflexivity].
    + (* Node2 *)
      cbn [shape no_equal_children pmt_flags pmt_hashes map app b2n] in *.
      destruct Hshape as (Hw & Hsl & Hsr). destruct Hne as (Hneq & Hnl & Hnr).
      apply skipn_cons_nth_error in Hb as [Hb Hb'].
      pose proof (pos_small _ _ Hpos) as Hps.
      rewrite te_S, Hb. cbn [N.eqb].
      rewrite wmul2add1, wmul2 by exact Hps. rewrite tw_width by (auto; lia).
      pose proof (width_child_l _ _ _ Hpos) as Hl.
      rewrite map_app, <- app_assoc in Hb'. rewrite <- app_assoc in Hhs.
      destruct (IH (2 * pos) t1 (x_inc_bits (x_tick s)) (map b2n (pmt_flags t2) ++ restb) (pmt_hashes t2 ++ resth) ltac:(lia) Hl Hsl Hnl) as [c1 Hc1].
      { xsimpl. exact Hb'. }
      { xsimpl. exact Hhs. }
      rewrite Hc1. pose proof Hw as Hw'. apply N.ltb_lt in Hw'. rewrite Hw'.
      xsimpl.
      destruct (IH (2 * pos + 1) t2
                  (mkX (x_bad s) (S (bu s) + length (pmt_flags t1)) (hu s + length (pmt_hashes t1))
                       (x_matched s ++ pmt_matches (2 * pos) t1) c1) restb resth ltac:(lia) Hw Hsr Hnr) as [c2 Hc2].
      { xsimpl. apply skipn_app_len in Hb'. rewrite map_length in Hb'. exact Hb'. }
      { xsimpl. apply skipn_app_len in Hhs. exact Hhs. }
      rewrite Hc2. xsimpl.
      destruct (hash_eqb (pmt_root node_hash t2) (pmt_root node_hash t1)) eqn:Eeq.
      { apply list_eqb_eq in Eeq. congruence. }
      cbn [pmt_root pmt_flags pmt_hashes length pmt_matches].
      exists c2. f_equal. rewrite !app_length.
      apply mkX_ext; [lia|lia|rewrite app_assoc; reflexivity].
Qed.

End WithNodeHash.

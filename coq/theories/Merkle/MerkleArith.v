(* Arithmetic facts for the merkle models: the uint32 operations do not wrap for fewer than 2^31
   transactions, the three Go copies of calcTreeWidth are the same function and equal ceil(n/2^h),
   and the height loop terminates with the least h such that width n h <= 1. *)
From BU Require Import Lib.Bytes Lib.PolyMod Gen.Xmerkleblock Gen.Xbloom Merkle.Merkle Merkle.PmtSpec.
From Coq Require Import ZifyBool ZifyN ZifyNat.

Local Open Scope N_scope.

(* ---------- the three copies of calcTreeWidth (literals from the source) ---------- *)
Definition tw (numTx height : N) : N := wshr (wsub (wadd numTx (wshl 1 height)) 1) height.

Lemma mb_tree_width_eq n h : mb_tree_width n h = tw n h.
Proof. reflexivity. Qed.
Lemma bl_tree_width_eq n h : bl_tree_width n h = tw n h.
Proof. reflexivity. Qed.
Lemma pb_tree_width_eq n h : pb_tree_width n h = tw n h.
Proof. reflexivity. Qed.

Lemma two32_val : two32 = 2 ^ 32.
Proof. reflexivity. Qed.

Lemma pow2_pos k : 0 < 2 ^ k.
Proof. apply N.neq_0_lt_0. apply N.pow_nonzero. discriminate. Qed.

Lemma pow2_le_31 (h : nat) : (h <= 31)%nat -> 2 ^ N.of_nat h <= 2 ^ 31.
Proof. intros H. apply N.pow_le_mono_r; lia. Qed.

Lemma pow2_S (h : nat) : 2 ^ N.of_nat (S h) = 2 * 2 ^ N.of_nat h.
Proof. rewrite Nat2N.inj_succ, N.pow_succ_r'. reflexivity. Qed.

Lemma u32_small x : x < 2 ^ 32 -> u32 x = x.
Proof. intros H. unfold u32. rewrite two32_val. apply N.mod_small. exact H. Qed.

Lemma u32_lt x : u32 x < 2 ^ 32.
Proof. unfold u32. rewrite two32_val. apply N.mod_lt. discriminate. Qed.

(* ---------- width ---------- *)
Lemma width_lt_iff n h p : p < width n h <-> p * 2 ^ N.of_nat h < n.
Proof.
  unfold width. pose proof (pow2_pos (N.of_nat h)) as HP.
  set (P := 2 ^ N.of_nat h) in *.
  split; intros H.
  - destruct (N.lt_ge_cases (p * P) n) as [Hlt|Hge]; [exact Hlt|exfalso].
    assert ((n + P - 1) / P < p + 1) as Hd.
    { apply N.div_lt_upper_bound; lia. }
    lia.
  - assert (p + 1 <= (n + P - 1) / P) as Hd.
    { apply N.div_le_lower_bound; lia. }
    lia.
Qed.

Lemma width_0 n : width n 0 = n.
Proof. unfold width. simpl. rewrite N.div_1_r. lia. Qed.

Lemma lt_ext a b : (forall p, p < a <-> p < b) -> a = b.
Proof.
  intros H. destruct (N.lt_trichotomy a b) as [L|[E|L]]; [|exact E|].
  - apply H in L. lia.
  - apply H in L. lia.
Qed.

Lemma width_S n h : width n (S h) = (width n h + 1) / 2.
Proof.
  apply lt_ext. intros p. rewrite width_lt_iff, pow2_S.
  assert (p < (width n h + 1) / 2 <-> 2 * p < width n h) as -> by lia.
  rewrite width_lt_iff. lia.
Qed.

Lemma width_child_l n h p : p < width n (S h) -> 2 * p < width n h.
Proof. rewrite !width_lt_iff, pow2_S. lia. Qed.

Lemma width_le n h : width n h <= n.
Proof.
  destruct (N.le_gt_cases (width n h) n) as [L|G]; [exact L|].
  apply width_lt_iff in G. pose proof (pow2_pos (N.of_nat h)). nia.
Qed.

Lemma width_pos n h : 0 < n -> 0 < width n h.
Proof. intros H. apply width_lt_iff. lia. Qed.

Lemma width_le1_iff n h : width n h <= 1 <-> n <= 2 ^ N.of_nat h.
Proof.
  split; intros H.
  - destruct (N.le_gt_cases n (2 ^ N.of_nat h)) as [L|G]; [exact L|].
    assert (1 < width n h) by (apply width_lt_iff; lia). lia.
  - destruct (N.le_gt_cases (width n h) 1) as [L|G]; [exact L|].
    apply width_lt_iff in G. lia.
Qed.

(* ---------- no wrap-around below 2^31 transactions ---------- *)
Lemma tw_width n (h : nat) : n < 2 ^ 31 -> (h <= 31)%nat -> tw n (N.of_nat h) = width n h.
Proof.
  intros Hn Hh. pose proof (pow2_le_31 h Hh) as HP. pose proof (pow2_pos (N.of_nat h)) as HP0.
  unfold tw, width, wshr, wsub, wadd, wshl.
  rewrite N.shiftl_1_l.
  change (2 ^ 31) with 2147483648 in *.
  rewrite (u32_small (2 ^ N.of_nat h)) by (change (2 ^ 32) with 4294967296; lia).
  rewrite (u32_small (n + _)) by (change (2 ^ 32) with 4294967296; lia).
  rewrite (u32_small 1) by reflexivity.
  rewrite N.shiftr_div_pow2. f_equal.
  unfold u32, two32.
  replace (n + 2 ^ N.of_nat h + 4294967296 - 1) with ((n + 2 ^ N.of_nat h - 1) + 1 * 4294967296) by lia.
  rewrite N.mod_add by discriminate. apply N.mod_small. lia.
Qed.

Lemma wmul2 p : p < 2 ^ 31 -> wmul p 2 = 2 * p.
Proof. intros H. unfold wmul. rewrite u32_small; change (2 ^ 31) with 2147483648 in *; change (2 ^ 32) with 4294967296; lia. Qed.

Lemma wmul2add1 p : p < 2 ^ 31 -> wadd (wmul p 2) 1 = 2 * p + 1.
Proof.
  intros H. rewrite wmul2 by exact H. unfold wadd.
  rewrite u32_small; change (2 ^ 31) with 2147483648 in *; change (2 ^ 32) with 4294967296; lia.
Qed.

(* ---------- the height loop ---------- *)
Lemma tw_32 n h : 32 <= h -> tw n h = 0.
Proof.
  intros H. unfold tw, wshr. rewrite N.shiftr_div_pow2. apply N.div_small.
  eapply N.lt_le_trans; [apply u32_lt|]. apply N.pow_le_mono_r; lia.
Qed.

(* for any 32-bit count the loop stops within 33 iterations *)
Lemma height_loop_terminates n : forall fuel h,
  (N.to_nat h + fuel >= 33)%nat -> h <= 32 ->
  exists r, height_loop (tw n) 1 fuel h = Ok r /\ r <= 32.
Proof.
  induction fuel as [|f IH]; intros h Hf Hh.
  - lia.
  - cbn [height_loop]. destruct (1 <? tw n h) eqn:E.
    + assert (h < 32) as Hlt.
      { destruct (N.lt_ge_cases h 32) as [L|G]; [exact L|]. rewrite tw_32 in E by exact G. discriminate. }
      assert (wadd h 1 = h + 1) as ->.
      { unfold wadd. apply u32_small. change (2 ^ 32) with 4294967296. lia. }
      apply IH; lia.
    + exists h. split; [reflexivity|exact Hh].
Qed.

Lemma height_loop_spec n : n < 2 ^ 31 -> forall fuel (h : nat),
  (h + fuel >= 33)%nat -> (h <= 31)%nat -> (forall h', (h' < h)%nat -> 1 < width n h') ->
  exists H : nat, height_loop (tw n) 1 fuel (N.of_nat h) = Ok (N.of_nat H) /\ (H <= 31)%nat /\ is_height n H.
Proof.
  intros Hn. induction fuel as [|f IH]; intros h Hf Hh Hbelow.
  - lia.
  - cbn [height_loop]. rewrite tw_width by assumption.
    destruct (1 <? width n h) eqn:E.
    + apply N.ltb_lt in E.
      assert (h <> 31)%nat as Hne.
      { intros ->. assert (width n 31 <= 1) by (apply width_le1_iff; simpl; lia). lia. }
      assert (wadd (N.of_nat h) 1 = N.of_nat (S h)) as ->.
      { unfold wadd. rewrite u32_small; change (2 ^ 32) with 4294967296; lia. }
      apply IH; try lia.
      intros h' Hh'. destruct (Nat.eq_dec h' h) as [->|]; [exact E|]. apply Hbelow. lia.
    + apply N.ltb_ge in E. exists h. repeat split; auto.
Qed.

Lemma calc_height_ok n : n < 2 ^ 31 ->
  exists H : nat, height_loop (tw n) 1 height_fuel 0 = Ok (N.of_nat H) /\ (H <= 31)%nat /\ is_height n H.
Proof.
  intros Hn. apply (height_loop_spec n Hn height_fuel 0%nat).
  - unfold height_fuel. lia.
  - lia.
  - intros h' Hh'. lia.
Qed.

Lemma is_height_unique n a b : is_height n a -> is_height n b -> a = b.
Proof.
  intros [Ha1 Ha2] [Hb1 Hb2].
  destruct (Nat.lt_trichotomy a b) as [L|[E|L]]; [|exact E|].
  - apply Hb2 in L. lia.
  - apply Ha2 in L. lia.
Qed.

(* n <= 2^k gives height <= k (for MaxTxnCount = 2098360 <= 2^21: at most 21, i.e. recursion depth <= 22) *)
Lemma is_height_le n H k : is_height n H -> n <= 2 ^ N.of_nat k -> (H <= k)%nat.
Proof.
  intros [_ Hb] Hk. destruct (Nat.le_gt_cases H k) as [L|G]; [exact L|].
  apply Hb in G. assert (width n k <= 1) by (apply width_le1_iff; exact Hk). lia.
Qed.

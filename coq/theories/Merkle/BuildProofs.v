(* The builders (merkleblock/encode.go, bloom/merkleblock.go) compute the canonical partial merkle
   tree of the specification; properties of that tree. *)
From BU Require Import Lib.Bytes Lib.PolyMod Gen.Xmerkleblock Gen.Xbloom Merkle.Merkle Merkle.PmtSpec
  Merkle.MerkleArith Merkle.ExtractProofs Merkle.PmtProofs Merkle.LevelProofs Merkle.PackProofs.
From Coq Require Import ZifyBool ZifyN ZifyNat.

Local Open Scope N_scope.

(* ---------- equations with the literals of the source evaluated ---------- *)
Definition is_parent (numTx : N) (mbits : list N) (height pos : N) : N :=
  let lo := wshl pos height in
  let hi := wshl (wadd pos 1) height in
  fold_left N.lor (firstn (N.to_nat (N.min hi numTx - lo)) (skipn (N.to_nat lo) mbits)) 0.

Section Equations.
Variable node_hash : hash -> hash -> hash.

Lemma mb_is_parent_eq n mbits h pos : mb_is_parent n mbits h pos = is_parent n mbits h pos.
Proof. reflexivity. Qed.
Lemma bl_is_parent_eq n mbits h pos : bl_is_parent n mbits h pos = is_parent n mbits h pos.
Proof. reflexivity. Qed.

Lemma mb_calc_hash_S n all h' pos :
  mb_calc_hash node_hash n all (S h') pos =
  (do hl <- mb_calc_hash node_hash n all h' (wmul pos 2);;
   if wadd (wmul pos 2) 1 <? tw n (N.of_nat h')
   then (do hr <- mb_calc_hash node_hash n all h' (wadd (wmul pos 2) 1);; Ok (node_hash hl hr))
   else Ok (node_hash hl hl)).
Proof. reflexivity. Qed.

Lemma bl_calc_hash_S n all h' pos :
  bl_calc_hash node_hash n all (S h') pos =
  (do hl <- bl_calc_hash node_hash n all h' (wmul pos 2);;
   if wadd (wmul pos 2) 1 <? tw n (N.of_nat h')
   then (do hr <- bl_calc_hash node_hash n all h' (wadd (wmul pos 2) 1);; Ok (node_hash hl hr))
   else Ok (node_hash hl hl)).
Proof. reflexivity. Qed.

Lemma mb_tb_O n all mbits pos st :
  mb_traverse_build node_hash n all mbits O pos st =
  (do h <- mb_calc_hash node_hash n all O pos;; Ok (fst st ++ [is_parent n mbits 0 pos], snd st ++ [h])).
Proof. reflexivity. Qed.

Lemma mb_tb_S n all mbits h' pos st :
  mb_traverse_build node_hash n all mbits (S h') pos st =
  (let ip := is_parent n mbits (N.of_nat (S h')) pos in
   if ip =? 0 then (do h <- mb_calc_hash node_hash n all (S h') pos;; Ok (fst st ++ [ip], snd st ++ [h]))
   else
     do st1 <- mb_traverse_build node_hash n all mbits h' (wmul pos 2) (fst st ++ [ip], snd st);;
     if wadd (wmul pos 2) 1 <? tw n (N.of_nat h')
     then mb_traverse_build node_hash n all mbits h' (wadd (wmul pos 2) 1) st1
     else Ok st1).
Proof. reflexivity. Qed.

Lemma bl_tb_O n all mbits pos st :
  bl_traverse_build node_hash n all mbits O pos st =
  (do h <- bl_calc_hash node_hash n all O pos;; Ok (fst st ++ [is_parent n mbits 0 pos], snd st ++ [h])).
Proof. reflexivity. Qed.

Lemma bl_tb_S n all mbits h' pos st :
  bl_traverse_build node_hash n all mbits (S h') pos st =
  (let ip := is_parent n mbits (N.of_nat (S h')) pos in
   if ip =? 0 then (do h <- bl_calc_hash node_hash n all (S h') pos;; Ok (fst st ++ [ip], snd st ++ [h]))
   else
     do st1 <- bl_traverse_build node_hash n all mbits h' (wmul pos 2) (fst st ++ [ip], snd st);;
     if wadd (wmul pos 2) 1 <? tw n (N.of_nat h')
     then bl_traverse_build node_hash n all mbits h' (wadd (wmul pos 2) 1) st1
     else Ok st1).
Proof. reflexivity. Qed.

(* the two copies are the same functions *)
(* the two copies are the same functions: after evaluating the literals the two fixpoints have
   identical bodies, so the kernel's conversion identifies them *)
Lemma bl_calc_hash_mb n all h pos :
  bl_calc_hash node_hash n all h pos = mb_calc_hash node_hash n all h pos.
Proof. reflexivity. Qed.

Lemma bl_traverse_build_mb n all mbits h pos st :
  bl_traverse_build node_hash n all mbits h pos st = mb_traverse_build node_hash n all mbits h pos st.
Proof. reflexivity. Qed.

Lemma mb_calc_block_eq header n all mbits :
  mb_calc_block node_hash header n all mbits =
  (do height <- height_loop (tw n) 1 height_fuel 0;;
   do st <- (if 0 <? n then mb_traverse_build node_hash n all mbits (N.to_nat height) 0 ([], []) else Ok ([], []));;
   Ok (mkMsg header n (snd st) (pack_bits 7 8 8 (fst st)))).
Proof. reflexivity. Qed.

Lemma mb_new_with_txnset_eq header leaves txnset :
  mb_new_with_txnset node_hash header leaves txnset =
  (let sel := map (fun h => tx_in_set h txnset) leaves in
   do m <- mb_calc_block node_hash header (u32 (N.of_nat (length leaves))) leaves (matched_bits 1 0 sel);;
   Ok (m, matched_indices 0 sel)).
Proof. reflexivity. Qed.

Lemma mb_new_with_filter_eq header leaves mm :
  mb_new_with_filter node_hash header leaves mm =
  (let sel := map mm (seq 0 (length leaves)) in
   do m <- mb_calc_block node_hash header (u32 (N.of_nat (length leaves))) leaves (matched_bits 1 0 sel);;
   Ok (m, matched_indices 0 sel)).
Proof. reflexivity. Qed.

Lemma bl_new_eq header leaves mm :
  bl_new node_hash header leaves mm =
  (let n := u32 (N.of_nat (length leaves)) in
   let sel := map mm (seq 0 (length leaves)) in
   do height <- height_loop (tw n) 1 height_fuel 0;;
   do st <- (if 0 <? n then bl_traverse_build node_hash n leaves (matched_bits 1 0 sel) (N.to_nat height) 0 ([], [])
             else Ok ([], []));;
   Ok (mkMsg header n (snd st) (pack_bits 7 8 8 (fst st)), matched_indices 0 sel)).
Proof. reflexivity. Qed.

(* builders_agree: bloom.NewMerkleBlock and merkleblock.NewMerkleBlockWithFilter, same block, same matches *)
Theorem builders_agree header leaves mm :
  bl_new node_hash header leaves mm = mb_new_with_filter node_hash header leaves mm.
Proof.
  rewrite bl_new_eq, mb_new_with_filter_eq. cbv zeta. rewrite mb_calc_block_eq.
  destruct (height_loop _ _ _ _) as [height|e|k]; cbn [rbind]; try reflexivity.
  rewrite bl_traverse_build_mb.
  destruct (if 0 <? _ then _ else _) as [st|e|k]; reflexivity.
Qed.

End Equations.

Lemma matched_bits_b2n sel : matched_bits 1 0 sel = map b2n sel.
Proof. induction sel as [|[] t IH]; cbn [matched_bits map b2n]; congruence. Qed.

(* ---------- isParent ---------- *)
Lemma lor_b2n a b : N.lor (b2n a) (b2n b) = b2n (a || b).
Proof. destruct a, b; reflexivity. Qed.

Lemma fold_lor_b2n l : forall a, fold_left N.lor (map b2n l) (b2n a) = b2n (a || existsb (fun x => x) l).
Proof.
  induction l as [|x l IH]; intros a; cbn [map fold_left existsb].
  - rewrite orb_false_r. reflexivity.
  - rewrite lor_b2n, IH, orb_assoc. reflexivity.
Qed.

Section Sel.
Variable sel : list bool.
Notation sel_at := (sel_at sel).

Lemma sel_at_overflow i : (length sel <= i)%nat -> sel_at i = false.
Proof. intros H. unfold PmtSpec.sel_at. apply nth_overflow. exact H. Qed.

Lemma existsb_overflow k : forall lo, (length sel <= lo)%nat -> existsb sel_at (seq lo k) = false.
Proof.
  induction k as [|k IH]; intros lo H; cbn [seq existsb]; [reflexivity|].
  rewrite sel_at_overflow by exact H. rewrite IH by lia. reflexivity.
Qed.

Lemma existsb_slice k : forall lo,
  existsb (fun x => x) (firstn k (skipn lo sel)) = existsb sel_at (seq lo k).
Proof.
  induction k as [|k IH]; intros lo; [reflexivity|].
  destruct (skipn lo sel) as [|x rest] eqn:E.
  - cbn [firstn existsb]. symmetry. apply existsb_overflow.
    apply skipn_nil_nth_error in E. apply nth_error_None in E. exact E.
  - apply skipn_cons_nth_error in E as [Hx Hr].
    cbn [firstn existsb seq]. rewrite <- Hr, IH.
    unfold PmtSpec.sel_at at 2. rewrite (nth_error_nth _ _ _ Hx). reflexivity.
Qed.

Lemma any_sel_O pos : PmtSpec.any_sel sel 0 pos = sel_at (N.to_nat pos).
Proof.
  unfold PmtSpec.any_sel. change (2 ^ N.of_nat 0) with 1. rewrite N.mul_1_r.
  change (N.to_nat 1) with 1%nat. cbn [seq existsb]. apply orb_false_r.
Qed.

End Sel.

Section Build.
Variable node_hash : hash -> hash -> hash.
Variable leaves : list hash.
Variable sel : list bool.
Hypothesis sel_len : length sel = length leaves.
Notation n := (N.of_nat (length leaves)).
Hypothesis n_pos : 0 < n.
Hypothesis n_small : n < 2 ^ 31.
Notation mbits := (map b2n sel).
Notation sub_hash := (sub_hash node_hash leaves).
Notation spec_tree := (spec_tree node_hash leaves sel).
Notation any_sel := (any_sel sel).
Notation sel_at := (sel_at sel).
Notation levels := (levels node_hash).

Lemma pos_bounds h pos : (h <= 31)%nat -> pos < width n h ->
  pos * 2 ^ N.of_nat h < n /\ 2 ^ N.of_nat h <= 2 ^ 31 /\ pos < 2 ^ 31 /\ 0 < 2 ^ N.of_nat h.
Proof.
  intros Hh Hpos. pose proof (pow2_le_31 h Hh). pose proof (pow2_pos (N.of_nat h)).
  apply width_lt_iff in Hpos. repeat split; auto. nia.
Qed.

Lemma is_parent_spec h pos : (h <= 31)%nat -> pos < width n h ->
  is_parent n mbits (N.of_nat h) pos = b2n (any_sel h pos).
Proof.
  intros Hh Hpos. destruct (pos_bounds h pos Hh Hpos) as (Hlo & HP & Hp31 & HP0).
  unfold is_parent, wshl, wadd. rewrite !N.shiftl_mul_pow2.
  set (P := 2 ^ N.of_nat h) in *.
  change (2 ^ 31) with 2147483648 in *.
  rewrite (u32_small (pos + 1)) by (change (2 ^ 32) with 4294967296; lia).
  rewrite (u32_small (pos * P)) by (change (2 ^ 32) with 4294967296; lia).
  rewrite (u32_small ((pos + 1) * P)) by (change (2 ^ 32) with 4294967296; lia).
  cbv zeta.
  assert (firstn (N.to_nat (N.min ((pos + 1) * P) n - pos * P)) (skipn (N.to_nat (pos * P)) mbits)
          = firstn (N.to_nat P) (skipn (N.to_nat (pos * P)) mbits)) as ->.
  { destruct (N.le_gt_cases ((pos + 1) * P) n) as [L|G].
    - rewrite N.min_l by exact L. f_equal. lia.
    - rewrite N.min_r by lia.
      rewrite !firstn_all2; [reflexivity| |]; rewrite skipn_length, map_length, sel_len; lia. }
  rewrite skipn_map, firstn_map.
  change 0 with (b2n false). rewrite fold_lor_b2n. cbn [orb].
  rewrite existsb_slice. reflexivity.
Qed.

(* ---------- calcHash ---------- *)
Lemma calc_hash_spec : forall h pos, (h <= 31)%nat -> pos < width n h ->
  mb_calc_hash node_hash n leaves h pos = Ok (sub_hash h pos).
Proof.
  induction h as [|h' IH]; intros pos Hh Hpos.
  - cbn [mb_calc_hash]. unfold nth_res, PmtSpec.sub_hash. rewrite width_0 in Hpos.
    destruct (nth_error leaves (N.to_nat pos)) eqn:E.
    + rewrite (nth_error_nth _ _ _ E). reflexivity.
    + apply nth_error_None in E. lia.
  - destruct (pos_bounds _ _ Hh Hpos) as (_ & _ & Hp31 & _).
    pose proof (width_child_l _ _ _ Hpos) as Hl.
    rewrite mb_calc_hash_S, wmul2add1, wmul2 by exact Hp31. rewrite tw_width by (auto; lia).
    rewrite IH by (auto; lia). cbn [rbind].
    pose proof (levels_length node_hash leaves h') as Hlen.
    unfold PmtSpec.sub_hash. rewrite levels_S.
    destruct (2 * pos + 1 <? width n h') eqn:Ew.
    + apply N.ltb_lt in Ew. rewrite IH by (auto; lia). cbn [rbind].
      rewrite level_nth by lia. unfold PmtSpec.sub_hash.
      replace (N.to_nat (2 * pos)) with (2 * N.to_nat pos)%nat by lia.
      replace (N.to_nat (2 * pos + 1)) with (2 * N.to_nat pos + 1)%nat by lia. reflexivity.
    + apply N.ltb_ge in Ew. rewrite level_nth_last by lia.
      replace (N.to_nat (2 * pos)) with (2 * N.to_nat pos)%nat by lia. reflexivity.
Qed.

(* ---------- traverseAndBuild ---------- *)
Lemma traverse_build_spec : forall h pos st, (h <= 31)%nat -> pos < width n h ->
  mb_traverse_build node_hash n leaves mbits h pos st =
  Ok (fst st ++ map b2n (pmt_flags (spec_tree h pos)), snd st ++ pmt_hashes (spec_tree h pos)).
Proof.
  induction h as [|h' IH]; intros pos st Hh Hpos.
  - rewrite mb_tb_O, calc_hash_spec by assumption. cbn [rbind].
    change 0 with (N.of_nat 0) at 1. rewrite is_parent_spec by assumption.
    cbn [PmtSpec.spec_tree pmt_flags pmt_hashes map]. rewrite any_sel_O. reflexivity.
  - destruct (pos_bounds _ _ Hh Hpos) as (_ & _ & Hp31 & _).
    pose proof (width_child_l _ _ _ Hpos) as Hl.
    rewrite mb_tb_S. cbv zeta. rewrite is_parent_spec by assumption.
    cbn [PmtSpec.spec_tree].
    destruct (any_sel (S h') pos) eqn:Ea; cbn [b2n N.eqb].
    + rewrite wmul2add1, wmul2 by exact Hp31. rewrite tw_width by (auto; lia).
      rewrite IH by (auto; lia). cbn [rbind fst snd].
      destruct (2 * pos + 1 <? width n h') eqn:Ew.
      * apply N.ltb_lt in Ew. rewrite IH by (auto; lia). cbn [fst snd pmt_flags pmt_hashes map b2n].
        rewrite map_app, <- !app_assoc. reflexivity.
      * cbn [pmt_flags pmt_hashes map b2n]. rewrite <- !app_assoc. reflexivity.
    + rewrite calc_hash_spec by assumption. reflexivity.
Qed.

(* ---------- the canonical tree: shape, root, matches ---------- *)
Lemma spec_tree_shape : forall h pos, shape n h pos (spec_tree h pos).
Proof.
  induction h as [|h' IH]; intros pos; cbn [PmtSpec.spec_tree]; [exact I|].
  destruct (any_sel (S h') pos); [|exact I].
  destruct (2 * pos + 1 <? width n h') eqn:Ew; cbn [shape].
  - apply N.ltb_lt in Ew. auto.
  - apply N.ltb_ge in Ew. split; [lia|auto].
Qed.

Lemma spec_tree_root : forall h pos, pos < width n h ->
  pmt_root node_hash (spec_tree h pos) = sub_hash h pos.
Proof.
  induction h as [|h' IH]; intros pos Hpos; cbn [PmtSpec.spec_tree]; [reflexivity|].
  destruct (any_sel (S h') pos); [|reflexivity].
  pose proof (width_child_l _ _ _ Hpos) as Hl.
  pose proof (levels_length node_hash leaves h') as Hlen.
  unfold PmtSpec.sub_hash at 1. rewrite levels_S.
  destruct (2 * pos + 1 <? width n h') eqn:Ew; cbn [pmt_root].
  - apply N.ltb_lt in Ew. rewrite !IH by assumption. rewrite level_nth by lia.
    unfold PmtSpec.sub_hash.
    replace (N.to_nat (2 * pos)) with (2 * N.to_nat pos)%nat by lia.
    replace (N.to_nat (2 * pos + 1)) with (2 * N.to_nat pos + 1)%nat by lia. reflexivity.
  - apply N.ltb_ge in Ew. rewrite !IH by assumption. rewrite level_nth_last by lia.
    unfold PmtSpec.sub_hash.
    replace (N.to_nat (2 * pos)) with (2 * N.to_nat pos)%nat by lia. reflexivity.
Qed.

Definition chosen_range (lo k : nat) : list (N * hash) :=
  flat_map (fun i => if sel_at i then [(N.of_nat i, nth i leaves zero_hash)] else []) (seq lo k).

Lemma chosen_range_app lo a b : chosen_range lo (a + b) = chosen_range lo a ++ chosen_range (lo + a) b.
Proof. unfold chosen_range. rewrite seq_app, flat_map_app. reflexivity. Qed.

Lemma chosen_range_none k : forall lo, existsb sel_at (seq lo k) = false -> chosen_range lo k = [].
Proof.
  unfold chosen_range. induction k as [|k IH]; intros lo H; [reflexivity|].
  cbn [seq existsb flat_map] in *. apply orb_false_iff in H as [H1 H2].
  rewrite H1, IH by exact H2. reflexivity.
Qed.

Lemma spec_tree_matches : forall h pos, pos < width n h ->
  pmt_matches pos (spec_tree h pos) =
  chosen_range (N.to_nat (pos * 2 ^ N.of_nat h)) (N.to_nat (2 ^ N.of_nat h)).
Proof.
  induction h as [|h' IH]; intros pos Hpos; cbn [PmtSpec.spec_tree].
  - change (2 ^ N.of_nat 0) with 1. rewrite N.mul_1_r.
    unfold chosen_range. change (N.to_nat 1) with 1%nat. cbn [seq flat_map]. rewrite app_nil_r.
    unfold PmtSpec.sub_hash. cbn [PmtSpec.levels Nat.iter nat_rect].
    destruct (sel_at (N.to_nat pos)); cbn [pmt_matches]; [|reflexivity].
    rewrite N2Nat.id. reflexivity.
  - pose proof (width_child_l _ _ _ Hpos) as Hl.
    pose proof (pow2_pos (N.of_nat h')) as HP.
    destruct (any_sel (S h') pos) eqn:Ea.
    2:{ cbn [pmt_matches]. symmetry. apply chosen_range_none. exact Ea. }
    rewrite pow2_S.
    replace (N.to_nat (2 * 2 ^ N.of_nat h')) with (N.to_nat (2 ^ N.of_nat h') + N.to_nat (2 ^ N.of_nat h'))%nat by lia.
    rewrite chosen_range_app.
    destruct (2 * pos + 1 <? width n h') eqn:Ew; cbn [pmt_matches].
    + apply N.ltb_lt in Ew. rewrite !IH by assumption. f_equal; f_equal; lia.
    + apply N.ltb_ge in Ew. rewrite IH by assumption.
      rewrite (chosen_range_none _ (N.to_nat (pos * (2 * 2 ^ N.of_nat h')) + N.to_nat (2 ^ N.of_nat h'))).
      * rewrite app_nil_r. f_equal. lia.
      * apply existsb_overflow. rewrite sel_len.
        assert (~ (2 * pos + 1) * 2 ^ N.of_nat h' < n) as Hge by (rewrite <- width_lt_iff; lia). lia.
Qed.

Lemma chosen_from_range : forall ls ss pre_l pre_s,
  length pre_l = length pre_s -> leaves = pre_l ++ ls -> sel = pre_s ++ ss -> length ss = length ls ->
  chosen_from (N.of_nat (length pre_l)) ls ss = chosen_range (length pre_l) (length ls).
Proof.
  induction ls as [|x ls IH]; intros ss pre_l pre_s Hpre Hl Hs Hlen.
  - destruct ss; reflexivity.
  - destruct ss as [|s ss]; [discriminate|].
    cbn [chosen_from length]. unfold chosen_range. cbn [seq flat_map]. fold (chosen_range (S (length pre_l)) (length ls)).
    assert (sel_at (length pre_l) = s) as ->.
    { unfold PmtSpec.sel_at. rewrite Hs, Hpre, app_nth2, Nat.sub_diag by lia. reflexivity. }
    assert (nth (length pre_l) leaves zero_hash = x) as ->.
    { rewrite Hl, app_nth2, Nat.sub_diag by lia. reflexivity. }
    f_equal.
    replace (N.of_nat (length pre_l) + 1) with (N.of_nat (length (pre_l ++ [x]))) by (rewrite app_length; cbn; lia).
    replace (S (length pre_l)) with (length (pre_l ++ [x])) by (rewrite app_length; cbn; lia).
    apply (IH ss (pre_l ++ [x]) (pre_s ++ [s])).
    + rewrite !app_length. cbn. lia.
    + rewrite <- app_assoc. exact Hl.
    + rewrite <- app_assoc. exact Hs.
    + cbn in Hlen. lia.
Qed.

Lemma spec_tree_matches_root H : is_height n H ->
  pmt_matches 0 (spec_tree H 0) = chosen leaves sel.
Proof.
  intros [Hle _]. rewrite spec_tree_matches by (apply width_pos; exact n_pos).
  apply width_le1_iff in Hle. rewrite N.mul_0_l. change (N.to_nat 0) with 0%nat.
  replace (N.to_nat (2 ^ N.of_nat H)) with (length leaves + (N.to_nat (2 ^ N.of_nat H) - length leaves))%nat by lia.
  rewrite chosen_range_app, (chosen_range_none _ (0 + length leaves)).
  - rewrite app_nil_r. symmetry. apply (chosen_from_range leaves sel [] []); auto.
  - apply existsb_overflow. lia.
Qed.

(* the builder descends exactly where a chosen transaction is below: the canonical encoding *)
Lemma existsb_seq_app (f : nat -> bool) lo a b :
  existsb f (seq lo (a + b)) = existsb f (seq lo a) || existsb f (seq (lo + a) b).
Proof. rewrite seq_app, existsb_app. reflexivity. Qed.

Lemma spec_tree_has_match : forall h pos, pos < width n h ->
  has_match (spec_tree h pos) = any_sel h pos.
Proof.
  induction h as [|h' IH]; intros pos Hpos; cbn [PmtSpec.spec_tree].
  - cbn [has_match]. rewrite any_sel_O. reflexivity.
  - pose proof (width_child_l _ _ _ Hpos) as Hl.
    destruct (any_sel (S h') pos) eqn:Ea; [|reflexivity].
    unfold PmtSpec.any_sel in Ea. rewrite pow2_S in Ea.
    replace (N.to_nat (2 * 2 ^ N.of_nat h')) with (N.to_nat (2 ^ N.of_nat h') + N.to_nat (2 ^ N.of_nat h'))%nat in Ea by lia.
    rewrite existsb_seq_app in Ea.
    replace (N.to_nat (pos * (2 * 2 ^ N.of_nat h'))) with (N.to_nat (2 * pos * 2 ^ N.of_nat h')) in Ea by lia.
    replace (N.to_nat (2 * pos * 2 ^ N.of_nat h') + N.to_nat (2 ^ N.of_nat h'))%nat
      with (N.to_nat ((2 * pos + 1) * 2 ^ N.of_nat h')) in Ea by lia.
    destruct (2 * pos + 1 <? width n h') eqn:Ew; cbn [has_match].
    + apply N.ltb_lt in Ew. rewrite !IH by assumption. exact Ea.
    + apply N.ltb_ge in Ew. rewrite IH by assumption.
      rewrite (existsb_overflow sel _ (N.to_nat ((2 * pos + 1) * 2 ^ N.of_nat h'))) in Ea.
      * rewrite orb_false_r in Ea. exact Ea.
      * rewrite sel_len.
        assert (~ (2 * pos + 1) * 2 ^ N.of_nat h' < n) as Hge by (rewrite <- width_lt_iff; lia). lia.
Qed.

Lemma spec_tree_canonical : forall h pos, pos < width n h -> canonical (spec_tree h pos).
Proof.
  induction h as [|h' IH]; intros pos Hpos; cbn [PmtSpec.spec_tree]; [exact I|].
  pose proof (width_child_l _ _ _ Hpos) as Hl.
  destruct (any_sel (S h') pos) eqn:Ea; [|exact I].
  pose proof (spec_tree_has_match (S h') pos Hpos) as Hm. cbn [PmtSpec.spec_tree] in Hm. rewrite Ea in Hm.
  destruct (2 * pos + 1 <? width n h') eqn:Ew; cbn [canonical has_match] in *.
  - apply N.ltb_lt in Ew. auto.
  - auto.
Qed.

(* ---------- no equal children when the nodes of every level are distinct ---------- *)
Hypothesis levels_nodup : forall h, NoDup (levels h leaves).

Lemma spec_tree_no_equal_children : forall h pos, pos < width n h ->
  no_equal_children node_hash (spec_tree h pos).
Proof.
  induction h as [|h' IH]; intros pos Hpos; cbn [PmtSpec.spec_tree]; [exact I|].
  pose proof (width_child_l _ _ _ Hpos) as Hl.
  destruct (any_sel (S h') pos); [|exact I].
  destruct (2 * pos + 1 <? width n h') eqn:Ew; cbn [no_equal_children].
  - apply N.ltb_lt in Ew. repeat split; auto.
    rewrite !spec_tree_root by assumption. unfold PmtSpec.sub_hash.
    pose proof (levels_length node_hash leaves h') as Hlen.
    intros Heq. apply (NoDup_nth (levels h' leaves) zero_hash) in Heq; [lia|apply levels_nodup|lia|lia].
  - auto.
Qed.

End Build.

(* Model of the merkle-block code of bchutil (C11, C12):

     merkleblock/encode.go   MerkleBlock.{calcTreeWidth,calcHash,traverseAndBuild,calcBlock},
                             TxInSet, NewMerkleBlockWithTxnSet, NewMerkleBlockWithFilter      -> prefix mb_
     bloom/merkleblock.go    merkleBlock.{calcTreeWidth,calcHash,traverseAndBuild}, NewMerkleBlock  -> prefix bl_
     merkleblock/decode.go   NewMerkleBlockFromMsg, PartialBlock.{calcTreeWidth,traverseAndExtract,
                             ExtractMatches}                                                   -> prefix pb_

   The two builders are transliterated separately (they are separate copies in the Go tree).
   Conventions: a hash is a byte list ([chainhash.Hash], 32 bytes); uint32 values are [N] with the
   wrap-around written out ([wadd], [wsub], [wmul], [wshl]); `height` is a [nat] because every
   recursion of the Go code is `f(height-1, ..)` guarded by `height == 0`, i.e. structural on it;
   the only loop that is not structural (`for calcTreeWidth(height) > 1 { height++ }`) takes fuel
   and returns [Panic 9] when it runs out (excluded by [calc_height_ok] in MerkleArith.v).
   Integer literals are taken from the Go source through Gen/Xmerkleblock.v and Gen/Xbloom.v
   ([lit lits_<func> i] = i-th literal of the function body), so a changed literal changes the model.
   [blockchain.HashMerkleBranches] (double SHA-256 of the 64-byte concatenation) is the section
   variable [node_hash]; [bloom.GetMatchedIndices] (C10) is the argument [matched_map].
   No proofs in this file. *)
From BU Require Import Lib.Bytes Lib.PolyMod Gen.Xmerkleblock Gen.Xbloom.

Definition hash := list N.
Definition zero_hash : hash := repeat 0 32.          (* chainhash.Hash{} *)
Definition hash_eqb (a b : hash) : bool := list_eqb a b.   (* Hash.IsEqual on non-nil pointers *)

(* ---------- uint32 arithmetic ---------- *)
Definition two32 : N := 4294967296.
Definition u32 (x : N) : N := x mod two32.
Definition wadd (a b : N) : N := u32 (a + b).
Definition wsub (a b : N) : N := u32 (a + two32 - u32 b).      (* a, b < 2^32 *)
Definition wmul (a b : N) : N := u32 (a * b).
Definition wshl (a s : N) : N := u32 (N.shiftl a s).            (* Go: a shift count >= 32 gives 0 *)
Definition wshr (a s : N) : N := N.shiftr a s.                  (* a < 2^32 *)

(* the message, as far as bchutil writes or reads it *)
Record msg := mkMsg {
  m_header : list N;            (* wire.BlockHeader, copied verbatim (opaque here) *)
  m_transactions : N;           (* uint32 *)
  m_hashes : list hash;
  m_flags : list N              (* bytes *)
}.

(* Literals that the SHAPE of the model stands for rather than reads: the `height == 0` tests and
   `height-1` decrements behind the structural recursion on [height], loop counters and cursors that
   start at 0, `make(.., 0, ..)` lengths.  [lits_are l k zeros ones]: the function has [k] integer
   literals, those at [zeros] are 0 and those at [ones] are 1.  The top-level model functions return
   [Panic 8] when this fails, so that such a literal changed in the source breaks the equation lemmas
   (BuildProofs.v, ExtractTop.v: `reflexivity`) at `make` time instead of going unnoticed. *)
Definition lits_are (l : list Z) (k : nat) (zeros ones : list nat) : bool :=
  Nat.eqb (length l) k && forallb (fun i => lit l i =? 0) zeros && forallb (fun i => lit l i =? 1) ones.

Definition mb_struct_ok : bool :=
  lits_are lits_MerkleBlock_calcTreeWidth 2 [] []
  && lits_are lits_MerkleBlock_calcHash 9 [0%nat] [1; 5; 6]%nat           (* height == 0; height-1 (x3) *)
  && lits_are lits_MerkleBlock_traverseAndBuild 11 [1%nat] [3; 7; 8]%nat  (* height == 0; height-1 (x3) *)
  && lits_are lits_MerkleBlock_calcBlock 10 [4; 7]%nat []                 (* make(.., 0, n); i := uint32(0) *)
  && lits_are lits_NewMerkleBlockWithTxnSet 4 [0; 1]%nat []               (* make(.., 0, numTx) (x2) *)
  && lits_are lits_NewMerkleBlockWithFilter 4 [0; 1]%nat []
  && lits_are lits_TxInSet 0 [] [].
Definition bl_struct_ok : bool :=
  lits_are lits_merkleBlock_calcTreeWidth 2 [] []
  && lits_are lits_merkleBlock_calcHash 9 [0%nat] [1; 5; 6]%nat
  && lits_are lits_merkleBlock_traverseAndBuild 11 [1%nat] [3; 7; 8]%nat
  && lits_are lits_NewMerkleBlock 14 [0; 1; 8; 11]%nat [].                (* make (x3); i := uint32(0) *)
Definition pb_struct_ok : bool :=
  lits_are lits_PartialBlock_calcTreeWidth 2 [] []
  && lits_are lits_PartialBlock_traverseAndExtract 12 [0; 2]%nat [4; 8; 9]%nat   (* height == 0 (x2); height-1 (x3) *)
  && lits_are lits_NewMerkleBlockFromMsg 12 [1; 8; 9; 10; 11]%nat []     (* i := uint32(0); bitsUsed: 0; hashesUsed: 0; make(.., 0) (x2) *)
  && lits_are lits_PartialBlock_ExtractMatches 8 [] [].

(* ---------- the domain on which this file is the code ----------
   Three things the Go code does are NOT in the model; the property theorems (Props/C11.v, C12.v) carry
   the corresponding hypotheses, and the machine-translated ties (Tie/Kernels3_Merkle*.v) are proved
   under the same ones:
   (a) NewMerkleBlockFromMsg bounds its decoding loop by uint32(len(bits)) and ExtractMatches compares
       cursors with uint32(len(m.bits)) / uint32(len(m.finalHashes)): with len(Flags)*8 >= 2^32 (512 MB
       of flags; wire decoding allows maxTxPerBlock/8 bytes) the bound wraps (2^29 flag bytes: bound 0,
       every bit stays 0) whereas [bits_of_flags] decodes every byte and the model's cursors are [nat]s.
       [msg_in_domain]: len(Flags)*8 < 2^32 and len(Hashes) < 2^32.
   (b) calcBlock / bloom.NewMerkleBlock discard the error of wire's MsgMerkleBlock.AddTxHash, which
       refuses the hash when the message already holds maxTxPerBlock() = MaxBlockPayload()/10 + 1 of
       them (12800001 with the 128 MB limit of this bchd; the harness checks the formula and, in the
       thorough tier, the behaviour).  The models append every hash.  [add_tx_hash_cap]: the builder
       theorems assume at most that many transactions (a message never has more hashes than that).
   (c) traverseAndBuild indexes m.matchedBits[i] for i < m.numTx; [mb_is_parent]/[bl_is_parent] are total
       (a missing entry counts as 0).  The only constructors of the struct (the three exported
       builders) establish len(matchedBits) = len(allHashes) = numTx, and the theorems are about the
       exported builders ([mb_new_with_txnset], [mb_new_with_filter], [bl_new]), where the matched bits
       are built with exactly that length; nothing is claimed about traverseAndBuild on other structs. *)
Definition add_tx_hash_cap : N := 12800001.
Definition msg_in_domain (m : msg) : Prop :=
  N.of_nat (length (m_flags m)) * 8 < 2 ^ 32 /\ N.of_nat (length (m_hashes m)) < 2 ^ 32.

Fixpoint nseq (start : N) (len : nat) : list N :=
  match len with O => [] | S k => start :: nseq (start + 1) k end.

Section WithNodeHash.
Variable node_hash : hash -> hash -> hash.

(* ====================================================================== *)
(* merkleblock/encode.go                                                   *)
(* ====================================================================== *)

(* (m.numTx + (1 << height) - 1) >> height *)
Definition mb_tree_width (numTx height : N) : N :=
  wshr (wsub (wadd numTx (wshl (lit lits_MerkleBlock_calcTreeWidth 0) height))
             (lit lits_MerkleBlock_calcTreeWidth 1)) height.

Fixpoint mb_calc_hash (numTx : N) (all : list hash) (height : nat) (pos : N) : res hash :=
  match height with
  | O => nth_res all (N.to_nat pos)                                   (* m.allHashes[pos] *)
  | S h' =>
      do hl <- mb_calc_hash numTx all h' (wmul pos (lit lits_MerkleBlock_calcHash 2));;
      if wadd (wmul pos (lit lits_MerkleBlock_calcHash 3)) (lit lits_MerkleBlock_calcHash 4)
           <? mb_tree_width numTx (N.of_nat h')
      then do hr <- mb_calc_hash numTx all h'
                         (wadd (wmul pos (lit lits_MerkleBlock_calcHash 7)) (lit lits_MerkleBlock_calcHash 8));;
           Ok (node_hash hl hr)
      else Ok (node_hash hl hl)
  end.

(* for i := pos << height; i < (pos+1)<<height && i < m.numTx; i++ { isParent |= m.matchedBits[i] } *)
Definition mb_is_parent (numTx : N) (mbits : list N) (height pos : N) : N :=
  let lo := wshl pos height in
  let hi := wshl (wadd pos (lit lits_MerkleBlock_traverseAndBuild 0)) height in
  let stop := N.min hi numTx in
  fold_left N.lor (firstn (N.to_nat (stop - lo)) (skipn (N.to_nat lo) mbits)) 0.

(* state: (m.bits, m.finalHashes), both only appended to *)
Fixpoint mb_traverse_build (numTx : N) (all : list hash) (mbits : list N)
         (height : nat) (pos : N) (st : list N * list hash) : res (list N * list hash) :=
  let is_parent := mb_is_parent numTx mbits (N.of_nat height) pos in
  let bits' := fst st ++ [is_parent] in
  match height with
  | O => do h <- mb_calc_hash numTx all O pos;; Ok (bits', snd st ++ [h])
  | S h' =>
      if is_parent =? lit lits_MerkleBlock_traverseAndBuild 2 then
        do h <- mb_calc_hash numTx all (S h') pos;; Ok (bits', snd st ++ [h])
      else
        do st1 <- mb_traverse_build numTx all mbits h'
                    (wmul pos (lit lits_MerkleBlock_traverseAndBuild 4)) (bits', snd st);;
        if wadd (wmul pos (lit lits_MerkleBlock_traverseAndBuild 5)) (lit lits_MerkleBlock_traverseAndBuild 6)
             <? mb_tree_width numTx (N.of_nat h')
        then mb_traverse_build numTx all mbits h'
               (wadd (wmul pos (lit lits_MerkleBlock_traverseAndBuild 9)) (lit lits_MerkleBlock_traverseAndBuild 10)) st1
        else Ok st1
  end.

(* height := 0; for width(height) > 1 { height++ } *)
Fixpoint height_loop (tw : N -> N) (gt : N) (fuel : nat) (height : N) : res N :=
  match fuel with
  | O => Panic 9
  | S f => if gt <? tw height then height_loop tw gt f (wadd height 1) else Ok height
  end.
Definition height_fuel : nat := 34.

(* Flags[i/8] |= bits[i] << (i % 8), on a zeroed slice of (len(bits)+7)/8 bytes *)
Fixpoint pack_byte (j : N) (chunk : list N) : N :=
  match chunk with
  | [] => 0
  | b :: t => N.lor (N.shiftl b j mod 256) (pack_byte (j + 1) t)
  end.
Fixpoint pack_go (per : nat) (k : nat) (bits : list N) : list N :=
  match k with
  | O => []
  | S k' => pack_byte 0 (firstn per bits) :: pack_go per k' (skipn per bits)
  end.
Definition pack_bits (pad per per_idx : N) (bits : list N) : list N :=
  (* [per] of `/8` in the length, [per_idx] of `i/8` and `i%8` (the same literal three times) *)
  if negb (per =? per_idx) then [] (* not the code that was modelled; breaks the equation lemma *)
  else pack_go (N.to_nat per_idx) (N.to_nat ((N.of_nat (length bits) + pad) / per)) bits.

Definition mb_calc_block (header : list N) (numTx : N) (all : list hash) (mbits : list N) : res msg :=
  if negb mb_struct_ok then Panic 8 else
  do height <- height_loop (mb_tree_width numTx) (lit lits_MerkleBlock_calcBlock 1) height_fuel
                 (lit lits_MerkleBlock_calcBlock 0);;
  (* if m.numTx > 0 { m.traverseAndBuild(height, 0) } *)
  do st <- (if lit lits_MerkleBlock_calcBlock 2 <? numTx
            then mb_traverse_build numTx all mbits (N.to_nat height) (lit lits_MerkleBlock_calcBlock 3) ([], [])
            else Ok ([], []));;
  Ok (mkMsg header numTx (snd st)
        (if lit lits_MerkleBlock_calcBlock 8 =? lit lits_MerkleBlock_calcBlock 9
         then pack_bits (lit lits_MerkleBlock_calcBlock 5) (lit lits_MerkleBlock_calcBlock 6)
                        (lit lits_MerkleBlock_calcBlock 8) (fst st)
         else [])).

(* the loop over block.Transactions(): matchedBits and matchedIndices *)
Fixpoint matched_bits (one zero : N) (sel : list bool) : list N :=
  match sel with [] => [] | b :: t => (if b then one else zero) :: matched_bits one zero t end.
Fixpoint matched_indices (i : N) (sel : list bool) : list N :=
  match sel with
  | [] => []
  | b :: t => (if b then [u32 i] else []) ++ matched_indices (i + 1) t
  end.

Fixpoint tx_in_set (tx : hash) (set : list hash) : bool :=
  match set with [] => false | x :: t => if hash_eqb tx x then true else tx_in_set tx t end.

(* NewMerkleBlockWithTxnSet: leaves = tx.Hash() of the block's transactions in order *)
Definition mb_new_with_txnset (header : list N) (leaves : list hash) (txnset : list hash)
  : res (msg * list N) :=
  let numTx := u32 (N.of_nat (length leaves)) in
  let sel := map (fun h => tx_in_set h txnset) leaves in
  do m <- mb_calc_block header numTx leaves
            (matched_bits (lit lits_NewMerkleBlockWithTxnSet 2) (lit lits_NewMerkleBlockWithTxnSet 3) sel);;
  Ok (m, matched_indices 0 sel).

(* NewMerkleBlockWithFilter: matched_map i = bloom.GetMatchedIndices(block, filter)[i] *)
Definition mb_new_with_filter (header : list N) (leaves : list hash) (matched_map : nat -> bool)
  : res (msg * list N) :=
  let numTx := u32 (N.of_nat (length leaves)) in
  let sel := map matched_map (seq 0 (length leaves)) in
  do m <- mb_calc_block header numTx leaves
            (matched_bits (lit lits_NewMerkleBlockWithFilter 2) (lit lits_NewMerkleBlockWithFilter 3) sel);;
  Ok (m, matched_indices 0 sel).

(* ====================================================================== *)
(* bloom/merkleblock.go (the second builder)                               *)
(* ====================================================================== *)

Definition bl_tree_width (numTx height : N) : N :=
  wshr (wsub (wadd numTx (wshl (lit lits_merkleBlock_calcTreeWidth 0) height))
             (lit lits_merkleBlock_calcTreeWidth 1)) height.

Fixpoint bl_calc_hash (numTx : N) (all : list hash) (height : nat) (pos : N) : res hash :=
  match height with
  | O => nth_res all (N.to_nat pos)
  | S h' =>
      do hl <- bl_calc_hash numTx all h' (wmul pos (lit lits_merkleBlock_calcHash 2));;
      if wadd (wmul pos (lit lits_merkleBlock_calcHash 3)) (lit lits_merkleBlock_calcHash 4)
           <? bl_tree_width numTx (N.of_nat h')
      then do hr <- bl_calc_hash numTx all h'
                         (wadd (wmul pos (lit lits_merkleBlock_calcHash 7)) (lit lits_merkleBlock_calcHash 8));;
           Ok (node_hash hl hr)
      else Ok (node_hash hl hl)
  end.

Definition bl_is_parent (numTx : N) (mbits : list N) (height pos : N) : N :=
  let lo := wshl pos height in
  let hi := wshl (wadd pos (lit lits_merkleBlock_traverseAndBuild 0)) height in
  let stop := N.min hi numTx in
  fold_left N.lor (firstn (N.to_nat (stop - lo)) (skipn (N.to_nat lo) mbits)) 0.

Fixpoint bl_traverse_build (numTx : N) (all : list hash) (mbits : list N)
         (height : nat) (pos : N) (st : list N * list hash) : res (list N * list hash) :=
  let is_parent := bl_is_parent numTx mbits (N.of_nat height) pos in
  let bits' := fst st ++ [is_parent] in
  match height with
  | O => do h <- bl_calc_hash numTx all O pos;; Ok (bits', snd st ++ [h])
  | S h' =>
      if is_parent =? lit lits_merkleBlock_traverseAndBuild 2 then
        do h <- bl_calc_hash numTx all (S h') pos;; Ok (bits', snd st ++ [h])
      else
        do st1 <- bl_traverse_build numTx all mbits h'
                    (wmul pos (lit lits_merkleBlock_traverseAndBuild 4)) (bits', snd st);;
        if wadd (wmul pos (lit lits_merkleBlock_traverseAndBuild 5)) (lit lits_merkleBlock_traverseAndBuild 6)
             <? bl_tree_width numTx (N.of_nat h')
        then bl_traverse_build numTx all mbits h'
               (wadd (wmul pos (lit lits_merkleBlock_traverseAndBuild 9)) (lit lits_merkleBlock_traverseAndBuild 10)) st1
        else Ok st1
  end.

(* bloom.NewMerkleBlock *)
Definition bl_new (header : list N) (leaves : list hash) (matched_map : nat -> bool)
  : res (msg * list N) :=
  let numTx := u32 (N.of_nat (length leaves)) in
  let sel := map matched_map (seq 0 (length leaves)) in
  let mbits := matched_bits (lit lits_NewMerkleBlock 2) (lit lits_NewMerkleBlock 3) sel in
  if negb bl_struct_ok then Panic 8 else
  do height <- height_loop (bl_tree_width numTx) (lit lits_NewMerkleBlock 5) height_fuel (lit lits_NewMerkleBlock 4);;
  do st <- (if lit lits_NewMerkleBlock 6 <? numTx
            then bl_traverse_build numTx leaves mbits (N.to_nat height) (lit lits_NewMerkleBlock 7) ([], [])
            else Ok ([], []));;
  Ok (mkMsg header numTx (snd st)
        (if lit lits_NewMerkleBlock 12 =? lit lits_NewMerkleBlock 13
         then pack_bits (lit lits_NewMerkleBlock 9) (lit lits_NewMerkleBlock 10) (lit lits_NewMerkleBlock 12) (fst st)
         else []),
      matched_indices 0 sel).

(* ====================================================================== *)
(* merkleblock/decode.go                                                   *)
(* ====================================================================== *)

Definition pb_tree_width (numTx height : N) : N :=
  wshr (wsub (wadd numTx (wshl (lit lits_PartialBlock_calcTreeWidth 0) height))
             (lit lits_PartialBlock_calcTreeWidth 1)) height.

(* NewMerkleBlockFromMsg: bits[i] = (Flags[i/8] & (1 << (i%8))) == 0 ? 0 : 1, for i < len(Flags)*8 *)
Definition byte_bits (b : N) : list N :=
  map (fun j => if N.land b (N.shiftl (lit lits_NewMerkleBlockFromMsg 3) j mod 256) =? lit lits_NewMerkleBlockFromMsg 5
                then lit lits_NewMerkleBlockFromMsg 6 else lit lits_NewMerkleBlockFromMsg 7)
      (nseq 0 (N.to_nat (lit lits_NewMerkleBlockFromMsg 0))).
Definition bits_of_flags (flags : list N) : list N :=
  if (lit lits_NewMerkleBlockFromMsg 0 =? lit lits_NewMerkleBlockFromMsg 2)
     && (lit lits_NewMerkleBlockFromMsg 0 =? lit lits_NewMerkleBlockFromMsg 4)
  then flat_map byte_bits flags else [].

Record pblock := mkPB { pb_numTx : N; pb_hashes : list hash; pb_bits : list N }.
Definition new_from_msg (m : msg) : pblock :=
  mkPB (m_transactions m) (m_hashes m) (bits_of_flags (m_flags m)).

(* traversal state; [x_calls] is a ghost counter of calls to traverseAndExtract (cost theorem) *)
Record xstate := mkX {
  x_bad : bool; x_bits_used : nat; x_hashes_used : nat;
  x_matched : list (N * hash);      (* (matchedItems[k], matchedHashes[k]) *)
  x_calls : nat }.
Definition x_init : xstate := mkX false 0 0 [] 0.
Definition x_tick s := mkX (x_bad s) (x_bits_used s) (x_hashes_used s) (x_matched s) (S (x_calls s)).
Definition x_set_bad s := mkX true (x_bits_used s) (x_hashes_used s) (x_matched s) (x_calls s).
Definition x_inc_bits s := mkX (x_bad s) (S (x_bits_used s)) (x_hashes_used s) (x_matched s) (x_calls s).
Definition x_inc_hashes s := mkX (x_bad s) (x_bits_used s) (S (x_hashes_used s)) (x_matched s) (x_calls s).
Definition x_add_match s (pos : N) (h : hash) :=
  mkX (x_bad s) (x_bits_used s) (x_hashes_used s) (x_matched s ++ [(pos, h)]) (x_calls s).

(* the branch `height == 0 || parent == 0`: consume one hash *)
Definition take_hash (hashes : list hash) (at_leaf : bool) (parent pos : N) (s : xstate) : hash * xstate :=
  match nth_error hashes (x_hashes_used s) with
  | None => (zero_hash, x_set_bad s)                     (* hashesUsed >= len(finalHashes) *)
  | Some h =>
      let s := x_inc_hashes s in
      (h, if at_leaf && (parent =? lit lits_PartialBlock_traverseAndExtract 3) then x_add_match s pos h else s)
  end.

(* the guard `bitsUsed >= len(bits)` and the indexing bits[bitsUsed] it dominates are one [nth_error] *)
Fixpoint traverse_extract (numTx : N) (bits : list N) (hashes : list hash)
         (height : nat) (pos : N) (s : xstate) : hash * xstate :=
  let s := x_tick s in
  match nth_error bits (x_bits_used s) with
  | None => (zero_hash, x_set_bad s)
  | Some parent =>
      let s := x_inc_bits s in
      match height with
      | O => take_hash hashes true parent pos s
      | S h' =>
          if parent =? lit lits_PartialBlock_traverseAndExtract 1 then take_hash hashes false parent pos s
          else
            let '(hl, s1) := traverse_extract numTx bits hashes h'
                                 (wmul pos (lit lits_PartialBlock_traverseAndExtract 5)) s in
            if wadd (wmul pos (lit lits_PartialBlock_traverseAndExtract 6)) (lit lits_PartialBlock_traverseAndExtract 7)
                 <? pb_tree_width numTx (N.of_nat h')
            then
              let '(hr, s2) := traverse_extract numTx bits hashes h'
                                    (wadd (wmul pos (lit lits_PartialBlock_traverseAndExtract 10))
                                          (lit lits_PartialBlock_traverseAndExtract 11)) s1 in
              (node_hash hl hr, if hash_eqb hr hl then x_set_bad s2 else s2)
            else (node_hash hl hl, s1)
      end
  end.

(* ExtractMatches.  Error classes: 1 no transactions, 2 too many transactions, 3 more hashes than
   transactions, 4 fewer bits than hashes, 5 traversal set `bad`, 6 not all bits consumed (modulo
   byte padding), 7 not all hashes consumed.  Go returns nil for all of them; BadTree() tells 5
   from the rest.  [maxtx] is the package variable MaxTxnCount. *)
Definition extract_full (maxtx : N) (p : pblock) : res (hash * list (N * hash)) * xstate :=
  let numTx := pb_numTx p in
  if negb pb_struct_ok then (Panic 8, x_init) else
  if numTx =? lit lits_PartialBlock_ExtractMatches 0 then (Err 1, x_init) else
  if maxtx <? numTx then (Err 2, x_init) else
  let total := u32 (N.of_nat (length (pb_hashes p))) in
  if numTx <? total then (Err 3, x_init) else
  if u32 (N.of_nat (length (pb_bits p))) <? total then (Err 4, x_init) else
  match height_loop (pb_tree_width numTx) (lit lits_PartialBlock_ExtractMatches 2) height_fuel
                    (lit lits_PartialBlock_ExtractMatches 1) with
  | Ok height =>
      let '(root, s) := traverse_extract numTx (pb_bits p) (pb_hashes p) (N.to_nat height)
                          (lit lits_PartialBlock_ExtractMatches 3) x_init in
      if x_bad s then (Err 5, s) else
      if negb ((N.of_nat (x_bits_used s) + lit lits_PartialBlock_ExtractMatches 4) / lit lits_PartialBlock_ExtractMatches 5
               =? (N.of_nat (length (pb_bits p)) + lit lits_PartialBlock_ExtractMatches 6) / lit lits_PartialBlock_ExtractMatches 7)
      then (Err 6, s) else
      if negb (N.of_nat (x_hashes_used s) =? N.of_nat (length (pb_hashes p))) then (Err 7, s) else
      (Ok (root, x_matched s), s)
  | Err e => (Err e, x_init)
  | Panic k => (Panic k, x_init)
  end.

Definition extract (maxtx : N) (m : msg) : res (hash * list (N * hash)) :=
  fst (extract_full maxtx (new_from_msg m)).
Definition extract_calls (maxtx : N) (m : msg) : nat :=
  x_calls (snd (extract_full maxtx (new_from_msg m))).

End WithNodeHash.

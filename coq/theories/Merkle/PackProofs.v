(* Flag-bit packing: the builder's packing loop equals the specification's (LSB-first bytes, zero
   padded), and NewMerkleBlockFromMsg's unpacking inverts it up to the padding. *)
From BU Require Import Lib.Bytes Lib.PolyMod Gen.Xmerkleblock Gen.Xbloom Merkle.Merkle Merkle.PmtSpec
  Merkle.ExtractProofs.
From Coq Require Import ZifyBool ZifyN ZifyNat.

Local Open Scope N_scope.

Ltac enum_bools c H :=
  repeat match goal with
         | c : list bool |- _ => destruct c as [|[] c]; cbn [length] in H; try lia; try reflexivity
         end.

Lemma pack_byte_value c : (length c <= 8)%nat -> pack_byte 0 (map b2n c) = bits_value c.
Proof. intros H. enum_bools c H. Qed.

Lemma byte_bits_value c : (length c <= 8)%nat ->
  byte_bits_plain (bits_value c) = map b2n c ++ repeat 0 (8 - length c).
Proof. intros H. enum_bools c H. Qed.

Lemma pack_go_chunks : forall k fl, pack_go 8 k (map b2n fl) = pack_chunks k fl.
Proof.
  induction k as [|k IH]; intros fl; cbn [pack_go pack_chunks]; [reflexivity|].
  rewrite firstn_map, skipn_map, IH, pack_byte_value; [reflexivity|].
  rewrite firstn_length. lia.
Qed.

(* the packing of calcBlock / NewMerkleBlock with the literals 7, 8, 8, 8 of the source *)
Lemma pack_bits_spec fl : pack_bits 7 8 8 (map b2n fl) = pack_spec fl.
Proof.
  unfold pack_bits, pack_spec. cbn [N.eqb Pos.eqb negb]. rewrite map_length.
  change (N.to_nat 8) with 8%nat. rewrite pack_go_chunks. f_equal. lia.
Qed.

Lemma pack_chunks_length : forall k fl, length (pack_chunks k fl) = k.
Proof. induction k; intros; cbn [pack_chunks length]; auto. Qed.

Lemma pack_spec_length fl : length (pack_spec fl) = ((length fl + 7) / 8)%nat.
Proof. apply pack_chunks_length. Qed.

Lemma unpack_chunks : forall k fl, (length fl <= 8 * k)%nat ->
  flat_map byte_bits_plain (pack_chunks k fl) = map b2n fl ++ repeat 0 (8 * k - length fl).
Proof.
  induction k as [|k IH]; intros fl Hl.
  - destruct fl; [reflexivity|cbn in Hl; lia].
  - cbn [pack_chunks flat_map].
    rewrite byte_bits_value by (rewrite firstn_length; lia).
    rewrite IH by (rewrite skipn_length; lia).
    rewrite firstn_length, skipn_length.
    destruct (Nat.le_gt_cases 8 (length fl)) as [Hge|Hlt].
    + rewrite Nat.min_l by lia. cbn [Nat.sub repeat app]. rewrite app_nil_r.
      rewrite app_assoc, <- map_app, firstn_skipn. f_equal. f_equal. lia.
    + rewrite Nat.min_r by lia.
      rewrite firstn_all2, skipn_all2 by lia. cbn [map app].
      rewrite <- app_assoc, <- repeat_app. f_equal. f_equal. lia.
Qed.

(* decoding the packed flags gives the flag bits back, followed by fewer than 8 zero bits *)
Lemma unpack_pack fl :
  exists pad, bits_of_flags (pack_spec fl) = map b2n fl ++ pad /\ (length pad < 8)%nat.
Proof.
  rewrite bits_of_flags_eq. unfold pack_spec.
  exists (repeat 0 (8 * ((length fl + 7) / 8) - length fl)). split.
  - apply unpack_chunks. lia.
  - rewrite repeat_length. lia.
Qed.

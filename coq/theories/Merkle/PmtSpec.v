(* Specification of BIP37 partial merkle trees, independent of the Go code.

   BIP37 ("Partial Merkle branch format"): the merkle tree over the n transaction ids of a block has
   width(h) = ceil(n / 2^h) nodes at height h (height 0 = the transaction ids), a node at (h+1, p) has
   the children (h, 2p) and (h, 2p+1), the second of which is missing when 2p+1 >= width(h) and is then
   replaced by a copy of the first ("the last hash of an odd level is duplicated").  A *partial* tree
   is the result of a depth-first walk that emits one flag bit per visited node:
     - at a leaf (height 0): the bit says whether the transaction is matched; its hash is emitted;
     - at an inner node with bit 0: its hash is emitted and the subtree below is pruned;
     - at an inner node with bit 1: nothing is emitted, the walk descends into its children.
   The flag bits are packed eight to a byte, least significant bit first, zero padded.

   Here: the tree as an inductive type [pmt] with recursive definitions of its root, flag bits,
   hashes and matches; the shape a tree must have at position (h, p) of a block of n transactions;
   merkle paths (ordinary SPV verification); the textbook level-by-level merkle root; the canonical
   partial tree for a block and a selection.  No proofs in this file. *)
From BU Require Import Lib.Bytes Merkle.Merkle.

(* ceil(n / 2^h), in unbounded arithmetic *)
Definition width (n : N) (h : nat) : N := (n + 2 ^ N.of_nat h - 1) / 2 ^ N.of_nat h.

Inductive pmt :=
| Leaf (matched : bool) (h : hash)     (* height 0: flag = matched, hash = transaction id *)
| Pruned (h : hash)                    (* height > 0, flag 0: hash of the whole subtree *)
| Node1 (l : pmt)                      (* height > 0, flag 1, no right sibling below: right := left *)
| Node2 (l r : pmt).                   (* height > 0, flag 1 *)

Definition b2n (b : bool) : N := if b then 1 else 0.

(* order of reported / chosen (position, hash) pairs: by position in the block *)
Definition pos_lt (a b : N * hash) : Prop := fst a < fst b.

(* LSB-first value of up to eight flag bits; the packed flag bytes *)
Fixpoint bits_value (fl : list bool) : N :=
  match fl with [] => 0 | b :: t => b2n b + 2 * bits_value t end.
Fixpoint pack_chunks (k : nat) (fl : list bool) : list N :=
  match k with O => [] | S k' => bits_value (firstn 8 fl) :: pack_chunks k' (skipn 8 fl) end.
Definition pack_spec (fl : list bool) : list N := pack_chunks ((length fl + 7) / 8) fl.

Section Spec.
Variable node_hash : hash -> hash -> hash.

Fixpoint pmt_root (t : pmt) : hash :=
  match t with
  | Leaf _ h => h
  | Pruned h => h
  | Node1 l => node_hash (pmt_root l) (pmt_root l)
  | Node2 l r => node_hash (pmt_root l) (pmt_root r)
  end.

Fixpoint pmt_flags (t : pmt) : list bool :=
  match t with
  | Leaf m _ => [m]
  | Pruned _ => [false]
  | Node1 l => true :: pmt_flags l
  | Node2 l r => true :: pmt_flags l ++ pmt_flags r
  end.

Fixpoint pmt_hashes (t : pmt) : list hash :=
  match t with
  | Leaf _ h => [h]
  | Pruned h => [h]
  | Node1 l => pmt_hashes l
  | Node2 l r => pmt_hashes l ++ pmt_hashes r
  end.

(* matched leaves, left to right, with their position in the block; [pos] is the position of [t] at its height *)
Fixpoint pmt_matches (pos : N) (t : pmt) : list (N * hash) :=
  match t with
  | Leaf true h => [(pos, h)]
  | Leaf false _ => []
  | Pruned _ => []
  | Node1 l => pmt_matches (2 * pos) l
  | Node2 l r => pmt_matches (2 * pos) l ++ pmt_matches (2 * pos + 1) r
  end.

(* [t] has the shape of the node at height [h], position [pos] of a block with [n] transactions *)
Fixpoint shape (n : N) (h : nat) (pos : N) (t : pmt) : Prop :=
  match h, t with
  | O, Leaf _ _ => True
  | S h', Pruned _ => True
  | S h', Node1 l => ~ (2 * pos + 1 < width n h') /\ shape n h' (2 * pos) l
  | S h', Node2 l r => 2 * pos + 1 < width n h' /\ shape n h' (2 * pos) l /\ shape n h' (2 * pos + 1) r
  | _, _ => False
  end.

(* CVE-2012-2459: no inner node has two children with the same hash *)
Fixpoint no_equal_children (t : pmt) : Prop :=
  match t with
  | Leaf _ _ | Pruned _ => True
  | Node1 l => no_equal_children l
  | Node2 l r => pmt_root l <> pmt_root r /\ no_equal_children l /\ no_equal_children r
  end.

(* every descended-into node leads to a matched transaction (what a builder emits; extraction does
   not require it, nor does Bitcoin Core's) *)
Fixpoint has_match (t : pmt) : bool :=
  match t with
  | Leaf m _ => m
  | Pruned _ => false
  | Node1 l => has_match l
  | Node2 l r => has_match l || has_match r
  end.
Fixpoint canonical (t : pmt) : Prop :=
  match t with
  | Leaf _ _ | Pruned _ => True
  | Node1 l => has_match l = true /\ canonical l
  | Node2 l r => has_match l || has_match r = true /\ canonical l /\ canonical r
  end.

(* ---------- merkle paths: SPV verification of one transaction ---------- *)
(* path element k is the sibling at level k ([None]: the node is the last of an odd level and is
   paired with itself); [pos] is the position at the current level *)
Definition path_step (pos : N) (cur : hash) (s : option hash) : hash :=
  match s with
  | None => node_hash cur cur
  | Some sib => if N.even pos then node_hash cur sib else node_hash sib cur
  end.
Fixpoint path_root (pos : N) (cur : hash) (path : list (option hash)) : hash :=
  match path with
  | [] => cur
  | s :: rest => path_root (pos / 2) (path_step pos cur s) rest
  end.
Definition path_step_ok (n : N) (lvl : nat) (pos : N) (s : option hash) : Prop :=
  match s with
  | None => N.even pos = true /\ ~ (pos + 1 < width n lvl)
  | Some _ => N.even pos = false \/ pos + 1 < width n lvl
  end.
Fixpoint path_ok (n : N) (lvl : nat) (pos : N) (path : list (option hash)) : Prop :=
  match path with
  | [] => True
  | s :: rest => path_step_ok n lvl pos s /\ path_ok n (S lvl) (pos / 2) rest
  end.

(* transaction [h] is at position [pos] of a block of [n] transactions whose merkle root is [root] *)
Definition has_merkle_path (n : N) (height : nat) (root : hash) (pos : N) (h : hash) : Prop :=
  pos < n /\ exists path, length path = height /\ path_ok n 0 pos path /\ path_root pos h path = root.

(* ---------- the textbook merkle root ---------- *)
Fixpoint level (l : list hash) : list hash :=
  match l with
  | [] => []
  | [x] => [node_hash x x]
  | x :: y :: t => node_hash x y :: level t
  end.
Definition levels (h : nat) (l : list hash) : list hash := Nat.iter h level l.

Fixpoint mr_loop (fuel : nat) (l : list hash) : hash :=
  match fuel with
  | O => hd zero_hash l
  | S f => match l with [] => zero_hash | [x] => x | _ => mr_loop f (level l) end
  end.
Definition merkle_root (leaves : list hash) : hash := mr_loop (length leaves) leaves.

(* ---------- the canonical partial merkle tree of (leaves, selection) ---------- *)
Section Canonical.
Variable leaves : list hash.
Variable sel : list bool.          (* sel[i]: transaction i is chosen; missing entries = not chosen *)
Let n : N := N.of_nat (length leaves).

Definition sub_hash (h : nat) (pos : N) : hash := nth (N.to_nat pos) (levels h leaves) zero_hash.
Definition sel_at (i : nat) : bool := nth i sel false.
(* some chosen transaction below node (h, pos): indices pos*2^h .. (pos+1)*2^h - 1 *)
Definition any_sel (h : nat) (pos : N) : bool :=
  existsb sel_at (seq (N.to_nat (pos * 2 ^ N.of_nat h)) (N.to_nat (2 ^ N.of_nat h))).

Fixpoint spec_tree (h : nat) (pos : N) : pmt :=
  match h with
  | O => Leaf (sel_at (N.to_nat pos)) (sub_hash 0 pos)
  | S h' =>
      if any_sel (S h') pos then
        if 2 * pos + 1 <? width n h'
        then Node2 (spec_tree h' (2 * pos)) (spec_tree h' (2 * pos + 1))
        else Node1 (spec_tree h' (2 * pos))
      else Pruned (sub_hash (S h') pos)
  end.

(* the chosen transactions with their positions, in block order *)
Fixpoint chosen_from (i : N) (ls : list hash) (ss : list bool) : list (N * hash) :=
  match ls, ss with
  | l :: ls', s :: ss' => (if s then [(i, l)] else []) ++ chosen_from (i + 1) ls' ss'
  | _, _ => []
  end.
Definition chosen : list (N * hash) := chosen_from 0 leaves sel.

End Canonical.

(* height of the tree over n leaves: the least h with width n h <= 1 *)
Definition is_height (n : N) (h : nat) : Prop :=
  width n h <= 1 /\ forall h', (h' < h)%nat -> 1 < width n h'.

(* the canonical merkle-block message *)
Definition spec_msg (header : list N) (leaves : list hash) (sel : list bool) (height : nat) : msg :=
  let t := spec_tree leaves sel height 0 in
  mkMsg header (N.of_nat (length leaves)) (pmt_hashes t) (pack_spec (pmt_flags t)).

End Spec.

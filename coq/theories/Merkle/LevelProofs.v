(* The textbook level-by-level merkle tree: length and elements of each level, the root, and
   distinctness of the nodes of a level under injective node hashing. *)
From BU Require Import Lib.Bytes Merkle.Merkle Merkle.PmtSpec Merkle.MerkleArith.
From Coq Require Import ZifyBool ZifyN ZifyNat.

Local Open Scope N_scope.

Section WithNodeHash.
Variable node_hash : hash -> hash -> hash.
Notation level := (level node_hash).
Notation levels := (levels node_hash).

(* induction two elements at a time *)
Lemma list_ind2 {A} (P : list A -> Prop) :
  P [] -> (forall x, P [x]) -> (forall x y t, P t -> P (x :: y :: t)) -> forall l, P l.
Proof.
  intros H0 H1 H2. fix IH 1. intros [|x [|y t]]; [exact H0|apply H1|apply H2, IH].
Qed.

Lemma level_length l : length (level l) = ((length l + 1) / 2)%nat.
Proof.
  induction l as [|x|x y t IH] using list_ind2; [reflexivity|reflexivity|].
  cbn [level length]. rewrite IH.
  replace (S (S (length t)) + 1)%nat with ((length t + 1) + 1 * 2)%nat by lia.
  rewrite Nat.div_add by discriminate. lia.
Qed.

Lemma level_nth l : forall p,
  (2 * p + 1 < length l)%nat ->
  nth p (level l) zero_hash = node_hash (nth (2 * p) l zero_hash) (nth (2 * p + 1) l zero_hash).
Proof.
  induction l as [|x|x y t IH] using list_ind2; intros p Hp; cbn [length] in Hp; try lia.
  destruct p as [|p].
  - reflexivity.
  - cbn [level]. replace (2 * S p)%nat with (S (S (2 * p))) by lia.
    cbn [nth Nat.add]. rewrite IH by lia. replace (2 * p + 1)%nat with (S (2 * p)) by lia. reflexivity.
Qed.

Lemma level_nth_last l : forall p,
  (2 * p + 1 = length l)%nat ->
  nth p (level l) zero_hash = node_hash (nth (2 * p) l zero_hash) (nth (2 * p) l zero_hash).
Proof.
  induction l as [|x|x y t IH] using list_ind2; intros p Hp; cbn [length] in Hp; try lia.
  - assert (p = 0)%nat as -> by lia. reflexivity.
  - destruct p as [|p]; [lia|].
    cbn [level]. replace (2 * S p)%nat with (S (S (2 * p))) by lia.
    cbn [nth]. apply IH. lia.
Qed.

Lemma levels_S h l : levels (S h) l = level (levels h l).
Proof. reflexivity. Qed.

Lemma levels_S_inner h l : levels (S h) l = levels h (level l).
Proof.
  unfold PmtSpec.levels. induction h as [|h IH]; [reflexivity|].
  change (level (Nat.iter (S h) level l) = level (Nat.iter h level (level l))). rewrite IH. reflexivity.
Qed.

Lemma levels_length l h : N.of_nat (length (levels h l)) = width (N.of_nat (length l)) h.
Proof.
  induction h as [|h IH].
  - rewrite width_0. reflexivity.
  - rewrite levels_S, level_length, width_S, <- IH. lia.
Qed.

(* ---------- the root ---------- *)
Lemma mr_loop_levels : forall k l fuel,
  (forall j, (j < k)%nat -> (1 < length (levels j l))%nat) ->
  length (levels k l) = 1%nat -> (length l <= fuel)%nat ->
  mr_loop node_hash fuel l = hd zero_hash (levels k l).
Proof.
  induction k as [|k IH]; intros l fuel Hbelow Hlast Hfuel.
  - cbn in Hlast. destruct l as [|x [|y t]]; try discriminate.
    destruct fuel; reflexivity.
  - pose proof (Hbelow 0%nat ltac:(lia)) as H0. cbn in H0.
    destruct fuel as [|f]; [lia|].
    destruct l as [|x [|y t]]; cbn [length] in H0; try lia.
    cbn [mr_loop]. rewrite levels_S_inner. apply IH.
    + intros j Hj. rewrite <- levels_S_inner. apply Hbelow. lia.
    + rewrite <- levels_S_inner. exact Hlast.
    + rewrite level_length. cbn [length] in *.
      lia.
Qed.

Lemma merkle_root_levels leaves H :
  leaves <> [] -> is_height (N.of_nat (length leaves)) H ->
  merkle_root node_hash leaves = nth 0 (levels H leaves) zero_hash.
Proof.
  intros Hne [Hle Hbelow]. unfold merkle_root.
  assert (0 < N.of_nat (length leaves)) as Hpos by (destruct leaves; [contradiction|cbn; lia]).
  pose proof (width_pos _ H Hpos) as Hw.
  rewrite (mr_loop_levels H).
  - destruct (levels H leaves); reflexivity.
  - intros j Hj. apply Hbelow in Hj. rewrite <- levels_length in Hj. lia.
  - rewrite <- levels_length in Hle, Hw. lia.
  - lia.
Qed.

(* ---------- distinct nodes on every level ---------- *)
Hypothesis node_hash_inj : forall a b c d, node_hash a b = node_hash c d -> a = c /\ b = d.

Lemma level_in z l : In z (level l) -> exists a b, z = node_hash a b /\ In a l.
Proof.
  induction l as [|x|x y t IH] using list_ind2; cbn [level In]; intros H.
  - contradiction.
  - destruct H as [<-|[]]. exists x, x. cbn. auto.
  - destruct H as [<-|H].
    + exists x, y. cbn. auto.
    + destruct (IH H) as (a & b & -> & Hin). exists a, b. cbn. auto.
Qed.

Lemma level_nodup l : NoDup l -> NoDup (level l).
Proof.
  induction l as [|x|x y t IH] using list_ind2; cbn [level]; intros Hnd.
  - constructor.
  - constructor; [intros []|constructor].
  - inversion Hnd as [|? ? Hx Hnd']; subst. inversion Hnd' as [|? ? Hy Hnd'']; subst.
    constructor; [|apply IH; exact Hnd''].
    intros Hin. apply level_in in Hin as (a & b & Heq & Ha).
    apply node_hash_inj in Heq as [-> _]. apply Hx. right. exact Ha.
Qed.

Lemma levels_nodup l : NoDup l -> forall h, NoDup (levels h l).
Proof. intros Hnd. induction h as [|h IH]; [exact Hnd|]. rewrite levels_S. apply level_nodup. exact IH. Qed.

End WithNodeHash.

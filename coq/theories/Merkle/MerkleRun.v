(* Shared by the correspondence drivers Run_C11 / Run_C12: the instantiation of the section
   variable [node_hash] (blockchain.HashMerkleBranches) and comparison helpers.

   [node_hash_run tbl] is double SHA-256 of the 64-byte concatenation computed inside Coq
   (Lib/Sha256.v), short-circuited by an oracle table [tbl] of (left, right, result) triples the
   harness may pass for big trees (about 50 ms per node hash in the VM otherwise).  A pair missing
   from the table is computed in Coq, so a table can speed a case up but a case without a table is
   self-contained; every run also has [NodeHash] cases comparing the two directly. *)
From BU Require Export Lib.Bytes.
From BU Require Import Lib.Sha256 Merkle.Merkle.

Definition table := list (hash * hash * hash).

Fixpoint tbl_lookup (tbl : table) (l r : hash) : option hash :=
  match tbl with
  | [] => None
  | (a, b, o) :: t => if list_eqb a l && list_eqb b r then Some o else tbl_lookup t l r
  end.

Definition node_hash_run (tbl : table) (l r : hash) : hash :=
  match tbl_lookup tbl l r with
  | Some o => o
  | None => sha256d (l ++ r)
  end.

Fixpoint hashes_eqb (a b : list hash) : bool :=
  match a, b with
  | [], [] => true
  | x :: a', y :: b' => list_eqb x y && hashes_eqb a' b'
  | _, _ => false
  end.

Fixpoint matches_eqb (a b : list (N * hash)) : bool :=
  match a, b with
  | [], [] => true
  | (i, x) :: a', (j, y) :: b' => (i =? j) && list_eqb x y && matches_eqb a' b'
  | _, _ => false
  end.

Definition msg_eqb (a b : msg) : bool :=
  list_eqb (m_header a) (m_header b) && (m_transactions a =? m_transactions b)
  && hashes_eqb (m_hashes a) (m_hashes b) && list_eqb (m_flags a) (m_flags b).

Fixpoint mism_with {C} (check : C -> bool) (i : nat) (cs : list C) : list nat :=
  match cs with
  | [] => []
  | c :: t => if check c then mism_with check (S i) t else i :: mism_with check (S i) t
  end.

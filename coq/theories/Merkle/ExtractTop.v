(* Top-level theorems about ExtractMatches (C12): soundness against arbitrary messages, the
   rejection rules, the cost bound. *)
From BU Require Import Lib.Bytes Lib.PolyMod Gen.Xmerkleblock Merkle.Merkle Merkle.PmtSpec Merkle.MerkleArith
  Merkle.ExtractProofs Merkle.PmtProofs.
From Coq Require Import ZifyBool ZifyN ZifyNat.

Local Open Scope N_scope.

Section WithNodeHash.
Variable node_hash : hash -> hash -> hash.
Notation extract := (extract node_hash).
Notation extract_full := (extract_full node_hash).
Notation TE := (traverse_extract node_hash).
Notation bu := x_bits_used.
Notation hu := x_hashes_used.

(* ExtractMatches with the literals of the source evaluated *)
Lemma extract_full_eq maxtx p :
  extract_full maxtx p =
  let numTx := pb_numTx p in
  if numTx =? 0 then (Err 1, x_init) else
  if maxtx <? numTx then (Err 2, x_init) else
  let total := u32 (N.of_nat (length (pb_hashes p))) in
  if numTx <? total then (Err 3, x_init) else
  if u32 (N.of_nat (length (pb_bits p))) <? total then (Err 4, x_init) else
  match height_loop (tw numTx) 1 height_fuel 0 with
  | Ok height =>
      let '(root, s) := TE numTx (pb_bits p) (pb_hashes p) (N.to_nat height) 0 x_init in
      if x_bad s then (Err 5, s) else
      if negb ((N.of_nat (bu s) + 7) / 8 =? (N.of_nat (length (pb_bits p)) + 7) / 8) then (Err 6, s) else
      if negb (N.of_nat (hu s) =? N.of_nat (length (pb_hashes p))) then (Err 7, s) else
      (Ok (root, x_matched s), s)
  | Err e => (Err e, x_init)
  | Panic k => (Panic k, x_init)
  end.
Proof. reflexivity. Qed.

(* what acceptance means, in terms of the specification *)
Definition accepted_as (m : msg) (H : nat) (t : pmt) (pad : list N) (root : hash) (ms : list (N * hash)) : Prop :=
  let n := m_transactions m in
  is_height n H /\ shape n H 0 t /\
  bits_of_flags (m_flags m) = map b2n (pmt_flags t) ++ pad /\ (length pad < 8)%nat /\
  m_hashes m = pmt_hashes t /\
  no_equal_children node_hash t /\
  root = pmt_root node_hash t /\ ms = pmt_matches 0 t.

Theorem extract_sound maxtx m root ms :
  maxtx < 2 ^ 31 ->
  extract maxtx m = Ok (root, ms) ->
  1 <= m_transactions m <= maxtx /\
  (length (m_hashes m) <= N.to_nat (m_transactions m))%nat /\
  exists H t pad,
    accepted_as m H t pad root ms /\
    Forall (fun ph => has_merkle_path node_hash (m_transactions m) H root (fst ph) (snd ph)) ms.
Proof.
  intros Hmax. unfold Merkle.extract. rewrite extract_full_eq. unfold new_from_msg.
  cbn [pb_numTx pb_hashes pb_bits]. cbv zeta.
  set (n := m_transactions m). set (bits := bits_of_flags (m_flags m)).
  destruct (n =? 0) eqn:E0; [discriminate|]. apply N.eqb_neq in E0.
  destruct (maxtx <? n) eqn:E1; [discriminate|]. apply N.ltb_ge in E1.
  destruct (n <? u32 _) eqn:E3; [discriminate|]. apply N.ltb_ge in E3.
  destruct (u32 _ <? u32 _) eqn:E4; [discriminate|].
  assert (n < 2 ^ 31) as Hn by lia.
  destruct (calc_height_ok n Hn) as (H & HH & HH31 & Hheight). rewrite HH, Nat2N.id.
  destruct (TE n bits (m_hashes m) H 0 x_init) as [r s] eqn:ET.
  destruct (x_bad s) eqn:Ebad; [discriminate|].
  destruct (negb (_ =? _)) eqn:E6; [discriminate|]. apply negb_false_iff, N.eqb_eq in E6.
  destruct (negb (N.of_nat (hu s) =? _)) eqn:E7; [discriminate|]. apply negb_false_iff, N.eqb_eq in E7.
  cbn [fst]. intros Hok. inversion Hok; subst r ms; clear Hok.
  assert (0 < width n H) as Hpos by (apply width_pos; lia).
  destruct (te_sound node_hash n bits (m_hashes m) Hn (bits_of_flags_01 _) H 0 x_init root s HH31 Hpos ET Ebad)
    as (_ & t & Hshape & Fb & Ub & Fh & Uh & Hroot & Hm & Hne).
  cbn [x_init bu hu x_matched skipn app Nat.add] in *.
  assert (length (m_hashes m) = length (pmt_hashes t)) as Hlen by lia.
  assert (skipn (hu s) (m_hashes m) = []) as Hrest by (apply skipn_all2; lia).
  rewrite Hrest, app_nil_r in Fh.
  split; [lia|]. split.
  { (* hashes <= transactions *)
    pose proof (shape_hashes_le n H 0 t Hpos Hshape) as Hle. lia. }
  exists H, t, (skipn (bu s) bits). split.
  - unfold accepted_as. fold n bits. repeat split; auto.
    + apply Hheight.
    + apply Hheight.
    + (* padding shorter than a byte *)
      assert (length (skipn (bu s) bits) = (length bits - bu s)%nat) as -> by apply skipn_length.
      unfold bits in *. rewrite bits_of_flags_length in *. lia.
  - subst root. rewrite Hm. apply matches_merkle_paths; [lia|exact Hshape].
Qed.

(* conversely: everything that has the accepted form is accepted (so acceptance is characterised exactly) *)
Theorem extract_complete maxtx m H t pad :
  maxtx < 2 ^ 31 ->
  1 <= m_transactions m <= maxtx ->
  N.of_nat (length (m_flags m)) * 8 < 2 ^ 32 ->
  accepted_as m H t pad (pmt_root node_hash t) (pmt_matches 0 t) ->
  extract maxtx m = Ok (pmt_root node_hash t, pmt_matches 0 t).
Proof.
  intros Hmax Hn Hfl (Hheight & Hshape & Hbits & Hpad & Hhashes & Hne & _ & _).
  unfold Merkle.extract. rewrite extract_full_eq. unfold new_from_msg.
  cbn [pb_numTx pb_hashes pb_bits]. cbv zeta.
  set (n := m_transactions m) in *. set (bits := bits_of_flags (m_flags m)) in *.
  assert (n < 2 ^ 31) as Hn31 by lia.
  assert (0 < width n H) as Hpos by (apply width_pos; lia).
  pose proof (shape_hashes_le n H 0 t Hpos Hshape) as Hle.
  pose proof (flags_ge_hashes t) as Hge.
  assert (length bits = (8 * length (m_flags m))%nat) as Hlb by apply bits_of_flags_length.
  assert (length bits = (length (pmt_flags t) + length pad)%nat) as Hlb2.
  { rewrite Hbits, app_length, map_length. reflexivity. }
  change (2 ^ 31) with 2147483648 in *. change (2 ^ 32) with 4294967296 in *.
  rewrite (u32_small (N.of_nat (length (m_hashes m)))) by (rewrite Hhashes; change (2 ^ 32) with 4294967296; lia).
  rewrite (u32_small (N.of_nat (length bits))) by (change (2 ^ 32) with 4294967296; lia).
  assert ((n =? 0) = false) as -> by (apply N.eqb_neq; lia).
  assert ((maxtx <? n) = false) as -> by (apply N.ltb_ge; lia).
  assert ((n <? N.of_nat (length (m_hashes m))) = false) as -> by (apply N.ltb_ge; rewrite Hhashes; lia).
  assert ((N.of_nat (length bits) <? N.of_nat (length (m_hashes m))) = false) as -> by (apply N.ltb_ge; rewrite Hhashes; lia).
  destruct (calc_height_ok n Hn31) as (H' & HH & HH31 & Hheight'). rewrite HH, Nat2N.id.
  assert (H' = H) as -> by (eapply is_height_unique; eauto).
  destruct (te_complete node_hash n bits (m_hashes m) Hn31 H 0 t x_init pad [] HH31 Hpos Hshape Hne) as [c Hc].
  { cbn [x_init bu skipn]. exact Hbits. }
  { cbn [x_init hu skipn]. rewrite app_nil_r. exact Hhashes. }
  rewrite Hc. cbn [x_bad x_init bu hu x_matched Nat.add app fst].
  assert (((N.of_nat (length (pmt_flags t)) + 7) / 8 =? (N.of_nat (length bits) + 7) / 8) = true) as ->.
  { apply N.eqb_eq. lia. }
  rewrite Hhashes, N.eqb_refl. reflexivity.
Qed.

(* ---------- the rejection rules ---------- *)
Theorem extract_rejects_zero_transactions maxtx m :
  m_transactions m = 0 -> extract maxtx m = Err 1.
Proof.
  intros H0. unfold Merkle.extract. rewrite extract_full_eq. unfold new_from_msg. cbn [pb_numTx]. cbv zeta.
  rewrite H0. reflexivity.
Qed.

Theorem extract_rejects_too_many_transactions maxtx m :
  maxtx < m_transactions m -> extract maxtx m = Err 2.
Proof.
  intros Hgt. unfold Merkle.extract. rewrite extract_full_eq. unfold new_from_msg. cbn [pb_numTx]. cbv zeta.
  assert ((m_transactions m =? 0) = false) as -> by (apply N.eqb_neq; lia).
  assert ((maxtx <? m_transactions m) = true) as -> by (apply N.ltb_lt; lia).
  reflexivity.
Qed.

Section Rules.
Variable maxtx : N.
Hypothesis maxtx_small : maxtx < 2 ^ 31.
Variable m : msg.
Notation n := (m_transactions m).

Lemma rejects_by (P : Prop) :
  (forall root ms H t pad, accepted_as m H t pad root ms ->
     (length (m_hashes m) <= N.to_nat n)%nat -> P -> False) ->
  P -> forall r, extract maxtx m <> Ok r.
Proof.
  intros Hc HP [root ms] Hok.
  destruct (extract_sound maxtx m root ms maxtx_small Hok) as (_ & Hle & H & t & pad & Hacc & _).
  eapply Hc; eauto.
Qed.

Theorem extract_rejects_more_hashes_than_transactions :
  (N.to_nat n < length (m_hashes m))%nat -> forall r, extract maxtx m <> Ok r.
Proof. apply rejects_by. intros root ms H t pad _ Hle Hgt. lia. Qed.

Theorem extract_rejects_fewer_bits_than_hashes :
  (8 * length (m_flags m) < length (m_hashes m))%nat -> forall r, extract maxtx m <> Ok r.
Proof.
  apply rejects_by. intros root ms H t pad (_ & _ & Hbits & _ & Hh & _) _ Hlt.
  pose proof (flags_ge_hashes t) as Hge.
  assert (length (bits_of_flags (m_flags m)) = (8 * length (m_flags m))%nat) as Hlb by apply bits_of_flags_length.
  rewrite Hbits, app_length, map_length in Hlb. rewrite Hh in Hlt. lia.
Qed.

(* The remaining rules are about the traversal.  Each is stated for a message whose flag bits and
   hashes start with (a prefix of) the serialisation of some well-shaped tree [t] (height [H] of the
   declared transaction count), which is the situation the rule is about. *)
Variable H : nat.
Hypothesis H_height : is_height n H.
Variable t : pmt.
Hypothesis t_shape : shape n H 0 t.

Lemma accepted_height root ms H' t' pad : accepted_as m H' t' pad root ms -> H' = H.
Proof. intros (Hh & _). eapply is_height_unique; eauto. Qed.

(* the flag bits end before the tree is complete *)
Theorem extract_rejects_bits_exhausted more :
  map b2n (pmt_flags t) = bits_of_flags (m_flags m) ++ more -> more <> [] ->
  forall r, extract maxtx m <> Ok r.
Proof.
  intros Hpre Hmore. apply (rejects_by True); [|exact I].
  intros root ms H' t' pad Hacc _ _. pose proof (accepted_height _ _ _ _ _ Hacc) as ->.
  destruct Hacc as (_ & Hs' & Hbits & _).
  rewrite Hbits, <- app_assoc in Hpre.
  rewrite <- (app_nil_r (map b2n (pmt_flags t))) in Hpre.
  destruct (flags_prefix_free n H 0 t t' [] (pad ++ more) t_shape Hs' Hpre) as [_ Hr].
  symmetry in Hr. apply app_eq_nil in Hr as [_ Hr]. contradiction.
Qed.

(* the hashes end before the tree is complete *)
Theorem extract_rejects_hashes_exhausted rest :
  bits_of_flags (m_flags m) = map b2n (pmt_flags t) ++ rest ->
  (length (m_hashes m) < length (pmt_hashes t))%nat ->
  forall r, extract maxtx m <> Ok r.
Proof.
  intros Hpre Hlt. apply (rejects_by True); [|exact I].
  intros root ms H' t' pad Hacc _ _. pose proof (accepted_height _ _ _ _ _ Hacc) as ->.
  destruct Hacc as (_ & Hs' & Hbits & _ & Hh & _).
  rewrite Hbits in Hpre.
  destruct (flags_prefix_free n H 0 t' t pad rest Hs' t_shape Hpre) as [He _].
  apply erase_hashes_length in He. rewrite Hh in Hlt. lia.
Qed.

(* a hash is left over *)
Theorem extract_rejects_unused_hash rest :
  bits_of_flags (m_flags m) = map b2n (pmt_flags t) ++ rest ->
  (length (pmt_hashes t) < length (m_hashes m))%nat ->
  forall r, extract maxtx m <> Ok r.
Proof.
  intros Hpre Hlt. apply (rejects_by True); [|exact I].
  intros root ms H' t' pad Hacc _ _. pose proof (accepted_height _ _ _ _ _ Hacc) as ->.
  destruct Hacc as (_ & Hs' & Hbits & _ & Hh & _).
  rewrite Hbits in Hpre.
  destruct (flags_prefix_free n H 0 t' t pad rest Hs' t_shape Hpre) as [He _].
  apply erase_hashes_length in He. rewrite Hh in Hlt. lia.
Qed.

(* a whole byte of flag bits is left over *)
Theorem extract_rejects_unused_flag_byte rest :
  bits_of_flags (m_flags m) = map b2n (pmt_flags t) ++ rest ->
  (8 <= length rest)%nat ->
  forall r, extract maxtx m <> Ok r.
Proof.
  intros Hpre Hlen. apply (rejects_by True); [|exact I].
  intros root ms H' t' pad Hacc _ _. pose proof (accepted_height _ _ _ _ _ Hacc) as ->.
  destruct Hacc as (_ & Hs' & Hbits & Hpad & _).
  rewrite Hbits in Hpre.
  destruct (flags_prefix_free n H 0 t' t pad rest Hs' t_shape Hpre) as [_ Hr]. subst. lia.
Qed.

(* CVE-2012-2459: an inner node whose two children have the same hash *)
Theorem extract_rejects_equal_children restb resth :
  bits_of_flags (m_flags m) = map b2n (pmt_flags t) ++ restb ->
  m_hashes m = pmt_hashes t ++ resth ->
  ~ no_equal_children node_hash t ->
  forall r, extract maxtx m <> Ok r.
Proof.
  intros Hpre Hhp Hneq. apply (rejects_by True); [|exact I].
  intros root ms H' t' pad Hacc _ _. pose proof (accepted_height _ _ _ _ _ Hacc) as ->.
  destruct Hacc as (_ & Hs' & Hbits & _ & Hh & Hne & _).
  rewrite Hbits in Hpre. rewrite Hh in Hhp. rewrite <- (app_nil_r (pmt_hashes t')) in Hhp.
  destruct (parse_unique n H 0 t' t pad restb [] resth Hs' t_shape Hpre Hhp) as [-> _]. contradiction.
Qed.

End Rules.

(* ---------- cost ---------- *)
Theorem extract_cost maxtx m :
  (extract_calls node_hash maxtx m <= 2 * (8 * length (m_flags m)) + 1)%nat.
Proof.
  unfold extract_calls. rewrite extract_full_eq. unfold new_from_msg. cbn [pb_numTx pb_hashes pb_bits]. cbv zeta.
  destruct (_ =? 0); [cbn; lia|].
  destruct (maxtx <? _); [cbn; lia|].
  destruct (_ <? u32 _); [cbn; lia|].
  destruct (u32 _ <? u32 _); [cbn; lia|].
  destruct (height_loop _ _ _ _) as [height|e|k]; [|cbn; lia|cbn; lia].
  destruct (TE _ _ _ _ _ _) as [r s] eqn:ET.
  apply te_frame in ET as (_ & _ & Hl & Hc & _).
  rewrite bits_of_flags_length in Hl. cbn [x_init bu x_calls] in *.
  assert (x_calls (snd (if x_bad s then (@Err (hash * list (N * hash)) 5, s)
     else if negb ((N.of_nat (bu s) + 7) / 8 =? (N.of_nat (length (bits_of_flags (m_flags m))) + 7) / 8) then (Err 6, s)
     else if negb (N.of_nat (hu s) =? N.of_nat (length (m_hashes m))) then (Err 7, s) else (Ok (r, x_matched s), s))) = x_calls s) as ->.
  { destruct (x_bad s); [reflexivity|]. destruct (negb _); [reflexivity|]. destruct (negb _); reflexivity. }
  lia.
Qed.

(* ExtractMatches never panics, whatever the message (the height loop cannot run out of fuel: the
   uint32 width is 0 from height 32 on; all indexing is guarded) *)
Theorem extract_no_panic maxtx m : is_panic (extract maxtx m) = false.
Proof.
  unfold Merkle.extract. rewrite extract_full_eq. unfold new_from_msg. cbn [pb_numTx pb_hashes pb_bits]. cbv zeta.
  destruct (_ =? 0); [reflexivity|].
  destruct (maxtx <? _); [reflexivity|].
  destruct (_ <? u32 _); [reflexivity|].
  destruct (u32 _ <? u32 _); [reflexivity|].
  destruct (height_loop_terminates (m_transactions m) height_fuel 0) as (r & Hr & _);
    [unfold height_fuel; cbn; lia|lia|].
  rewrite Hr. destruct (TE _ _ _ _ _ _) as [root s].
  destruct (x_bad s); [reflexivity|]. destruct (negb _); [reflexivity|]. destruct (negb _); reflexivity.
Qed.

(* recursion depth = height + 1, and the height is logarithmic in the accepted transaction count *)
Theorem extract_depth maxtx n k :
  maxtx < 2 ^ 31 -> n <= maxtx -> maxtx <= 2 ^ N.of_nat k ->
  exists H : nat, height_loop (pb_tree_width n) 1 height_fuel 0 = Ok (N.of_nat H) /\ (H <= k)%nat.
Proof.
  intros Hmax Hn Hk. destruct (calc_height_ok n ltac:(lia)) as (H & HH & _ & Hheight).
  exists H. split; [exact HH|]. eapply is_height_le; eauto. lia.
Qed.

Theorem extract_cost_depth maxtx m :
  (extract_calls node_hash maxtx m <= 2 * (8 * length (m_flags m)) + 1)%nat /\
  (forall n k, maxtx < 2 ^ 31 -> n <= maxtx -> maxtx <= 2 ^ N.of_nat k ->
     exists H : nat, height_loop (pb_tree_width n) 1 height_fuel 0 = Ok (N.of_nat H) /\ (H <= k)%nat).
Proof. split; [apply extract_cost|intros n k; apply extract_depth]. Qed.

End WithNodeHash.

(* the reported matches are in strictly increasing position order: block order, no position twice *)
From Coq Require Import Sorting.Sorted.
Theorem extract_matches_increasing (node_hash : hash -> hash -> hash) maxtx m root ms :
  maxtx < 2 ^ 31 -> extract node_hash maxtx m = Ok (root, ms) -> StronglySorted pos_lt ms.
Proof.
  intros Hmax Hex.
  destruct (extract_sound node_hash maxtx m root ms Hmax Hex) as (Hn & _ & H & t & pad & Hacc & _).
  destruct Hacc as (Hh & Hshape & _ & _ & _ & _ & _ & ->).
  apply (matches_increasing node_hash (m_transactions m) H 0 t); [|exact Hshape].
  apply width_pos. lia.
Qed.

(* ---------- the same statements on the domain where the model is the code ([msg_in_domain], see
   Merkle.v "the domain on which this file is the code"); these are what Props/C12.v states ---------- *)
Section Domain.
Variable node_hash : hash -> hash -> hash.

Theorem extract_sound_dom maxtx m root ms :
  maxtx < 2 ^ 31 -> msg_in_domain m ->
  extract node_hash maxtx m = Ok (root, ms) ->
  1 <= m_transactions m <= maxtx /\
  (length (m_hashes m) <= N.to_nat (m_transactions m))%nat /\
  exists H t pad,
    accepted_as node_hash m H t pad root ms /\
    Forall (fun ph => has_merkle_path node_hash (m_transactions m) H root (fst ph) (snd ph)) ms.
Proof. intros Hmax _. exact (extract_sound node_hash maxtx m root ms Hmax). Qed.

Theorem extract_matches_increasing_dom maxtx m root ms :
  maxtx < 2 ^ 31 -> msg_in_domain m ->
  extract node_hash maxtx m = Ok (root, ms) -> StronglySorted pos_lt ms.
Proof. intros Hmax _. exact (extract_matches_increasing node_hash maxtx m root ms Hmax). Qed.

Theorem extract_rejects_more_hashes_than_transactions_dom maxtx : maxtx < 2 ^ 31 -> forall m, msg_in_domain m ->
  (N.to_nat (m_transactions m) < length (m_hashes m))%nat -> forall r, extract node_hash maxtx m <> Ok r.
Proof. intros Hmax m _. exact (extract_rejects_more_hashes_than_transactions node_hash maxtx Hmax m). Qed.

Theorem extract_rejects_fewer_bits_than_hashes_dom maxtx : maxtx < 2 ^ 31 -> forall m, msg_in_domain m ->
  (8 * length (m_flags m) < length (m_hashes m))%nat -> forall r, extract node_hash maxtx m <> Ok r.
Proof. intros Hmax m _. exact (extract_rejects_fewer_bits_than_hashes node_hash maxtx Hmax m). Qed.

Theorem extract_rejects_bits_exhausted_dom maxtx : maxtx < 2 ^ 31 -> forall m, msg_in_domain m -> forall H,
  is_height (m_transactions m) H -> forall t, shape (m_transactions m) H 0 t ->
  forall more, map b2n (pmt_flags t) = bits_of_flags (m_flags m) ++ more -> more <> [] ->
  forall r, extract node_hash maxtx m <> Ok r.
Proof. intros Hmax m _. exact (extract_rejects_bits_exhausted node_hash maxtx Hmax m). Qed.

Theorem extract_rejects_hashes_exhausted_dom maxtx : maxtx < 2 ^ 31 -> forall m, msg_in_domain m -> forall H,
  is_height (m_transactions m) H -> forall t, shape (m_transactions m) H 0 t ->
  forall rest, bits_of_flags (m_flags m) = map b2n (pmt_flags t) ++ rest ->
  (length (m_hashes m) < length (pmt_hashes t))%nat ->
  forall r, extract node_hash maxtx m <> Ok r.
Proof. intros Hmax m _. exact (extract_rejects_hashes_exhausted node_hash maxtx Hmax m). Qed.

Theorem extract_rejects_unused_hash_dom maxtx : maxtx < 2 ^ 31 -> forall m, msg_in_domain m -> forall H,
  is_height (m_transactions m) H -> forall t, shape (m_transactions m) H 0 t ->
  forall rest, bits_of_flags (m_flags m) = map b2n (pmt_flags t) ++ rest ->
  (length (pmt_hashes t) < length (m_hashes m))%nat ->
  forall r, extract node_hash maxtx m <> Ok r.
Proof. intros Hmax m _. exact (extract_rejects_unused_hash node_hash maxtx Hmax m). Qed.

Theorem extract_rejects_unused_flag_byte_dom maxtx : maxtx < 2 ^ 31 -> forall m, msg_in_domain m -> forall H,
  is_height (m_transactions m) H -> forall t, shape (m_transactions m) H 0 t ->
  forall rest, bits_of_flags (m_flags m) = map b2n (pmt_flags t) ++ rest ->
  (8 <= length rest)%nat ->
  forall r, extract node_hash maxtx m <> Ok r.
Proof. intros Hmax m _. exact (extract_rejects_unused_flag_byte node_hash maxtx Hmax m). Qed.

Theorem extract_rejects_equal_children_dom maxtx : maxtx < 2 ^ 31 -> forall m, msg_in_domain m -> forall H,
  is_height (m_transactions m) H -> forall t, shape (m_transactions m) H 0 t ->
  forall restb resth,
  bits_of_flags (m_flags m) = map b2n (pmt_flags t) ++ restb ->
  m_hashes m = pmt_hashes t ++ resth ->
  ~ no_equal_children node_hash t ->
  forall r, extract node_hash maxtx m <> Ok r.
Proof. intros Hmax m _. exact (extract_rejects_equal_children node_hash maxtx Hmax m). Qed.

Theorem extract_cost_depth_dom maxtx m : msg_in_domain m ->
  (extract_calls node_hash maxtx m <= 2 * (8 * length (m_flags m)) + 1)%nat /\
  (forall n k, maxtx < 2 ^ 31 -> n <= maxtx -> maxtx <= 2 ^ N.of_nat k ->
     exists H : nat, height_loop (pb_tree_width n) 1 height_fuel 0 = Ok (N.of_nat H) /\ (H <= k)%nat).
Proof. intros _. exact (extract_cost_depth node_hash maxtx m). Qed.

Theorem extract_no_panic_dom maxtx m : msg_in_domain m -> is_panic (extract node_hash maxtx m) = false.
Proof. intros _. exact (extract_no_panic node_hash maxtx m). Qed.

End Domain.

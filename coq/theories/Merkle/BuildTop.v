(* Top-level theorems about the builders (C11): the message is the canonical partial merkle tree,
   and extracting it gives the merkle root and exactly the chosen transactions in block order. *)
From BU Require Import Lib.Bytes Lib.PolyMod Gen.Xmerkleblock Gen.Xbloom Merkle.Merkle Merkle.PmtSpec
  Merkle.MerkleArith Merkle.ExtractProofs Merkle.PmtProofs Merkle.LevelProofs Merkle.PackProofs
  Merkle.BuildProofs Merkle.ExtractTop.
From Coq Require Import ZifyBool ZifyN ZifyNat.

Local Open Scope N_scope.

Lemma matched_indices_chosen : forall sel ls i,
  length sel = length ls -> N.of_nat (length ls) + i <= 2 ^ 32 ->
  matched_indices i sel = map fst (chosen_from i ls sel).
Proof.
  induction sel as [|s sel IH]; intros [|l ls] i Hlen Hi; try discriminate; [reflexivity|].
  cbn [matched_indices chosen_from]. cbn [length] in *. rewrite map_app, (IH ls) by lia.
  rewrite u32_small by lia. destruct s; reflexivity.
Qed.

Lemma tx_in_set_In h set : tx_in_set h set = true <-> In h set.
Proof.
  induction set as [|x t IH]; cbn [tx_in_set In]; [split; [discriminate|tauto]|].
  unfold hash_eqb. destruct (list_eqb h x) eqn:E.
  - apply list_eqb_eq in E. subst. tauto.
  - rewrite IH. split; [tauto|]. intros [Heq|H]; [|exact H]. subst. rewrite list_eqb_refl in E. discriminate.
Qed.

Section WithNodeHash.
Variable node_hash : hash -> hash -> hash.
Notation spec_msg := (spec_msg node_hash).
Notation spec_tree := (spec_tree node_hash).

Section Block.
Variable header : list N.
Variable leaves : list hash.
Notation n := (N.of_nat (length leaves)).
Hypothesis n_pos : 0 < n.
Hypothesis n_small : n < 2 ^ 31.

Lemma u32_n : u32 n = n.
Proof. apply u32_small. change (2 ^ 31) with 2147483648 in *. change (2 ^ 32) with 4294967296. lia. Qed.

(* calcBlock *)
Lemma calc_block_spec sel : length sel = length leaves ->
  exists H, is_height n H /\
    mb_calc_block node_hash header n leaves (map b2n sel) = Ok (spec_msg header leaves sel H).
Proof.
  intros Hlen. destruct (calc_height_ok n n_small) as (H & HH & H31 & Hheight).
  exists H. split; [exact Hheight|].
  rewrite mb_calc_block_eq, HH. cbn [rbind]. rewrite Nat2N.id.
  assert ((0 <? n) = true) as -> by (apply N.ltb_lt; exact n_pos).
  rewrite (traverse_build_spec node_hash leaves sel Hlen n_pos n_small H 0 ([], []) H31)
    by (apply width_pos; exact n_pos).
  cbn [rbind fst snd app]. rewrite pack_bits_spec. reflexivity.
Qed.

(* build_is_spec, for the three entry points *)
Theorem build_is_spec_filter (mm : nat -> bool) :
  let sel := map mm (seq 0 (length leaves)) in
  exists H, is_height n H /\
    mb_new_with_filter node_hash header leaves mm = Ok (spec_msg header leaves sel H, map fst (chosen leaves sel)).
Proof.
  intros sel. assert (length sel = length leaves) as Hlen by (unfold sel; rewrite map_length, seq_length; reflexivity).
  destruct (calc_block_spec sel Hlen) as (H & Hh & Hc). exists H. split; [exact Hh|].
  rewrite mb_new_with_filter_eq. cbv zeta. fold sel. rewrite u32_n, matched_bits_b2n, Hc. cbn [rbind].
  rewrite (matched_indices_chosen sel leaves 0 Hlen); [reflexivity|].
  change (2 ^ 31) with 2147483648 in *. change (2 ^ 32) with 4294967296. lia.
Qed.

Theorem build_is_spec_bloom (mm : nat -> bool) :
  let sel := map mm (seq 0 (length leaves)) in
  exists H, is_height n H /\
    bl_new node_hash header leaves mm = Ok (spec_msg header leaves sel H, map fst (chosen leaves sel)).
Proof. intros sel. rewrite builders_agree. apply build_is_spec_filter. Qed.

Theorem build_is_spec_txnset (txnset : list hash) :
  let sel := map (fun h => tx_in_set h txnset) leaves in
  exists H, is_height n H /\
    mb_new_with_txnset node_hash header leaves txnset = Ok (spec_msg header leaves sel H, map fst (chosen leaves sel)).
Proof.
  intros sel. assert (length sel = length leaves) as Hlen by (unfold sel; rewrite map_length; reflexivity).
  destruct (calc_block_spec sel Hlen) as (H & Hh & Hc). exists H. split; [exact Hh|].
  rewrite mb_new_with_txnset_eq. cbv zeta. fold sel. rewrite u32_n, matched_bits_b2n, Hc. cbn [rbind].
  rewrite (matched_indices_chosen sel leaves 0 Hlen); [reflexivity|].
  change (2 ^ 31) with 2147483648 in *. change (2 ^ 32) with 4294967296. lia.
Qed.

(* the canonical message is well formed: shape, canonical descent, root, matches *)
Theorem spec_msg_wellformed sel H : length sel = length leaves -> is_height n H -> (H <= 31)%nat ->
  let t := spec_tree leaves sel H 0 in
  shape n H 0 t /\ canonical t /\
  pmt_root node_hash t = merkle_root node_hash leaves /\
  pmt_matches 0 t = chosen leaves sel.
Proof.
  intros Hlen Hh H31 t. assert (0 < width n H) as Hpos by (apply width_pos; exact n_pos).
  repeat split.
  - apply spec_tree_shape; assumption.
  - apply spec_tree_canonical; assumption.
  - unfold t. rewrite spec_tree_root by assumption.
    rewrite (merkle_root_levels node_hash leaves H); [reflexivity| |exact Hh].
    intros ->. cbn in n_pos. lia.
  - apply spec_tree_matches_root; assumption.
Qed.

(* extract_build *)
Theorem extract_build_levels maxtx sel H :
  length sel = length leaves -> is_height n H ->
  n <= maxtx -> maxtx <= 2 ^ 30 ->
  (forall h, NoDup (levels node_hash h leaves)) ->
  extract node_hash maxtx (spec_msg header leaves sel H) = Ok (merkle_root node_hash leaves, chosen leaves sel).
Proof.
  intros Hlen Hh Hmax Hmax30 Hnd.
  assert (H <= 30)%nat as H30 by (eapply is_height_le; [exact Hh|change (N.of_nat 30) with 30; lia]).
  change (2 ^ 30) with 1073741824 in *.
  assert (maxtx < 2 ^ 31) as Hm31 by (change (2 ^ 31) with 2147483648; lia).
  assert (0 < width n H) as Hpos by (apply width_pos; exact n_pos).
  destruct (spec_msg_wellformed sel H Hlen Hh ltac:(lia)) as (Hshape & _ & Hroot & Hmatches).
  set (t := spec_tree leaves sel H 0) in *.
  destruct (unpack_pack (pmt_flags t)) as (pad & Hpad & Hpadlen).
  rewrite <- Hroot, <- Hmatches.
  apply (extract_complete node_hash maxtx _ H t pad Hm31).
  - cbn [PmtSpec.spec_msg m_transactions]. lia.
  - cbn [PmtSpec.spec_msg m_flags]. fold t. rewrite pack_spec_length.
    (* at most 2^(H+1) - 1 flag bits *)
    assert (forall h pos t', shape n h pos t' -> N.of_nat (length (pmt_flags t')) < 2 * 2 ^ N.of_nat h) as Hbound.
    { clear. induction h as [|h IH]; intros pos t' Hs.
      - destruct t'; try contradiction. cbn. lia.
      - rewrite pow2_S. pose proof (pow2_pos (N.of_nat h)).
        destruct t' as [| |l|l r]; try contradiction; cbn [pmt_flags length].
        + lia.
        + destruct Hs as [_ Hs]. specialize (IH _ _ Hs). lia.
        + destruct Hs as (_ & Hl & Hr). pose proof (IH _ _ Hl). pose proof (IH _ _ Hr).
          rewrite app_length. lia. }
    specialize (Hbound H 0 t Hshape).
    assert (2 ^ N.of_nat H <= 2 ^ 30) by (apply N.pow_le_mono_r; lia).
    change (2 ^ 30) with 1073741824 in *. change (2 ^ 32) with 4294967296. lia.
  - unfold accepted_as. cbn [PmtSpec.spec_msg m_transactions m_flags m_hashes]. fold t.
    repeat split; auto; try apply Hh.
    apply spec_tree_no_equal_children; auto; change (2 ^ 31) with 2147483648; lia.
Qed.

End Block.

(* under the collision-free idealisation: distinct transaction ids and injective node hashing *)
Hypothesis node_hash_inj : forall a b c d, node_hash a b = node_hash c d -> a = c /\ b = d.

Theorem extract_build header leaves sel maxtx H :
  leaves <> [] -> NoDup leaves -> length sel = length leaves ->
  is_height (N.of_nat (length leaves)) H ->
  N.of_nat (length leaves) <= maxtx -> maxtx <= 2 ^ 30 ->
  extract node_hash maxtx (spec_msg header leaves sel H) = Ok (merkle_root node_hash leaves, chosen leaves sel).
Proof.
  intros Hne Hnd Hlen Hh Hmax Hm30.
  assert (0 < N.of_nat (length leaves)) as Hpos by (destruct leaves; [contradiction|cbn; lia]).
  apply extract_build_levels; auto.
  - change (2 ^ 30) with 1073741824 in *. change (2 ^ 31) with 2147483648. lia.
  - apply levels_nodup; assumption.
Qed.

(* end to end, for NewMerkleBlockWithTxnSet: the proof for the transactions of the block that are in
   [txnset] extracts to the block's merkle root and exactly those transactions, in block order, and the
   index list returned by the builder is their positions *)
Theorem build_then_extract_txnset header leaves txnset maxtx :
  leaves <> [] -> NoDup leaves ->
  N.of_nat (length leaves) <= maxtx -> maxtx <= 2 ^ 30 ->
  let sel := map (fun h => tx_in_set h txnset) leaves in
  exists m, mb_new_with_txnset node_hash header leaves txnset = Ok (m, map fst (chosen leaves sel)) /\
            extract node_hash maxtx m = Ok (merkle_root node_hash leaves, chosen leaves sel).
Proof.
  intros Hne Hnd Hmax Hm30 sel.
  assert (0 < N.of_nat (length leaves)) as Hpos by (destruct leaves; [contradiction|cbn; lia]).
  assert (N.of_nat (length leaves) < 2 ^ 31) as H31
    by (change (2 ^ 30) with 1073741824 in *; change (2 ^ 31) with 2147483648; lia).
  destruct (build_is_spec_txnset header leaves Hpos H31 txnset) as (H & Hh & Hb).
  exists (spec_msg header leaves sel H). split; [exact Hb|].
  apply extract_build; auto. unfold sel. rewrite map_length. reflexivity.
Qed.

Theorem build_then_extract_filter header leaves (mm : nat -> bool) maxtx :
  leaves <> [] -> NoDup leaves ->
  N.of_nat (length leaves) <= maxtx -> maxtx <= 2 ^ 30 ->
  let sel := map mm (seq 0 (length leaves)) in
  exists m, mb_new_with_filter node_hash header leaves mm = Ok (m, map fst (chosen leaves sel)) /\
            bl_new node_hash header leaves mm = Ok (m, map fst (chosen leaves sel)) /\
            extract node_hash maxtx m = Ok (merkle_root node_hash leaves, chosen leaves sel).
Proof.
  intros Hne Hnd Hmax Hm30 sel.
  assert (0 < N.of_nat (length leaves)) as Hpos by (destruct leaves; [contradiction|cbn; lia]).
  assert (N.of_nat (length leaves) < 2 ^ 31) as H31
    by (change (2 ^ 30) with 1073741824 in *; change (2 ^ 31) with 2147483648; lia).
  destruct (build_is_spec_filter header leaves Hpos H31 mm) as (H & Hh & Hb).
  exists (spec_msg header leaves sel H). split; [exact Hb|]. split; [rewrite builders_agree; exact Hb|].
  apply extract_build; auto. unfold sel. rewrite map_length, seq_length. reflexivity.
Qed.

End WithNodeHash.

(* what the chosen list is: position i with leaf i, for the chosen i, in increasing order *)
Lemma chosen_from_spec : forall ls ss i p x,
  length ss = length ls ->
  (In (p, x) (chosen_from i ls ss) <->
   exists k, p = i + N.of_nat k /\ nth_error ls k = Some x /\ nth_error ss k = Some true).
Proof.
  induction ls as [|l ls IH]; intros [|s ss] i p x Hlen; try discriminate.
  - cbn. split; [tauto|]. intros (k & _ & Hk & _). destruct k; discriminate.
  - cbn [chosen_from]. cbn [length] in Hlen. rewrite in_app_iff, (IH ss (i + 1) p x) by lia. split.
    + intros [Hin|(k & Hp & Hl & Hs)].
      * destruct s; [|contradiction]. destruct Hin as [Heq|[]]. inversion Heq; subst.
        exists 0%nat. cbn. repeat split; auto. lia.
      * exists (S k). cbn. repeat split; auto. lia.
    + intros ([|k] & Hp & Hl & Hs); cbn in Hl, Hs.
      * left. inversion Hl; inversion Hs; subst. left. f_equal. lia.
      * right. exists k. repeat split; auto. lia.
Qed.

(* ... and it is in block order: strictly increasing positions *)
From Coq Require Import Sorting.Sorted.
Lemma chosen_from_ge : forall ls ss i p x, In (p, x) (chosen_from i ls ss) -> i <= p.
Proof.
  induction ls as [|l ls IH]; intros [|s ss] i p x Hin; cbn [chosen_from] in Hin; try contradiction.
  apply in_app_or in Hin as [Hin|Hin].
  - destruct s; [|contradiction]. destruct Hin as [Heq|[]]. inversion Heq; subst. lia.
  - apply IH in Hin. lia.
Qed.

Lemma chosen_from_sorted : forall ls ss i, StronglySorted pos_lt (chosen_from i ls ss).
Proof.
  induction ls as [|l ls IH]; intros [|s ss] i; cbn [chosen_from]; try constructor.
  apply ssorted_app; [destruct s; repeat constructor|apply IH|].
  intros [p x] [q y] Ha Hb. destruct s; [|contradiction]. destruct Ha as [Heq|[]]. inversion Heq; subst.
  apply chosen_from_ge in Hb. unfold pos_lt. cbn [fst]. lia.
Qed.

(* ---------- the builder theorems on the domain where the model is the code: at most [add_tx_hash_cap]
   transactions, so that wire's AddTxHash (whose error calcBlock discards) never refuses a hash; see
   Merkle.v "the domain on which this file is the code".  These are what Props/C11.v states. ---------- *)
Lemma cap_lt_2_31 x : x <= add_tx_hash_cap -> x < 2 ^ 31.
Proof. unfold add_tx_hash_cap. change (2 ^ 31) with 2147483648. lia. Qed.

Theorem build_is_spec_txnset_cap : forall node_hash header leaves,
  0 < N.of_nat (length leaves) -> N.of_nat (length leaves) <= add_tx_hash_cap -> forall txnset,
  let sel := map (fun h => tx_in_set h txnset) leaves in
  exists H, is_height (N.of_nat (length leaves)) H /\
    mb_new_with_txnset node_hash header leaves txnset =
    Ok (spec_msg node_hash header leaves sel H, map fst (chosen leaves sel)).
Proof. intros nh header leaves Hpos Hcap. exact (build_is_spec_txnset nh header leaves Hpos (cap_lt_2_31 _ Hcap)). Qed.

Theorem build_is_spec_filter_cap : forall node_hash header leaves,
  0 < N.of_nat (length leaves) -> N.of_nat (length leaves) <= add_tx_hash_cap -> forall mm : nat -> bool,
  let sel := map mm (seq 0 (length leaves)) in
  exists H, is_height (N.of_nat (length leaves)) H /\
    mb_new_with_filter node_hash header leaves mm =
    Ok (spec_msg node_hash header leaves sel H, map fst (chosen leaves sel)).
Proof. intros nh header leaves Hpos Hcap. exact (build_is_spec_filter nh header leaves Hpos (cap_lt_2_31 _ Hcap)). Qed.

Theorem build_is_spec_bloom_cap : forall node_hash header leaves,
  0 < N.of_nat (length leaves) -> N.of_nat (length leaves) <= add_tx_hash_cap -> forall mm : nat -> bool,
  let sel := map mm (seq 0 (length leaves)) in
  exists H, is_height (N.of_nat (length leaves)) H /\
    bl_new node_hash header leaves mm =
    Ok (spec_msg node_hash header leaves sel H, map fst (chosen leaves sel)).
Proof. intros nh header leaves Hpos Hcap. exact (build_is_spec_bloom nh header leaves Hpos (cap_lt_2_31 _ Hcap)). Qed.

(* a well-shaped tree of height h has fewer than 2^(h+1) flag bits *)
Lemma shape_flags_lt n : forall h pos t', shape n h pos t' -> N.of_nat (length (pmt_flags t')) < 2 * 2 ^ N.of_nat h.
Proof.
  induction h as [|h IH]; intros pos t' Hs.
  - destruct t'; try contradiction. cbn. lia.
  - rewrite pow2_S. pose proof (pow2_pos (N.of_nat h)).
    destruct t' as [| |l|l r]; try contradiction; cbn [pmt_flags length].
    + lia.
    + destruct Hs as [_ Hs]. specialize (IH _ _ Hs). lia.
    + destruct Hs as (_ & Hl & Hr). pose proof (IH _ _ Hl). pose proof (IH _ _ Hr).
      rewrite app_length. lia.
Qed.

(* whatever extraction accepts with MaxTxnCount <= 2^30 is inside [msg_in_domain] *)
Lemma accepted_in_domain node_hash maxtx m root ms :
  maxtx <= 2 ^ 30 -> extract node_hash maxtx m = Ok (root, ms) -> msg_in_domain m.
Proof.
  intros Hm30 He.
  assert (maxtx < 2 ^ 31) as Hm31 by (change (2 ^ 30) with 1073741824 in *; change (2 ^ 31) with 2147483648; lia).
  destruct (extract_sound node_hash maxtx m _ _ Hm31 He) as ((_ & Hn) & Hh & H & t & pad & Hacc & _).
  destruct Hacc as (Hheight & Hshape & Hbits & Hpad & _).
  assert (H <= 30)%nat as H30 by (eapply is_height_le; [exact Hheight|change (N.of_nat 30) with 30; lia]).
  pose proof (shape_flags_lt _ _ _ _ Hshape) as Hfl.
  assert (2 ^ N.of_nat H <= 2 ^ 30) by (apply N.pow_le_mono_r; lia).
  apply (f_equal (@length N)) in Hbits. rewrite bits_of_flags_length, app_length, map_length in Hbits.
  change (2 ^ 30) with 1073741824 in *.
  split; change (2 ^ 32) with 4294967296; lia.
Qed.

Theorem build_then_extract_txnset_cap : forall node_hash,
  (forall a b c d, node_hash a b = node_hash c d -> a = c /\ b = d) ->
  forall header leaves txnset maxtx,
  leaves <> [] -> NoDup leaves ->
  N.of_nat (length leaves) <= add_tx_hash_cap ->
  N.of_nat (length leaves) <= maxtx -> maxtx <= 2 ^ 30 ->
  let sel := map (fun h => tx_in_set h txnset) leaves in
  exists m, mb_new_with_txnset node_hash header leaves txnset = Ok (m, map fst (chosen leaves sel)) /\
            msg_in_domain m /\
            extract node_hash maxtx m = Ok (merkle_root node_hash leaves, chosen leaves sel).
Proof.
  intros nh Hinj header leaves txnset maxtx Hne Hnd Hcap Hmax Hm30 sel.
  destruct (build_then_extract_txnset nh Hinj header leaves txnset maxtx Hne Hnd Hmax Hm30) as (m & Hb & He).
  exists m. split; [exact Hb|]. split; [|exact He]. exact (accepted_in_domain nh maxtx m _ _ Hm30 He).
Qed.

Theorem build_then_extract_filter_cap : forall node_hash,
  (forall a b c d, node_hash a b = node_hash c d -> a = c /\ b = d) ->
  forall header leaves (mm : nat -> bool) maxtx,
  leaves <> [] -> NoDup leaves ->
  N.of_nat (length leaves) <= add_tx_hash_cap ->
  N.of_nat (length leaves) <= maxtx -> maxtx <= 2 ^ 30 ->
  let sel := map mm (seq 0 (length leaves)) in
  exists m, mb_new_with_filter node_hash header leaves mm = Ok (m, map fst (chosen leaves sel)) /\
            bl_new node_hash header leaves mm = Ok (m, map fst (chosen leaves sel)) /\
            msg_in_domain m /\
            extract node_hash maxtx m = Ok (merkle_root node_hash leaves, chosen leaves sel).
Proof.
  intros nh Hinj header leaves mm maxtx Hne Hnd Hcap Hmax Hm30 sel.
  destruct (build_then_extract_filter nh Hinj header leaves mm maxtx Hne Hnd Hmax Hm30) as (m & Hb & Hb2 & He).
  exists m. split; [exact Hb|]. split; [exact Hb2|]. split; [|exact He]. exact (accepted_in_domain nh maxtx m _ _ Hm30 He).
Qed.

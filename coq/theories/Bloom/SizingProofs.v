(* NewFilter's massaging of the false-positive rate, over IEEE-style comparisons:
       if fprate > 1.0  { fprate = 1.0 }
       if fprate < 1e-9 { fprate = 1e-9 }
   A float64 is NaN, -Inf, +Inf or a finite rational; every comparison with NaN is false.
   [lo] is the float64 nearest to 1e-9 (any value in (0,1] works).
   What the code does: every non-NaN argument (negative, zero, denormal, huge, infinite) ends in [lo, 1];
   NaN passes through both tests unchanged, math.Log(NaN) = NaN, and the conversion uint32(NaN) is
   implementation-defined — the clamps of Bloom.sizing bound the result anyway (sizing_within_limits). *)
From Coq Require Import QArith Lia.

Inductive fl := FNaN | FNegInf | FPosInf | FFin (q : Q).

Definition fl_gt (a b : fl) : bool :=
  match a, b with
  | FNaN, _ | _, FNaN => false
  | FPosInf, FPosInf => false
  | FPosInf, _ => true
  | _, FPosInf => false
  | FNegInf, _ => false
  | FFin _, FNegInf => true
  | FFin x, FFin y => if Qlt_le_dec y x then true else false
  end.
Definition fl_lt (a b : fl) : bool := fl_gt b a.

Section Clamp.
  Variable lo : Q.
  Hypothesis lo_pos : (0 < lo)%Q.
  Hypothesis lo_le_1 : (lo <= 1)%Q.

  Definition clamp_fprate (p : fl) : fl :=
    let p1 := if fl_gt p (FFin 1) then FFin 1 else p in
    if fl_lt p1 (FFin lo) then FFin lo else p1.

  Theorem clamp_nan : clamp_fprate FNaN = FNaN.
  Proof. reflexivity. Qed.

  Theorem clamp_range p : p <> FNaN -> exists q, clamp_fprate p = FFin q /\ (lo <= q)%Q /\ (q <= 1)%Q.
  Proof.
    intros Hp. destruct p as [| | |x]; [congruence| | |].
    - (* -Inf *) exists lo. cbn. repeat split; [apply Qle_refl|exact lo_le_1].
    - (* +Inf *) exists 1%Q. unfold clamp_fprate. cbn [fl_gt].
      unfold fl_lt, fl_gt. destruct (Qlt_le_dec 1 lo) as [H|H].
      + exfalso. apply (Qlt_not_le _ _ H). exact lo_le_1.
      + repeat split; [exact lo_le_1|apply Qle_refl].
    - unfold clamp_fprate. cbn [fl_gt]. destruct (Qlt_le_dec 1 x) as [H1|H1].
      + exists 1%Q. unfold fl_lt, fl_gt. destruct (Qlt_le_dec 1 lo) as [H|H].
        * exfalso. apply (Qlt_not_le _ _ H). exact lo_le_1.
        * repeat split; [exact lo_le_1|apply Qle_refl].
      + unfold fl_lt, fl_gt. destruct (Qlt_le_dec x lo) as [H|H].
        * exists lo. repeat split; [apply Qle_refl|exact lo_le_1].
        * exists x. repeat split; assumption.
  Qed.
End Clamp.

(* Proofs about Bloom/Bloom.v: bit arithmetic, add/matches laws, histories. *)
From BU Require Import Lib.Bytes Lib.PolyMod Gen.Xbloom Bloom.Murmur3 Bloom.Bloom.
From Coq Require Import ZifyBool ZifyN ZifyNat.

(* ---------- the literals of the source (obligations over Gen/Xbloom.v) ---------- *)
Lemma lits_matches : mlit_m 0 = 0 /\ mlit_m 2 = 3 /\ mlit_m 3 = 1 /\ mlit_m 4 = 7 /\ mlit_m 5 = 0.
Proof. vm_compute. repeat split. Qed.
Lemma lits_add : mlit_a 0 = 0 /\ mlit_a 2 = 3 /\ mlit_a 3 = 1 /\ mlit_a 4 = 7.
Proof. vm_compute. repeat split. Qed.
Lemma lits_hash : hlit 0 = 0xFBA4C795 /\ hlit 1 = 3.
Proof. vm_compute. repeat split. Qed.
Lemma lits_new_filter : nlit 1 = 8 /\ nlit 2 = 8 /\ nlit 3 = 8.
Proof. vm_compute. repeat split. Qed.
Lemma outpoint_bytes_m_eq : forall t i, outpoint_bytes_m t i = outpoint_bytes t i.
Proof. reflexivity. Qed.
Lemma outpoint_width : lit lits_Filter_addOutPoint 0 = 4.
Proof. reflexivity. Qed.

Lemma w32_mod x : w32 x = x mod 2^32.
Proof. unfold w32. change 4294967295 with (N.ones 32). apply N.land_ones. Qed.
Lemma w8_mod x : w8 x = x mod 2^8.
Proof. unfold w8. change 255 with (N.ones 8). apply N.land_ones. Qed.

(* ---------- bits of a byte ---------- *)
Lemma land_pow2 b k : N.land b (2^k) = if N.testbit b k then 2^k else 0.
Proof.
  apply N.bits_inj; intro n. rewrite N.land_spec, N.pow2_bits_eqb.
  destruct (N.eqb_spec k n) as [->|Hne].
  - destruct (N.testbit b n) eqn:E; cbn [andb].
    + rewrite N.pow2_bits_eqb, N.eqb_refl. reflexivity.
    + rewrite N.bits_0. reflexivity.
  - rewrite andb_false_r. destruct (N.testbit b k).
    + rewrite N.pow2_bits_eqb. symmetry. apply N.eqb_neq. exact Hne.
    + rewrite N.bits_0. reflexivity.
Qed.

Lemma land_7 idx : N.land idx 7 = idx mod 8.
Proof. change 7 with (N.ones 3). rewrite N.land_ones. reflexivity. Qed.
Lemma land_7' idx : N.land 7 idx = idx mod 8.
Proof. rewrite N.land_comm. apply land_7. Qed.
Lemma shiftr_3 idx : N.shiftr idx 3 = idx / 8.
Proof. rewrite N.shiftr_div_pow2. reflexivity. Qed.

Lemma mask_small k : k < 8 -> w8 (N.shiftl 1 k) = 2^k.
Proof.
  intros Hk. rewrite w8_mod. rewrite N.shiftl_1_l. apply N.mod_small.
  change (2^8) with (2^8). apply N.pow_lt_mono_r; lia.
Qed.

(* the abstract view: bit k of a byte string *)
Definition get_bit (v : list N) (k : N) : bool := N.testbit (nth (N.to_nat (k / 8)) v 0) (k mod 8).

Lemma test_bit_spec v idx : test_bit v idx = get_bit v idx.
Proof.
  unfold test_bit, get_bit. destruct lits_matches as (_ & -> & -> & -> & ->).
  rewrite land_7, shiftr_3, mask_small by (apply N.mod_lt; lia).
  rewrite land_pow2. destruct (N.testbit _ _); cbn [negb].
  - assert (H : 2 ^ (idx mod 8) <> 0) by (apply N.pow_nonzero; lia).
    apply N.eqb_neq in H. rewrite H. reflexivity.
  - reflexivity.
Qed.

Lemma nth_upd (l : list N) k k' f :
  nth k' (upd l k f) 0 = if (Nat.eqb k' k && Nat.ltb k (length l))%bool then f (nth k l 0) else nth k' l 0.
Proof.
  revert k k'. induction l as [|x t IH]; intros k k'.
  - cbn [upd length]. rewrite andb_false_r. reflexivity.
  - destruct k as [|k]; destruct k' as [|k']; cbn [upd nth length Nat.eqb andb]; try reflexivity.
    rewrite IH. change (Nat.ltb (S k) (S (length t))) with (Nat.ltb k (length t)). reflexivity.
Qed.

Lemma upd_length (l : list N) k f : length (upd l k f) = length l.
Proof. revert k. induction l as [|x t IH]; intros [|k]; cbn [upd length]; auto. Qed.

Lemma set_bit_length v idx : length (set_bit v idx) = length v.
Proof. apply upd_length. Qed.

Lemma divmod8_eq a b : a / 8 = b / 8 -> a mod 8 = b mod 8 -> a = b.
Proof. intros H1 H2. pose proof (N.div_mod a 8). pose proof (N.div_mod b 8). lia. Qed.

(* set_bit sets exactly bit idx (when in range) and keeps all others *)
Lemma get_set_bit v idx k :
  get_bit (set_bit v idx) k =
  (get_bit v k || ((k =? idx) && (idx / 8 <? N.of_nat (length v))))%bool.
Proof.
  unfold set_bit, get_bit. destruct lits_add as (_ & -> & -> & ->).
  rewrite land_7', shiftr_3, mask_small by (apply N.mod_lt; lia).
  rewrite nth_upd.
  destruct (Nat.eqb_spec (N.to_nat (k / 8)) (N.to_nat (idx / 8))) as [E|NE]; cbn [andb].
  - assert (E' : k / 8 = idx / 8) by lia.
    destruct (Nat.ltb_spec (N.to_nat (idx / 8)) (length v)) as [L|L].
    + rewrite N.lor_spec, N.pow2_bits_eqb, <- E.
      assert (Hlt : (idx / 8 <? N.of_nat (length v)) = true) by (apply N.ltb_lt; lia).
      rewrite Hlt, andb_true_r. f_equal.
      destruct (N.eqb_spec (idx mod 8) (k mod 8)) as [M|M]; destruct (N.eqb_spec k idx) as [K|K]; try reflexivity.
      * exfalso. apply K. apply divmod8_eq; auto.
      * subst k. congruence.
    + assert (Hlt : (idx / 8 <? N.of_nat (length v)) = false) by (apply N.ltb_ge; lia).
      rewrite Hlt, andb_false_r, orb_false_r. reflexivity.
  - destruct (N.eqb_spec k idx) as [K|K].
    + subst k. congruence.
    + cbn [andb]. rewrite orb_false_r. reflexivity.
Qed.

Lemma get_fold_set_bits js : forall v k,
  get_bit (fold_left set_bit js v) k =
  (get_bit v k || existsb (fun j => (k =? j) && (j / 8 <? N.of_nat (length v)))%bool js)%bool.
Proof.
  induction js as [|j js IH]; intros v k; cbn [fold_left existsb].
  - rewrite orb_false_r. reflexivity.
  - rewrite IH, get_set_bit, set_bit_length, orb_assoc. reflexivity.
Qed.

Lemma fold_set_bits_length js : forall v, length (fold_left set_bit js v) = length v.
Proof. induction js as [|j js IH]; intros v; cbn [fold_left]; [reflexivity|]. rewrite IH. apply set_bit_length. Qed.

(* ---------- bit selection ---------- *)
Lemma nbits_no_wrap m : len_ok_msg m -> nbits m = N.of_nat (length (m_bytes m)) * 8.
Proof.
  unfold len_ok_msg, nbits. rewrite !w32_mod. intros H. destruct lits_hash as (_ & ->).
  rewrite (N.mod_small (N.of_nat _)) by lia.
  rewrite N.shiftl_mul_pow2. change (2^3) with 8. apply N.mod_small. lia.
Qed.

Lemma bit_index_in_range m i d :
  len_ok_msg m -> m_bytes m <> [] -> bit_index m i d / 8 < N.of_nat (length (m_bytes m)).
Proof.
  intros Hok Hne. unfold bit_index. rewrite nbits_no_wrap by exact Hok.
  assert (0 < N.of_nat (length (m_bytes m))) by (destruct (m_bytes m); [congruence|cbn [length]; lia]).
  apply N.div_lt_upper_bound; [lia|].
  rewrite N.mul_comm. apply N.mod_lt. lia.
Qed.

Lemma indices_in_range m d :
  len_ok_msg m -> m_bytes m <> [] ->
  Forall (fun j => j / 8 < N.of_nat (length (m_bytes m))) (indices m d).
Proof.
  intros Hok Hne. unfold indices. apply Forall_forall. intros j Hj.
  apply in_map_iff in Hj as (i & <- & _). apply bit_index_in_range; assumption.
Qed.

(* indices depend on the array only through its length *)
Lemma indices_same_length m m' d :
  length (m_bytes m') = length (m_bytes m) -> m_nhash m' = m_nhash m -> m_tweak m' = m_tweak m ->
  indices m' d = indices m d.
Proof.
  intros Hl Hn Ht. unfold indices, bit_index, nbits. rewrite Hl, Hn, Ht. reflexivity.
Qed.

Lemma is_empty_iff m : is_empty m = true <-> m_bytes m = [].
Proof.
  unfold is_empty. destruct lits_matches as (-> & _). destruct (m_bytes m); cbn [length]; split; intros H; try reflexivity; try discriminate.
Qed.
Lemma is_empty_a_eq m : is_empty_a m = is_empty m.
Proof. reflexivity. Qed.

(* ---------- add / matches ---------- *)
Lemma matches_unloaded x : matches None x = false.
Proof. reflexivity. Qed.
Lemma add_unloaded x : add None x = None.
Proof. reflexivity. Qed.

Lemma add_is_loaded f x : is_loaded (add f x) = is_loaded f.
Proof. destruct f as [m|]; [|reflexivity]. cbn [add]. destruct (is_empty_a m); reflexivity. Qed.

Lemma add_params f x : params (add f x) = params f.
Proof.
  destruct f as [m|]; [|reflexivity]. cbn [add]. destruct (is_empty_a m); [reflexivity|].
  cbn [params m_bytes m_nhash m_tweak m_flags]. rewrite fold_set_bits_length. reflexivity.
Qed.

Lemma add_len_ok f x : len_ok f -> len_ok (add f x).
Proof.
  destruct f as [m|]; [|auto]. cbn [add]. destruct (is_empty_a m); [auto|].
  unfold len_ok, len_ok_msg. cbn [m_bytes]. rewrite fold_set_bits_length. auto.
Qed.

Lemma add_outpoint_eq f h i : add_outpoint f h i = add f (outpoint_bytes h i).
Proof. reflexivity. Qed.
Lemma matches_outpoint_eq f h i : matches_outpoint f h i = matches f (outpoint_bytes h i).
Proof. reflexivity. Qed.

(* the empty array, as Bitcoin Core defines it since CVE-2013-5700: matches everything, insertion is a no-op *)
Lemma empty_array m x : m_bytes m = [] -> matches (Some m) x = true /\ add (Some m) x = Some m.
Proof.
  intros H. apply is_empty_iff in H. cbn [matches add]. change (is_empty_a m) with (is_empty m). rewrite H. split; reflexivity.
Qed.

Lemma forallb_ext' {A} (f g : A -> bool) l : (forall x, f x = g x) -> forallb f l = forallb g l.
Proof. intros H. induction l as [|a l IH]; cbn [forallb]; [reflexivity|]. rewrite H, IH. reflexivity. Qed.

Lemma matches_loaded_nonempty m x :
  m_bytes m <> [] -> matches (Some m) x = forallb (get_bit (m_bytes m)) (indices m x).
Proof.
  intros H. cbn [matches]. destruct (is_empty m) eqn:E; [apply is_empty_iff in E; congruence|].
  apply forallb_ext'. intros; apply test_bit_spec.
Qed.

Lemma add_loaded_nonempty m x :
  m_bytes m <> [] ->
  add (Some m) x = Some (MkMsg (fold_left set_bit (indices m x) (m_bytes m)) (m_nhash m) (m_tweak m) (m_flags m)).
Proof.
  intros H. cbn [add]. change (is_empty_a m) with (is_empty m). destruct (is_empty m) eqn:E; [apply is_empty_iff in E; congruence|]. reflexivity.
Qed.

Theorem add_matches f x : len_ok f -> is_loaded f = true -> matches (add f x) x = true.
Proof.
  destruct f as [m|]; [|discriminate]. intros Hok _. cbn [len_ok] in Hok.
  destruct (m_bytes m) as [|b0 bs] eqn:Eb.
  - destruct (empty_array m x Eb) as [_ ->]. apply (empty_array m x Eb).
  - assert (Hne : m_bytes m <> []) by congruence.
    rewrite add_loaded_nonempty by exact Hne.
    set (m' := MkMsg _ _ _ _).
    assert (Hl : length (m_bytes m') = length (m_bytes m)) by (apply fold_set_bits_length).
    assert (Hne' : m_bytes m' <> []) by (intro E; rewrite E, Eb in Hl; discriminate).
    rewrite matches_loaded_nonempty by exact Hne'.
    rewrite (indices_same_length m m' x Hl eq_refl eq_refl).
    apply forallb_forall. intros j Hj. subst m'. cbn [m_bytes].
    rewrite get_fold_set_bits. apply orb_true_iff. right.
    apply existsb_exists. exists j. split; [exact Hj|].
    rewrite N.eqb_refl. cbn [andb]. apply N.ltb_lt.
    pose proof (indices_in_range m x Hok Hne) as F. rewrite Forall_forall in F. apply F. exact Hj.
Qed.

Theorem add_monotone f x y : matches f x = true -> matches (add f y) x = true.
Proof.
  destruct f as [m|]; [|discriminate]. intros H.
  destruct (m_bytes m) as [|b0 bs] eqn:Eb.
  - destruct (empty_array m y Eb) as [_ ->]. exact H.
  - assert (Hne : m_bytes m <> []) by congruence.
    rewrite add_loaded_nonempty by exact Hne.
    set (m' := MkMsg _ _ _ _).
    assert (Hl : length (m_bytes m') = length (m_bytes m)) by (apply fold_set_bits_length).
    assert (Hne' : m_bytes m' <> []) by (intro E; rewrite E, Eb in Hl; discriminate).
    rewrite matches_loaded_nonempty in * by assumption.
    rewrite (indices_same_length m m' x Hl eq_refl eq_refl).
    rewrite forallb_forall in *. intros j Hj. subst m'. cbn [m_bytes].
    rewrite get_fold_set_bits, (H j Hj). reflexivity.
Qed.

Lemma insert_contains f x : len_ok f -> is_loaded f = true -> contains (insert f x) x = true.
Proof. exact (add_matches f x). Qed.
Lemma contains_insert_monotone f x y : contains f x = true -> contains (insert f y) x = true.
Proof. exact (add_monotone f x y). Qed.

(* bytes only gain bits *)
Theorem add_bits_monotone f x m m' k :
  f = Some m -> add f x = Some m' -> get_bit (m_bytes m) k = true -> get_bit (m_bytes m') k = true.
Proof.
  intros -> H Hk. cbn [add] in H. destruct (is_empty_a m).
  - inversion H; subst; exact Hk.
  - inversion H; subst. cbn [m_bytes]. rewrite get_fold_set_bits, Hk. reflexivity.
Qed.

(* ---------- histories ---------- *)
Definition all_match (f : filter) (acc : list (list N)) : Prop :=
  is_loaded f = true -> forall x, In x acc -> matches f x = true.

Lemma run_cons f o t : final f (o :: t) = final (fst (step f o)) t.
Proof.
  unfold final. cbn [run]. destruct (step f o) as [f1 r]. cbn [fst]. destruct (run f1 t) as [f2 rs]. reflexivity.
Qed.

Lemma history_invariant ops : forall f acc,
  len_ok f -> reloads_ok ops -> all_match f acc ->
  len_ok (final f ops) /\ all_match (final f ops) (live_items acc ops).
Proof.
  induction ops as [|o t IH]; intros f acc Hok Hr Hinv.
  - split; assumption.
  - rewrite run_cons. inversion Hr as [|o' t' Ho Ht]; subst.
    assert (ADD : forall d, len_ok (add f d) /\ all_match (add f d) (d :: acc)).
    { intros d. split; [apply add_len_ok; exact Hok|]. intros Hl y [<-|Hy].
      - rewrite add_is_loaded in Hl. apply add_matches; assumption.
      - rewrite add_is_loaded in Hl. apply add_monotone. apply Hinv; assumption. }
    destruct o as [d|h|tx i|d|tx i|m| |]; cbn [live_items item_of step fst];
      try (apply IH; [apply (ADD _)|exact Ht|apply (ADD _)]);
      try (apply IH; assumption).
    + (* Reload *) apply IH; [destruct m; [exact Ho|exact I]|exact Ht|intros _ y []].
    + (* Unload *) apply IH; [exact I|exact Ht|intros _ y []].
Qed.

Theorem history_no_false_negative f ops x :
  len_ok f -> reloads_ok ops ->
  In x (live_items [] ops) -> is_loaded (final f ops) = true -> matches (final f ops) x = true.
Proof.
  intros Hok Hr Hin Hl.
  destruct (history_invariant ops f [] Hok Hr) as [_ H]; [intros _ y []|].
  apply H; assumption.
Qed.

(* ---------- unloaded filters ---------- *)
Definition no_reload (ops : list op) : Prop :=
  Forall (fun o => match o with OReload _ => False | _ => True end) ops.

Definition is_query (o : op) : bool :=
  match o with OMatches _ | OMatchesOutPoint _ _ | OIsLoaded => true | _ => false end.

Theorem unloaded_inert ops :
  no_reload ops ->
  final None ops = None /\
  Forall2 (fun o r => r = negb (is_query o)) ops (snd (run None ops)).
Proof.
  induction ops as [|o t IH]; intros Hn.
  - split; [reflexivity|constructor].
  - inversion Hn as [|o' t' Ho Ht]; subst. specialize (IH Ht) as [IH1 IH2].
    unfold final in *. cbn [run].
    destruct o as [d|h|tx i|d|tx i|m| |]; try contradiction; cbn [step add add_outpoint unload matches matches_outpoint is_loaded]; unfold unload;
      destruct (run None t) as [f2 rs]; cbn [fst snd] in *; (split; [exact IH1|constructor; [reflexivity|exact IH2]]).
Qed.

(* ---------- sizing ---------- *)
Lemma min_u32_le_r a b : min_u32 a b <= b.
Proof. unfold min_u32. destruct (N.ltb_spec a b); lia. Qed.

Theorem sizing_within_limits conv_len conv_hash :
  fst (sizing conv_len conv_hash) <= max_filter_size /\ snd (sizing conv_len conv_hash) <= max_hash_funcs.
Proof.
  unfold sizing. cbn [fst snd]. destruct lits_new_filter as (-> & -> & ->). split.
  - pose proof (min_u32_le_r (w32 conv_len) (w32 (max_filter_size * 8))) as H.
    change (w32 (max_filter_size * 8)) with 288000 in *. change max_filter_size with 36000.
    apply N.div_le_upper_bound; lia.
  - apply min_u32_le_r.
Qed.

Theorem new_filter_within_limits conv_len conv_hash tweak flags :
  exists m, new_filter conv_len conv_hash tweak flags = Some m /\ within_wire_limits m /\ len_ok_msg m /\
            Forall (fun b => b = 0) (m_bytes m) /\ m_tweak m < 2^32.
Proof.
  unfold new_filter. pose proof (sizing_within_limits conv_len conv_hash) as [H1 H2].
  destruct (sizing conv_len conv_hash) as [dl hf]. cbn [fst snd] in *.
  eexists. split; [reflexivity|]. unfold within_wire_limits, len_ok_msg. cbn [m_bytes m_nhash m_tweak].
  rewrite repeat_length, N2Nat.id. change max_filter_size with 36000 in H1.
  repeat split; try assumption; try lia.
  - apply Forall_forall. intros b Hb. apply repeat_spec in Hb. exact Hb.
  - rewrite w32_mod. apply N.mod_lt. lia.
Qed.

(* ---------- facts about histories used by the concurrency corollaries (Conc/BloomConc.v) ---------- *)
Definition is_reset (o : op) : bool := match o with OReload _ | OUnload => true | _ => false end.
Definition no_reset (ops : list op) : Prop := Forall (fun o => is_reset o = false) ops.

Lemma final_app f a b : final f (a ++ b) = final (final f a) b.
Proof.
  revert f. induction a as [|o a IH]; intros f; [reflexivity|].
  change ((o :: a) ++ b) with (o :: (a ++ b)). rewrite !run_cons. apply IH.
Qed.

Lemma no_reset_reloads_ok ops : no_reset ops -> reloads_ok ops.
Proof.
  intros H. unfold reloads_ok. eapply Forall_impl; [|exact H]. intros o Ho. destruct o as [| | | | |[m|]| |]; try exact I; discriminate.
Qed.

Lemma step_no_reset_loaded f o : is_reset o = false -> is_loaded (fst (step f o)) = is_loaded f.
Proof. destruct o; try discriminate; intros _; cbn [step fst]; try reflexivity; unfold add_outpoint; apply add_is_loaded. Qed.

Lemma no_reset_is_loaded ops : forall f, no_reset ops -> is_loaded (final f ops) = is_loaded f.
Proof.
  induction ops as [|o t IH]; intros f H; [reflexivity|]. inversion H; subst.
  rewrite run_cons, IH by assumption. apply step_no_reset_loaded. assumption.
Qed.

Lemma live_items_no_reset ops : forall acc x, no_reset ops ->
  (In x (live_items acc ops) <-> In x acc \/ exists o, In o ops /\ item_of o = Some x).
Proof.
  induction ops as [|o t IH]; intros acc x H.
  - cbn [live_items]. split; [auto|]. intros [H1|(o & [] & _)]. exact H1.
  - inversion H as [|o' t' Ho Ht]; subst.
    assert (E : live_items acc (o :: t) = match item_of o with Some d => live_items (d :: acc) t | None => live_items acc t end).
    { destruct o; try discriminate; reflexivity. }
    rewrite E. destruct (item_of o) as [d|] eqn:Ei; rewrite IH by exact Ht; split.
    + intros [[<-|Ha]|(o1 & Ho1 & Hi)]; [right; exists o; split; [left; reflexivity|exact Ei]|left; exact Ha|right; exists o1; split; [right; exact Ho1|exact Hi]].
    + intros [Ha|(o1 & [<-|Ho1] & Hi)]; [left; right; exact Ha|left; left; congruence|right; exists o1; split; assumption].
    + intros [Ha|(o1 & Ho1 & Hi)]; [left; exact Ha|right; exists o1; split; [right; exact Ho1|exact Hi]].
    + intros [Ha|(o1 & [<-|Ho1] & Hi)]; [left; exact Ha|congruence|right; exists o1; split; assumption].
Qed.

(* after any reset-free history from a loaded filter, everything inserted matches *)
Theorem inserted_items_match f ops o x :
  len_ok f -> is_loaded f = true -> no_reset ops -> In o ops -> item_of o = Some x -> matches (final f ops) x = true.
Proof.
  intros Hok Hl Hn Ho Hi. apply history_no_false_negative; try assumption.
  - apply no_reset_reloads_ok. exact Hn.
  - apply live_items_no_reset; [exact Hn|]. right. exists o. split; assumption.
  - rewrite no_reset_is_loaded by exact Hn. exact Hl.
Qed.

Lemma final_len_ok ops : forall f, len_ok f -> reloads_ok ops -> len_ok (final f ops).
Proof. intros f H1 H2. destruct (history_invariant ops f [] H1 H2) as [H _]; [intros _ y []|exact H]. Qed.

(* read your completed insert, in the serial order: a Matches(x) that comes after an insertion of x, with no
   Reload/Unload in between, on a filter that was loaded when x went in, answers true *)
Theorem read_your_insert f pre oa mid x :
  len_ok f -> reloads_ok pre -> is_loaded (final f pre) = true -> item_of oa = Some x -> no_reset mid ->
  snd (step (final f (pre ++ oa :: mid)) (OMatches x)) = true.
Proof.
  intros Hok Hr Hl Hi Hn. cbn [step snd]. rewrite final_app.
  assert (Hoa : is_reset oa = false) by (destruct oa; try discriminate; reflexivity).
  apply (inserted_items_match (final f pre) (oa :: mid) oa x).
  - apply final_len_ok; assumption.
  - exact Hl.
  - constructor; assumption.
  - left. reflexivity.
  - exact Hi.
Qed.

(* BIP37 bit-exactness of whole histories: after any sequence of insertions (and queries) since the
   filter message was loaded, the bit array is the one BIP37 defines -- the initial bits plus exactly
   the bits selected by the inserted items -- and every membership answer is BIP37's. *)
From BU Require Import Lib.Bytes Lib.PolyMod Gen.Xbloom Bloom.Murmur3 Bloom.Bloom Bloom.Bip37Spec Bloom.BloomProofs Bloom.Bip37Proofs.
From Coq Require Import ZifyBool ZifyN ZifyNat.


Theorem spec_after_unique nh tw items v0 v1 v2 :
  spec_after nh tw items v0 v1 -> spec_after nh tw items v0 v2 -> v1 = v2.
Proof.
  intros (L1 & B1 & S1) (L2 & B2 & S2). apply bytes_ext; try assumption; [congruence|].
  intros k Hk. rewrite L1 in Hk.
  destruct (spec_bit v1 k) eqn:E1; destruct (spec_bit v2 k) eqn:E2; try reflexivity.
  - apply S1 in E1; [|exact Hk]. apply S2 in E1; [|exact Hk]. congruence.
  - apply S2 in E2; [|exact Hk]. apply S1 in E2; [|exact Hk]. congruence.
Qed.

Lemma spec_after_nil nh tw v : Bytes v -> spec_after nh tw [] v v.
Proof.
  intros B. split; [reflexivity|]. split; [exact B|]. intros k _. split; [auto|].
  intros [H|(it & [] & _)]. exact H.
Qed.

(* one more insertion *)
Lemma spec_after_step nh tw items v0 v d v' :
  spec_after nh tw items v0 v -> spec_insert nh tw d v v' -> spec_after nh tw (d :: items) v0 v'.
Proof.
  intros (L & B & S) (L' & B' & S'). split; [congruence|]. split; [exact B'|].
  intros k Hk. assert (Hk' : k < N.of_nat (length v) * 8) by (rewrite L; exact Hk).
  rewrite (S' k Hk'), (S k Hk), L. split.
  - intros [[H|(it & Hi & Hs)]|H]; [left; exact H|right; exists it; split; [right; exact Hi|exact Hs]|right; exists d; split; [left; reflexivity|exact H]].
  - intros [H|(it & [<-|Hi] & Hs)]; [left; left; exact H|right; exact Hs|left; right; exists it; split; assumption].
Qed.

Lemma history_is_bip37_gen ops : forall m v0 items,
  bip37_wf m -> no_reset ops -> length v0 = length (m_bytes m) ->
  spec_after (m_nhash m) (m_tweak m) items v0 (m_bytes m) ->
  exists v, final (Some m) ops = Some (MkMsg v (m_nhash m) (m_tweak m) (m_flags m)) /\
            bip37_wf (MkMsg v (m_nhash m) (m_tweak m) (m_flags m)) /\
            spec_after (m_nhash m) (m_tweak m) (live_items items ops) v0 v.
Proof.
  induction ops as [|o t IH]; intros m v0 items Hwf Hn Hl Hs.
  - exists (m_bytes m). destruct m as [b n tw fl]. cbn [m_bytes m_nhash m_tweak m_flags] in *.
    split; [reflexivity|]. split; assumption.
  - inversion Hn as [|o' t' Ho Ht]; subst. rewrite run_cons.
    assert (ADD : forall d, exists v, add (Some m) d = Some (MkMsg v (m_nhash m) (m_tweak m) (m_flags m)) /\
                   bip37_wf (MkMsg v (m_nhash m) (m_tweak m) (m_flags m)) /\ length v0 = length v /\
                   spec_after (m_nhash m) (m_tweak m) (d :: items) v0 v).
    { intros d. destruct (model_is_bip37 m d Hwf) as (_ & _ & v' & Ea & Si & _). exists v'.
      split; [exact Ea|]. pose proof Si as (L' & B' & _).
      destruct Hwf as (Hne & Hok & Hb & Hnh & Htw).
      split; [|split].
      - unfold bip37_wf, len_ok_msg in *. cbn [m_bytes m_nhash m_tweak]. rewrite L'.
        repeat split; try assumption. intro E. apply Hne. destruct (m_bytes m); [reflexivity|]. rewrite E in L'. discriminate.
      - congruence.
      - eapply spec_after_step; eassumption. }
    assert (GO : forall d, exists v, final (add (Some m) d) t = Some (MkMsg v (m_nhash m) (m_tweak m) (m_flags m)) /\
                   bip37_wf (MkMsg v (m_nhash m) (m_tweak m) (m_flags m)) /\
                   spec_after (m_nhash m) (m_tweak m) (live_items (d :: items) t) v0 v).
    { intros d. destruct (ADD d) as (v1 & Ea & Hwf1 & L1 & S1). rewrite Ea.
      exact (IH (MkMsg v1 (m_nhash m) (m_tweak m) (m_flags m)) v0 (d :: items) Hwf1 Ht L1 S1). }
    destruct o as [d|h|tx i|d|tx i|mm| |]; try discriminate; cbn [step fst live_items item_of];
      try (apply GO); try (apply IH; assumption).
Qed.

(* from the moment a well-formed message was loaded (LoadFilter = the case pre = [], f arbitrary) *)
Theorem history_is_bip37 f pre m ops :
  bip37_wf m -> no_reset ops ->
  exists v, final f (pre ++ OReload (Some m) :: ops) = Some (MkMsg v (m_nhash m) (m_tweak m) (m_flags m)) /\
    spec_after (m_nhash m) (m_tweak m) (live_items [] ops) (m_bytes m) v /\
    (forall v', spec_after (m_nhash m) (m_tweak m) (live_items [] ops) (m_bytes m) v' -> v' = v) /\
    (forall d, matches (final f (pre ++ OReload (Some m) :: ops)) d = true <-> spec_contains (m_nhash m) (m_tweak m) d v) /\
    (forall txid index, index < 2^32 ->
       (matches_outpoint (final f (pre ++ OReload (Some m) :: ops)) txid index = true <->
        spec_contains (m_nhash m) (m_tweak m) (spec_outpoint txid index) v)).
Proof.
  intros Hwf Hn. rewrite final_app, run_cons. cbn [step fst reload].
  destruct (history_is_bip37_gen ops m (m_bytes m) [] Hwf Hn eq_refl) as (v & Ef & Hwf' & Hs).
  { apply spec_after_nil. apply Hwf. }
  exists v. change (reload (final f pre) (Some m)) with (Some m). rewrite Ef. split; [reflexivity|]. split; [exact Hs|]. split.
  - intros v' Hs'. exact (spec_after_unique _ _ _ _ _ _ Hs' Hs).
  - assert (M : forall d, matches (Some (MkMsg v (m_nhash m) (m_tweak m) (m_flags m))) d = true <->
                       spec_contains (m_nhash m) (m_tweak m) d v).
    { intros d. destruct (model_is_bip37 _ d Hwf') as (_ & Hm & _). exact Hm. }
    split; [exact M|]. intros txid index Hi. rewrite matches_outpoint_eq, outpoint_is_bip37 by exact Hi. apply M.
Qed.

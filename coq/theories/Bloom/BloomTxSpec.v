(* C10: the declarative vocabulary the theorems are stated in (definitions only). *)
From BU Require Import Lib.Bytes Bloom.BloomTx.

Section Spec.
  Variables (F item txid : Type).
  Variable contains : F -> item -> bool.
  Variable insert : F -> item -> F.
  Variable id_item : txid -> item.
  Variable op_item : txid -> N -> item.
  Notation tx := (tx item txid).

  (* what is assumed of the filter (proved of the concrete instances in BloomTxInst.v) *)
  Record filter_laws : Prop := {
    ins_contains : forall f x, contains (insert f x) x = true;                          (* no false negative *)
    ins_mono : forall f x y, contains f y = true -> contains (insert f x) y = true      (* bits are only added *)
  }.

  (* "insert adds nothing but the item": a filter without false positives created by
     insertions (an exact set).  A real bloom filter does not satisfy this. *)
  Definition exact_insert : Prop :=
    forall f x y, contains (insert f x) y = true -> contains f y = true \/ y = x.

  (* g contains whatever f contains *)
  Definition le_f (f g : F) : Prop := forall x, contains f x = true -> contains g x = true.

  (* the four-way disjunction of the property, against one filter state *)
  Definition matches_spec (f : F) (t : tx) : Prop :=
    contains f (id_item (t_id t)) = true
    \/ (exists o, In o (t_outs t) /\ out_hit contains f o = true)
    \/ (exists inp, In inp (t_ins t) /\ contains f (op_item (i_hash inp) (i_index inp)) = true)
    \/ (exists inp ps p, In inp (t_ins t) /\ i_pushes inp = Some ps /\ In p ps /\ contains f p = true).

  (* the filter after the outputs [outs] (numbered from [i]) have been examined in order:
     an output whose pushes hit the current filter has its outpoint inserted if the flag allows *)
  Fixpoint upd_outputs (fl : uflag) (h : txid) (i : N) (outs : list (txout item)) (f : F) : F :=
    match outs with
    | [] => f
    | o :: rest =>
        upd_outputs fl h (i + 1) rest
          (if out_hit contains f o then maybe_add_outpoint insert op_item fl f (o_class o) h i else f)
    end.

  (* the filter state at the moment output number k of t is examined *)
  Definition filter_before (fl : uflag) (f : F) (t : tx) (k : nat) : F :=
    upd_outputs fl (t_id t) 0 (firstn k (t_outs t)) f.

  (* t spends an outpoint of p whose output matches f0 and whose outpoint the flag lets be inserted *)
  Definition spends_hit (fl : uflag) (f0 : F) (t p : tx) : Prop :=
    exists inp k o,
      In inp (t_ins t) /\ i_hash inp = t_id p /\ i_index inp = N.of_nat k /\
      nth_error (t_outs p) k = Some o /\ out_hit contains f0 o = true /\ flag_allows fl (o_class o) = true.

  (* the relevant transactions of a block for the filter f0: the least set containing the
     transactions that match f0 and closed under "spends an outpoint that a member's
     matching output caused to be inserted".  It depends on the SET of transactions only. *)
  Inductive Rel (fl : uflag) (f0 : F) (txs : list tx) : tx -> Prop :=
  | Rel_init t : In t txs -> matches_spec f0 t -> Rel fl f0 txs t
  | Rel_spend p t : Rel fl f0 txs p -> In t txs -> spends_hit fl f0 t p -> Rel fl f0 txs t.

  (* Generalisation used for the stronger completeness statement: [Hot t k] singles out
     outputs whose outpoint is guaranteed to be in the filter after any MATCHING call of
     matchTxAndUpdate on t (hypothesis of the theorem).  [hot0] = "output k hits f0 and the
     flag allows its class" is the instance that gives [Rel]. *)
  Definition spends_hot (Hot : tx -> nat -> Prop) (t p : tx) : Prop :=
    exists inp k, In inp (t_ins t) /\ i_hash inp = t_id p /\ i_index inp = N.of_nat k /\ Hot p k.

  Inductive RelH (Hot : tx -> nat -> Prop) (f0 : F) (txs : list tx) : tx -> Prop :=
  | RelH_init t : In t txs -> matches_spec f0 t -> RelH Hot f0 txs t
  | RelH_spend p t : RelH Hot f0 txs p -> In t txs -> spends_hot Hot t p -> RelH Hot f0 txs t.

  Definition hot0 (fl : uflag) (f0 : F) (t : tx) (k : nat) : Prop :=
    exists o, nth_error (t_outs t) k = Some o /\ out_hit contains f0 o = true /\ flag_allows fl (o_class o) = true.

  (* no byte string that a transaction of the block presents as a txid or a data push is
     the serialisation of an outpoint of a transaction of the block (a 36-byte push equal
     to txid‖index); needed only for the exactness statement *)
  Definition pushes_of_tx (t : tx) : list item :=
    flat_map (fun o => match o_pushes o with Some ps => ps | None => [] end) (t_outs t)
    ++ flat_map (fun i => match i_pushes i with Some ps => ps | None => [] end) (t_ins t).
  Definition no_alias (txs : list tx) : Prop :=
    forall t p k x, In t txs -> In p txs -> (x = id_item (t_id t) \/ In x (pushes_of_tx t)) -> x <> op_item (t_id p) k.
  Definition op_injective : Prop :=
    forall h i h' i', op_item h i = op_item h' i' -> h = h' /\ i = i'.
End Spec.

Arguments Rel {F item txid}.
Arguments RelH {F item txid}.
Arguments spends_hot {item txid}.
Arguments hot0 {F item txid}.
Arguments matches_spec {F item txid}.
Arguments spends_hit {F item txid}.
Arguments le_f {F item}.
Arguments upd_outputs {F item txid}.
Arguments filter_before {F item txid}.
Arguments filter_laws {F item}.
Arguments ins_contains {F item contains insert}.
Arguments ins_mono {F item contains insert}.
Arguments exact_insert {F item}.
Arguments no_alias {item txid}.
Arguments op_injective {item txid}.
Arguments pushes_of_tx {item txid}.

(* The model of bloom/filter.go (shifts, masks, two-step uint32 wrap, literals taken from the
   source) computes exactly what Bip37Spec.v (div, mod, testbit, one mod 2^32) defines. *)
From BU Require Import Lib.Bytes Lib.PolyMod Gen.Xbloom Bloom.Murmur3 Bloom.Bloom Bloom.Bip37Spec Bloom.BloomProofs.
From Coq Require Import ZifyBool ZifyN ZifyNat.

Lemma limits_are_bip37 : max_filter_size = spec_max_size /\ max_hash_funcs = spec_max_hash_funcs.
Proof. split; reflexivity. Qed.

Lemma get_bit_is_spec v k : get_bit v k = spec_bit v k.
Proof. reflexivity. Qed.

Lemma seed_is_spec i tweak : i < 2^32 -> tweak < 2^32 -> seed_of i tweak = spec_seed i tweak.
Proof.
  intros Hi Ht. unfold seed_of, spec_seed, seed_mult. rewrite !w32_mod. destruct lits_hash as (-> & _).
  rewrite (N.mod_small i), (N.mod_small tweak) by assumption.
  rewrite N.add_mod_idemp_l by lia. reflexivity.
Qed.

Lemma bit_index_is_spec m i d :
  len_ok_msg m -> i < 2^32 -> m_tweak m < 2^32 ->
  bit_index m i d = spec_bit_number (length (m_bytes m)) (m_tweak m) i d.
Proof.
  intros Hok Hi Ht. unfold bit_index, spec_bit_number.
  rewrite nbits_no_wrap by exact Hok. rewrite seed_is_spec by assumption. reflexivity.
Qed.

Lemma in_hash_nums n i : In i (hash_nums n) <-> i < w32 n.
Proof.
  unfold hash_nums. rewrite in_map_iff. split.
  - intros (k & <- & Hk). apply in_seq in Hk. lia.
  - intros H. exists (N.to_nat i). split; [lia|]. apply in_seq. lia.
Qed.

Lemma indices_are_spec m d k :
  len_ok_msg m -> m_nhash m < 2^32 -> m_tweak m < 2^32 ->
  (In k (indices m d) <-> spec_selects (length (m_bytes m)) (m_nhash m) (m_tweak m) d k).
Proof.
  intros Hok Hn Ht. unfold indices, spec_selects. rewrite in_map_iff.
  assert (W : w32 (m_nhash m) = m_nhash m) by (rewrite w32_mod; apply N.mod_small; exact Hn).
  split.
  - intros (i & <- & Hi). apply in_hash_nums in Hi. rewrite W in Hi. exists i. split; [exact Hi|].
    apply bit_index_is_spec; try assumption. lia.
  - intros (i & Hi & ->). exists i. split.
    + apply bit_index_is_spec; try assumption. lia.
    + apply in_hash_nums. rewrite W. exact Hi.
Qed.

Lemma lor_byte a b : a < 256 -> b < 256 -> N.lor a b < 256.
Proof.
  intros Ha Hb. rewrite <- (N.mod_small a 256), <- (N.mod_small b 256) by assumption.
  change 256 with (2^8). rewrite <- !N.land_ones, <- N.land_lor_distr_l, N.land_ones.
  apply N.mod_lt. lia.
Qed.

Lemma upd_Bytes l k f : Bytes l -> (forall b, b < 256 -> f b < 256) -> Bytes (upd l k f).
Proof.
  intros Hl Hf. revert k. unfold Bytes in *. induction Hl as [|x t Hx Ht IH]; intros [|k]; cbn [upd].
  - constructor.
  - constructor.
  - constructor; [apply Hf; exact Hx|exact Ht].
  - constructor; [exact Hx|apply IH].
Qed.

Lemma set_bit_Bytes v idx : Bytes v -> Bytes (set_bit v idx).
Proof.
  intros Hv. unfold set_bit. apply upd_Bytes; [exact Hv|]. intros b Hb. apply lor_byte; [exact Hb|].
  rewrite w8_mod. apply N.mod_lt. lia.
Qed.

Lemma fold_set_bits_Bytes js : forall v, Bytes v -> Bytes (fold_left set_bit js v).
Proof. induction js as [|j js IH]; intros v Hv; cbn [fold_left]; [exact Hv|]. apply IH, set_bit_Bytes, Hv. Qed.

(* a byte string is determined by its length and its bits *)
Lemma spec_bit_cons x v k : spec_bit (x :: v) (k + 8) = spec_bit v k.
Proof.
  unfold spec_bit.
  assert (E1 : (k + 8) / 8 = k / 8 + 1) by lia.
  assert (E2 : (k + 8) mod 8 = k mod 8) by lia.
  rewrite E1, E2. replace (N.to_nat (k / 8 + 1)) with (S (N.to_nat (k / 8))) by lia. reflexivity.
Qed.

Lemma byte_ext x y : x < 256 -> y < 256 -> (forall k, k < 8 -> N.testbit x k = N.testbit y k) -> x = y.
Proof.
  intros Hx Hy H. apply N.bits_inj. intro n. destruct (N.ltb_spec n 8) as [L|L]; [apply H; exact L|].
  rewrite <- (N.mod_small x (2^8)), <- (N.mod_small y (2^8)) by assumption.
  rewrite !N.mod_pow2_bits_high by exact L. reflexivity.
Qed.

Lemma bytes_ext v1 : forall v2,
  length v1 = length v2 -> Bytes v1 -> Bytes v2 ->
  (forall k, k < N.of_nat (length v1) * 8 -> spec_bit v1 k = spec_bit v2 k) -> v1 = v2.
Proof.
  induction v1 as [|x t IH]; intros [|y u] Hl H1 H2 Hb; try discriminate; [reflexivity|].
  apply Bytes_cons in H1 as [Hx Ht]. apply Bytes_cons in H2 as [Hy Hu].
  f_equal.
  - apply byte_ext; try assumption. intros k Hk.
    specialize (Hb k). unfold spec_bit in Hb.
    assert (E1 : k / 8 = 0) by lia. assert (E2 : k mod 8 = k) by lia.
    rewrite E1, E2 in Hb. cbn [N.to_nat nth] in Hb. apply Hb. cbn [length]. lia.
  - apply IH; try assumption; [cbn [length] in Hl; lia|].
    intros k Hk. rewrite <- (spec_bit_cons x t k), <- (spec_bit_cons y u k). apply Hb. cbn [length]. lia.
Qed.

Theorem spec_insert_unique nh tw item v v1 v2 :
  spec_insert nh tw item v v1 -> spec_insert nh tw item v v2 -> v1 = v2.
Proof.
  intros (L1 & B1 & S1) (L2 & B2 & S2). apply bytes_ext; try assumption; [congruence|].
  intros k Hk. rewrite L1 in Hk.
  destruct (spec_bit v1 k) eqn:E1; destruct (spec_bit v2 k) eqn:E2; try reflexivity.
  - apply S1 in E1; [|exact Hk]. apply S2 in E1; [|exact Hk]. congruence.
  - apply S2 in E2; [|exact Hk]. apply S1 in E2; [|exact Hk]. congruence.
Qed.

Definition bip37_wf (m : msg) : Prop :=
  m_bytes m <> [] /\ len_ok_msg m /\ Bytes (m_bytes m) /\ m_nhash m < 2^32 /\ m_tweak m < 2^32.

(* the model is BIP37: same bit numbers, membership = all selected bits set, insertion = exactly the
   selected bits additionally set (which determines the resulting byte string uniquely) *)
Theorem model_is_bip37 m item :
  bip37_wf m ->
  (forall i, i < m_nhash m -> bit_index m i item = spec_bit_number (length (m_bytes m)) (m_tweak m) i item) /\
  (matches (Some m) item = true <-> spec_contains (m_nhash m) (m_tweak m) item (m_bytes m)) /\
  (exists v', add (Some m) item = Some (MkMsg v' (m_nhash m) (m_tweak m) (m_flags m)) /\
              spec_insert (m_nhash m) (m_tweak m) item (m_bytes m) v' /\
              forall v'', spec_insert (m_nhash m) (m_tweak m) item (m_bytes m) v'' -> v'' = v').
Proof.
  intros (Hne & Hok & Hb & Hn & Ht). split; [|split].
  - intros i Hi. apply bit_index_is_spec; try assumption. lia.
  - rewrite matches_loaded_nonempty by exact Hne. rewrite forallb_forall. unfold spec_contains. split.
    + intros H k Hk. apply indices_are_spec in Hk; try assumption. apply (H k Hk).
    + intros H k Hk. apply H. apply indices_are_spec; assumption.
  - rewrite add_loaded_nonempty by exact Hne. eexists. split; [reflexivity|].
    assert (SI : spec_insert (m_nhash m) (m_tweak m) item (m_bytes m) (fold_left set_bit (indices m item) (m_bytes m))).
    { split; [apply fold_set_bits_length|]. split; [apply fold_set_bits_Bytes; exact Hb|].
      intros k Hk. rewrite <- !get_bit_is_spec, get_fold_set_bits, orb_true_iff, existsb_exists.
      split.
      - intros [H|(j & Hj & Hjk)]; [left; exact H|right].
        apply andb_true_iff in Hjk as [Hjk _]. apply N.eqb_eq in Hjk. subst j.
        apply indices_are_spec; assumption.
      - intros [H|H]; [left; exact H|right]. apply indices_are_spec in H; try assumption.
        exists k. split; [exact H|]. rewrite N.eqb_refl. cbn [andb]. apply N.ltb_lt.
        pose proof (indices_in_range m item Hok Hne) as F. rewrite Forall_forall in F. apply F. exact H. }
    split; [exact SI|]. intros v'' H''. apply (spec_insert_unique _ _ _ _ _ _ H'' SI).
Qed.

Theorem outpoint_is_bip37 txid index : index < 2^32 -> outpoint_bytes txid index = spec_outpoint txid index.
Proof.
  intros H. unfold outpoint_bytes, spec_outpoint. rewrite outpoint_width. f_equal.
  rewrite w32_mod. rewrite (N.mod_small index) by exact H.
  change (N.to_nat 4) with 4%nat. cbn [le_bytes].
  rewrite !N.div_div by lia. reflexivity.
Qed.

(* Bitcoin Core's serialised vectors (bloom_tests.cpp: bloom_create_insert_serialize,
   bloom_create_insert_serialize_with_tweak), as they also appear in bloom/filter_test.go *)
Definition core_items : list (list N) :=
  [ [0x99;0x10;0x8a;0xd8;0xed;0x9b;0xb6;0x27;0x4d;0x39;0x80;0xba;0xb5;0xa8;0x5c;0x04;0x8f;0x09;0x50;0xc8];
    [0xb5;0xa2;0xc7;0x86;0xd9;0xef;0x46;0x58;0x28;0x7c;0xed;0x59;0x14;0xb3;0x7a;0x1b;0x4a;0xa3;0x2e;0xee];
    [0xb9;0x30;0x06;0x70;0xb4;0xc5;0x36;0x6e;0x95;0xb2;0x69;0x9e;0x8b;0x18;0xbc;0x75;0xe5;0xf7;0x29;0xc5] ].
Definition core_absent : list N :=
    [0x19;0x10;0x8a;0xd8;0xed;0x9b;0xb6;0x27;0x4d;0x39;0x80;0xba;0xb5;0xa8;0x5c;0x04;0x8f;0x09;0x50;0xc8].

Definition core_run (tweak : N) : filter := fold_left add core_items (Some (MkMsg [0;0;0] 5 tweak 1)).

Example core_vector_1 :
  option_map m_bytes (core_run 0) = Some [0x61;0x4e;0x9b] /\
  forallb (matches (core_run 0)) core_items = true /\ matches (core_run 0) core_absent = false.
Proof. vm_compute. repeat split. Qed.

Example core_vector_tweak :
  option_map m_bytes (core_run 2147483649) = Some [0xce;0x42;0x99] /\
  forallb (matches (core_run 2147483649)) core_items = true /\ matches (core_run 2147483649) core_absent = false.
Proof. vm_compute. repeat split. Qed.

(* MurmurHash3 against the published reference vectors (SMHasher / the x86_32 reference) and the vectors of
   bloom/murmurhash3_test.go (taken from Bitcoin Core's hash_tests.cpp) *)
Example murmur3_vectors :
  map (fun '(s, d) => murmur3 s d)
    [ (0, []); (1, []); (0xffffffff, []); (0, [0xff;0xff;0xff;0xff]); (0, [0x21;0x43;0x65;0x87]);
      (0x5082EDEE, [0x21;0x43;0x65;0x87]); (0, [0x21;0x43;0x65]); (0, [0x21;0x43]); (0, [0x21]);
      (0, [0;0;0;0]); (0, [0;0;0]); (0, [0;0]); (0, [0]);
      (0xfba4c795, []); (0xfba4c795, [0]); (0, [0xff]); (0, [0;0x11]); (0, [0;0x11;0x22]); (0, [0;0x11;0x22;0x33]);
      (0, [0;0x11;0x22;0x33;0x44]); (0, [0;0x11;0x22;0x33;0x44;0x55]); (0, [0;0x11;0x22;0x33;0x44;0x55;0x66]);
      (0, [0;0x11;0x22;0x33;0x44;0x55;0x66;0x77]); (0, [0;0x11;0x22;0x33;0x44;0x55;0x66;0x77;0x88]) ]
  = [ 0; 0x514E28B7; 0x81F16F39; 0x76293B50; 0xF55B516B; 0x2362F9DE; 0x7E4A8634; 0xA0F7B07A; 0x72661CF4;
      0x2362F9DE; 0x85F0B427; 0x30F4C306; 0x514E28B7;
      0x6a396f08; 0xea3f0b17; 0xfd6cf10d; 0x16c6b7ab; 0x8eb51c3d; 0xb4471bf8; 0xe2301fa8; 0xfc2e4a15; 0xb074502c;
      0x8034d2a0; 0xb4698def ].
Proof. vm_compute. reflexivity. Qed.

(* C10 over the C09 model: the abstract filter of Bloom/BloomTx.v instantiated by the bloom filter of
   Bloom/Bloom.v (matches/add with the source's murmur hashing, shifts and masks), so that the C10
   theorems are statements about bloom/filter.go's own matches/add and not only about "any filter
   satisfying the laws".

   State type: a LOADED filter whose array is shorter than 2^29 bytes (uint32(len)<<3 does not wrap;
   implied by the wire limit 36000).  These states are closed under add, and on them the two laws hold
   (BloomProofs.add_matches, add_monotone).  The unloaded filter is covered separately (nothing
   matches, nothing changes). *)
From BU Require Import Lib.Bytes Bloom.Murmur3 Bloom.Bloom Bloom.BloomProofs.
From BU Require Import Bloom.BloomTx Bloom.BloomTxSpec Bloom.BloomTxProofs Bloom.BloomTxScanProofs.
From Coq Require Import Permutation.

(* add on a loaded filter, as a function on messages *)
Definition add_msg (m : msg) (x : list N) : msg :=
  match add (Some m) x with Some m' => m' | None => m end.

Lemma add_msg_eq m x : add (Some m) x = Some (add_msg m x).
Proof. unfold add_msg. cbn [add]. destruct (is_empty_a m); reflexivity. Qed.

Lemma add_msg_len_ok m x : len_ok_msg m -> len_ok_msg (add_msg m x).
Proof. intros H. pose proof (add_len_ok (Some m) x H) as H'. rewrite add_msg_eq in H'. exact H'. Qed.

Lemma add_msg_flags m x : m_flags (add_msg m x) = m_flags m.
Proof. pose proof (add_params (Some m) x) as H. rewrite add_msg_eq in H. cbn [params] in H. congruence. Qed.

Definition lfilter : Type := { m : msg | len_ok_msg m }.
Definition lf_msg (s : lfilter) : msg := proj1_sig s.
Definition lf_filter (s : lfilter) : filter := Some (lf_msg s).             (* the bloom.Filter state *)
Definition lf_contains (s : lfilter) (x : list N) : bool := matches (lf_filter s) x.      (* bf.matches *)
Definition lf_insert (s : lfilter) (x : list N) : lfilter :=                                (* bf.add *)
  exist _ (add_msg (lf_msg s) x) (add_msg_len_ok (lf_msg s) x (proj2_sig s)).

Lemma lf_insert_is_add s x : lf_filter (lf_insert s x) = add (lf_filter s) x.
Proof. unfold lf_filter, lf_insert, lf_msg. cbn [proj1_sig]. symmetry. apply add_msg_eq. Qed.

Lemma lf_insert_flags s x : m_flags (lf_msg (lf_insert s x)) = m_flags (lf_msg s).
Proof. apply add_msg_flags. Qed.

Theorem bloom_filter_laws : filter_laws lf_contains lf_insert.
Proof.
  split; unfold lf_contains.
  - intros s x. rewrite lf_insert_is_add. apply add_matches; [exact (proj2_sig s)|reflexivity].
  - intros s x y H. rewrite lf_insert_is_add. apply add_monotone. exact H.
Qed.

(* wire.BloomUpdateType as the dependency defines it: None = 0, All = 1, P2PubkeyOnly = 2 (the harness
   maps the flag byte to the constructor through the wire constants at run time) *)
Definition uflag_of (flags : N) : uflag :=
  match flags with 0 => UpdNone | 1 => UpdAll | 2 => UpdP2PubkeyOnly | n => UpdOther n end.

(* transaction ids are the 32 bytes as stored; the filter is queried with them as they are, and with
   Bloom.outpoint_bytes (txid ++ LE32 index) for outpoints *)
Definition b_id_item (h : list N) : list N := h.
Definition b_op_item (h : list N) (i : N) : list N := outpoint_bytes h i.

(* MatchTxAndUpdate / GetMatchedIndices on the C09 filter model; the update flag is the loaded message's *)
Definition bloom_match_tx (s : lfilter) (t : tx (list N) (list N)) : bool * lfilter :=
  match_tx_update lf_contains lf_insert b_id_item b_op_item (uflag_of (m_flags (lf_msg s))) s t.
Definition bloom_scan (s : lfilter) (txs : list (tx (list N) (list N))) : option (sstate lfilter) :=
  scan lf_contains lf_insert list_eqb b_id_item b_op_item (uflag_of (m_flags (lf_msg s))) s txs.

Theorem bloom_scan_terminates s txs : exists st, bloom_scan s txs = Some st.
Proof. exact (scan_fuel_enough _ _ _ lf_contains lf_insert list_eqb b_id_item b_op_item bloom_filter_laws list_eqb_eq _ txs s). Qed.

Theorem bloom_scan_sound s txs st :
  bloom_scan s txs = Some st ->
  le_f lf_contains s (s_f st) /\ NoDup (s_matched st) /\
  forall i, In i (s_matched st) ->
    exists t, nth_error txs i = Some t /\ matches_spec lf_contains b_id_item b_op_item (s_f st) t.
Proof. exact (scan_sound _ _ _ lf_contains lf_insert list_eqb b_id_item b_op_item bloom_filter_laws list_eqb_eq _ txs s st). Qed.

Theorem bloom_scan_complete s txs txs' st' :
  Permutation txs txs' -> bloom_scan s txs' = Some st' ->
  forall t, Rel lf_contains b_id_item b_op_item (uflag_of (m_flags (lf_msg s))) s txs t ->
  forall k, nth_error txs' k = Some t -> In k (s_matched st').
Proof. exact (scan_complete _ _ _ lf_contains lf_insert list_eqb b_id_item b_op_item bloom_filter_laws list_eqb_eq _ s txs txs' st'). Qed.

(* the unloaded filter (msgFilterLoad == nil), over the plain C09 operations: nothing matches, nothing changes *)
Theorem bloom_match_unloaded fl (t : tx (list N) (list N)) :
  match_tx_update matches add b_id_item b_op_item fl None t = (false, None).
Proof. apply (match_nothing _ _ _ matches add b_id_item b_op_item). intros x. reflexivity. Qed.

(* a worked instance on the real hashing: 64-byte array, 5 hash functions, BloomUpdateAll, the filter
   contains the 20-byte element [x20]; P pays to it, D spends P's output 0 and precedes P in the block
   (reverse order); both are reported, and P's outpoint is in the final filter *)
Definition ex_x20 : list N := map N.of_nat (seq 1 20).
Definition ex_pid : list N := map N.of_nat (seq 101 32).
Definition ex_did : list N := map N.of_nat (seq 201 32).
Lemma ex_len_ok : len_ok_msg (add_msg (MkMsg (repeat 0 64) 5 7 1) ex_x20).
Proof. apply add_msg_len_ok. unfold len_ok_msg. cbn [m_bytes]. rewrite repeat_length. vm_compute. reflexivity. Qed.
Definition ex_filter : lfilter := exist _ _ ex_len_ok.
Definition ex_P : tx (list N) (list N) := Build_tx ex_pid [Build_txout (Some [ex_x20]) ClsPubKeyHash] [].
Definition ex_D : tx (list N) (list N) := Build_tx ex_did [Build_txout (Some [[9;9;9]]) ClsPubKeyHash] [Build_txin ex_pid 0 (Some [[1;2;3]])].
Example bloom_scan_example :
  option_map (fun st => (s_matched st, lf_contains (s_f st) (outpoint_bytes ex_pid 0), lf_contains ex_filter (outpoint_bytes ex_pid 0)))
             (bloom_scan ex_filter [ex_D; ex_P]) = Some ([0; 1]%nat, true, false).
Proof. vm_compute. reflexivity. Qed.

(* Model of /repo/bloom/filter.go (everything except transaction matching, which is
   Bloom/BloomTx*.v): the loaded message, bit selection with the uint32 seed wrap,
   matches/add with the byte/bit arithmetic of the source, outpoint serialisation,
   Reload/Unload/IsLoaded/MsgFilterLoad, and NewFilter's sizing clamps.
   Literals come from Gen/Xbloom.v.  No proofs here. *)
From BU Require Import Lib.Bytes Lib.PolyMod Gen.Xbloom Bloom.Murmur3.

(* wire.MsgFilterLoad: Filter, HashFuncs, Tweak, Flags *)
Record msg := MkMsg { m_bytes : list N; m_nhash : N; m_tweak : N; m_flags : N }.

(* bloom.Filter without its mutex: the pointer msgFilterLoad, nil = unloaded *)
Definition filter := option msg.

(* wire limits (github.com/gcash/bchd/wire/msgfilterload.go); the harness passes the
   values the linked wire package has at run time and Run_C09 compares (case Limits) *)
Definition max_filter_size : N := 36000.
Definition max_hash_funcs : N := 50.

Definition hlit (i : nat) : N := lit lits_Filter_hash i.
Definition seed_mult : N := hlit 0.            (* 0xfba4c795 *)

(* hashNum*0xfba4c795 + bf.msgFilterLoad.Tweak in uint32 *)
Definition seed_of (i tweak : N) : N := w32 (w32 (w32 i * seed_mult) + w32 tweak).

(* uint32(len(Filter)) << 3 *)
Definition nbits (m : msg) : N := w32 (N.shiftl (w32 (N.of_nat (length (m_bytes m)))) (hlit 1)).

(* Filter.hash.  Called only with a non-empty array; [mod] by zero cannot occur
   when length < 2^29 (len_ok below). *)
Definition bit_index (m : msg) (i : N) (data : list N) : N :=
  murmur3 (seed_of i (m_tweak m)) data mod nbits m.

(* for i := uint32(0); i < HashFuncs; i++ *)
Definition hash_nums (n : N) : list N := map N.of_nat (seq 0 (N.to_nat (w32 n))).

Definition indices (m : msg) (data : list N) : list N :=
  map (fun i => bit_index m i data) (hash_nums (m_nhash m)).

Definition mlit_m (i : nat) : N := lit lits_Filter_matches i.
Definition mlit_a (i : nat) : N := lit lits_Filter_add i.

(* Filter[idx>>3] & (1<<(idx&7)) == 0   — byte arithmetic *)
Definition test_bit (bytes : list N) (idx : N) : bool :=
  negb (N.land (nth (N.to_nat (N.shiftr idx (mlit_m 2))) bytes 0)
               (w8 (N.shiftl (mlit_m 3) (N.land idx (mlit_m 4)))) =? mlit_m 5).

Fixpoint upd (l : list N) (k : nat) (f : N -> N) : list N :=
  match l, k with
  | [], _ => []
  | x :: t, O => f x :: t
  | x :: t, S k' => x :: upd t k' f
  end.

(* Filter[idx>>3] |= (1 << (7 & idx)) *)
Definition set_bit (bytes : list N) (idx : N) : list N :=
  upd bytes (N.to_nat (N.shiftr idx (mlit_a 2)))
      (fun b => N.lor b (w8 (N.shiftl (mlit_a 3) (N.land (mlit_a 4) idx)))).

Definition is_empty (m : msg) : bool := N.of_nat (length (m_bytes m)) =? mlit_m 0.
Definition is_empty_a (m : msg) : bool := N.of_nat (length (m_bytes m)) =? mlit_a 0.

(* Filter.matches *)
Definition matches (f : filter) (data : list N) : bool :=
  match f with
  | None => false
  | Some m =>
      if is_empty m then true
      else forallb (test_bit (m_bytes m)) (indices m data)
  end.

(* Filter.add *)
Definition add (f : filter) (data : list N) : filter :=
  match f with
  | None => None
  | Some m =>
      if is_empty_a m then Some m
      else Some (MkMsg (fold_left set_bit (indices m data) (m_bytes m)) (m_nhash m) (m_tweak m) (m_flags m))
  end.

Notation contains := matches (only parsing).
Notation insert := add (only parsing).

(* buf[:32] = outpoint.Hash ; PutUint32(buf[32:], outpoint.Index) *)
Definition outpoint_bytes (txid : list N) (index : N) : list N :=
  txid ++ le_bytes (N.to_nat (lit lits_Filter_addOutPoint 0)) (w32 index).
Definition outpoint_bytes_m (txid : list N) (index : N) : list N :=
  txid ++ le_bytes (N.to_nat (lit lits_Filter_matchesOutPoint 0)) (w32 index).

Definition matches_outpoint (f : filter) (txid : list N) (index : N) : bool := matches f (outpoint_bytes_m txid index).
Definition add_outpoint (f : filter) (txid : list N) (index : N) : filter := add f (outpoint_bytes txid index).

Definition is_loaded (f : filter) : bool := match f with Some _ => true | None => false end.
Definition reload (f : filter) (m : option msg) : filter := m.      (* Reload(nil) unloads *)
Definition unload (f : filter) : filter := None.
Definition msg_filter_load (f : filter) : option msg := f.
Definition load_filter (m : option msg) : filter := m.
Definition flags_of (f : filter) : N := match f with Some m => m_flags m | None => 0 end.

(* what Add never changes *)
Definition params (f : filter) : option (nat * N * N * N) :=
  match f with Some m => Some (length (m_bytes m), m_nhash m, m_tweak m, m_flags m) | None => None end.

(* uint32(len)<<3 does not wrap; implied by the wire limit *)
Definition len_ok_msg (m : msg) : Prop := N.of_nat (length (m_bytes m)) < 2^29.
Definition len_ok (f : filter) : Prop := match f with Some m => len_ok_msg m | None => True end.
Definition within_wire_limits (m : msg) : Prop :=
  N.of_nat (length (m_bytes m)) <= max_filter_size /\ m_nhash m <= max_hash_funcs.

(* ---------- histories over the exported operations ---------- *)
Inductive op :=
| OAdd (d : list N)
| OAddHash (h : list N)                    (* chainhash.Hash: 32 bytes, hash[:] is added as stored *)
| OAddOutPoint (txid : list N) (index : N)
| OMatches (d : list N)
| OMatchesOutPoint (txid : list N) (index : N)
| OReload (m : option msg)
| OUnload
| OIsLoaded.

(* new state and what the call returned (true for calls without a result) *)
Definition step (f : filter) (o : op) : filter * bool :=
  match o with
  | OAdd d => (add f d, true)
  | OAddHash h => (add f h, true)
  | OAddOutPoint t i => (add_outpoint f t i, true)
  | OMatches d => (f, matches f d)
  | OMatchesOutPoint t i => (f, matches_outpoint f t i)
  | OReload m => (reload f m, true)
  | OUnload => (unload f, true)
  | OIsLoaded => (f, is_loaded f)
  end.

Fixpoint run (f : filter) (ops : list op) : filter * list bool :=
  match ops with
  | [] => (f, [])
  | o :: t => let '(f1, r) := step f o in let '(f2, rs) := run f1 t in (f2, r :: rs)
  end.

Definition final (f : filter) (ops : list op) : filter := fst (run f ops).

(* the byte strings inserted since the last Reload/Unload, newest first *)
Definition item_of (o : op) : option (list N) :=
  match o with
  | OAdd d => Some d
  | OAddHash h => Some h
  | OAddOutPoint t i => Some (outpoint_bytes t i)
  | _ => None
  end.

Fixpoint live_items (acc : list (list N)) (ops : list op) : list (list N) :=
  match ops with
  | [] => acc
  | o :: t =>
      match o with
      | OReload _ | OUnload => live_items [] t
      | _ => match item_of o with Some d => live_items (d :: acc) t | None => live_items acc t end
      end
  end.

Definition reloads_ok (ops : list op) : Prop :=
  Forall (fun o => match o with OReload (Some m) => len_ok_msg m | _ => True end) ops.

(* ---------- NewFilter sizing ----------
   dataLen   := uint32(-1 * float64(elements) * math.Log(fprate) / ln2Squared)
   dataLen    = minUint32(dataLen, wire.MaxFilterLoadFilterSize*8) / 8
   hashFuncs := uint32(float64(dataLen*8) / float64(elements) * math.Ln2)
   hashFuncs  = minUint32(hashFuncs, wire.MaxFilterLoadHashFuncs)
   libm and the float->uint32 conversion (implementation-defined when out of range, incl. NaN
   and +Inf for elements = 0) are not modelled: [conv_len] is whatever uint32 the first
   conversion produced, [conv_hash] the second one as a function of dataLen*8. *)
Definition nlit (i : nat) : N := lit lits_NewFilter i.
Definition min_u32 (a b : N) : N := if a <? b then a else b.

Definition sizing (conv_len : N) (conv_hash : N -> N) : N * N :=
  let dataLen := min_u32 (w32 conv_len) (w32 (max_filter_size * nlit 1)) / nlit 2 in
  let hashFuncs := min_u32 (w32 (conv_hash (w32 (dataLen * nlit 3)))) max_hash_funcs in
  (dataLen, hashFuncs).

Definition new_filter (conv_len : N) (conv_hash : N -> N) (tweak flags : N) : filter :=
  let '(dl, hf) := sizing conv_len conv_hash in
  Some (MkMsg (repeat 0 (N.to_nat dl)) hf (w32 tweak) flags).

(* C10: concrete filters satisfying the abstract laws (so the theorems' hypotheses are
   satisfiable), worked examples, and the refutation of the cost bound for the
   algorithm as it was before commit 1a7bb05. *)
From BU Require Import Lib.Bytes Bloom.BloomTx Bloom.BloomTxSpec Bloom.BloomTxProofs Bloom.BloomTxScanProofs.
From Coq Require Import ZifyBool ZifyN ZifyNat.

(* ---------- 1. the exact set: a list of items (no false positives) ---------- *)
Section SetFilter.
  Variable item : Type.
  Variable eqb : item -> item -> bool.
  Hypothesis eqb_spec : forall a b, eqb a b = true <-> a = b.

  Definition set_contains (f : list item) (x : item) : bool := existsb (eqb x) f.
  Definition set_insert (f : list item) (x : item) : list item := x :: f.

  Lemma set_laws : filter_laws set_contains set_insert.
  Proof.
    split; unfold set_contains, set_insert; intros; cbn.
    - apply orb_true_iff. left. apply eqb_spec. reflexivity.
    - apply orb_true_iff. right. assumption.
  Qed.

  Lemma set_exact : exact_insert set_contains set_insert.
  Proof.
    unfold exact_insert, set_contains, set_insert. intros f x y H. cbn in H.
    apply orb_true_iff in H as [H|H]; [right; apply eqb_spec, H | left; exact H].
  Qed.
End SetFilter.

(* ---------- 2. the bloom filter as a set of bits ---------- *)
(* [bits x] = the mask of the bit positions the item's hash functions select; the state is
   the bit array as a number.  This is the instance the correspondence run uses (Run_C10.v,
   with [bits] read from the real code), and it has false positives. *)
Section MaskFilter.
  Variable item : Type.
  Variable bits : item -> N.

  Definition mask_contains (f : N) (x : item) : bool := N.land f (bits x) =? bits x.
  Definition mask_insert (f : N) (x : item) : N := N.lor f (bits x).

  Lemma land_lor_absorb a b : N.land (N.lor a b) b = b.
  Proof.
    apply N.bits_inj. intros n. rewrite N.land_spec, N.lor_spec.
    destruct (N.testbit a n), (N.testbit b n); reflexivity.
  Qed.

  Lemma mask_laws : filter_laws mask_contains mask_insert.
  Proof.
    split; unfold mask_contains, mask_insert.
    - intros f x. apply N.eqb_eq. apply land_lor_absorb.
    - intros f x y H. apply N.eqb_eq in H. apply N.eqb_eq.
      apply N.bits_inj. intros n.
      assert (Hn : N.testbit (N.land f (bits y)) n = N.testbit (bits y) n) by (rewrite H; reflexivity).
      rewrite N.land_spec in Hn. rewrite N.land_spec, N.lor_spec.
      destruct (N.testbit f n), (N.testbit (bits x) n), (N.testbit (bits y) n); cbn in *; congruence.
  Qed.
End MaskFilter.

(* ---------- 3. worked examples over the exact set with numeric ids ---------- *)
Definition xid (h : N) : N := h.
Definition xop (h : N) (i : N) : N := h * 4294967296 + i + 1000000.

Definition xout (p : N) (c : sclass) : txout N := Build_txout (Some [p]) c.
Definition xin (h i : N) : txin N N := Build_txin h i (Some []).
Definition xscan := scan (set_contains N N.eqb) (set_insert N) N.eqb xid xop.
Definition xscan_old := scan_old (set_contains N N.eqb) (set_insert N) N.eqb xid xop.

Lemma N_eqb_spec a b : N.eqb a b = true <-> a = b.
Proof. apply N.eqb_eq. Qed.

(* a parent paying to the watched item 7 (pay-to-pubkey) and a child spending that output,
   the child FIRST in the block: both are reported, the child through the re-check *)
Definition ex_parent : tx N N := Build_tx 100 [xout 7 ClsPubKey] [xin 999 0].
Definition ex_child : tx N N := Build_tx 101 [xout 8 ClsPubKeyHash] [xin 100 0].

Example ex_reverse_order :
  option_map (fun st => (s_matched st, s_calls st)) (xscan UpdP2PubkeyOnly [7] [ex_child; ex_parent]) = Some ([0%nat; 1%nat], 3%nat).
Proof. vm_compute. reflexivity. Qed.

(* the same block under BloomUpdateNone: the outpoint is not inserted, the child is not relevant *)
Example ex_update_none :
  option_map (fun st => s_matched st) (xscan UpdNone [7] [ex_child; ex_parent]) = Some [1%nat].
Proof. vm_compute. reflexivity. Qed.

(* hypotheses of scan_complete are satisfiable and non-trivial: the child is in Rel only through the closure rule *)
Example ex_child_relevant :
  Rel (set_contains N N.eqb) xid xop UpdP2PubkeyOnly [7] [ex_parent; ex_child] ex_child
  /\ ~ matches_spec (set_contains N N.eqb) xid xop [7] ex_child.
Proof.
  split.
  - eapply Rel_spend with (p := ex_parent).
    + apply Rel_init; [left; reflexivity|]. right. left. exists (xout 7 ClsPubKey). split; [left; reflexivity | reflexivity].
    + right. left. reflexivity.
    + exists (xin 100 0), 0%nat, (xout 7 ClsPubKey). repeat split. left. reflexivity.
  - intros [H|[[o [[<-|[]] H]]|[[inp [[<-|[]] H]]|[inp [ps [p [[<-|[]] [E [Hp H]]]]]]]]]; try discriminate.
    cbn in E. inversion E; subst. destruct Hp.
Qed.

(* ---------- 4. the old algorithm violates the cost bound ---------- *)
(* six chained transactions, each spending both outputs of its predecessor and each paying
   to the watched item, in reverse-topological order *)
Definition chain_tx (j : N) : tx N N :=
  Build_tx (100 + j) [xout 7 ClsPubKeyHash; xout 7 ClsPubKeyHash]
           (if j =? 0 then [xin 999 0] else [xin (100 + j - 1) 0; xin (100 + j - 1) 1]).
Definition chain6 : list (tx N N) := map chain_tx [5; 4; 3; 2; 1; 0].

Theorem scan_cost_old_refuted :
  exists (txs : list (tx N N)) (f0 : list N) (fuel : nat) (st : sstate (list N)),
    NoDup (map t_id txs) /\
    xscan_old fuel UpdAll f0 txs = Some st /\
    (s_calls st > length txs + total_inputs txs)%nat.
Proof.
  exists chain6, [7], 10%nat.
  destruct (xscan_old 10 UpdAll [7] chain6) as [st|] eqn:E; [|vm_compute in E; discriminate].
  exists st. split; [|split; [reflexivity|]].
  - vm_compute. repeat constructor; cbn; intuition discriminate.
  - assert (H : option_map (fun s => s_calls s) (xscan_old 10 UpdAll [7] chain6) = Some 120%nat) by (vm_compute; reflexivity).
    rewrite E in H. cbn in H. inversion H as [H1]. rewrite H1. vm_compute. lia.
Qed.

(* the current algorithm on the same block: 16 = n + inputs calls, same report *)
Example chain6_now :
  option_map (fun st => (s_calls st, length (s_matched st))) (xscan UpdAll [7] chain6) = Some (16%nat, 6%nat)
  /\ option_map (fun st => length (s_matched st)) (xscan_old 10 UpdAll [7] chain6) = Some 6%nat.
Proof. split; vm_compute; reflexivity. Qed.

(* the hypothesis of scan_cost (pairwise distinct ids) is necessary: the index is keyed by id,
   so two copies of a parent each re-check the same dependants (such a block is invalid) *)
Definition dup_parent : tx N N := Build_tx 100 [xout 7 ClsPubKeyHash; xout 7 ClsPubKeyHash] [].
Definition dup_child : tx N N := Build_tx 101 [xout 8 ClsPubKeyHash] [xin 100 0; xin 100 1].

Theorem scan_cost_needs_distinct_ids :
  exists (txs : list (tx N N)) (f0 : list N) (st : sstate (list N)),
    xscan UpdAll f0 txs = Some st /\ (s_calls st > length txs + total_inputs txs)%nat.
Proof.
  exists [dup_child; dup_parent; dup_parent], [7].
  destruct (xscan UpdAll [7] [dup_child; dup_parent; dup_parent]) as [st|] eqn:E; [|vm_compute in E; discriminate].
  exists st. split; [reflexivity|].
  assert (H : option_map (fun s => s_calls s) (xscan UpdAll [7] [dup_child; dup_parent; dup_parent]) = Some 7%nat) by (vm_compute; reflexivity).
  rewrite E in H. cbn in H. inversion H as [H1]. rewrite H1. vm_compute. lia.
Qed.

(* BIP37 as the text defines it, written with plain integer arithmetic and no reference
   to the Go source or to Gen/*: independent of Bloom.v (only MurmurHash3 is shared).

   BIP37: "The filter itself is simply a bit field of arbitrary byte-aligned size.  The maximum
   size is 36,000 bytes."  "nHashFuncs ... maximum 50."  "we use version 3, 32-bit Murmur hashes.
   To get N 'different' hash functions we simply initialize the Murmur algorithm with the
   following formula: nHashNum * 0xFBA4C795 + nTweak" (32-bit unsigned arithmetic).
   "to add an item ... the nHashFuncs hashes are computed, modulo the size of the bit field,
   and the corresponding bits are set"; a test succeeds iff all those bits are set.
   Bit k of the field is bit (k mod 8), least significant first, of byte (k div 8)
   (vData[nIndex >> 3] |= (1 << (7 & nIndex)) in the reference client). *)
From BU Require Import Lib.Bytes Bloom.Murmur3.

Definition spec_max_size : N := 36000.
Definition spec_max_hash_funcs : N := 50.

Definition spec_seed (nHashNum nTweak : N) : N := (nHashNum * 0xFBA4C795 + nTweak) mod 2^32.

(* the bit number selected by hash function nHashNum for an item, in a field of [len] bytes *)
Definition spec_bit_number (len : nat) (nTweak nHashNum : N) (item : list N) : N :=
  murmur3 (spec_seed nHashNum nTweak) item mod (N.of_nat len * 8).

Definition spec_bit (v : list N) (k : N) : bool :=
  N.testbit (nth (N.to_nat (k / 8)) v 0) (k mod 8).

(* the bit numbers of an item: one per hash function 0 .. nHashFuncs-1 *)
Definition spec_selects (len : nat) (nHashFuncs nTweak : N) (item : list N) (k : N) : Prop :=
  exists i, i < nHashFuncs /\ k = spec_bit_number len nTweak i item.

(* v' is v with exactly the item's bits additionally set *)
Definition spec_insert (nHashFuncs nTweak : N) (item : list N) (v v' : list N) : Prop :=
  length v' = length v /\ Bytes v' /\
  forall k, k < N.of_nat (length v) * 8 ->
    (spec_bit v' k = true <-> spec_bit v k = true \/ spec_selects (length v) nHashFuncs nTweak item k).

(* v is v0 with exactly the bits of the items additionally set: the bit field BIP37 defines after
   inserting [items] (in any order) into a field that started as v0 *)
Definition spec_after (nHashFuncs nTweak : N) (items : list (list N)) (v0 v : list N) : Prop :=
  length v = length v0 /\ Bytes v /\
  forall k, k < N.of_nat (length v0) * 8 ->
    (spec_bit v k = true <-> spec_bit v0 k = true \/ exists it, In it items /\ spec_selects (length v0) nHashFuncs nTweak it k).

Definition spec_contains (nHashFuncs nTweak : N) (item : list N) (v : list N) : Prop :=
  forall k, spec_selects (length v) nHashFuncs nTweak item k -> spec_bit v k = true.

(* outpoints are serialised as the 32-byte transaction id followed by the 4-byte little-endian index *)
Definition spec_outpoint (txid : list N) (index : N) : list N :=
  txid ++ [index mod 256; (index / 256) mod 256; (index / 65536) mod 256; (index / 16777216) mod 256].

(* C10 proofs, part 2: the block scan (GetMatchedIndices / checkFilterTx):
   big-step characterisation of [check], fuel sufficiency, soundness, completeness for
   every permutation, and the cost bound n + inputs. *)
From BU Require Import Lib.Bytes Bloom.BloomTx Bloom.BloomTxSpec Bloom.BloomTxProofs.
From Coq Require Import ZifyBool ZifyN ZifyNat Permutation.

Section ScanProofs.
  Variables (F item txid : Type).
  Variable contains : F -> item -> bool.
  Variable insert : F -> item -> F.
  Variable txid_eqb : txid -> txid -> bool.
  Variable id_item : txid -> item.
  Variable op_item : txid -> N -> item.
  Hypothesis laws : filter_laws contains insert.
  Hypothesis txid_eqb_spec : forall a b, txid_eqb a b = true <-> a = b.

  Local Notation tx := (tx item txid).
  Local Notation entry := (entry item txid).
  Local Notation sstate := (sstate F).
  Local Notation le_f := (le_f contains).
  Local Notation out_hit := (out_hit contains).
  Local Notation match_tx_update := (match_tx_update contains insert id_item op_item).
  Local Notation matches_spec := (matches_spec contains id_item op_item).
  Local Notation spends_hit := (spends_hit contains).
  Local Notation deps := (deps txid_eqb).
  Local Notation check := (check contains insert txid_eqb id_item op_item).
  Local Notation scan_loop := (scan_loop contains insert txid_eqb id_item op_item).
  Local Notation scan := (scan contains insert txid_eqb id_item op_item).
  Local Notation Rel := (Rel contains id_item op_item).
  Local Notation RelH := (RelH contains id_item op_item).

  Variable fl : uflag.

  Local Notation mtu st t := (match_tx_update fl (s_f st) t).

  (* ---------- small facts ---------- *)
  Lemma is_matched_In (st : sstate) i : is_matched st i = true <-> In i (s_matched st).
  Proof.
    unfold is_matched. rewrite existsb_exists. split.
    - intros [x [Hin Hx]]. apply Nat.eqb_eq in Hx. subst. exact Hin.
    - intros H. exists i. split; [exact H | apply Nat.eqb_refl].
  Qed.

  Lemma matches_spec_mono f g (t : tx) : le_f f g -> matches_spec f t -> matches_spec g t.
  Proof.
    intros Hle H. unfold BloomTxSpec.matches_spec in *.
    destruct H as [H|[[o [Hin Hh]]|[[inp [Hin H]]|[inp [ps [p [Hin [E [Hp H]]]]]]]]].
    - left. apply Hle, H.
    - right. left. exists o. split; [exact Hin|]. eapply out_hit_mono; eauto.
    - right. right. left. exists inp. split; [exact Hin | apply Hle, H].
    - right. right. right. exists inp, ps, p. repeat split; auto.
  Qed.

  (* ---------- big-step characterisation of checkFilterTx (index fixed) ---------- *)
  Section FixedIndex.
    Variable idx : list entry.

    Inductive Check : sstate -> tx -> nat -> sstate -> Prop :=
    | Check_no st t i :
        fst (mtu st t) = false -> Check st t i (bump st (snd (mtu st t)))
    | Check_seen st t i :
        fst (mtu st t) = true -> In i (s_matched st) -> Check st t i (bump st (snd (mtu st t)))
    | Check_new st t i st' :
        fst (mtu st t) = true -> ~ In i (s_matched st) ->
        CheckL (mark (bump st (snd (mtu st t))) i) (deps idx (t_id t)) st' -> Check st t i st'
    with CheckL : sstate -> list (tx * nat) -> sstate -> Prop :=
    | CheckL_nil st : CheckL st [] st
    | CheckL_cons st d ds st1 st' :
        Check st (fst d) (snd d) st1 -> CheckL st1 ds st' -> CheckL st (d :: ds) st'.

    Scheme Check_mut := Minimality for Check Sort Prop
      with CheckL_mut := Minimality for CheckL Sort Prop.
    Combined Scheme Check_CheckL_ind from Check_mut, CheckL_mut.

    Lemma fold_opt_CheckL (step : sstate -> tx * nat -> option sstate) :
      (forall s d s', step s d = Some s' -> Check s (fst d) (snd d) s') ->
      forall ds s s', fold_opt step ds s = Some s' -> CheckL s ds s'.
    Proof.
      intros Hstep. induction ds as [|d ds IH]; intros s s' H; cbn in H.
      - inversion H. constructor.
      - destruct (step s d) as [s1|] eqn:E; [|discriminate].
        econstructor; [apply Hstep, E | apply IH, H].
    Qed.

    Lemma check_Check : forall fuel st t i st', check fuel fl idx st t i = Some st' -> Check st t i st'.
    Proof.
      induction fuel as [|fuel IH]; intros st t i st' H; cbn [BloomTx.check] in H; [discriminate|].
      destruct (mtu st t) as [m f'] eqn:E.
      assert (Hm : fst (mtu st t) = m) by (rewrite E; reflexivity).
      assert (Hf : snd (mtu st t) = f') by (rewrite E; reflexivity).
      destruct m.
      - destruct (is_matched (bump st f') i) eqn:Em.
        + inversion H; subst. apply Check_seen; [exact Hm|].
          apply is_matched_In in Em. exact Em.
        + apply Check_new; [exact Hm| |].
          * intros Hin. apply (is_matched_In (bump st f')) in Hin. congruence.
          * rewrite Hf. eapply fold_opt_CheckL; [|exact H]. intros s d s' Hs. apply IH, Hs.
      - inversion H; subst. apply Check_no, Hm.
    Qed.
  End FixedIndex.

  (* ---------- structure, soundness invariant and cost of one check ---------- *)
  Section Block.
    Variable txs : list tx.     (* the block *)
    Variable f0 : F.            (* the filter the scan started with *)

    (* reported indices are distinct, denote transactions of the block, and match the current filter *)
    Definition Inv (st : sstate) : Prop :=
      NoDup (s_matched st) /\
      forall j, In j (s_matched st) -> exists t, nth_error txs j = Some t /\ matches_spec (s_f st) t.

    Definition idx_wf (idx : list entry) : Prop :=
      forall h d kd, In (h, (d, kd)) idx -> nth_error txs kd = Some d.

    (* number of index entries filed under the id of transaction j *)
    Definition dc (idx : list entry) (j : nat) : nat :=
      match nth_error txs j with Some t => length (deps idx (t_id t)) | None => O end.
    Definition sum_dc (idx : list entry) (l : list nat) : nat := list_sum (map (dc idx) l).

    Lemma sum_dc_app idx a b : sum_dc idx (a ++ b) = (sum_dc idx a + sum_dc idx b)%nat.
    Proof. unfold sum_dc. rewrite map_app, list_sum_app. reflexivity. Qed.

    Lemma deps_wf idx h d kd : idx_wf idx -> In (d, kd) (deps idx h) -> nth_error txs kd = Some d.
    Proof.
      intros Hwf Hin. unfold BloomTx.deps in Hin. apply in_map_iff in Hin as [[h' [d' kd']] [Heq Hin]].
      cbn in Heq. inversion Heq; subst. apply filter_In in Hin as [Hin _]. eapply Hwf, Hin.
    Qed.

    Lemma Inv_mono st f' : Inv st -> le_f (s_f st) f' -> Inv (bump st f').
    Proof.
      intros [Hnd Hs] Hle. split; [exact Hnd|]. intros j Hj. destruct (Hs j Hj) as [t [Hn Hm]].
      exists t. split; [exact Hn|]. eapply matches_spec_mono; eauto.
    Qed.

    Lemma struct_lemma idx : idx_wf idx ->
      (forall st t i st', Check idx st t i st' ->
         Inv st -> nth_error txs i = Some t ->
         exists new, s_matched st' = new ++ s_matched st /\ Inv st' /\ le_f (s_f st) (s_f st') /\
                     (s_calls st' <= s_calls st + 1 + sum_dc idx new)%nat)
      /\
      (forall st ds st', CheckL idx st ds st' ->
         Inv st -> (forall d kd, In (d, kd) ds -> nth_error txs kd = Some d) ->
         exists new, s_matched st' = new ++ s_matched st /\ Inv st' /\ le_f (s_f st) (s_f st') /\
                     (s_calls st' <= s_calls st + length ds + sum_dc idx new)%nat).
    Proof.
      intros Hwf. apply Check_CheckL_ind.
      - (* no match *)
        intros st t i Hm Hinv Hn. exists []. cbn. refine (conj eq_refl (conj _ (conj _ _))).
        + apply (Inv_mono st); [exact Hinv | apply match_le, laws].
        + apply match_le, laws.
        + unfold sum_dc; cbn; lia.
      - (* already matched *)
        intros st t i Hm Hin Hinv Hn. exists []. cbn. refine (conj eq_refl (conj _ (conj _ _))).
        + apply (Inv_mono st); [exact Hinv | apply match_le, laws].
        + apply match_le, laws.
        + unfold sum_dc; cbn; lia.
      - (* newly matched *)
        intros st t i st' Hm Hnin HL IH Hinv Hn.
        set (f' := snd (mtu st t)) in *.
        assert (Hle : le_f (s_f st) f') by (apply match_le, laws).
        assert (Hinv2 : Inv (mark (bump st f') i)).
        { destruct (Inv_mono st f' Hinv Hle) as [Hnd Hs]. split.
          - cbn. constructor; assumption.
          - cbn. intros j [<-|Hj].
            + exists t. split; [exact Hn|]. apply match_sound; [exact laws | exact Hm].
            + apply Hs, Hj. }
        destruct (IH Hinv2) as [new [Heq [Hinv' [Hle' Hc]]]].
        { intros d kd Hd. eapply deps_wf; eauto. }
        exists (new ++ [i]). cbn in Heq. refine (conj _ (conj _ (conj _ _))).
        + rewrite Heq, <- app_assoc. reflexivity.
        + exact Hinv'.
        + eapply le_f_trans; [exact Hle | exact Hle'].
        + rewrite sum_dc_app. assert (Hd : sum_dc idx [i] = length (deps idx (t_id t))).
          { unfold sum_dc, dc. cbn. rewrite Hn. lia. }
          rewrite Hd. cbn in Hc. lia.
      - (* nil *)
        intros st Hinv _. exists []. cbn. refine (conj eq_refl (conj Hinv (conj _ _))); [apply le_f_refl | unfold sum_dc; cbn; lia].
      - (* cons *)
        intros st d ds st1 st' HC IH1 HL IH2 Hinv Hds. destruct d as [d kd]. cbn [fst snd] in *.
        destruct (IH1 Hinv) as [new1 [Heq1 [Hinv1 [Hle1 Hc1]]]]; [apply Hds; left; reflexivity|].
        destruct (IH2 Hinv1) as [new2 [Heq2 [Hinv2 [Hle2 Hc2]]]]; [intros; apply Hds; right; assumption|].
        exists (new2 ++ new1). refine (conj _ (conj _ (conj _ _))).
        + rewrite Heq2, Heq1, app_assoc. reflexivity.
        + exact Hinv2.
        + eapply le_f_trans; eauto.
        + rewrite sum_dc_app. cbn [length]. lia.
    Qed.

    (* ---------- fuel: depth n + 1 is enough ---------- *)
    Lemma matched_bounded st : Inv st -> (length (s_matched st) <= length txs)%nat.
    Proof.
      intros [Hnd Hs]. rewrite <- (seq_length (length txs) 0). apply NoDup_incl_length; [exact Hnd|].
      intros j Hj. destruct (Hs j Hj) as [t [Hn _]]. apply in_seq. split; [lia|].
      cbn. apply nth_error_Some. congruence.
    Qed.

    Lemma check_some idx : idx_wf idx ->
      forall fuel st t i, Inv st -> nth_error txs i = Some t ->
        (length txs < fuel + length (s_matched st))%nat ->
        exists st', check fuel fl idx st t i = Some st'.
    Proof.
      intros Hwf. induction fuel as [|fuel IH]; intros st t i Hinv Hn Hfuel.
      - pose proof (matched_bounded st Hinv). lia.
      - cbn [BloomTx.check]. destruct (mtu st t) as [m f'] eqn:E.
        assert (Hm : fst (mtu st t) = m) by (rewrite E; reflexivity).
        assert (Hf : snd (mtu st t) = f') by (rewrite E; reflexivity).
        destruct m; [|eauto]. destruct (is_matched (bump st f') i) eqn:Em; [eauto|].
        assert (Hnin : ~ In i (s_matched st)).
        { intros Hin. apply (is_matched_In (bump st f')) in Hin. congruence. }
        assert (Hle : le_f (s_f st) f') by (rewrite <- Hf; apply match_le, laws).
        assert (Hinv2 : Inv (mark (bump st f') i)).
        { destruct (Inv_mono st f' Hinv Hle) as [Hnd Hs]. split.
          - cbn. constructor; assumption.
          - cbn. intros j [<-|Hj].
            + exists t. split; [exact Hn|]. rewrite <- Hf. apply match_sound; [exact laws | exact Hm].
            + apply Hs, Hj. }
        assert (Hlen : (length txs < fuel + length (s_matched (mark (bump st f') i)))%nat) by (cbn; cbn in Hfuel; lia).
        assert (Hds : forall d kd, In (d, kd) (deps idx (t_id t)) -> nth_error txs kd = Some d)
          by (intros; eapply deps_wf; eauto).
        revert Hinv2 Hlen Hds. generalize (mark (bump st f') i). generalize (deps idx (t_id t)).
        induction l as [|[d kd] ds IHds]; intros s Hinvs Hlens Hds; cbn [fold_opt].
        + eauto.
        + cbn [fst snd]. destruct (IH s d kd Hinvs) as [s1 Hs1]; [apply Hds; left; reflexivity | exact Hlens|].
          rewrite Hs1. pose proof (check_Check idx _ _ _ _ _ Hs1) as HC.
          destruct (proj1 (struct_lemma idx Hwf) _ _ _ _ HC Hinvs) as [new [Heq [Hinv1 _]]]; [apply Hds; left; reflexivity|].
          apply IHds; [exact Hinv1 | rewrite Heq, app_length; lia | intros; apply Hds; right; assumption].
    Qed.

    (* ---------- the loop of GetMatchedIndices ---------- *)
    Fixpoint index_from (k : nat) (l : list tx) : list entry :=
      match l with
      | [] => []
      | t :: r => entries_of t k ++ index_from (S k) r
      end.

    Lemma index_from_app a : forall k b, index_from k (a ++ b) = index_from k a ++ index_from (k + length a) b.
    Proof.
      induction a as [|t a IH]; intros k b; cbn [app index_from length].
      - rewrite Nat.add_0_r. reflexivity.
      - rewrite IH, <- app_assoc. do 3 f_equal. lia.
    Qed.

    Lemma index_from_in l : forall k h d kd, In (h, (d, kd)) (index_from k l) ->
      (k <= kd)%nat /\ nth_error l (kd - k) = Some d /\ exists inp, In inp (t_ins d) /\ i_hash inp = h.
    Proof.
      induction l as [|t l IH]; intros k h d kd Hin; cbn [index_from] in Hin; [contradiction|].
      apply in_app_or in Hin as [Hin|Hin].
      - unfold entries_of in Hin. apply in_map_iff in Hin as [inp [Heq Hin]]. inversion Heq; subst.
        rewrite Nat.sub_diag. repeat split; [lia|]. exists inp. auto.
      - apply IH in Hin as [Hle [Hn Hex]]. split; [lia|]. split; [|exact Hex].
        replace (kd - k)%nat with (S (kd - S k)) by lia. exact Hn.
    Qed.

    Lemma in_index_from l : forall k j t inp, nth_error l j = Some t -> In inp (t_ins t) ->
      In (i_hash inp, (t, (k + j)%nat)) (index_from k l).
    Proof.
      induction l as [|t0 l IH]; intros k j t inp Hn Hin; [destruct j; discriminate|].
      cbn [index_from]. apply in_or_app. destruct j as [|j]; cbn in Hn.
      - inversion Hn; subst. left. rewrite Nat.add_0_r. unfold entries_of. apply in_map_iff. exists inp. auto.
      - right. replace (k + S j)%nat with (S k + j)%nat by lia. eapply IH; eauto.
    Qed.

    Lemma index_from_length l : forall k, length (index_from k l) = total_inputs l.
    Proof.
      induction l as [|t l IH]; intros k; cbn [index_from total_inputs fold_right]; [reflexivity|].
      rewrite app_length, IH. unfold entries_of. rewrite map_length. reflexivity.
    Qed.

    Lemma index_from_wf pre post : txs = pre ++ post -> idx_wf (index_from 0 pre).
    Proof.
      intros Heq h d kd Hin. apply index_from_in in Hin as [_ [Hn _]]. rewrite Nat.sub_0_r in Hn.
      rewrite Heq. rewrite nth_error_app1; [exact Hn|]. apply nth_error_Some. congruence.
    Qed.

    Lemma deps_app (a b : list entry) h : deps (a ++ b) h = deps a h ++ deps b h.
    Proof. unfold BloomTx.deps. rewrite filter_app, map_app. reflexivity. Qed.

    Lemma deps_entries_of (t : tx) k h d kd : In (d, kd) (deps (entries_of t k) h) ->
      d = t /\ kd = k /\ exists inp, In inp (t_ins t) /\ i_hash inp = h.
    Proof.
      unfold BloomTx.deps, entries_of. intros Hin. apply in_map_iff in Hin as [[h' [d' kd']] [Heq Hin]].
      cbn in Heq. inversion Heq; subst. apply filter_In in Hin as [Hin Hh]. cbn in Hh.
      apply txid_eqb_spec in Hh. subst h'. apply in_map_iff in Hin as [inp [Heq' Hin]]. inversion Heq'; subst.
      repeat split. exists inp. auto.
    Qed.

    Lemma in_deps (idx : list entry) h d kd : In (h, (d, kd)) idx -> In (d, kd) (deps idx h).
    Proof.
      intros Hin. unfold BloomTx.deps. apply in_map_iff. exists (h, (d, kd)). split; [reflexivity|].
      apply filter_In. split; [exact Hin|]. cbn. apply txid_eqb_spec. reflexivity.
    Qed.

    Lemma dc_app_le (a b : list entry) j : (dc a j <= dc (a ++ b) j)%nat.
    Proof. unfold dc. destruct (nth_error txs j); [|lia]. rewrite deps_app, app_length. lia. Qed.

    Lemma sum_dc_app_le (a b : list entry) l : (sum_dc a l <= sum_dc (a ++ b) l)%nat.
    Proof.
      unfold sum_dc, list_sum. induction l as [|j l IH]; cbn [map fold_right]; [lia|]. pose proof (dc_app_le a b j). lia.
    Qed.

    (* ---------- completeness of one check ---------- *)
    Section HotOutputs.
    (* [Hot t k]: after any MATCHING call on t (against a filter above f0) the outpoint of
       output k of t is in the filter.  Instance [hot0]: output k hits f0 and the flag allows. *)
    Variable Hot : tx -> nat -> Prop.
    Hypothesis Hot_inserted : forall f t k, le_f f0 f -> In t txs ->
      fst (match_tx_update fl f t) = true -> Hot t k ->
      contains (snd (match_tx_update fl f t)) (op_item (t_id t) (N.of_nat k)) = true.
    Local Notation spends_hot := (spends_hot Hot).

    Definition outs_inserted (f : F) (tj : tx) : Prop :=
      forall k, Hot tj k -> contains f (op_item (t_id tj) (N.of_nat k)) = true.

    (* transaction j has been fully handled: its matching outputs' outpoints are in the
       filter and every indexed spender of such an outpoint is reported *)
    Definition Closed (idx : list entry) (st : sstate) (j : nat) : Prop :=
      forall tj, nth_error txs j = Some tj ->
        outs_inserted (s_f st) tj /\
        forall d kd, In (d, kd) (deps idx (t_id tj)) -> spends_hot d tj -> In kd (s_matched st).

    Lemma Closed_mono idx (a b : sstate) j :
      le_f (s_f a) (s_f b) -> incl (s_matched a) (s_matched b) -> Closed idx a j -> Closed idx b j.
    Proof.
      intros Hle Hincl HC tj Hn. destruct (HC tj Hn) as [H1 H2]. split.
      - intros k Hk. apply Hle. eapply H1; eauto.
      - intros d kd Hd Hs. apply Hincl. eapply H2; eauto.
    Qed.

    Lemma spends_hit_matches f d tj : outs_inserted f tj -> spends_hot d tj -> matches_spec f d.
    Proof.
      intros Hoi [inp [k [Hin [Hh [Hi Hhot]]]]].
      right. right. left. exists inp. split; [exact Hin|]. rewrite Hh, Hi. eapply Hoi; eauto.
    Qed.

    Lemma complete_lemma idx : idx_wf idx ->
      (forall st t i st', Check idx st t i st' ->
         Inv st -> nth_error txs i = Some t -> le_f f0 (s_f st) ->
         (fst (mtu st t) = true -> In i (s_matched st')) /\
         (forall j, In j (s_matched st') -> ~ In j (s_matched st) -> Closed idx st' j))
      /\
      (forall st ds st', CheckL idx st ds st' ->
         Inv st -> (forall d kd, In (d, kd) ds -> nth_error txs kd = Some d) -> le_f f0 (s_f st) ->
         (forall d kd, In (d, kd) ds -> matches_spec (s_f st) d -> In kd (s_matched st')) /\
         (forall j, In j (s_matched st') -> ~ In j (s_matched st) -> Closed idx st' j)).
    Proof.
      intros Hwf. apply Check_CheckL_ind.
      - intros st t i Hm Hinv Hn Hle. split; [congruence|]. cbn. intros j Hj Hnj. contradiction.
      - intros st t i Hm Hin Hinv Hn Hle. split; [intros _; exact Hin|]. cbn. intros j Hj Hnj. contradiction.
      - intros st t i st' Hm Hnin HL IH Hinv Hn Hle.
        set (f' := snd (mtu st t)) in *.
        assert (Hlef : le_f (s_f st) f') by (apply match_le, laws).
        assert (Hinv2 : Inv (mark (bump st f') i)).
        { destruct (Inv_mono st f' Hinv Hlef) as [Hnd Hs]. split.
          - cbn. constructor; assumption.
          - cbn. intros j [<-|Hj].
            + exists t. split; [exact Hn|]. apply match_sound; [exact laws | exact Hm].
            + apply Hs, Hj. }
        assert (Hds : forall d kd, In (d, kd) (deps idx (t_id t)) -> nth_error txs kd = Some d)
          by (intros; eapply deps_wf; eauto).
        destruct (proj2 (struct_lemma idx Hwf) _ _ _ HL Hinv2 Hds) as [new [Heq [Hinv' [Hle' _]]]].
        cbn in Heq, Hle'.
        destruct (IH Hinv2 Hds) as [IHa IHb]; [cbn; eapply le_f_trans; eauto|].
        split.
        + intros _. rewrite Heq. apply in_or_app. right. left. reflexivity.
        + intros j Hj Hnj. destruct (Nat.eq_dec j i) as [->|Hne].
          * (* the newly matched transaction itself *)
            intros tj Hnj'. rewrite Hn in Hnj'. inversion Hnj'; subst tj. clear Hnj'.
            assert (Hoi : outs_inserted f' t).
            { intros k Hk. unfold f'. eapply Hot_inserted; eauto. eapply nth_error_In; eauto. }
            split.
            -- intros k Hk. apply Hle'. eapply Hoi; eauto.
            -- intros d kd Hd Hs. eapply IHa; [exact Hd|]. cbn. eapply spends_hit_matches; eauto.
          * apply IHb; [exact Hj|]. cbn. intros [H|H]; [congruence | contradiction].
      - intros st Hinv _ _. split; [intros d kd []|]. intros j Hj Hnj. contradiction.
      - intros st d ds st1 st' HC IH1 HL IH2 Hinv Hds Hle. destruct d as [d kd]. cbn [fst snd] in *.
        assert (Hnd : nth_error txs kd = Some d) by (apply Hds; left; reflexivity).
        assert (Hds' : forall d0 kd0, In (d0, kd0) ds -> nth_error txs kd0 = Some d0) by (intros; apply Hds; right; assumption).
        destruct (proj1 (struct_lemma idx Hwf) _ _ _ _ HC Hinv Hnd) as [new1 [Heq1 [Hinv1 [Hle1 _]]]].
        destruct (proj2 (struct_lemma idx Hwf) _ _ _ HL Hinv1 Hds') as [new2 [Heq2 [Hinv2 [Hle2 _]]]].
        destruct (IH1 Hinv Hnd Hle) as [IH1a IH1b].
        destruct (IH2 Hinv1 Hds') as [IH2a IH2b]; [eapply le_f_trans; eauto|].
        assert (Hincl : incl (s_matched st1) (s_matched st')) by (rewrite Heq2; apply incl_appr, incl_refl).
        split.
        + intros d' kd' [Heq|Hin] Hms.
          * inversion Heq; subst d' kd'. apply Hincl, IH1a.
            eapply match_complete; [exact laws | apply le_f_refl | exact Hms].
          * eapply IH2a; [exact Hin|]. eapply matches_spec_mono; eauto.
        + intros j Hj Hnj. destruct (in_dec Nat.eq_dec j (s_matched st1)) as [Hj1|Hj1].
          * eapply Closed_mono; [exact Hle2 | exact Hincl | apply IH1b; assumption].
          * apply IH2b; assumption.
    Qed.

    (* invariant of the outer loop after the transactions [done] have been processed *)
    Definition J (done : list tx) (st : sstate) : Prop :=
      Inv st /\ le_f f0 (s_f st) /\
      (forall j, In j (s_matched st) -> Closed (index_from 0 done) st j) /\
      (forall j t, nth_error done j = Some t -> matches_spec f0 t -> In j (s_matched st)) /\
      (s_calls st <= length done + sum_dc (index_from 0 done) (s_matched st))%nat.

    Lemma scan_loop_inv fuel : (length txs < fuel)%nat ->
      forall rest done st, txs = done ++ rest -> J done st ->
        exists st', scan_loop fuel fl (index_from 0 done) st (length done) rest = Some st' /\ J txs st'.
    Proof.
      intros Hfuel. induction rest as [|t rest IH]; intros done st Heq HJ; cbn [BloomTx.scan_loop].
      - rewrite app_nil_r in Heq. subst done. eauto.
      - set (k := length done) in *. set (idx := index_from 0 done) in *.
        assert (Hidx' : idx ++ entries_of t k = index_from 0 (done ++ [t])).
        { rewrite index_from_app. cbn [index_from]. rewrite app_nil_r. reflexivity. }
        rewrite Hidx'. set (idx' := index_from 0 (done ++ [t])) in *.
        assert (Heq' : txs = (done ++ [t]) ++ rest) by (rewrite <- app_assoc; exact Heq).
        assert (Hwf : idx_wf idx') by (eapply index_from_wf; eauto).
        assert (Hn : nth_error txs k = Some t).
        { rewrite Heq. rewrite nth_error_app2 by (unfold k; lia). unfold k. rewrite Nat.sub_diag. reflexivity. }
        destruct HJ as [Hinv [Hle [Hcl [Hinit Hcalls]]]].
        destruct (check_some idx' Hwf fuel st t k Hinv Hn) as [st1 Hst1]; [lia|].
        rewrite Hst1. pose proof (check_Check idx' _ _ _ _ _ Hst1) as HC.
        destruct (proj1 (struct_lemma idx' Hwf) _ _ _ _ HC Hinv Hn) as [new [Hm1 [Hinv1 [Hle1 Hc1]]]].
        destruct (proj1 (complete_lemma idx' Hwf) _ _ _ _ HC Hinv Hn Hle) as [Hca Hcb].
        assert (Hincl : incl (s_matched st) (s_matched st1)) by (rewrite Hm1; apply incl_appr, incl_refl).
        replace (S k) with (length (done ++ [t])) by (rewrite app_length; cbn; unfold k; lia).
        apply IH; [exact Heq'|].
        refine (conj Hinv1 (conj _ (conj _ (conj _ _)))).
        + eapply le_f_trans; eauto.
        + intros j Hj. destruct (in_dec Nat.eq_dec j (s_matched st)) as [Hold|Hnew].
          * (* reported before this step: old spenders stay reported, the new index entries are t's *)
            intros tj Hnj. destruct (Hcl j Hold tj Hnj) as [Hoi Hdeps]. split.
            -- intros k' Hk. apply Hle1. eapply Hoi; eauto.
            -- intros d kd Hd Hs. fold idx' in Hd. rewrite <- Hidx', deps_app in Hd.
               apply in_app_or in Hd as [Hd|Hd].
               ++ apply Hincl. eapply Hdeps; eauto.
               ++ apply deps_entries_of in Hd as [-> [-> _]]. apply Hca.
                  eapply match_complete; [exact laws | apply le_f_refl|].
                  eapply spends_hit_matches; eauto.
          * apply Hcb; assumption.
        + intros j t' Hnj Hms. destruct (Nat.lt_ge_cases j k) as [Hlt|Hge].
          * apply Hincl. eapply Hinit; [|exact Hms]. rewrite nth_error_app1 in Hnj by exact Hlt. exact Hnj.
          * rewrite nth_error_app2 in Hnj by exact Hge. fold k in Hnj. destruct (j - k)%nat as [|m] eqn:Em.
            -- cbn in Hnj. assert (Et : t' = t) by congruence. subst t'. replace j with k by lia. apply Hca.
               eapply match_complete; [exact laws | exact Hle | exact Hms].
            -- cbn in Hnj. destruct m; discriminate.
        + rewrite app_length. cbn [length]. rewrite Hm1, sum_dc_app.
          pose proof (sum_dc_app_le idx (entries_of t k) (s_matched st)) as Hmono.
          rewrite Hidx' in Hmono. fold idx'. fold k. fold k idx in Hcalls. clearbody k idx idx'. lia.
    Qed.

    Lemma J_init : J [] (init_state f0).
    Proof.
      refine (conj _ (conj _ (conj _ (conj _ _)))); cbn.
      - split; [constructor | intros j []].
      - apply le_f_refl.
      - intros j [].
      - intros j t Hn. destruct j; discriminate.
      - lia.
    Qed.

    Lemma scan_inv : exists st, scan fl f0 txs = Some st /\ J txs st.
    Proof.
      unfold BloomTx.scan. apply (scan_loop_inv (scan_fuel txs)) with (done := []) (rest := txs).
      - unfold scan_fuel. lia.
      - reflexivity.
      - apply J_init.
    Qed.

    (* ---------- the four block theorems ---------- *)
    Lemma scan_fuel_enough_H : exists st, scan fl f0 txs = Some st.
    Proof. destruct scan_inv as [st [H _]]. eauto. Qed.

    Lemma scan_sound_H st : scan fl f0 txs = Some st ->
      le_f f0 (s_f st) /\ NoDup (s_matched st) /\
      forall i, In i (s_matched st) -> exists t, nth_error txs i = Some t /\ matches_spec (s_f st) t.
    Proof.
      intros H. destruct scan_inv as [st' [H' [[Hnd Hs] [Hle _]]]]. rewrite H in H'. inversion H'; subst st'. auto.
    Qed.

    Lemma Rel_In t : Rel fl f0 txs t -> In t txs.
    Proof. intros H; destruct H; assumption. Qed.

    Lemma RelH_In t : RelH Hot f0 txs t -> In t txs.
    Proof. intros H; destruct H; assumption. Qed.

    Lemma scan_complete_H st : scan fl f0 txs = Some st ->
      forall t, RelH Hot f0 txs t -> forall k, nth_error txs k = Some t -> In k (s_matched st).
    Proof.
      intros H. destruct scan_inv as [st' [H' [_ [_ [Hcl [Hinit _]]]]]]. rewrite H in H'. inversion H'; subst st'.
      intros t HR. induction HR as [t Hin Hms | p t HRp IHp Hin Hs]; intros k Hk.
      - eapply Hinit; eauto.
      - apply RelH_In in HRp. apply In_nth_error in HRp as [kp Hkp].
        specialize (IHp kp Hkp). destruct (Hcl kp IHp p Hkp) as [_ Hdeps].
        eapply Hdeps; [|exact Hs].
        destruct Hs as [inp [k' [Hinp [Hh _]]]].
        apply in_deps. rewrite <- Hh. apply (in_index_from txs 0 k t inp Hk Hinp).
    Qed.

    (* ---------- cost ---------- *)
    Definition hits (e : entry) (j : nat) : nat :=
      match nth_error txs j with Some t => if txid_eqb (fst e) (t_id t) then 1%nat else O | None => O end.

    Lemma dc_cons e idx j : dc (e :: idx) j = (hits e j + dc idx j)%nat.
    Proof.
      unfold dc, hits. destruct (nth_error txs j) as [t|]; [|reflexivity].
      unfold BloomTx.deps. cbn [filter]. destruct (txid_eqb (fst e) (t_id t)); reflexivity.
    Qed.

    Lemma list_sum_cons x l : list_sum (x :: l) = (x + list_sum l)%nat.
    Proof. reflexivity. Qed.

    Lemma hits_le_1 e j : (hits e j <= 1)%nat.
    Proof. unfold hits. destruct (nth_error txs j); [|lia]. destruct (txid_eqb _ _); lia. Qed.

    Lemma hits_le_one e : NoDup (map (@t_id item txid) txs) -> forall l, NoDup l -> (list_sum (map (hits e) l) <= 1)%nat.
    Proof.
      intros Hids. induction l as [|j l IH]; intros Hnd; [cbn; lia|]. rewrite map_cons, list_sum_cons.
      inversion Hnd as [|? ? Hnj Hnd']; subst. specialize (IH Hnd').
      pose proof (hits_le_1 e j) as H1.
      destruct (hits e j) as [|n] eqn:Ej; [lia|].
      assert (Hz : forall j', In j' l -> hits e j' = O).
      { intros j' Hj'. destruct (hits e j') eqn:Ej'; [reflexivity|]. exfalso.
        unfold hits in Ej, Ej'. destruct (nth_error txs j) as [t|] eqn:Hn; [|discriminate].
        destruct (nth_error txs j') as [t'|] eqn:Hn'; [|discriminate].
        destruct (txid_eqb (fst e) (t_id t)) eqn:E1; [|discriminate].
        destruct (txid_eqb (fst e) (t_id t')) eqn:E2; [|discriminate].
        apply txid_eqb_spec in E1, E2.
        assert (j = j'); [|subst; contradiction].
        apply (proj1 (NoDup_nth_error (map (@t_id item txid) txs)) Hids).
        - rewrite map_length. apply nth_error_Some. congruence.
        - rewrite !nth_error_map, Hn, Hn'. cbn. congruence. }
      assert (Hs : list_sum (map (hits e) l) = O).
      { clear -Hz. induction l as [|a l IH]; [reflexivity|]. rewrite map_cons, list_sum_cons.
        rewrite Hz by (left; reflexivity).
        rewrite IH; [reflexivity|]. intros; apply Hz; right; assumption. }
      rewrite Hs. lia.
    Qed.

    Lemma sum_dc_le_length : NoDup (map (@t_id item txid) txs) ->
      forall idx l, NoDup l -> (sum_dc idx l <= length idx)%nat.
    Proof.
      intros Hids. induction idx as [|e idx IH]; intros l Hnd.
      - unfold sum_dc. clear Hnd. induction l as [|j l IHl]; [cbn; lia|]. rewrite map_cons, list_sum_cons.
        assert (dc [] j = O) as ->; [|exact IHl].
        unfold dc. destruct (nth_error txs j); reflexivity.
      - assert (Hsplit : sum_dc (e :: idx) l = (list_sum (map (hits e) l) + sum_dc idx l)%nat).
        { unfold sum_dc. clear Hnd. induction l as [|j l IHl]; [reflexivity|].
          rewrite !map_cons, !list_sum_cons, dc_cons, IHl. lia. }
        rewrite Hsplit. pose proof (hits_le_one e Hids l Hnd). specialize (IH l Hnd). cbn [length]. lia.
    Qed.

    Lemma scan_cost_H st : NoDup (map (@t_id item txid) txs) -> scan fl f0 txs = Some st ->
      (s_calls st <= length txs + total_inputs txs)%nat.
    Proof.
      intros Hids H. destruct scan_inv as [st' [H' [[Hnd _] [_ [_ [_ Hcalls]]]]]]. rewrite H in H'. inversion H'; subst st'.
      pose proof (sum_dc_le_length Hids (index_from 0 txs) (s_matched st) Hnd) as Hle.
      rewrite index_from_length in Hle. lia.
    Qed.
    End HotOutputs.

    (* ---------- the instance that gives Rel: outputs hitting f0 whose class the flag allows ---------- *)
    Lemma hot0_inserted : forall f t k, le_f f0 f -> In t txs ->
      fst (match_tx_update fl f t) = true -> hot0 contains fl f0 t k ->
      contains (snd (match_tx_update fl f t)) (op_item (t_id t) (N.of_nat k)) = true.
    Proof. intros f t k Hle _ _ [o [Hn [Hh Hfl]]]. eapply match_inserts; eauto. Qed.

    Lemma Rel_RelH t : Rel fl f0 txs t -> RelH (hot0 contains fl f0) f0 txs t.
    Proof.
      intros HR. induction HR as [t Hin Hms | p t HRp IHp Hin Hs].
      - apply RelH_init; assumption.
      - eapply RelH_spend; [exact IHp | exact Hin|].
        destruct Hs as [inp [k [o [H1 [H2 [H3 [H4 [H5 H6]]]]]]]]. exists inp, k. repeat split; auto. exists o. auto.
    Qed.

    Theorem scan_fuel_enough : exists st, scan fl f0 txs = Some st.
    Proof. exact (scan_fuel_enough_H _ hot0_inserted). Qed.

    Theorem scan_sound st : scan fl f0 txs = Some st ->
      le_f f0 (s_f st) /\ NoDup (s_matched st) /\
      forall i, In i (s_matched st) -> exists t, nth_error txs i = Some t /\ matches_spec (s_f st) t.
    Proof. exact (scan_sound_H _ hot0_inserted st). Qed.

    Theorem scan_complete_here st : scan fl f0 txs = Some st ->
      forall t, Rel fl f0 txs t -> forall k, nth_error txs k = Some t -> In k (s_matched st).
    Proof. intros H t HR. apply (scan_complete_H _ hot0_inserted st H), Rel_RelH, HR. Qed.

    Theorem scan_cost_here st : NoDup (map (@t_id item txid) txs) -> scan fl f0 txs = Some st ->
      (s_calls st <= length txs + total_inputs txs)%nat.
    Proof. exact (scan_cost_H _ hot0_inserted st). Qed.

    (* ---------- a generic preservation rule for the outer loop ---------- *)
    Lemma scan_loop_preserve (P : sstate -> Prop) fuel :
      (forall idx st t i st', idx_wf idx -> Check idx st t i st' -> nth_error txs i = Some t -> P st -> P st') ->
      forall rest done st st', txs = done ++ rest ->
        scan_loop fuel fl (index_from 0 done) st (length done) rest = Some st' -> P st -> P st'.
    Proof.
      intros Hstep. induction rest as [|t rest IH]; intros done st st' Heq H HP; cbn [BloomTx.scan_loop] in H.
      - inversion H; subst. exact HP.
      - assert (Hidx' : index_from 0 done ++ entries_of t (length done) = index_from 0 (done ++ [t])).
        { rewrite index_from_app. cbn [index_from]. rewrite app_nil_r. reflexivity. }
        rewrite Hidx' in H.
        assert (Heq' : txs = (done ++ [t]) ++ rest) by (rewrite <- app_assoc; exact Heq).
        destruct (check fuel fl (index_from 0 (done ++ [t])) st t (length done)) as [st1|] eqn:E; [|discriminate].
        replace (S (length done)) with (length (done ++ [t])) in H by (rewrite app_length; cbn; lia).
        eapply IH; [exact Heq' | exact H|].
        eapply Hstep; [eapply index_from_wf; eauto | eapply check_Check; eauto | | exact HP].
        rewrite Heq. rewrite nth_error_app2 by lia. rewrite Nat.sub_diag. reflexivity.
    Qed.

    (* ---------- the gap between sound and complete is false positives (and data aliasing) ---------- *)
    Section Exact.
      Hypothesis exact : exact_insert contains insert.
      Hypothesis op_inj : op_injective op_item.
      Hypothesis noalias : no_alias id_item op_item txs.

      (* what a filter reached during the scan can contain: f0's items and outpoints of
         f0-matching outputs of relevant transactions *)
      Definition Ins (x : item) : Prop :=
        exists p k o, Rel fl f0 txs p /\ nth_error (t_outs p) k = Some o /\ out_hit f0 o = true /\
                      flag_allows fl (o_class o) = true /\ x = op_item (t_id p) (N.of_nat k).
      Definition E1 (g : F) : Prop := forall x, contains g x = true -> contains f0 x = true \/ Ins x.

      Lemma push_in_f0 g (t : tx) x : E1 g -> In t txs -> (x = id_item (t_id t) \/ In x (pushes_of_tx t)) ->
        contains g x = true -> contains f0 x = true.
      Proof.
        intros HE Hin Hx Hc. destruct (HE x Hc) as [H|[p [k [o [HR [_ [_ [_ Heq]]]]]]]]; [exact H|].
        exfalso. eapply (noalias t p (N.of_nat k) x); eauto. apply Rel_In, HR.
      Qed.

      Lemma out_push_in (t : tx) o ps x : In o (t_outs t) -> o_pushes o = Some ps -> In x ps -> In x (pushes_of_tx t).
      Proof.
        intros Ho Hp Hx. unfold pushes_of_tx. apply in_or_app. left. apply in_flat_map. exists o. split; [exact Ho|].
        rewrite Hp. exact Hx.
      Qed.

      Lemma in_push_in (t : tx) inp ps x : In inp (t_ins t) -> i_pushes inp = Some ps -> In x ps -> In x (pushes_of_tx t).
      Proof.
        intros Ho Hp Hx. unfold pushes_of_tx. apply in_or_app. right. apply in_flat_map. exists inp. split; [exact Ho|].
        rewrite Hp. exact Hx.
      Qed.

      Lemma out_hit_f0 g (t : tx) o : E1 g -> In t txs -> In o (t_outs t) -> out_hit g o = true -> out_hit f0 o = true.
      Proof.
        intros HE Hin Ho Hh. unfold BloomTx.out_hit in *. destruct (o_pushes o) as [ps|] eqn:Ep; [|discriminate].
        apply existsb_exists in Hh as [x [Hx Hc]]. apply existsb_exists. exists x. split; [exact Hx|].
        eapply push_in_f0; eauto. right. eapply out_push_in; eauto.
      Qed.

      Lemma upd_outputs_E1 (t : tx) : In t txs -> forall mid pre post g,
        t_outs t = pre ++ mid ++ post -> E1 g ->
        E1 (upd_outputs contains insert op_item fl (t_id t) (N.of_nat (length pre)) mid g).
      Proof.
        intros Hin. induction mid as [|o mid IH]; intros pre post g Heq HE; cbn [BloomTxSpec.upd_outputs]; [exact HE|].
        assert (Ho : In o (t_outs t)) by (rewrite Heq; apply in_or_app; right; left; reflexivity).
        replace (N.of_nat (length pre) + 1) with (N.of_nat (length (pre ++ [o]))) by (rewrite app_length; cbn; lia).
        apply (IH (pre ++ [o]) post); [rewrite <- app_assoc; exact Heq|].
        destruct (out_hit g o) eqn:Hh; [|exact HE].
        unfold maybe_add_outpoint. destruct (flag_allows fl (o_class o)) eqn:Hfl; [|exact HE].
        intros x Hc. apply exact in Hc as [Hc | ->]; [apply HE, Hc|].
        right. exists t, (length pre), o. repeat split; auto.
        - apply Rel_init; [exact Hin|]. right. left. exists o. split; [exact Ho|]. eapply out_hit_f0; eauto.
        - rewrite Heq. rewrite nth_error_app2, Nat.sub_diag by lia. reflexivity.
        - eapply out_hit_f0; eauto.
      Qed.

      Lemma match_E1 g (t : tx) : In t txs -> E1 g -> E1 (snd (mtu {| s_f := g; s_matched := []; s_calls := O |} t)).
      Proof.
        intros Hin HE. cbn [s_f]. rewrite match_snd. unfold BloomTxSpec.filter_before. rewrite firstn_all.
        apply (upd_outputs_E1 t Hin (t_outs t) [] []); [rewrite app_nil_r; reflexivity | exact HE].
      Qed.

      Lemma match_Rel g (t : tx) : In t txs -> E1 g -> fst (match_tx_update fl g t) = true -> Rel fl f0 txs t.
      Proof.
        intros Hin HE Hm. apply (proj1 (match_iff _ _ _ contains insert id_item op_item laws fl g t)) in Hm.
        destruct Hm as [H|[[k [o [Hn Hh]]]|[[inp [Hi H]]|[inp [ps [x [Hi [Ep [Hx H]]]]]]]]].
        - apply Rel_init; [exact Hin|]. left. eapply push_in_f0; eauto.
        - apply Rel_init; [exact Hin|]. right. left. exists o. split; [eapply nth_error_In; eauto|].
          eapply (out_hit_f0 _ t); [|exact Hin|eapply nth_error_In; eauto|exact Hh].
          unfold BloomTxSpec.filter_before.
          apply (upd_outputs_E1 t Hin (firstn k (t_outs t)) [] (skipn k (t_outs t))); [|exact HE].
          cbn. symmetry. apply firstn_skipn.
        - destruct (HE _ H) as [H0|[p [k [o [HR [Hn [Hh [Hfl Heq]]]]]]]].
          + apply Rel_init; [exact Hin|]. right. right. left. exists inp. auto.
          + apply op_inj in Heq as [Hh1 Hi1]. eapply Rel_spend; [exact HR | exact Hin|].
            exists inp, k, o. repeat split; auto.
        - apply Rel_init; [exact Hin|]. right. right. right. exists inp, ps, x. repeat split; auto.
          eapply push_in_f0; eauto. right. eapply in_push_in; eauto.
      Qed.

      Definition EInv (st : sstate) : Prop :=
        E1 (s_f st) /\ forall j, In j (s_matched st) -> exists t, nth_error txs j = Some t /\ Rel fl f0 txs t.

      Lemma exact_lemma idx : idx_wf idx ->
        (forall st t i st', Check idx st t i st' -> nth_error txs i = Some t -> EInv st -> EInv st')
        /\
        (forall st ds st', CheckL idx st ds st' ->
           (forall d kd, In (d, kd) ds -> nth_error txs kd = Some d) -> EInv st -> EInv st').
      Proof.
        intros Hwf. apply Check_CheckL_ind.
        - intros st t i Hm Hn [HE HR]. split; [|exact HR]. cbn. apply (match_E1 (s_f st) t); [eapply nth_error_In; eauto | exact HE].
        - intros st t i Hm Hin Hn [HE HR]. split; [|exact HR]. cbn. apply (match_E1 (s_f st) t); [eapply nth_error_In; eauto | exact HE].
        - intros st t i st' Hm Hnin HL IH Hn [HE HR]. apply IH; [intros; eapply deps_wf; eauto|].
          assert (Hin : In t txs) by (eapply nth_error_In; eauto).
          split; cbn.
          + apply (match_E1 (s_f st) t); assumption.
          + intros j [<-|Hj]; [|apply HR, Hj]. exists t. split; [exact Hn|]. eapply match_Rel; eauto.
        - intros st _ H. exact H.
        - intros st d ds st1 st' HC IH1 HL IH2 Hds HEI. destruct d as [d kd]. cbn [fst snd] in *.
          apply IH2; [intros; apply Hds; right; assumption|]. apply IH1; [apply Hds; left; reflexivity | exact HEI].
      Qed.

      Theorem scan_exact st : scan fl f0 txs = Some st ->
        (forall i, In i (s_matched st) -> exists t, nth_error txs i = Some t /\ Rel fl f0 txs t) /\
        (forall x, contains (s_f st) x = true -> contains f0 x = true \/ Ins x).
      Proof.
        intros H. unfold BloomTx.scan in H.
        assert (HE : EInv st).
        { eapply (scan_loop_preserve EInv (scan_fuel txs)) with (done := []) (rest := txs); [|reflexivity|exact H|].
          - intros idx s t i s' Hwf HC Hn HEI. eapply (proj1 (exact_lemma idx Hwf)); eauto.
          - split; cbn; [intros x Hx; left; exact Hx | intros j []]. }
        destruct HE as [HE HR]. split; [exact HR | exact HE].
      Qed.
    End Exact.
  End Block.

  (* ---------- any order ---------- *)
  Lemma Rel_perm f0 (txs txs' : list tx) t : Permutation txs txs' -> Rel fl f0 txs t -> Rel fl f0 txs' t.
  Proof.
    intros HP HR. induction HR as [t Hin Hms | p t HRp IHp Hin Hs].
    - apply Rel_init; [eapply Permutation_in; eauto | exact Hms].
    - eapply Rel_spend; [exact IHp | eapply Permutation_in; eauto | exact Hs].
  Qed.

  (* the general form: any set of "hot" outputs whose outpoints are contained after a matching call *)
  Lemma RelH_perm Hot f0 (txs txs' : list tx) t : Permutation txs txs' -> RelH Hot f0 txs t -> RelH Hot f0 txs' t.
  Proof.
    intros HP HR. induction HR as [t Hin Hms | p t HRp IHp Hin Hs].
    - apply RelH_init; [eapply Permutation_in; eauto | exact Hms].
    - eapply RelH_spend; [exact IHp | eapply Permutation_in; eauto | exact Hs].
  Qed.

  Theorem scan_complete_hot (Hot : tx -> nat -> Prop) f0 (txs txs' : list tx) st' :
    (forall f t k, le_f f0 f -> In t txs -> fst (match_tx_update fl f t) = true -> Hot t k ->
       contains (snd (match_tx_update fl f t)) (op_item (t_id t) (N.of_nat k)) = true) ->
    Permutation txs txs' -> scan fl f0 txs' = Some st' ->
    forall t, RelH Hot f0 txs t -> forall k, nth_error txs' k = Some t -> In k (s_matched st').
  Proof.
    intros HH HP Hs t HR. eapply (scan_complete_H txs' f0 Hot); [|exact Hs|eapply RelH_perm; eauto].
    intros f t' k' Hle Hin. apply HH; [exact Hle|]. eapply Permutation_in; [apply Permutation_sym; exact HP | exact Hin].
  Qed.

  Theorem scan_complete f0 (txs txs' : list tx) st' :
    Permutation txs txs' -> scan fl f0 txs' = Some st' ->
    forall t, Rel fl f0 txs t -> forall k, nth_error txs' k = Some t -> In k (s_matched st').
  Proof.
    intros HP Hs t HR. eapply scan_complete_here; [exact Hs|]. eapply Rel_perm; eauto.
  Qed.
End ScanProofs.

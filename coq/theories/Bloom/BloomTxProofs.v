(* C10 proofs, part 1: matchTxAndUpdate (match_iff and its corollaries). *)
From BU Require Import Lib.Bytes Bloom.BloomTx Bloom.BloomTxSpec.
From Coq Require Import ZifyBool ZifyN ZifyNat.

Section MatchProofs.
  Variables (F item txid : Type).
  Variable contains : F -> item -> bool.
  Variable insert : F -> item -> F.
  Variable id_item : txid -> item.
  Variable op_item : txid -> N -> item.
  Hypothesis laws : filter_laws contains insert.

  Local Notation tx := (tx item txid).
  Local Notation le_f := (le_f contains).
  Local Notation out_hit := (out_hit contains).
  Local Notation in_hit := (in_hit contains op_item).
  Local Notation maybe_add := (maybe_add_outpoint insert op_item).
  Local Notation upd_outputs := (upd_outputs contains insert op_item).
  Local Notation filter_before := (filter_before contains insert op_item).
  Local Notation match_outputs := (match_outputs contains insert op_item).
  Local Notation match_tx_update := (match_tx_update contains insert id_item op_item).
  Local Notation matches_spec := (matches_spec contains id_item op_item).

  (* ---------- the filter order ---------- *)
  Lemma le_f_refl f : le_f f f.
  Proof. intros x Hx; exact Hx. Qed.

  Lemma le_f_trans f g h : le_f f g -> le_f g h -> le_f f h.
  Proof. intros H1 H2 x Hx. apply H2, H1, Hx. Qed.

  Lemma le_f_insert f x : le_f f (insert f x).
  Proof. intros y Hy. apply (ins_mono laws), Hy. Qed.

  Lemma existsb_mono f g (ps : list item) : le_f f g -> existsb (contains f) ps = true -> existsb (contains g) ps = true.
  Proof.
    intros Hle H. apply existsb_exists in H as [p [Hin Hp]]. apply existsb_exists. exists p. split; [exact Hin | apply Hle, Hp].
  Qed.

  Lemma out_hit_mono f g o : le_f f g -> out_hit f o = true -> out_hit g o = true.
  Proof.
    unfold BloomTx.out_hit. intros Hle. destruct (o_pushes o) as [ps|]; [apply existsb_mono, Hle | auto].
  Qed.

  Lemma in_hit_mono f g i : le_f f g -> in_hit f i = true -> in_hit g i = true.
  Proof.
    unfold BloomTx.in_hit. intros Hle H. apply orb_true_iff in H as [H|H]; apply orb_true_iff.
    - left. apply Hle, H.
    - right. destruct (i_pushes i) as [ps|]; [eapply existsb_mono; eauto | discriminate].
  Qed.

  Lemma maybe_add_le fl f c h i : le_f f (maybe_add fl f c h i).
  Proof. unfold maybe_add_outpoint. destruct (flag_allows fl c); [apply le_f_insert | apply le_f_refl]. Qed.

  Lemma maybe_add_contains fl f c h i : flag_allows fl c = true -> contains (maybe_add fl f c h i) (op_item h i) = true.
  Proof. unfold maybe_add_outpoint. intros ->. apply (ins_contains laws). Qed.

  Lemma upd_outputs_le fl h outs : forall i f, le_f f (upd_outputs fl h i outs f).
  Proof.
    induction outs as [|o rest IH]; intros i f; cbn [BloomTxSpec.upd_outputs]; [apply le_f_refl|].
    eapply le_f_trans; [|apply IH]. destruct (out_hit f o); [apply maybe_add_le | apply le_f_refl].
  Qed.

  Lemma upd_outputs_app fl h a : forall b i f,
    upd_outputs fl h i (a ++ b) f = upd_outputs fl h (i + N.of_nat (length a)) b (upd_outputs fl h i a f).
  Proof.
    induction a as [|o a IH]; intros b i f; cbn [app length BloomTxSpec.upd_outputs].
    - f_equal. lia.
    - rewrite IH. f_equal. lia.
  Qed.

  (* ---------- the output loop ---------- *)
  Lemma match_outputs_true fl h outs : forall i f, fst (match_outputs fl h i outs f true) = true.
  Proof.
    induction outs as [|o rest IH]; intros i f; cbn [BloomTx.match_outputs]; [reflexivity|].
    destruct (out_hit f o); apply IH.
  Qed.

  Lemma match_outputs_snd fl h outs : forall i f m, snd (match_outputs fl h i outs f m) = upd_outputs fl h i outs f.
  Proof.
    induction outs as [|o rest IH]; intros i f m; cbn [BloomTx.match_outputs BloomTxSpec.upd_outputs]; [reflexivity|].
    destruct (out_hit f o); apply IH.
  Qed.

  Lemma match_outputs_fst fl h outs : forall i f m,
    fst (match_outputs fl h i outs f m) = true <->
    m = true \/ exists pre o post, outs = pre ++ o :: post /\ out_hit (upd_outputs fl h i pre f) o = true.
  Proof.
    induction outs as [|o rest IH]; intros i f m; cbn [BloomTx.match_outputs].
    - cbn [fst]. split; [auto|]. intros [H|[pre [o [post [H _]]]]]; [exact H|]. destruct pre; discriminate.
    - destruct (out_hit f o) eqn:Hhit.
      + split; [|intros _; apply match_outputs_true].
        intros _. right. exists [], o, rest. split; [reflexivity | exact Hhit].
      + rewrite IH. split; (intros [H|[pre [o' [post [Heq Hh]]]]]; [left; exact H|right]).
        * exists (o :: pre), o', post. split; [cbn; congruence|].
          cbn [BloomTxSpec.upd_outputs]. rewrite Hhit. exact Hh.
        * destruct pre as [|o1 pre]; cbn in Heq; inversion Heq; subst.
          -- cbn [BloomTxSpec.upd_outputs] in Hh. congruence.
          -- exists pre, o', post. split; [reflexivity|].
             cbn [BloomTxSpec.upd_outputs] in Hh. rewrite Hhit in Hh. exact Hh.
  Qed.

  Lemma match_outputs_false fl h outs : forall i f m f',
    match_outputs fl h i outs f m = (false, f') -> m = false /\ f' = f.
  Proof.
    induction outs as [|o rest IH]; intros i f m f'; cbn [BloomTx.match_outputs].
    - intros H; inversion H; auto.
    - destruct (out_hit f o) eqn:Hhit; intros H.
      + pose proof (match_outputs_true fl h rest (i + 1) (maybe_add fl f (o_class o) h i)) as Ht.
        rewrite H in Ht. discriminate.
      + eapply IH; eauto.
  Qed.

  (* pre/post decomposition <-> position *)
  Lemma split_at_nth {A} (l : list A) k o :
    nth_error l k = Some o <-> exists pre post, l = pre ++ o :: post /\ length pre = k.
  Proof.
    split.
    - apply nth_error_split.
    - intros [pre [post [-> <-]]]. rewrite nth_error_app2, Nat.sub_diag by lia. reflexivity.
  Qed.

  Lemma firstn_pre {A} (pre : list A) o post : firstn (length pre) (pre ++ o :: post) = pre.
  Proof. rewrite firstn_app, Nat.sub_diag, firstn_all. cbn. apply app_nil_r. Qed.

  (* ---------- matchTxAndUpdate ---------- *)
  Lemma match_snd fl f t : snd (match_tx_update fl f t) = filter_before fl f t (length (t_outs t)).
  Proof.
    unfold BloomTx.match_tx_update, BloomTxSpec.filter_before. rewrite firstn_all.
    destruct (match_outputs fl (t_id t) 0 (t_outs t) f (contains f (id_item (t_id t)))) as [m f'] eqn:E.
    assert (f' = upd_outputs fl (t_id t) 0 (t_outs t) f) as ->.
    { rewrite <- (match_outputs_snd fl (t_id t) (t_outs t) 0 f (contains f (id_item (t_id t)))), E. reflexivity. }
    destruct m; reflexivity.
  Qed.

  Lemma match_le fl f t : le_f f (snd (match_tx_update fl f t)).
  Proof. rewrite match_snd. apply upd_outputs_le. Qed.

  Lemma filter_before_le fl f t k : le_f f (filter_before fl f t k).
  Proof. apply upd_outputs_le. Qed.

  Lemma filter_before_le_final fl f t k : le_f (filter_before fl f t k) (snd (match_tx_update fl f t)).
  Proof.
    rewrite match_snd. unfold BloomTxSpec.filter_before. rewrite firstn_all.
    rewrite <- (firstn_skipn k (t_outs t)) at 2. rewrite upd_outputs_app. apply upd_outputs_le.
  Qed.

  Lemma existsb_in_hit f (ins : list (txin item txid)) :
    existsb (in_hit f) ins = true <->
    (exists inp, In inp ins /\ contains f (op_item (i_hash inp) (i_index inp)) = true)
    \/ (exists inp ps p, In inp ins /\ i_pushes inp = Some ps /\ In p ps /\ contains f p = true).
  Proof.
    rewrite existsb_exists. unfold BloomTx.in_hit. split.
    - intros [inp [Hin H]]. apply orb_true_iff in H as [H|H].
      + left. exists inp. auto.
      + right. destruct (i_pushes inp) as [ps|] eqn:E; [|discriminate].
        apply existsb_exists in H as [p [Hp Hc]]. exists inp, ps, p. auto.
    - intros [[inp [Hin H]]|[inp [ps [p [Hin [E [Hp Hc]]]]]]]; exists inp; (split; [exact Hin|]); apply orb_true_iff.
      + left. exact H.
      + right. rewrite E. apply existsb_exists. exists p. auto.
  Qed.

  (* match_iff: the result is true exactly when the filter contains the transaction id, or
     a data push of an output (tested against the filter as updated by the earlier outputs
     of the same transaction), or an outpoint the transaction spends, or a data push of an
     input script; the filter afterwards is the one updated output by output; the outpoint
     of every output that hit is contained afterwards when the flag allows its class. *)
  Theorem match_iff fl f t :
    (fst (match_tx_update fl f t) = true <->
       contains f (id_item (t_id t)) = true
       \/ (exists k o, nth_error (t_outs t) k = Some o /\ out_hit (filter_before fl f t k) o = true)
       \/ (exists inp, In inp (t_ins t) /\ contains f (op_item (i_hash inp) (i_index inp)) = true)
       \/ (exists inp ps p, In inp (t_ins t) /\ i_pushes inp = Some ps /\ In p ps /\ contains f p = true))
    /\ snd (match_tx_update fl f t) = filter_before fl f t (length (t_outs t))
    /\ (forall k o, nth_error (t_outs t) k = Some o -> out_hit (filter_before fl f t k) o = true ->
          flag_allows fl (o_class o) = true ->
          contains (snd (match_tx_update fl f t)) (op_item (t_id t) (N.of_nat k)) = true)
    /\ ((forall k o, nth_error (t_outs t) k = Some o -> out_hit (filter_before fl f t k) o = false) ->
          snd (match_tx_update fl f t) = f).
  Proof.
    split; [|split; [apply match_snd|split]].
    - unfold BloomTx.match_tx_update.
      destruct (match_outputs fl (t_id t) 0 (t_outs t) f (contains f (id_item (t_id t)))) as [m f'] eqn:E.
      pose proof (match_outputs_fst fl (t_id t) (t_outs t) 0 f (contains f (id_item (t_id t)))) as Hfst.
      rewrite E in Hfst. cbn [fst] in Hfst.
      assert (Hout : (exists pre o post, t_outs t = pre ++ o :: post /\ out_hit (upd_outputs fl (t_id t) 0 pre f) o = true)
                     <-> (exists k o, nth_error (t_outs t) k = Some o /\ out_hit (filter_before fl f t k) o = true)).
      { unfold BloomTxSpec.filter_before. split.
        - intros [pre [o [post [Heq Hh]]]]. exists (length pre), o. split.
          + apply split_at_nth. eauto.
          + rewrite Heq, firstn_pre. exact Hh.
        - intros [k [o [Hn Hh]]]. apply split_at_nth in Hn as [pre [post [Heq Hl]]].
          exists pre, o, post. split; [exact Heq|]. subst k. rewrite Heq, firstn_pre in Hh. exact Hh. }
      destruct m; cbn [fst].
      + split; [|reflexivity]. intros _. destruct Hfst as [Hfst _]. destruct (Hfst eq_refl) as [H|H].
        * left. exact H.
        * right. left. apply Hout, H.
      + apply match_outputs_false in E as [Hid ->].
        rewrite existsb_in_hit. split.
        * intros [H|H]; auto.
        * intros [H|[H|[H|H]]]; auto; exfalso.
          -- congruence.
          -- apply Hout in H. assert (false = true) by (apply Hfst; right; exact H). discriminate.
    - intros k o Hn Hh Hfl. rewrite match_snd. unfold BloomTxSpec.filter_before in *. rewrite firstn_all.
      apply split_at_nth in Hn as [pre [post [Heq Hl]]]. subst k. rewrite Heq, firstn_pre in Hh.
      rewrite Heq, upd_outputs_app. cbn [BloomTxSpec.upd_outputs]. rewrite Hh.
      apply upd_outputs_le. replace (N.of_nat (length pre)) with (0 + N.of_nat (length pre)) by lia.
      apply maybe_add_contains, Hfl.
    - intros Hno. rewrite match_snd. unfold BloomTxSpec.filter_before in *. rewrite firstn_all.
      assert (G : forall pre post, t_outs t = pre ++ post -> upd_outputs fl (t_id t) 0 pre f = f).
      { induction pre as [|o pre IH] using rev_ind; intros post Heq; [reflexivity|].
        rewrite upd_outputs_app. rewrite (IH ([o] ++ post)) by (rewrite Heq, <- app_assoc; reflexivity).
        cbn [BloomTxSpec.upd_outputs].
        assert (Hn : nth_error (t_outs t) (length pre) = Some o).
        { apply split_at_nth. exists pre, post. rewrite Heq, <- app_assoc. auto. }
        specialize (Hno _ _ Hn). rewrite Heq, <- app_assoc in Hno. cbn [app] in Hno. rewrite firstn_pre in Hno.
        rewrite (IH ([o] ++ post)) in Hno by (rewrite Heq, <- app_assoc; reflexivity).
        rewrite Hno. reflexivity. }
      apply (G (t_outs t) []). symmetry. apply app_nil_r.
  Qed.

  (* result true -> the four-way disjunction holds of the filter AFTER the call *)
  Lemma match_sound fl f t : fst (match_tx_update fl f t) = true -> matches_spec (snd (match_tx_update fl f t)) t.
  Proof.
    intros H. apply (proj1 (match_iff fl f t)) in H. unfold BloomTxSpec.matches_spec.
    pose proof (match_le fl f t) as Hle.
    destruct H as [H|[[k [o [Hn Hh]]]|[[inp [Hin H]]|[inp [ps [p [Hin [E [Hp H]]]]]]]]].
    - left. apply Hle, H.
    - right. left. exists o. split; [eapply nth_error_In; eauto|].
      eapply out_hit_mono; [apply filter_before_le_final | exact Hh].
    - right. right. left. exists inp. split; [exact Hin | apply Hle, H].
    - right. right. right. exists inp, ps, p. repeat split; auto.
  Qed.

  (* the four-way disjunction holds of any filter below the current one -> result true *)
  Lemma match_complete fl f0 f t : le_f f0 f -> matches_spec f0 t -> fst (match_tx_update fl f t) = true.
  Proof.
    intros Hle H. apply (proj1 (match_iff fl f t)). unfold BloomTxSpec.matches_spec in H.
    destruct H as [H|[[o [Hin Hh]]|[[inp [Hin H]]|[inp [ps [p [Hin [E [Hp H]]]]]]]]].
    - left. apply Hle, H.
    - right. left. apply In_nth_error in Hin as [k Hk]. exists k, o. split; [exact Hk|].
      eapply out_hit_mono; [|exact Hh]. eapply le_f_trans; [exact Hle | apply filter_before_le].
    - right. right. left. exists inp. split; [exact Hin | apply Hle, H].
    - right. right. right. exists inp, ps, p. repeat split; auto.
  Qed.

  (* after ANY call on t (matching or not) the outpoints of its outputs that hit a filter
     below the current one are contained, when the flag allows *)
  Lemma match_inserts fl f0 f t k o :
    le_f f0 f -> nth_error (t_outs t) k = Some o -> out_hit f0 o = true -> flag_allows fl (o_class o) = true ->
    contains (snd (match_tx_update fl f t)) (op_item (t_id t) (N.of_nat k)) = true.
  Proof.
    intros Hle Hn Hh Hfl. destruct (match_iff fl f t) as [_ [_ [H _]]]. eapply H; eauto.
    eapply out_hit_mono; [|exact Hh]. eapply le_f_trans; [exact Hle | apply filter_before_le].
  Qed.

  (* a filter that contains nothing (an unloaded filter) matches nothing and is not changed *)
  Lemma match_nothing fl f t : (forall x, contains f x = false) -> match_tx_update fl f t = (false, f).
  Proof.
    intros Hno.
    assert (Hoh : forall o, out_hit f o = false).
    { intros o. unfold BloomTx.out_hit. destruct (o_pushes o) as [ps|]; [|reflexivity].
      induction ps; cbn; [reflexivity|]. rewrite Hno. exact IHps. }
    assert (Hmo : forall outs i, match_outputs fl (t_id t) i outs f false = (false, f)).
    { induction outs as [|o rest IH]; intros i; cbn [BloomTx.match_outputs]; [reflexivity|]. rewrite Hoh. apply IH. }
    unfold BloomTx.match_tx_update. rewrite Hno, Hmo. f_equal.
    induction (t_ins t) as [|inp l IH]; cbn [existsb]; [reflexivity|]. rewrite IH.
    unfold BloomTx.in_hit. rewrite Hno. destruct (i_pushes inp) as [ps|]; [|reflexivity].
    cbn. rewrite orb_false_r. induction ps; cbn; [reflexivity|]. rewrite Hno. auto.
  Qed.
End MatchProofs.

(* C10 model: bloom/filter.go matchTxAndUpdate / maybeAddOutpoint and
   bloom/merkleblock.go GetMatchedIndices / checkFilterTx, over an ABSTRACT filter.

   The filter is a section variable: a state type [F] with [contains] (Go: bf.matches)
   and [insert] (Go: bf.add).  Script parsing is an oracle: an output carries what
   txscript.PushedData returned for its pkScript ([None] = parse error) and what
   txscript.GetScriptClass returned; an input carries its previous outpoint and the
   pushes of its signature script.  No proofs in this file. *)
From BU Require Import Lib.Bytes.

(* txscript.ScriptClass, by name (the harness maps the txscript constants to these names) *)
Inductive sclass :=
| ClsNonStandard | ClsPubKey | ClsPubKeyHash | ClsScriptHash | ClsScriptHash32
| ClsMultiSig | ClsNullData | ClsOther (n : N).

(* wire.BloomUpdateType, by name; [UpdOther] = any byte that is none of the three constants *)
Inductive uflag := UpdNone | UpdAll | UpdP2PubkeyOnly | UpdOther (n : N).

Section BloomTx.
  Variable F : Type.          (* filter state *)
  Variable item : Type.       (* what a filter is queried with (byte strings) *)
  Variable txid : Type.       (* chainhash.Hash *)
  Variable contains : F -> item -> bool.     (* bf.matches *)
  Variable insert : F -> item -> F.          (* bf.add *)
  Variable txid_eqb : txid -> txid -> bool.  (* Go map key equality on chainhash.Hash *)
  Variable id_item : txid -> item.           (* tx.Hash()[:] *)
  Variable op_item : txid -> N -> item.      (* outpoint serialisation: hash ‖ LE32(index) *)

  Record txout := { o_pushes : option (list item); o_class : sclass }.
  Record txin := { i_hash : txid; i_index : N; i_pushes : option (list item) }.
  Record tx := { t_id : txid; t_outs : list txout; t_ins : list txin }.

  (* ---------- maybeAddOutpoint ---------- *)
  Definition class_updates (c : sclass) : bool :=
    match c with ClsPubKey | ClsMultiSig => true | _ => false end.

  (* the switch on bf.msgFilterLoad.Flags has no default: any other flag byte updates nothing *)
  Definition flag_allows (fl : uflag) (c : sclass) : bool :=
    match fl with
    | UpdAll => true
    | UpdP2PubkeyOnly => class_updates c
    | _ => false
    end.

  Definition maybe_add_outpoint (fl : uflag) (f : F) (c : sclass) (h : txid) (i : N) : F :=
    if flag_allows fl c then insert f (op_item h i) else f.

  (* ---------- matchTxAndUpdate ---------- *)
  (* inner loop over the pushes of one output: the first push the filter matches sets
     matched, updates, and breaks; a PushedData error skips the output *)
  Definition out_hit (f : F) (o : txout) : bool :=
    match o_pushes o with
    | None => false
    | Some ps => existsb (contains f) ps
    end.

  (* the output loop: [i] is the output index (Go: uint32(i); a transaction cannot have
     2^32 outputs, the wrap is not modelled), the filter is threaded through, so a later
     output is tested against the filter already updated by earlier outputs *)
  Fixpoint match_outputs (fl : uflag) (h : txid) (i : N) (outs : list txout) (f : F) (matched : bool) : bool * F :=
    match outs with
    | [] => (matched, f)
    | o :: rest =>
        if out_hit f o
        then match_outputs fl h (i + 1) rest (maybe_add_outpoint fl f (o_class o) h i) true
        else match_outputs fl h (i + 1) rest f matched
    end.

  (* one input: the spent outpoint first, then the pushes of the signature script *)
  Definition in_hit (f : F) (inp : txin) : bool :=
    contains f (op_item (i_hash inp) (i_index inp))
    || match i_pushes inp with
       | None => false
       | Some ps => existsb (contains f) ps
       end.

  Definition match_tx_update (fl : uflag) (f : F) (t : tx) : bool * F :=
    let '(m, f') := match_outputs fl (t_id t) 0 (t_outs t) f (contains f (id_item (t_id t))) in
    if m then (true, f') else (existsb (in_hit f') (t_ins t), f').

  (* ---------- GetMatchedIndices / checkFilterTx ---------- *)
  (* scan state: the filter, bf.matchedIndices (most recently added first), and the number
     of MatchTxAndUpdate calls made so far (cost instrumentation, not in the Go code) *)
  Record sstate := { s_f : F; s_matched : list nat; s_calls : nat }.

  (* the spender index  inputs map[chainhash.Hash][]*txWithIndex  as an association list in
     insertion order: one entry (previous-outpoint hash, (spender, its block index)) per input *)
  Definition entry : Type := txid * (tx * nat).
  Definition deps (idx : list entry) (h : txid) : list (tx * nat) :=
    map snd (filter (fun e => txid_eqb (fst e) h) idx).
  Definition entries_of (t : tx) (k : nat) : list entry :=
    map (fun inp => (i_hash inp, (t, k))) (t_ins t).

  Definition fold_opt {A S : Type} (step : S -> A -> option S) : list A -> S -> option S :=
    fix go (l : list A) (s : S) : option S :=
      match l with
      | [] => Some s
      | a :: l' => match step s a with None => None | Some s' => go l' s' end
      end.

  Definition bump (st : sstate) (f' : F) : sstate :=
    {| s_f := f'; s_matched := s_matched st; s_calls := S (s_calls st) |}.
  Definition mark (st : sstate) (i : nat) : sstate :=
    {| s_f := s_f st; s_matched := i :: s_matched st; s_calls := s_calls st |}.
  Definition is_matched (st : sstate) (i : nat) : bool := existsb (Nat.eqb i) (s_matched st).

  (* checkFilterTx.  [fuel] bounds the recursion depth; [None] = out of fuel *)
  Fixpoint check (fuel : nat) (fl : uflag) (idx : list entry) (st : sstate) (t : tx) (i : nat) : option sstate :=
    match fuel with
    | O => None
    | S fuel' =>
        let '(m, f') := match_tx_update fl (s_f st) t in
        let st1 := bump st f' in
        if m then
          if is_matched st1 i then Some st1
          else fold_opt (fun s d => check fuel' fl idx s (fst d) (snd d)) (deps idx (t_id t)) (mark st1 i)
        else Some st1
    end.

  (* the loop of GetMatchedIndices: append this transaction's inputs to the index, then check it *)
  Fixpoint scan_loop (fuel : nat) (fl : uflag) (idx : list entry) (st : sstate) (k : nat) (txs : list tx) : option sstate :=
    match txs with
    | [] => Some st
    | t :: rest =>
        let idx' := idx ++ entries_of t k in
        match check fuel fl idx' st t k with
        | None => None
        | Some st' => scan_loop fuel fl idx' st' (S k) rest
        end
    end.

  Definition total_inputs (txs : list tx) : nat :=
    fold_right (fun t a => (length (t_ins t) + a)%nat) O txs.
  (* n + number of inputs (+1): enough for every block (BloomTxProofs.scan_fuel_enough) *)
  Definition scan_fuel (txs : list tx) : nat := S (length txs + total_inputs txs).
  Definition init_state (f : F) : sstate := {| s_f := f; s_matched := []; s_calls := O |}.

  Definition scan (fl : uflag) (f : F) (txs : list tx) : option sstate :=
    scan_loop (scan_fuel txs) fl [] (init_state f) O txs.

  (* ---------- the algorithm before commit 1a7bb05 (verbatim: no "already matched" test) ---------- *)
  Fixpoint check_old (fuel : nat) (fl : uflag) (idx : list entry) (st : sstate) (t : tx) (i : nat) : option sstate :=
    match fuel with
    | O => None
    | S fuel' =>
        let '(m, f') := match_tx_update fl (s_f st) t in
        let st1 := bump st f' in
        if m then
          fold_opt (fun s d => check_old fuel' fl idx s (fst d) (snd d)) (deps idx (t_id t))
                   (if is_matched st1 i then st1 else mark st1 i)
        else Some st1
    end.

  Fixpoint scan_loop_old (fuel : nat) (fl : uflag) (idx : list entry) (st : sstate) (k : nat) (txs : list tx) : option sstate :=
    match txs with
    | [] => Some st
    | t :: rest =>
        let idx' := idx ++ entries_of t k in
        match check_old fuel fl idx' st t k with
        | None => None
        | Some st' => scan_loop_old fuel fl idx' st' (S k) rest
        end
    end.

  Definition scan_old (fuel : nat) (fl : uflag) (f : F) (txs : list tx) : option sstate :=
    scan_loop_old fuel fl [] (init_state f) O txs.
End BloomTx.

Arguments o_pushes {item}. Arguments o_class {item}.
Arguments Build_txout {item}.
Arguments i_hash {item txid}. Arguments i_index {item txid}. Arguments i_pushes {item txid}.
Arguments Build_txin {item txid}.
Arguments t_id {item txid}. Arguments t_outs {item txid}. Arguments t_ins {item txid}.
Arguments Build_tx {item txid}.
Arguments s_f {F}. Arguments s_matched {F}. Arguments s_calls {F}.
Arguments Build_sstate {F}.
Arguments out_hit {F item}. Arguments in_hit {F item txid}.
Arguments maybe_add_outpoint {F item txid}.
Arguments match_outputs {F item txid}. Arguments match_tx_update {F item txid}.
Arguments entry : clear implicits.
Arguments deps {item txid}. Arguments entries_of {item txid}.
Arguments bump {F}. Arguments mark {F}. Arguments is_matched {F}. Arguments init_state {F}.
Arguments check {F item txid}. Arguments scan_loop {F item txid}. Arguments scan {F item txid}.
Arguments check_old {F item txid}. Arguments scan_loop_old {F item txid}. Arguments scan_old {F item txid}.
Arguments total_inputs {item txid}. Arguments scan_fuel {item txid}.

(* MurmurHash3_32 exactly as /repo/bloom/murmurhash3.go computes it: uint32
   arithmetic with the wrap written out, 4-byte little-endian blocks, the 1..3
   byte tail, the finaliser.  Constants, rotation counts and finaliser
   multipliers come from Gen/Xbloom.v (regenerated from the source on every run).
   No proofs here. *)
From BU Require Import Lib.Bytes Lib.PolyMod Gen.Xbloom.

(* x mod 2^32 and x mod 2^8, computed by masking (BloomProofs.w32_mod / w8_mod: equal to the mod) *)
Definition w32 (x : N) : N := N.land x 4294967295.
Definition w8 (x : N) : N := N.land x 255.

Definition mC1 : N := Z.to_N c_murmurC1.
Definition mC2 : N := Z.to_N c_murmurC2.
Definition mR1 : N := Z.to_N c_murmurR1.
Definition mR2 : N := Z.to_N c_murmurR2.
Definition mM  : N := Z.to_N c_murmurM.
Definition mN  : N := Z.to_N c_murmurN.
Definition mlit (i : nat) : N := lit lits_MurmurHash3 i.

(* (x << r) | (x >> (w - r)) on uint32; [w] is the literal 32 of the source *)
Definition rotl (x r w : N) : N := N.lor (w32 (N.shiftl x r)) (N.shiftr x (w - r)).

(* k *= C1; k = rotl(k, R1); k *= C2          [wbits] = the `32` literal used at that site *)
Definition mix_k (k wbits : N) : N := w32 (rotl (w32 (k * mC1)) mR1 wbits * mC2).

(* hash ^= k; hash = rotl(hash, R2); hash = hash*M + N *)
Definition mix_h (h k : N) : N := w32 (rotl (N.lxor h (mix_k k (mlit 4))) mR2 (mlit 5) * mM + mN).

(* binary.LittleEndian.Uint32 *)
Definition le32 (a b c d : N) : N := a + 256 * b + 65536 * c + 16777216 * d.

(* the block loop: consumes 4 bytes at a time, returns the state and the 0..3 remaining bytes *)
Fixpoint blocks (h : N) (data : list N) : N * list N :=
  match data with
  | a :: b :: c :: d :: t => blocks (mix_h h (le32 a b c d)) t
  | tail => (h, tail)
  end.

(* switch dataLen & 3 with fallthrough *)
Definition tail_k (tail : list N) : N :=
  match tail with
  | [] => 0
  | [a] => a
  | [a; b] => N.lxor (w32 (N.shiftl b (mlit 14))) a
  | a :: b :: c :: _ => N.lxor (N.lxor (w32 (N.shiftl c (mlit 11))) (w32 (N.shiftl b (mlit 14)))) a
  end.

Definition fmix (h : N) : N :=
  let h := N.lxor h (N.shiftr h (mlit 17)) in
  let h := w32 (h * mlit 18) in
  let h := N.lxor h (N.shiftr h (mlit 19)) in
  let h := w32 (h * mlit 20) in
  N.lxor h (N.shiftr h (mlit 21)).

(* seed is taken mod 2^32 (it is a uint32 in Go); data is a byte string.
   dataLen = uint32(len(data)); the block loop of the source runs dataLen/4 times, which is
   the whole string when len(data) < 2^32 (assumed: no 4 GiB items). *)
Definition murmur3 (seed : N) (data : list N) : N :=
  let dataLen := w32 (N.of_nat (length data)) in
  let '(h, tail) := blocks (w32 seed) data in
  let h := match tail with
           | [] => h
           | _ => N.lxor h (mix_k (tail_k tail) (mlit 16))
           end in
  fmix (N.lxor h dataLen).

(* C17 — text: uniqueness of the decimal in the rounding interval of ToUnit's result,
   unit labels, the sub-satoshi known finding as a refutation, and ToUnit's exact
   form for negative exponents. *)
From Coq Require Import ZArith Reals Lia Lra Bool List.
From Flocq Require Import Core IEEE754.BinarySingleNaN Relative.
From BU Require Import Lib.Bytes Gen.Xbchutil Amount.Amount Amount.RoundProofs Amount.UnitProofs.
Open Scope R_scope.

Lemma pow10_le_1e22 k : (0 <= k <= 22)%Z -> 1 <= IZR (10 ^ k) <= 10000000000000000000000.
Proof.
  intros Hk. split.
  - apply IZR_le. pose proof (Z.pow_pos_nonneg 10 k). lia.
  - change 10000000000000000000000 with (IZR (10 ^ 22)). apply IZR_le. apply Z.pow_le_mono_r; lia.
Qed.

(* a non-zero integer over 10^k (k <= 22) is in the normal range *)
Lemma ratio_normal (m k : Z) : m <> 0%Z -> (0 <= k <= 22)%Z ->
  bpow radix2 (-1022) <= Rabs (IZR m / IZR (10 ^ k)).
Proof.
  intros Hm Hk. destruct (pow10_le_1e22 k Hk) as [H1 H2].
  eapply Rle_trans; [apply bpow_m1022_small|].
  unfold Rdiv. rewrite Rabs_mult, Rabs_inv, (Rabs_pos_eq (IZR (10 ^ k))) by lra.
  assert (1 <= Rabs (IZR m)) by (rewrite <- abs_IZR; apply IZR_le; lia).
  apply Rle_trans with (1 * / IZR (10 ^ k)).
  - rewrite Rmult_1_l. apply Rinv_le_contravar; lra.
  - apply Rmult_le_compat_r; [|assumption]. left. apply Rinv_0_lt_compat. lra.
Qed.

Lemma RN_ratio_nonzero (m k : Z) : m <> 0%Z -> (0 <= k <= 22)%Z -> RN (IZR m / IZR (10 ^ k)) <> 0.
Proof.
  intros Hm Hk. destruct (RN_rel _ (ratio_normal m k Hm Hk)) as [e [He Hr]].
  rewrite Hr. pose proof bpow_m53_small. apply Rabs_le_inv in He.
  destruct (pow10_le_1e22 k Hk) as [H1 H2].
  apply Rmult_integral_contrapositive_currified; [|lra].
  unfold Rdiv. apply Rmult_integral_contrapositive_currified.
  - apply not_0_IZR. assumption.
  - apply Rinv_neq_0_compat. lra.
Qed.

(* Real-number core: two integers over the same 10^k that round to the same double are
   equal when one of them is at most 2.1e15 in magnitude. *)
Lemma same_rounding_same_integer (a m k : Z) :
  (Z.abs a <= 2100000000000000)%Z -> (0 <= k <= 22)%Z ->
  RN (IZR m / IZR (10 ^ k)) = RN (IZR a / IZR (10 ^ k)) -> m = a.
Proof.
  intros Ha Hk Heq.
  destruct (Z.eq_dec a 0) as [->|Han].
  { destruct (Z.eq_dec m 0) as [|Hmn]; [assumption|exfalso].
    apply (RN_ratio_nonzero m k Hmn Hk). rewrite Heq. unfold Rdiv. rewrite Rmult_0_l. apply RN_0. }
  destruct (Z.eq_dec m 0) as [->|Hmn].
  { exfalso. apply (RN_ratio_nonzero a k Han Hk). rewrite <- Heq. unfold Rdiv. rewrite Rmult_0_l. apply RN_0. }
  destruct (RN_rel _ (ratio_normal m k Hmn Hk)) as [e2 [He2 Hr2]].
  destruct (RN_rel _ (ratio_normal a k Han Hk)) as [e1 [He1 Hr1]].
  rewrite Hr1, Hr2 in Heq. clear Hr1 Hr2.
  destruct (pow10_le_1e22 k Hk) as [HP1 HP2].
  set (P := IZR (10 ^ k)) in *. set (A := IZR a) in *. set (M := IZR m) in *.
  pose proof bpow_m53_small as Hu.
  assert (He1' : -/9000000000000000 <= e1 <= /9000000000000000) by (apply Rabs_le_inv; lra).
  assert (He2' : -/9000000000000000 <= e2 <= /9000000000000000) by (apply Rabs_le_inv; lra).
  assert (HM : M * (1 + e2) = A * (1 + e1)).
  { replace (M / P * (1 + e2)) with (M * (1 + e2) / P) in Heq by (field; lra).
    replace (A / P * (1 + e1)) with (A * (1 + e1) / P) in Heq by (field; lra).
    unfold Rdiv in Heq. apply Rmult_eq_reg_r in Heq; [assumption|apply Rinv_neq_0_compat; lra]. }
  assert (HA : Rabs A <= 2100000000000000).
  { unfold A. rewrite <- abs_IZR. apply IZR_le. assumption. }
  assert (Hd : Rabs (M - A) < 1).
  { (* M - A = A e1 - M e2 and |M| <= |M - A| + |A| *)
    assert (He1u : Rabs e1 <= /9000000000000000) by lra.
    assert (He2u : Rabs e2 <= /9000000000000000) by lra.
    pose proof (abs_mul_le A e1 _ _ HA He1u) as H1.
    pose proof (abs_mul_le M e2 _ _ (Rle_refl _) He2u) as H2.
    assert (HMb : Rabs M <= Rabs (M - A) + Rabs A).
    { replace M with ((M - A) + A) at 1 by ring. apply Rabs_triang. }
    assert (Hdiff : Rabs (M - A) <= Rabs (A * e1) + Rabs (M * e2)).
    { replace (M - A) with (A * e1 + - (M * e2)) by (rewrite <- (Rplus_0_r (A * e1 + - (M * e2))); lra).
      eapply Rle_trans; [apply Rabs_triang|]. rewrite Rabs_Ropp. lra. }
    pose proof (Rabs_pos (M - A)). lra. }
  unfold M, A in Hd. rewrite <- minus_IZR, <- abs_IZR in Hd. apply lt_IZR in Hd. lia.
Qed.

(* unit_text_unique: for units Satoshi .. 1e14 BCH (k = u+8 in 0..22) and |a| <= 2.1e15, the
   only decimal with at most k fractional digits that parses back to the float returned by
   ToUnit is a * 10^-k itself. *)
Theorem unit_text_unique (a m k : Z) :
  (Z.abs a <= c_MaxSatoshi)%Z -> (0 <= k <= 22)%Z ->
  RN (IZR m / IZR (10 ^ k)) = B2R (to_unit a (k - 8)) -> m = a.
Proof.
  intros Ha Hk Heq. change c_MaxSatoshi with 2100000000000000%Z in Ha.
  destruct (to_unit_correct a (k - 8)) as [Hv _]; [lia|lia|].
  replace (k - 8 + 8)%Z with k in Hv by lia. rewrite Hv in Heq.
  now apply (same_rounding_same_integer a m k).
Qed.

(* ---------- labels ---------- *)
(* the base handed to strconv.FormatInt in AmountUnit.String is the source's literal 10 *)
Lemma lit_String_base_eq : lit_String_base = 10%Z.
Proof. reflexivity. Qed.

Lemma digits_fuel_10 (fuel : nat) : forall n acc, digits_fuel 10 fuel n acc = dec_fuel fuel n acc.
Proof.
  induction fuel as [|f IH]; intros n acc; [reflexivity|]. cbn [digits_fuel dec_fuel]. cbv zeta.
  assert (H : (n mod 10 <? 10)%Z = true) by (apply Z.ltb_lt; apply Z.mod_pos_bound; lia).
  rewrite H. destruct (n / 10 =? 0)%Z; [reflexivity|apply IH].
Qed.

Lemma fmt_int_dec (u : Z) : fmt_int lit_String_base u = dec_Z u.
Proof. rewrite lit_String_base_eq. unfold fmt_int, dec_Z, dec_nat. rewrite !digits_fuel_10. reflexivity. Qed.

Theorem unit_labels :
  unit_string c_AmountMegaBCH = [77; 66; 67; 72]%N /\
  unit_string c_AmountKiloBCH = [107; 66; 67; 72]%N /\
  unit_string c_AmountBCH = [66; 67; 72]%N /\
  unit_string c_AmountMilliBCH = [109; 66; 67; 72]%N /\
  unit_string c_AmountMicroBCH = [206; 188; 66; 67; 72]%N /\
  unit_string c_AmountSatoshi = [83; 97; 116; 111; 115; 104; 105]%N /\
  (c_AmountMegaBCH, c_AmountKiloBCH, c_AmountBCH, c_AmountMilliBCH, c_AmountMicroBCH, c_AmountSatoshi)
    = (6, 3, 0, -3, -6, -8)%Z /\
  forall u, ~ In u [c_AmountMegaBCH; c_AmountKiloBCH; c_AmountBCH; c_AmountMilliBCH; c_AmountMicroBCH; c_AmountSatoshi] ->
    unit_string u = ([49; 101]%N ++ dec_Z u ++ [32; 66; 67; 72]%N).
Proof.
  repeat (split; [reflexivity|]).
  intros u Hu. unfold unit_string.
  repeat match goal with
  | |- context [(u =? ?c)%Z] => destruct (Z.eqb_spec u c) as [->|_]; [exfalso; apply Hu; simpl; tauto|]
  end.
  rewrite fmt_int_dec. reflexivity.
Qed.

(* ---------- the known finding: units below Satoshi ---------- *)
(* the value of a finite float as an integer when its exponent is non-negative *)
Definition int_value (f : float) : option Z :=
  match f with
  | B754_finite s m e _ => if (0 <=? e)%Z then Some (SpecFloat.cond_Zopp s (Z.pos m) * 2 ^ e)%Z else None
  | B754_zero _ => Some 0%Z
  | _ => None
  end.

(* Amount(2099999999999999).Format(-9): the float handed to strconv is the integer
   20999999999999988, not 2099999999999999 * 10 = 20999999999999990, and the printed
   text is "20999999999999988.0 1e-9 BCH". *)
Theorem format_subsatoshi_refuted :
  exists a u : Z, (Z.abs a <= c_MaxSatoshi)%Z /\ (u < c_AmountSatoshi)%Z /\ (-12 <= u)%Z /\
    int_value (to_unit a u) = Some 20999999999999988%Z /\
    (a * 10 ^ (- (u + 8)) = 20999999999999990)%Z /\
    forall shortest, format shortest a u =
      [50;48;57;57;57;57;57;57;57;57;57;57;57;57;57;56;56;46;48;32;49;101;45;57;32;66;67;72]%N.
Proof.
  exists 2099999999999999%Z, (-9)%Z.
  repeat split; try (vm_compute; congruence).
Qed.

(* ---------- ToUnit for negative exponents: what is computed ---------- *)
Definition sf_eqb (x y : SpecFloat.spec_float) : bool :=
  match x, y with
  | SpecFloat.S754_finite s1 m1 e1, SpecFloat.S754_finite s2 m2 e2 => Bool.eqb s1 s2 && (m1 =? m2)%positive && (e1 =? e2)%Z
  | SpecFloat.S754_zero s1, SpecFloat.S754_zero s2 => Bool.eqb s1 s2
  | SpecFloat.S754_infinity s1, SpecFloat.S754_infinity s2 => Bool.eqb s1 s2
  | SpecFloat.S754_nan, SpecFloat.S754_nan => true
  | _, _ => false
  end.

Lemma sf_eqb_eq x y : sf_eqb x y = true -> x = y.
Proof.
  destruct x, y; simpl; try discriminate; intros H;
    repeat (apply andb_true_iff in H; destruct H as [H ?]);
    repeat match goal with
    | H : Bool.eqb _ _ = true |- _ => apply Bool.eqb_prop in H
    | H : (_ =? _)%positive = true |- _ => apply Pos.eqb_eq in H
    | H : (_ =? _)%Z = true |- _ => apply Z.eqb_eq in H
    end; subst; reflexivity.
Qed.

(* for 1 <= k <= 22, math.Pow10(-k) is the float division 1 / 10^k with both operands exact *)
Lemma pow10_neg_table :
  forallb (fun k => sf_eqb (B2SF (pow10 (- k))) (B2SF (Bdiv mode_NE (of_Z 1) (pow10 k))))
    (map Z.of_nat (seq 1 22)) = true.
Proof. vm_compute. reflexivity. Qed.

Lemma pow10_neg (k : Z) : (1 <= k <= 22)%Z -> B2R (pow10 (- k)) = RN (1 / IZR (10 ^ k)) /\ is_finite (pow10 (- k)) = true.
Proof.
  intros Hk.
  assert (He : B2SF (pow10 (- k)) = B2SF (Bdiv mode_NE (of_Z 1) (pow10 k))).
  { apply sf_eqb_eq. pose proof pow10_neg_table as H. rewrite forallb_forall in H.
    apply (H k). apply in_map_iff. exists (Z.to_nat k). split; [lia|]. apply in_seq. lia. }
  apply B2SF_inj in He. rewrite He.
  destruct (of_Z_exact 1) as [H1v H1f]; [lia|]. destruct (pow10_exact k) as [Hpv Hpf]; [lia|].
  destruct (pow10_le_1e22 k) as [HP1 HP2]; [lia|].
  pose proof (Bdiv_correct 53 1024 _ _ mode_NE (of_Z 1) (pow10 k)) as H.
  rewrite H1v, Hpv in H. change (Generic_fmt.round radix2 _ _ ?x) with (RN x) in H.
  rewrite Rlt_bool_true in H.
  - destruct H as [Hv [Hf _]]; [lra|]. split; [exact Hv|]. now rewrite Hf.
  - eapply Rle_lt_trans; [apply RN_abs_le_2_53|].
    + unfold Rdiv. rewrite Rmult_1_l, Rabs_inv, Rabs_pos_eq by lra.
      apply Rle_trans with 1; [|apply IZR_le; lia]. rewrite <- Rinv_1. apply Rinv_le_contravar; lra.
    + rewrite bpow1024. apply IZR_lt. reflexivity.
Qed.

(* For -22 <= u+8 < 0 ToUnit divides by the *rounded* reciprocal power RN(10^(u+8)); it is
   not the correctly rounded product a * 10^-(u+8) (the known finding's root cause). *)
Theorem to_unit_subsatoshi (a u : Z) :
  (Z.abs a <= 2 ^ 53)%Z -> (-22 <= u + 8 < 0)%Z ->
  B2R (to_unit a u) = RN (IZR a / RN (1 / IZR (10 ^ (- (u + 8))))) /\ is_finite (to_unit a u) = true.
Proof.
  intros Ha Hu. unfold to_unit. rewrite lit_ToUnit_8_eq. rewrite wrap64_small by lia.
  destruct (of_Z_exact a Ha) as [Hav Haf].
  destruct (pow10_neg (- (u + 8))) as [Hpv Hpf]; [lia|].
  replace (- - (u + 8))%Z with (u + 8)%Z in * by lia.
  destruct (pow10_le_1e22 (- (u + 8))) as [HP1 HP2]; [lia|].
  set (P := IZR (10 ^ (- (u + 8)))) in *.
  (* the divisor is at least 2^-74 *)
  assert (Hlow : bpow radix2 (-74) <= RN (1 / P)).
  { apply round_ge_generic; [apply FLT_exp_valid; reflexivity|auto with typeclass_instances| |].
    - apply generic_format_bpow. unfold FLT_exp. lia.
    - apply Rle_trans with (/ 10000000000000000000000); [simpl bpow; lra|].
      unfold Rdiv. rewrite Rmult_1_l. apply Rinv_le_contravar; lra. }
  assert (Hb74 : 0 < bpow radix2 (-74)) by apply bpow_gt_0.
  pose proof (Bdiv_correct 53 1024 _ _ mode_NE (of_Z a) (pow10 (u + 8))) as H.
  rewrite Hav, Hpv in H. change (Generic_fmt.round radix2 _ _ ?x) with (RN x) in H.
  rewrite Rlt_bool_true in H.
  - destruct H as [Hv [Hf _]]; [lra|]. split; [exact Hv|]. now rewrite Hf.
  - apply Rle_lt_trans with (bpow radix2 127); [|apply bpow_lt; lia].
    apply abs_round_le_generic; [apply FLT_exp_valid; reflexivity|auto with typeclass_instances| |].
    + apply generic_format_bpow. unfold FLT_exp. lia.
    + change (IZR a / RN (1 / P)) with (IZR a * / RN (1 / P)).
      rewrite Rabs_mult, Rabs_inv, (Rabs_pos_eq (RN (1 / P))) by lra.
      apply Rle_trans with (bpow radix2 53 * bpow radix2 74).
      * apply Rmult_le_compat.
        -- apply Rabs_pos.
        -- left. apply Rinv_0_lt_compat. lra.
        -- rewrite <- abs_IZR. change (bpow radix2 53) with (IZR (2 ^ 53)). now apply IZR_le.
        -- replace (bpow radix2 74) with (/ bpow radix2 (-74)).
           ++ apply Rinv_le_contravar; lra.
           ++ rewrite <- bpow_opp. reflexivity.
      * rewrite <- bpow_plus. apply bpow_le. lia.
Qed.

(* C17 — model of /repo/amount.go on IEEE 754 binary64 (Flocq 4.1, BinarySingleNaN:
   one NaN, which is all the Go code can observe).  Executable by vm_compute.

   Go source                                   model
   ---------------------------------------------------------------------------
   float64                                      float = binary_float 53 1024
   x * y, x / y      (round to nearest even)    Bmult/Bdiv mode_NE
   float64(a)  (a int64)                        of_Z a  (binary_normalize mode_NE a 0)
   math.Round(f)                                Bnearbyint mode_NA f  (half away from zero)
   Amount(f) = int64(f)  (truncation)           to_int64 f: Btrunc; NaN, +-Inf and values
                                                outside [-2^63, 2^63) give -2^63, which is what
                                                amd64 (CVTTSD2SQ) yields; Go leaves it
                                                implementation-defined, every theorem carries
                                                the guard |y| < 2^62 of the property
   math.Pow10(n)                                pow10 n: the table lookups of math/pow10.go
   strconv.FormatFloat(f,'f',p,64), p >= 0      fmt_fixed f p  (exact value, half-even at p digits)
   strconv.FormatFloat(f,'f',p,64), p <  0      a dependency: parameter [shortest] of [format]
   strconv.FormatInt(u, 10)                     dec_Z u
   AmountUnit.String                            unit_string u (labels transcribed; compared with
                                                the implementation on every run)
   Constants come from Gen/Xbchutil.v (regenerated from the Go source on every run). *)
From Coq Require Import ZArith NArith List Bool.
From Flocq Require Import Core IEEE754.BinarySingleNaN.
From Flocq Require IEEE754.Binary IEEE754.Bits.
From BU Require Import Lib.Bytes Gen.Xbchutil.
Import ListNotations.
Open Scope Z_scope.

#[global] Instance prec53_gt_0 : Prec_gt_0 53. Proof. reflexivity. Qed.
#[global] Instance prec53_lt_emax : Prec_lt_emax 53 1024. Proof. reflexivity. Qed.

Definition float := binary_float 53 1024.

(* ---------- bit patterns (how the harness passes floats) ---------- *)
Definition of_bits (n : N) : float := Binary.B2BSN 53 1024 (Bits.b64_of_bits (Z.of_N n)).

(* the single NaN prints as Go's math.NaN(); the run driver compares NaN-ness, not payloads *)
Definition nan_bits : Z := 0x7FF8000000000001.
Definition bits_of (f : float) : N :=
  Z.to_N match f with
  | B754_zero s => if s then 2 ^ 63 else 0
  | B754_infinity s => (if s then 2 ^ 63 else 0) + 0x7FF0000000000000
  | B754_nan => nan_bits
  | B754_finite s m e _ =>
      (if s then 2 ^ 63 else 0) +
      (if Z.pos m <? 2 ^ 52 then Z.pos m else (e + 1075) * 2 ^ 52 + (Z.pos m - 2 ^ 52))
  end.

(* ---------- conversions ---------- *)
Definition of_Z (z : Z) : float := binary_normalize 53 1024 _ _ mode_NE z 0 false.

Definition int64_min : Z := - 2 ^ 63.
Definition int64_max : Z := 2 ^ 63 - 1.

(* float64 -> int64 as compiled for amd64 *)
Definition to_int64 (f : float) : Z :=
  match f with
  | B754_nan | B754_infinity _ => int64_min
  | _ => let z := Btrunc f in
         if (int64_min <=? z) && (z <=? int64_max) then z else int64_min
  end.

(* math.Round *)
Definition go_round (f : float) : float := Bnearbyint mode_NA f.

(* func round(f float64) Amount { return Amount(math.Round(f)) } *)
Definition round (f : float) : Z := to_int64 (go_round f).

Definition f_1e8 : float := of_Z c_SatoshiPerBitcoin.

(* NewAmount: error class 1 = "invalid bitcoin amount" *)
Definition new_amount (f : float) : res Z :=
  match f with
  | B754_nan => Err 1%N
  | B754_infinity _ => Err 1%N
  | _ => Ok (round (Bmult mode_NE f f_1e8))
  end.

(* ---------- math.Pow10 ---------- *)
(* RN(p/q) for positive p, q: quotient with 64 significant bits, sticky bit appended *)
Definition rn_ratio (p q : Z) : float :=
  let k := 64 + Z.log2_up q - Z.log2 p in
  let k := Z.max k 0 in
  let m := (p * 2 ^ k) / q in
  let exact := (p * 2 ^ k) mod q =? 0 in
  binary_normalize 53 1024 _ _ mode_NE (if exact then 2 * m else 2 * m + 1) (- k - 1) false.

Definition pow10tab (i : Z) : float := of_Z (10 ^ i).             (* the literal 1e<i>, 0 <= i < 32 *)
Definition pow10postab32 (i : Z) : float := of_Z (10 ^ (32 * i)). (* the literal 1e<32i>, 0 <= i < 10 *)
Definition pow10negtab32 (i : Z) : float := rn_ratio 1 (10 ^ (32 * i)). (* the literal 1e-<32i>, 0 <= i < 11 *)

Definition pow10 (n : Z) : float :=
  if (0 <=? n) && (n <=? 308) then Bmult mode_NE (pow10postab32 (n / 32)) (pow10tab (n mod 32))
  else if (-323 <=? n) && (n <=? 0) then Bdiv mode_NE (pow10negtab32 ((- n) / 32)) (pow10tab ((- n) mod 32))
  else if 0 <? n then B754_infinity false
  else B754_zero false.

(* ---------- ToUnit, ToBCH, MulF64 ---------- *)
Definition lit_ToUnit_8 : Z := nth 0 lits_Amount_ToUnit 0.

(* AmountUnit is a Go int (64 bits on every supported target): u+8 and the negation in Format
   wrap around.  Amount(1).ToUnit(AmountUnit(math.MaxInt64)) divides by Pow10(MinInt64+7) = 0. *)
Definition wrap64 (z : Z) : Z := (z + 2 ^ 63) mod 2 ^ 64 - 2 ^ 63.

(* float64(a) / math.Pow10(int(u+8)) *)
Definition to_unit (a u : Z) : float := Bdiv mode_NE (of_Z a) (pow10 (wrap64 (u + lit_ToUnit_8))).
Definition to_bch (a : Z) : float := to_unit a c_AmountBCH.
Definition mul_f64 (a : Z) (f : float) : Z := round (Bmult mode_NE (of_Z a) f).

(* ---------- text ---------- *)
(* decimal digits of a natural number, most significant first, "0" for zero *)
Fixpoint dec_fuel (fuel : nat) (n : Z) (acc : list N) : list N :=
  match fuel with
  | O => acc
  | S f => let acc' := (48 + Z.to_N (n mod 10))%N :: acc in
           if n / 10 =? 0 then acc' else dec_fuel f (n / 10) acc'
  end.
Definition dec_nat (n : Z) : list N := dec_fuel (S (Z.to_nat (Z.log2 n))) n [].
(* strconv.FormatInt(z, 10) *)
Definition dec_Z (z : Z) : list N := if z <? 0 then 45%N :: dec_nat (- z) else dec_nat z.

(* the last k digits of n, zero padded *)
Fixpoint frac_digits (k : nat) (n : Z) (acc : list N) : list N :=
  match k with
  | O => acc
  | S k' => frac_digits k' (n / 10) ((48 + Z.to_N (n mod 10))%N :: acc)
  end.

(* text of the decimal  neg ? -m*10^-k : m*10^-k  (m >= 0) in %f layout with exactly k fractional digits *)
Definition dec_text (neg : bool) (m : Z) (k : Z) : list N :=
  (if neg then [45%N] else []) ++ dec_nat (m / 10 ^ k) ++
  (if 0 <? k then 46%N :: frac_digits (Z.to_nat k) (m mod 10 ^ k) [] else []).

(* strip trailing fractional zeros: the same number with the fewest fractional digits *)
Fixpoint canon_fuel (fuel : nat) (m k : Z) : Z * Z :=
  match fuel with
  | O => (m, k)
  | S f => if (0 <? k) && (m mod 10 =? 0) then canon_fuel f (m / 10) (k - 1) else (m, k)
  end.
Definition canon (m k : Z) : Z * Z := canon_fuel (Z.to_nat k) m k.

(* the text that denotes a * 10^-k exactly, fewest digits *)
Definition exact_text (a k : Z) : list N :=
  let (m, j) := canon (Z.abs a) k in dec_text (a <? 0) m j.

(* round half to even of a rational n/d (d > 0, n >= 0) *)
Definition div_half_even (n d : Z) : Z :=
  let q := n / d in let r := n mod d in
  match 2 * r ?= d with Lt => q | Gt => q + 1 | Eq => if Z.even q then q else q + 1 end.

(* strconv.FormatFloat(f, 'f', p, 64) for p >= 0: exact binary value rounded half-even to p digits *)
Definition fmt_fixed (f : float) (p : Z) : list N :=
  match f with
  | B754_nan => [78; 97; 78]%N                       (* "NaN" *)
  | B754_infinity s => (if s then 45 else 43)%N :: [73; 110; 102]%N   (* "+Inf" / "-Inf" *)
  | B754_zero s => dec_text s 0 p
  | B754_finite s m e _ =>
      let n := if 0 <=? e then Z.pos m * 2 ^ e * 10 ^ p else div_half_even (Z.pos m * 10 ^ p) (2 ^ (- e)) in
      dec_text s n p
  end.

(* strconv.FormatInt(z, base): lower-case digits, '-' for negatives.  The base is the literal of
   AmountUnit.String in the source. *)
Definition lit_String_base : Z := nth 0 lits_AmountUnit_String 0.
Fixpoint digits_fuel (b : Z) (fuel : nat) (n : Z) (acc : list N) : list N :=
  match fuel with
  | O => acc
  | S f => let d := n mod b in
           let acc' := ((if (d <? 10)%Z then 48 else 87) + Z.to_N d)%N :: acc in
           if n / b =? 0 then acc' else digits_fuel b f (n / b) acc'
  end.
Definition fmt_int (b z : Z) : list N :=
  let digs n := digits_fuel b (S (Z.to_nat (Z.log2 n))) n [] in
  if z <? 0 then 45%N :: digs (- z) else digs z.

(* AmountUnit.String *)
Definition unit_string (u : Z) : list N :=
  if u =? c_AmountMegaBCH then [77; 66; 67; 72]%N                      (* "MBCH" *)
  else if u =? c_AmountKiloBCH then [107; 66; 67; 72]%N                (* "kBCH" *)
  else if u =? c_AmountBCH then [66; 67; 72]%N                         (* "BCH" *)
  else if u =? c_AmountMilliBCH then [109; 66; 67; 72]%N               (* "mBCH" *)
  else if u =? c_AmountMicroBCH then [206; 188; 66; 67; 72]%N          (* "μBCH" (UTF-8) *)
  else if u =? c_AmountSatoshi then [83; 97; 116; 111; 115; 104; 105]%N (* "Satoshi" *)
  else [49; 101]%N ++ fmt_int lit_String_base u ++ [32; 66; 67; 72]%N. (* "1e" + FormatInt(u, 10) + " BCH" *)

Definition lit_Format_8 : Z := nth 1 lits_Amount_Format 0.

(* Format: strconv.FormatFloat(a.ToUnit(u), 'f', -int(u+8), 64) + " " + u.String().
   A negative precision asks strconv for the shortest text that parses back to the
   same float: that printer is a dependency, passed as [shortest]. *)
Definition format (shortest : float -> list N) (a u : Z) : list N :=
  let p := wrap64 (- wrap64 (u + lit_Format_8)) in
  (if p <? 0 then shortest (to_unit a u) else fmt_fixed (to_unit a u) p) ++ 32%N :: unit_string u.

(* What a correct shortest printer must print for amounts up to the cap (theorems
   unit_text_unique / format_exact in AmountProofs.v): the exact decimal. *)
Definition format_spec (a u : Z) : list N :=
  let p := - (u + lit_Format_8) in
  (if p <? 0 then exact_text a (- p) else fmt_fixed (to_unit a u) p) ++ 32%N :: unit_string u.

(* The property's text for units Satoshi and above, with no float in it: the exact decimal of
   a * 10^-(u+8) with the fewest digits, a space, the label (theorem format_is_exact_text). *)
Definition format_exact_spec (a u : Z) : list N :=
  exact_text a (u + lit_Format_8) ++ 32%N :: unit_string u.

(* ---------- reading a decimal text back (specification side only) ---------- *)
(* digits [0-9]+ as a natural number; None on any other character or on the empty string *)
Fixpoint read_digits (s : list N) (acc : Z) : option Z :=
  match s with
  | [] => Some acc
  | c :: t => if ((48 <=? c) && (c <=? 57))%N then read_digits t (acc * 10 + Z.of_N (c - 48)) else None
  end.
Definition read_nat (s : list N) : option Z := match s with [] => None | _ => read_digits s 0 end.

Fixpoint split_dot (s : list N) : list N * option (list N) :=
  match s with
  | [] => ([], None)
  | c :: t => if (c =? 46)%N then ([], Some t)
              else let (i, f) := split_dot t in (c :: i, f)
  end.

(* "-"? digits ("." digits)?  |->  (negative?, M, j): the text denotes (-1)^neg * M / 10^j *)
Definition read_dec (s : list N) : option (bool * Z * Z) :=
  let (neg, body) := match s with 45%N :: t => (true, t) | _ => (false, s) end in
  let (ip, fp) := split_dot body in
  match read_nat ip, fp with
  | Some i, None => Some (neg, i, 0)
  | Some i, Some fd =>
      match read_nat fd with
      | Some f => Some (neg, i * 10 ^ Z.of_nat (length fd) + f, Z.of_nat (length fd))
      | None => None
      end
  | None, _ => None
  end.

Definition amount_string (shortest : float -> list N) (a : Z) : list N := format shortest a c_AmountBCH.

(* C17 — what the printed text DENOTES.  read_dec (Amount.v) reads "-"? digits ("." digits)? back to
   (sign, M, j) = (-1)^sign * M / 10^j and rejects everything else; exact_text a k reads back to a
   decimal whose value is exactly a / 10^k, with no trailing fractional zero.  Together with
   format_is_exact_text this is the property's clause "the decimal text printed for any unit denotes
   exactly amount x 10^-(unit+8) followed by that unit's label" for units Satoshi..1e14 BCH. *)
From Coq Require Import ZArith NArith Lia Bool List ZifyBool ZifyN ZifyNat.
From BU Require Import Lib.Bytes Gen.Xbchutil Amount.Amount Amount.FormatProofs.
Import ListNotations.
Open Scope Z_scope.
Definition is_digit (c : N) : Prop := (48 <= c <= 57)%N.

Lemma read_digits_app (l1 l2 : list N) : forall acc,
  read_digits (l1 ++ l2) acc = match read_digits l1 acc with Some v => read_digits l2 v | None => None end.
Proof.
  induction l1 as [|c t IH]; intros acc; [reflexivity|].
  cbn [app read_digits]. destruct ((48 <=? c)%N && (c <=? 57)%N); [apply IH|reflexivity].
Qed.

Lemma digit_char (n : Z) : let c := (48 + Z.to_N (n mod 10))%N in
  is_digit c /\ Z.of_N (c - 48) = n mod 10.
Proof.
  cbv zeta. pose proof (Z.mod_pos_bound n 10 ltac:(lia)) as H. unfold is_digit. lia.
Qed.

Lemma read_digits_one (c : N) acc : is_digit c -> read_digits [c] acc = Some (acc * 10 + Z.of_N (c - 48)).
Proof.
  intros [H1 H2]. cbn [read_digits].
  replace ((48 <=? c)%N && (c <=? 57)%N) with true by (symmetry; apply andb_true_iff; split; apply N.leb_le; assumption).
  reflexivity.
Qed.

(* the digits produced by dec_fuel read back as n, in front of whatever was accumulated *)
Lemma dec_fuel_spec (f : nat) : forall n acc, 0 <= n < 10 ^ Z.of_nat (S f) ->
  exists ds, dec_fuel (S f) n acc = ds ++ acc /\ ds <> [] /\ Forall is_digit ds /\
    forall v0, read_digits ds v0 = Some (v0 * 10 ^ Z.of_nat (length ds) + n).
Proof.
  induction f as [|f IH]; intros n acc Hn.
  - cbn [dec_fuel]. destruct (digit_char n) as [Hd Hv].
    assert (Hq : n / 10 = 0) by (apply Z.div_small; change (10 ^ Z.of_nat 1) with 10 in Hn; lia).
    rewrite Hq. cbn [Z.eqb]. exists [(48 + Z.to_N (n mod 10))%N]. repeat split.
    + discriminate.
    + constructor; [assumption|constructor].
    + intros v0. rewrite read_digits_one by assumption. rewrite Hv. cbn [length].
      rewrite Z.mod_small by (change (10 ^ Z.of_nat 1) with 10 in Hn; lia).
      change (10 ^ Z.of_nat 1) with 10. reflexivity.
  - remember (S f) as f1. cbn [dec_fuel]. destruct (digit_char n) as [Hd Hv].
    set (c := (48 + Z.to_N (n mod 10))%N) in *.
    destruct (Z.eqb_spec (n / 10) 0) as [Hq|Hq].
    + exists [c]. repeat split.
      * discriminate.
      * constructor; [assumption|constructor].
      * intros v0. rewrite read_digits_one by assumption. rewrite Hv. cbn [length].
        change (10 ^ Z.of_nat 1) with 10. f_equal.
        pose proof (Z.div_mod n 10 ltac:(lia)). lia.
    + subst f1. destruct (IH (n / 10) (c :: acc)) as [ds [He [Hne [Hall Hrd]]]].
      { split; [apply Z.div_pos; lia|]. apply Z.div_lt_upper_bound; [lia|].
        replace (Z.of_nat (S (S f))) with (1 + Z.of_nat (S f)) in Hn by lia.
        rewrite Z.pow_add_r in Hn by lia. lia. }
      exists (ds ++ [c]). rewrite He, <- app_assoc. repeat split.
      * destruct ds; discriminate.
      * apply Forall_app. split; [assumption|constructor; [assumption|constructor]].
      * intros v0. rewrite read_digits_app, Hrd, read_digits_one by assumption. rewrite Hv.
        rewrite app_length. cbn [length]. f_equal.
        replace (Z.of_nat (length ds + 1)) with (Z.of_nat (length ds) + 1) by lia.
        rewrite Z.pow_add_r by lia. pose proof (Z.div_mod n 10 ltac:(lia)). lia.
Qed.

Lemma log2_fuel (n : Z) : 0 <= n -> n < 10 ^ Z.of_nat (S (Z.to_nat (Z.log2 n))).
Proof.
  intros Hn. destruct (Z.eq_dec n 0) as [->|Hz]; [reflexivity|].
  pose proof (Z.log2_nonneg n) as Hl. pose proof (Z.log2_spec n ltac:(lia)) as [_ H2].
  replace (Z.of_nat (S (Z.to_nat (Z.log2 n)))) with (Z.succ (Z.log2 n)) by lia.
  eapply Z.lt_le_trans; [exact H2|]. apply Z.pow_le_mono_l. lia.
Qed.

Lemma dec_nat_spec (n : Z) : 0 <= n ->
  dec_nat n <> [] /\ Forall is_digit (dec_nat n) /\ read_digits (dec_nat n) 0 = Some n.
Proof.
  intros Hn. unfold dec_nat.
  destruct (dec_fuel_spec (Z.to_nat (Z.log2 n)) n []) as [ds [He [Hne [Hall Hrd]]]].
  { split; [assumption|now apply log2_fuel]. }
  rewrite He, app_nil_r. repeat split; try assumption. rewrite Hrd. reflexivity.
Qed.

Lemma frac_digits_spec (k : nat) : forall n acc,
  exists ds, frac_digits k n acc = ds ++ acc /\ length ds = k /\ Forall is_digit ds /\
    forall v0, read_digits ds v0 = Some (v0 * 10 ^ Z.of_nat k + n mod 10 ^ Z.of_nat k).
Proof.
  induction k as [|k IH]; intros n acc.
  - exists []. repeat split; [constructor|]. intros v0. cbn [read_digits]. change (10 ^ Z.of_nat 0) with 1.
    rewrite Z.mod_1_r. f_equal. lia.
  - cbn [frac_digits]. destruct (digit_char n) as [Hd Hv]. set (c := (48 + Z.to_N (n mod 10))%N) in *.
    destruct (IH (n / 10) (c :: acc)) as [ds [He [Hlen [Hall Hrd]]]].
    exists (ds ++ [c]). rewrite He, <- app_assoc. repeat split.
    + rewrite app_length. cbn [length]. lia.
    + apply Forall_app. split; [assumption|constructor; [assumption|constructor]].
    + intros v0. rewrite read_digits_app, Hrd, read_digits_one by assumption. rewrite Hv. f_equal.
      replace (Z.of_nat (S k)) with (1 + Z.of_nat k) by lia. rewrite Z.pow_add_r by lia.
      change (10 ^ 1) with 10.
      rewrite (Z.rem_mul_r n 10 (10 ^ Z.of_nat k)) by (try apply Z.pow_pos_nonneg; lia). ring.
Qed.

Lemma split_dot_digits (ds : list N) : Forall is_digit ds ->
  split_dot ds = (ds, None) /\ forall t, split_dot (ds ++ 46%N :: t) = (ds, Some t).
Proof.
  induction 1 as [|c l Hc Hl [IH1 IH2]]; [split; [reflexivity|intros t; reflexivity]|].
  assert (Hne : (c =? 46)%N = false) by (unfold is_digit in Hc; lia).
  split; [|intros t]; cbn [app split_dot]; rewrite Hne; [rewrite IH1|rewrite IH2]; reflexivity.
Qed.

Lemma read_dec_dec_text (neg : bool) (m j : Z) : 0 <= m -> 0 <= j ->
  read_dec (dec_text neg m j) = Some (neg, m, j).
Proof.
  intros Hm Hj. unfold dec_text.
  assert (Hp : 0 < 10 ^ j) by (apply Z.pow_pos_nonneg; lia).
  destruct (dec_nat_spec (m / 10 ^ j)) as [Hne [Hall Hrd]]; [apply Z.div_pos; lia|].
  set (ip := dec_nat (m / 10 ^ j)) in *.
  set (tail := if 0 <? j then 46%N :: frac_digits (Z.to_nat j) (m mod 10 ^ j) [] else []).
  (* strip the sign *)
  assert (Hbody : read_dec ((if neg then [45%N] else []) ++ ip ++ tail) =
          let (i, f) := split_dot (ip ++ tail) in
          match read_nat i, f with
          | Some i, None => Some (neg, i, 0)
          | Some i, Some fd => match read_nat fd with
                               | Some f => Some (neg, i * 10 ^ Z.of_nat (length fd) + f, Z.of_nat (length fd))
                               | None => None end
          | None, _ => None end).
  { destruct neg; [reflexivity|]. cbn [app]. unfold read_dec.
    destruct ip as [|c t] eqn:Eip; [congruence|]. inversion Hall as [|? ? Hc _]; subst.
    cbn [app]. destruct c as [|p]; [reflexivity|].
    assert (N.pos p <> 45%N) by (unfold is_digit in Hc; lia).
    destruct (N.eq_dec (N.pos p) 45) as [E|_]; [contradiction|].
    repeat (destruct p as [p|p|]; try reflexivity; try (exfalso; unfold is_digit in Hc; lia)). }
  rewrite Hbody. clear Hbody.
  destruct (split_dot_digits ip Hall) as [Hs1 Hs2].
  assert (Hrn : read_nat ip = Some (m / 10 ^ j)).
  { unfold read_nat. destruct ip; [congruence|exact Hrd]. }
  subst tail. destruct (Z.ltb_spec 0 j) as [Hjp|Hj0].
  - rewrite Hs2, Hrn.
    destruct (frac_digits_spec (Z.to_nat j) (m mod 10 ^ j) []) as [fd [He [Hlen [Hfall Hfrd]]]].
    rewrite He, app_nil_r.
    assert (Hfn : read_nat fd = Some (m mod 10 ^ j)).
    { unfold read_nat. destruct fd as [|c t] eqn:Efd; [cbn [length] in Hlen; lia|].
      rewrite Hfrd. f_equal. rewrite Z2Nat.id by lia. rewrite Z.mod_mod by lia. lia. }
    rewrite Hfn, Hlen, Z2Nat.id by lia. f_equal. f_equal. f_equal.
    pose proof (Z.div_mod m (10 ^ j) ltac:(lia)). lia.
  - assert (j = 0) by lia. subst j. rewrite app_nil_r, Hs1, Hrn. change (10 ^ 0) with 1. rewrite Z.div_1_r. reflexivity.
Qed.

(* exact_text a k denotes a / 10^k exactly (and is the fewest-digit such text) *)
Theorem exact_text_denotes (a k : Z) : 0 <= k ->
  exists M j, read_dec (exact_text a k) = Some ((a <? 0), M, j) /\ 0 <= M /\ 0 <= j <= k /\
    (if a <? 0 then - M else M) * 10 ^ (k - j) = a /\ (j = 0 \/ M mod 10 <> 0).
Proof.
  intros Hk. unfold exact_text. pose proof (canon_spec (Z.abs a) k Hk) as Hc.
  destruct (canon (Z.abs a) k) as [m j]. destruct Hc as [Hj [Hm Hnz]].
  assert (Hp : 0 < 10 ^ (k - j)) by (apply Z.pow_pos_nonneg; lia).
  assert (Hm0 : 0 <= m) by nia.
  exists m, j. split; [apply read_dec_dec_text; lia|]. split; [assumption|]. split; [assumption|].
  split; [|assumption]. destruct (Z.ltb_spec a 0); lia.
Qed.

(* Format, units Satoshi..1e14 BCH, amounts up to the cap, any printer meeting shortest_printer_spec:
   the text is T ++ " " ++ label where T reads back as exactly a / 10^(u+8). *)
Theorem format_denotes (shortest : float -> list N) : shortest_printer_spec shortest ->
  forall a u : Z, Z.abs a <= c_MaxSatoshi -> c_AmountSatoshi <= u <= 14 ->
  exists T M j, format shortest a u = T ++ 32%N :: unit_string u /\
    read_dec T = Some ((a <? 0), M, j) /\ 0 <= M /\ 0 <= j <= u + 8 /\
    (if a <? 0 then - M else M) * 10 ^ (u + 8 - j) = a /\ (j = 0 \/ M mod 10 <> 0).
Proof.
  intros Hsp a u Ha Hu. rewrite (format_is_exact_text shortest Hsp a u Ha Hu).
  unfold format_exact_spec. change lit_Format_8 with 8.
  change c_AmountSatoshi with (-8) in Hu.
  destruct (exact_text_denotes a (u + 8) ltac:(lia)) as [M [j H]].
  exists (exact_text a (u + 8)), M, j. split; [reflexivity|exact H].
Qed.

(* Amount.String() is Format(AmountBCH) *)
Theorem string_is_exact_text (shortest : float -> list N) : shortest_printer_spec shortest ->
  forall a : Z, Z.abs a <= c_MaxSatoshi -> amount_string shortest a = format_exact_spec a c_AmountBCH.
Proof.
  intros Hsp a Ha. unfold amount_string. apply format_is_exact_text; [assumption|assumption|].
  vm_compute. split; discriminate.
Qed.

(* not vacuous, and the reader rejects what is not a decimal *)
Example read_dec_examples :
  read_dec (exact_text (-150000000) 8) = Some (true, 15, 1) /\
  read_dec (exact_text 2099999999999999 8) = Some (false, 2099999999999999, 8) /\
  read_dec (exact_text 0 8) = Some (false, 0, 0) /\
  read_dec [49; 101; 43; 48; 54]%N = None /\ read_dec [46; 53]%N = None /\ read_dec [53; 46]%N = None /\
  read_dec [45]%N = None /\ read_dec [43; 73; 110; 102]%N = None /\ read_dec [49; 46; 50; 46; 51]%N = None.
Proof. vm_compute. repeat split. Qed.

(* C17 — Format prints the exact decimal for units Satoshi..1e14 BCH and amounts up to the
   cap, for ANY shortest-round-trip printer: strconv is a Section variable with the one
   hypothesis [shortest_printer_spec]. *)
From Coq Require Import ZArith Reals Lia Lra Bool List.
From Flocq Require Import Core IEEE754.BinarySingleNaN Relative.
From BU Require Import Lib.Bytes Gen.Xbchutil Amount.Amount Amount.RoundProofs Amount.UnitProofs Amount.TextProofs.
Open Scope R_scope.

(* ---------- canon: strip trailing fractional zeros ---------- *)
Lemma canon_fuel_spec (f : nat) : forall m k : Z, (0 <= k <= Z.of_nat f)%Z ->
  let (m', k') := canon_fuel f m k in
  (0 <= k' <= k)%Z /\ (m = m' * 10 ^ (k - k'))%Z /\ (k' = 0 \/ m' mod 10 <> 0)%Z.
Proof.
  induction f as [|f IH]; intros m k Hk.
  - simpl. replace (k - k)%Z with 0%Z by lia. lia.
  - cbn [canon_fuel]. destruct (Z.ltb_spec 0 k) as [Hpos|Hz]; cbn [andb].
    + destruct (Z.eqb_spec (m mod 10) 0) as [Hd|Hnd].
      * specialize (IH (m / 10) (k - 1))%Z. destruct (canon_fuel f (m / 10) (k - 1)) as [m' k'].
        destruct IH as [H1 [H2 H3]]; [lia|]. split; [lia|]. split; [|assumption].
        replace (k - k')%Z with (1 + (k - 1 - k'))%Z by lia.
        rewrite Z.pow_add_r by lia. rewrite Z.pow_1_r.
        rewrite (Z.div_mod m 10) at 1 by lia. rewrite Hd, H2. ring.
      * replace (k - k)%Z with 0%Z by lia. lia.
    + replace (k - k)%Z with 0%Z by lia. lia.
Qed.

Lemma canon_spec (m k : Z) : (0 <= k)%Z ->
  let (m', k') := canon m k in
  (0 <= k' <= k)%Z /\ (m = m' * 10 ^ (k - k'))%Z /\ (k' = 0 \/ m' mod 10 <> 0)%Z.
Proof. intros Hk. unfold canon. apply canon_fuel_spec. lia. Qed.

(* scaling numerator and denominator by a power of ten *)
Lemma ratio_scale (m j k : Z) : (0 <= j <= k)%Z ->
  IZR (m * 10 ^ (k - j)) / IZR (10 ^ k) = IZR m / IZR (10 ^ j).
Proof.
  intros H. replace k with (j + (k - j))%Z at 2 by lia. rewrite Z.pow_add_r by lia.
  rewrite !mult_IZR.
  assert (0 < IZR (10 ^ j)) by (apply pow10_pos; lia).
  assert (0 < IZR (10 ^ (k - j))) by (apply pow10_pos; lia).
  field. lra.
Qed.

(* ---------- sign of ToUnit ---------- *)
Lemma of_Z_sign (a : Z) : (Z.abs a <= 2 ^ 53)%Z -> Bsign (of_Z a) = (a <? 0)%Z.
Proof.
  intros Ha. unfold of_Z.
  pose proof (binary_normalize_correct 53 1024 _ _ mode_NE a 0 false) as H. cbv zeta in H.
  assert (Hx : F2R (Float radix2 a 0) = IZR a) by (unfold F2R; simpl; ring).
  rewrite Hx in H.
  rewrite round_generic in H; [|auto with typeclass_instances|now apply format_small_int].
  rewrite Rlt_bool_true in H.
  - destruct H as [_ [_ Hs]]. rewrite Hs.
    destruct (Rcompare_spec (IZR a) 0) as [Hlt|Heq|Hgt].
    + apply lt_IZR in Hlt. symmetry. now apply Z.ltb_lt.
    + apply eq_IZR in Heq. subst. reflexivity.
    + apply lt_IZR in Hgt. symmetry. apply Z.ltb_ge. lia.
  - rewrite <- abs_IZR, bpow1024. apply IZR_lt. eapply Z.le_lt_trans; [exact Ha|reflexivity].
Qed.

Lemma pow10_sign_table :
  forallb (fun n => negb (Bsign (pow10 n))) (map Z.of_nat (seq 0 23)) = true.
Proof. vm_compute. reflexivity. Qed.

Lemma pow10_sign (n : Z) : (0 <= n <= 22)%Z -> Bsign (pow10 n) = false.
Proof.
  intros Hn. pose proof pow10_sign_table as H. rewrite forallb_forall in H.
  apply negb_true_iff. apply H. apply in_map_iff. exists (Z.to_nat n). split; [lia|]. apply in_seq. lia.
Qed.

Lemma to_unit_sign (a u : Z) : (Z.abs a <= 2 ^ 53)%Z -> (0 <= u + 8 <= 22)%Z ->
  Bsign (to_unit a u) = (a <? 0)%Z.
Proof.
  intros Ha Hu. destruct (to_unit_correct a u Ha Hu) as [_ Hfin].
  unfold to_unit in *. rewrite lit_ToUnit_8_eq in *. rewrite wrap64_small in * by lia.
  destruct (of_Z_exact a Ha) as [Hav Haf]. destruct (pow10_exact _ Hu) as [Hpv Hpf].
  pose proof (pow10_pos (u + 8) (proj1 Hu)) as Hpos.
  pose proof (Bdiv_correct 53 1024 _ _ mode_NE (of_Z a) (pow10 (u + 8))) as H.
  rewrite Hav, Hpv in H. change (Generic_fmt.round radix2 _ _ ?x) with (RN x) in H.
  destruct (Rlt_bool _ _) eqn:Hlt.
  - destruct H as [_ [_ Hs]]; [lra|]. rewrite Hs.
    + rewrite of_Z_sign by assumption. rewrite pow10_sign by assumption. apply xorb_false_r.
    + destruct (Bdiv mode_NE (of_Z a) (pow10 (u + 8))); try discriminate; reflexivity.
  - (* overflow is impossible: the result is finite *)
    exfalso. assert (Hpn : IZR (10 ^ (u + 8)) <> 0) by lra. specialize (H Hpn).
    destruct (Bdiv mode_NE (of_Z a) (pow10 (u + 8))) as [s|s| |s m e Hb]; try discriminate;
      unfold binary_overflow in H; simpl in H; destruct (overflow_to_inf _ _); discriminate.
Qed.

(* ---------- the Satoshi unit: fixed precision 0 of an integral float ---------- *)
Lemma div_half_even_exact (q d : Z) : (0 < d)%Z -> div_half_even (q * d) d = q.
Proof.
  intros Hd. unfold div_half_even. rewrite Z.div_mul, Z.mod_mul by lia.
  replace (2 * 0)%Z with 0%Z by lia. destruct (Z.compare_spec 0 d); [lia|reflexivity|lia].
Qed.

(* strconv.FormatFloat(F, 'f', 0, 64) of a float whose value is the integer a prints a *)
Lemma fmt_fixed_int (F : float) (a : Z) :
  is_finite F = true -> B2R F = IZR a -> Bsign F = (a <? 0)%Z ->
  fmt_fixed F 0 = dec_text (a <? 0)%Z (Z.abs a) 0.
Proof.
  intros Hfin Hv Hs. destruct F as [s|s| |s m e Hb]; try discriminate.
  - simpl in Hv, Hs. apply eq_IZR in Hv. subst a. cbn [fmt_fixed]. now rewrite Hs.
  - cbn [Bsign] in Hs. cbn [fmt_fixed]. rewrite <- Hs. f_equal.
    unfold B2R, F2R in Hv. cbn [Fnum Fexp] in Hv.
    assert (Hsa : Z.abs (SpecFloat.cond_Zopp s (Z.pos m)) = Z.pos m) by (destruct s; reflexivity).
    destruct (Z.leb_spec 0 e) as [He|He].
    + rewrite <- (IZR_Zpower radix2 e He) in Hv.
      rewrite <- mult_IZR in Hv. apply eq_IZR in Hv.
      change (radix2 ^ e)%Z with (2 ^ e)%Z in Hv.
      assert (Hp : (0 <= 2 ^ e)%Z) by (apply Z.pow_nonneg; lia).
      rewrite <- Hv, Z.abs_mul, Hsa, (Z.abs_eq (2 ^ e)) by exact Hp.
      change (10 ^ 0)%Z with 1%Z. ring.
    + assert (Hm : (SpecFloat.cond_Zopp s (Z.pos m) = a * 2 ^ (- e))%Z).
      { apply eq_IZR. rewrite mult_IZR, <- Hv. change (IZR (2 ^ (- e))) with (IZR (radix2 ^ (- e))).
        rewrite (IZR_Zpower radix2 (- e)) by lia. rewrite Rmult_assoc, <- bpow_plus.
        replace (e + - e)%Z with 0%Z by lia. simpl. ring. }
      assert (Hp : (0 < 2 ^ (- e))%Z) by (apply Z.pow_pos_nonneg; lia).
      assert (Hm' : (Z.pos m = Z.abs a * 2 ^ (- e))%Z).
      { rewrite <- Hsa, Hm, Z.abs_mul. f_equal. apply Z.abs_eq. lia. }
      change (10 ^ 0)%Z with 1%Z. rewrite Z.mul_1_r, Hm'. now apply div_half_even_exact.
Qed.

Lemma to_unit_satoshi (a : Z) : (Z.abs a <= 2 ^ 53)%Z ->
  fmt_fixed (to_unit a c_AmountSatoshi) 0 = exact_text a 0.
Proof.
  intros Ha. change c_AmountSatoshi with (-8)%Z.
  destruct (to_unit_correct a (-8) Ha) as [Hv Hfin]; [lia|].
  pose proof (to_unit_sign a (-8) Ha ltac:(lia)) as Hs.
  change (10 ^ (-8 + 8))%Z with 1%Z in Hv. unfold Rdiv in Hv. rewrite Rinv_1, Rmult_1_r in Hv.
  unfold RN in Hv. rewrite round_generic in Hv; [|auto with typeclass_instances|now apply format_small_int].
  rewrite (fmt_fixed_int _ a Hfin Hv Hs). reflexivity.
Qed.

Section Shortest.
(* strconv.FormatFloat(F, 'f', -1, 64) *)
Variable shortest : float -> list N.

(* What is trusted about it.  For every finite F it prints sign, integer digits and j fractional
   digits of a decimal m * 10^-j such that
     (1) the decimal parses back to |F| (it lies in the rounding interval of F),
     (2) it carries no trailing fractional zero,
     (3) no decimal with fewer fractional digits parses back to |F|
         (a shortest printer minimises the digit count; within one decade that is the
          number of fractional digits). *)
Definition shortest_printer_spec : Prop := forall F : float, is_finite F = true ->
  exists m j : Z, (0 <= m)%Z /\ (0 <= j)%Z /\
    shortest F = dec_text (Bsign F) m j /\
    RN (IZR m / IZR (10 ^ j)) = Rabs (B2R F) /\
    (j = 0 \/ m mod 10 <> 0)%Z /\
    (forall m' j' : Z, (0 <= j')%Z -> RN (IZR m' / IZR (10 ^ j')) = Rabs (B2R F) -> (j <= j')%Z).

Hypothesis Hshortest : shortest_printer_spec.

Lemma shortest_exact (a u : Z) : (Z.abs a <= c_MaxSatoshi)%Z -> (0 <= u + 8 <= 22)%Z ->
  shortest (to_unit a u) = exact_text a (u + 8).
Proof.
  intros Ha Hu. change c_MaxSatoshi with 2100000000000000%Z in Ha.
  set (k := (u + 8)%Z) in *.
  destruct (to_unit_correct a u) as [Hv Hfin]; [lia|assumption|]. fold k in Hv.
  pose proof (to_unit_sign a u ltac:(lia) Hu) as Hsign.
  assert (Habs : Rabs (B2R (to_unit a u)) = RN (IZR (Z.abs a) / IZR (10 ^ k))).
  { rewrite Hv. unfold RN. rewrite <- round_NE_abs by (apply FLT_exp_valid; reflexivity).
    f_equal. assert (0 < IZR (10 ^ k)) by (apply pow10_pos; lia).
    unfold Rdiv. rewrite Rabs_mult, Rabs_inv, (Rabs_pos_eq (IZR (10 ^ k))) by lra.
    now rewrite abs_IZR. }
  destruct (Hshortest _ Hfin) as [m [j [Hm [Hj [Htext [Hback [Hnz Hmin]]]]]]].
  rewrite Htext, Hsign. unfold exact_text.
  pose proof (canon_spec (Z.abs a) k ltac:(lia)) as Hc.
  destruct (canon (Z.abs a) k) as [m0 j0]. destruct Hc as [Hj0 [Hm0 Hnz0]].
  (* the canonical form of |a| * 10^-k parses back to |F|, so j <= j0 *)
  assert (Hle : (j <= j0)%Z).
  { apply (Hmin m0 j0); [lia|]. rewrite Habs, Hm0. now rewrite ratio_scale. }
  (* m * 10^(k-j) / 10^k parses back to |F| = ToUnit(|a|), hence equals |a| *)
  assert (HM : (m * 10 ^ (k - j))%Z = Z.abs a).
  { apply (same_rounding_same_integer (Z.abs a) (m * 10 ^ (k - j)) k); [lia|assumption|].
    rewrite ratio_scale by lia. now rewrite Hback, Habs. }
  assert (Hjj : j = j0).
  { destruct (Z.eq_dec j j0) as [|Hne]; [assumption|exfalso].
    assert (Hlt : (j < j0)%Z) by lia.
    assert (Hm0' : m0 = (m * 10 ^ (j0 - j))%Z).
    { apply (Z.mul_reg_r _ _ (10 ^ (k - j0))); [apply Z.pow_nonzero; lia|].
      rewrite <- Hm0, <- HM. replace (k - j)%Z with ((j0 - j) + (k - j0))%Z by lia.
      rewrite Z.pow_add_r by lia. ring. }
    destruct Hnz0 as [Hz|Hnd]; [lia|]. apply Hnd. rewrite Hm0'.
    replace (j0 - j)%Z with (1 + (j0 - j - 1))%Z by lia. rewrite Z.pow_add_r by lia.
    rewrite Z.pow_1_r. replace (m * (10 * 10 ^ (j0 - j - 1)))%Z with ((m * 10 ^ (j0 - j - 1)) * 10)%Z by ring.
    apply Z.mod_mul. lia. }
  subst j0. f_equal.
  apply (Z.mul_reg_r _ _ (10 ^ (k - j))); [apply Z.pow_nonzero; lia|]. now rewrite HM.
Qed.

(* Format(u) for Satoshi <= u <= 1e14 BCH and |a| <= 2.1e15 is the exact decimal text of
   a * 10^-(u+8) (fewest digits), a space and the unit's label. *)
Theorem format_exact (a u : Z) : (Z.abs a <= c_MaxSatoshi)%Z -> (c_AmountSatoshi <= u <= 14)%Z ->
  format shortest a u = format_spec a u.
Proof.
  intros Ha Hu. change c_AmountSatoshi with (-8)%Z in Hu.
  unfold format, format_spec. change lit_Format_8 with 8%Z. rewrite (wrap64_small (u + 8)) by lia. rewrite (wrap64_small (- (u + 8))) by lia.
  destruct (Z.ltb_spec (- (u + 8)) 0) as [Hneg|Hpos]; [|reflexivity].
  rewrite shortest_exact by (assumption || lia).
  replace (- - (u + 8))%Z with (u + 8)%Z by lia. reflexivity.
Qed.

(* The same with a specification that mentions no float at all, the Satoshi unit included:
   Format(u) = fewest-digit exact decimal of a * 10^-(u+8), space, label. *)
Theorem format_is_exact_text (a u : Z) : (Z.abs a <= c_MaxSatoshi)%Z -> (c_AmountSatoshi <= u <= 14)%Z ->
  format shortest a u = format_exact_spec a u.
Proof.
  intros Ha Hu. change c_AmountSatoshi with (-8)%Z in Hu.
  assert (Ha53 : (Z.abs a <= 2 ^ 53)%Z).
  { change c_MaxSatoshi with 2100000000000000%Z in Ha. change (2 ^ 53)%Z with 9007199254740992%Z. lia. }
  unfold format, format_exact_spec. change lit_Format_8 with 8%Z. rewrite (wrap64_small (u + 8)) by lia. rewrite (wrap64_small (- (u + 8))) by lia.
  destruct (Z.ltb_spec (- (u + 8)) 0) as [Hneg|Hpos].
  - rewrite shortest_exact by (assumption || lia). reflexivity.
  - assert (u = c_AmountSatoshi) as -> by (change c_AmountSatoshi with (-8)%Z; lia).
    change (- (c_AmountSatoshi + 8))%Z with 0%Z. change (c_AmountSatoshi + 8)%Z with 0%Z.
    now rewrite to_unit_satoshi.
Qed.

(* the Satoshi unit needs nothing from strconv's shortest printer *)
Theorem format_satoshi (a : Z) : (Z.abs a <= c_MaxSatoshi)%Z ->
  format shortest a c_AmountSatoshi = dec_text (a <? 0)%Z (Z.abs a) 0 ++ 32%N :: unit_string c_AmountSatoshi.
Proof.
  intros Ha.
  assert (Ha53 : (Z.abs a <= 2 ^ 53)%Z).
  { change c_MaxSatoshi with 2100000000000000%Z in Ha. change (2 ^ 53)%Z with 9007199254740992%Z. lia. }
  unfold format. change (wrap64 (- wrap64 (c_AmountSatoshi + lit_Format_8))) with 0%Z.
  change (0 <? 0)%Z with false. cbv iota. now rewrite to_unit_satoshi.
Qed.
End Shortest.

Lemma source_literals :
  lits_Amount_Format = [102; 8; 64]%Z /\ lits_Amount_ToUnit = [8]%Z /\ lits_AmountUnit_String = [10]%Z /\
  lit_Format_8 = 8%Z /\ lit_ToUnit_8 = 8%Z /\ lit_String_base = 10%Z.
Proof. repeat split. Qed.

(* The hypothesis is not vacuous: its body holds at F = Amount(150000000).ToBCH() = 1.5 for the
   text "1.5" that strconv prints there (m = 15, j = 1), including the minimality clause. *)
Example shortest_spec_instance :
  let F := to_bch 150000000 in
  is_finite F = true /\
  exists m j : Z, (0 <= m)%Z /\ (0 <= j)%Z /\
    [49; 46; 53]%N = dec_text (Bsign F) m j /\
    RN (IZR m / IZR (10 ^ j)) = Rabs (B2R F) /\
    (j = 0 \/ m mod 10 <> 0)%Z /\
    (forall m' j' : Z, (0 <= j')%Z -> RN (IZR m' / IZR (10 ^ j')) = Rabs (B2R F) -> (j <= j')%Z).
Proof.
  cbv zeta. destruct (to_bch_correct 150000000) as [Hv Hf]; [vm_compute; discriminate|].
  split; [exact Hf|]. exists 15%Z, 1%Z.
  assert (Hval : Rabs (B2R (to_bch 150000000)) = RN (IZR 15 / IZR (10 ^ 1))).
  { rewrite Hv. change c_SatoshiPerBitcoin with 100000000%Z.
    replace (IZR 150000000 / IZR 100000000) with (IZR 15 / IZR (10 ^ 1)) by (simpl; lra).
    apply Rabs_pos_eq. rewrite <- RN_0. apply RN_le. simpl. lra. }
  split; [lia|]. split; [lia|].
  split; [vm_compute; reflexivity|].
  split; [now rewrite Hval|].
  split; [right; discriminate|].
  intros m' j' Hj' Hback. destruct (Z.eq_dec j' 0) as [->|]; [exfalso|lia].
  rewrite Hval in Hback.
  assert (H : (m' * 10 ^ (1 - 0))%Z = 15%Z).
  { apply (same_rounding_same_integer 15 (m' * 10 ^ (1 - 0)) 1); [vm_compute; discriminate|lia|].
    rewrite ratio_scale by lia. exact Hback. }
  change (10 ^ (1 - 0))%Z with 10%Z in H. lia.
Qed.

(* C17 — ToUnit is one correctly rounded division by an exact power of ten, and the
   float round trip NewAmount(Amount(a).ToBCH()) = a for every |a| <= 2.1e15. *)
From Coq Require Import ZArith Reals Lia Lra Bool List.
From Flocq Require Import Core IEEE754.BinarySingleNaN Relative.
From BU Require Import Lib.Bytes Gen.Xbchutil Amount.Amount Amount.RoundProofs.
Open Scope R_scope.

Lemma bpow1024 : bpow radix2 1024 = IZR (2 ^ 1024).
Proof. reflexivity. Qed.

Lemma format_small_int (z : Z) : (Z.abs z <= 2 ^ 53)%Z -> generic_format radix2 fexp64 (IZR z).
Proof.
  intros Hz. destruct (Z.eq_dec (Z.abs z) (2 ^ 53)) as [He|Hne].
  - (* +-2^53 = +-1 * 2^53 *)
    apply generic_format_FLT. apply FLT_spec with (Float radix2 (Z.sgn z) 53).
    + unfold F2R; simpl Fnum; simpl Fexp. change (bpow radix2 53) with (IZR (2 ^ 53)).
      rewrite <- mult_IZR. f_equal.
      assert (Hc : z = (2 ^ 53)%Z \/ z = (- 2 ^ 53)%Z) by lia.
      destruct Hc as [-> | ->]; reflexivity.
    + simpl Fnum. assert (Hc : z = (2 ^ 53)%Z \/ z = (- 2 ^ 53)%Z) by lia.
      destruct Hc as [-> | ->]; reflexivity.
    + discriminate.
  - apply generic_format_FLT. apply FLT_spec with (Float radix2 z 0).
    + unfold F2R; simpl; ring.
    + simpl Fnum. change (Zpower radix2 53) with (2 ^ 53)%Z. lia.
    + discriminate.
Qed.

(* float64(a) is exact up to 2^53 *)
Lemma of_Z_exact (a : Z) : (Z.abs a <= 2 ^ 53)%Z -> B2R (of_Z a) = IZR a /\ is_finite (of_Z a) = true.
Proof.
  intros Ha. unfold of_Z.
  pose proof (binary_normalize_correct 53 1024 _ _ mode_NE a 0 false) as H. cbv zeta in H.
  assert (Hx : F2R (Float radix2 a 0) = IZR a) by (unfold F2R; simpl; ring).
  rewrite Hx in H.
  rewrite round_generic in H; [|auto with typeclass_instances|now apply format_small_int].
  rewrite Rlt_bool_true in H; [tauto|].
  rewrite <- abs_IZR, bpow1024. apply IZR_lt. eapply Z.le_lt_trans; [exact Ha|reflexivity].
Qed.

(* ---------- math.Pow10 on 0..22 is exact ---------- *)
Definition sf_is_int (sf : SpecFloat.spec_float) (z : Z) : bool :=
  match sf with
  | SpecFloat.S754_finite s m e =>
      if (0 <=? e)%Z then (cond_Zopp s (Z.pos m) * 2 ^ e =? z)%Z
      else (cond_Zopp s (Z.pos m) =? z * 2 ^ (- e))%Z
  | _ => false
  end.

Lemma sf_is_int_sound (f : float) z : sf_is_int (B2SF f) z = true -> B2R f = IZR z /\ is_finite f = true.
Proof.
  destruct f as [s|s| |s m e Hb]; simpl; try discriminate.
  intros H. split; [|reflexivity]. unfold F2R. simpl Fnum; simpl Fexp.
  destruct (Z.leb_spec 0 e) as [He|He]; apply Z.eqb_eq in H.
  - rewrite <- H, mult_IZR. f_equal. symmetry. exact (IZR_Zpower radix2 e He).
  - rewrite H, mult_IZR. change (IZR (2 ^ (- e))) with (IZR (radix2 ^ (- e))). rewrite (IZR_Zpower radix2 (- e)) by lia. rewrite Rmult_assoc, <- bpow_plus.
    replace (- e + e)%Z with 0%Z by lia. simpl. ring.
Qed.

Lemma pow10_exact_table :
  forallb (fun n => sf_is_int (B2SF (pow10 n)) (10 ^ n))
    (map Z.of_nat (seq 0 23)) = true.
Proof. vm_compute. reflexivity. Qed.

Lemma pow10_exact (n : Z) : (0 <= n <= 22)%Z -> B2R (pow10 n) = IZR (10 ^ n) /\ is_finite (pow10 n) = true.
Proof.
  intros Hn. apply sf_is_int_sound.
  pose proof pow10_exact_table as H. rewrite forallb_forall in H.
  apply H. apply in_map_iff. exists (Z.to_nat n). split; [lia|]. apply in_seq. lia.
Qed.

Lemma pow10_pos n : (0 <= n)%Z -> 0 < IZR (10 ^ n).
Proof. intros Hn. apply IZR_lt. apply Z.pow_pos_nonneg; lia. Qed.

(* ---------- ToUnit ---------- *)
Lemma lit_ToUnit_8_eq : lit_ToUnit_8 = 8%Z.
Proof. reflexivity. Qed.

(* Go's int arithmetic on the unit exponent does not wrap inside the int64 range *)
Lemma wrap64_small z : (- 2 ^ 63 <= z < 2 ^ 63)%Z -> wrap64 z = z.
Proof. intros H. unfold wrap64. rewrite Z.mod_small by lia. lia. Qed.

Lemma RN_abs_le_2_53 x : Rabs x <= IZR (2 ^ 53) -> Rabs (RN x) <= IZR (2 ^ 53).
Proof.
  intros Hx. apply abs_round_le_generic; [apply FLT_exp_valid; reflexivity|auto with typeclass_instances| |assumption].
  now apply format_small_int.
Qed.

(* For units u with 0 <= u+8 <= 22 (Satoshi .. 1e14 BCH) and |a| <= 2^53, ToUnit is the
   correctly rounded quotient a / 10^(u+8): one rounding, of an exact dividend by an exact divisor. *)
Theorem to_unit_correct (a u : Z) :
  (Z.abs a <= 2 ^ 53)%Z -> (0 <= u + 8 <= 22)%Z ->
  B2R (to_unit a u) = RN (IZR a / IZR (10 ^ (u + 8))) /\ is_finite (to_unit a u) = true.
Proof.
  intros Ha Hu. unfold to_unit. rewrite lit_ToUnit_8_eq. rewrite wrap64_small by lia.
  destruct (of_Z_exact a Ha) as [Hav Haf]. destruct (pow10_exact _ Hu) as [Hpv Hpf].
  pose proof (pow10_pos (u + 8) (proj1 Hu)) as Hpos.
  pose proof (Bdiv_correct 53 1024 _ _ mode_NE (of_Z a) (pow10 (u + 8))) as H.
  rewrite Hav, Hpv in H. change (Generic_fmt.round radix2 _ _ ?x) with (RN x) in H.
  rewrite Rlt_bool_true in H.
  - destruct H as [H1 [H2 _]]; [lra|]. split; [assumption|]. now rewrite H2.
  - eapply Rle_lt_trans; [apply RN_abs_le_2_53|].
    + unfold Rdiv. rewrite Rabs_mult, Rabs_inv, (Rabs_pos_eq (IZR (10 ^ _))) by lra.
      rewrite <- abs_IZR. apply IZR_le in Ha.
      assert (H1 : 1 <= IZR (10 ^ (u + 8))) by (apply IZR_le; pose proof (Z.pow_pos_nonneg 10 (u + 8)); lia).
      assert (0 <= IZR (Z.abs a)) by (apply IZR_le; lia).
      apply Rle_trans with (IZR (Z.abs a) * 1); [|lra].
      apply Rmult_le_compat_l; [assumption|].
      rewrite <- Rinv_1. apply Rinv_le_contravar; lra.
    + rewrite bpow1024. apply IZR_lt. reflexivity.
Qed.

Lemma to_bch_correct (a : Z) : (Z.abs a <= 2 ^ 53)%Z ->
  B2R (to_bch a) = RN (IZR a / IZR c_SatoshiPerBitcoin) /\ is_finite (to_bch a) = true.
Proof. intros Ha. unfold to_bch. apply (to_unit_correct a c_AmountBCH Ha). vm_compute. split; discriminate. Qed.

(* ---------- relative error of RN in the normal range ---------- *)
Lemma RN_rel x : bpow radix2 (-1022) <= Rabs x ->
  exists eps, Rabs eps <= bpow radix2 (-53) /\ RN x = x * (1 + eps).
Proof.
  intros Hx. destruct (relative_error_N_FLT_ex radix2 (-1074) 53 ltac:(reflexivity) (fun t => negb (Z.even t)) x Hx)
    as [eps [He Hr]].
  exists eps. split; [|exact Hr].
  eapply Rle_trans; [exact He|]. simpl. lra.
Qed.

Lemma RN_0 : RN 0 = 0.
Proof. apply round_0. auto with typeclass_instances. Qed.

Lemma abs_mul_le x e c u : Rabs x <= c -> Rabs e <= u -> Rabs (x * e) <= c * u.
Proof.
  intros Hx He. rewrite Rabs_mult. apply Rmult_le_compat; auto using Rabs_pos.
Qed.

Lemma bpow_m53_small : bpow radix2 (-53) <= /9000000000000000.
Proof. simpl bpow. lra. Qed.

Lemma bpow_m1022_small : bpow radix2 (-1022) <= / 10000000000000000000000.
Proof.
  apply Rle_trans with (bpow radix2 (-74)); [apply bpow_le; lia|]. simpl bpow. lra.
Qed.

(* the real-number core of the round trip: two roundings, each of relative error at most
   2^-53, move an integer of magnitude at most 2.1e15 by less than 1/2 *)
Lemma roundtrip_real (a : Z) : (Z.abs a <= 2100000000000000)%Z ->
  Rabs (RN (RN (IZR a / 100000000) * 100000000) - IZR a) < /2.
Proof.
  intros Ha. destruct (Z.eq_dec a 0) as [->|Hne].
  - unfold Rdiv. rewrite Rmult_0_l, RN_0, Rmult_0_l, RN_0. rewrite Rminus_0_r, Rabs_R0. lra.
  - set (A := IZR a).
    assert (HA1 : 1 <= Rabs A) by (unfold A; rewrite <- abs_IZR; apply IZR_le; lia).
    assert (HA2 : Rabs A <= 2100000000000000) by (unfold A; rewrite <- abs_IZR; apply IZR_le; lia).
    pose proof bpow_m1022_small as Hsmall. pose proof bpow_m53_small as Hu.
    destruct (RN_rel (A / 100000000)) as [e1 [He1 Hr1]].
    { unfold Rdiv. rewrite Rabs_mult, (Rabs_pos_eq (/100000000)) by lra.
      apply Rle_trans with (1 * / 100000000); [lra|]. apply Rmult_le_compat_r; lra. }
    rewrite Hr1.
    assert (He1u : Rabs e1 <= /9000000000000000) by lra.
    assert (He1' : -/9000000000000000 <= e1 <= /9000000000000000) by (apply Rabs_le_inv; lra).
    replace (A / 100000000 * (1 + e1) * 100000000) with (A * (1 + e1)) by field.
    pose proof (abs_mul_le A e1 _ _ HA2 He1u) as HAe1.
    assert (HY : Rabs (A * (1 + e1)) <= 2100000000000000 + 2100000000000000 * / 9000000000000000).
    { replace (A * (1 + e1)) with (A + A * e1) by ring. eapply Rle_trans; [apply Rabs_triang|]. lra. }
    destruct (RN_rel (A * (1 + e1))) as [e2 [He2 Hr2]].
    { rewrite Rabs_mult. apply Rle_trans with (1 * Rabs (1 + e1)).
      - rewrite Rmult_1_l. rewrite Rabs_pos_eq by lra. lra.
      - apply Rmult_le_compat_r; [apply Rabs_pos|lra]. }
    rewrite Hr2.
    assert (He2u : Rabs e2 <= /9000000000000000) by lra.
    pose proof (abs_mul_le _ e2 _ _ HY He2u) as HYe2.
    replace (A * (1 + e1) * (1 + e2) - A) with (A * e1 + A * (1 + e1) * e2) by ring.
    eapply Rle_lt_trans; [apply Rabs_triang|]. lra.
Qed.

(* NewAmount(Amount(a).ToBCH()) = a for every whole number of satoshi up to the cap *)
Theorem roundtrip_21M (a : Z) : (Z.abs a <= c_MaxSatoshi)%Z -> new_amount (to_bch a) = Ok a.
Proof.
  intros Ha. change c_MaxSatoshi with 2100000000000000%Z in Ha.
  destruct (to_bch_correct a) as [Hv Hf]; [lia|].
  change c_SatoshiPerBitcoin with 100000000%Z in *.
  pose proof (roundtrip_real a Ha) as Hrt.
  assert (Hb : Rabs (RN (B2R (to_bch a) * 100000000)) < IZR (2 ^ 62)).
  { rewrite Hv. apply Rabs_lt_inv in Hrt.
    assert (Rabs (IZR a) <= 2100000000000000) by (rewrite <- abs_IZR; apply IZR_le; lia).
    apply Rabs_le_inv in H. apply Rabs_lt. change (IZR (2 ^ 62)) with 4611686018427387904. lra. }
  rewrite (new_amount_value _ Hf Hb). f_equal. rewrite Hv.
  apply Znearest_imp. exact Hrt.
Qed.

(* ---------- MulF64 ---------- *)
(* float64(a) for any int64 a is the correctly rounded value of a *)
Lemma of_Z_RN (a : Z) : (Z.abs a <= 2 ^ 63)%Z -> B2R (of_Z a) = RN (IZR a) /\ is_finite (of_Z a) = true.
Proof.
  intros Ha. unfold of_Z.
  pose proof (binary_normalize_correct 53 1024 _ _ mode_NE a 0 false) as H. cbv zeta in H.
  assert (Hx : F2R (Float radix2 a 0) = IZR a) by (unfold F2R; simpl; ring).
  rewrite Hx in H. change (Generic_fmt.round radix2 _ _ ?x) with (RN x) in H.
  rewrite Rlt_bool_true in H; [tauto|].
  apply Rle_lt_trans with (bpow radix2 63); [|apply bpow_lt; lia].
  apply abs_round_le_generic; [apply FLT_exp_valid; reflexivity|auto with typeclass_instances| |].
  - apply generic_format_bpow. unfold FLT_exp. lia.
  - rewrite <- abs_IZR. change (bpow radix2 63) with (IZR (2 ^ 63)). now apply IZR_le.
Qed.

(* Amount(a).MulF64(f) is the integer nearest (ties away) to the single product fl(float64(a) * f) *)
Theorem mul_f64_nearest (a : Z) (f : float) :
  (Z.abs a <= 2 ^ 63)%Z -> is_finite f = true ->
  Rabs (RN (RN (IZR a) * B2R f)) < IZR (2 ^ 62) ->
  nearest_away (RN (RN (IZR a) * B2R f)) (mul_f64 a f).
Proof.
  intros Ha Hf Hb. destruct (of_Z_RN a Ha) as [Hav Haf]. unfold mul_f64.
  pose proof (Bmult_correct 53 1024 _ _ mode_NE (of_Z a) f) as H.
  rewrite Hav in H. change (Generic_fmt.round radix2 _ _ ?x) with (RN x) in H.
  rewrite Rlt_bool_true in H.
  - destruct H as [H1 [H2 _]]. rewrite <- H1. apply round_nearest.
    + now rewrite H2, Haf, Hf.
    + now rewrite H1.
  - eapply Rlt_trans; [exact Hb|]. rewrite bpow1024. now apply IZR_lt.
Qed.

(* C17 — proofs about [round] (math.Round followed by the int64 conversion) and
   NewAmount: nearest integer with ties away from zero, odd symmetry, monotonicity,
   rejection of NaN and infinities. *)
From Coq Require Import ZArith Reals Lia Lra Bool.
From Flocq Require Import Core IEEE754.BinarySingleNaN.
From BU Require Import Lib.Bytes Gen.Xbchutil Amount.Amount.
Open Scope R_scope.

Notation fexp64 := (FLT_exp (-1074) 53).
(* IEEE 754 binary64 round-to-nearest-even of a real number *)
Definition RN (x : R) : R := Generic_fmt.round radix2 fexp64 ZnearestE x.

(* n is the integer nearest to y, ties away from zero *)
Definition nearest_away (y : R) (n : Z) : Prop :=
  Rabs (IZR n - y) <= /2 /\ (Rabs (IZR n - y) = /2 -> Rabs y < Rabs (IZR n)).

Lemma nearest_away_unique y n1 n2 : nearest_away y n1 -> nearest_away y n2 -> n1 = n2.
Proof.
  intros [Ha1 Ht1] [Ha2 Ht2].
  destruct (Z.eq_dec n1 n2) as [|Hne]; [assumption|exfalso].
  assert (Hd : IZR n1 - IZR n2 <= -1 \/ 1 <= IZR n1 - IZR n2).
  { rewrite <- minus_IZR. destruct (Z_lt_le_dec n1 n2) as [Hlt|Hle].
    - left. apply IZR_le. lia.
    - right. apply IZR_le. lia. }
  assert (He : Rabs (IZR n1 - y) = /2 /\ Rabs (IZR n2 - y) = /2).
  { unfold Rabs in *. destruct Hd, (Rcase_abs (IZR n1 - y)), (Rcase_abs (IZR n2 - y)); lra. }
  destruct He as [He1 He2]. specialize (Ht1 He1). specialize (Ht2 He2).
  assert (Hi1 : IZR n1 <= -1 \/ 0 <= IZR n1)
    by (destruct (Z_lt_le_dec n1 0); [left|right]; apply IZR_le; lia).
  assert (Hi2 : IZR n2 <= -1 \/ 0 <= IZR n2)
    by (destruct (Z_lt_le_dec n2 0); [left|right]; apply IZR_le; lia).
  unfold Rabs in *.
  destruct Hd, Hi1, Hi2, (Rcase_abs (IZR n1 - y)), (Rcase_abs (IZR n2 - y)), (Rcase_abs y),
    (Rcase_abs (IZR n1)), (Rcase_abs (IZR n2)); lra.
Qed.

Lemma ZnearestA_nearest_away y : nearest_away y (ZnearestA y).
Proof.
  split.
  - rewrite Rabs_minus_sym. apply Znearest_half.
  - intros Heq.
    destruct (Req_dec (y - IZR (Zfloor y)) (/2)) as [Hh|Hh].
    + unfold Znearest in *. rewrite Hh in *. rewrite Rcompare_Eq in * by reflexivity.
      destruct (Zle_bool 0 (Zfloor y)) eqn:Hs.
      * apply Zle_bool_imp_le in Hs. apply IZR_le in Hs.
        rewrite Zceil_floor_neq in * by lra. rewrite plus_IZR in *.
        rewrite !Rabs_pos_eq; lra.
      * apply Z.leb_gt in Hs. assert (IZR (Zfloor y) <= -1) by (apply IZR_le; lia).
        rewrite !Rabs_left; lra.
    + exfalso. apply (Znearest_N_strict (Zle_bool 0)) in Hh.
      rewrite Rabs_minus_sym in Hh. lra.
Qed.

(* ---------- what [round] computes ---------- *)
Lemma Btrunc_go_round (y : float) : is_finite y = true -> Btrunc (go_round y) = ZnearestA (B2R y).
Proof.
  intros Hf. apply eq_IZR. rewrite (Btrunc_correct 53 1024 prec53_lt_emax).
  destruct (Bnearbyint_correct 53 1024 _ mode_NA y) as [Hr _].
  unfold go_round. rewrite Hr. rewrite !round_FIX_IZR. simpl round_mode.
  now rewrite Ztrunc_IZR.
Qed.

Lemma go_round_finite (y : float) : is_finite (go_round y) = is_finite y.
Proof. unfold go_round. now destruct (Bnearbyint_correct 53 1024 _ mode_NA y) as [_ [Hf _]]. Qed.

Lemma to_int64_finite (z : float) : is_finite z = true ->
  to_int64 z = if ((int64_min <=? Btrunc z) && (Btrunc z <=? int64_max))%Z then Btrunc z else int64_min.
Proof. destruct z; simpl; try discriminate; reflexivity. Qed.

Lemma round_eq (y : float) : is_finite y = true ->
  round y = let n := ZnearestA (B2R y) in
            if ((int64_min <=? n) && (n <=? int64_max))%Z then n else int64_min.
Proof.
  intros Hf. unfold round. rewrite to_int64_finite by now rewrite go_round_finite.
  now rewrite Btrunc_go_round.
Qed.

Lemma ZnearestA_bound y (k : Z) : Rabs y < IZR k -> (Z.abs (ZnearestA y) <= k)%Z.
Proof.
  intros Hy. pose proof (Znearest_half (Zle_bool 0) y) as Hh.
  apply le_IZR. rewrite abs_IZR.
  assert (Hlt : Rabs (IZR (ZnearestA y)) < IZR k + 1).
  { replace (IZR (ZnearestA y)) with (y - (y - IZR (ZnearestA y))) by ring.
    eapply Rle_lt_trans; [apply Rabs_triang|]. rewrite Rabs_Ropp. lra. }
  rewrite <- abs_IZR in Hlt |- *. rewrite <- plus_IZR in Hlt. apply lt_IZR in Hlt. apply IZR_le. lia.
Qed.

Lemma round_in_range (y : float) : is_finite y = true -> Rabs (B2R y) < IZR (2 ^ 62) ->
  round y = ZnearestA (B2R y).
Proof.
  intros Hf Hy. rewrite round_eq by assumption. cbv zeta.
  pose proof (ZnearestA_bound _ _ Hy) as Hb.
  replace ((int64_min <=? ZnearestA (B2R y)) && (ZnearestA (B2R y) <=? int64_max))%Z with true; [reflexivity|].
  symmetry. apply andb_true_iff. unfold int64_min, int64_max. split; apply Z.leb_le; lia.
Qed.

(* ---------- the property's clauses for [round] ---------- *)
Theorem round_nearest (y : float) :
  is_finite y = true -> Rabs (B2R y) < IZR (2 ^ 62) -> nearest_away (B2R y) (round y).
Proof. intros Hf Hy. rewrite round_in_range by assumption. apply ZnearestA_nearest_away. Qed.

Lemma ZnearestA_opp y : ZnearestA (- y) = (- ZnearestA y)%Z.
Proof.
  apply eq_IZR. rewrite opp_IZR. rewrite <- !(round_FIX_IZR (Znearest (Zle_bool 0))).
  apply round_NA_opp.
Qed.

Theorem round_odd (y : float) :
  is_finite y = true -> Rabs (B2R y) < IZR (2 ^ 62) -> round (Bopp y) = (- round y)%Z.
Proof.
  intros Hf Hy. rewrite (round_in_range y) by assumption.
  rewrite (round_in_range (Bopp y)).
  - rewrite B2R_Bopp. apply ZnearestA_opp.
  - now rewrite is_finite_Bopp.
  - now rewrite B2R_Bopp, Rabs_Ropp.
Qed.

Lemma ZnearestA_le x y : x <= y -> (ZnearestA x <= ZnearestA y)%Z.
Proof. apply Zrnd_le. apply valid_rnd_NA. Qed.

Theorem round_monotone (y1 y2 : float) :
  is_finite y1 = true -> is_finite y2 = true ->
  Rabs (B2R y1) < IZR (2 ^ 62) -> Rabs (B2R y2) < IZR (2 ^ 62) ->
  B2R y1 <= B2R y2 -> (round y1 <= round y2)%Z.
Proof. intros Hf1 Hf2 H1 H2 Hle. rewrite !round_in_range by assumption. now apply ZnearestA_le. Qed.

(* ---------- NewAmount ---------- *)
Theorem new_amount_rejects_nan_inf (f : float) :
  is_finite f = false <-> new_amount f = Err 1%N.
Proof. destruct f; simpl; split; intros H; try reflexivity; try discriminate. Qed.

Lemma new_amount_finite (f : float) : is_finite f = true ->
  new_amount f = Ok (round (Bmult mode_NE f f_1e8)).
Proof. destruct f; simpl; try discriminate; reflexivity. Qed.

Lemma B2R_f_1e8 : B2R f_1e8 = IZR c_SatoshiPerBitcoin.
Proof.
  (* the extracted constant is below 2^53, so its conversion is exact *)
  assert (Hc : (Z.abs c_SatoshiPerBitcoin < 2 ^ 53)%Z) by reflexivity.
  unfold f_1e8, of_Z.
  pose proof (binary_normalize_correct 53 1024 _ _ mode_NE c_SatoshiPerBitcoin 0 false) as H.
  cbv zeta in H.
  assert (Hx : F2R (Float radix2 c_SatoshiPerBitcoin 0) = IZR c_SatoshiPerBitcoin)
    by (unfold F2R; simpl; ring).
  rewrite Hx in H.
  assert (Hg : Generic_fmt.round radix2 (SpecFloat.fexp 53 1024) (round_mode mode_NE) (IZR c_SatoshiPerBitcoin)
               = IZR c_SatoshiPerBitcoin).
  { apply round_generic; [auto with typeclass_instances|].
    apply generic_format_FLT. apply FLT_spec with (Float radix2 c_SatoshiPerBitcoin 0).
    - unfold F2R; simpl; ring.
    - exact Hc.
    - discriminate. }
  rewrite Hg in H. rewrite Rlt_bool_true in H.
  - tauto.
  - rewrite <- abs_IZR. change (bpow radix2 1024) with (IZR (2 ^ 1024)). apply IZR_lt.
    eapply Z.lt_trans; [exact Hc|]. reflexivity.
Qed.

Lemma is_finite_f_1e8 : is_finite f_1e8 = true.
Proof. reflexivity. Qed.

(* the product computed by NewAmount is the correctly rounded product of f and 1e8 *)
Lemma new_amount_product (f : float) :
  is_finite f = true -> Rabs (RN (B2R f * IZR c_SatoshiPerBitcoin)) < IZR (2 ^ 62) ->
  B2R (Bmult mode_NE f f_1e8) = RN (B2R f * IZR c_SatoshiPerBitcoin) /\
  is_finite (Bmult mode_NE f f_1e8) = true.
Proof.
  intros Hf Hb. pose proof (Bmult_correct 53 1024 _ _ mode_NE f f_1e8) as H.
  rewrite B2R_f_1e8 in H. change (Generic_fmt.round radix2 _ _ ?x) with (RN x) in H.
  rewrite Rlt_bool_true in H.
  - destruct H as [H1 [H2 _]]. split; [assumption|]. now rewrite H2, Hf, is_finite_f_1e8.
  - eapply Rlt_trans; [exact Hb|]. change (bpow radix2 1024) with (IZR (2 ^ 1024)). now apply IZR_lt.
Qed.

(* NewAmount(f) is the integer nearest to fl(f * 1e8), ties away from zero *)
Theorem new_amount_nearest (f : float) :
  is_finite f = true -> Rabs (RN (B2R f * IZR c_SatoshiPerBitcoin)) < IZR (2 ^ 62) ->
  exists n, new_amount f = Ok n /\ nearest_away (RN (B2R f * IZR c_SatoshiPerBitcoin)) n.
Proof.
  intros Hf Hb. destruct (new_amount_product f Hf Hb) as [Hp Hfin].
  exists (round (Bmult mode_NE f f_1e8)). split; [now apply new_amount_finite|].
  rewrite <- Hp. apply round_nearest; [assumption | now rewrite Hp].
Qed.

Lemma new_amount_value (f : float) :
  is_finite f = true -> Rabs (RN (B2R f * IZR c_SatoshiPerBitcoin)) < IZR (2 ^ 62) ->
  new_amount f = Ok (ZnearestA (RN (B2R f * IZR c_SatoshiPerBitcoin))).
Proof.
  intros Hf Hb. destruct (new_amount_product f Hf Hb) as [Hp Hfin].
  rewrite new_amount_finite by assumption. rewrite round_in_range; rewrite ?Hp; auto.
Qed.

Lemma RN_opp x : RN (- x) = - RN x.
Proof. apply round_NE_opp. Qed.

Lemma RN_le x y : x <= y -> RN x <= RN y.
Proof. apply round_le; auto with typeclass_instances. Qed.

(* odd symmetry: NewAmount(-f) = -NewAmount(f) *)
Theorem new_amount_odd (f : float) n :
  is_finite f = true -> Rabs (RN (B2R f * IZR c_SatoshiPerBitcoin)) < IZR (2 ^ 62) ->
  new_amount f = Ok n -> new_amount (Bopp f) = Ok (- n)%Z.
Proof.
  intros Hf Hb Hn. rewrite new_amount_value in Hn by assumption. injection Hn as <-.
  rewrite new_amount_value.
  - rewrite B2R_Bopp, Ropp_mult_distr_l_reverse, RN_opp, ZnearestA_opp. reflexivity.
  - now rewrite is_finite_Bopp.
  - now rewrite B2R_Bopp, Ropp_mult_distr_l_reverse, RN_opp, Rabs_Ropp.
Qed.

(* monotone: f1 <= f2 implies NewAmount(f1) <= NewAmount(f2) *)
Theorem new_amount_monotone (f1 f2 : float) n1 n2 :
  is_finite f1 = true -> is_finite f2 = true ->
  Rabs (RN (B2R f1 * IZR c_SatoshiPerBitcoin)) < IZR (2 ^ 62) ->
  Rabs (RN (B2R f2 * IZR c_SatoshiPerBitcoin)) < IZR (2 ^ 62) ->
  B2R f1 <= B2R f2 -> new_amount f1 = Ok n1 -> new_amount f2 = Ok n2 -> (n1 <= n2)%Z.
Proof.
  intros Hf1 Hf2 Hb1 Hb2 Hle H1 H2.
  rewrite new_amount_value in H1, H2 by assumption. injection H1 as <-. injection H2 as <-.
  apply ZnearestA_le, RN_le. apply Rmult_le_compat_r; [|assumption].
  apply IZR_le. vm_compute; discriminate.
Qed.

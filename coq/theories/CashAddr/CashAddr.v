(* Model of the CashAddr layer of address.go: polyMod, expandPrefix, verifyChecksum,
   createChecksum, encode, DecodeCashAddress.  Literals come from Gen.Xbchutil. *)
From BU Require Import Lib.Bytes Lib.PolyMod Gen.Xbchutil.

Definition charset : list N := c_Charset.
Definition charset_rev : list Z := c_CharsetRev.

Definition L := lit lits_polyMod.

Definition cash_params : pm_params :=
  {| pm_shift := L 1;      (* c >> 35 *)
     pm_mask  := L 2;      (* 0x07ffffffff *)
     pm_sym   := L 3;      (* << 5 *)
     pm_gens  := [(L 4, L 6); (L 7, L 9); (L 10, L 12); (L 13, L 15); (L 16, L 18)] |}.

(* polyMod(v) = fold ... ^ 1 ; all intermediate values stay below 2^40 so uint64 never wraps *)
Definition polymod (v : list N) : N := N.lxor (pm_fold cash_params (L 0) v) (L 19).

Definition expand_prefix (prefix : list N) : list N :=
  map (fun c => N.land c (lit lits_expandPrefix 2)) prefix ++ [0].

Definition verify_checksum (prefix payload : list N) : bool :=
  polymod (expand_prefix prefix ++ payload) =? lit lits_verifyChecksum 0.

Definition create_checksum (prefix payload : list N) : list N :=
  let md := polymod (expand_prefix prefix ++ payload ++ repeat 0 8) in
  unpack 8 md.

(* encode: Charset[c] for every symbol; an out-of-range symbol would be an index panic *)
Fixpoint to_chars (syms : list N) : res (list N) :=
  match syms with
  | [] => Ok []
  | c :: t => match nth_error charset (N.to_nat c) with
              | None => Panic 1
              | Some ch => do r <- to_chars t ;; Ok (ch :: r)
              end
  end.

Definition encode (prefix payload : list N) : res (list N) :=
  to_chars (payload ++ create_checksum prefix payload).

(* ---- DecodeCashAddress ---- *)
Definition D := lit lits_DecodeCashAddress.
Definition lower_case (c : N) : N := N.lor c (lit lits_lowerCase 0).

(* the scanning loop: returns (lower, upper, prefixSize) or an error class
   1 digit in prefix, 2 misplaced separator, 3 unexpected character *)
Fixpoint scan (s : list N) (i : N) (lower upper : bool) (prefixSize : N) : res (bool * bool * N) :=
  match s with
  | [] => Ok (lower, upper, prefixSize)
  | c :: t =>
      if (D 2 <=? c) && (c <=? D 3) then scan t (i + 1) true upper prefixSize
      else if (D 4 <=? c) && (c <=? D 5) then scan t (i + 1) lower true prefixSize
      else if (D 6 <=? c) && (c <=? D 7) then
        if prefixSize =? D 8 then Err 1 else scan t (i + 1) lower upper prefixSize
      else if c =? D 9 then
        if (i =? D 10) || negb (prefixSize =? D 11) then Err 2 else scan t (i + 1) lower upper i
      else Err 3
  end.

Fixpoint to_values (chars : list N) : res (list N) :=
  match chars with
  | [] => Ok []
  | c :: t =>
      if D 17 <? c then Err 6 else
      match nth_error charset_rev (N.to_nat c) with
      | None => Panic 1
      | Some v => if (v =? - Z.of_N (D 18))%Z then Err 6 else do r <- to_values t ;; Ok (Z.to_N v mod 256 :: r)
      end
  end.

(* error classes: 1..3 from scan, 4 no prefix, 5 mixed case, 6 invalid character,
   7 fewer than 8 data symbols, 8 checksum mismatch (ErrChecksumMismatch) *)
Definition decode_cashaddr (str : list N) : res (list N * list N) :=
  do (lower, upper, prefixSize) <- scan str 0 false false (D 0) ;;
  if prefixSize =? D 12 then Err 4 else
  if upper && lower then Err 5 else
  let ps := N.to_nat prefixSize in
  let prefix := map lower_case (firstn ps str) in
  do values <- to_values (skipn (ps + 1) str) ;;
  if (N.of_nat (length values) <? D 19) then Err 7 else
  if negb (verify_checksum prefix values) then Err 8 else
  Ok (prefix, firstn (length values - N.to_nat (D 20)) values).

(* Go slices over a heap of backing arrays, with the semantics of the builtin
   `append`: write in place when the capacity suffices, otherwise allocate a
   fresh array.  Used where aliasing is the property (C07 purity). *)
From BU Require Import Lib.Bytes.

Record slice := { s_arr : nat; s_off : nat; s_len : nat; s_cap : nat }.
Definition heap := list (list N).          (* array id = position *)

Definition arr (h : heap) (id : nat) : list N := nth id h [].

Definition slice_ok (h : heap) (s : slice) : Prop :=
  (s_arr s < length h)%nat /\ (s_len s <= s_cap s)%nat /\ (s_off s + s_cap s <= length (arr h (s_arr s)))%nat.

Definition contents (h : heap) (s : slice) : list N := firstn (s_len s) (skipn (s_off s) (arr h (s_arr s))).

Fixpoint set_nth {A} (l : list A) (i : nat) (x : A) : list A :=
  match l, i with
  | [], _ => []
  | _ :: t, O => x :: t
  | y :: t, S j => y :: set_nth t j x
  end.

(* overwrite a[pos .. pos+|xs|) with xs *)
Definition write_at (a : list N) (pos : nat) (xs : list N) : list N :=
  firstn pos a ++ xs ++ skipn (pos + length xs) a.

(* make([]byte, 0, c) *)
Definition go_make (h : heap) (c : nat) : heap * slice :=
  (h ++ [repeat 0 c], {| s_arr := length h; s_off := 0; s_len := 0; s_cap := c |}).

(* append(s, xs...) ; growth policy abstracted: the new capacity is any c' >= needed, here exactly needed *)
Definition go_append (h : heap) (s : slice) (xs : list N) : heap * slice :=
  let need := (s_len s + length xs)%nat in
  if (need <=? s_cap s)%nat then
    (set_nth h (s_arr s) (write_at (arr h (s_arr s)) (s_off s + s_len s) xs),
     {| s_arr := s_arr s; s_off := s_off s; s_len := need; s_cap := s_cap s |})
  else
    (h ++ [contents h s ++ xs], {| s_arr := length h; s_off := 0; s_len := need; s_cap := need |}).

Lemma set_nth_length {A} (l : list A) i x : length (set_nth l i x) = length l.
Proof. revert i; induction l as [|y t IH]; intros [|j]; simpl; auto. Qed.

Lemma nth_set_nth_other {A} (l : list A) i j x d : i <> j -> nth j (set_nth l i x) d = nth j l d.
Proof.
  revert i j; induction l as [|y t IH]; intros [|i] [|j] H; simpl; auto; try congruence.
Qed.

Lemma nth_set_nth_same {A} (l : list A) i x d : (i < length l)%nat -> nth i (set_nth l i x) d = x.
Proof. revert i; induction l as [|y t IH]; intros [|i] H; simpl in *; try lia; auto. apply IH. lia. Qed.

Lemma nth_app_old {A} (h : list A) t id d : (id < length h)%nat -> nth id (h ++ t) d = nth id h d.
Proof. intros H. apply app_nth1. exact H. Qed.

(* appending to a freshly made slice never touches an array that existed before *)
Lemma go_append_fresh_preserves h s xs id :
  (length h <= s_arr s)%nat -> (id < length h)%nat ->
  forall h0, (forall i, (i < length h)%nat -> arr h0 i = arr h i) -> (length h <= length h0)%nat ->
  arr (fst (go_append h0 s xs)) id = arr h id.
Proof.
  intros Hs Hid h0 Hsame Hlen. unfold go_append.
  destruct (s_len s + length xs <=? s_cap s)%nat; cbn [fst]; unfold arr in *.
  - rewrite nth_set_nth_other by lia. apply Hsame. exact Hid.
  - rewrite app_nth1 by lia. apply Hsame. exact Hid.
Qed.

(* Positional notation in an arbitrary base b >= 2: most-significant-digit-first
   digit lists without leading zeros are in bijection with N. *)
From BU Require Import Lib.Bytes.
From Coq Require Import ZifyBool ZifyN ZifyNat.

Section Radix.
Variable b : N.
Hypothesis Hb : 2 <= b.

Fixpoint value (ds : list N) (acc : N) : N :=
  match ds with [] => acc | d :: t => value t (acc * b + d) end.

Fixpoint digits_fuel (fuel : nat) (n : N) (acc : list N) : list N :=
  match fuel with
  | O => acc
  | S f => if n =? 0 then acc else digits_fuel f (n / b) (n mod b :: acc)
  end.

Definition digits (n : N) : list N := digits_fuel (S (N.to_nat (N.size n))) n [].

Definition canonical (ds : list N) : Prop :=
  Forall (fun d => d < b) ds /\ match ds with [] => True | d :: _ => d <> 0 end.

Lemma value_app ds1 ds2 acc : value (ds1 ++ ds2) acc = value ds2 (value ds1 acc).
Proof. revert acc; induction ds1 as [|d t IH]; simpl; intros; auto. Qed.

Lemma digits_fuel_acc f : forall n acc, digits_fuel f n acc = digits_fuel f n [] ++ acc.
Proof.
  induction f as [|f IH]; intros n acc; simpl; auto.
  destruct (n =? 0); auto.
  rewrite (IH _ (_ :: acc)), (IH _ [_]). rewrite <- app_assoc. reflexivity.
Qed.

Lemma half_bound n f : n < 2 ^ N.of_nat (S f) -> n / b < 2 ^ N.of_nat f.
Proof.
  intros H. rewrite Nat2N.inj_succ, N.pow_succ_r' in H.
  apply N.div_lt_upper_bound; [lia|]. nia.
Qed.

Lemma fuel_indep f1 : forall f2 n acc,
  n < 2 ^ N.of_nat f1 -> n < 2 ^ N.of_nat f2 ->
  digits_fuel f1 n acc = digits_fuel f2 n acc.
Proof.
  induction f1 as [|f1 IH]; intros [|f2] n acc H1 H2; simpl; auto.
  - simpl in H1. assert (n = 0) by lia. subst. reflexivity.
  - simpl in H2. assert (n = 0) by lia. subst. reflexivity.
  - destruct (n =? 0); auto. apply IH; apply half_bound; assumption.
Qed.

Lemma size_bound n : n < 2 ^ N.of_nat (N.to_nat (N.size n)).
Proof. rewrite N2Nat.id. apply N.size_gt. Qed.

Lemma digits_0 : digits 0 = [].
Proof. reflexivity. Qed.

Lemma digits_step n : n <> 0 -> digits n = digits (n / b) ++ [n mod b].
Proof.
  intros Hn. unfold digits at 1. cbn [digits_fuel].
  destruct (N.eqb_spec n 0) as [|_]; [contradiction|].
  rewrite digits_fuel_acc. f_equal. unfold digits.
  apply fuel_indep.
  - apply half_bound. pose proof (size_bound n).
    rewrite Nat2N.inj_succ, N.pow_succ_r'. lia.
  - pose proof (size_bound (n / b)). rewrite Nat2N.inj_succ, N.pow_succ_r'. lia.
Qed.

(* strong induction on N via division *)
Lemma div_ind (P : N -> Prop) :
  P 0 -> (forall n, n <> 0 -> P (n / b) -> P n) -> forall n, P n.
Proof.
  intros H0 Hs n. induction n as [n IH] using (well_founded_induction N.lt_wf_0).
  destruct (N.eq_dec n 0) as [->|Hn]; auto.
  apply Hs; auto. apply IH. apply N.div_lt; lia.
Qed.

Lemma value_digits n : value (digits n) 0 = n.
Proof.
  induction n as [|n Hn IH] using div_ind.
  - reflexivity.
  - rewrite digits_step by assumption. rewrite value_app, IH. simpl.
    pose proof (N.div_mod n b). lia.
Qed.

Lemma digits_lt n : Forall (fun d => d < b) (digits n).
Proof.
  induction n as [|n Hn IH] using div_ind.
  - constructor.
  - rewrite digits_step by assumption. apply Forall_app. split; auto.
    constructor; [|constructor]. apply N.mod_lt. lia.
Qed.

Lemma digits_nonempty n : n <> 0 -> digits n <> [].
Proof. intros Hn. rewrite digits_step by assumption. destruct (digits (n / b)); discriminate. Qed.

Lemma digits_head n : match digits n with [] => True | d :: _ => d <> 0 end.
Proof.
  induction n as [|n Hn IH] using div_ind.
  - exact I.
  - rewrite digits_step by assumption.
    destruct (N.eq_dec (n / b) 0) as [E|E].
    + rewrite E, digits_0. simpl. intros Hm.
      pose proof (N.div_mod n b). lia.
    + pose proof (digits_nonempty _ E) as Hne.
      destruct (digits (n / b)) as [|d t]; [congruence|]. simpl. exact IH.
Qed.

Lemma digits_canonical n : canonical (digits n).
Proof. split; [apply digits_lt | apply digits_head]. Qed.

Lemma value_acc_pos t : forall acc, acc <> 0 -> value t acc <> 0.
Proof.
  induction t as [|x t IHt]; simpl; intros acc Hacc; [exact Hacc|].
  apply IHt. nia.
Qed.

Lemma value_canonical_pos ds : canonical ds -> ds <> [] -> value ds 0 <> 0.
Proof.
  intros [Hlt Hhd] Hne. destruct ds as [|d t]; [congruence|].
  simpl. apply value_acc_pos. lia.
Qed.

Lemma digits_value ds : canonical ds -> digits (value ds 0) = ds.
Proof.
  induction ds as [|d ds IH] using rev_ind; intros Hc.
  - reflexivity.
  - rewrite value_app. simpl.
    destruct Hc as [Hlt Hhd]. apply Forall_app in Hlt as [Hlt Hd].
    inversion Hd as [|? ? Hdb _]; subst.
    assert (Hc' : canonical ds).
    { split; auto. destruct ds; simpl in *; auto. }
    destruct ds as [|e t].
    + simpl in *. assert (d <> 0) by lia.
      rewrite digits_step by lia.
      rewrite N.div_small, N.mod_small by lia. reflexivity.
    + pose proof (value_canonical_pos (e :: t) Hc') as Hpos.
      set (v := value (e :: t) 0) in *.
      assert (Hv : v <> 0) by (apply Hpos; discriminate).
      rewrite digits_step by nia.
      assert (E1 : (v * b + d) / b = v).
      { symmetry. apply N.div_unique with d; lia. }
      assert (E2 : (v * b + d) mod b = d).
      { symmetry. apply N.mod_unique with v; lia. }
      rewrite E1, E2. subst v. rewrite (IH Hc'). reflexivity.
Qed.

End Radix.

(* Executable SHA-256 over byte lists (FIPS 180-4), used to make the codec models
   self-contained in the correspondence runs.  Validated against the published
   vectors below and against Go's crypto/sha256 on every run (Run_C07). *)
From BU Require Import Lib.Bytes.

Definition w32 (x : N) : N := x mod 4294967296.
Definition add32 (a b : N) : N := w32 (a + b).
Definition rotr (x n : N) : N := N.lor (N.shiftr x n) (w32 (N.shiftl x (32 - n))).
Definition shr (x n : N) : N := N.shiftr x n.
Definition not32 (x : N) : N := N.lxor x 4294967295.

Definition Ch x y z := N.lxor (N.land x y) (N.land (not32 x) z).
Definition Maj x y z := N.lxor (N.lxor (N.land x y) (N.land x z)) (N.land y z).
Definition Sig0 x := N.lxor (N.lxor (rotr x 2) (rotr x 13)) (rotr x 22).
Definition Sig1 x := N.lxor (N.lxor (rotr x 6) (rotr x 11)) (rotr x 25).
Definition sig0 x := N.lxor (N.lxor (rotr x 7) (rotr x 18)) (shr x 3).
Definition sig1 x := N.lxor (N.lxor (rotr x 17) (rotr x 19)) (shr x 10).

Definition K256 : list N := [
 0x428a2f98;0x71374491;0xb5c0fbcf;0xe9b5dba5;0x3956c25b;0x59f111f1;0x923f82a4;0xab1c5ed5;
 0xd807aa98;0x12835b01;0x243185be;0x550c7dc3;0x72be5d74;0x80deb1fe;0x9bdc06a7;0xc19bf174;
 0xe49b69c1;0xefbe4786;0x0fc19dc6;0x240ca1cc;0x2de92c6f;0x4a7484aa;0x5cb0a9dc;0x76f988da;
 0x983e5152;0xa831c66d;0xb00327c8;0xbf597fc7;0xc6e00bf3;0xd5a79147;0x06ca6351;0x14292967;
 0x27b70a85;0x2e1b2138;0x4d2c6dfc;0x53380d13;0x650a7354;0x766a0abb;0x81c2c92e;0x92722c85;
 0xa2bfe8a1;0xa81a664b;0xc24b8b70;0xc76c51a3;0xd192e819;0xd6990624;0xf40e3585;0x106aa070;
 0x19a4c116;0x1e376c08;0x2748774c;0x34b0bcb5;0x391c0cb3;0x4ed8aa4a;0x5b9cca4f;0x682e6ff3;
 0x748f82ee;0x78a5636f;0x84c87814;0x8cc70208;0x90befffa;0xa4506ceb;0xbef9a3f7;0xc67178f2].

Definition H0 : list N :=
 [0x6a09e667;0xbb67ae85;0x3c6ef372;0xa54ff53a;0x510e527f;0x9b05688c;0x1f83d9ab;0x5be0cd19].

(* message schedule: keep the last 16 words, newest first *)
Fixpoint words_be (l : list N) : list N :=
  match l with
  | a :: b :: c :: d :: t => (((a * 256 + b) * 256 + c) * 256 + d) :: words_be t
  | _ => []
  end.

Definition next_w (win : list N) : N :=
  (* win = [w(t-1); w(t-2); ...; w(t-16)] *)
  add32 (add32 (sig1 (nth 1 win 0)) (nth 6 win 0)) (add32 (sig0 (nth 14 win 0)) (nth 15 win 0)).

Fixpoint extend (n : nat) (win : list N) (acc : list N) : list N :=
  match n with
  | O => rev acc
  | S k => let w := next_w win in extend k (w :: firstn 15 win) (w :: acc)
  end.

Definition schedule (blk : list N) : list N :=
  let w16 := words_be blk in w16 ++ extend 48 (rev w16) [].

Definition round (st : list N) (kw : N * N) : list N :=
  match st with
  | [a; b; c; d; e; f; g; h] =>
      let t1 := add32 (add32 (add32 h (Sig1 e)) (add32 (Ch e f g) (fst kw))) (snd kw) in
      let t2 := add32 (Sig0 a) (Maj a b c) in
      [add32 t1 t2; a; b; c; add32 d t1; e; f; g]
  | _ => st
  end.

Definition compress (h : list N) (blk : list N) : list N :=
  let st := fold_left round (combine K256 (schedule blk)) h in
  map (fun p => add32 (fst p) (snd p)) (combine h st).

Definition pad (msg : list N) : list N :=
  let l := N.of_nat (length msg) in
  let k := (119 - (l mod 64)) mod 64 in  (* zero bytes so that total = 0 mod 64 *)
  msg ++ [128] ++ repeat 0 (N.to_nat k) ++ be_bytes 8 (8 * l).

Fixpoint blocks (fuel : nat) (l : list N) (h : list N) : list N :=
  match fuel with
  | O => h
  | S f => match l with [] => h | _ => blocks f (skipn 64 l) (compress h (firstn 64 l)) end
  end.

Definition sha256 (msg : list N) : list N :=
  let p := pad msg in
  flat_map (be_bytes 4) (blocks (S (length p / 64)) p H0).

Definition sha256d (msg : list N) : list N := sha256 (sha256 msg).

(* published vectors *)
Example sha256_abc : sha256 [97;98;99] =
  [0xba;0x78;0x16;0xbf;0x8f;0x01;0xcf;0xea;0x41;0x41;0x40;0xde;0x5d;0xae;0x22;0x23;
   0xb0;0x03;0x61;0xa3;0x96;0x17;0x7a;0x9c;0xb4;0x10;0xff;0x61;0xf2;0x00;0x15;0xad].
Proof. vm_compute. reflexivity. Qed.

Example sha256_empty : sha256 [] =
  [0xe3;0xb0;0xc4;0x42;0x98;0xfc;0x1c;0x14;0x9a;0xfb;0xf4;0xc8;0x99;0x6f;0xb9;0x24;
   0x27;0xae;0x41;0xe4;0x64;0x9b;0x93;0x4c;0xa4;0x95;0x99;0x1b;0x78;0x52;0xb8;0x55].
Proof. vm_compute. reflexivity. Qed.

(* 56-byte message: exercises the two-block padding path *)
Example sha256_two_blocks :
  sha256 (map (fun c => c) [97;98;99;100;98;99;100;101;99;100;101;102;100;101;102;103;101;102;103;104;
    102;103;104;105;103;104;105;106;104;105;106;107;105;106;107;108;106;107;108;109;107;108;109;110;
    108;109;110;111;109;110;111;112;110;111;112;113]) =
  [0x24;0x8d;0x6a;0x61;0xd2;0x06;0x38;0xb8;0xe5;0xc0;0x26;0x93;0x0c;0x3e;0x60;0x39;
   0xa3;0x3c;0xe4;0x59;0x64;0xff;0x21;0x67;0xf6;0xec;0xed;0xd4;0x19;0xdb;0x06;0xc1].
Proof. vm_compute. reflexivity. Qed.

Lemma sha256_length_32 msg : length (sha256 msg) = 32%nat.
Proof.
  unfold sha256.
  assert (Hb : forall fuel l h, length h = 8%nat -> length (blocks fuel l h) = 8%nat).
  { induction fuel as [|f IH]; intros l h Hh; simpl; auto.
    destruct l; auto. apply IH. unfold compress.
    rewrite map_length, combine_length.
    assert (Hr : forall st kw, length st = 8%nat -> length (round st kw) = 8%nat).
    { intros st kw Hst. do 9 (destruct st as [|? st]; try discriminate). reflexivity. }
    assert (Hf : forall ks st, length st = 8%nat -> length (fold_left round ks st) = 8%nat).
    { induction ks as [|k ks IHk]; simpl; intros; auto. }
    rewrite Hf by assumption. rewrite Hh. reflexivity. }
  generalize (blocks (S (length (pad msg) / 64)) (pad msg) H0) (Hb (S (length (pad msg) / 64)) (pad msg) H0 eq_refl).
  intros l Hl. do 9 (destruct l as [|? l]; try discriminate). reflexivity.
Qed.

Lemma be_bytes_Bytes n v : Bytes (be_bytes n v).
Proof. unfold be_bytes, Bytes. apply Forall_rev. apply le_bytes_Bytes. Qed.

Lemma sha256_bytes msg : Bytes (sha256 msg).
Proof.
  unfold sha256. generalize (blocks (S (length (pad msg) / 64)) (pad msg) H0). intros l.
  induction l as [|w l IHl]; cbn [flat_map]; [constructor|].
  apply Bytes_app. split; [apply be_bytes_Bytes | exact IHl].
Qed.

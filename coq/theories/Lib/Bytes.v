(* Shared conventions: bytes, symbols and ASCII codes are [N]; strings are [list N].
   Results of Go functions that may fail or panic are [res]. *)
From Coq Require Export List NArith ZArith Bool Lia.
From Coq Require Import ZifyBool ZifyN ZifyNat.
Export ListNotations.
Open Scope N_scope.

Ltac Zify.zify_post_hook ::= Z.div_mod_to_equations.

(* ---------- result type ---------- *)
Inductive res (A : Type) : Type :=
| Ok (a : A)
| Err (e : N)        (* error class, a small enum per model *)
| Panic (k : N).     (* Go run-time panic: 1 index, 2 slice bounds, 3 div by zero, 4 type assertion, 5 nil map, 9 out of fuel *)
Arguments Ok {A} a.
Arguments Err {A} e.
Arguments Panic {A} k.

Definition rbind {A B} (r : res A) (f : A -> res B) : res B :=
  match r with Ok a => f a | Err e => Err e | Panic k => Panic k end.
Notation "'do' x <- r ;; k" := (rbind r (fun x => k)) (at level 200, x pattern, r at level 100, k at level 200).

Definition is_panic {A} (r : res A) : bool := match r with Panic _ => true | _ => false end.
Definition is_ok {A} (r : res A) : bool := match r with Ok _ => true | _ => false end.

(* ---------- bytes ---------- *)
Definition is_byte (b : N) : bool := b <? 256.
Definition bytes_ok (l : list N) : bool := forallb is_byte l.
Definition Bytes (l : list N) : Prop := Forall (fun b => b < 256) l.

Lemma bytes_ok_iff l : bytes_ok l = true <-> Bytes l.
Proof.
  unfold bytes_ok, Bytes, is_byte. rewrite forallb_forall, Forall_forall.
  split; intros H x Hx; specialize (H x Hx); lia.
Qed.

Lemma Bytes_app a b : Bytes (a ++ b) <-> Bytes a /\ Bytes b.
Proof. unfold Bytes. apply Forall_app. Qed.

Lemma Bytes_cons x l : Bytes (x :: l) <-> x < 256 /\ Bytes l.
Proof. unfold Bytes. split; intros H; [inversion H; auto | destruct H; constructor; auto]. Qed.

Lemma Bytes_repeat x n : x < 256 -> Bytes (repeat x n).
Proof. intros Hx. induction n; simpl; constructor; auto. Qed.

(* list equality on N *)
Fixpoint list_eqb (a b : list N) : bool :=
  match a, b with
  | [], [] => true
  | x :: a', y :: b' => (x =? y) && list_eqb a' b'
  | _, _ => false
  end.

Lemma list_eqb_eq a b : list_eqb a b = true <-> a = b.
Proof.
  revert b; induction a as [|x a IH]; intros [|y b]; simpl; split; intros H; try easy.
  - apply andb_true_iff in H as [H1 H2]. apply N.eqb_eq in H1. apply IH in H2. congruence.
  - inversion H; subst. rewrite N.eqb_refl. simpl. apply IH. reflexivity.
Qed.

Lemma list_eqb_refl a : list_eqb a a = true.
Proof. apply list_eqb_eq. reflexivity. Qed.

(* nth with panic *)
Definition nth_res {A} (l : list A) (i : nat) : res A :=
  match nth_error l i with Some x => Ok x | None => Panic 1 end.

(* big-endian value of a byte list and back *)
Fixpoint be_value (l : list N) (acc : N) : N :=
  match l with [] => acc | b :: t => be_value t (acc * 256 + b) end.

Fixpoint count_leading (c : N) (l : list N) : nat :=
  match l with
  | x :: t => if x =? c then S (count_leading c t) else O
  | [] => O
  end.

Lemma count_leading_split c l :
  exists r, l = repeat c (count_leading c l) ++ r /\ (match r with [] => True | x :: _ => x <> c end).
Proof.
  induction l as [|x t [r [E H]]]; simpl.
  - exists []. auto.
  - destruct (N.eqb_spec x c) as [->|Hne].
    + exists r. simpl. rewrite <- E. auto.
    + exists (x :: t). simpl. auto.
Qed.

Lemma count_leading_repeat_app c n r :
  (match r with [] => True | x :: _ => x <> c end) ->
  count_leading c (repeat c n ++ r) = n.
Proof.
  intros H. induction n; simpl.
  - destruct r as [|x t]; simpl; auto. destruct (N.eqb_spec x c); congruence.
  - rewrite N.eqb_refl. congruence.
Qed.

(* little-endian encodings of fixed width *)
Fixpoint le_bytes (n : nat) (v : N) : list N :=
  match n with O => [] | S k => (v mod 256) :: le_bytes k (v / 256) end.
Fixpoint le_value (l : list N) : N :=
  match l with [] => 0 | b :: t => b + 256 * le_value t end.
Definition be_bytes (n : nat) (v : N) : list N := rev (le_bytes n v).

Lemma le_bytes_length n v : length (le_bytes n v) = n.
Proof. revert v; induction n; simpl; intros; auto. Qed.

Lemma le_bytes_Bytes n v : Bytes (le_bytes n v).
Proof.
  revert v; induction n as [|n IH]; simpl; intros; constructor.
  - apply N.mod_lt. lia.
  - apply IH.
Qed.

Lemma le_value_le_bytes n v : v < 256 ^ N.of_nat n -> le_value (le_bytes n v) = v.
Proof.
  revert v; induction n as [|n IH]; intros v Hv.
  - simpl in *. lia.
  - cbn [le_bytes le_value]. rewrite IH.
    + pose proof (N.div_mod v 256). lia.
    + rewrite Nat2N.inj_succ, N.pow_succ_r' in Hv.
      apply N.div_lt_upper_bound; lia.
Qed.

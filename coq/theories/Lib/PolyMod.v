(* The BCH checksum register shared by bech32 (6 symbols of 5 bits, 30-bit
   register) and CashAddr (8 symbols, 40-bit register), exactly as the two Go
   functions compute it: shift the register left by one symbol, xor the next
   value in, and xor in gens[i] for every set bit i of the symbol shifted out. *)
From BU Require Import Lib.Bytes.

Definition lit (l : list Z) (i : nat) : N := Z.to_N (nth i l 0%Z).

Record pm_params := {
  pm_shift : N;          (* bits kept before shifting: 25 / 35 *)
  pm_mask  : N;          (* 2^pm_shift - 1 as written in the source *)
  pm_sym   : N;          (* symbol width: 5 *)
  pm_gens  : list (N * N)   (* (mask, xor constant): `if c0 & mask > 0 { c ^= constant }` *)
}.

Fixpoint feedback (gens : list (N * N)) (c0 : N) (acc : N) : N :=
  match gens with
  | [] => acc
  | (m, g) :: t => feedback t c0 (if 0 <? N.land c0 m then N.lxor acc g else acc)
  end.

Definition pm_step (p : pm_params) (c d : N) : N :=
  let c0 := N.shiftr c (pm_shift p) mod 256 in    (* byte(c >> 35); bech32's b is < 32 anyway *)
  let c1 := N.lxor (N.shiftl (N.land c (pm_mask p)) (pm_sym p)) d in
  feedback (pm_gens p) c0 c1.

Definition pm_fold (p : pm_params) (c : N) (ds : list N) : N := fold_left (pm_step p) ds c.

(* symbols of a register value, most significant first: (v >> 5*(k-1-i)) & 31 *)
Fixpoint unpack (k : nat) (v : N) : list N :=
  match k with
  | O => []
  | S j => N.land (N.shiftr v (5 * N.of_nat j)) 31 :: unpack j v
  end.

Definition packbe (cs : list N) : N := fold_left (fun a x => a * 32 + x) cs 0.

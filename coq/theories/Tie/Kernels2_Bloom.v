(* Tie between the monadic-mode transliterations (Gen/Kernels2.v, regenerated from the Go ASTs on every
   run) of bloom/filter.go {hash, matches, add} and of the three calcTreeWidth copies
   (bloom/merkleblock.go, merkleblock/encode.go, merkleblock/decode.go) and the hand-written models
   Bloom/Bloom.v and Merkle/Merkle.v.  No literal of the source is repeated here: closed sub-terms of
   the models are evaluated. *)
From BU Require Import Lib.Bytes Lib.PolyMod Gen.Xbloom Gen.Kernels Gen.Kernels2 Bloom.Murmur3 Bloom.Bloom
  Merkle.Merkle Tie.TieTactics Tie.KernelsTieMurmur Tie.Kernels2Lib.
From Coq Require Import ZifyBool ZifyN ZifyNat.

(* ====================================================================== *)
(* 4. calcTreeWidth (three copies in the Go tree, three model functions)   *)
(* ====================================================================== *)
(* No hypothesis is needed: generated code and model wrap at the same places, for every numTx and
   height (also >= 2^32, where neither is meaningful). *)

Theorem bloom_merkleBlock_calcTreeWidth_tie numTx height :
  Kernels2.bloom_merkleBlock_calcTreeWidth numTx height = Merkle.bl_tree_width numTx height.
Proof. reflexivity. Qed.
Print Assumptions bloom_merkleBlock_calcTreeWidth_tie.

Theorem MerkleBlock_calcTreeWidth_tie numTx height :
  Kernels2.MerkleBlock_calcTreeWidth numTx height = Merkle.mb_tree_width numTx height.
Proof. reflexivity. Qed.
Print Assumptions MerkleBlock_calcTreeWidth_tie.

Theorem PartialBlock_calcTreeWidth_tie numTx height :
  Kernels2.PartialBlock_calcTreeWidth numTx height = Merkle.pb_tree_width numTx height.
Proof. reflexivity. Qed.
Print Assumptions PartialBlock_calcTreeWidth_tie.

(* the three Go copies are the same function, so each generated definition is also equal to the other
   two model functions (all are [MerkleArith.tw]) *)
Corollary calcTreeWidth_copies_agree numTx height :
  Kernels2.bloom_merkleBlock_calcTreeWidth numTx height = Merkle.mb_tree_width numTx height /\
  Kernels2.MerkleBlock_calcTreeWidth numTx height = Merkle.pb_tree_width numTx height /\
  Kernels2.PartialBlock_calcTreeWidth numTx height = Merkle.bl_tree_width numTx height.
Proof. repeat split. Qed.
Print Assumptions calcTreeWidth_copies_agree.

(* ====================================================================== *)
(* 1. Filter.hash                                                          *)
(* ====================================================================== *)
Ltac eval_term_in t H := let x := eval vm_compute in t in change t with x in H.

Lemma w8_is_mod x : w8 x = x mod 2 ^ 8.
Proof. unfold w8. change 255 with (N.ones 8). apply N.land_ones. Qed.

(* the seed: the model wraps i and the tweak before use, the code does not; the results agree for
   all i and tweak because the sum is wrapped afterwards *)
Lemma seed_tie i tweak :
  ((i * hlit 0) mod 2 ^ 32 + tweak) mod 2 ^ 32 = seed_of i tweak.
Proof.
  unfold seed_of, seed_mult. rewrite !w32_is_mod.
  rewrite (N.mul_mod_idemp_l i) by discriminate.
  rewrite N.add_mod_idemp_r by discriminate. reflexivity.
Qed.

Lemma nbits_tie m :
  (N.shiftl (Z.to_N ((Z.of_nat (length (m_bytes m))) mod 2 ^ 32)) (hlit 1)) mod 2 ^ 32 = nbits m.
Proof.
  unfold nbits. rewrite !w32_is_mod. do 2 f_equal.
  rewrite Z2N.inj_mod by lia. f_equal. lia.
Qed.

(* Hypotheses: [Bytes data] and [length data < 2^32] are those of MurmurHash3_tie (the generated
   MurmurHash3 reads the bytes unmasked and the model wraps the length);
   [nbits m <> 0] because Go panics on a zero divisor while Coq's [mod] returns the dividend.
   Nothing is needed about i or the tweak. *)
Theorem Filter_hash_tie m i data :
  Bytes data -> N.of_nat (length data) < 2 ^ 32 -> nbits m <> 0 ->
  Kernels2.Filter_hash (m_tweak m) (m_bytes m) i data = Ok (Bloom.bit_index m i data).
Proof.
  intros Hd Hl Hn. unfold Kernels2.Filter_hash, Bloom.bit_index.
  pose proof (seed_tie i (m_tweak m)) as Hs. pose proof (nbits_tie m) as Hb.
  unfold hlit in Hs, Hb.
  eval_term_in (lit lits_Filter_hash 0) Hs. eval_term_in (lit lits_Filter_hash 1) Hb.
  rewrite Hs, Hb.
  rewrite MurmurHash3_tie; [| rewrite <- Hs; apply N.mod_lt; discriminate | exact Hd | exact Hl].
  unfold Go.modN. destruct (N.eqb_spec (nbits m) 0) as [E|_]; [contradiction|]. reflexivity.
Qed.
Print Assumptions Filter_hash_tie.

(* the excluded case: the code panics (integer divide by zero), the model returns the hash *)
Theorem Filter_hash_zero m i data :
  nbits m = 0 -> Kernels2.Filter_hash (m_tweak m) (m_bytes m) i data = Panic 3.
Proof.
  intros Hn. unfold Kernels2.Filter_hash.
  pose proof (nbits_tie m) as Hb. unfold hlit in Hb. eval_term_in (lit lits_Filter_hash 1) Hb.
  rewrite Hb, Hn. reflexivity.
Qed.
Print Assumptions Filter_hash_zero.

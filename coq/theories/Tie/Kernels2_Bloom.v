(* Tie between the monadic-mode transliterations (Gen/Kernels2.v, regenerated from the Go ASTs on every
   run) of bloom/filter.go {hash, matches, add} and of the three calcTreeWidth copies
   (bloom/merkleblock.go, merkleblock/encode.go, merkleblock/decode.go) and the hand-written models
   Bloom/Bloom.v and Merkle/Merkle.v.  No literal of the source is repeated here: closed sub-terms of
   the models are evaluated. *)
From BU Require Import Lib.Bytes Lib.PolyMod Gen.Xbloom Gen.Kernels Gen.Kernels2 Bloom.Murmur3 Bloom.Bloom
  Merkle.Merkle Tie.TieTactics Tie.KernelsTieMurmur Tie.Kernels2Lib.
From Coq Require Import ZifyBool ZifyN ZifyNat.

(* ====================================================================== *)
(* 4. calcTreeWidth (three copies in the Go tree, three model functions)   *)
(* ====================================================================== *)
(* No hypothesis is needed: generated code and model wrap at the same places, for every numTx and
   height (also >= 2^32, where neither is meaningful). *)

Theorem bloom_merkleBlock_calcTreeWidth_tie numTx height :
  Kernels2.bloom_merkleBlock_calcTreeWidth numTx height = Merkle.bl_tree_width numTx height.
Proof. reflexivity. Qed.
Print Assumptions bloom_merkleBlock_calcTreeWidth_tie.

Theorem MerkleBlock_calcTreeWidth_tie numTx height :
  Kernels2.MerkleBlock_calcTreeWidth numTx height = Merkle.mb_tree_width numTx height.
Proof. reflexivity. Qed.
Print Assumptions MerkleBlock_calcTreeWidth_tie.

Theorem PartialBlock_calcTreeWidth_tie numTx height :
  Kernels2.PartialBlock_calcTreeWidth numTx height = Merkle.pb_tree_width numTx height.
Proof. reflexivity. Qed.
Print Assumptions PartialBlock_calcTreeWidth_tie.

(* the three Go copies are the same function, so each generated definition is also equal to the other
   two model functions (all are [MerkleArith.tw]) *)
Corollary calcTreeWidth_copies_agree numTx height :
  Kernels2.bloom_merkleBlock_calcTreeWidth numTx height = Merkle.mb_tree_width numTx height /\
  Kernels2.MerkleBlock_calcTreeWidth numTx height = Merkle.pb_tree_width numTx height /\
  Kernels2.PartialBlock_calcTreeWidth numTx height = Merkle.bl_tree_width numTx height.
Proof. repeat split. Qed.
Print Assumptions calcTreeWidth_copies_agree.

(* ====================================================================== *)
(* 1. Filter.hash                                                          *)
(* ====================================================================== *)
Ltac eval_term_in t H := let x := eval vm_compute in t in change t with x in H.

Lemma w8_is_mod x : w8 x = x mod 2 ^ 8.
Proof. unfold w8. change 255 with (N.ones 8). apply N.land_ones. Qed.

(* the seed: the model wraps i and the tweak before use, the code does not; the results agree for
   all i and tweak because the sum is wrapped afterwards *)
Lemma seed_tie i tweak :
  ((i * hlit 0) mod 2 ^ 32 + tweak) mod 2 ^ 32 = seed_of i tweak.
Proof.
  unfold seed_of, seed_mult. rewrite !w32_is_mod.
  rewrite (N.mul_mod_idemp_l i) by discriminate.
  rewrite N.add_mod_idemp_r by discriminate. reflexivity.
Qed.

Lemma nbits_tie m :
  (N.shiftl (Z.to_N ((Z.of_nat (length (m_bytes m))) mod 2 ^ 32)) (hlit 1)) mod 2 ^ 32 = nbits m.
Proof.
  unfold nbits. rewrite !w32_is_mod. do 2 f_equal.
  rewrite Z2N.inj_mod by lia. f_equal. lia.
Qed.

(* Hypotheses: [Bytes data] and [length data < 2^32] are those of MurmurHash3_tie (the generated
   MurmurHash3 reads the bytes unmasked and the model wraps the length);
   [nbits m <> 0] because Go panics on a zero divisor while Coq's [mod] returns the dividend.
   Nothing is needed about i or the tweak. *)
Theorem Filter_hash_tie m i data :
  Bytes data -> N.of_nat (length data) < 2 ^ 32 -> nbits m <> 0 ->
  Kernels2.Filter_hash (m_tweak m) (m_bytes m) i data = Ok (Bloom.bit_index m i data).
Proof.
  intros Hd Hl Hn. unfold Kernels2.Filter_hash, Bloom.bit_index.
  pose proof (seed_tie i (m_tweak m)) as Hs. pose proof (nbits_tie m) as Hb.
  unfold hlit in Hs, Hb.
  eval_term_in (lit lits_Filter_hash 0) Hs. eval_term_in (lit lits_Filter_hash 1) Hb.
  rewrite Hs, Hb.
  rewrite MurmurHash3_tie; [| rewrite <- Hs; apply N.mod_lt; discriminate | exact Hd | exact Hl].
  unfold Go.modN. destruct (N.eqb_spec (nbits m) 0) as [E|_]; [contradiction|]. reflexivity.
Qed.
Print Assumptions Filter_hash_tie.

(* the excluded case: the code panics (integer divide by zero), the model returns the hash *)
Theorem Filter_hash_zero m i data :
  nbits m = 0 -> Kernels2.Filter_hash (m_tweak m) (m_bytes m) i data = Panic 3.
Proof.
  intros Hn. unfold Kernels2.Filter_hash.
  pose proof (nbits_tie m) as Hb. unfold hlit in Hb. eval_term_in (lit lits_Filter_hash 1) Hb.
  rewrite Hb, Hn. reflexivity.
Qed.
Print Assumptions Filter_hash_zero.

(* ====================================================================== *)
(* shared facts for matches / add                                          *)
(* ====================================================================== *)
(* The condition under which the loops of matches/add do not panic: a non-empty array must give a
   non-zero divisor uint32(len)<<3.  It follows from len_ok_msg (len < 2^29, itself implied by the
   wire limit); it fails exactly when len is a non-zero multiple of 2^29. *)
Definition div_ok (m : Bloom.msg) : Prop := length (m_bytes m) <> O -> nbits m <> 0.

(* uint32(len) << 3 does not wrap under len_ok_msg *)
Lemma nbits_val m : len_ok_msg m -> nbits m = 8 * N.of_nat (length (m_bytes m)).
Proof.
  unfold len_ok_msg, nbits, hlit. intros H. eval_term (lit lits_Filter_hash 1).
  rewrite !w32_is_mod, N.shiftl_mul_pow2.
  change (2 ^ 29) with 536870912 in H. change (2 ^ 32) with 4294967296. change (2 ^ 3) with 8.
  rewrite (N.mod_small (N.of_nat _)) by lia. rewrite N.mod_small by lia. lia.
Qed.

Lemma len_ok_div_ok m : len_ok_msg m -> div_ok m.
Proof. intros H Hne. rewrite nbits_val by exact H. lia. Qed.

(* with or without wrap, nbits <= 8 * len *)
Lemma nbits_le m : nbits m <= 8 * N.of_nat (length (m_bytes m)).
Proof.
  unfold nbits, hlit. eval_term (lit lits_Filter_hash 1).
  rewrite !w32_is_mod, N.shiftl_mul_pow2. change (2 ^ 3) with 8.
  etransitivity; [apply N.mod_le; discriminate|].
  pose proof (N.mod_le (N.of_nat (length (m_bytes m))) (2 ^ 32)). lia.
Qed.

(* bit_index depends on the message only through the array length and the tweak *)
Lemma nbits_len m1 m2 : length (m_bytes m1) = length (m_bytes m2) -> nbits m1 = nbits m2.
Proof. unfold nbits. now intros ->. Qed.

Lemma bit_index_len m1 m2 i data :
  length (m_bytes m1) = length (m_bytes m2) -> m_tweak m1 = m_tweak m2 ->
  bit_index m1 i data = bit_index m2 i data.
Proof. unfold bit_index, nbits. intros -> ->. reflexivity. Qed.

(* the byte index idx>>3 is inside the array: idx < nbits <= 8*len *)
Lemma bit_index_lt m i data :
  nbits m <> 0 -> N.shiftr (bit_index m i data) 3 < N.of_nat (length (m_bytes m)).
Proof.
  intros Hnz. rewrite N.shiftr_div_pow2. change (2 ^ 3) with 8.
  assert (Hlt : bit_index m i data < nbits m) by (unfold bit_index; apply N.mod_lt; exact Hnz).
  pose proof (nbits_le m). apply N.div_lt_upper_bound; lia.
Qed.

Lemma nth_res_nth (l : list N) k : (k < length l)%nat -> nth_res l k = Ok (nth k l 0).
Proof.
  intros H. unfold nth_res. destruct (nth_error l k) as [x|] eqn:E.
  - now rewrite (nth_error_nth _ _ _ E).
  - apply nth_error_None in E. lia.
Qed.

Lemma nseq_seq a n : Go.nseq (N.of_nat a) n = map N.of_nat (seq a n).
Proof.
  revert a; induction n as [|n IH]; intros a; cbn [Go.nseq seq map]; [reflexivity|].
  f_equal. rewrite <- IH. f_equal. lia.
Qed.

Lemma forallb_map' {A B} (p : B -> bool) (h : A -> B) l :
  forallb p (map h l) = forallb (fun x => p (h x)) l.
Proof. induction l as [|x l IH]; cbn [map forallb]; [reflexivity | now rewrite IH]. Qed.

(* a loop whose body only tests: [return false] on the first failure = forallb *)
Lemma foldC_forallb {A} (p : A -> bool) (f : unit -> A -> res (Go.ctl unit bool)) l :
  (forall x, In x l -> f tt x = Ok (if p x then Go.Next tt else Go.Ret false)) ->
  Go.foldC f l tt = Ok (if forallb p l then Go.Next tt else Go.Ret false).
Proof.
  induction l as [|x l IH]; intros H; cbn [Go.foldC forallb]; [reflexivity|].
  rewrite H by (left; reflexivity). destruct (p x); cbn [andb]; [|reflexivity].
  apply IH. intros y Hy. apply H. now right.
Qed.

(* the loop counter of the code against the model's [hash_nums] (HashFuncs is a uint32) *)
Lemma hash_nums_tie n : n < 2 ^ 32 -> Go.nseq 0 (N.to_nat n) = hash_nums n.
Proof.
  intros H. unfold hash_nums. rewrite w32_is_mod, N.mod_small by exact H.
  exact (nseq_seq 0 (N.to_nat n)).
Qed.

(* ====================================================================== *)
(* 2. Filter.matches                                                       *)
(* ====================================================================== *)
Theorem Filter_matches_nil_tie bytes nh tw data :
  Kernels2.Filter_matches true bytes nh tw data = Ok (Bloom.matches None data).
Proof. reflexivity. Qed.
Print Assumptions Filter_matches_nil_tie.

(* one iteration of the loop of matches *)
Lemma matches_body m i data :
  Bytes data -> N.of_nat (length data) < 2 ^ 32 -> nbits m <> 0 ->
  (do idx <- Kernels2.Filter_hash (m_tweak m) (m_bytes m) i data ;;
   do b <- Go.idx (m_bytes m) (Z.of_N (N.shiftr idx 3)) ;;
   if N.land b ((N.shiftl 1 (N.land idx 7)) mod 2 ^ 8) =? 0
   then Ok (Go.Ret (S := unit) false) else Ok (Go.Next tt))
  = Ok (if test_bit (m_bytes m) (bit_index m i data) then Go.Next tt else Go.Ret false).
Proof.
  intros Hd Hl Hnz.
  rewrite Filter_hash_tie by assumption.
  cbn [rbind]. pose proof (bit_index_lt m i data Hnz) as Hlt.
  rewrite idx_N, nth_res_nth by lia. cbn [rbind].
  unfold test_bit, mlit_m.
  eval_term (lit lits_Filter_matches 2). eval_term (lit lits_Filter_matches 3).
  eval_term (lit lits_Filter_matches 4). eval_term (lit lits_Filter_matches 5).
  rewrite w8_is_mod.
  destruct (N.land _ _ =? 0); reflexivity.
Qed.

(* General form.  Hypotheses: those of Filter_hash_tie about data; [m_nhash m < 2^32] because the
   model wraps the loop bound (a uint32 in Go) and the code's argument is an unconstrained N;
   [div_ok m] so that the modulo in hash does not panic.  The checked read Filter[idx>>3] then never
   panics (idx < nbits <= 8*len) and agrees with the model's unchecked [nth]. *)
Theorem Filter_matches_tie_gen m data :
  Bytes data -> N.of_nat (length data) < 2 ^ 32 -> m_nhash m < 2 ^ 32 -> div_ok m ->
  Kernels2.Filter_matches false (m_bytes m) (m_nhash m) (m_tweak m) data
  = Ok (Bloom.matches (Some m) data).
Proof.
  intros Hd Hl Hn Hok. unfold Kernels2.Filter_matches, Bloom.matches, is_empty, mlit_m.
  eval_term (lit lits_Filter_matches 0).
  destruct (Z.eqb_spec (Z.of_nat (length (m_bytes m))) 0) as [E|E].
  - destruct (N.eqb_spec (N.of_nat (length (m_bytes m))) 0); [reflexivity | lia].
  - destruct (N.eqb_spec (N.of_nat (length (m_bytes m))) 0) as [E'|_]; [lia|].
    rewrite (foldC_forallb (fun i => test_bit (m_bytes m) (bit_index m i data))).
    + cbn [rbind]. rewrite hash_nums_tie by exact Hn. unfold indices. rewrite forallb_map'.
      destruct (forallb _ _); reflexivity.
    + intros i _. apply matches_body; [exact Hd | exact Hl | apply Hok; lia].
Qed.
Print Assumptions Filter_matches_tie_gen.

(* under the model's own domain condition (len < 2^29) *)
Theorem Filter_matches_tie m data :
  Bytes data -> N.of_nat (length data) < 2 ^ 32 -> m_nhash m < 2 ^ 32 -> len_ok_msg m ->
  Kernels2.Filter_matches false (m_bytes m) (m_nhash m) (m_tweak m) data
  = Ok (Bloom.matches (Some m) data).
Proof. intros Hd Hl Hn Hok. apply Filter_matches_tie_gen; auto using len_ok_div_ok. Qed.
Print Assumptions Filter_matches_tie.

(* Outside div_ok (len a non-zero multiple of 2^29, excluded by len_ok_msg and by the wire limit) the
   code panics with a division by zero as soon as there is one hash function, while the model
   returns a boolean: the hypothesis cannot be dropped. *)
Theorem Filter_matches_wrap_panics m data :
  length (m_bytes m) <> O -> nbits m = 0 -> 0 < m_nhash m ->
  Kernels2.Filter_matches false (m_bytes m) (m_nhash m) (m_tweak m) data = Panic 3.
Proof.
  intros Hne Hz Hn. unfold Kernels2.Filter_matches.
  destruct (Z.eqb_spec (Z.of_nat (length (m_bytes m))) 0) as [E|_]; [lia|].
  destruct (N.to_nat (m_nhash m)) as [|k] eqn:Ek; [lia|].
  cbn [Go.nseq Go.foldC]. rewrite Filter_hash_zero by exact Hz. reflexivity.
Qed.
Print Assumptions Filter_matches_wrap_panics.

(* ====================================================================== *)
(* 3. Filter.add                                                           *)
(* ====================================================================== *)
Lemma upd_length l k f : length (Bloom.upd l k f) = length l.
Proof. revert k; induction l as [|x l IH]; intros [|k]; cbn [Bloom.upd length]; auto. Qed.

Lemma set_bit_length l idx : length (set_bit l idx) = length l.
Proof. apply upd_length. Qed.

(* the code's read-modify-write against the model's in-place update *)
Lemma set_at_upd (l : list N) k f :
  (k < length l)%nat -> Go.set_at l k (f (nth k l 0)) = Bloom.upd l k f.
Proof.
  revert k; induction l as [|x l IH]; intros [|k] H; cbn [length] in H;
    cbn [Go.set_at Bloom.upd nth]; try lia; [reflexivity|].
  f_equal. apply IH. lia.
Qed.

(* the array of a filter (the only field add writes) *)
Definition filter_bytes (f : filter) : list N :=
  match f with Some m => m_bytes m | None => [] end.

(* one iteration of the loop of add, on any array s of the original length *)
Lemma add_body m s i data :
  Bytes data -> N.of_nat (length data) < 2 ^ 32 -> nbits m <> 0 ->
  length s = length (m_bytes m) ->
  (do idx <- Kernels2.Filter_hash (m_tweak m) s i data ;;
   do b <- Go.idx s (Z.of_N (N.shiftr idx 3)) ;;
   do s' <- Go.upd s (Z.of_N (N.shiftr idx 3)) (N.lor b ((N.shiftl 1 (N.land 7 idx)) mod 2 ^ 8)) ;;
   Ok s')
  = Ok (set_bit s (bit_index m i data)).
Proof.
  intros Hd Hl Hnz Hs.
  set (m' := MkMsg s (m_nhash m) (m_tweak m) (Bloom.m_flags m)).
  assert (Hnz' : nbits m' <> 0) by (rewrite (nbits_len m' m) by exact Hs; exact Hnz).
  change s with (m_bytes m') at 1. change (m_tweak m) with (m_tweak m') at 1.
  rewrite Filter_hash_tie by assumption.
  cbn [rbind]. pose proof (bit_index_lt m' i data Hnz') as Hlt. cbn [m' m_bytes] in Hlt.
  rewrite (bit_index_len m' m) in * by (cbn [m' m_bytes m_tweak]; auto).
  rewrite idx_N, nth_res_nth by lia. cbn [rbind].
  rewrite <- N_nat_Z, upd_nat by lia. cbn [rbind].
  unfold set_bit, mlit_a.
  eval_term (lit lits_Filter_add 2). eval_term (lit lits_Filter_add 3). eval_term (lit lits_Filter_add 4).
  rewrite w8_is_mod.
  rewrite (set_at_upd s _ (fun b => N.lor b ((N.shiftl 1 (N.land 7 (bit_index m i data))) mod 2 ^ 8))) by lia.
  reflexivity.
Qed.

Theorem Filter_add_nil_tie bytes nh tw data :
  Kernels2.Filter_add true bytes nh tw data = Ok bytes /\ Bloom.add None data = None.
Proof. split; reflexivity. Qed.
Print Assumptions Filter_add_nil_tie.

(* Same hypotheses as Filter_matches_tie_gen, for the same reasons; the array length is invariant
   under the loop, so every call of hash sees the same divisor.  The second conjunct says that the
   model changes nothing but the array. *)
Theorem Filter_add_tie_gen m data :
  Bytes data -> N.of_nat (length data) < 2 ^ 32 -> m_nhash m < 2 ^ 32 -> div_ok m ->
  Kernels2.Filter_add false (m_bytes m) (m_nhash m) (m_tweak m) data
  = Ok (filter_bytes (Bloom.add (Some m) data)) /\
  Bloom.add (Some m) data
  = Some (MkMsg (filter_bytes (Bloom.add (Some m) data)) (m_nhash m) (m_tweak m) (Bloom.m_flags m)).
Proof.
  intros Hd Hl Hn Hok. unfold Kernels2.Filter_add, Bloom.add, is_empty_a, mlit_a.
  eval_term (lit lits_Filter_add 0). cbn [orb].
  destruct (Z.eqb_spec (Z.of_nat (length (m_bytes m))) 0) as [E|E].
  - destruct (N.eqb_spec (N.of_nat (length (m_bytes m))) 0); [|lia].
    cbn [filter_bytes]. split; [reflexivity | now destruct m].
  - destruct (N.eqb_spec (N.of_nat (length (m_bytes m))) 0) as [E'|_]; [lia|].
    cbn [filter_bytes m_bytes]. split; [|reflexivity].
    destruct (foldM_pure (fun s => length s = length (m_bytes m)) (fun _ : N => True)
                (fun s i =>
                   do idx <- Kernels2.Filter_hash (m_tweak m) s i data ;;
                   do b <- Go.idx s (Z.of_N (N.shiftr idx 3)) ;;
                   do s' <- Go.upd s (Z.of_N (N.shiftr idx 3))
                              (N.lor b ((N.shiftl 1 (N.land 7 idx)) mod 2 ^ 8)) ;;
                   Ok s')
                (fun s i => set_bit s (bit_index m i data))
                (Go.nseq 0 (N.to_nat (m_nhash m))) (m_bytes m)) as [Hfold _].
    + intros s i Hs _. apply add_body; [exact Hd | exact Hl | apply Hok; lia | exact Hs].
    + intros s i Hs _. now rewrite set_bit_length.
    + reflexivity.
    + apply Forall_forall. intros; exact I.
    + rewrite Hfold. cbn [rbind]. rewrite hash_nums_tie by exact Hn.
      unfold indices. now rewrite fold_left_map.
Qed.
Print Assumptions Filter_add_tie_gen.

Theorem Filter_add_tie m data :
  Bytes data -> N.of_nat (length data) < 2 ^ 32 -> m_nhash m < 2 ^ 32 -> len_ok_msg m ->
  Kernels2.Filter_add false (m_bytes m) (m_nhash m) (m_tweak m) data
  = Ok (filter_bytes (Bloom.add (Some m) data)) /\
  Bloom.add (Some m) data
  = Some (MkMsg (filter_bytes (Bloom.add (Some m) data)) (m_nhash m) (m_tweak m) (Bloom.m_flags m)).
Proof. intros Hd Hl Hn Hok. apply Filter_add_tie_gen; auto using len_ok_div_ok. Qed.
Print Assumptions Filter_add_tie.

Theorem Filter_add_wrap_panics m data :
  length (m_bytes m) <> O -> nbits m = 0 -> 0 < m_nhash m ->
  Kernels2.Filter_add false (m_bytes m) (m_nhash m) (m_tweak m) data = Panic 3.
Proof.
  intros Hne Hz Hn. unfold Kernels2.Filter_add. cbn [orb].
  destruct (Z.eqb_spec (Z.of_nat (length (m_bytes m))) 0) as [E|_]; [lia|].
  destruct (N.to_nat (m_nhash m)) as [|k] eqn:Ek; [lia|].
  cbn [Go.nseq Go.foldM]. rewrite Filter_hash_zero by exact Hz. reflexivity.
Qed.
Print Assumptions Filter_add_wrap_panics.

(* the hypotheses are satisfiable (a 2-byte filter, 3 hash functions), and the tie computes *)
Example tie_example :
  let m := MkMsg [0; 0] 3 5 0 in
  Kernels2.Filter_add false (m_bytes m) (m_nhash m) (m_tweak m) [1; 2; 3]
  = Ok (filter_bytes (Bloom.add (Some m) [1; 2; 3])) /\
  len_ok_msg m /\ m_nhash m < 2 ^ 32.
Proof. vm_compute. repeat split. Qed.

(* Tie for the sort.Interface methods of the coinset / txsort slices and for the SimpleCoin accessors
   (Gen/Kernels4.v, translated from coinset/coins.go and txsort/txsort.go).

   Ties AGAINST THE MODEL (CoinSet/CoinSet.v, TxSort/TxSort.v):
     byAmount_Less        ~ CoinSet.less_amt            (byAmount_Less_model_tie;   Coin_t := option coin as in
     byValueAge_Less      ~ CoinSet.less_va w64         (byValueAge_Less_model_tie;  Tie/Kernels3_CoinSet.v)
     SimpleCoin_Value     ~ CoinSet.cval                (SimpleCoin_Value_model_tie)
     SimpleCoin_NumConfs  ~ CoinSet.cconfs              (SimpleCoin_NumConfs_model_tie)
     SimpleCoin_ValueAge  ~ CoinSet.va w64              (SimpleCoin_ValueAge_model_tie)
     "sorted w.r.t. the generated Less" ~ CoinSetProofs.sorted_by / TxSort.go_is_sorted   (last part of the file)
   Ties against a SPECIFICATION WRITTEN IN THIS FILE (the model has no corresponding function):
     the four Len          ~ Z.of_nat (length a)
     the four Swap         ~ [swap_spec]: Ok ([swap] a i j) when both indices are in range, Panic 1 otherwise;
                             [swap] is characterised by [swap_nth_error] (the transposition of the positions),
                             is a permutation ([swap_perm]) and keeps the length ([swap_length])
     byAmount_Less / byValueAge_Less (any Coin_t) ~ [less_spec]: the comparison [<] of the keys of the two
                             elements, Panic 1 when an index is out of range; a strict weak order on the positions
     SimpleCoin_Hash / Index / NumConfs ~ the projections
     SimpleCoin_txOut / Value / PkScript / ValueAge ~ [txOut_spec] / [out_spec]: nil MsgTx pointer: Panic 5,
                             TxIndex out of range: Panic 1, nil TxOut element: Panic 5 (not for txOut itself),
                             ValueAge = Go.wrapZ 64 (TxNumConfs * Value).
   All statements are total: they hold for every input, the panic cases included. *)
From BU Require Import Lib.Bytes Gen.Kernels2 Gen.Kernels3 Gen.Kernels4 CoinSet.CoinSet CoinSet.CoinSetProofs
  Tie.Kernels2Lib Tie.Kernels3Lib Tie.Kernels3_CoinSet.
From BU Require TxSort.TxSort Tie.Kernels2_Misc Tie.Kernels3_TxSort.
From Coq Require Import Lia ZifyBool ZifyN ZifyNat Permutation Sorted FinFun.
Local Open Scope Z_scope.

(* ================= 1. generic: indices, swap, less ================= *)
Definition in_range {A} (a : list A) (i : Z) : bool := (0 <=? i) && (i <? Z.of_nat (length a)).

Lemma idx_in_range {A} (a : list A) i :
  in_range a i = true -> exists x, nth_error a (Z.to_nat i) = Some x /\ Go.idx a i = Ok x.
Proof.
  intros Hi. unfold in_range in Hi. unfold Go.idx, nth_res.
  destruct (i <? 0) eqn:Hneg; [lia|].
  destruct (nth_error a (Z.to_nat i)) as [x|] eqn:E; [exists x; split; reflexivity|].
  apply nth_error_None in E. lia.
Qed.

Lemma idx_out_range {A} (a : list A) i : in_range a i = false -> Go.idx a i = Panic 1.
Proof.
  intros Hi. unfold in_range in Hi. unfold Go.idx, nth_res.
  destruct (i <? 0) eqn:Hneg; [reflexivity|].
  destruct (nth_error a (Z.to_nat i)) as [x|] eqn:E; [|reflexivity].
  assert (Hlt : (Z.to_nat i < length a)%nat) by (apply nth_error_Some; rewrite E; discriminate).
  lia.
Qed.

Lemma upd_in_range {A} (a : list A) i x :
  in_range a i = true -> Go.upd a i x = Ok (Go.set_at a (Z.to_nat i) x).
Proof.
  intros Hi. unfold in_range in Hi. unfold Go.upd.
  destruct ((i <? 0) || (Z.of_nat (length a) <=? i)) eqn:E; [lia|reflexivity].
Qed.

Lemma in_range_set_at {A} (a : list A) k x i : in_range (Go.set_at a k x) i = in_range a i.
Proof. unfold in_range. now rewrite set_at_length. Qed.

Lemma in_range_nat {A} (a : list A) (i : nat) : in_range a (Z.of_nat i) = true <-> (i < length a)%nat.
Proof. unfold in_range. lia. Qed.

(* ---------- swap ---------- *)
(* the list with the elements at positions i and j exchanged (the list itself when a position is outside) *)
Definition swap {A} (a : list A) (i j : nat) : list A :=
  match nth_error a i, nth_error a j with
  | Some x, Some y => Go.set_at (Go.set_at a i y) j x
  | _, _ => a
  end.

(* the transposition of i and j *)
Definition transp (i j k : nat) : nat := if (k =? i)%nat then j else if (k =? j)%nat then i else k.

Lemma transp_invol i j k : transp i j (transp i j k) = k.
Proof.
  unfold transp.
  destruct (Nat.eqb_spec k i) as [Hki|Hki]; [|destruct (Nat.eqb_spec k j) as [Hkj|Hkj]].
  - destruct (Nat.eqb_spec j i) as [Hji|Hji]; [lia|]. rewrite Nat.eqb_refl. lia.
  - rewrite Nat.eqb_refl. lia.
  - destruct (Nat.eqb_spec k i) as [H1|H1]; [lia|]. destruct (Nat.eqb_spec k j) as [H2|H2]; [lia|]. reflexivity.
Qed.

Lemma transp_inj i j : Injective (transp i j).
Proof. intros x y Hxy. rewrite <- (transp_invol i j x), Hxy. apply transp_invol. Qed.

Lemma nth_error_set_at {A} (a : list A) : forall i x k, (i < length a)%nat ->
  nth_error (Go.set_at a i x) k = if (k =? i)%nat then Some x else nth_error a k.
Proof.
  induction a as [|y a IH]; intros i x k Hi; [cbn [length] in Hi; lia|].
  destruct i as [|i]; destruct k as [|k]; cbn [Go.set_at nth_error Nat.eqb]; try reflexivity.
  apply IH. cbn [length] in Hi. lia.
Qed.

(* the specification of [swap]: the element at position k of the result is the one at position (i j) k *)
Lemma swap_nth_error {A} (a : list A) i j k : (i < length a)%nat -> (j < length a)%nat ->
  nth_error (swap a i j) k = nth_error a (transp i j k).
Proof.
  intros Hi Hj. unfold swap, transp.
  destruct (nth_error a i) as [x|] eqn:Ex; [|apply nth_error_None in Ex; lia].
  destruct (nth_error a j) as [y|] eqn:Ey; [|apply nth_error_None in Ey; lia].
  rewrite nth_error_set_at by (rewrite set_at_length; exact Hj).
  rewrite nth_error_set_at by exact Hi.
  destruct (Nat.eqb_spec k j) as [Hkj|Hkj]; destruct (Nat.eqb_spec k i) as [Hki|Hki]; subst; congruence.
Qed.

Lemma swap_length {A} (a : list A) i j : length (swap a i j) = length a.
Proof.
  unfold swap. destruct (nth_error a i); [|reflexivity]. destruct (nth_error a j); [|reflexivity].
  now rewrite !set_at_length.
Qed.

Lemma swap_outside {A} (a : list A) i j : (length a <= i)%nat \/ (length a <= j)%nat -> swap a i j = a.
Proof.
  intros H. unfold swap.
  destruct (nth_error a i) as [x|] eqn:Ex; [|reflexivity].
  destruct (nth_error a j) as [y|] eqn:Ey; [|reflexivity].
  assert ((i < length a)%nat) by (apply nth_error_Some; rewrite Ex; discriminate).
  assert ((j < length a)%nat) by (apply nth_error_Some; rewrite Ey; discriminate). lia.
Qed.

Lemma swap_perm {A} (a : list A) i j : Permutation a (swap a i j).
Proof.
  destruct (Nat.lt_ge_cases i (length a)) as [Hi|Hi]; [|rewrite swap_outside by (left; exact Hi); reflexivity].
  destruct (Nat.lt_ge_cases j (length a)) as [Hj|Hj]; [|rewrite swap_outside by (right; exact Hj); reflexivity].
  apply Permutation_nth_error. split; [now rewrite swap_length|].
  exists (transp i j). split; [apply transp_inj|]. intros k. now apply swap_nth_error.
Qed.

Lemma nth_error_eq {A} : forall (a b : list A), (forall k, nth_error a k = nth_error b k) -> a = b.
Proof.
  induction a as [|x a IH]; intros [|y b] H.
  - reflexivity.
  - specialize (H O). discriminate.
  - specialize (H O). discriminate.
  - pose proof (H O) as H0. cbn [nth_error] in H0. injection H0 as <-. f_equal.
    apply IH. intros k. exact (H (S k)).
Qed.

Lemma swap_same {A} (a : list A) i : swap a i i = a.
Proof.
  destruct (Nat.lt_ge_cases i (length a)) as [Hi|Hi]; [|apply swap_outside; left; exact Hi].
  apply nth_error_eq. intros k. rewrite swap_nth_error by exact Hi. unfold transp.
  destruct (Nat.eqb_spec k i) as [Hki|Hki]; [now subst|reflexivity].
Qed.

(* a[i], a[j] = a[j], a[i]  as the translator writes it *)
Definition gen_swap {A} (a : list A) (i j : Z) : res (list A) :=
  do t1_ <- Go.idx a j ;;
  do t2_ <- Go.idx a i ;;
  do a <- Go.upd a i t1_ ;;
  do a <- Go.upd a j t2_ ;;
  Ok a.

Definition swap_spec {A} (a : list A) (i j : Z) : res (list A) :=
  if in_range a i && in_range a j then Ok (swap a (Z.to_nat i) (Z.to_nat j)) else Panic 1.

Lemma gen_swap_spec {A} (a : list A) i j : gen_swap a i j = swap_spec a i j.
Proof.
  unfold gen_swap, swap_spec.
  destruct (in_range a j) eqn:Hj.
  - destruct (idx_in_range a j Hj) as (y & Ey & Iy). rewrite Iy. cbn [rbind].
    destruct (in_range a i) eqn:Hi.
    + destruct (idx_in_range a i Hi) as (x & Ex & Ix). rewrite Ix. cbn [rbind andb].
      rewrite (upd_in_range a i y Hi). cbn [rbind].
      rewrite upd_in_range by (rewrite in_range_set_at; exact Hj). cbn [rbind].
      unfold swap. rewrite Ex, Ey. reflexivity.
    + rewrite (idx_out_range a i Hi). reflexivity.
  - rewrite (idx_out_range a j Hj), andb_false_r. reflexivity.
Qed.

(* the three readings of [swap_spec] *)
Lemma swap_spec_ok {A} (a : list A) (i j : nat) : (i < length a)%nat -> (j < length a)%nat ->
  swap_spec a (Z.of_nat i) (Z.of_nat j) = Ok (swap a i j).
Proof.
  intros Hi Hj. unfold swap_spec.
  rewrite (proj2 (in_range_nat a i) Hi), (proj2 (in_range_nat a j) Hj), !Nat2Z.id. reflexivity.
Qed.

Lemma swap_spec_panic {A} (a : list A) i j :
  swap_spec a i j = Panic 1 <-> ~ (0 <= i < Z.of_nat (length a) /\ 0 <= j < Z.of_nat (length a)).
Proof.
  unfold swap_spec, in_range.
  destruct (((0 <=? i) && (i <? Z.of_nat (length a))) && ((0 <=? j) && (j <? Z.of_nat (length a)))) eqn:E.
  - split; [discriminate|]. intros Hn. exfalso. apply Hn. lia.
  - split; [|reflexivity]. intros _. lia.
Qed.

Lemma swap_spec_perm {A} (a a' : list A) i j :
  swap_spec a i j = Ok a' -> Permutation a a' /\ length a' = length a.
Proof.
  unfold swap_spec. destruct (in_range a i && in_range a j); [|discriminate].
  intros H. injection H as <-. split; [apply swap_perm|apply swap_length].
Qed.

(* ---------- less ---------- *)
(* a[i].key() < a[j].key()  as the translator writes it *)
Definition gen_less {A} (key : A -> Z) (a : list A) (i j : Z) : res bool :=
  do t1_ <- Go.idx a i ;;
  do t2_ <- Go.idx a j ;;
  Ok (key t1_ <? key t2_).

Definition less_spec {A} (key : A -> Z) (a : list A) (i j : Z) : res bool :=
  if in_range a i && in_range a j then
    match nth_error a (Z.to_nat i), nth_error a (Z.to_nat j) with
    | Some x, Some y => Ok (key x <? key y)
    | _, _ => Panic 1        (* not reached: the positions are in range *)
    end
  else Panic 1.

Lemma gen_less_spec {A} (key : A -> Z) (a : list A) i j : gen_less key a i j = less_spec key a i j.
Proof.
  unfold gen_less, less_spec.
  destruct (in_range a i) eqn:Hi.
  - destruct (idx_in_range a i Hi) as (x & Ex & Ix). rewrite Ix, Ex. cbn [rbind andb].
    destruct (in_range a j) eqn:Hj.
    + destruct (idx_in_range a j Hj) as (y & Ey & Iy). rewrite Iy, Ey. reflexivity.
    + rewrite (idx_out_range a j Hj). reflexivity.
  - rewrite (idx_out_range a i Hi). reflexivity.
Qed.

Lemma less_spec_ok {A} (key : A -> Z) (a : list A) (i j : nat) x y :
  nth_error a i = Some x -> nth_error a j = Some y ->
  less_spec key a (Z.of_nat i) (Z.of_nat j) = Ok (key x <? key y).
Proof.
  intros Ex Ey. unfold less_spec.
  assert (Hi : (i < length a)%nat) by (apply nth_error_Some; rewrite Ex; discriminate).
  assert (Hj : (j < length a)%nat) by (apply nth_error_Some; rewrite Ey; discriminate).
  rewrite (proj2 (in_range_nat a i) Hi), (proj2 (in_range_nat a j) Hj), !Nat2Z.id, Ex, Ey. reflexivity.
Qed.

Lemma less_spec_panic {A} (key : A -> Z) (a : list A) i j :
  less_spec key a i j = Panic 1 <-> ~ (0 <= i < Z.of_nat (length a) /\ 0 <= j < Z.of_nat (length a)).
Proof.
  unfold less_spec.
  destruct (in_range a i) eqn:Hi; [destruct (in_range a j) eqn:Hj|]; cbn [andb].
  - destruct (idx_in_range a i Hi) as (x & Ex & _). destruct (idx_in_range a j Hj) as (y & Ey & _).
    rewrite Ex, Ey. unfold in_range in Hi, Hj. split; [discriminate|]. intros Hn. exfalso. apply Hn. lia.
  - unfold in_range in Hj. split; [|reflexivity]. intros _. lia.
  - unfold in_range in Hi. split; [|reflexivity]. intros _. lia.
Qed.

(* in range, Less is the strict order [<] on the keys ... *)
Lemma less_spec_true {A} (key : A -> Z) (a : list A) i j :
  less_spec key a i j = Ok true <->
  exists x y, 0 <= i /\ 0 <= j /\ nth_error a (Z.to_nat i) = Some x /\ nth_error a (Z.to_nat j) = Some y /\ key x < key y.
Proof.
  unfold less_spec. split.
  - destruct (in_range a i) eqn:Hi; [|discriminate]. destruct (in_range a j) eqn:Hj; [|discriminate]. cbn [andb].
    destruct (nth_error a (Z.to_nat i)) as [x|]; [|discriminate].
    destruct (nth_error a (Z.to_nat j)) as [y|]; [|discriminate].
    intros H. injection H as H. exists x, y. unfold in_range in Hi, Hj. repeat split; try lia.
  - intros (x & y & Hi0 & Hj0 & Ex & Ey & Hlt).
    assert (Hi : (Z.to_nat i < length a)%nat) by (apply nth_error_Some; rewrite Ex; discriminate).
    assert (Hj : (Z.to_nat j < length a)%nat) by (apply nth_error_Some; rewrite Ey; discriminate).
    replace (in_range a i) with true by (unfold in_range; lia).
    replace (in_range a j) with true by (unfold in_range; lia).
    cbn [andb]. rewrite Ex, Ey. f_equal. lia.
Qed.

(* ... hence irreflexive, transitive, asymmetric and negatively transitive on the positions: what sort.Sort needs *)
Lemma less_spec_irrefl {A} (key : A -> Z) (a : list A) i : less_spec key a i i <> Ok true.
Proof.
  intros H. apply less_spec_true in H. destruct H as (x & y & _ & _ & Ex & Ey & Hlt).
  rewrite Ex in Ey. injection Ey as <-. lia.
Qed.

Lemma less_spec_trans {A} (key : A -> Z) (a : list A) i j k :
  less_spec key a i j = Ok true -> less_spec key a j k = Ok true -> less_spec key a i k = Ok true.
Proof.
  intros H1 H2. apply less_spec_true in H1. apply less_spec_true in H2. apply less_spec_true.
  destruct H1 as (x & y & Hi & Hj & Ex & Ey & Hxy). destruct H2 as (y' & z & _ & Hk & Ey' & Ez & Hyz).
  rewrite Ey in Ey'. injection Ey' as <-. exists x, z. repeat split; try assumption. lia.
Qed.

Lemma less_spec_asym {A} (key : A -> Z) (a : list A) i j :
  less_spec key a i j = Ok true -> less_spec key a j i = Ok false.
Proof.
  intros H. apply less_spec_true in H. destruct H as (x & y & Hi & Hj & Ex & Ey & Hxy).
  assert (Hi' : (Z.to_nat i < length a)%nat) by (apply nth_error_Some; rewrite Ex; discriminate).
  assert (Hj' : (Z.to_nat j < length a)%nat) by (apply nth_error_Some; rewrite Ey; discriminate).
  unfold less_spec.
  replace (in_range a i) with true by (unfold in_range; lia).
  replace (in_range a j) with true by (unfold in_range; lia).
  cbn [andb]. rewrite Ex, Ey. f_equal. lia.
Qed.

Lemma less_spec_negtrans {A} (key : A -> Z) (a : list A) i j k :
  less_spec key a i j = Ok false -> less_spec key a j k = Ok false -> less_spec key a i k = Ok false.
Proof.
  unfold less_spec.
  destruct (in_range a i); [|discriminate]. destruct (in_range a j); [|discriminate].
  destruct (in_range a k); [|discriminate]. cbn [andb].
  destruct (nth_error a (Z.to_nat i)) as [x|]; [|discriminate].
  destruct (nth_error a (Z.to_nat j)) as [y|]; [|discriminate].
  destruct (nth_error a (Z.to_nat k)) as [z|]; [|discriminate].
  intros H1 H2. injection H1 as H1. injection H2 as H2. f_equal. lia.
Qed.

(* ================= 2. coinset: byValueAge / byAmount ================= *)
Theorem byValueAge_Len_tie (Coin_t : Type) (a : list Coin_t) :
  Kernels4.byValueAge_Len Coin_t a = Z.of_nat (length a).
Proof. reflexivity. Qed.
Print Assumptions byValueAge_Len_tie.

Theorem byAmount_Len_tie (Coin_t : Type) (a : list Coin_t) :
  Kernels4.byAmount_Len Coin_t a = Z.of_nat (length a).
Proof. reflexivity. Qed.
Print Assumptions byAmount_Len_tie.

Theorem byValueAge_Swap_tie (Coin_t : Type) (a : list Coin_t) (i j : Z) :
  Kernels4.byValueAge_Swap Coin_t a i j = swap_spec a i j.
Proof. exact (gen_swap_spec a i j). Qed.
Print Assumptions byValueAge_Swap_tie.

Theorem byAmount_Swap_tie (Coin_t : Type) (a : list Coin_t) (i j : Z) :
  Kernels4.byAmount_Swap Coin_t a i j = swap_spec a i j.
Proof. exact (gen_swap_spec a i j). Qed.
Print Assumptions byAmount_Swap_tie.

Theorem byValueAge_Less_tie (Coin_t : Type) (Coin_ValueAge : Coin_t -> Z) (a : list Coin_t) (i j : Z) :
  Kernels4.byValueAge_Less Coin_t Coin_ValueAge a i j = less_spec Coin_ValueAge a i j.
Proof. exact (gen_less_spec Coin_ValueAge a i j). Qed.
Print Assumptions byValueAge_Less_tie.

Theorem byAmount_Less_tie (Coin_t : Type) (Coin_Value : Coin_t -> Z) (a : list Coin_t) (i j : Z) :
  Kernels4.byAmount_Less Coin_t Coin_Value a i j = less_spec Coin_Value a i j.
Proof. exact (gen_less_spec Coin_Value a i j). Qed.
Print Assumptions byAmount_Less_tie.

(* against the model, for the instantiation of Tie/Kernels3_CoinSet.v (Coin_t := option coin, Coin.Value := c_value,
   Coin.ValueAge := c_valueage, a slice of non-nil coins = map Some l): the model's less_amt / less_va w64 of the
   two elements; Panic 1 exactly when an index is out of range *)
Definition model_less (less : coin -> coin -> bool) (l : list coin) (i j : Z) : res bool :=
  if in_range l i && in_range l j then
    match nth_error l (Z.to_nat i), nth_error l (Z.to_nat j) with
    | Some x, Some y => Ok (less x y)
    | _, _ => Panic 1
    end
  else Panic 1.

Lemma less_spec_map_some (key : option coin -> Z) (l : list coin) i j :
  less_spec key (map Some l) i j = model_less (fun x y => key (Some x) <? key (Some y)) l i j.
Proof.
  unfold less_spec, model_less, in_range. rewrite map_length, !nth_error_map.
  destruct (nth_error l (Z.to_nat i)); destruct (nth_error l (Z.to_nat j)); reflexivity.
Qed.

Theorem byAmount_Less_model_tie (l : list coin) (i j : Z) :
  Kernels4.byAmount_Less (option coin) c_value (map Some l) i j = model_less less_amt l i j.
Proof. rewrite byAmount_Less_tie. apply less_spec_map_some. Qed.
Print Assumptions byAmount_Less_model_tie.

Theorem byValueAge_Less_model_tie (l : list coin) (i j : Z) :
  Kernels4.byValueAge_Less (option coin) c_valueage (map Some l) i j = model_less (less_va w64) l i j.
Proof. rewrite byValueAge_Less_tie. apply less_spec_map_some. Qed.
Print Assumptions byValueAge_Less_model_tie.

(* ================= 3. coinset: SimpleCoin ================= *)
Section SimpleCoin.
Variable TokenData_t Tx_t : Type.
Variable Tx_Hash : Tx_t -> option (list N).
Variable Tx_MsgTx : Tx_t -> option (Kernels3.wire_MsgTx TokenData_t).

Notation SC := (Kernels4.coinset_SimpleCoin Tx_t).
Notation TxOut := (Kernels3.wire_TxOut TokenData_t).
Notation sc_tx := (Kernels4.coinset_SimpleCoin_Tx Tx_t).
Notation sc_index := (Kernels4.coinset_SimpleCoin_TxIndex Tx_t).
Notation sc_confs := (Kernels4.coinset_SimpleCoin_TxNumConfs Tx_t).

(* c.Tx.MsgTx().TxOut[c.TxIndex] : a pointer (possibly nil) *)
Definition txOut_spec (c : SC) : res (option TxOut) :=
  match Tx_MsgTx (sc_tx c) with
  | None => Panic 5                                             (* nil MsgTx pointer *)
  | Some m =>
      match nth_error (Kernels3.wire_MsgTx_TxOut TokenData_t m) (N.to_nat (sc_index c)) with
      | None => Panic 1                                         (* TxIndex out of range *)
      | Some p => Ok p
      end
  end.

(* the output the coin stands for: the pointee *)
Definition out_spec (c : SC) : res TxOut :=
  match txOut_spec c with
  | Ok (Some o) => Ok o
  | Ok None => Panic 5                                          (* nil TxOut element *)
  | Err e => Err e
  | Panic p => Panic p
  end.

Definition res_map {X Y} (f : X -> Y) (r : res X) : res Y :=
  match r with Ok x => Ok (f x) | Err e => Err e | Panic p => Panic p end.

Theorem SimpleCoin_Hash_tie (c : SC) : Kernels4.SimpleCoin_Hash Tx_t Tx_Hash c = Tx_Hash (sc_tx c).
Proof using. reflexivity. Qed.

Theorem SimpleCoin_Index_tie (c : SC) : Kernels4.SimpleCoin_Index Tx_t c = sc_index c.
Proof using. reflexivity. Qed.

Theorem SimpleCoin_NumConfs_tie (c : SC) : Kernels4.SimpleCoin_NumConfs Tx_t c = sc_confs c.
Proof using. reflexivity. Qed.

Theorem SimpleCoin_txOut_tie (c : SC) : Kernels4.SimpleCoin_txOut TokenData_t Tx_t Tx_MsgTx c = txOut_spec c.
Proof using.
  unfold Kernels4.SimpleCoin_txOut, txOut_spec.
  destruct (Tx_MsgTx (sc_tx c)) as [m|]; [|reflexivity]. cbn [Go3.deref rbind].
  rewrite idx_N. unfold nth_res.
  destruct (nth_error (Kernels3.wire_MsgTx_TxOut TokenData_t m) (N.to_nat (sc_index c))); reflexivity.
Qed.

Theorem SimpleCoin_Value_tie (c : SC) :
  Kernels4.SimpleCoin_Value TokenData_t Tx_t Tx_MsgTx c = res_map (Kernels3.wire_TxOut_Value TokenData_t) (out_spec c).
Proof using.
  unfold Kernels4.SimpleCoin_Value, out_spec. rewrite SimpleCoin_txOut_tie.
  destruct (txOut_spec c) as [[o|]|e|p]; reflexivity.
Qed.

Theorem SimpleCoin_PkScript_tie (c : SC) :
  Kernels4.SimpleCoin_PkScript TokenData_t Tx_t Tx_MsgTx c
  = res_map (Kernels3.wire_TxOut_PkScript TokenData_t) (out_spec c).
Proof using.
  unfold Kernels4.SimpleCoin_PkScript, out_spec. rewrite SimpleCoin_txOut_tie.
  destruct (txOut_spec c) as [[o|]|e|p]; reflexivity.
Qed.

Theorem SimpleCoin_ValueAge_tie (c : SC) :
  Kernels4.SimpleCoin_ValueAge TokenData_t Tx_t Tx_MsgTx c
  = res_map (fun o => Go.wrapZ 64 (sc_confs c * Kernels3.wire_TxOut_Value TokenData_t o)) (out_spec c).
Proof using.
  unfold Kernels4.SimpleCoin_ValueAge. rewrite SimpleCoin_Value_tie.
  destruct (out_spec c) as [o|e|p]; reflexivity.
Qed.

(* the panic conditions of [out_spec], spelled out *)
Lemma out_spec_cases (c : SC) :
  match Tx_MsgTx (sc_tx c) with
  | None => out_spec c = Panic 5
  | Some m =>
      let outs := Kernels3.wire_MsgTx_TxOut TokenData_t m in
      if Z.of_N (sc_index c) <? Z.of_nat (length outs) then
        match nth (N.to_nat (sc_index c)) outs None with
        | None => out_spec c = Panic 5
        | Some o => out_spec c = Ok o
        end
      else out_spec c = Panic 1
  end.
Proof using.
  unfold out_spec, txOut_spec.
  destruct (Tx_MsgTx (sc_tx c)) as [m|]; [|reflexivity]. cbv zeta.
  set (outs := Kernels3.wire_MsgTx_TxOut TokenData_t m).
  destruct (Z.of_N (sc_index c) <? Z.of_nat (length outs)) eqn:Hlt.
  - destruct (nth_error outs (N.to_nat (sc_index c))) as [p|] eqn:E.
    + rewrite (nth_error_nth _ _ None E). destruct p; reflexivity.
    + apply nth_error_None in E. lia.
  - destruct (nth_error outs (N.to_nat (sc_index c))) as [p|] eqn:E; [|reflexivity].
    assert ((N.to_nat (sc_index c) < length outs)%nat) by (apply nth_error_Some; rewrite E; discriminate). lia.
Qed.

(* against the model: a SimpleCoin whose output exists is the model coin (id, Value, TxNumConfs) for ANY id
   (the model's id stands for the outpoint, which Value / NumConfs / ValueAge never read) *)
Definition model_coin (id : N) (c : SC) (o : TxOut) : coin :=
  mkCoin id (Kernels3.wire_TxOut_Value TokenData_t o) (sc_confs c).

Theorem SimpleCoin_Value_model_tie (id : N) (c : SC) (o : TxOut) : out_spec c = Ok o ->
  Kernels4.SimpleCoin_Value TokenData_t Tx_t Tx_MsgTx c = Ok (cval (model_coin id c o)).
Proof using. intros H. rewrite SimpleCoin_Value_tie, H. reflexivity. Qed.

Theorem SimpleCoin_NumConfs_model_tie (id : N) (c : SC) (o : TxOut) :
  Kernels4.SimpleCoin_NumConfs Tx_t c = cconfs (model_coin id c o).
Proof using. reflexivity. Qed.

Theorem SimpleCoin_ValueAge_model_tie (id : N) (c : SC) (o : TxOut) : out_spec c = Ok o ->
  Kernels4.SimpleCoin_ValueAge TokenData_t Tx_t Tx_MsgTx c = Ok (va w64 (model_coin id c o)).
Proof using. intros H. rewrite SimpleCoin_ValueAge_tie, H. reflexivity. Qed.

(* and when the output does not exist, Value / ValueAge panic as [out_spec] does *)
Theorem SimpleCoin_Value_model_panic (c : SC) p : out_spec c = Panic p ->
  Kernels4.SimpleCoin_Value TokenData_t Tx_t Tx_MsgTx c = Panic p
  /\ Kernels4.SimpleCoin_ValueAge TokenData_t Tx_t Tx_MsgTx c = Panic p.
Proof using. intros H. rewrite SimpleCoin_ValueAge_tie, SimpleCoin_Value_tie, H. split; reflexivity. Qed.

End SimpleCoin.
Print Assumptions SimpleCoin_Hash_tie.
Print Assumptions SimpleCoin_Index_tie.
Print Assumptions SimpleCoin_NumConfs_tie.
Print Assumptions SimpleCoin_txOut_tie.
Print Assumptions SimpleCoin_Value_tie.
Print Assumptions SimpleCoin_PkScript_tie.
Print Assumptions SimpleCoin_ValueAge_tie.
Print Assumptions SimpleCoin_Value_model_tie.
Print Assumptions SimpleCoin_NumConfs_model_tie.
Print Assumptions SimpleCoin_ValueAge_model_tie.
Print Assumptions SimpleCoin_Value_model_panic.

(* ================= 4. txsort: Len / Swap ================= *)
Theorem sortableInputSlice_Len_tie (s : list (option Kernels3.wire_TxIn)) :
  Kernels4.sortableInputSlice_Len s = Z.of_nat (length s).
Proof. reflexivity. Qed.
Print Assumptions sortableInputSlice_Len_tie.

Theorem sortableInputSlice_Swap_tie (s : list (option Kernels3.wire_TxIn)) (i j : Z) :
  Kernels4.sortableInputSlice_Swap s i j = swap_spec s i j.
Proof. exact (gen_swap_spec s i j). Qed.
Print Assumptions sortableInputSlice_Swap_tie.

Theorem sortableOutputSlice_Len_tie (T : Type) (s : list (option (Kernels3.wire_TxOut T))) :
  Kernels4.sortableOutputSlice_Len T s = Z.of_nat (length s).
Proof. reflexivity. Qed.
Print Assumptions sortableOutputSlice_Len_tie.

Theorem sortableOutputSlice_Swap_tie (T : Type) (s : list (option (Kernels3.wire_TxOut T))) (i j : Z) :
  Kernels4.sortableOutputSlice_Swap T s i j = swap_spec s i j.
Proof. exact (gen_swap_spec s i j). Qed.
Print Assumptions sortableOutputSlice_Swap_tie.

(* ================= 5. "sorted w.r.t. the GENERATED Less" and the orders of the models =================
   Tie/Kernels3_CoinSet*.v and Tie/Kernels3_TxSort.v take sort.Sort / sort.IsSorted as Section variables with
   hypotheses phrased with the MODEL's orders (less_amt, less_va w64, in_less, out_less).  Here the same facts are
   phrased with the generated Less methods:
     [gen_is_sorted Less a]   what sort.IsSorted(a) checks: no Less(i, i-1) for 0 < i < len(a)
     [rev_Less Less]          the Less of sort.Reverse(a):  Less(j, i)
     [sort_post Less a a']    what sort.Sort promises: a' is a permutation of a, sorted w.r.t. Less
   and shown equivalent to the model-level statements. *)
Definition adj_sorted (n : nat) (Less : Z -> Z -> res bool) : Prop :=
  forall i, 0 < i < Z.of_nat n -> Less i (i - 1) = Ok false.
Definition gen_is_sorted {A} (Less : list A -> Z -> Z -> res bool) (a : list A) : Prop :=
  adj_sorted (length a) (Less a).
Definition rev_Less {A} (Less : list A -> Z -> Z -> res bool) (a : list A) (i j : Z) : res bool := Less a j i.
Definition sort_post {A} (Less : list A -> Z -> Z -> res bool) (a a' : list A) : Prop :=
  Permutation a' a /\ gen_is_sorted Less a'.

(* TxSort.go_is_sorted, position by position *)
Lemma go_is_sorted_adj {A} (less : A -> A -> bool) (l : list A) :
  TxSort.go_is_sorted less l = true <->
  (forall i x y, nth_error l i = Some x -> nth_error l (S i) = Some y -> less y x = false).
Proof.
  induction l as [|a [|b t] IH].
  - split; [|reflexivity]. intros _ [|i] x y Hx; discriminate.
  - split; [|reflexivity]. intros _ [|i] x y Hx Hy; [discriminate|destruct i; discriminate].
  - change (TxSort.go_is_sorted less (a :: b :: t)) with (negb (less b a) && TxSort.go_is_sorted less (b :: t))%bool.
    rewrite andb_true_iff, IH, negb_true_iff. split.
    + intros [Hba Ht] [|i] x y Hx Hy.
      * cbn [nth_error] in Hx, Hy. injection Hx as <-. injection Hy as <-. exact Hba.
      * exact (Ht i x y Hx Hy).
    + intros H. split; [exact (H O a b eq_refl eq_refl)|]. intros i x y Hx Hy. exact (H (S i) x y Hx Hy).
Qed.

(* a Less that, on the positions of [a], compares the [f]-images of the elements with [less] *)
Lemma adj_sorted_iff {A B} (P : A -> Prop) (f : A -> B) (less : B -> B -> bool) (Less : Z -> Z -> res bool) (a : list A) :
  Forall P a ->
  (forall i j x y, nth_error a i = Some x -> nth_error a j = Some y -> P x -> P y ->
     Less (Z.of_nat i) (Z.of_nat j) = Ok (less (f x) (f y))) ->
  (adj_sorted (length a) Less <-> TxSort.go_is_sorted less (map f a) = true).
Proof.
  intros HP HLess. rewrite Forall_forall in HP. rewrite go_is_sorted_adj. unfold adj_sorted. split.
  - intros H i x y Hx Hy. rewrite nth_error_map in Hx, Hy.
    destruct (nth_error a i) as [x0|] eqn:Ex; [|discriminate].
    destruct (nth_error a (S i)) as [y0|] eqn:Ey; [|discriminate].
    cbn [option_map] in Hx, Hy. injection Hx as <-. injection Hy as <-.
    assert (Hlt : (S i < length a)%nat) by (apply nth_error_Some; rewrite Ey; discriminate).
    specialize (H (Z.of_nat (S i))). replace (Z.of_nat (S i) - 1) with (Z.of_nat i) in H by lia.
    rewrite (HLess (S i) i y0 x0 Ey Ex) in H
      by (apply HP; eapply nth_error_In; eassumption).
    assert (Hr : Ok (less (f y0) (f x0)) = Ok false) by (apply H; lia). now injection Hr.
  - intros H i Hi.
    destruct (nth_error a (Z.to_nat (i - 1))) as [x0|] eqn:Ex; [|apply nth_error_None in Ex; lia].
    destruct (nth_error a (S (Z.to_nat (i - 1)))) as [y0|] eqn:Ey; [|apply nth_error_None in Ey; lia].
    replace i with (Z.of_nat (S (Z.to_nat (i - 1)))) at 1 by lia.
    replace (i - 1) with (Z.of_nat (Z.to_nat (i - 1))) at 2 by lia.
    rewrite (HLess _ _ y0 x0 Ey Ex) by (apply HP; eapply nth_error_In; eassumption).
    f_equal. apply (H (Z.to_nat (i - 1))); rewrite nth_error_map; [rewrite Ex|rewrite Ey]; reflexivity.
Qed.

(* ---------- coinset ---------- *)
Lemma model_less_ok (less : coin -> coin -> bool) (l : list coin) (i j : nat) x y :
  nth_error l i = Some x -> nth_error l j = Some y -> model_less less l (Z.of_nat i) (Z.of_nat j) = Ok (less x y).
Proof.
  intros Ex Ey. unfold model_less.
  assert (Hi : (i < length l)%nat) by (apply nth_error_Some; rewrite Ex; discriminate).
  assert (Hj : (j < length l)%nat) by (apply nth_error_Some; rewrite Ey; discriminate).
  rewrite (proj2 (in_range_nat l i) Hi), (proj2 (in_range_nat l j) Hj), !Nat2Z.id, Ex, Ey. reflexivity.
Qed.

Lemma model_less_reverse (less : coin -> coin -> bool) (l : list coin) i j :
  model_less (reverse less) l i j = model_less less l j i.
Proof.
  unfold model_less, reverse. rewrite (andb_comm (in_range l i)).
  destruct (nth_error l (Z.to_nat i)); destruct (nth_error l (Z.to_nat j)); reflexivity.
Qed.

(* CoinSetProofs.sorted_by is go_is_sorted when Less is a strict weak order *)
Lemma sorted_by_go (less : coin -> coin -> bool) (l : list coin) :
  swo less -> (sorted_by less l <-> TxSort.go_is_sorted less l = true).
Proof.
  intros [Hasym Hnt]. unfold sorted_by. split.
  - intros Hs. induction Hs as [|a t Ht IH Ha]; [reflexivity|].
    destruct t as [|b u]; [reflexivity|].
    change (TxSort.go_is_sorted less (a :: b :: u)) with (negb (less b a) && TxSort.go_is_sorted less (b :: u))%bool.
    rewrite IH. inversion Ha as [|? ? Hba _]; subst. now rewrite Hba.
  - induction l as [|a [|b u] IH]; intros Hg.
    + constructor.
    + constructor; constructor.
    + change (TxSort.go_is_sorted less (a :: b :: u)) with (negb (less b a) && TxSort.go_is_sorted less (b :: u))%bool in Hg.
      apply andb_true_iff in Hg. destruct Hg as [Hba Hg]. apply negb_true_iff in Hba.
      specialize (IH Hg). constructor; [exact IH|].
      constructor; [exact Hba|].
      inversion IH as [|? ? _ Hb]; subst. rewrite Forall_forall in Hb. apply Forall_forall.
      intros z Hz. exact (Hnt a b z Hba (Hb z Hz)).
Qed.

Lemma gen_sorted_model (less : coin -> coin -> bool) (Less : list (option coin) -> Z -> Z -> res bool) (l : list coin) :
  swo less -> (forall i j, Less (map Some l) i j = model_less less l i j) ->
  (gen_is_sorted Less (map Some l) <-> sorted_by less l).
Proof.
  intros Hswo HLess. rewrite (sorted_by_go less l Hswo). unfold gen_is_sorted. rewrite map_length.
  rewrite <- (map_id l) at 3.
  apply (adj_sorted_iff (fun _ => True) (fun c => c) less).
  - apply Forall_forall. intros; exact I.
  - intros i j x y Ex Ey _ _. rewrite HLess. now apply model_less_ok.
Qed.

Theorem byAmount_sorted_iff (l : list coin) :
  gen_is_sorted (Kernels4.byAmount_Less (option coin) c_value) (map Some l) <-> sorted_by less_amt l.
Proof. apply gen_sorted_model; [apply swo_key|]. intros i j. apply byAmount_Less_model_tie. Qed.
Print Assumptions byAmount_sorted_iff.

Theorem byValueAge_sorted_iff (l : list coin) :
  gen_is_sorted (Kernels4.byValueAge_Less (option coin) c_valueage) (map Some l) <-> sorted_by (less_va w64) l.
Proof. apply gen_sorted_model; [apply swo_key|]. intros i j. apply byValueAge_Less_model_tie. Qed.
Print Assumptions byValueAge_sorted_iff.

(* sort.Reverse(byAmount(x)) / sort.Reverse(byValueAge(x)): the orders of MinNumber / MaxValueAge *)
Theorem byAmount_rev_sorted_iff (l : list coin) :
  gen_is_sorted (rev_Less (Kernels4.byAmount_Less (option coin) c_value)) (map Some l)
  <-> sorted_by (reverse less_amt) l.
Proof.
  apply gen_sorted_model; [apply swo_key_rev|]. intros i j. unfold rev_Less.
  rewrite byAmount_Less_model_tie. symmetry. apply model_less_reverse.
Qed.
Print Assumptions byAmount_rev_sorted_iff.

Theorem byValueAge_rev_sorted_iff (l : list coin) :
  gen_is_sorted (rev_Less (Kernels4.byValueAge_Less (option coin) c_valueage)) (map Some l)
  <-> sorted_by (reverse (less_va w64)) l.
Proof.
  apply gen_sorted_model; [apply swo_key_rev|]. intros i j. unfold rev_Less.
  rewrite byValueAge_Less_model_tie. symmetry. apply model_less_reverse.
Qed.
Print Assumptions byValueAge_rev_sorted_iff.

(* If sort.Sort meets its contract for a GENERATED Less whose sortedness is the model's [sorted_by less], then on a
   slice of non-nil coins it returns non-nil coins l' with exactly the two facts CoinSetProofs.sort_spec gives about
   [sort_by less l] (a permutation, sorted_by less) - and the same length (Hlen of Tie/Kernels3_CoinSet.v).
   Used with the four theorems above: Less := byAmount_Less / byValueAge_Less or their rev_Less. *)
Lemma perm_map_some (l l' : list coin) : Permutation (map Some l') (map Some l) <-> Permutation l' l.
Proof.
  split; [|apply Permutation_map].
  intros H. apply (Permutation_map (fun o => match o with Some c => c | None => mkCoin 0 0 0 end)) in H.
  rewrite !map_map, !map_id in H. exact H.
Qed.

Theorem sort_post_model (less : coin -> coin -> bool) (Less : list (option coin) -> Z -> Z -> res bool)
    (srt : list (option coin) -> list (option coin)) :
  (forall l, gen_is_sorted Less (map Some l) <-> sorted_by less l) ->
  (forall a, sort_post Less a (srt a)) ->
  forall l, exists l', srt (map Some l) = map Some l' /\ Permutation l' l /\ sorted_by less l' /\ length l' = length l.
Proof.
  intros Hiff Hsort l. destruct (Hsort (map Some l)) as [Hperm Hsorted].
  destruct (Permutation_map_inv _ _ Hperm) as (l' & El' & Hp). exists l'.
  rewrite El' in Hsorted. apply Hiff in Hsorted.
  repeat split; [exact El' | symmetry; exact Hp | exact Hsorted | symmetry; apply Permutation_length, Hp].
Qed.
Print Assumptions sort_post_model.

(* ---------- txsort ----------
   Kernels2.sortableInputSlice_Less / sortableOutputSlice_Less take the fields of s[i], s[j] as parameters (the
   translation ASSUMED the indices in range and the pointers non-nil); [in_Less] / [out_Less] are the list-level
   methods with that assumption replaced by the checks of the Go code. *)
Definition in_Less (s : list (option Kernels3.wire_TxIn)) (i j : Z) : res bool :=
  do pi_ <- Go.idx s i ;;
  do pj_ <- Go.idx s j ;;
  do ti_ <- Go3.deref pi_ ;;
  do tj_ <- Go3.deref pj_ ;;
  Kernels2.sortableInputSlice_Less
    (Kernels3.wire_OutPoint_Hash (Kernels3.wire_TxIn_PreviousOutPoint ti_))
    (Kernels3.wire_OutPoint_Hash (Kernels3.wire_TxIn_PreviousOutPoint tj_))
    (Kernels3.wire_OutPoint_Index (Kernels3.wire_TxIn_PreviousOutPoint ti_))
    (Kernels3.wire_OutPoint_Index (Kernels3.wire_TxIn_PreviousOutPoint tj_)) i j.

Definition out_Less (T : Type) (s : list (option (Kernels3.wire_TxOut T))) (i j : Z) : res bool :=
  do pi_ <- Go.idx s i ;;
  do pj_ <- Go.idx s j ;;
  do ti_ <- Go3.deref pi_ ;;
  do tj_ <- Go3.deref pj_ ;;
  Ok (Kernels2.sortableOutputSlice_Less (Kernels3.wire_TxOut_Value T ti_) (Kernels3.wire_TxOut_Value T tj_)
        (Kernels3.wire_TxOut_PkScript T ti_) (Kernels3.wire_TxOut_PkScript T tj_) i j).

(* a non-nil *TxIn whose outpoint hash is a [32]byte *)
Definition wf_inp (p : option Kernels3.wire_TxIn) : Prop :=
  match p with
  | Some t => length (Kernels3.wire_OutPoint_Hash (Kernels3.wire_TxIn_PreviousOutPoint t)) = TxSort.hash_size
  | None => False
  end.

Theorem in_Less_model_tie (enc_in : list N -> N -> N) (s : list (option Kernels3.wire_TxIn)) (i j : nat) p q :
  nth_error s i = Some p -> nth_error s j = Some q -> wf_inp p -> wf_inp q ->
  in_Less s (Z.of_nat i) (Z.of_nat j)
  = Ok (TxSort.in_less (Kernels3_TxSort.abs_in enc_in p) (Kernels3_TxSort.abs_in enc_in q)).
Proof.
  intros Ep Eq Hp Hq. unfold in_Less. rewrite (idx_ok _ _ _ Ep), (idx_ok _ _ _ Eq). cbn [rbind].
  destruct p as [x|]; [|contradiction]. destruct q as [y|]; [|contradiction]. cbn [Go3.deref rbind].
  exact (Kernels2_Misc.sortableInputSlice_Less_tie (Kernels3_TxSort.abs_in enc_in (Some x))
           (Kernels3_TxSort.abs_in enc_in (Some y)) (Z.of_nat i) (Z.of_nat j) Hp Hq).
Qed.
Print Assumptions in_Less_model_tie.

Theorem out_Less_model_tie (T : Type) (enc_out : T -> N) (s : list (option (Kernels3.wire_TxOut T))) (i j : nat) p q :
  nth_error s i = Some p -> nth_error s j = Some q -> p <> None -> q <> None ->
  out_Less T s (Z.of_nat i) (Z.of_nat j)
  = Ok (TxSort.out_less (Kernels3_TxSort.abs_out T enc_out p) (Kernels3_TxSort.abs_out T enc_out q)).
Proof.
  intros Ep Eq Hp Hq. unfold out_Less. rewrite (idx_ok _ _ _ Ep), (idx_ok _ _ _ Eq). cbn [rbind].
  destruct p as [x|]; [|congruence]. destruct q as [y|]; [|congruence]. cbn [Go3.deref rbind]. apply f_equal.
  exact (Kernels2_Misc.sortableOutputSlice_Less_tie (Kernels3_TxSort.abs_out T enc_out (Some x))
           (Kernels3_TxSort.abs_out T enc_out (Some y)) (Z.of_nat i) (Z.of_nat j)).
Qed.
Print Assumptions out_Less_model_tie.

(* nil pointers and indices out of range: the panics of the Go code *)
Lemma in_Less_panic (s : list (option Kernels3.wire_TxIn)) i j :
  in_range s i && in_range s j = false -> in_Less s i j = Panic 1.
Proof.
  intros H. unfold in_Less. destruct (in_range s i) eqn:Hi.
  - destruct (idx_in_range s i Hi) as (x & _ & Ix). rewrite Ix. cbn [rbind andb] in *.
    rewrite (idx_out_range s j H). reflexivity.
  - rewrite (idx_out_range s i Hi). reflexivity.
Qed.

(* sort.IsSorted with the generated Less = the model's go_is_sorted on the abstractions: the right-hand sides of
   HisIn / HisOut of Tie/Kernels3_TxSort.v (and the sortedness half of HsIn / HsOut through TxSort.sort_contract) *)
Theorem in_sorted_iff (enc_in : list N -> N -> N) (s : list (option Kernels3.wire_TxIn)) :
  Forall wf_inp s ->
  (gen_is_sorted in_Less s <-> TxSort.go_is_sorted TxSort.in_less (map (Kernels3_TxSort.abs_in enc_in) s) = true).
Proof.
  intros Hwf. unfold gen_is_sorted.
  apply (adj_sorted_iff wf_inp (Kernels3_TxSort.abs_in enc_in) TxSort.in_less (in_Less s) s Hwf).
  intros i j x y Ex Ey Hx Hy. now apply in_Less_model_tie.
Qed.
Print Assumptions in_sorted_iff.

Theorem out_sorted_iff (T : Type) (enc_out : T -> N) (s : list (option (Kernels3.wire_TxOut T))) :
  Kernels3_TxSort.nonnil s ->
  (gen_is_sorted (out_Less T) s
   <-> TxSort.go_is_sorted TxSort.out_less (map (Kernels3_TxSort.abs_out T enc_out) s) = true).
Proof.
  intros Hnn. unfold gen_is_sorted.
  apply (adj_sorted_iff (fun p => p <> None) (Kernels3_TxSort.abs_out T enc_out) TxSort.out_less (out_Less T s) s Hnn).
  intros i j x y Ex Ey Hx Hy. now apply out_Less_model_tie.
Qed.
Print Assumptions out_sorted_iff.

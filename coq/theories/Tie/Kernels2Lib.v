(* Lemmas about the combinators of the prelude of Gen/Kernels2.v (module Go), shared by the
   Tie/Kernels2_*.v files. *)
From BU Require Import Lib.Bytes Gen.Kernels2.
From Coq Require Import ZifyBool ZifyN ZifyNat.

(* ---------- idx / upd / slice / make ---------- *)
Lemma idx_nat {A} (l : list A) (i : nat) :
  Go.idx l (Z.of_nat i) = nth_res l i.
Proof.
  unfold Go.idx. destruct (Z.ltb_spec (Z.of_nat i) 0); [lia|]. now rewrite Nat2Z.id.
Qed.

Lemma idx_ok {A} (l : list A) (i : nat) x :
  nth_error l i = Some x -> Go.idx l (Z.of_nat i) = Ok x.
Proof. intros H. rewrite idx_nat. unfold nth_res. now rewrite H. Qed.

Lemma idx_mid {A} (pre : list A) x suf :
  Go.idx (pre ++ x :: suf) (Z.of_nat (length pre)) = Ok x.
Proof. apply idx_ok. rewrite nth_error_app2 by lia. now rewrite Nat.sub_diag. Qed.

Lemma idx_N_ok {A} (l : list A) (i : N) x :
  nth_error l (N.to_nat i) = Some x -> Go.idx l (Z.of_N i) = Ok x.
Proof. intros H. rewrite <- N_nat_Z. now apply idx_ok. Qed.

Lemma idx_N {A} (l : list A) (i : N) :
  Go.idx l (Z.of_N i) = nth_res l (N.to_nat i).
Proof. rewrite <- N_nat_Z. apply idx_nat. Qed.

Lemma set_at_length {A} (l : list A) i x : length (Go.set_at l i x) = length l.
Proof. revert i; induction l as [|y t IH]; intros [|j]; simpl; auto. Qed.

Lemma set_at_mid {A} (pre : list A) y suf x :
  Go.set_at (pre ++ y :: suf) (length pre) x = pre ++ x :: suf.
Proof. induction pre as [|p pre IH]; simpl; [reflexivity | now rewrite IH]. Qed.

Lemma upd_nat {A} (l : list A) (i : nat) x :
  (i < length l)%nat -> Go.upd l (Z.of_nat i) x = Ok (Go.set_at l i x).
Proof.
  intros H. unfold Go.upd.
  destruct (Z.ltb_spec (Z.of_nat i) 0); [lia|].
  destruct (Z.leb_spec (Z.of_nat (length l)) (Z.of_nat i)); [lia|].
  cbn [orb]. now rewrite Nat2Z.id.
Qed.

Lemma upd_mid {A} (pre : list A) y suf x :
  Go.upd (pre ++ y :: suf) (Z.of_nat (length pre)) x = Ok (pre ++ x :: suf).
Proof. rewrite upd_nat by (rewrite app_length; simpl; lia). now rewrite set_at_mid. Qed.

Lemma slice_prefix {A} (l : list A) (n : nat) :
  (n <= length l)%nat -> Go.slice l 0%Z (Z.of_nat n) = Ok (firstn n l).
Proof.
  intros H. unfold Go.slice.
  destruct (Z.ltb_spec 0 0); [lia|]. destruct (Z.ltb_spec (Z.of_nat n) 0); [lia|].
  destruct (Z.ltb_spec (Z.of_nat (length l)) (Z.of_nat n)); [lia|]. cbn [orb].
  rewrite Z.sub_0_r, Nat2Z.id. reflexivity.
Qed.

Lemma slice_nat {A} (l : list A) (a b : nat) :
  (a <= b)%nat -> (b <= length l)%nat ->
  Go.slice l (Z.of_nat a) (Z.of_nat b) = Ok (firstn (b - a) (skipn a l)).
Proof.
  intros H1 H2. unfold Go.slice.
  destruct (Z.ltb_spec (Z.of_nat a) 0); [lia|]. destruct (Z.ltb_spec (Z.of_nat b) (Z.of_nat a)); [lia|].
  destruct (Z.ltb_spec (Z.of_nat (length l)) (Z.of_nat b)); [lia|]. cbn [orb].
  rewrite <- Nat2Z.inj_sub by lia. now rewrite !Nat2Z.id.
Qed.

Lemma make_nat {A} (d : A) (n : nat) : Go.make d (Z.of_nat n) = Ok (repeat d n).
Proof. unfold Go.make. destruct (Z.ltb_spec (Z.of_nat n) 0); [lia|]. now rewrite Nat2Z.id. Qed.

(* ---------- zseq / nseq ---------- *)
Lemma zseq_S a n : Go.zseq a (S n) = a :: Go.zseq (a + 1)%Z n.
Proof. reflexivity. Qed.

Lemma zseq_length a n : length (Go.zseq a n) = n.
Proof. revert a; induction n; simpl; intros; auto. Qed.

Lemma zseq_app a n m : Go.zseq a (n + m) = Go.zseq a n ++ Go.zseq (a + Z.of_nat n)%Z m.
Proof.
  revert a; induction n as [|n IH]; intros a.
  - simpl. now rewrite Z.add_0_r.
  - cbn [Nat.add Go.zseq app]. rewrite IH. do 3 f_equal. lia.
Qed.

Lemma nseq_app a n m : Go.nseq a (n + m) = Go.nseq a n ++ Go.nseq (a + N.of_nat n) m.
Proof.
  revert a; induction n as [|n IH]; intros a.
  - simpl. now rewrite N.add_0_r.
  - cbn [Nat.add Go.nseq app]. rewrite IH. do 3 f_equal. lia.
Qed.

(* ---------- foldM ---------- *)
Lemma foldM_app {S A} (f : S -> A -> res S) l1 l2 s :
  Go.foldM f (l1 ++ l2) s =
  match Go.foldM f l1 s with Ok s' => Go.foldM f l2 s' | Err e => Err e | Panic k => Panic k end.
Proof.
  revert s; induction l1 as [|x l1 IH]; intros s; cbn [app Go.foldM]; [reflexivity|].
  destruct (f s x); auto.
Qed.

(* a monadic fold whose body never fails on the states of an invariant is a fold_left *)
Lemma foldM_pure {S A} (P : S -> Prop) (Q : A -> Prop) (f : S -> A -> res S) (g : S -> A -> S) l s :
  (forall s x, P s -> Q x -> f s x = Ok (g s x)) ->
  (forall s x, P s -> Q x -> P (g s x)) ->
  P s -> Forall Q l ->
  Go.foldM f l s = Ok (fold_left g l s) /\ P (fold_left g l s).
Proof.
  intros Hf Hinv Hs Hl. revert s Hs.
  induction Hl as [|x l Hx Hl IH]; intros s Hs; cbn [Go.foldM fold_left]; [split; auto|].
  rewrite Hf by assumption. apply IH. now apply Hinv.
Qed.

Lemma foldM_ext {S A} (f g : S -> A -> res S) l s :
  (forall s x, In x l -> f s x = g s x) -> Go.foldM f l s = Go.foldM g l s.
Proof.
  revert s; induction l as [|x l IH]; intros s H; cbn [Go.foldM]; [reflexivity|].
  rewrite H by (left; reflexivity). destruct (g s x); auto. apply IH. intros; apply H; now right.
Qed.

(* fold_left that appends one element per step is a map *)
Lemma fold_left_append_map {A B} (h : A -> B) l acc :
  fold_left (fun acc x => acc ++ [h x]) l acc = acc ++ map h l.
Proof.
  revert acc; induction l as [|x l IH]; intros acc; cbn [fold_left map]; [now rewrite app_nil_r|].
  rewrite IH, <- app_assoc. reflexivity.
Qed.

(* res helpers *)
Lemma rbind_ok {A B} (a : A) (f : A -> res B) : rbind (Ok a) f = f a.
Proof. reflexivity. Qed.

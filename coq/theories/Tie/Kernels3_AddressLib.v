(* Shared by Tie/Kernels3_Address.v and Tie/Kernels3_DecodeAddress.v: the instantiation of the abstract
   dependencies of the address.go functions of Gen/Kernels3.v by the section variables of the model
   Address/Address.v, the map from the model's [addr] to the generated sum type bchutil_Address, and a few
   general lemmas (ASCII fold, list_eqb, error classes of the models).

   Instantiation (P = a parsed secp256k1 point, as in the model):
     PublicKey_t := option P  (the nil pointer is None)      KoblitzCurve_t := unit, bchec.S256() := tt
     bchec.ParsePubKey(ser, curve) := (Some p, 0) if ec_parse ser = Some p, (None, 1) otherwise
     pk.SerializeCompressed / Hybrid / Uncompressed() := ec_ser PKFCompressed / PKFHybrid / PKFUncompressed p
     bchutil.Hash160 := hash160 ripemd160      sha256.Sum256 := Lib.Sha256.sha256
     hex.DecodeString / EncodeToString := the model's hex_decode (error value 1) / hex_encode
     chaincfg.IsPubKeyHashAddrID / IsScriptHashAddrID := membership in reg_pkh / reg_sh
     base58.Encode / Decode := Base58.encode / decode
     a *chaincfg.Params argument := Some (params_of net). *)
From BU Require Import Lib.Bytes Lib.PolyMod Lib.Sha256 Gen.Xbchutil Gen.Nets Base58.Base58 CashAddr.CashAddr
  Address.Bits Address.BitsProofs Address.Address Address.CashProofs Address.AddressProofs
  Gen.Kernels2 Gen.Kernels3 Tie.Kernels2Lib Tie.Kernels3Lib.
From Coq Require Import ZifyBool ZifyN ZifyNat.

(* ---------- the network parameters ---------- *)
Definition params_of (n : net) : Kernels3.chaincfg_Params :=
  Kernels3.mk_chaincfg_Params (net_name n) (cash_prefix n) (slp_prefix n) (pkh_id n) (sh_id n) (wif_id n)
    (hd_priv_id n) (hd_pub_id n) 0.

Section Inst.
Variable ripemd160 : list N -> list N.
Variable P : Type.
Variable ec_parse : list N -> option P.
Variable ec_ser : N -> P -> list N.
Variables reg_pkh reg_sh : list N.

(* ---------- the dependencies ---------- *)
Definition parse_pubkey (ser : list N) (_ : unit) : option P * N :=
  match ec_parse ser with Some p => (Some p, 0) | None => (None, 1) end.
Definition ser_as (fmt : N) (o : option P) : list N :=
  match o with Some p => ec_ser fmt p | None => [] end.
Definition hex_decode_string (s : list N) : list N * N :=
  match hex_decode s with Some b => (b, 0) | None => ([], 1) end.
Definition is_pkh_id (id : N) : bool := Address.mem id reg_pkh.
Definition is_sh_id (id : N) : bool := Address.mem id reg_sh.

(* ---------- the generated types and the map from the model's addresses ---------- *)
Definition gaddr : Type := Kernels3.bchutil_Address (option P).
Definition gpubkey : Type := Kernels3.bchutil_AddressPubKey (option P).

Definition g_pkh (p h : list N) := Kernels3.mk_bchutil_AddressPubKeyHash h p.
Definition g_sh (p h : list N) := Kernels3.mk_bchutil_AddressScriptHash h p.
Definition g_sh32 (p h : list N) := Kernels3.mk_bchutil_AddressScriptHash32 h p.
Definition g_leg_pkh (id : N) (h : list N) := Kernels3.mk_bchutil_LegacyAddressPubKeyHash h id.
Definition g_leg_sh (id : N) (h : list N) := Kernels3.mk_bchutil_LegacyAddressScriptHash h id.
Definition g_pubkey (fmt : N) (pt : P) (id : N) : gpubkey :=
  Kernels3.mk_bchutil_AddressPubKey (option P) (Z.of_N fmt) (Some pt) id.

Definition to_gen (a : addr P) : gaddr :=
  match a with
  | PKH p h => Kernels3.bchutil_Address_AddressPubKeyHash (option P) (Some (g_pkh p h))
  | SH p h => Kernels3.bchutil_Address_AddressScriptHash (option P) (Some (g_sh p h))
  | SH32 p h => Kernels3.bchutil_Address_AddressScriptHash32 (option P) (Some (g_sh32 p h))
  | LegPKH id h => Kernels3.bchutil_Address_LegacyAddressPubKeyHash (option P) (Some (g_leg_pkh id h))
  | LegSH id h => Kernels3.bchutil_Address_LegacyAddressScriptHash (option P) (Some (g_leg_sh id h))
  | PubKey fmt pt id => Kernels3.bchutil_Address_AddressPubKey (option P) (Some (g_pubkey fmt pt id))
  end.

(* the pointer a constructor returns, read off the model's address *)
Definition pkh_of (a : addr P) := match a with PKH p h => Some (g_pkh p h) | _ => None end.
Definition sh_of (a : addr P) := match a with SH p h => Some (g_sh p h) | _ => None end.
Definition sh32_of (a : addr P) := match a with SH32 p h => Some (g_sh32 p h) | _ => None end.
Definition leg_pkh_of (a : addr P) := match a with LegPKH id h => Some (g_leg_pkh id h) | _ => None end.
Definition leg_sh_of (a : addr P) := match a with LegSH id h => Some (g_leg_sh id h) | _ => None end.
Definition pubkey_of (a : addr P) := match a with PubKey f pt id => Some (g_pubkey f pt id) | _ => None end.

(* a constructor of the model seen through the translation's conventions: (pointer, error value);
   [code] gives the error value of the model's error class *)
Definition ctor_view {T} (proj : addr P -> option T) (code : N -> N) (r : res (addr P)) : res (option T * N) :=
  match r with
  | Ok a => Ok (proj a, 0)
  | Err e => Ok (None, code e)
  | Panic k => Panic k
  end.

End Inst.

Arguments to_gen {P}. Arguments pkh_of {P}. Arguments sh_of {P}. Arguments sh32_of {P}.
Arguments leg_pkh_of {P}. Arguments leg_sh_of {P}. Arguments pubkey_of {P}. Arguments ctor_view {P T}.
Arguments g_pubkey {P}. Arguments ser_as {P}.

(* ---------- general lemmas ---------- *)
Lemma list_eqb_sym a : forall b, list_eqb a b = list_eqb b a.
Proof.
  induction a as [|x a IH]; intros [|y b]; cbn [list_eqb]; try reflexivity.
  rewrite IH, N.eqb_sym. reflexivity.
Qed.

(* strings.EqualFold: the intrinsic of the translation is the model's, on all byte lists *)
Lemma fold_byte_eq a b : (Go3.fold_byte a =? Go3.fold_byte b) = fold_eq a b.
Proof.
  unfold Go3.fold_byte, fold_eq, is_upper.
  destruct (N.leb_spec 65 a), (N.leb_spec a 90), (N.leb_spec 65 b), (N.leb_spec b 90); cbn [andb orb];
    destruct (N.eqb_spec a b); cbn [orb];
    repeat match goal with |- context [N.eqb ?x ?y] => destruct (N.eqb_spec x y) end; cbn [orb]; try reflexivity; lia.
Qed.

Theorem equal_fold_tie s : forall t, Go3.equal_fold s t = Address.equal_fold s t.
Proof.
  induction s as [|a s IH]; intros [|b t]; cbn [Go3.equal_fold Address.equal_fold]; try reflexivity.
  rewrite fold_byte_eq, IH. reflexivity.
Qed.
Print Assumptions equal_fold_tie.

(* error classes of the CashAddr decoder are 1..8 *)
Lemma scan_err s : forall i l u ps e, scan s i l u ps = Err e -> 1 <= e <= 3.
Proof.
  induction s as [|c t IH]; intros i l u ps e; [discriminate|]. rewrite CashProofs.scan_cons.
  repeat match goal with |- context [if ?b then _ else _] => destruct b end;
    try (apply IH); intros H; injection H as <-; lia.
Qed.

Lemma decode_cashaddr_err str e : decode_cashaddr str = Err e -> 1 <= e <= 8.
Proof.
  unfold decode_cashaddr.
  destruct (scan str 0 false false (D 0)) as [[[l u] ps]|e'|] eqn:Es; cbn [rbind]; try discriminate.
  2:{ intros H; injection H as <-. apply scan_err in Es. lia. }
  destruct (ps =? D 12); [intros H; injection H as <-; lia|].
  destruct (u && l); [intros H; injection H as <-; lia|].
  destruct (to_values _) as [vals|e'|] eqn:Ev; cbn [rbind]; try discriminate.
  2:{ intros H; injection H as <-. apply to_values_err in Ev. lia. }
  destruct (_ <? _); [intros H; injection H as <-; lia|].
  destruct (negb _); [intros H; injection H as <-; lia|discriminate].
Qed.

(* the payload of an accepted CashAddr string consists of 5-bit symbols *)
Lemma decode_cashaddr_lt32 str pfx data : decode_cashaddr str = Ok (pfx, data) -> Forall (fun x => x < 32) data.
Proof.
  intros Ed.
  destruct (decode_cashaddr_inv _ _ _ Ed) as (P & body & vals & _ & _ & _ & _ & _ & Hv & _ & _ & ->).
  destruct (to_values_props _ _ Hv) as (H32 & _).
  rewrite Forall_forall in *. intros x Hx. apply H32. eapply in_firstn. exact Hx.
Qed.

(* Tie between the generated functions of merkleblock/decode.go (Gen/Kernels3.v:
   PartialBlock_calcTreeWidth, PartialBlock_traverseAndExtract, PartialBlock_ExtractMatches,
   NewMerkleBlockFromMsg) and the model Merkle/Merkle.v (pb_tree_width, traverse_extract,
   extract_full / extract, new_from_msg / bits_of_flags).

   A *PartialBlock is related to the model's pair (pblock, xstate) by [pb_gen]:
     numTx, finalHashes = map Some (pb_hashes p), bits = pb_bits p, bad = x_bad,
     bitsUsed = N.of_nat x_bits_used, hashesUsed = N.of_nat x_hashes_used,
     matchedHashes / matchedItems = the two projections of x_matched  (x_calls: ghost, no counterpart). *)
From BU Require Import Lib.Bytes Lib.PolyMod Merkle.Merkle Merkle.MerkleArith Merkle.ExtractProofs Merkle.ExtractTop
  Gen.Kernels2 Gen.Kernels3 Tie.Kernels2Lib Tie.Kernels3Lib Tie.Kernels3_MerkleLib.
From Coq Require Import ZifyBool ZifyN ZifyNat.

Local Open Scope N_scope.

Notation PB := Kernels3.merkleblock_PartialBlock.

Definition pb_gen (p : pblock) (s : xstate) : PB :=
  Kernels3.mk_merkleblock_PartialBlock (pb_numTx p) (map Some (pb_hashes p)) (pb_bits p)
    (x_bad s) (N.of_nat (x_bits_used s)) (N.of_nat (x_hashes_used s))
    (map (fun ph => Some (snd ph)) (x_matched s)) (map fst (x_matched s)).

Ltac pbsimpl :=
  unfold pb_gen, Kernels3.set_merkleblock_PartialBlock_bad, Kernels3.set_merkleblock_PartialBlock_bitsUsed,
       Kernels3.set_merkleblock_PartialBlock_hashesUsed, Kernels3.set_merkleblock_PartialBlock_matchedHashes,
       Kernels3.set_merkleblock_PartialBlock_matchedItems;
  cbn [Kernels3.merkleblock_PartialBlock_numTx Kernels3.merkleblock_PartialBlock_finalHashes
       Kernels3.merkleblock_PartialBlock_bits Kernels3.merkleblock_PartialBlock_bad
       Kernels3.merkleblock_PartialBlock_bitsUsed Kernels3.merkleblock_PartialBlock_hashesUsed
       Kernels3.merkleblock_PartialBlock_matchedHashes Kernels3.merkleblock_PartialBlock_matchedItems
       Kernels3.set_merkleblock_PartialBlock_bad Kernels3.set_merkleblock_PartialBlock_bitsUsed
       Kernels3.set_merkleblock_PartialBlock_hashesUsed Kernels3.set_merkleblock_PartialBlock_matchedHashes
       Kernels3.set_merkleblock_PartialBlock_matchedItems
       pb_numTx pb_hashes pb_bits
       x_bad x_bits_used x_hashes_used x_matched x_calls
       x_tick x_set_bad x_inc_bits x_inc_hashes x_add_match].

(* ---------- calcTreeWidth ---------- *)
Theorem PartialBlock_calcTreeWidth_tie (m : PB) (height : N) :
  Kernels3.PartialBlock_calcTreeWidth m height
  = pb_tree_width (Kernels3.merkleblock_PartialBlock_numTx m) height.
Proof. reflexivity. Qed.
Print Assumptions PartialBlock_calcTreeWidth_tie.

Lemma PB_calcTreeWidth_gtw (m : PB) h :
  Kernels3.PartialBlock_calcTreeWidth m h = gtw (Kernels3.merkleblock_PartialBlock_numTx m) h.
Proof. reflexivity. Qed.

Section ExtractTie.
Variable node_hash : hash -> hash -> hash.

Definition gTE := Kernels3.PartialBlock_traverseAndExtract is_equal (hmb node_hash).

Notation TE := (traverse_extract node_hash).

(* one unfolding of the generated fixpoint *)
Lemma gTE_S fuel m height pos :
  gTE (S fuel) m height pos =
  Kernels3.PartialBlock_traverseAndExtract is_equal (hmb node_hash) (S fuel) m height pos.
Proof. reflexivity. Qed.

Lemma inc_u32 (k len : nat) : (k < len)%nat -> N.of_nat len < 2 ^ 32 -> (N.of_nat k + 1) mod 2 ^ 32 = N.of_nat (S k).
Proof. rewrite pow32_val. intros Hk Hlen. lia. Qed.

Lemma leb_len_true (k len : nat) : (len <= k)%nat -> (N.of_nat len <=? N.of_nat k) = true.
Proof. intros Hle. lia. Qed.
Lemma leb_len_false (k len : nat) : (k < len)%nat -> (N.of_nat len <=? N.of_nat k) = false.
Proof. intros Hlt. lia. Qed.

(* the branch `height == 0 || parent == 0` *)
Lemma gen_take_hash n hashes bits (at_leaf : bool) parent pos s :
  N.of_nat (length hashes) < 2 ^ 32 ->
  (let m := pb_gen (mkPB n hashes bits) s in
   if ((Z.to_N ((Z.of_nat (List.length (Kernels3.merkleblock_PartialBlock_finalHashes m))) mod 2^32))
         <=? (Kernels3.merkleblock_PartialBlock_hashesUsed m)) then
     let m := (Kernels3.set_merkleblock_PartialBlock_bad m true) in
     Ok ((Some (List.repeat 0 32%nat)), m)
   else
   do hash <- Go.idx (Kernels3.merkleblock_PartialBlock_finalHashes m) (Z.of_N (Kernels3.merkleblock_PartialBlock_hashesUsed m)) ;;
   let m := (Kernels3.set_merkleblock_PartialBlock_hashesUsed m (((Kernels3.merkleblock_PartialBlock_hashesUsed m) + 1) mod 2^32)) in
   let m :=
     if (andb at_leaf (parent =? 1)) then
       let m := (Kernels3.set_merkleblock_PartialBlock_matchedHashes m ((Kernels3.merkleblock_PartialBlock_matchedHashes m) ++ [hash])) in
       let m := (Kernels3.set_merkleblock_PartialBlock_matchedItems m ((Kernels3.merkleblock_PartialBlock_matchedItems m) ++ [pos])) in
       m
     else
       m
   in
   Ok (hash, m))
  = let '(r, s') := take_hash hashes at_leaf parent pos s in Ok (Some r, pb_gen (mkPB n hashes bits) s').
Proof.
  intros Hlen. cbv zeta. pbsimpl. rewrite map_length, u32_len by exact Hlen.
  rewrite take_hash_eq. destruct (nth_error hashes (x_hashes_used s)) as [h|] eqn:E.
  - assert (x_hashes_used s < length hashes)%nat as Hlt by (apply nth_error_Some; congruence).
    rewrite leb_len_false by exact Hlt.
    rewrite idx_N, Nat2N.id, nth_res_map. unfold nth_res. rewrite E. cbn [rmap rbind].
    rewrite (inc_u32 _ _ Hlt Hlen).
    destruct (at_leaf && (parent =? 1)); pbsimpl; [|reflexivity].
    rewrite !map_app. reflexivity.
  - assert (length hashes <= x_hashes_used s)%nat as Hge by (apply nth_error_None; exact E).
    rewrite leb_len_true by exact Hge. reflexivity.
Qed.

Theorem PartialBlock_traverseAndExtract_tie (p : pblock) :
  N.of_nat (length (pb_bits p)) < 2 ^ 32 ->
  N.of_nat (length (pb_hashes p)) < 2 ^ 32 ->
  forall (h fuel : nat) (pos : N) (s : xstate),
  (h < fuel)%nat -> N.of_nat h < 2 ^ 32 ->
  gTE fuel (pb_gen p s) (N.of_nat h) pos =
  let '(r, s') := TE (pb_numTx p) (pb_bits p) (pb_hashes p) h pos s in Ok (Some r, pb_gen p s').
Proof.
  destruct p as [n hashes bits]. cbn [pb_numTx pb_hashes pb_bits]. intros Hbits Hhashes.
  induction h as [|h' IH]; intros fuel pos s Hfuel Hh; (destruct fuel as [|fuel]; [lia|]).
  - rewrite te_O. unfold gTE. cbn [Kernels3.PartialBlock_traverseAndExtract].
    pbsimpl. rewrite u32_len by exact Hbits.
    destruct (nth_error bits (x_bits_used s)) as [parent|] eqn:E.
    + assert (x_bits_used s < length bits)%nat as Hlt by (apply nth_error_Some; congruence).
      rewrite leb_len_false by exact Hlt.
      rewrite idx_N, Nat2N.id. unfold nth_res at 1. rewrite E. cbn [rbind].
      rewrite (inc_u32 _ _ Hlt Hbits).
      change (N.of_nat 0 =? 0) with true. cbn [orb].
      exact (gen_take_hash n hashes bits true parent pos (x_inc_bits (x_tick s)) Hhashes).
    + assert (length bits <= x_bits_used s)%nat as Hge by (apply nth_error_None; exact E).
      rewrite leb_len_true by exact Hge. reflexivity.
  - rewrite te_S. unfold gTE. cbn [Kernels3.PartialBlock_traverseAndExtract].
    pbsimpl. rewrite u32_len by exact Hbits.
    destruct (nth_error bits (x_bits_used s)) as [parent|] eqn:E.
    + assert (x_bits_used s < length bits)%nat as Hlt by (apply nth_error_Some; congruence).
      rewrite leb_len_false by exact Hlt.
      rewrite idx_N, Nat2N.id. unfold nth_res at 1. rewrite E. cbn [rbind].
      rewrite (inc_u32 _ _ Hlt Hbits).
      rewrite height_S_nonzero. cbn [orb].
      destruct (parent =? 0) eqn:Ep.
      * exact (gen_take_hash n hashes bits false parent pos (x_inc_bits (x_tick s)) Hhashes).
      * rewrite dec_height by exact Hh. pbsimpl.
        fold gTE. rewrite wmul2add1_gen, wmul2_gen.
        change (Kernels3.mk_merkleblock_PartialBlock n (map Some hashes) bits (x_bad s)
                  (N.of_nat (S (x_bits_used s))) (N.of_nat (x_hashes_used s))
                  (map (fun ph => Some (snd ph)) (x_matched s)) (map fst (x_matched s)))
          with (pb_gen (mkPB n hashes bits) (x_inc_bits (x_tick s))).
        rewrite IH by lia.
        destruct (TE n bits hashes h' (wmul pos 2) (x_inc_bits (x_tick s))) as [hl s1].
        cbn [rbind]. rewrite PB_calcTreeWidth_gtw, gtw_tw. pbsimpl.
        destruct (wadd (wmul pos 2) 1 <? tw n (N.of_nat h')).
        -- change (Kernels3.mk_merkleblock_PartialBlock n (map Some hashes) bits (x_bad s1)
                  (N.of_nat (x_bits_used s1)) (N.of_nat (x_hashes_used s1))
                  (map (fun ph => Some (snd ph)) (x_matched s1)) (map fst (x_matched s1)))
             with (pb_gen (mkPB n hashes bits) s1).
           rewrite IH by lia.
           destruct (TE n bits hashes h' (wadd (wmul pos 2) 1) s1) as [hr s2].
           cbn [rbind is_equal hmb]. destruct (hash_eqb hr hl); reflexivity.
        -- reflexivity.
    + assert (length bits <= x_bits_used s)%nat as Hge by (apply nth_error_None; exact E).
      rewrite leb_len_true by exact Hge. reflexivity.
Qed.

End ExtractTie.
Print Assumptions PartialBlock_traverseAndExtract_tie.

(* ---------- ExtractMatches ---------- *)
Section ExtractMatchesTie.
Variable node_hash : hash -> hash -> hash.
Notation TE := (traverse_extract node_hash).

Definition gEM (maxtx : N) := Kernels3.PartialBlock_ExtractMatches is_equal (hmb node_hash) maxtx.

(* a successful traversal consumed at least one bit *)
Lemma te_progress n bits hashes : forall h pos s r s',
  TE n bits hashes h pos s = (r, s') -> x_bad s' = false -> (x_bits_used s < x_bits_used s')%nat.
Proof.
  intros h pos s r s'. destruct h as [|h'].
  - rewrite te_O. destruct (nth_error bits (x_bits_used s)) as [parent|].
    + intros HT _. apply take_hash_frame in HT as (_ & Hu & _). rewrite Hu. cbn. lia.
    + intros HT Hb. inversion HT; subst. discriminate Hb.
  - rewrite te_S. destruct (nth_error bits (x_bits_used s)) as [parent|].
    + destruct (parent =? 0).
      * intros HT _. apply take_hash_frame in HT as (_ & Hu & _). rewrite Hu. cbn. lia.
      * destruct (TE n bits hashes h' (wmul pos 2) (x_inc_bits (x_tick s))) as [hl s1] eqn:E1.
        pose proof (te_frame _ _ _ _ _ _ _ _ _ E1) as (_ & H1 & _). cbn in H1.
        destruct (wadd (wmul pos 2) 1 <? tw n (N.of_nat h')).
        -- destruct (TE n bits hashes h' (wadd (wmul pos 2) 1) s1) as [hr s2] eqn:E2.
           pose proof (te_frame _ _ _ _ _ _ _ _ _ E2) as (_ & H2 & _).
           intros HT _. inversion HT; subst. destruct (hash_eqb hr hl); cbn; lia.
        -- intros HT _. inversion HT; subst. lia.
    + intros HT Hb. inversion HT; subst. discriminate Hb.
Qed.

(* (bitsUsed+7)/8 == (len(bits)+7)/8 in uint32 and in unbounded arithmetic *)
Lemma pad_check (a b : N) : 1 <= a -> a <= b -> b < 2 ^ 32 ->
  ((((a + 7) mod 2 ^ 32) / 8) =? (((b + 7) mod 2 ^ 32) / 8)) = ((a + 7) / 8 =? (b + 7) / 8).
Proof.
  rewrite pow32_val. intros Ha Hab Hb.
  destruct (N.lt_ge_cases (b + 7) 4294967296) as [Hs|Hw].
  - rewrite !N.mod_small by lia. reflexivity.
  - assert ((b + 7) mod 4294967296 = b + 7 - 4294967296) as -> by lia.
    destruct (N.lt_ge_cases (a + 7) 4294967296) as [Has|Haw].
    + rewrite (N.mod_small (a + 7)) by lia.
      assert ((b + 7 - 4294967296) / 8 = 0) as -> by (apply N.div_small; lia).
      assert ((b + 7) / 8 = 536870912) as -> by lia.
      destruct (N.eqb_spec ((a + 7) / 8) 0); destruct (N.eqb_spec ((a + 7) / 8) 536870912); try reflexivity; lia.
    + assert ((a + 7) mod 4294967296 = a + 7 - 4294967296) as -> by lia.
      assert ((b + 7 - 4294967296) / 8 = 0) as -> by (apply N.div_small; lia).
      assert ((a + 7 - 4294967296) / 8 = 0) as -> by (apply N.div_small; lia).
      assert ((b + 7) / 8 = 536870912) as -> by lia.
      assert ((a + 7) / 8 = 536870912) as -> by lia.
      reflexivity.
Qed.

Theorem PartialBlock_ExtractMatches_tie (maxtx : N) (p : pblock) (fuel : nat) :
  (33 <= fuel)%nat ->
  N.of_nat (length (pb_bits p)) < 2 ^ 32 ->
  N.of_nat (length (pb_hashes p)) < 2 ^ 32 ->
  gEM maxtx fuel (pb_gen p x_init) =
  Ok (match fst (extract_full node_hash maxtx p) with Ok (root, _) => Some root | _ => None end,
      pb_gen p (snd (extract_full node_hash maxtx p))).
Proof.
  intros Hfuel Hbits Hhashes. rewrite extract_full_eq.
  pose proof (PartialBlock_traverseAndExtract_tie node_hash p Hbits Hhashes) as HTE.
  destruct p as [n hashes bits]. cbn [pb_numTx pb_hashes pb_bits] in *. cbv zeta.
  unfold gEM, Kernels3.PartialBlock_ExtractMatches. pbsimpl.
  destruct (n =? 0); [reflexivity|].
  destruct (maxtx <? n); [reflexivity|].
  rewrite !map_length, !u32_len by assumption.
  rewrite !u32_small by assumption.
  destruct (n <? N.of_nat (length hashes)); [reflexivity|].
  destruct (N.of_nat (length bits) <? N.of_nat (length hashes)); [reflexivity|].
  destruct (gheight_loop_ok n fuel Hfuel) as (H & HG & HM & HH).
  change (Go.whileM fuel _ _ 0) with (gheight_loop fuel n 0). rewrite HG, HM. cbn [rbind].
  fold (gTE node_hash).
  match goal with |- context [gTE node_hash fuel ?m _ _] =>
    change m with (pb_gen (mkPB n hashes bits) x_init) end.
  remember (N.to_nat H) as h eqn:Eh.
  replace H with (N.of_nat h) by lia. rewrite HTE by lia.
  destruct (TE n bits hashes h 0 x_init) as [root s] eqn:ET. cbn [rbind]. pbsimpl.
  rewrite !map_length, !u32_len by assumption.
  destruct (x_bad s) eqn:Ebad; [cbn [fst snd]; rewrite ?Ebad; reflexivity|].
  pose proof (te_progress _ _ _ _ _ _ _ _ ET Ebad) as Hprog.
  pose proof (te_frame _ _ _ _ _ _ _ _ _ ET) as (_ & _ & Hle & _). cbn [x_init x_bits_used] in Hprog, Hle.
  rewrite pad_check by lia.
  destruct (negb (_ =? _)); [cbn [fst snd]; rewrite ?Ebad; reflexivity|].
  destruct (negb (_ =? _)); cbn [fst snd]; rewrite ?Ebad; reflexivity.
Qed.

End ExtractMatchesTie.
Print Assumptions PartialBlock_ExtractMatches_tie.

(* ---------- NewMerkleBlockFromMsg ---------- *)
Section FromMsg.
Variable BH : Type.      (* wire.BlockHeader *)

Definition bit_at (flags : list N) (i : N) : N :=
  if N.land (nth (N.to_nat (i / 8)) flags 0) (N.shiftl 1 (i mod 8) mod 256) =? 0 then 0 else 1.

Definition fill_body (flags : list N) (bits : list N) (i : N) : res (list N) :=
  do t1_ <- Go.idx flags (Z.of_N (i / 8)) ;;
  do bits <- (
    if ((N.land t1_ ((N.shiftl 1 (i mod 8)) mod 2^8)) =? 0) then
      do bits <- Go.upd bits (Z.of_N i) 0 ;;
      Ok bits
    else
      do bits <- Go.upd bits (Z.of_N i) 1 ;;
      Ok bits
  ) ;;
  Ok bits.

Lemma fill_loop (flags : list N) : forall k (pre : list N),
  (length pre + k = 8 * length flags)%nat ->
  Go.foldM (fill_body flags) (Go.nseq (N.of_nat (length pre)) k) (pre ++ repeat 0 k)
  = Ok (pre ++ map (bit_at flags) (Go.nseq (N.of_nat (length pre)) k)).
Proof.
  induction k as [|k IH]; intros pre Hlen; cbn [Go.nseq Go.foldM map repeat]; [reflexivity|].
  unfold fill_body at 1.
  rewrite idx_N, (nth_res_nth _ _ 0) by lia. cbn [rbind].
  change (2 ^ 8) with 256. rewrite nat_N_Z.
  assert (Hb : bit_at flags (N.of_nat (length pre)) =
               if N.land (nth (N.to_nat (N.of_nat (length pre) / 8)) flags 0)
                         (N.shiftl 1 (N.of_nat (length pre) mod 8) mod 256) =? 0 then 0 else 1) by reflexivity.
  rewrite Hb. clear Hb.
  destruct (N.land _ _ =? 0); rewrite upd_mid; cbn [rbind];
  match goal with |- Go.foldM _ _ (pre ++ ?v :: _) = _ =>
    replace (pre ++ v :: repeat 0 k) with ((pre ++ [v]) ++ repeat 0 k) by (rewrite <- app_assoc; reflexivity);
    replace (N.of_nat (length pre) + 1) with (N.of_nat (length (pre ++ [v]))) by (rewrite app_length; cbn [length]; lia);
    rewrite IH by (rewrite app_length; cbn [length]; lia);
    rewrite <- app_assoc; reflexivity end.
Qed.

Lemma bit_at_chunk pre b t j : j < 8 ->
  bit_at (pre ++ b :: t) (8 * N.of_nat (length pre) + j)
  = (if N.land b (N.shiftl 1 j mod 256) =? 0 then 0 else 1).
Proof.
  intros Hj. unfold bit_at.
  assert ((8 * N.of_nat (length pre) + j) / 8 = N.of_nat (length pre)) as -> by lia.
  assert ((8 * N.of_nat (length pre) + j) mod 8 = j) as -> by lia.
  rewrite Nat2N.id, app_nth2, Nat.sub_diag by lia. reflexivity.
Qed.

Lemma bits_table : forall fl pre,
  map (bit_at (pre ++ fl)) (Go.nseq (8 * N.of_nat (length pre)) (8 * length fl)) = flat_map byte_bits_plain fl.
Proof.
  induction fl as [|b t IH]; intros pre; [reflexivity|].
  replace (8 * length (b :: t))%nat with (8 + 8 * length t)%nat by (cbn [length]; lia).
  rewrite nseq_app, map_app. cbn [flat_map]. f_equal.
  - rewrite <- (N.add_0_r (8 * N.of_nat (length pre))), gnseq_shift, map_map, gnseq_8.
    unfold byte_bits_plain. change (Merkle.nseq 0 8) with [0; 1; 2; 3; 4; 5; 6; 7].
    apply map_ext_in. intros j Hj. apply bit_at_chunk.
    cbn [In] in Hj. lia.
  - replace (pre ++ b :: t) with ((pre ++ [b]) ++ t) by (rewrite <- app_assoc; reflexivity).
    replace (8 * N.of_nat (length pre) + N.of_nat 8) with (8 * N.of_nat (length (pre ++ [b])))
      by (rewrite app_length; cbn [length]; lia).
    apply IH.
Qed.

Definition msg_gen (hdr : BH) (m : msg) : Kernels3.wire_MsgMerkleBlock BH :=
  Kernels3.mk_wire_MsgMerkleBlock BH hdr (m_transactions m) (map Some (m_hashes m)) (m_flags m).

Theorem NewMerkleBlockFromMsg_tie (hdr : BH) (m : msg) :
  N.of_nat (length (m_flags m)) * 8 < 2 ^ 32 ->
  Kernels3.NewMerkleBlockFromMsg BH (msg_gen hdr m) = Ok (Some (pb_gen (new_from_msg m) x_init)).
Proof.
  intros Hlen. unfold Kernels3.NewMerkleBlockFromMsg, msg_gen, new_from_msg, pb_gen.
  cbn [Kernels3.wire_MsgMerkleBlock_Transactions Kernels3.wire_MsgMerkleBlock_Hashes
       Kernels3.wire_MsgMerkleBlock_Flags pb_numTx pb_hashes pb_bits x_init
       x_bad x_bits_used x_hashes_used x_matched map].
  replace (Z.to_nat (Z.of_nat (length (m_flags m)) * 8)) with (8 * length (m_flags m))%nat by lia.
  rewrite u32_len by (rewrite repeat_length; lia). rewrite repeat_length, Nat2N.id.
  change (Go.foldM _ ?l ?s) with (Go.foldM (fill_body (m_flags m)) l s).
  pose proof (fill_loop (m_flags m) (8 * length (m_flags m)) [] eq_refl) as HL.
  cbn [length app] in HL. change (N.of_nat 0) with 0 in HL. rewrite HL. cbn [rbind].
  pose proof (bits_table (m_flags m) []) as HT. cbn [length app] in HT.
  change (8 * N.of_nat 0) with 0 in HT. rewrite HT. reflexivity.
Qed.

(* FINDING (model vs code outside len(Flags)*8 < 2^32): the loop of NewMerkleBlockFromMsg is bounded by
   uint32(len(bits)); with len(Flags) = 2^29 that is 0, the loop body never runs and every bit stays 0,
   whereas the model's bits_of_flags decodes all flag bytes. *)
Theorem NewMerkleBlockFromMsg_wraps (hdr : BH) (m : msg) :
  N.of_nat (length (m_flags m)) * 8 = 2 ^ 32 ->
  Kernels3.NewMerkleBlockFromMsg BH (msg_gen hdr m)
  = Ok (Some (pb_gen (mkPB (m_transactions m) (m_hashes m) (repeat 0 (8 * length (m_flags m)))) x_init)).
Proof.
  intros Hlen. unfold Kernels3.NewMerkleBlockFromMsg, msg_gen, pb_gen.
  cbn [Kernels3.wire_MsgMerkleBlock_Transactions Kernels3.wire_MsgMerkleBlock_Hashes
       Kernels3.wire_MsgMerkleBlock_Flags pb_numTx pb_hashes pb_bits x_init
       x_bad x_bits_used x_hashes_used x_matched map].
  replace (Z.to_nat (Z.of_nat (length (m_flags m)) * 8)) with (8 * length (m_flags m))%nat by lia.
  rewrite repeat_length.
  assert (N.to_nat (Z.to_N (Z.of_nat (8 * length (m_flags m)) mod 2 ^ 32)) = 0%nat) as ->.
  { rewrite pow32_val in Hlen. change (2 ^ 32)%Z with 4294967296%Z. lia. }
  reflexivity.
Qed.

Corollary NewMerkleBlockFromMsg_model_disagrees (hdr : BH) (m : msg) :
  N.of_nat (length (m_flags m)) * 8 = 2 ^ 32 -> hd 0 (m_flags m) = 1 ->
  Kernels3.NewMerkleBlockFromMsg BH (msg_gen hdr m) <> Ok (Some (pb_gen (new_from_msg m) x_init)).
Proof.
  intros Hlen Hhd. rewrite NewMerkleBlockFromMsg_wraps by exact Hlen.
  unfold pb_gen, new_from_msg. cbn [pb_numTx pb_hashes pb_bits]. intros Heq.
  injection Heq as Hbits. rewrite bits_of_flags_eq in Hbits.
  destruct (m_flags m) as [|b t]; [rewrite pow32_val in Hlen; cbn [length] in Hlen; lia|].
  cbn [hd] in Hhd. subst b.
  apply (f_equal (hd 2)) in Hbits.
  cbn [flat_map] in Hbits. change (byte_bits_plain 1) with [1; 0; 0; 0; 0; 0; 0; 0] in Hbits.
  cbn [length Nat.add repeat app hd] in Hbits. discriminate Hbits.
Qed.

End FromMsg.
Print Assumptions NewMerkleBlockFromMsg_tie.
Print Assumptions NewMerkleBlockFromMsg_wraps.
Print Assumptions NewMerkleBlockFromMsg_model_disagrees.

(* ---------- NewMerkleBlockFromMsg followed by ExtractMatches = the model's extract ---------- *)
Section ExtractMsg.
Variable node_hash : hash -> hash -> hash.
Variable BH : Type.

(* the model reports x_matched of the final state *)
Lemma extract_full_matched maxtx p root ms :
  fst (extract_full node_hash maxtx p) = Ok (root, ms) ->
  x_matched (snd (extract_full node_hash maxtx p)) = ms.
Proof.
  rewrite extract_full_eq. cbv zeta.
  destruct (pb_numTx p =? 0); [discriminate|].
  destruct (maxtx <? pb_numTx p); [discriminate|].
  destruct (pb_numTx p <? _); [discriminate|].
  destruct (_ <? _); [discriminate|].
  destruct (height_loop _ _ _ _) as [height|e|k]; try discriminate.
  destruct (traverse_extract _ _ _ _ _ _ _) as [r s].
  destruct (x_bad s); [discriminate|].
  destruct (negb _); [discriminate|].
  destruct (negb _); [discriminate|].
  cbn [fst snd]. intros H. inversion H; reflexivity.
Qed.

Theorem extract_tie (hdr : BH) (maxtx : N) (m : msg) (fuel : nat) :
  (33 <= fuel)%nat ->
  N.of_nat (length (m_flags m)) * 8 < 2 ^ 32 ->
  N.of_nat (length (m_hashes m)) < 2 ^ 32 ->
  exists pb',
    (do pb <- Kernels3.NewMerkleBlockFromMsg BH (msg_gen BH hdr m) ;;
     do pb <- Go3.deref pb ;;
     gEM node_hash maxtx fuel pb)
    = Ok (match extract node_hash maxtx m with Ok (root, _) => Some root | _ => None end, pb') /\
    Kernels3.merkleblock_PartialBlock_bad pb' = x_bad (snd (extract_full node_hash maxtx (new_from_msg m))) /\
    forall root ms, extract node_hash maxtx m = Ok (root, ms) ->
      Kernels3.merkleblock_PartialBlock_matchedItems pb' = map fst ms /\
      Kernels3.merkleblock_PartialBlock_matchedHashes pb' = map (fun ph => Some (snd ph)) ms.
Proof.
  intros Hfuel Hflags Hhashes.
  exists (pb_gen (new_from_msg m) (snd (extract_full node_hash maxtx (new_from_msg m)))).
  split; [|split].
  - rewrite NewMerkleBlockFromMsg_tie by exact Hflags. cbn [rbind Go3.deref].
    rewrite PartialBlock_ExtractMatches_tie; try assumption.
    + reflexivity.
    + unfold new_from_msg. cbn [pb_bits]. rewrite bits_of_flags_length. lia.
  - reflexivity.
  - intros root ms Hex. unfold extract in Hex. apply extract_full_matched in Hex.
    unfold pb_gen. cbn [Kernels3.merkleblock_PartialBlock_matchedItems Kernels3.merkleblock_PartialBlock_matchedHashes].
    rewrite Hex. split; reflexivity.
Qed.

End ExtractMsg.
Print Assumptions extract_tie.

(* Tie for merkleblock/encode.go, second part: MerkleBlock_calcBlock and NewMerkleBlockWithTxnSet
   (Gen/Kernels3.v) against mb_calc_block (with the bit packing pack_bits) and mb_new_with_txnset.

   Instantiation of the abstract objects:
     BlockHeader_t := list N (the model's opaque header), TokenData_t := unit,
     Block_t := header * list of transaction hashes, Block.MsgBlock() := a non-nil MsgBlock with that header,
     Tx_t := hash, Tx.Hash() := a non-nil pointer to it, Block.Transactions() := the list,
     MsgMerkleBlock.AddTxHash(h) := [add_tx_hash cap]: appends h unless len(Hashes)+1 > cap (cap = wire's
     maxTxPerBlock), in which case it returns an error and leaves the message alone.  calcBlock DISCARDS that
     error, so beyond cap hashes the real message silently lacks hashes while the model's m_hashes keeps
     them: the theorems carry the side condition "number of final hashes <= cap". *)
From BU Require Import Lib.Bytes Lib.PolyMod Merkle.Merkle Merkle.PmtSpec Merkle.MerkleArith Merkle.ExtractProofs
  Merkle.PmtProofs Merkle.LevelProofs Merkle.PackProofs Merkle.BuildProofs
  Gen.Kernels2 Gen.Kernels3 Tie.Kernels2Lib Tie.Kernels3Lib Tie.Kernels3_MerkleLib Tie.Kernels3_MerkleBuild.
From Coq Require Import ZifyBool ZifyN ZifyNat.

Local Open Scope N_scope.

Notation BH := (list N) (only parsing).
Notation W := (Kernels3.wire_MsgMerkleBlock (list N)).
Notation mkW := (Kernels3.mk_wire_MsgMerkleBlock (list N)).

Definition wire_gen (m : msg) : W := mkW (m_header m) (m_transactions m) (map Some (m_hashes m)) (m_flags m).

Definition add_tx_hash (cap : N) (m : W) (h : option (list N)) : N * W :=
  if cap <? N.of_nat (length (Kernels3.wire_MsgMerkleBlock_Hashes _ m)) + 1 then (1, m)
  else (0, mkW (Kernels3.wire_MsgMerkleBlock_Header _ m) (Kernels3.wire_MsgMerkleBlock_Transactions _ m)
              (Kernels3.wire_MsgMerkleBlock_Hashes _ m ++ [h]) (Kernels3.wire_MsgMerkleBlock_Flags _ m)).

Definition Block := (list N * list hash)%type.
Definition block_msgblock (b : Block) : option (Kernels3.wire_MsgBlock (list N) unit) :=
  Some (Kernels3.mk_wire_MsgBlock (list N) unit (fst b) []).

Ltac wsimpl :=
  unfold Kernels3.set_wire_MsgMerkleBlock_Flags;
  cbn [Kernels3.wire_MsgMerkleBlock_Header Kernels3.wire_MsgMerkleBlock_Transactions
       Kernels3.wire_MsgMerkleBlock_Hashes Kernels3.wire_MsgMerkleBlock_Flags].

(* ---------- the AddTxHash loop ---------- *)
Lemma add_hashes_loop cap hdr n flags : forall (fh : list hash) (hs : list (option (list N))),
  N.of_nat (length hs + length fh) <= cap ->
  fold_left (fun msgMerkleBlock hash => let '(t3_, t4_) := add_tx_hash cap msgMerkleBlock hash in t4_)
            (map Some fh) (mkW hdr n hs flags)
  = mkW hdr n (hs ++ map Some fh) flags.
Proof.
  induction fh as [|x t IH]; intros hs Hcap; cbn [map fold_left].
  - rewrite app_nil_r. reflexivity.
  - unfold add_tx_hash at 2. wsimpl. cbn [length] in Hcap.
    destruct (N.ltb_spec cap (N.of_nat (length hs) + 1)); [lia|].
    rewrite IH by (rewrite app_length; cbn [length]; lia).
    rewrite <- app_assoc. reflexivity.
Qed.

(* without the bound: the hashes beyond cap are dropped (calcBlock ignores the error of AddTxHash) *)
Lemma add_hashes_loop_trunc cap hdr n flags : forall (fh : list hash) (hs : list (option (list N))),
  fold_left (fun msgMerkleBlock hash => let '(t3_, t4_) := add_tx_hash cap msgMerkleBlock hash in t4_)
            (map Some fh) (mkW hdr n hs flags)
  = mkW hdr n (hs ++ firstn (N.to_nat cap - length hs) (map Some fh)) flags.
Proof.
  induction fh as [|x t IH]; intros hs; cbn [map fold_left].
  - rewrite firstn_nil, app_nil_r. reflexivity.
  - unfold add_tx_hash at 2. wsimpl.
    destruct (N.ltb_spec cap (N.of_nat (length hs) + 1)) as [Hfull|Hroom].
    + rewrite IH. replace (N.to_nat cap - length hs)%nat with 0%nat by lia. reflexivity.
    + rewrite IH, app_length. cbn [length].
      replace (N.to_nat cap - length hs)%nat with (S (N.to_nat cap - (length hs + 1)))%nat by lia.
      cbn [firstn]. rewrite <- app_assoc. reflexivity.
Qed.

(* ---------- the packing loop ---------- *)
Definition pack_body (bits : list N) (msgMerkleBlock : W) (i : N) : res W :=
  do t5_ <- Go.idx (Kernels3.wire_MsgMerkleBlock_Flags _ msgMerkleBlock) (Z.of_N (i / 8)) ;;
  do t6_ <- Go.idx bits (Z.of_N i) ;;
  do t7_ <- Go.upd (Kernels3.wire_MsgMerkleBlock_Flags _ msgMerkleBlock) (Z.of_N (i / 8)) (N.lor t5_ ((N.shiftl t6_ (i mod 8)) mod 2^8)) ;;
  let msgMerkleBlock := (Kernels3.set_wire_MsgMerkleBlock_Flags _ msgMerkleBlock t7_) in
  Ok msgMerkleBlock.

Lemma pack_chunk hdr n hs bits_all pre suf : forall ch j done acc rest,
  bits_all = done ++ ch ++ rest -> (length done = 8 * length pre + j)%nat -> (j + length ch <= 8)%nat ->
  Go.foldM (pack_body bits_all) (Go.nseq (N.of_nat (length done)) (length ch)) (mkW hdr n hs (pre ++ acc :: suf))
  = Ok (mkW hdr n hs (pre ++ N.lor acc (pack_byte (N.of_nat j) ch) :: suf)).
Proof.
  induction ch as [|b t IH]; intros j done acc rest Hall Hdone Hj; cbn [length Go.nseq Go.foldM pack_byte].
  - rewrite N.lor_0_r. reflexivity.
  - cbn [length] in Hj. unfold pack_body at 1. wsimpl.
    assert (N.of_nat (length done) / 8 = N.of_nat (length pre)) as -> by lia.
    assert (N.of_nat (length done) mod 8 = N.of_nat j) as -> by lia.
    rewrite !nat_N_Z, idx_mid. cbn [rbind].
    replace (Go.idx bits_all (Z.of_nat (length done))) with (Ok b)
      by (rewrite Hall; cbn [app]; now rewrite idx_mid).
    cbn [rbind]. rewrite upd_mid. cbn [rbind].
    replace (N.of_nat (length done) + 1) with (N.of_nat (length (done ++ [b]))) by (rewrite app_length; cbn [length]; lia).
    rewrite (IH (S j) (done ++ [b]) _ rest).
    + change (2 ^ 8) with 256. rewrite N.lor_assoc.
      replace (N.of_nat (S j)) with (N.of_nat j + 1) by lia. reflexivity.
    + rewrite Hall, <- app_assoc. reflexivity.
    + rewrite app_length. cbn [length]. lia.
    + lia.
Qed.

Lemma pack_loop hdr n hs : forall k bs done pre,
  (length done = 8 * length pre)%nat -> k = ((length bs + 7) / 8)%nat ->
  Go.foldM (pack_body (done ++ bs)) (Go.nseq (N.of_nat (length done)) (length bs)) (mkW hdr n hs (pre ++ repeat 0 k))
  = Ok (mkW hdr n hs (pre ++ pack_go 8 k bs)).
Proof.
  induction k as [|k IH]; intros bs done pre Hdone Hk.
  - destruct bs as [|b t]; [reflexivity|cbn [length] in Hk; lia].
  - cbn [pack_go repeat].
    rewrite <- (firstn_skipn 8 bs) at 1 2.
    set (ch := firstn 8 bs). set (bs' := skipn 8 bs).
    assert (length ch = Nat.min 8 (length bs)) as Hch by apply firstn_length.
    assert (length bs' = (length bs - 8)%nat) as Hbs' by apply skipn_length.
    rewrite app_length, nseq_app, foldM_app.
    rewrite (pack_chunk hdr n hs (done ++ ch ++ bs') pre (repeat 0 k) ch 0%nat done 0 bs' eq_refl) by lia.
    rewrite N.lor_0_l. change (N.of_nat 0) with 0.
    destruct (Nat.le_gt_cases 8 (length bs)) as [Hge|Hlt].
    + replace (N.of_nat (length done) + N.of_nat (length ch)) with (N.of_nat (length (done ++ ch)))
        by (rewrite app_length; lia).
      replace (done ++ ch ++ bs') with ((done ++ ch) ++ bs') by (rewrite <- app_assoc; reflexivity).
      replace (pre ++ pack_byte 0 ch :: repeat 0 k) with ((pre ++ [pack_byte 0 ch]) ++ repeat 0 k)
        by (rewrite <- app_assoc; reflexivity).
      rewrite IH.
      * rewrite <- app_assoc. reflexivity.
      * rewrite !app_length. cbn [length]. lia.
      * lia.
    + assert (bs' = []) as -> by (apply skipn_all2; lia).
      assert (k = 0%nat) as -> by lia. reflexivity.
Qed.

Section CalcBlock.
Variable node_hash : hash -> hash -> hash.
Variable cap : N.

Definition gCB := Kernels3.MerkleBlock_calcBlock (list N) Block unit (hmb node_hash) block_msgblock (add_tx_hash cap).

(* the model's calcBlock up to the message construction *)
Definition calc_st (n : N) (all : list hash) (mbits : list N) : res (list N * list hash) :=
  do height <- height_loop (tw n) 1 height_fuel 0;;
  if 0 <? n then mb_traverse_build node_hash n all mbits (N.to_nat height) 0 ([], []) else Ok ([], []).

Lemma mb_calc_block_st header n all mbits :
  mb_calc_block node_hash header n all mbits
  = do st <- calc_st n all mbits;; Ok (mkMsg header n (snd st) (pack_bits 7 8 8 (fst st))).
Proof.
  rewrite mb_calc_block_eq. unfold calc_st.
  destruct (height_loop (tw n) 1 height_fuel 0) as [height|e|k]; cbn [rbind]; reflexivity.
Qed.

(* General form: the only side conditions are numTx <= len(matchedBits) (the loop of traverseAndBuild would
   index out of range otherwise, where the model's mb_is_parent is total), fuel, and len(m.bits) < 2^32 (the
   packing loop runs over uint32(len(m.bits)) bits only).  The message carries the first cap hashes. *)
Theorem MerkleBlock_calcBlock_tie_gen (n : N) (all : list hash) (mbits : list N) (blk : Block) (fuel : nat) :
  n <= N.of_nat (length mbits) ->
  (N.to_nat n + 34 <= fuel)%nat ->
  (forall st, calc_st n all mbits = Ok st -> N.of_nat (length (fst st)) < 2 ^ 32) ->
  gCB fuel (mb_gen n all mbits ([], [])) blk
  = do st <- calc_st n all mbits;;
    Ok (Some (wire_gen (mkMsg (fst blk) n (firstn (N.to_nat cap) (snd st)) (pack_bits 7 8 8 (fst st)))),
        mb_gen n all mbits st).
Proof.
  intros Hn Hfuel Hdom. unfold gCB, Kernels3.MerkleBlock_calcBlock.
  destruct (gheight_loop_ok n fuel) as (H & HG & HM & HH); [lia|].
  change (Go.whileM fuel _ _ 0) with (gheight_loop fuel n 0). rewrite HG. cbn [rbind].
  unfold calc_st in *. rewrite HM in *. cbn [rbind] in *.
  mbsimpl. fold (gTB node_hash).
  assert (Hst : (if 0 <? n
                 then do m <- gTB node_hash fuel (mb_gen n all mbits ([], [])) H 0 ;; Ok m
                 else Ok (mb_gen n all mbits ([], [])))
                = rmap (mb_gen n all mbits)
                    (if 0 <? n then mb_traverse_build node_hash n all mbits (N.to_nat H) 0 ([], []) else Ok ([], []))).
  { destruct (0 <? n); [|reflexivity].
    replace H with (N.of_nat (N.to_nat H)) at 1 by lia.
    rewrite MerkleBlock_traverseAndBuild_tie by (try assumption; rewrite ?pow32_val; lia).
    destruct (mb_traverse_build _ _ _ _ _ _ _); reflexivity. }
  unfold mb_gen in Hst at 1 2. cbn [fst snd] in Hst. rewrite Hst. clear Hst.
  destruct (if 0 <? n then _ else _) as [st|e|k]; cbn [rmap rbind]; try reflexivity.
  pose proof (Hdom st eq_refl) as Hb.
  cbn [block_msgblock Go3.deref rbind Kernels3.wire_MsgBlock_Header]. mbsimpl.
  rewrite add_hashes_loop_trunc. cbn [app length]. rewrite Nat.sub_0_r, firstn_map.
  rewrite u32_len by exact Hb. rewrite Nat2N.id.
  change (Go.foldM _ ?l ?s) with (Go.foldM (pack_body (fst st)) l s).
  replace (Z.to_nat ((Z.of_nat (length (fst st)) + 7) ÷ 8)) with ((length (fst st) + 7) / 8)%nat
    by (rewrite Z.quot_div_nonneg by lia; lia).
  pose proof (pack_loop (fst blk) n (map Some (firstn (N.to_nat cap) (snd st))) ((length (fst st) + 7) / 8)%nat (fst st) [] [] eq_refl eq_refl) as HP.
  cbn [app length] in HP. change (N.of_nat 0) with 0 in HP. rewrite HP. cbn [rbind].
  unfold wire_gen. cbn [m_header m_transactions m_hashes m_flags].
  unfold pack_bits. cbn [N.eqb Pos.eqb negb]. change (N.to_nat 8) with 8%nat.
  replace (N.to_nat ((N.of_nat (length (fst st)) + 7) / 8)) with ((length (fst st) + 7) / 8)%nat by lia.
  reflexivity.
Qed.

(* with at most cap final hashes: the model's message *)
Theorem MerkleBlock_calcBlock_tie (n : N) (all : list hash) (mbits : list N) (blk : Block) (fuel : nat) :
  n <= N.of_nat (length mbits) ->
  (N.to_nat n + 34 <= fuel)%nat ->
  (forall st, calc_st n all mbits = Ok st ->
     N.of_nat (length (fst st)) < 2 ^ 32 /\ N.of_nat (length (snd st)) <= cap) ->
  gCB fuel (mb_gen n all mbits ([], [])) blk
  = do st <- calc_st n all mbits;;
    Ok (Some (wire_gen (mkMsg (fst blk) n (snd st) (pack_bits 7 8 8 (fst st)))), mb_gen n all mbits st).
Proof.
  intros Hn Hfuel Hdom. rewrite MerkleBlock_calcBlock_tie_gen; try assumption.
  - destruct (calc_st n all mbits) as [st|e|k] eqn:Est; cbn [rbind]; try reflexivity.
    destruct (Hdom st eq_refl) as [_ Hc]. rewrite firstn_all2 by lia. reflexivity.
  - intros st Hst. apply (Hdom st Hst).
Qed.

(* the same, against mb_calc_block itself *)
Corollary MerkleBlock_calcBlock_msg_tie (n : N) (all : list hash) (mbits : list N) (blk : Block) (fuel : nat) :
  n <= N.of_nat (length mbits) ->
  (N.to_nat n + 34 <= fuel)%nat ->
  (forall st, calc_st n all mbits = Ok st ->
     N.of_nat (length (fst st)) < 2 ^ 32 /\ N.of_nat (length (snd st)) <= cap) ->
  rmap fst (gCB fuel (mb_gen n all mbits ([], [])) blk)
  = rmap (fun m => Some (wire_gen m)) (mb_calc_block node_hash (fst blk) n all mbits).
Proof.
  intros Hn Hfuel Hdom. rewrite MerkleBlock_calcBlock_tie by assumption. rewrite mb_calc_block_st.
  destruct (calc_st n all mbits) as [st|e|k]; reflexivity.
Qed.

End CalcBlock.
Print Assumptions MerkleBlock_calcBlock_tie_gen.
Print Assumptions MerkleBlock_calcBlock_tie.
Print Assumptions MerkleBlock_calcBlock_msg_tie.

(* ---------- NewMerkleBlockWithTxnSet ---------- *)
Section WithTxnSet.
Variable node_hash : hash -> hash -> hash.
Variable cap : N.

Definition gNewTxnSet :=
  Kernels3.NewMerkleBlockWithTxnSet (list N) Block unit hash (hmb node_hash) block_msgblock (add_tx_hash cap)
    (fun b : Block => snd b) (fun h : hash => Some h).

Definition txn_body (txnSet : list (option (list N))) :
  MB * list N -> Z * hash -> res (MB * list N) :=
  fun '(mBlock, matchedIndices) '(txIndex, tx) =>
      do t1_ <- Kernels3.TxInSet (Some tx) txnSet ;;
      let '(mBlock, matchedIndices) :=
        if t1_ then
          let mBlock := (Kernels3.set_merkleblock_MerkleBlock_matchedBits mBlock ((Kernels3.merkleblock_MerkleBlock_matchedBits mBlock) ++ [1])) in
          let matchedIndices := (matchedIndices ++ [(Z.to_N (txIndex mod 2^32))]) in
          (mBlock, matchedIndices)
        else
          let mBlock := (Kernels3.set_merkleblock_MerkleBlock_matchedBits mBlock ((Kernels3.merkleblock_MerkleBlock_matchedBits mBlock) ++ [0])) in
          (mBlock, matchedIndices)
      in
      let mBlock := (Kernels3.set_merkleblock_MerkleBlock_allHashes mBlock ((Kernels3.merkleblock_MerkleBlock_allHashes mBlock) ++ [Some tx])) in
      Ok (mBlock, matchedIndices).

Lemma u32_index (i : nat) : Z.to_N (Z.of_nat i mod 2 ^ 32) = u32 (N.of_nat i).
Proof. unfold u32, two32. change (2 ^ 32)%Z with 4294967296%Z. lia. Qed.

Lemma txn_loop (set : list hash) n fh bs : forall (ls : list hash) (i : nat) all mbits idxs,
  Go.foldM (txn_body (map Some set)) (List.combine (Go.zseq (Z.of_nat i) (length ls)) ls)
    (Kernels3.mk_merkleblock_MerkleBlock n (map Some all) fh mbits bs, idxs)
  = Ok (Kernels3.mk_merkleblock_MerkleBlock n (map Some (all ++ ls)) fh
          (mbits ++ matched_bits 1 0 (map (fun h => tx_in_set h set) ls)) bs,
        idxs ++ matched_indices (N.of_nat i) (map (fun h => tx_in_set h set) ls)).
Proof.
  induction ls as [|x t IH]; intros i all mbits idxs; cbn [length Go.zseq List.combine Go.foldM map matched_bits matched_indices].
  - rewrite !app_nil_r. reflexivity.
  - unfold txn_body at 1. rewrite TxInSet_tie. cbn [rbind].
    replace (Z.of_nat i + 1)%Z with (Z.of_nat (S i)) by lia.
    replace (N.of_nat i + 1) with (N.of_nat (S i)) by lia.
    rewrite u32_index.
    destruct (tx_in_set x set); mbsimpl;
      (replace (map Some all ++ [Some x]) with (map Some (all ++ [x])) by (rewrite map_app; reflexivity));
      rewrite IH; rewrite <- !app_assoc; reflexivity.
Qed.

Lemma matched_bits_length one zero sel : length (matched_bits one zero sel) = length sel.
Proof. induction sel as [|b t IH]; cbn [matched_bits length]; [reflexivity|now rewrite IH]. Qed.

Theorem NewMerkleBlockWithTxnSet_tie (header : list N) (leaves txnset : list hash) (fuel : nat) :
  let n := u32 (N.of_nat (length leaves)) in
  let mbits := matched_bits 1 0 (map (fun h => tx_in_set h txnset) leaves) in
  (N.to_nat n + 34 <= fuel)%nat ->
  (forall st, calc_st node_hash n leaves mbits = Ok st ->
     N.of_nat (length (fst st)) < 2 ^ 32 /\ N.of_nat (length (snd st)) <= cap) ->
  gNewTxnSet fuel (header, leaves) (map Some txnset)
  = rmap (fun mi : msg * list N => (Some (wire_gen (fst mi)), snd mi))
         (mb_new_with_txnset node_hash header leaves txnset).
Proof.
  intros n mbits Hfuel Hdom. unfold gNewTxnSet, Kernels3.NewMerkleBlockWithTxnSet. cbn [snd].
  rewrite u32_len_gen. fold n.
  change (Go.foldM _ ?l ?s) with (Go.foldM (txn_body (map Some txnset)) l s).
  unfold Go.enum.
  pose proof (txn_loop txnset n [] [] leaves 0%nat [] [] []) as HL. cbn [map app Z.of_nat N.of_nat] in HL.
  rewrite HL. cbn [rbind]. clear HL.
  fold mbits.
  match goal with |- context [Kernels3.MerkleBlock_calcBlock ?a ?b ?c ?d ?e ?f ?g ?m ?blk] =>
    change (Kernels3.MerkleBlock_calcBlock a b c d e f g m blk)
      with (gCB node_hash cap fuel (mb_gen n leaves mbits ([], [])) (header, leaves)) end.
  rewrite MerkleBlock_calcBlock_tie; try assumption.
  - rewrite mb_new_with_txnset_eq. cbv zeta. fold n. fold mbits. rewrite mb_calc_block_st.
    destruct (calc_st node_hash n leaves mbits) as [st|e|k]; reflexivity.
  - unfold mbits. rewrite matched_bits_length, map_length. unfold n, u32, two32. lia.
Qed.

(* a partial tree at height h has fewer than 2^(h+1) flag bits *)
Lemma shape_flags_lt n : forall h pos t, shape n h pos t ->
  N.of_nat (length (pmt_flags t)) < 2 ^ N.of_nat (S h).
Proof.
  induction h as [|h' IH]; intros pos t Hs.
  - destruct t; try contradiction. cbn [pmt_flags length]. change (2 ^ N.of_nat 1) with 2. lia.
  - rewrite pow2_S. pose proof (pow2_pos (N.of_nat (S h'))) as Hp.
    destruct t as [m x|x|l|l r]; cbn [shape] in Hs; try contradiction.
    + cbn [pmt_flags length]. lia.
    + destruct Hs as [_ Hl]. apply IH in Hl. cbn [pmt_flags length]. lia.
    + destruct Hs as (_ & Hl & Hr). apply IH in Hl. apply IH in Hr.
      cbn [pmt_flags length]. rewrite app_length. lia.
Qed.

(* In the model's standard domain (0 < number of transactions < 2^31) the side conditions on the
   traversal's output hold, provided the block has at most cap transactions. *)
Theorem NewMerkleBlockWithTxnSet_tie_std (header : list N) (leaves txnset : list hash) (fuel : nat) :
  0 < N.of_nat (length leaves) < 2 ^ 31 ->
  N.of_nat (length leaves) <= cap ->
  (length leaves + 34 <= fuel)%nat ->
  gNewTxnSet fuel (header, leaves) (map Some txnset)
  = rmap (fun mi : msg * list N => (Some (wire_gen (fst mi)), snd mi))
         (mb_new_with_txnset node_hash header leaves txnset).
Proof.
  intros [Hpos Hsmall] Hcap Hfuel.
  assert (u32 (N.of_nat (length leaves)) = N.of_nat (length leaves)) as Hu.
  { apply u32_small. change (2 ^ 31) with 2147483648 in Hsmall. rewrite pow32_val. lia. }
  apply NewMerkleBlockWithTxnSet_tie; rewrite Hu; [lia|].
  intros st Hst. unfold calc_st in Hst.
  destruct (calc_height_ok _ Hsmall) as (H & HH & H31 & Hheight). rewrite HH in Hst. cbn [rbind] in Hst.
  assert ((0 <? N.of_nat (length leaves)) = true) as E by lia. rewrite E in Hst. clear E.
  rewrite Nat2N.id, matched_bits_b2n in Hst.
  set (sel := map (fun h => tx_in_set h txnset) leaves) in *.
  assert (length sel = length leaves) as Hlen by apply map_length.
  rewrite (traverse_build_spec node_hash leaves sel Hlen Hpos Hsmall H 0 ([], []) H31) in Hst
    by (apply width_pos; exact Hpos).
  inversion Hst; subst st; clear Hst. cbn [fst snd app].
  pose proof (spec_tree_shape node_hash leaves sel Hlen Hpos Hsmall H 0) as Hshape.
  split.
  - rewrite map_length. pose proof (shape_flags_lt _ _ _ _ Hshape) as Hf.
    assert (2 ^ N.of_nat (S H) <= 2 ^ 32) by (apply N.pow_le_mono_r; lia). lia.
  - pose proof (shape_hashes_le _ H 0 _ (width_pos _ _ Hpos) Hshape) as Hh. lia.
Qed.

End WithTxnSet.
Print Assumptions NewMerkleBlockWithTxnSet_tie.
Print Assumptions NewMerkleBlockWithTxnSet_tie_std.

(* Tie between the generated translation of bchutil/amount.go (Gen/Kernels4.v: AmountUnit_String,
   bchutil_round, NewAmount, Amount_ToUnit, Amount_ToBCH, Amount_Format, Amount_String,
   Amount_MulF64, over the float prelude of module Go4) and the hand-written model Amount/Amount.v.

   The two files declare their own proofs of [Prec_gt_0 53] and [Prec_lt_emax 53 1024] (Go4's are
   transparent, Amount's opaque).  Both propositions are equalities on [comparison], so their
   proofs are unique (Eqdep_dec.UIP_dec); that bridges every Flocq operation. *)
From Coq Require Import ZArith NArith List Bool Lia ZifyBool Eqdep_dec.
From Flocq Require Import Core IEEE754.BinarySingleNaN.
From BU Require Import Lib.Bytes Amount.Amount Gen.Xbchutil Gen.Kernels4.
Import ListNotations.
Open Scope Z_scope.

(* ---------- proof irrelevance of the precision instances ---------- *)
Lemma comparison_UIP (a b : comparison) (p q : a = b) : p = q.
Proof. apply UIP_dec. decide equality. Qed.

Lemma gt0_irrel (i j : Prec_gt_0 53) : i = j.
Proof. unfold Prec_gt_0, Z.lt in *. apply comparison_UIP. Qed.

Lemma ltemax_irrel (i j : Prec_lt_emax 53 1024) : i = j.
Proof. unfold Prec_lt_emax, Z.lt in *. apply comparison_UIP. Qed.

Lemma gt0_eq : Kernels4.Go4.prec53_gt_0 = Amount.prec53_gt_0.
Proof. apply gt0_irrel. Qed.

Lemma ltemax_eq : Kernels4.Go4.prec53_lt_emax = Amount.prec53_lt_emax.
Proof. apply ltemax_irrel. Qed.

(* ---------- the float prelude ---------- *)
Lemma f64_of_Z_eq z : Go4.f64_of_Z z = of_Z z.
Proof. unfold Go4.f64_of_Z, of_Z. rewrite ?gt0_eq, ?ltemax_eq. reflexivity. Qed.

Lemma f64_mul_eq : Go4.f64_mul = @Bmult 53 1024 Amount.prec53_gt_0 Amount.prec53_lt_emax mode_NE.
Proof. unfold Go4.f64_mul. rewrite ?gt0_eq, ?ltemax_eq. reflexivity. Qed.

Lemma f64_div_eq : Go4.f64_div = @Bdiv 53 1024 Amount.prec53_gt_0 Amount.prec53_lt_emax mode_NE.
Proof. unfold Go4.f64_div. rewrite ?gt0_eq, ?ltemax_eq. reflexivity. Qed.

Lemma math_Round_eq : Go4.math_Round = go_round.
Proof. unfold Go4.math_Round, go_round. rewrite ?gt0_eq, ?ltemax_eq. reflexivity. Qed.

Lemma f64_to_int64_eq f : Go4.f64_to_int64 f = to_int64 f.
Proof. reflexivity. Qed.

Lemma f64_of_pos_ratio_eq p q : Go4.f64_of_pos_ratio p q = rn_ratio p q.
Proof. unfold Go4.f64_of_pos_ratio, rn_ratio. rewrite ?gt0_eq, ?ltemax_eq. reflexivity. Qed.

Lemma pow10tab_eq i : Go4.pow10tab i = pow10tab i.
Proof. apply f64_of_Z_eq. Qed.

Lemma pow10postab32_eq i : Go4.pow10postab32 i = pow10postab32 i.
Proof. apply f64_of_Z_eq. Qed.

Lemma pow10negtab32_eq i : Go4.pow10negtab32 i = pow10negtab32 i.
Proof. apply f64_of_pos_ratio_eq. Qed.

Lemma math_Pow10_eq n : Go4.math_Pow10 n = pow10 n.
Proof.
  unfold Go4.math_Pow10, pow10.
  rewrite f64_mul_eq, f64_div_eq, !pow10tab_eq, pow10postab32_eq, pow10negtab32_eq.
  reflexivity.
Qed.

(* ---------- int wrap-around of the model, inside the int64 range ---------- *)
Lemma wrap64_small z : - 2 ^ 63 <= z < 2 ^ 63 -> wrap64 z = z.
Proof.
  unfold wrap64.
  change (2 ^ 63) with 9223372036854775808. change (2 ^ 64) with 18446744073709551616.
  intros H. rewrite Z.mod_small by lia. lia.
Qed.

(* ---------- the functions of amount.go ---------- *)
Theorem round_tie : forall f, Kernels4.bchutil_round f = Amount.round f.
Proof.
  intros f. unfold Kernels4.bchutil_round, Amount.round.
  rewrite math_Round_eq. apply f64_to_int64_eq.
Qed.
Print Assumptions round_tie.

Theorem NewAmount_tie : forall f,
  Kernels4.NewAmount f = match new_amount f with Ok z => (z, 0%N) | _ => (0, 3%N) end.
Proof.
  intros f. unfold Kernels4.NewAmount, new_amount.
  assert (E : Go4.f64_of_Z 100000000 = f_1e8) by (unfold f_1e8; apply f64_of_Z_eq).
  rewrite E, f64_mul_eq, round_tie.
  destruct f as [s | s | | s m e B]; try reflexivity.
  destruct s; reflexivity.
Qed.
Print Assumptions NewAmount_tie.

Theorem ToUnit_tie : forall a u, - 2 ^ 63 <= u + 8 < 2 ^ 63 ->
  Kernels4.Amount_ToUnit a u = to_unit a u.
Proof.
  intros a u H. unfold Kernels4.Amount_ToUnit, to_unit.
  change lit_ToUnit_8 with 8. rewrite (wrap64_small _ H).
  rewrite f64_div_eq, f64_of_Z_eq, math_Pow10_eq. reflexivity.
Qed.
Print Assumptions ToUnit_tie.

Theorem ToBCH_tie : forall a, Kernels4.Amount_ToBCH a = to_bch a.
Proof.
  intros a. unfold Kernels4.Amount_ToBCH, to_bch. change c_AmountBCH with 0.
  apply ToUnit_tie. change (2 ^ 63) with 9223372036854775808. lia.
Qed.
Print Assumptions ToBCH_tie.

Theorem MulF64_tie : forall a f, Kernels4.Amount_MulF64 a f = mul_f64 a f.
Proof.
  intros a f. unfold Kernels4.Amount_MulF64, mul_f64.
  rewrite round_tie, f64_mul_eq, f64_of_Z_eq. reflexivity.
Qed.
Print Assumptions MulF64_tie.

Theorem AmountUnit_String_tie : forall u,
  Kernels4.AmountUnit_String (fun z b => fmt_int b z) u = unit_string u.
Proof.
  intros u. unfold Kernels4.AmountUnit_String, unit_string.
  change c_AmountMegaBCH with 6. change c_AmountKiloBCH with 3. change c_AmountBCH with 0.
  change c_AmountMilliBCH with (-3). change c_AmountMicroBCH with (-6).
  change c_AmountSatoshi with (-8). change lit_String_base with 10.
  repeat match goal with |- (if ?c then _ else _) = (if ?c then _ else _) =>
    destruct c; [reflexivity|] end.
  reflexivity.
Qed.
Print Assumptions AmountUnit_String_tie.

Theorem Format_tie : forall shortest a u, - 2 ^ 63 < u + 8 < 2 ^ 63 ->
  Kernels4.Amount_Format (fun z b => fmt_int b z)
    (fun f _ p _ => if p <? 0 then shortest f else fmt_fixed f p) a u
  = format shortest a u.
Proof.
  intros shortest a u H. unfold Kernels4.Amount_Format, format.
  change lit_Format_8 with 8.
  assert (H1 : - 2 ^ 63 <= u + 8 < 2 ^ 63) by lia.
  assert (H2 : - 2 ^ 63 <= - (u + 8) < 2 ^ 63) by lia.
  rewrite (wrap64_small _ H1), (wrap64_small _ H2).
  rewrite (ToUnit_tie a u H1), AmountUnit_String_tie.
  reflexivity.
Qed.
Print Assumptions Format_tie.

Theorem String_tie : forall shortest a,
  Kernels4.Amount_String (fun z b => fmt_int b z)
    (fun f _ p _ => if p <? 0 then shortest f else fmt_fixed f p) a
  = amount_string shortest a.
Proof.
  intros shortest a. unfold Kernels4.Amount_String, amount_string. change c_AmountBCH with 0.
  apply Format_tie. change (2 ^ 63) with 9223372036854775808. lia.
Qed.
Print Assumptions String_tie.

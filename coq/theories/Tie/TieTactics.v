(* Small tactics shared by the Tie/KernelsTie*.v files: evaluate closed numeric sub-terms without
   naming the constants of the source. *)
From Coq Require Import NArith List.

Ltac is_pos_cst p := lazymatch p with xH => idtac | xO ?q => is_pos_cst q | xI ?q => is_pos_cst q end.
Ltac is_N_cst n := lazymatch n with N0 => idtac | Npos ?p => is_pos_cst p end.
Ltac is_nat_cst n := lazymatch n with O => idtac | S ?m => is_nat_cst m end.

(* replace the closed term t by its value *)
Ltac eval_term t := let x := eval vm_compute in t in change t with x.

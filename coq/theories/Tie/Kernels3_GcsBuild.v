(* Tie between the generated BuildGCSFilter (Gen/Kernels3.v, from gcs/gcs.go:94) and the model
   Gcs.build (Section WithDeps of Gcs/Gcs.v).

   Dependencies:
     siphash.Sum64(d, &key) is any function [H : list N -> option (list N) -> N]; the model's
       hash is  fun key d => H d (Some key);
     sort.Slice(values, <) is any function [srt : forall A, (A -> A -> bool) -> list A -> list A]; the
       model's sort is  srt N N.ltb  (NO assumption on it is needed for the tie);
     the bit-stream writer is an abstract type B with NewBStreamWriter / WriteBit / WriteBits / Bytes:
       BuildGCSFilter_generic holds for ANY such methods, the Golomb-Rice loop being the structural
       recursion Kernels2_Gcs.g_encode over them; with the bit-list writer (wr_bit, wr_bits, Bytes = pack)
       this is the model (BuildGCSFilter_tie); with the byte/offset machine of Gcs/BStream.v it is
       bs_bytes (bs_encode ..) (BuildGCSFilter_bstream).
   Domain: len(data) is an int: N.of_nat (length data) < 2^64 (beyond that the translation's
   uint64(len(data)) would wrap).
   Fuel: the loop `for value > 0` writes one 1-bit per iteration: quots_fit fuel P 0 values
   (Kernels2_Gcs), i.e. fuel >= every quotient (v - last) >> P of the sorted values; fuel >= 2^64 always
   suffices (Kernels2_Gcs.quots_fit_big), and build_fuel_chain gives fuel >= max / 2^P for a sorted list. *)
From BU Require Import Lib.Bytes Lib.PolyMod Gen.Kernels Gen.Kernels2 Gen.Kernels3 Gcs.SipHash Gcs.Gcs Gcs.GcsProofs
  Gcs.GcsBitsProofs Gcs.GcsMatchProofs Gcs.GcsTheorems Gcs.BStream Tie.KernelsTie Tie.Kernels2Lib Tie.Kernels3Lib Tie.Kernels2_Gcs
  Tie.Kernels3_GcsSer.
From Coq Require Import ZifyBool ZifyN ZifyNat Sorting.Sorted Sorting.Permutation.

Definition hash_of (H : list N -> option (list N) -> N) : list N -> list N -> N :=
  fun key d => H d (Some key).
Definition sort_of (srt : forall A : Type, (A -> A -> bool) -> list A -> list A) : list N -> list N :=
  srt N N.ltb.

(* the sorted hashed values BuildGCSFilter encodes *)
Definition build_values (hash : list N -> list N -> N) (sort : list N -> list N) (M : N) (key : list N)
  (data : list (list N)) : list N :=
  let modnp := w64 (N.of_nat (length data) * M) in
  sort (map (fun d => fast_reduction (hash key d) (N.shiftr modnp 32) (lo32 modnp)) data).

(* Gcs.build with the writer left abstract *)
Definition build_gen {B : Type} (NW : N -> B) (WB : B -> bool -> B) (WBs : B -> N -> Z -> B) (BB : B -> list N)
  (hash : list N -> list N -> N) (sort : list N -> list N) (P M : N) (key : list N) (data : list (list N)) : res filter :=
  let len := N.of_nat (length data) in
  if 4294967296 <=? len then Err 1
  else if 32 <? P then Err 2
  else
    let modnp := w64 (len * M) in
    if len =? 0 then Ok (mkFilter len P modnp [])
    else Ok (mkFilter len P modnp (BB (g_encode WB WBs P 0 (build_values hash sort M key data) (NW 0)))).

Lemma build_gen_list hash sort P M key data :
  build_gen (fun _ => []) wr_bit wr_bits pack hash sort P M key data = build hash sort P M key data.
Proof.
  unfold build_gen, build, build_values.
  change (N.shiftl build_nbase build_nbits) with 4294967296. change build_pmax with 32.
  change build_empty with 0. change build_hshift with 32.
  rewrite g_encode_list. reflexivity.
Qed.

Section Build3.
  Context {B : Type}.
  Variable NW : N -> B.
  Variable WB : B -> bool -> B.
  Variable WBs : B -> N -> Z -> B.
  Variable BB : B -> list N.
  Variable H : list N -> option (list N) -> N.
  Variable srt : forall A : Type, (A -> A -> bool) -> list A -> list A.

  Theorem BuildGCSFilter_generic fuel P M key data :
    N.of_nat (length data) < two64 ->
    quots_fit fuel P 0 (build_values (hash_of H) (sort_of srt) M key data) ->
    Kernels3.BuildGCSFilter B NW H srt WB WBs BB fuel P M key data =
    filter_view (build_gen NW WB WBs BB (hash_of H) (sort_of srt) P M key data).
  Proof using.
    intros Hlen Hfit. unfold Kernels3.BuildGCSFilter, build_gen.
    set (len := length data) in *.
    assert (E64 : Z.to_N (Z.of_nat len mod 2 ^ 64) = N.of_nat len).
    { rewrite Z.mod_small; [lia|]. unfold two64 in Hlen. lia. }
    rewrite E64. cbv zeta.
    destruct (N.leb_spec 4294967296 (N.of_nat len)) as [Hbig|Hsmall]; [reflexivity|].
    destruct (32 <? P); [reflexivity|].
    assert (E32 : Z.to_N (Z.of_nat len mod 2 ^ 32) = N.of_nat len).
    { rewrite Z.mod_small; lia. }
    rewrite E32.
    cbn [Kernels3.set_gcs_Filter_modulusNP Kernels3.set_gcs_Filter_filterData Kernels3.gcs_Filter_n
         Kernels3.gcs_Filter_p Kernels3.gcs_Filter_modulusNP Kernels3.gcs_Filter_filterData].
    rewrite (N.mod_small (N.of_nat len) (2 ^ 64)) by (change (2 ^ 64) with 18446744073709551616; lia).
    rewrite w64_eq.
    destruct (N.of_nat len =? 0); [reflexivity|].
    set (modnp := w64 (N.of_nat len * M)).
    rewrite mod32_mod64.
    rewrite (fold_left_append_map (fun d => Kernels.fastReduction (H d (Some key)) (N.shiftr modnp 32) (modnp mod 2 ^ 32))).
    cbn [app].
    assert (Ev : srt N (fun a_ b_ : N => a_ <? b_)
                   (map (fun d => Kernels.fastReduction (H d (Some key)) (N.shiftr modnp 32) (modnp mod 2 ^ 32)) data)
                 = build_values (hash_of H) (sort_of srt) M key data).
    { unfold build_values, sort_of, hash_of. fold len. fold modnp. cbv zeta. f_equal.
      apply map_ext. intros d. apply fastReduction_tie. }
    rewrite Ev. set (values := build_values _ _ _ _ _) in *.
    pose proof (golomb_generic WB WBs fuel P values (NW 0) Hfit) as Hg.
    unfold Kernels2.BuildGCSFilter_golomb in Hg. cbv zeta in Hg.
    match goal with |- context [Go.foldM ?F0 values ?s0] => set (X := Go.foldM F0 values s0) end.
    change (rbind X (fun '(_, _, _, b) => Ok b) = Ok (g_encode WB WBs P 0 values (NW 0))) in Hg.
    destruct X as [[[[r v] l] b]|e|k]; cbn [rbind] in Hg; try discriminate.
    injection Hg as ->. reflexivity.
  Qed.
End Build3.

Print Assumptions BuildGCSFilter_generic.

(* ---------- instance 1: the bit-list writer = the model ---------- *)
Theorem BuildGCSFilter_tie H srt fuel P M key data :
  N.of_nat (length data) < two64 ->
  quots_fit fuel P 0 (build_values (hash_of H) (sort_of srt) M key data) ->
  Kernels3.BuildGCSFilter (list bool) (fun _ => []) H srt wr_bit wr_bits pack fuel P M key data =
  filter_view (build (hash_of H) (sort_of srt) P M key data).
Proof.
  intros Hlen Hfit. rewrite BuildGCSFilter_generic by assumption. now rewrite build_gen_list.
Qed.

Print Assumptions BuildGCSFilter_tie.

(* ---------- instance 2: the byte/offset machine of Gcs/BStream.v ---------- *)
Theorem BuildGCSFilter_bstream H srt fuel P M key data :
  N.of_nat (length data) < two64 ->
  quots_fit fuel P 0 (build_values (hash_of H) (sort_of srt) M key data) ->
  Kernels3.BuildGCSFilter wstate (fun _ => new_writer) H srt bs_write_bit bsw_bits bs_bytes fuel P M key data =
  filter_view (
    let len := N.of_nat (length data) in
    if 4294967296 <=? len then Err 1
    else if 32 <? P then Err 2
    else if len =? 0 then Ok (mkFilter len P (w64 (len * M)) [])
    else Ok (mkFilter len P (w64 (len * M))
               (bs_bytes (bs_encode P 0 (build_values (hash_of H) (sort_of srt) M key data) new_writer)))).
Proof.
  intros Hlen Hfit. rewrite BuildGCSFilter_generic by assumption. unfold build_gen. cbv zeta.
  rewrite g_encode_bs. reflexivity.
Qed.

Print Assumptions BuildGCSFilter_bstream.

(* ---------- fuel: for an ascending list below 2^64 the quotients are at most v / 2^P ---------- *)
Lemma build_fuel_chain fuel P : forall vals last,
  chain last vals -> last < two64 ->
  Forall (fun v => v / 2 ^ P <= N.of_nat fuel) vals ->
  quots_fit fuel P last vals.
Proof.
  induction vals as [|v t IH]; intros last Hc Hl Hall; cbn [quots_fit]; [exact I|].
  cbn [chain] in Hc. destruct Hc as (Hle & Hv & Hc). inversion Hall as [|? ? Hq Hall']; subst.
  split; [|apply IH; assumption].
  rewrite golomb_quot_eq, sub64_small by assumption.
  assert (Hd : (v - last) / 2 ^ P <= v / 2 ^ P).
  { apply N.div_le_mono; [apply N.pow_nonzero; discriminate | lia]. }
  lia.
Qed.

Print Assumptions build_fuel_chain.

(* with a real sort (sorted permutation) and a 64-bit hash: fuel >= v / 2^P for every value suffices,
   e.g. fuel >= (len(data) * M) / 2^P since every value is below the modulus *)
Lemma build_fuel_sorted fuel P hash sort M key data :
  sort_ok sort -> hash_ok hash ->
  Forall (fun v => v / 2 ^ P <= N.of_nat fuel) (build_values hash sort M key data) ->
  quots_fit fuel P 0 (build_values hash sort M key data).
Proof.
  intros [Hs Hp] Hh Hall. apply build_fuel_chain; [|reflexivity|exact Hall].
  apply sorted_chain; [apply Hs|].
  unfold build_values. cbv zeta. set (modnp := w64 (N.of_nat (length data) * M)).
  apply Forall_forall. intros v Hin.
  apply (Permutation_in _ (Permutation_sym (Hp _))) in Hin.
  apply in_map_iff in Hin. destruct Hin as (d & <- & _).
  apply fast_reduction_lt; [apply Hh | apply N.mod_lt; discriminate].
Qed.

Print Assumptions build_fuel_sorted.

Example build3_example :
  Kernels3.BuildGCSFilter (list bool) (fun _ => []) (fun d _ => hd 0 d * 1000000000000000000) (fun _ _ l => l)
    wr_bit wr_bits pack 8 2 10 [] [[1]; [3]; [7]]
  = filter_view (build (fun _ d => hd 0 d * 1000000000000000000) (fun l => l) 2 10 [] [[1]; [3]; [7]]).
Proof. vm_compute. reflexivity. Qed.

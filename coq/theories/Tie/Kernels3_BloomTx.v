(* Tie between the third-mode transliterations (Gen/Kernels3.v) of bloom/filter.go
   { maybeAddOutpoint, matchTxAndUpdate, MatchTxAndUpdate } and the model Bloom/BloomTx.v instantiated
   by the bloom filter of Bloom/Bloom.v  (F := filter, contains := matches, insert := add,
   id_item := the 32 bytes as stored, op_item := outpoint_bytes), as Bloom/BloomTxBloom.v does.

   The dependencies are the Section variables of the translation (Tx_Hash, Tx_MsgTx, wire.NewOutPoint,
   txscript.GetScriptClass, txscript.PushedData); what is assumed of them:
     NewOutPoint_spec : wire.NewOutPoint(&h, i) = &OutPoint{h, i}
     cls_spec         : the map [cls] from the byte GetScriptClass returns to the model's class names
                        makes exactly the two values the GENERATED code compares with (1 and 5:
                        txscript.PubKeyTy, txscript.MultiSigTy of the linked bchd v0.20.0)
                        "pubkey or multisig".
   A transaction of the translation (abstract Tx_t with tx.Hash(), tx.MsgTx()) is seen as a model
   transaction by [abs_tx] (None when a pointer is nil: tx.Hash(), tx.MsgTx(), an element of TxOut/TxIn);
   an output carries what PushedData / GetScriptClass return for its PkScript, an input its previous
   outpoint and the pushes of its SignatureScript. *)
From BU Require Import Lib.Bytes Lib.PolyMod Gen.Xbloom Gen.Kernels Gen.Kernels2 Gen.Kernels3
  Bloom.Murmur3 Bloom.Bloom Bloom.BloomProofs Bloom.BloomTx Bloom.BloomTxBloom
  Tie.TieTactics Tie.Kernels2Lib Tie.Kernels3Lib Tie.Kernels2_Bloom Tie.Kernels2_BloomOutPoint
  Tie.Kernels3_BloomFilter.
From Coq Require Import ZifyBool ZifyN ZifyNat.

(* ====================================================================== *)
(* generic loop lemmas                                                     *)
(* ====================================================================== *)
(* a loop that breaks with a fixed state on the first element satisfying p *)
Lemma foldC_exists_brk {S R A} (f : S -> A -> res (Go.ctl S R)) (p : A -> bool) (s s1 : S) l :
  (forall x, In x l -> f s x = Ok (if p x then Go.Brk s1 else Go.Next s)) ->
  Go.foldC f l s = Ok (Go.Next (if existsb p l then s1 else s)).
Proof.
  induction l as [|x l IH]; intros H; cbn [Go.foldC existsb]; [reflexivity|].
  rewrite H by (left; reflexivity). destruct (p x); cbn [orb]; [reflexivity|].
  apply IH. intros y Hy. apply H. now right.
Qed.

(* a loop that returns a fixed value on the first element satisfying p *)
Lemma foldC_exists_ret {R A B} (f : unit -> B -> res (Go.ctl unit R)) (inj : A -> B) (p : A -> bool) (r : R) l :
  (forall x, In x l -> f tt (inj x) = Ok (if p x then Go.Ret r else Go.Next tt)) ->
  Go.foldC f (map inj l) tt = Ok (if existsb p l then Go.Ret r else Go.Next tt).
Proof.
  induction l as [|x l IH]; intros H; cbn [Go.foldC existsb map]; [reflexivity|].
  rewrite H by (left; reflexivity). destruct (p x); cbn [orb]; [reflexivity|].
  apply IH. intros y Hy. apply H. now right.
Qed.

Lemma existsb_map' {A B} (p : B -> bool) (g : A -> B) l : existsb p (map g l) = existsb (fun x => p (g x)) l.
Proof. induction l as [|x l IH]; cbn [map existsb]; [reflexivity | now rewrite IH]. Qed.

Fixpoint all_some {A} (l : list (option A)) : option (list A) :=
  match l with
  | [] => Some []
  | Some a :: t => match all_some t with Some r => Some (a :: r) | None => None end
  | None :: _ => None
  end.

Lemma all_some_map {A} (l : list (option A)) r : all_some l = Some r -> l = map Some r.
Proof.
  revert r; induction l as [|[a|] l IH]; intros r H; cbn [all_some] in H.
  - injection H as <-. reflexivity.
  - destruct (all_some l) as [r'|]; [|discriminate H]. injection H as <-. cbn [map]. f_equal. now apply IH.
  - discriminate H.
Qed.

Lemma all_some_of_map {A} (r : list A) : all_some (map Some r) = Some r.
Proof. induction r as [|a r IH]; cbn [map all_some]; [reflexivity | now rewrite IH]. Qed.

(* the flag byte as the generated switch reads it *)
Lemma flag_allows_uflag fl c :
  flag_allows (uflag_of fl) c = if fl =? 1 then true else if fl =? 2 then class_updates c else false.
Proof. destruct fl as [|[[p|p|]|[p|p|]|]]; reflexivity. Qed.

Lemma rbind_eta_pair {A B} (r : res (A * B)) : (do (a, b) <- r ;; Ok (a, b)) = r.
Proof. destruct r as [[a b]|e|k]; reflexivity. Qed.

(* ====================================================================== *)
(* the model instance and what add preserves                               *)
(* ====================================================================== *)
Definition m_maybe_add := maybe_add_outpoint add b_op_item.
Definition m_match_outputs := match_outputs matches add b_op_item.
Definition m_match_tx := match_tx_update matches add b_id_item b_op_item.

(* invariants of the filter through a transaction *)
Definition finv (fuel : nat) (fl : N) (f : filter) : Prop := wf f /\ fuel_ok fuel f /\ flags_of f = fl.

Lemma finv_add fuel fl f x : finv fuel fl f -> finv fuel fl (add f x).
Proof. intros (H1 & H2 & H3). repeat split; [now apply add_wf | now apply add_fuel_ok | now rewrite add_flags]. Qed.

Lemma finv_maybe_add fuel fl u f c h i : finv fuel fl f -> finv fuel fl (m_maybe_add u f c h i).
Proof. intros H. unfold m_maybe_add, maybe_add_outpoint. destruct (flag_allows u c); [now apply finv_add | exact H]. Qed.

Lemma finv_match_outputs fuel fl u h outs : forall i f matched,
  finv fuel fl f -> finv fuel fl (snd (m_match_outputs u h i outs f matched)).
Proof.
  induction outs as [|o outs IH]; intros i f matched H; cbn [m_match_outputs match_outputs snd]; [exact H|].
  destruct (out_hit matches f o); apply IH; [now apply finv_maybe_add | exact H].
Qed.

(* the transaction side of the domain, on the model transaction *)
Definition pushes_ok (ps : option (list (list N))) : Prop :=
  match ps with Some l => Forall data_ok l | None => True end.
Definition hash_ok (h : list N) : Prop := length h = 32%nat /\ Bytes h.
Definition out_ok (o : txout (list N)) : Prop := pushes_ok (o_pushes o).
Definition in_ok (i : txin (list N) (list N)) : Prop := hash_ok (i_hash i) /\ pushes_ok (i_pushes i).
Definition tx_ok (t : tx (list N) (list N)) : Prop :=
  hash_ok (t_id t) /\ Forall out_ok (t_outs t) /\ Forall in_ok (t_ins t)
  /\ N.of_nat (length (t_outs t)) <= 2 ^ 32.      (* uint32(i) of the output index does not wrap *)

Lemma hash_ok_data h : hash_ok h -> data_ok h.
Proof. intros [Hl Hb]. split; [exact Hb | rewrite Hl; reflexivity]. Qed.

Section TxTie.
Variables TokenData_t Tx_t : Type.
Variable Tx_Hash : Tx_t -> option (list N).
Variable wire_NewOutPoint : option (list N) -> N -> option Kernels3.wire_OutPoint.
Variable GetScriptClass : list N -> N.
Variable Tx_MsgTx : Tx_t -> option (Kernels3.wire_MsgTx TokenData_t).
Variable PushedData : list N -> list (list N) * N.
Variable cls : N -> sclass.
Hypothesis NewOutPoint_spec : forall h i, wire_NewOutPoint (Some h) i = Some (Kernels3.mk_wire_OutPoint h i).
Hypothesis cls_spec : forall c, class_updates (cls c) = (c =? 1) || (c =? 5).

Notation gmaybeAdd := (Kernels3.bloom_Filter_maybeAddOutpoint wire_NewOutPoint GetScriptClass).
Notation gmatchTx := (Kernels3.bloom_Filter_matchTxAndUpdate TokenData_t Tx_t Tx_Hash wire_NewOutPoint GetScriptClass Tx_MsgTx PushedData).
Notation gMatchTx := (Kernels3.bloom_Filter_MatchTxAndUpdate TokenData_t Tx_t Tx_Hash wire_NewOutPoint GetScriptClass Tx_MsgTx PushedData).

(* ---------- the abstraction of transactions ---------- *)
Definition pushes_of (script : list N) : option (list (list N)) :=
  let '(ps, e) := PushedData script in if e =? 0 then Some ps else None.
Definition out_of (o : Kernels3.wire_TxOut TokenData_t) : txout (list N) :=
  Build_txout (pushes_of (Kernels3.wire_TxOut_PkScript _ o)) (cls (GetScriptClass (Kernels3.wire_TxOut_PkScript _ o))).
Definition in_of (i : Kernels3.wire_TxIn) : txin (list N) (list N) :=
  Build_txin (Kernels3.wire_OutPoint_Hash (Kernels3.wire_TxIn_PreviousOutPoint i))
             (Kernels3.wire_OutPoint_Index (Kernels3.wire_TxIn_PreviousOutPoint i))
             (pushes_of (Kernels3.wire_TxIn_SignatureScript i)).
Definition abs_tx (t : Tx_t) : option (tx (list N) (list N)) :=
  match Tx_Hash t, Tx_MsgTx t with
  | Some h, Some w =>
      match all_some (Kernels3.wire_MsgTx_TxOut _ w), all_some (Kernels3.wire_MsgTx_TxIn _ w) with
      | Some os, Some is_ => Some (Build_tx h (map out_of os) (map in_of is_))
      | _, _ => None
      end
  | _, _ => None
  end.

Lemma abs_tx_inv t mt :
  abs_tx t = Some mt ->
  exists h w os is_,
    Tx_Hash t = Some h /\ Tx_MsgTx t = Some w /\
    Kernels3.wire_MsgTx_TxOut _ w = map Some os /\ Kernels3.wire_MsgTx_TxIn _ w = map Some is_ /\
    mt = Build_tx h (map out_of os) (map in_of is_).
Proof.
  unfold abs_tx. intros H.
  destruct (Tx_Hash t) as [h|]; [|discriminate H]. destruct (Tx_MsgTx t) as [w|]; [|discriminate H].
  destruct (all_some (Kernels3.wire_MsgTx_TxOut _ w)) as [os|] eqn:Eo; [|discriminate H].
  destruct (all_some (Kernels3.wire_MsgTx_TxIn _ w)) as [is_|] eqn:Ei; [|discriminate H].
  injection H as <-. exists h, w, os, is_. repeat split; auto using all_some_map.
Qed.

(* ====================================================================== *)
(* 7. maybeAddOutpoint                                                     *)
(* ====================================================================== *)
(* Domain: a LOADED filter (the code reads bf.msgFilterLoad.Flags; on an unloaded filter it panics
   with a nil dereference, see _unloaded below, while the model returns the filter unchanged: the
   function is only called after matches returned true, which a nil filter never does), a non-nil
   outHash with 32 bytes, wf, fuel HashFuncs + 1.  The update flag is the loaded message's. *)
Theorem bloom_Filter_maybeAddOutpoint_tie fuel bf pkScript h i :
  is_loaded (absf bf) = true -> hash_ok h -> wf (absf bf) -> fuel_ok fuel (absf bf) ->
  gmaybeAdd fuel bf pkScript (Some h) i
  = Ok (putf bf (m_maybe_add (uflag_of (flags_of (absf bf))) (absf bf) (cls (GetScriptClass pkScript)) h i)).
Proof.
  intros Hld [Hl Hb] Hw Hf. unfold Kernels3.bloom_Filter_maybeAddOutpoint.
  destruct bf as [mtx [w|]]; [|discriminate Hld].
  cbn [Kernels3.bloom_Filter_msgFilterLoad Go3.deref rbind].
  unfold m_maybe_add, maybe_add_outpoint. rewrite flag_allows_uflag, cls_spec.
  cbn [absf option_map Kernels3.bloom_Filter_msgFilterLoad flags_of msg_of m_flags].
  rewrite NewOutPoint_spec. fold (outpoint_of h i).
  destruct (Kernels3.wire_MsgFilterLoad_Flags w =? 1).
  - rewrite bloom_Filter_addOutPoint_tie by assumption. reflexivity.
  - destruct (Kernels3.wire_MsgFilterLoad_Flags w =? 2).
    + destruct ((GetScriptClass pkScript =? 1) || (GetScriptClass pkScript =? 5)).
      * rewrite bloom_Filter_addOutPoint_tie by assumption. reflexivity.
      * cbn [rbind]. rewrite <- (putf_absf (Kernels3.mk_bloom_Filter mtx (Some w))) at 1. reflexivity.
    + cbn [rbind]. rewrite <- (putf_absf (Kernels3.mk_bloom_Filter mtx (Some w))) at 1. reflexivity.
Qed.

Theorem bloom_Filter_maybeAddOutpoint_unloaded fuel bf pkScript oh i :
  absf bf = None -> gmaybeAdd fuel bf pkScript oh i = Panic 5.
Proof. destruct bf as [mtx [w|]]; [discriminate | reflexivity]. Qed.

(* ====================================================================== *)
(* 8. matchTxAndUpdate                                                     *)
(* ====================================================================== *)
(* the output loop, generic in the body: [body] is what the translation produced, its behaviour on one
   output is the hypothesis *)
Lemma out_loop bf0 fuel fl h
      (body : bool * Kernels3.bloom_Filter -> Z * option (Kernels3.wire_TxOut TokenData_t) -> res (bool * Kernels3.bloom_Filter)) :
  (forall matched f i o, finv fuel fl f -> out_ok (out_of o) ->
     body (matched, putf bf0 f) (i, Some o)
     = Ok (if out_hit matches f (out_of o)
           then (true, putf bf0 (m_maybe_add (uflag_of fl) f (o_class (out_of o)) h (Z.to_N (i mod 2 ^ 32))))
           else (matched, putf bf0 f))) ->
  forall os k matched f,
    finv fuel fl f -> Forall out_ok (map out_of os) -> N.of_nat k + N.of_nat (length os) <= 2 ^ 32 ->
    Go.foldM body (combine (Go.zseq (Z.of_nat k) (length os)) (map Some os)) (matched, putf bf0 f)
    = Ok (fst (m_match_outputs (uflag_of fl) h (N.of_nat k) (map out_of os) f matched),
          putf bf0 (snd (m_match_outputs (uflag_of fl) h (N.of_nat k) (map out_of os) f matched))).
Proof.
  intros Hbody. induction os as [|o os IH]; intros k matched f Hinv Hok Hk; [reflexivity|].
  cbn [length Go.zseq map combine Go.foldM m_match_outputs match_outputs].
  inversion Hok as [|? ? Ho Hok']; subst.
  rewrite Hbody by assumption. cbn [length] in Hk.
  replace (Z.to_N (Z.of_nat k mod 2 ^ 32)) with (N.of_nat k)
    by (rewrite Z.mod_small by lia; lia).
  replace (Z.of_nat k + 1)%Z with (Z.of_nat (S k)) by lia.
  replace (N.of_nat k + 1) with (N.of_nat (S k)) by lia.
  destruct (out_hit matches f (out_of o)).
  - apply IH; [now apply finv_maybe_add | exact Hok' | lia].
  - apply IH; [exact Hinv | exact Hok' | lia].
Qed.

(* Domain: abs_tx t = Some mt (no nil pointer in the transaction), tx_ok mt (32-byte ids that are
   bytes, pushed data items that are bytes and shorter than 2^32, at most 2^32 outputs), wf of the
   filter, fuel HashFuncs + 1 (for the calls of add).  The update flag is the loaded message's. *)
Theorem bloom_Filter_matchTxAndUpdate_tie fuel bf t mt :
  abs_tx t = Some mt -> tx_ok mt -> wf (absf bf) -> fuel_ok fuel (absf bf) ->
  gmatchTx fuel bf t
  = Ok (fst (m_match_tx (uflag_of (flags_of (absf bf))) (absf bf) mt),
        putf bf (snd (m_match_tx (uflag_of (flags_of (absf bf))) (absf bf) mt))).
Proof.
  intros Habs Hok Hw Hf.
  destruct (abs_tx_inv t mt Habs) as (h & w & os & is_ & Hh & Hm & Ho & Hi & ->).
  destruct Hok as (Hid & Houts & Hins & Hlen). cbn [t_id t_outs t_ins] in Hid, Houts, Hins, Hlen.
  set (fl := flags_of (absf bf)).
  assert (Hinv : finv fuel fl (absf bf)) by (repeat split; assumption).
  unfold Kernels3.bloom_Filter_matchTxAndUpdate.
  rewrite Hh, Hm. cbn [Go3.deref rbind].
  rewrite bloom_Filter_matches_tie by (auto using hash_ok_data). cbn [rbind].
  rewrite Ho, Hi. unfold Go.enum. rewrite map_length.
  match goal with |- context [Go.foldM ?B _ _] => set (body := B) end.
  unshelve epose proof (out_loop bf fuel fl h body _ os O (matches (absf bf) h) (absf bf) Hinv Houts _) as Hloop;
    [ | rewrite map_length in Hlen; lia | ].
  { (* one output *)
    intros matched f i o Hf' Hoo. subst body. cbn beta iota.
    cbn [Go3.deref rbind].
    unfold out_ok, out_of, out_hit, pushes_of in *. cbn [o_pushes o_class] in *.
    destruct (PushedData (Kernels3.wire_TxOut_PkScript TokenData_t o)) as [ps e].
    destruct (e =? 0); cbn [negb]; [|reflexivity].
    cbn [pushes_ok] in Hoo. destruct Hf' as (Hw' & Hfu' & Hfl').
    erewrite (foldC_exists_brk _ (matches f) (matched, putf bf f)
                (true, putf bf (m_maybe_add (uflag_of fl) f
                     (cls (GetScriptClass (Kernels3.wire_TxOut_PkScript TokenData_t o))) h (Z.to_N (i mod 2 ^ 32))))).
    - cbn [rbind]. destruct (existsb (matches f) ps); reflexivity.
    - intros x Hx. cbn beta iota.
      rewrite bloom_Filter_matches_tie; rewrite ?absf_putf;
        [ | exact (proj1 (Forall_forall _ _) Hoo x Hx) | exact Hw' ].
      cbn [rbind]. destruct (matches f x) eqn:Em; cbn [negb]; [|reflexivity].
      cbn [Go3.deref rbind].
      rewrite bloom_Filter_maybeAddOutpoint_tie; rewrite ?absf_putf; try assumption.
      + cbn [rbind]. rewrite putf_putf, Hfl'. reflexivity.
      + destruct f; [reflexivity | discriminate Em]. }
  change (Z.of_nat 0) with 0%Z in Hloop. rewrite putf_absf in Hloop. rewrite Hloop. clear Hloop.
  cbn [rbind]. unfold m_match_tx, match_tx_update. cbn [t_id t_outs t_ins].
  change (match_outputs matches add b_op_item) with m_match_outputs.
  change (N.of_nat 0) with 0. unfold b_id_item at 1 2.
  pose proof (finv_match_outputs fuel fl (uflag_of fl) h (map out_of os) 0 (absf bf) (matches (absf bf) h) Hinv) as Hinv'.
  destruct (m_match_outputs (uflag_of fl) h 0 (map out_of os) (absf bf) (matches (absf bf) h)) as [mb f'].
  cbn [fst snd] in *. destruct mb; [reflexivity|].
  (* the input loop *)
  destruct Hinv' as (Hw' & _ & _).
  erewrite (foldC_exists_ret _ Some (fun x => in_hit matches b_op_item f' (in_of x)) (true, putf bf f')).
  - cbn [rbind]. rewrite existsb_map'. destruct (existsb _ is_); reflexivity.
  - intros x Hx. cbn [Go3.deref rbind].
    assert (Hxo : in_ok (in_of x)) by (apply (proj1 (Forall_forall _ _) Hins); now apply in_map).
    destruct Hxo as [[Hxl Hxb] Hxp]. unfold in_hit, in_of in *. cbn [i_hash i_index i_pushes] in *.
    destruct (Kernels3.wire_TxIn_PreviousOutPoint x) as [ph pi] eqn:Epo.
    cbn [Kernels3.wire_OutPoint_Hash Kernels3.wire_OutPoint_Index] in *.
    fold (outpoint_of ph pi).
    rewrite bloom_Filter_matchesOutPoint_tie; rewrite ?absf_putf; try assumption.
    cbn [rbind]. unfold matches_outpoint. rewrite outpoint_bytes_agree. unfold b_op_item.
    destruct (matches f' (outpoint_bytes ph pi)); cbn [orb]; [reflexivity|].
    unfold pushes_of in *.
    destruct (PushedData (Kernels3.wire_TxIn_SignatureScript x)) as [ps e].
    destruct (e =? 0); cbn [negb]; [|reflexivity].
    cbn [pushes_ok] in Hxp.
    rewrite <- (map_id ps) at 1.
    erewrite (foldC_exists_ret _ (fun y => y) (matches f') (true, putf bf f')).
    + cbn [rbind]. destruct (existsb (matches f') ps); reflexivity.
    + intros y Hy. rewrite bloom_Filter_matches_tie; rewrite ?absf_putf;
        [ | exact (proj1 (Forall_forall _ _) Hxp y Hy) | exact Hw' ].
      cbn [rbind]. destruct (matches f' y); reflexivity.
Qed.

(* ====================================================================== *)
(* 9. MatchTxAndUpdate                                                     *)
(* ====================================================================== *)
Theorem bloom_Filter_MatchTxAndUpdate_tie fuel bf t mt :
  abs_tx t = Some mt -> tx_ok mt -> wf (absf bf) -> fuel_ok fuel (absf bf) ->
  gMatchTx fuel bf t
  = Ok (fst (m_match_tx (uflag_of (flags_of (absf bf))) (absf bf) mt),
        putf bf (snd (m_match_tx (uflag_of (flags_of (absf bf))) (absf bf) mt))).
Proof.
  intros Ha Ht Hw Hf. unfold Kernels3.bloom_Filter_MatchTxAndUpdate.
  rewrite rbind_eta_pair. now apply bloom_Filter_matchTxAndUpdate_tie.
Qed.

(* the invariants survive a transaction *)
Lemma finv_match_tx fuel fl u f mt : finv fuel fl f -> finv fuel fl (snd (m_match_tx u f mt)).
Proof.
  intros H. unfold m_match_tx, match_tx_update.
  pose proof (finv_match_outputs fuel fl u (t_id mt) (t_outs mt) 0 f (matches f (b_id_item (t_id mt))) H) as H'.
  unfold m_match_outputs in H'.
  destruct (match_outputs matches add b_op_item u (t_id mt) 0 (t_outs mt) f (matches f (b_id_item (t_id mt)))) as [m f'].
  cbn [snd] in H'. destruct m; exact H'.
Qed.

End TxTie.

Print Assumptions bloom_Filter_maybeAddOutpoint_tie.
Print Assumptions bloom_Filter_maybeAddOutpoint_unloaded.
Print Assumptions bloom_Filter_matchTxAndUpdate_tie.
Print Assumptions bloom_Filter_MatchTxAndUpdate_tie.

(* ====================================================================== *)
(* the class map                                                           *)
(* ====================================================================== *)
(* [cls_spec] is satisfiable: the numbering of github.com/gcash/bchd v0.20.0 txscript/standard.go
   (NonStandard 0, PubKey 1, PubKeyHash 2, ScriptHash 3, ScriptHash32 4, MultiSig 5, NullData 6), which is
   what the translator's stub of package txscript declares (harness/cmd/gotrans/t3_base.go; the test
   TestStubConstants compares every constant of the stubs with the linked packages) and where the
   literals 1 and 5 of the generated code come from.
   (An earlier version of the stub omitted ScriptHash32Ty, so that the generated code compared with 4:
   this tie, stated with the real numbering, is what exposed it.) *)
Definition cls_bchd (c : N) : sclass :=
  match c with
  | 0 => ClsNonStandard | 1 => ClsPubKey | 2 => ClsPubKeyHash | 3 => ClsScriptHash
  | 4 => ClsScriptHash32 | 5 => ClsMultiSig | 6 => ClsNullData | n => ClsOther n
  end.
Lemma cls_bchd_spec c : class_updates (cls_bchd c) = (c =? 1) || (c =? 5).
Proof. destruct c as [|[[[p|p|]|[p|p|]|]|[[p|p|]|[p|p|]|]|]]; reflexivity. Qed.
Print Assumptions cls_bchd_spec.

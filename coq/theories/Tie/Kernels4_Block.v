(* Tie between the generated functions at the end of Gen/Kernels4.v and the model Block/Block.v.

   PART A (value translation, continues Tie/Kernels3_Block.v): Block_Bytes, Block_TxLoc, NewBlockFromReader,
   NewBlockFromBytes, NewTxFromReader, NewTxFromBytes.  The wire (de)serialisers and io objects are Section
   variables of the translation; they are instantiated from the model's record W:
     Buffer_t := list N   the bytes written / to be read;  bytes.NewBuffer, Buffer.Bytes := identity
     Reader_t := list N   the unread bytes;  bytes.NewReader := identity, Reader.Len := length
     MsgBlock.Serialize m w := (nil, w ++ serialisation of m)      (ser_g; = ser_block W on g_msg)
     MsgBlock.SerializeSize m := length of that serialisation      (as the model says at new_block_from_bytes)
     MsgBlock.DeserializeTxLoc, MsgBlock.Deserialize, MsgTx.Deserialize: from deser_txloc / deser_block /
       deser_tx of W; where the model says None the dependency returns an arbitrary error value e <> 0.
   The abstraction is g_tx / g_block of Tie/Kernels3_Block.v (the model without its identities).

   PART B (heap variant): hNewTx, hTx_MsgTx, hTx_Hash, hTx_Index, hTx_SetIndex, hBlock_Tx,
   hBlock_Transactions, hBlock_TxHash.  A ( *Tx) is an index into the table heap_Tx; the relation R between a
   model world and (heap, block record) is a simulation for OpTx / OpTxHash / OpTransactions. *)
From BU Require Import Lib.Bytes Lib.PolyMod Gen.Xbchutil Block.Block Block.BlockProofs
  Gen.Kernels2 Gen.Kernels3 Gen.Kernels4 Tie.Kernels2Lib Tie.Kernels3Lib Tie.Kernels3_Block.
From Coq Require Import Lia ZifyBool ZifyN ZifyNat.

(* ---------- generic list facts ---------- *)
Lemma set_at_same {A} (l : list A) : forall k x, nth_error l k = Some x -> Go.set_at l k x = l.
Proof.
  induction l as [|y l IH]; intros [|k] x Hx; cbn [nth_error Go.set_at] in *; try discriminate.
  - congruence.
  - now rewrite IH.
Qed.

Lemma nth_error_set_at_eq {A} (l : list A) : forall k x, (k < length l)%nat -> nth_error (Go.set_at l k x) k = Some x.
Proof.
  induction l as [|y l IH]; intros [|k] x Hk; cbn [length nth_error Go.set_at] in *; try lia; [reflexivity|].
  apply IH. lia.
Qed.

Lemma nth_error_set_at_neq {A} (l : list A) : forall k j x, j <> k -> nth_error (Go.set_at l k x) j = nth_error l j.
Proof.
  induction l as [|y l IH]; intros [|k] [|j] x Hjk; cbn [nth_error Go.set_at]; try reflexivity; try congruence.
  apply IH. congruence.
Qed.

Lemma set_at_app_last {A} (l : list A) x y : Go.set_at (l ++ [x]) (length l) y = l ++ [y].
Proof. apply (set_at_mid l x [] y). Qed.

Lemma prop_nonzero k e : k <> 0%N -> e <> 0%N -> Go3.prop k e <> 0%N.
Proof.
  intros Hk He. unfold Go3.prop. destruct (N.eqb_spec e 0); [contradiction|].
  destruct (N.ltb_spec e Go3.sentinel_base); assumption.
Qed.

Section BlockTie4.
Variables hdr tok : Type.          (* BlockHeader_t, TokenData_t *)
Notation MsgTx := (Kernels3.wire_MsgTx tok).
Notation txc := (option MsgTx).
Notation H := (list N).
Variable W : wire txc hdr H.

Notation gTx := (Kernels3.bchutil_Tx tok).
Notation gBlock := (Kernels3.bchutil_Block hdr tok).
Notation gMsgBlock := (Kernels3.wire_MsgBlock hdr tok).
Notation mtx := (msg_tx txc).
Notation mblock := (msg_block txc hdr).
Notation mwtx := (wtx txc H).
Notation mblk := (block txc hdr H).
Notation mworld := (world txc hdr H).
Notation g_tx := (Kernels3_Block.g_tx tok).
Notation g_slot := (Kernels3_Block.g_slot tok).
Notation g_msg := (Kernels3_Block.g_msg hdr tok).
Notation g_block := (Kernels3_Block.g_block hdr tok).
Notation TxHash := (Kernels3_Block.TxHash hdr tok W).

(* ====================================================================================================== *)
(* PART A                                                                                                 *)
(* ====================================================================================================== *)

(* ---------- the dependencies, from W ---------- *)
(* MsgBlock.Serialize on the translation's value of a *MsgBlock *)
Definition ser_g (om : option gMsgBlock) : list N :=
  match om with
  | Some mb => ser_hdr _ _ _ W (Kernels3.wire_MsgBlock_Header hdr tok mb)
               ++ ser_count _ _ _ W (length (Kernels3.wire_MsgBlock_Transactions hdr tok mb))
               ++ concat (map (ser_tx _ _ _ W) (Kernels3.wire_MsgBlock_Transactions hdr tok mb))
  | None => []
  end.
Definition d_NewBuffer (b : list N) : list N := b.
Definition d_BufferBytes (b : list N) : list N := b.
Definition d_Serialize (om : option gMsgBlock) (w : list N) : N * list N := (0%N, w ++ ser_g om).
Definition d_SerializeSize (om : option gMsgBlock) : Z := Z.of_nat (length (ser_g om)).
Definition d_NewReader (b : list N) : list N := b.
Definition d_ReaderLen (r : list N) : Z := Z.of_nat (length r).

Definition loc_rec (sl : nat * nat) : Kernels4.wire_TxLoc :=
  Kernels4.mk_wire_TxLoc (Z.of_nat (fst sl)) (Z.of_nat (snd sl)).
(* e: the error DeserializeTxLoc returns when the model says None *)
Definition d_DeserializeTxLoc (e : N) (mb : gMsgBlock) (buf : list N) : list Kernels4.wire_TxLoc * N :=
  match deser_txloc _ _ _ W buf with
  | Some l => (map loc_rec l, 0%N)
  | None => ([], e)
  end.
(* e: the error, rfail: what is left in the reader, when the model says None; the message is left as it was *)
Definition d_DeserializeBlock (e : N) (rfail : list N -> list N) (mb : gMsgBlock) (r : list N)
  : N * gMsgBlock * list N :=
  match deser_block _ _ _ W r with
  | Some (h, cs, rest) => (0%N, Kernels3.mk_wire_MsgBlock hdr tok h cs, rest)
  | None => (e, mb, rfail r)
  end.
(* MsgTx.Deserialize fills a MsgTx VALUE (the local `var msgTx wire.MsgTx`), the model's deser_tx returns the
   translation's value of a *MsgTx, an option: a parsed transaction is never nil (hypothesis deser_tx_nonnil) *)
Definition d_DeserializeTx (e : N) (rfail : list N -> list N) (m : MsgTx) (r : list N) : N * MsgTx * list N :=
  match deser_tx _ _ _ W r with
  | Some (Some c, rest) => (0%N, c, rest)
  | Some (None, rest) => (0%N, m, rest)
  | None => (e, m, rfail r)
  end.
Definition deser_tx_nonnil : Prop :=
  forall bytes c rest, deser_tx _ _ _ W bytes = Some (c, rest) -> c <> None.

Lemma ser_g_msg (m : mblock) : ser_g (Some (g_msg m)) = ser_block _ _ _ W m.
Proof.
  unfold ser_g, ser_block, Kernels3_Block.g_msg.
  cbn [Kernels3.wire_MsgBlock_Header Kernels3.wire_MsgBlock_Transactions].
  now rewrite map_length, map_map.
Qed.

(* ================= Block.Bytes ================= *)
(* generic in the serialiser: the generated error branch (site 1) is reachable *)
Theorem Block_Bytes_generic_tie (Buffer_t : Type) (newbuf : list N -> Buffer_t) (bufbytes : Buffer_t -> list N)
    (sersize : option gMsgBlock -> Z) (ser : option gMsgBlock -> Buffer_t -> N * Buffer_t) (b : mblk) :
  Kernels4.Block_Bytes hdr tok Buffer_t newbuf bufbytes sersize ser (g_block b)
  = if negb (Nat.eqb (length (b_ser _ _ _ b)) 0) then Ok (b_ser _ _ _ b, 0%N, g_block b)
    else if (sersize (Some (g_msg (b_msg _ _ _ b))) <? 0)%Z then Panic 6
    else let '(err, buf) := ser (Some (g_msg (b_msg _ _ _ b))) (newbuf []) in
         if negb (err =? 0)%N then Ok ([], Go3.prop 1 err, g_block b)
         else Ok (bufbytes buf, 0%N, g_block (set_ser _ _ _ b (bufbytes buf))).
Proof.
  destruct b as [m s hs hg slots gen]. unfold Kernels4.Block_Bytes, Kernels3_Block.g_block.
  cbn [b_msg b_ser b_hash b_height b_txs b_gen Kernels3.bchutil_Block_serializedBlock
       Kernels3.bchutil_Block_msgBlock set_ser].
  destruct (Nat.eqb_spec (length s) 0) as [Hz|Hz], (Z.eqb_spec (Z.of_nat (length s)) 0) as [Hz'|Hz'];
    try lia; cbn [negb]; [|reflexivity].
  unfold Go3.check_cap. destruct (sersize (Some (g_msg m)) <? 0)%Z; cbn [rbind]; [reflexivity|].
  destruct (ser (Some (g_msg m)) (newbuf [])) as [err buf].
  destruct (negb (err =? 0)%N); reflexivity.
Qed.

Notation Block_Bytes_W :=
  (Kernels4.Block_Bytes hdr tok (list N) d_NewBuffer d_BufferBytes d_SerializeSize d_Serialize).

Theorem Block_Bytes_tie (w : mworld) :
  Block_Bytes_W (g_block (w_blk _ _ _ w))
  = let (w', s) := do_bytes _ _ _ W w in Ok (s, 0%N, g_block (w_blk _ _ _ w')).
Proof.
  rewrite Block_Bytes_generic_tie. unfold do_bytes. change (natlit lits_Block_Bytes 0) with 0%nat.
  destruct (negb (length (b_ser _ _ _ (w_blk _ _ _ w)) =? 0)%nat); [reflexivity|].
  unfold d_SerializeSize, d_Serialize, d_NewBuffer, d_BufferBytes.
  destruct (Z.ltb_spec (Z.of_nat (length (ser_g (Some (g_msg (b_msg _ _ _ (w_blk _ _ _ w))))))) 0); [lia|].
  cbn [N.eqb negb app w_blk]. now rewrite ser_g_msg.
Qed.

(* the same through the model's step function *)
Theorem Block_Bytes_step_tie (w : mworld) :
  match step _ _ _ W w OpBytes with
  | (w', OBytesV _ s) => Block_Bytes_W (g_block (w_blk _ _ _ w)) = Ok (s, 0%N, g_block (w_blk _ _ _ w'))
  | _ => False
  end.
Proof.
  unfold step. rewrite Block_Bytes_tie. destruct (do_bytes _ _ _ W w) as [w' s]. reflexivity.
Qed.

(* ================= Block.TxLoc ================= *)
Section TxLoc.
Variable hnil : hdr.               (* the zero BlockHeader of `var mblock wire.MsgBlock` *)
Variable e : N.
Hypothesis He : e <> 0%N.

Notation Block_TxLoc_W :=
  (Kernels4.Block_TxLoc hdr tok (list N) d_NewBuffer d_BufferBytes d_SerializeSize d_Serialize hnil
     (d_DeserializeTxLoc e)).

(* the model's observation through the translation's conventions: class E_WIRE = the error passed on at site 2 *)
Definition txloc_view (r : mworld * obs H) : res (list Kernels4.wire_TxLoc * N * gBlock) :=
  match r with
  | (w', OLocsV _ l) => Ok (map loc_rec l, 0%N, g_block (w_blk _ _ _ w'))
  | (w', OErr _ _) => Ok ([], Go3.prop 2 e, g_block (w_blk _ _ _ w'))
  | (_, OPanic _ p) => Panic p
  | _ => Panic 0
  end.

Theorem Block_TxLoc_tie (w : mworld) :
  Block_TxLoc_W (g_block (w_blk _ _ _ w)) = txloc_view (step _ _ _ W w OpTxLoc).
Proof using He.
  unfold Kernels4.Block_TxLoc. rewrite Block_Bytes_tie. unfold step.
  destruct (do_bytes _ _ _ W w) as [w' s]. cbn [rbind N.eqb negb].
  unfold d_DeserializeTxLoc, d_NewBuffer.
  destruct (deser_txloc _ _ _ W s) as [l|]; cbn [txloc_view N.eqb negb].
  - reflexivity.
  - destruct (N.eqb_spec e 0); [contradiction|]. reflexivity.
Qed.

(* what the error classes mean on the translation's side *)
Theorem Block_TxLoc_err_tie (w : mworld) :
  match step _ _ _ W w OpTxLoc with
  | (_, OErr _ c) => c = E_WIRE /\ exists l b', Block_TxLoc_W (g_block (w_blk _ _ _ w)) = Ok (l, Go3.prop 2 e, b')
                                              /\ Go3.prop 2 e <> 0%N
  | (_, OLocsV _ _) => exists l b', Block_TxLoc_W (g_block (w_blk _ _ _ w)) = Ok (l, 0%N, b')
  | _ => False
  end.
Proof using He.
  rewrite Block_TxLoc_tie. unfold step. destruct (do_bytes _ _ _ W w) as [w' s].
  destruct (deser_txloc _ _ _ W s) as [l|]; cbn [txloc_view].
  - eauto.
  - split; [reflexivity|]. do 2 eexists. split; [reflexivity|]. apply prop_nonzero; [discriminate|exact He].
Qed.
End TxLoc.

(* ================= NewBlockFromReader / NewBlockFromBytes ================= *)
Lemma map_val_alloc (cs : list txc) : forall next, map (mt_val txc) (alloc_msgs txc next cs) = cs.
Proof. induction cs as [|c cs IH]; intros next; cbn [alloc_msgs map mt_val]; [reflexivity|now rewrite IH]. Qed.

Section FromBytes.
Variable hnil : hdr.
Variable e : N.
Hypothesis He : e <> 0%N.
Variable rfail : list N -> list N.

Notation NewBlockFromReader_W := (Kernels4.NewBlockFromReader hdr tok (list N) hnil (d_DeserializeBlock e rfail)).
Notation NewBlockFromBytes_W :=
  (Kernels4.NewBlockFromBytes hdr tok (list N) d_SerializeSize hnil (d_DeserializeBlock e rfail) d_NewReader d_ReaderLen).

Theorem NewBlockFromReader_tie next (bytes : list N) :
  NewBlockFromReader_W bytes
  = match new_block_from_reader _ _ _ W next bytes with
    | Ok (w, rest) => (Some (g_block (w_blk _ _ _ w)), 0%N, rest)
    | Err _ => (None, Go3.prop 1 e, rfail bytes)         (* the model's class is E_WIRE *)
    | Panic _ => (None, 0%N, bytes)                      (* does not occur *)
    end.
Proof using He.
  unfold Kernels4.NewBlockFromReader, new_block_from_reader, d_DeserializeBlock.
  destruct (deser_block _ _ _ W bytes) as [[[h cs] rest]|].
  - cbn [N.eqb negb w_blk]. unfold Kernels3_Block.g_block, fresh_block, Kernels3_Block.g_msg.
    cbn [b_msg b_ser b_hash b_height b_txs b_gen mb_hdr mb_txs option_map map].
    now rewrite map_val_alloc.
  - destruct (N.eqb_spec e 0); [contradiction|]. reflexivity.
Qed.

Theorem NewBlockFromReader_err_tie next (bytes : list N) :
  match new_block_from_reader _ _ _ W next bytes with
  | Err c => c = E_WIRE /\ fst (fst (NewBlockFromReader_W bytes)) = None /\ snd (fst (NewBlockFromReader_W bytes)) <> 0%N
  | Ok _ => snd (fst (NewBlockFromReader_W bytes)) = 0%N
  | Panic _ => False
  end.
Proof using He.
  rewrite (NewBlockFromReader_tie next). unfold new_block_from_reader.
  destruct (deser_block _ _ _ W bytes) as [[[h cs] rest]|]; cbn [fst snd].
  - reflexivity.
  - repeat split. apply prop_nonzero; [discriminate|exact He].
Qed.

(* No hypothesis about W: when Deserialize leaves more unread bytes than it was given, the model says Panic 2
   and so does Go.slice. *)
Theorem NewBlockFromBytes_tie next (bytes : list N) :
  NewBlockFromBytes_W bytes
  = match new_block_from_bytes _ _ _ W next bytes with
    | Ok w => Ok (Some (g_block (w_blk _ _ _ w)), 0%N)
    | Err _ => Ok (None, Go3.prop 1 (Go3.prop 1 e))      (* the model's class is E_WIRE *)
    | Panic p => Panic p
    end.
Proof using He.
  unfold Kernels4.NewBlockFromBytes, new_block_from_bytes. unfold d_NewReader at 1.
  rewrite (NewBlockFromReader_tie next).
  destruct (new_block_from_reader _ _ _ W next bytes) as [[w rest]|c|p] eqn:Er; cbn [rbind].
  - cbn [N.eqb negb]. unfold d_ReaderLen, Go.slice.
    destruct (Nat.leb_spec (length rest) (length bytes)) as [Hle|Hgt].
    + destruct (Z.ltb_spec 0 0); [lia|].
      destruct (Z.ltb_spec (Z.of_nat (length bytes) - Z.of_nat (length rest)) 0); [lia|].
      destruct (Z.ltb_spec (Z.of_nat (length bytes)) (Z.of_nat (length bytes) - Z.of_nat (length rest))); [lia|].
      cbn [orb rbind Go3.deref]. change (Z.to_nat 0) with 0%nat. cbn [skipn].
      replace (Z.to_nat (Z.of_nat (length bytes) - Z.of_nat (length rest) - 0)) with (length bytes - length rest)%nat by lia.
      set (consumed := firstn (length bytes - length rest) bytes).
      destruct w as [nx [m s hs hg slots gen]].
      cbn [w_blk w_next b_msg Kernels3_Block.g_block b_ser b_hash b_height b_txs b_gen Kernels3.bchutil_Block_msgBlock].
      unfold d_SerializeSize. rewrite ser_g_msg.
      destruct (Nat.eqb_spec (length consumed) (length (ser_block _ _ _ W m))) as [Hs|Hs],
               (Z.eqb_spec (Z.of_nat (length consumed)) (Z.of_nat (length (ser_block _ _ _ W m)))) as [Hs'|Hs'];
        try lia; reflexivity.
    + destruct (Z.ltb_spec 0 0); [lia|].
      destruct (Z.ltb_spec (Z.of_nat (length bytes) - Z.of_nat (length rest)) 0); [|lia]. reflexivity.
  - assert (Hp : negb (Go3.prop 1 e =? 0)%N = true).
    { pose proof (prop_nonzero 1 e ltac:(discriminate) He) as Hn.
      destruct (N.eqb_spec (Go3.prop 1 e) 0); [contradiction|reflexivity]. }
    rewrite Hp. reflexivity.
  - exfalso. unfold new_block_from_reader in Er.
    destruct (deser_block _ _ _ W bytes) as [[[h cs] rest]|]; discriminate.
Qed.

(* ================= NewTxFromReader / NewTxFromBytes ================= *)
Notation NewTxFromReader_W := (Kernels4.NewTxFromReader tok (list N) (d_DeserializeTx e rfail)).
Notation NewTxFromBytes_W := (Kernels4.NewTxFromBytes tok (list N) d_NewReader (d_DeserializeTx e rfail)).

Theorem NewTxFromReader_tie (Hnn : deser_tx_nonnil) next (bytes : list N) :
  NewTxFromReader_W bytes
  = match new_tx_from_reader _ _ _ W next bytes with
    | Ok (_, t, rest) => (Some (g_tx t), 0%N, rest)
    | Err _ => (None, Go3.prop 1 e, rfail bytes)         (* the model's class is E_WIRE *)
    | Panic _ => (None, 0%N, bytes)                      (* does not occur *)
    end.
Proof using He.
  unfold Kernels4.NewTxFromReader, new_tx_from_reader, d_DeserializeTx.
  destruct (deser_tx _ _ _ W bytes) as [[[c|] rest]|] eqn:Ed.
  - reflexivity.
  - exfalso. exact (Hnn _ _ _ Ed eq_refl).
  - destruct (N.eqb_spec e 0); [contradiction|]. reflexivity.
Qed.

Theorem NewTxFromBytes_tie (Hnn : deser_tx_nonnil) next (bytes : list N) :
  NewTxFromBytes_W bytes
  = match new_tx_from_bytes _ _ _ W next bytes with
    | Ok (_, t) => (Some (g_tx t), 0%N)
    | Err _ => (None, Go3.prop 1 (Go3.prop 1 e))         (* the model's class is E_WIRE *)
    | Panic _ => (None, 0%N)                             (* does not occur *)
    end.
Proof using He.
  unfold Kernels4.NewTxFromBytes, new_tx_from_bytes. unfold d_NewReader at 1.
  rewrite (NewTxFromReader_tie Hnn next).
  destruct (new_tx_from_reader _ _ _ W next bytes) as [[[nx t] rest]|c|p]; reflexivity.
Qed.

Theorem NewTxFromBytes_err_tie (Hnn : deser_tx_nonnil) next (bytes : list N) :
  match new_tx_from_bytes _ _ _ W next bytes with
  | Err c => c = E_WIRE /\ fst (NewTxFromBytes_W bytes) = None /\ snd (NewTxFromBytes_W bytes) <> 0%N
  | Ok _ => snd (NewTxFromBytes_W bytes) = 0%N
  | Panic _ => False
  end.
Proof using He.
  rewrite (NewTxFromBytes_tie Hnn next). unfold new_tx_from_bytes, new_tx_from_reader.
  destruct (deser_tx _ _ _ W bytes) as [[c rest]|]; cbn [rbind fst snd].
  - reflexivity.
  - repeat split. apply prop_nonzero; [discriminate|]. apply prop_nonzero; [discriminate|exact He].
Qed.
End FromBytes.


(* ====================================================================================================== *)
(* PART B: the heap variant                                                                               *)
(* ====================================================================================================== *)
Notation gBlockH := (Kernels4.bchutil_Block_h hdr tok).
Notation mkH := (Kernels4.mk_bchutil_Block_h hdr tok).
Notation h_trs := (Kernels4.bchutil_Block_h_transactions hdr tok).
Notation h_msg := (Kernels4.bchutil_Block_h_msgBlock hdr tok).
Notation mkTx := (Kernels3.mk_bchutil_Tx tok).

(* ---------- Go4.hget / Go4.hset ---------- *)
Lemma hget_nth {A} (h : list A) p a : nth_error h (N.to_nat p) = Some a -> Go4.hget h (Some p) = Ok a.
Proof. intros Hn. unfold Go4.hget. now rewrite Hn. Qed.

Lemma hset_nth {A} (h : list A) p a : (N.to_nat p < length h)%nat ->
  Go4.hset h (Some p) a = Ok (Go.set_at h (N.to_nat p) a).
Proof. intros Hlt. unfold Go4.hset. destruct (Nat.ltb_spec (N.to_nat p) (length h)); [reflexivity|lia]. Qed.

(* ---------- the representation relation ---------- *)
(* the block record of the heap variant for a model block, with the given table of indices *)
Definition h_block (b : mblk) (trs : list (option N)) : gBlockH :=
  mkH (Some (g_msg (b_msg _ _ _ b))) (b_ser _ _ _ b) (option_map snd (b_hash _ _ _ b)) (b_height _ _ _ b) trs
      (b_gen _ _ _ b).

(* slot k: nil on both sides, or an index of an object that is the model's wtx without its identities *)
Definition slot_ok (heap : list gTx) (s : option mwtx) (o : option N) : Prop :=
  match s, o with
  | None, None => True
  | Some t, Some p => nth_error heap (N.to_nat p) = Some (g_tx t)
  | _, _ => False
  end.

(* distinct slots hold distinct objects *)
Definition inj_idx (trs : list (option N)) : Prop :=
  forall j k p, nth_error trs j = Some (Some p) -> nth_error trs k = Some (Some p) -> j = k.

Definition Rs (heap : list gTx) (slots : list (option mwtx)) (trs : list (option N)) : Prop :=
  length slots = length trs
  /\ (forall k s o, nth_error slots k = Some s -> nth_error trs k = Some o -> slot_ok heap s o)
  /\ inj_idx trs.

(* message, serialised bytes, hash, height, generated-flag as in g_block; the slots related by Rs *)
Definition R (w : mworld) (hb : list gTx * gBlockH) : Prop :=
  let (heap, gb) := hb in
  exists trs, gb = h_block (w_blk _ _ _ w) trs /\ Rs heap (b_txs _ _ _ (w_blk _ _ _ w)) trs.

(* every index stored in the block is allocated *)
Lemma Rs_bound heap slots trs k p :
  Rs heap slots trs -> nth_error trs k = Some (Some p) -> (N.to_nat p < length heap)%nat.
Proof.
  intros (Hlen & Hs & _) Hk.
  assert (Hlt : (k < length slots)%nat) by (rewrite Hlen; apply nth_error_Some; rewrite Hk; discriminate).
  destruct (nth_error slots k) as [s|] eqn:Es; [|apply nth_error_None in Es; lia].
  specialize (Hs k s (Some p) Es Hk). destruct s as [t|]; cbn [slot_ok] in Hs; [|contradiction].
  apply nth_error_Some. rewrite Hs. discriminate.
Qed.

Theorem R_index_bound_tie w heap gb k p :
  R w (heap, gb) -> nth_error (h_trs gb) k = Some (Some p) -> (N.to_nat p < length heap)%nat.
Proof.
  intros (trs & -> & HRs) Hk. cbn [h_block Kernels4.bchutil_Block_h_transactions] in Hk.
  exact (Rs_bound _ _ _ _ _ HRs Hk).
Qed.

Lemma Rs_nil heap : Rs heap [] [].
Proof.
  split; [reflexivity|]. split.
  - intros [|k] s o Hs; discriminate.
  - intros [|j] k p Hj; discriminate.
Qed.

Lemma Rs_repeat heap n : Rs heap (repeat None n) (repeat None n).
Proof.
  split; [now rewrite !repeat_length|]. split.
  - intros k s o Hs Ho. apply nth_error_repeat_inv in Hs, Ho. subst. exact I.
  - intros j k p Hj. apply nth_error_repeat_inv in Hj. discriminate.
Qed.

Lemma slot_ok_app heap ext s o : slot_ok heap s o -> slot_ok (heap ++ ext) s o.
Proof.
  destruct s as [t|], o as [p|]; cbn [slot_ok]; try tauto.
  intros Hn. rewrite nth_error_app1; [exact Hn|]. apply nth_error_Some. rewrite Hn. discriminate.
Qed.

(* allocation of a new object for an empty slot *)
Lemma Rs_alloc heap slots trs k (t : mwtx) :
  Rs heap slots trs -> nth_error slots k = Some None ->
  Rs (heap ++ [g_tx t]) (upd slots k (Some t)) (Go.set_at trs k (Some (N.of_nat (length heap)))).
Proof.
  intros HRs Hk. pose proof HRs as (Hlen & Hs & Hinj).
  assert (Hlt : (k < length slots)%nat) by (apply nth_error_Some; rewrite Hk; discriminate).
  split; [now rewrite upd_length, set_at_length|]. split.
  - intros j s o Hsj Hoj. destruct (Nat.eq_dec j k) as [->|Hne].
    + rewrite nth_error_upd_eq in Hsj by exact Hlt. rewrite nth_error_set_at_eq in Hoj by lia.
      injection Hsj as <-. injection Hoj as <-. cbn [slot_ok].
      rewrite Nat2N.id, nth_error_app2 by lia. now rewrite Nat.sub_diag.
    + rewrite nth_error_upd_neq in Hsj by exact Hne. rewrite nth_error_set_at_neq in Hoj by exact Hne.
      apply slot_ok_app. exact (Hs j s o Hsj Hoj).
  - intros i j q Hi Hj.
    destruct (Nat.eq_dec i k) as [->|Hik], (Nat.eq_dec j k) as [->|Hjk]; [reflexivity| | |].
    + rewrite nth_error_set_at_eq in Hi by lia. rewrite nth_error_set_at_neq in Hj by exact Hjk.
      injection Hi as <-. pose proof (Rs_bound _ _ _ _ _ HRs Hj). lia.
    + rewrite nth_error_set_at_eq in Hj by lia. rewrite nth_error_set_at_neq in Hi by exact Hik.
      injection Hj as <-. pose proof (Rs_bound _ _ _ _ _ HRs Hi). lia.
    + rewrite nth_error_set_at_neq in Hi by exact Hik. rewrite nth_error_set_at_neq in Hj by exact Hjk.
      exact (Hinj i j q Hi Hj).
Qed.

(* a write through the pointer in slot k: by injectivity no other slot sees it *)
Lemma Rs_write heap slots trs k p (t' : mwtx) :
  Rs heap slots trs -> nth_error trs k = Some (Some p) ->
  Rs (Go.set_at heap (N.to_nat p) (g_tx t')) (upd slots k (Some t')) trs.
Proof.
  intros HRs Hk. pose proof HRs as (Hlen & Hs & Hinj). pose proof (Rs_bound _ _ _ _ _ HRs Hk) as Hp.
  assert (Hlt : (k < length slots)%nat) by (rewrite Hlen; apply nth_error_Some; rewrite Hk; discriminate).
  split; [now rewrite upd_length|]. split; [|exact Hinj].
  intros j s o Hsj Hoj. destruct (Nat.eq_dec j k) as [->|Hne].
  - rewrite nth_error_upd_eq in Hsj by exact Hlt. rewrite Hk in Hoj.
    injection Hsj as <-. injection Hoj as <-. cbn [slot_ok]. now apply nth_error_set_at_eq.
  - rewrite nth_error_upd_neq in Hsj by exact Hne. pose proof (Hs j s o Hsj Hoj) as Hok.
    destruct s as [t0|], o as [q|]; cbn [slot_ok] in *; try tauto.
    rewrite nth_error_set_at_neq; [exact Hok|].
    intros Heq. apply N2Nat.inj in Heq. subst q. exact (Hne (Hinj j k p Hoj Hk)).
Qed.

(* ---------- (1) a block without Tx wrappers is represented with any heap ---------- *)
Definition to_h (gb : gBlock) : gBlockH :=
  mkH (Kernels3.bchutil_Block_msgBlock hdr tok gb) (Kernels3.bchutil_Block_serializedBlock hdr tok gb)
      (Kernels3.bchutil_Block_blockHash hdr tok gb) (Kernels3.bchutil_Block_blockHeight hdr tok gb) []
      (Kernels3.bchutil_Block_txnsGenerated hdr tok gb).

Theorem R_fresh_tie (w : mworld) heap :
  b_txs _ _ _ (w_blk _ _ _ w) = [] -> R w (heap, to_h (g_block (w_blk _ _ _ w))).
Proof.
  intros Hnil. exists []. split; [reflexivity|]. rewrite Hnil. apply Rs_nil.
Qed.

Theorem R_new_block_tie next (m : mblock) heap :
  R (new_block _ _ _ next m) (heap, mkH (Some (g_msg m)) [] None (-1)%Z [] false).
Proof. exact (R_fresh_tie (new_block _ _ _ next m) heap eq_refl). Qed.

(* ---------- (5) tx.go ---------- *)
Theorem hNewTx_tie next (m : mtx) heap :
  Kernels4.hNewTx tok heap (mt_val _ m)
  = (Some (N.of_nat (length heap)), heap ++ [g_tx (snd (new_tx txc H next m))]).
Proof. reflexivity. Qed.

Theorem hTx_MsgTx_tie heap p (t : mwtx) : nth_error heap (N.to_nat p) = Some (g_tx t) ->
  Kernels4.hTx_MsgTx tok heap (Some p) = Ok (mt_val _ (w_msg _ _ t), heap).
Proof. intros Hp. unfold Kernels4.hTx_MsgTx. rewrite (hget_nth _ _ _ Hp). reflexivity. Qed.

Theorem hTx_Index_tie heap p (t : mwtx) : nth_error heap (N.to_nat p) = Some (g_tx t) ->
  Kernels4.hTx_Index tok heap (Some p) = Ok (w_index _ _ t, heap).
Proof. intros Hp. unfold Kernels4.hTx_Index. rewrite (hget_nth _ _ _ Hp). reflexivity. Qed.

Theorem hTx_SetIndex_tie heap p (t : mwtx) i : nth_error heap (N.to_nat p) = Some (g_tx t) ->
  Kernels4.hTx_SetIndex tok heap (Some p) i = Ok (Go.set_at heap (N.to_nat p) (g_tx (set_index _ _ t i))).
Proof.
  intros Hp. unfold Kernels4.hTx_SetIndex. rewrite (hget_nth _ _ _ Hp). cbn [rbind].
  rewrite hset_nth by (apply nth_error_Some; rewrite Hp; discriminate). reflexivity.
Qed.

(* Tx.Hash: the cache is written INTO the table, at the index *)
(* (phase 5) t.msgTx.TxHash() panics on a nil message: the message of t must not be nil *)
Theorem hTx_Hash_tie next heap p (t : mwtx) : mt_val _ (w_msg _ _ t) <> None -> nth_error heap (N.to_nat p) = Some (g_tx t) ->
  Kernels4.hTx_Hash tok TxHash heap (Some p)
  = let '(_, t', ph) := wtx_hash _ _ _ W next t in Ok (Some (snd ph), Go.set_at heap (N.to_nat p) (g_tx t')).
Proof.
  intros Hnn Hp. unfold Kernels4.hTx_Hash. rewrite (hget_nth _ _ _ Hp). cbn [rbind].
  unfold wtx_hash. destruct t as [tp m [[hp hv]|] ix];
    cbn [Kernels3_Block.g_tx w_hash w_msg w_ptr w_index option_map Kernels3.bchutil_Tx_txHash Go3.isnil negb rbind snd] in Hnn |- *.
  - rewrite set_at_same by exact Hp. reflexivity.
  - assert (Hd : forall B (k : res B), (do _ <- Go3.deref (Kernels3.bchutil_Tx_msgTx tok
                 (g_tx {| w_ptr := tp; w_msg := m; w_hash := None; w_index := ix |})) ;; k) = k).
    { intros B k. unfold Kernels3_Block.g_tx. cbn [Kernels3.bchutil_Tx_msgTx w_msg].
      destruct (mt_val txc m) as [x|]; [reflexivity|now elim Hnn]. }
    rewrite Hd.
    rewrite hset_nth by (apply nth_error_Some; rewrite Hp; discriminate). reflexivity.
Qed.

Theorem hTx_nil_tie heap i :
  Kernels4.hTx_MsgTx tok heap None = Panic 5 /\ Kernels4.hTx_Index tok heap None = Panic 5
  /\ Kernels4.hTx_SetIndex tok heap None i = Panic 5 /\ Kernels4.hTx_Hash tok TxHash heap None = Panic 5.
Proof. repeat split. Qed.

Lemma wtx_hash_cached next (t : mwtx) :
  let '(_, t', ph) := wtx_hash _ _ _ W next t in w_hash _ _ t' = Some ph.
Proof. unfold wtx_hash. destruct (w_hash _ _ t) as [ph|] eqn:Eh; [exact Eh|reflexivity]. Qed.

(* NewTx followed by SetIndex on the new object, as both callers do *)
Lemma alloc_setindex heap (c : txc) i :
  Kernels4.hTx_SetIndex tok (heap ++ [mkTx c None (-1)%Z]) (Some (N.of_nat (length heap))) i
  = Ok (heap ++ [mkTx c None i]).
Proof.
  unfold Kernels4.hTx_SetIndex.
  rewrite (hget_nth _ _ (mkTx c None (-1)%Z)) by (rewrite Nat2N.id, nth_error_app2 by lia; now rewrite Nat.sub_diag).
  cbn [rbind]. rewrite hset_nth by (rewrite Nat2N.id, app_length; cbn [length]; lia).
  rewrite Nat2N.id, set_at_app_last. reflexivity.
Qed.


(* ---------- model-side facts about do_tx ---------- *)
Lemma do_tx_ok (w w' : mworld) i k (t : mwtx) :
  do_tx _ _ _ w i = (w', Ok (k, t)) ->
  k = Z.to_nat i /\ (0 <= i < Z.of_nat (length (mb_txs _ _ (b_msg _ _ _ (w_blk _ _ _ w)))))%Z
  /\ b_msg _ _ _ (w_blk _ _ _ w') = b_msg _ _ _ (w_blk _ _ _ w)
  /\ nth_error (b_txs _ _ _ (w_blk _ _ _ w')) k = Some (Some t).
Proof.
  unfold do_tx. change (zlit lits_Block_Tx 0) with 0%Z. change (natlit lits_Block_Tx 2) with 0%nat.
  destruct w as [next [m ser hs hg slots0 gen]]. cbn [w_blk w_next b_msg b_txs b_gen].
  set (n := length (mb_txs _ _ m)).
  destruct ((i <? 0)%Z || (Z.of_nat n <=? i)%Z) eqn:Erange; [discriminate|].
  set (slots := if (length slots0 =? 0)%nat then repeat None n else slots0).
  destruct (nth_error slots (Z.to_nat i)) as [[t0|]|] eqn:Eslot; [| |discriminate].
  - intros Heq. injection Heq as <- <- <-. cbn [w_blk set_txs b_msg b_txs]. repeat split; try lia. exact Eslot.
  - destruct (nth_error (mb_txs _ _ m) (Z.to_nat i)) as [mt|]; [|discriminate].
    unfold new_tx. intros Heq. injection Heq as <- <- <-. cbn [w_blk set_txs b_msg b_txs].
    repeat split; try lia. apply nth_error_upd_eq. apply nth_error_Some. rewrite Eslot. discriminate.
Qed.

(* ---------- (2) Block.Tx ---------- *)
Lemma h_block_set_txs (b : mblk) l g trs :
  h_block (set_txs _ _ _ b l g) trs
  = mkH (Some (g_msg (b_msg _ _ _ b))) (b_ser _ _ _ b) (option_map snd (b_hash _ _ _ b)) (b_height _ _ _ b) trs g.
Proof. reflexivity. Qed.

(* Domain: the index and the number of transactions are below 2^64 (Go's int / len) *)
Theorem hBlock_Tx_tie (w : mworld) heap gb i :
  R w (heap, gb) ->
  (i < 2 ^ 64)%Z -> (Z.of_nat (length (mb_txs _ _ (b_msg _ _ _ (w_blk _ _ _ w)))) < 2 ^ 64)%Z ->
  match do_tx _ _ _ w i with
  | (w', Ok (k, t)) =>
      exists p gb' heap',
        Kernels4.hBlock_Tx hdr tok heap gb i = Ok (Some p, 0%N, gb', heap')
        /\ R w' (heap', gb')
        /\ nth_error (h_trs gb') k = Some (Some p)                  (* p is what slot k holds *)
        /\ nth_error heap' (N.to_nat p) = Some (g_tx t)             (* and it is the model's wtx *)
        /\ exists ext, heap' = heap ++ ext                          (* allocated objects are not touched *)
  | (w', Err c) => c = E_RANGE /\ w' = w /\ Kernels4.hBlock_Tx hdr tok heap gb i = Ok (None, 1%N, gb, heap)
  | (_, Panic q) => Kernels4.hBlock_Tx hdr tok heap gb i = Panic q
  end.
Proof.
  intros (trs0 & -> & HRs0) Hi Hn. destruct w as [next [m ser hs hg slots0 gen]].
  cbn [w_blk b_msg b_txs] in *.
  unfold Kernels4.hBlock_Tx, do_tx, h_block.
  cbn [w_blk w_next b_msg b_ser b_hash b_height b_txs b_gen Kernels4.bchutil_Block_h_msgBlock Go3.deref rbind].
  set (txs := mb_txs _ _ m) in *. set (n := length txs) in *.
  assert (Hgt : Kernels3.wire_MsgBlock_Transactions hdr tok (g_msg m) = map (mt_val _) txs) by reflexivity.
  rewrite !Hgt, !map_length. fold n.
  change (zlit lits_Block_Tx 0) with 0%Z. change (natlit lits_Block_Tx 2) with 0%nat.
  assert (Hcond : ((i <? 0)%Z || (Z.to_N (Z.of_nat n mod 2 ^ 64) <=? Z.to_N (i mod 2 ^ 64))%N)
                  = ((i <? 0)%Z || (Z.of_nat n <=? i)%Z)).
  { destruct (Z.ltb_spec i 0) as [|Hi0]; [reflexivity|]. cbn [orb].
    rewrite !Z.mod_small by lia.
    destruct (N.leb_spec (Z.to_N (Z.of_nat n)) (Z.to_N i)), (Z.leb_spec (Z.of_nat n) i); try reflexivity; lia. }
  rewrite Hcond.
  destruct ((i <? 0)%Z || (Z.of_nat n <=? i)%Z) eqn:Erange; [repeat split|].
  assert (Hi0 : (0 <= i)%Z) by lia.
  set (slots := if (length slots0 =? 0)%nat then repeat None n else slots0).
  set (trs := if (length slots0 =? 0)%nat then repeat None n else trs0).
  assert (HRs : Rs heap slots trs).
  { unfold slots, trs. destruct (length slots0 =? 0)%nat; [apply Rs_repeat|exact HRs0]. }
  pose proof HRs as (Hlen & Hs & Hinj).
  match goal with |- context [Go.idx (h_trs ?X) i] => set (gb := X) end.
  assert (Hb : gb = mkH (Some (g_msg m)) ser (option_map snd hs) hg trs gen).
  { unfold gb, trs. cbn [Kernels4.bchutil_Block_h_transactions].
    replace (N.to_nat (Z.to_N (Z.of_nat n mod 2 ^ 64))) with n by (rewrite Z.mod_small by lia; lia).
    destruct HRs0 as (Hlen0 & _). rewrite <- Hlen0.
    destruct (Nat.eqb_spec (length slots0) 0), (Z.eqb_spec (Z.of_nat (length slots0)) 0); try lia; reflexivity. }
  rewrite Hb. clear Hb gb.
  cbn [Kernels4.bchutil_Block_h_transactions Kernels4.set_bchutil_Block_h_transactions
       Kernels4.bchutil_Block_h_msgBlock Kernels4.bchutil_Block_h_serializedBlock Kernels4.bchutil_Block_h_blockHash
       Kernels4.bchutil_Block_h_blockHeight Kernels4.bchutil_Block_h_txnsGenerated Go3.deref rbind].
  rewrite !idx_Z by exact Hi0.
  set (k := Z.to_nat i) in *.
  destruct (nth_error slots k) as [s|] eqn:Eslot.
  - assert (Hlt : (k < length trs)%nat) by (rewrite <- Hlen; apply nth_error_Some; rewrite Eslot; discriminate).
    destruct (nth_error trs k) as [o|] eqn:Etr; [|apply nth_error_None in Etr; lia].
    assert (Hres : nth_res trs k = Ok o) by (unfold nth_res; now rewrite Etr). rewrite !Hres.
    pose proof (Hs k s o Eslot Etr) as Hok.
    destruct s as [t|], o as [p|]; cbn [slot_ok] in Hok; try contradiction; cbn [rbind Go3.isnil negb].
    + (* the slot is filled: the same index again *)
      exists p, (mkH (Some (g_msg m)) ser (option_map snd hs) hg trs gen), heap.
      split; [reflexivity|]. split; [exists trs; split; [reflexivity|exact HRs]|].
      split; [exact Etr|]. split; [exact Hok|]. exists []. now rewrite app_nil_r.
    + (* the slot is empty: a new object at the end of the table *)
      rewrite Hgt, nth_res_map.
      destruct (nth_error txs k) as [mt|] eqn:Etx; cbn [rbind]; [|reflexivity].
      unfold Kernels4.hNewTx. rewrite alloc_setindex. cbn [rbind].
      rewrite upd_Z by assumption. cbn [rbind]. fold k.
      unfold new_tx.
      set (t := set_index txc H (mk_wtx txc H next mt None c_TxIndexUnknown) i).
      change (mkTx (mt_val _ mt) None i) with (g_tx t).
      exists (N.of_nat (length heap)),
             (mkH (Some (g_msg m)) ser (option_map snd hs) hg (Go.set_at trs k (Some (N.of_nat (length heap)))) gen),
             (heap ++ [g_tx t]).
      split; [reflexivity|].
      split; [eexists; split; [reflexivity|]; cbn [w_blk set_txs b_txs]; now apply Rs_alloc|].
      cbn [Kernels4.bchutil_Block_h_transactions].
      split; [now apply nth_error_set_at_eq|].
      split; [rewrite Nat2N.id, nth_error_app2 by lia; now rewrite Nat.sub_diag|].
      eexists; reflexivity.
  - assert (Etr : nth_error trs k = None).
    { apply nth_error_None. rewrite <- Hlen. now apply nth_error_None. }
    unfold nth_res at 1. rewrite Etr. reflexivity.
Qed.


(* the same through the model's step function: what the caller observes of the returned object *)
Theorem hBlock_Tx_step_tie (w : mworld) heap gb i :
  R w (heap, gb) ->
  (i < 2 ^ 64)%Z -> (Z.of_nat (length (mb_txs _ _ (b_msg _ _ _ (w_blk _ _ _ w)))) < 2 ^ 64)%Z ->
  match step _ _ _ W w (OpTx i) with
  | (w', OTxV _ v) =>
      exists p gb' heap' t,
        Kernels4.hBlock_Tx hdr tok heap gb i = Ok (Some p, 0%N, gb', heap')
        /\ R w' (heap', gb')
        /\ nth_error (h_trs gb') (Z.to_nat i) = Some (Some p)
        /\ nth_error heap' (N.to_nat p) = Some (g_tx t) /\ view _ _ t = v
  | (w', OErr _ c) => c = E_RANGE /\ w' = w /\ Kernels4.hBlock_Tx hdr tok heap gb i = Ok (None, 1%N, gb, heap)
  | (_, OPanic _ q) => Kernels4.hBlock_Tx hdr tok heap gb i = Panic q
  | _ => False
  end.
Proof.
  intros HR Hi Hn. pose proof (hBlock_Tx_tie w heap gb i HR Hi Hn) as Htx. unfold step.
  destruct (do_tx _ _ _ w i) as [w1 [[k t]|c|q]] eqn:Edo; cbn [of_res snd].
  - destruct Htx as (p & gb1 & heap1 & Hcall & HR1 & Hslot & Hobj & _).
    destruct (do_tx_ok _ _ _ _ _ Edo) as (Hk & _). subst k.
    exists p, gb1, heap1, t. auto.
  - exact Htx.
  - exact Htx.
Qed.

(* ---------- (3) Block.TxHash ---------- *)
(* The value translation could not express this function: tx.Hash() writes the cache through the pointer that
   b.transactions[txNum] also holds.  Here the write goes to heap[p], and slot k of the block holds p: R is
   preserved with the model's  upd (b_txs ..) k (Some t'). *)
(* (phase 5) tx.Hash() panics on a wrapped transaction whose message is nil: the transaction Tx(i) yields must
   have a message (tx_msg_ok); true of every world built from a deserialised block (deser_tx_nonnil) *)
Definition tx_msg_ok (w : mworld) (i : Z) : Prop :=
  forall w1 k t, do_tx _ _ _ w i = (w1, Ok (k, t)) -> mt_val _ (w_msg _ _ t) <> None.

Theorem hBlock_TxHash_tie (w : mworld) heap gb i :
  tx_msg_ok w i ->
  R w (heap, gb) ->
  (i < 2 ^ 64)%Z -> (Z.of_nat (length (mb_txs _ _ (b_msg _ _ _ (w_blk _ _ _ w)))) < 2 ^ 64)%Z ->
  match step _ _ _ W w (OpTxHash i) with
  | (w', OHashV _ _ hv) =>
      exists gb' heap',
        Kernels4.hBlock_TxHash hdr tok TxHash heap gb i = Ok (Some hv, 0%N, gb', heap')
        /\ R w' (heap', gb')
        /\ exists p x, nth_error (h_trs gb') (Z.to_nat i) = Some (Some p)     (* the object in the slot .. *)
                       /\ nth_error heap' (N.to_nat p) = Some x
                       /\ Kernels3.bchutil_Tx_txHash tok x = Some hv          (* .. has the hash cached *)
  | (w', OErr _ c) =>
      c = E_RANGE /\ w' = w /\ Kernels4.hBlock_TxHash hdr tok TxHash heap gb i = Ok (None, Go3.prop 1 1, gb, heap)
  | (_, OPanic _ q) => Kernels4.hBlock_TxHash hdr tok TxHash heap gb i = Panic q
  | _ => False
  end.
Proof.
  intros Hok HR Hi Hn. pose proof (hBlock_Tx_tie w heap gb i HR Hi Hn) as Htx.
  unfold step, Kernels4.hBlock_TxHash.
  destruct (do_tx _ _ _ w i) as [w1 [[k t]|c|q]] eqn:Edo.
  - destruct Htx as (p & gb1 & heap1 & Hcall & HR1 & Hslot & Hobj & _).
    destruct (do_tx_ok _ _ _ _ _ Edo) as (Hk & _ & _ & _).
    rewrite Hcall. cbn [rbind N.eqb negb].
    rewrite (hTx_Hash_tie (w_next _ _ _ w1) heap1 p t (Hok _ _ _ Edo) Hobj).
    pose proof (wtx_hash_cached (w_next _ _ _ w1) t) as Hc.
    destruct (wtx_hash _ _ _ W (w_next _ _ _ w1) t) as [[n' t'] ph]. cbn [rbind fst snd].
    destruct HR1 as (trs1 & -> & HRs1). cbn [h_block Kernels4.bchutil_Block_h_transactions] in Hslot.
    exists (h_block (w_blk _ _ _ w1) trs1), (Go.set_at heap1 (N.to_nat p) (g_tx t')).
    split; [reflexivity|]. split.
    + exists trs1. split; [reflexivity|]. cbn [w_blk set_txs b_txs]. now apply Rs_write.
    + exists p, (g_tx t'). cbn [h_block Kernels4.bchutil_Block_h_transactions]. rewrite <- Hk.
      split; [exact Hslot|]. split.
      * apply nth_error_set_at_eq. exact (Rs_bound _ _ _ _ _ HRs1 Hslot).
      * cbn [Kernels3_Block.g_tx Kernels3.bchutil_Tx_txHash]. rewrite Hc. reflexivity.
  - destruct Htx as (-> & -> & Hcall). rewrite Hcall. cbn [rbind]. repeat split.
  - rewrite Htx. reflexivity.
Qed.

(* ---------- the identity statement ---------- *)
(* code level: a filled slot is handed out again, nothing changes *)
Lemma hBlock_Tx_hit heap (gb : gBlockH) mb i p :
  h_msg gb = Some mb ->
  (0 <= i < Z.of_nat (length (Kernels3.wire_MsgBlock_Transactions hdr tok mb)))%Z ->
  (Z.of_nat (length (Kernels3.wire_MsgBlock_Transactions hdr tok mb)) < 2 ^ 64)%Z ->
  nth_error (h_trs gb) (Z.to_nat i) = Some (Some p) ->
  Kernels4.hBlock_Tx hdr tok heap gb i = Ok (Some p, 0%N, gb, heap).
Proof.
  intros Hm Hi Hn Hp. unfold Kernels4.hBlock_Tx. rewrite Hm. cbn [Go3.deref rbind].
  set (n := length (Kernels3.wire_MsgBlock_Transactions hdr tok mb)) in *.
  destruct (Z.ltb_spec i 0) as [|_]; [lia|]. cbn [orb].
  rewrite !Z.mod_small by lia.
  destruct (N.leb_spec (Z.to_N (Z.of_nat n)) (Z.to_N i)); [lia|].
  assert (Hne : (Z.of_nat (length (h_trs gb)) =? 0)%Z = false).
  { assert (Z.to_nat i < length (h_trs gb))%nat by (apply nth_error_Some; rewrite Hp; discriminate).
    destruct (Z.eqb_spec (Z.of_nat (length (h_trs gb))) 0); [lia|reflexivity]. }
  rewrite Hne. rewrite !idx_Z by lia.
  assert (Hres : nth_res (h_trs gb) (Z.to_nat i) = Ok (Some p)) by (unfold nth_res; now rewrite Hp).
  rewrite !Hres. reflexivity.
Qed.

(* b.Tx(i), then b.TxHash(i), then b.Tx(i) again: the SAME object p, and heap[p] has the hash cached - the
   TxHash call wrote into the object that the first caller of Tx still holds *)
Theorem TxHash_shared_tie (w : mworld) heap gb i p e gb1 heap1 :
  tx_msg_ok w i -> tx_msg_ok (fst (do_tx _ _ _ w i)) i ->
  R w (heap, gb) ->
  (i < 2 ^ 64)%Z -> (Z.of_nat (length (mb_txs _ _ (b_msg _ _ _ (w_blk _ _ _ w)))) < 2 ^ 64)%Z ->
  Kernels4.hBlock_Tx hdr tok heap gb i = Ok (Some p, e, gb1, heap1) ->
  exists hv heap2 x,
    Kernels4.hBlock_TxHash hdr tok TxHash heap1 gb1 i = Ok (Some hv, 0%N, gb1, heap2)
    /\ Kernels4.hBlock_Tx hdr tok heap2 gb1 i = Ok (Some p, 0%N, gb1, heap2)
    /\ nth_error heap2 (N.to_nat p) = Some x /\ Kernels3.bchutil_Tx_txHash tok x = Some hv
    /\ length heap2 = length heap1
    /\ (* and this is the model's step, with R preserved *)
       let w1 := fst (do_tx _ _ _ w i) in
       R w1 (heap1, gb1) /\ R (fst (step _ _ _ W w1 (OpTxHash i))) (heap2, gb1)
       /\ exists hp, snd (step _ _ _ W w1 (OpTxHash i)) = OHashV _ hp hv.
Proof.
  intros Hok Hok1 HR Hi Hn Hcall. pose proof (hBlock_Tx_tie w heap gb i HR Hi Hn) as Htx.
  destruct (do_tx _ _ _ w i) as [w1 [[k t]|c|q]] eqn:Edo; cbn [fst] in Hok1.
  2:{ destruct Htx as (_ & _ & Hc). rewrite Hc in Hcall. discriminate. }
  2:{ rewrite Htx in Hcall. discriminate. }
  destruct Htx as (p' & gb' & heap' & Hc & HR1 & Hslot & Hobj & _).
  rewrite Hc in Hcall. injection Hcall as <- <- <- <-.
  destruct (do_tx_ok _ _ _ _ _ Edo) as (Hk & Hrange & Hmsg & _). subst k.
  pose proof HR1 as (trs1 & Hgb & HRs1).
  assert (Hm1 : h_msg gb' = Some (g_msg (b_msg _ _ _ (w_blk _ _ _ w1)))) by (rewrite Hgb; reflexivity).
  assert (Hlen1 : length (Kernels3.wire_MsgBlock_Transactions hdr tok (g_msg (b_msg _ _ _ (w_blk _ _ _ w1))))
                  = length (mb_txs _ _ (b_msg _ _ _ (w_blk _ _ _ w)))).
  { rewrite Hmsg. unfold Kernels3_Block.g_msg. cbn [Kernels3.wire_MsgBlock_Transactions]. now rewrite map_length. }
  assert (Hhit : forall hp, Kernels4.hBlock_Tx hdr tok hp gb' i = Ok (Some p', 0%N, gb', hp)).
  { intros hp. apply (hBlock_Tx_hit hp gb' _ i p' Hm1); rewrite ?Hlen1; assumption. }
  pose proof (wtx_hash_cached (w_next _ _ _ w1) t) as Hcached.
  assert (Hhash : Kernels4.hBlock_TxHash hdr tok TxHash heap' gb' i
                  = let '(_, t', ph) := wtx_hash _ _ _ W (w_next _ _ _ w1) t in
                    Ok (Some (snd ph), 0%N, gb', Go.set_at heap' (N.to_nat p') (g_tx t'))).
  { unfold Kernels4.hBlock_TxHash. rewrite Hhit. cbn [rbind N.eqb negb].
    rewrite (hTx_Hash_tie (w_next _ _ _ w1) heap' p' t (Hok _ _ _ Edo) Hobj).
    destruct (wtx_hash _ _ _ W (w_next _ _ _ w1) t) as [[n' t'] ph]. reflexivity. }
  (* the model's step from w1 *)
  assert (Hn1 : (Z.of_nat (length (mb_txs _ _ (b_msg _ _ _ (w_blk _ _ _ w1)))) < 2 ^ 64)%Z) by (rewrite Hmsg; exact Hn).
  pose proof (hBlock_TxHash_tie w1 heap' gb' i Hok1 HR1 Hi Hn1) as Hstep.
  destruct (wtx_hash _ _ _ W (w_next _ _ _ w1) t) as [[n' t'] ph] eqn:Ew.
  exists (snd ph), (Go.set_at heap' (N.to_nat p') (g_tx t')), (g_tx t').
  split; [exact Hhash|]. split; [apply Hhit|].
  assert (Hplt : (N.to_nat p' < length heap')%nat) by (apply nth_error_Some; rewrite Hobj; discriminate).
  split; [now apply nth_error_set_at_eq|].
  split; [cbn [Kernels3_Block.g_tx Kernels3.bchutil_Tx_txHash]; rewrite Hcached; reflexivity|].
  split; [apply set_at_length|].
  cbn [fst]. split; [exact HR1|].
  destruct (step _ _ _ W w1 (OpTxHash i)) as [w2 o2]. cbn [fst snd].
  destruct o2 as [c|q|v|l|hp hv|bs|l|z|ptr|]; try contradiction.
  - destruct Hstep as (_ & _ & Hc2). rewrite Hc2 in Hhash. discriminate.
  - rewrite Hstep in Hhash. discriminate.
  - destruct Hstep as (gb2 & heap2 & Hc2 & HR2 & _). rewrite Hc2 in Hhash.
    injection Hhash as -> -> ->. split; [exact HR2|]. exists hp. reflexivity.
Qed.


(* ---------- (4) Block.Transactions ---------- *)
(* the body of the loop L137-L143, as generated: the state is the block record and the table *)
Definition loopH : gBlockH * list gTx -> Z -> res (gBlockH * list gTx) :=
  fun '(b, heap_Tx) i =>
  do tx <- Go.idx (h_trs b) i ;;
  do st' <- (
    if Go3.isnil tx then
      do t2_ <- Go3.deref (h_msg b) ;;
      do t3_ <- Go.idx (Kernels3.wire_MsgBlock_Transactions hdr tok t2_) i ;;
      let '(t4_, t5_) := Kernels4.hNewTx tok heap_Tx t3_ in
      let heap_Tx := t5_ in
      let newTx := t4_ in
      do t6_ <- Kernels4.hTx_SetIndex tok heap_Tx newTx i ;;
      let heap_Tx := t6_ in
      do t7_ <- Go.upd (h_trs b) i newTx ;;
      let b := Kernels4.set_bchutil_Block_h_transactions hdr tok b t7_ in
      Ok (b, heap_Tx)
    else
      Ok (b, heap_Tx)
  ) ;;
  let '(b, heap_Tx) := st' in
  Ok (b, heap_Tx).
(* (the binder `fun '(b, heap_Tx) i` is a match that returns a function of i, as in the generated text) *)

Lemma hfill_loop (b : mblk) (rest : list (option mwtx)) : forall (rtr : list (option N)) done dtr heap next,
  length done = length dtr ->
  Rs heap (done ++ rest) (dtr ++ rtr) ->
  match fill txc H next (length done) (mb_txs _ _ (b_msg _ _ _ b)) rest with
  | Ok (_, rest') =>
      exists rtr' heap',
        Go.foldM loopH (Go.zseq (Z.of_nat (length done)) (length rest)) (h_block b (dtr ++ rtr), heap)
        = Ok (h_block b (dtr ++ rtr'), heap')
        /\ Rs heap' (done ++ rest') (dtr ++ rtr')
        /\ exists ext, heap' = heap ++ ext
  | Err e => Go.foldM loopH (Go.zseq (Z.of_nat (length done)) (length rest)) (h_block b (dtr ++ rtr), heap) = Err e
  | Panic p => Go.foldM loopH (Go.zseq (Z.of_nat (length done)) (length rest)) (h_block b (dtr ++ rtr), heap) = Panic p
  end.
Proof.
  induction rest as [|s rest IH]; intros rtr done dtr heap next Hd HRs.
  - cbn [fill length Go.zseq Go.foldM].
    assert (rtr = []) as ->.
    { destruct HRs as (Hlen & _). rewrite !app_length in Hlen. cbn [length] in Hlen.
      destruct rtr; [reflexivity|cbn [length] in Hlen; lia]. }
    exists [], heap. split; [reflexivity|]. split; [exact HRs|]. exists []. now rewrite app_nil_r.
  - pose proof HRs as (Hlen & Hs & Hinj).
    destruct rtr as [|o rtr]; [rewrite !app_length in Hlen; cbn [length] in Hlen; lia|].
    assert (Hok : slot_ok heap s o).
    { apply (Hs (length done)).
      - rewrite nth_error_app2 by lia. now rewrite Nat.sub_diag.
      - rewrite Hd, nth_error_app2 by lia. now rewrite Nat.sub_diag. }
    (* what the rest of the loop does once slot (length done) holds t' / p' *)
    assert (Hnext : forall (t' : mwtx) p' heap1 next',
      Rs heap1 (done ++ Some t' :: rest) (dtr ++ Some p' :: rtr) ->
      match (do r <- fill txc H next' (S (length done)) (mb_txs _ _ (b_msg _ _ _ b)) rest ;; Ok (fst r, Some t' :: snd r)) with
      | Ok (_, rest') =>
          exists rtr' heap',
            Go.foldM loopH (Go.zseq (Z.of_nat (length done) + 1) (length rest)) (h_block b (dtr ++ Some p' :: rtr), heap1)
            = Ok (h_block b (dtr ++ rtr'), heap')
            /\ Rs heap' (done ++ rest') (dtr ++ rtr')
            /\ exists ext, heap' = heap1 ++ ext
      | Err e => Go.foldM loopH (Go.zseq (Z.of_nat (length done) + 1) (length rest)) (h_block b (dtr ++ Some p' :: rtr), heap1) = Err e
      | Panic p => Go.foldM loopH (Go.zseq (Z.of_nat (length done) + 1) (length rest)) (h_block b (dtr ++ Some p' :: rtr), heap1) = Panic p
      end).
    { intros t' p' heap1 next' HRs1.
      assert (Hd1 : length (done ++ [Some t']) = length (dtr ++ [Some p'])) by (rewrite !app_length; cbn [length]; lia).
      assert (HRs1' : Rs heap1 ((done ++ [Some t']) ++ rest) ((dtr ++ [Some p']) ++ rtr)) by (now rewrite <- !app_assoc).
      pose proof (IH rtr (done ++ [Some t']) (dtr ++ [Some p']) heap1 next' Hd1 HRs1') as HI.
      replace (length (done ++ [Some t'])) with (S (length done)) in HI by (rewrite app_length; cbn [length]; lia).
      replace (Z.of_nat (S (length done))) with (Z.of_nat (length done) + 1)%Z in HI by lia.
      rewrite <- !app_assoc in HI. cbn [app] in HI.
      destruct (fill txc H next' (S (length done)) (mb_txs _ _ (b_msg _ _ _ b)) rest) as [[n' r']|e|q]; cbn [rbind fst snd].
      - destruct HI as (rtr' & heap' & Hf & HR' & Hext). exists (Some p' :: rtr'), heap'.
        rewrite <- ?app_assoc in Hf. rewrite <- ?app_assoc in HR'. cbn [app] in Hf, HR'.
        split; [exact Hf|]. split; [exact HR'|exact Hext].
      - exact HI.
      - exact HI. }
    cbn [length Go.zseq Go.foldM fill].
    assert (Hidx : Go.idx (dtr ++ o :: rtr) (Z.of_nat (length done)) = Ok o) by (rewrite Hd; apply idx_mid).
    destruct s as [t|], o as [p|]; cbn [slot_ok] in Hok; try contradiction.
    + assert (Hstep : loopH (h_block b (dtr ++ Some p :: rtr), heap) (Z.of_nat (length done))
                      = Ok (h_block b (dtr ++ Some p :: rtr), heap)).
      { unfold loopH. cbn [h_block Kernels4.bchutil_Block_h_transactions]. rewrite Hidx. reflexivity. }
      rewrite Hstep. apply Hnext. exact HRs.
    + destruct (nth_error (mb_txs _ _ (b_msg _ _ _ b)) (length done)) as [mt|] eqn:Etx.
      * unfold new_tx.
        set (t := set_index txc H (mk_wtx txc H next mt None c_TxIndexUnknown) (Z.of_nat (length done))).
        assert (Hstep : loopH (h_block b (dtr ++ None :: rtr), heap) (Z.of_nat (length done))
                        = Ok (h_block b (dtr ++ Some (N.of_nat (length heap)) :: rtr), heap ++ [g_tx t])).
        { unfold loopH. cbn [h_block Kernels4.bchutil_Block_h_transactions Kernels4.bchutil_Block_h_msgBlock].
          rewrite Hidx. cbn [rbind Go3.isnil Go3.deref].
          change (Kernels3.wire_MsgBlock_Transactions hdr tok (g_msg (b_msg _ _ _ b)))
            with (map (mt_val txc) (mb_txs _ _ (b_msg _ _ _ b))).
          rewrite idx_nat, nth_res_map, Etx. cbn [rbind].
          unfold Kernels4.hNewTx. rewrite alloc_setindex. cbn [rbind].
          rewrite Hd at 1. rewrite upd_mid. reflexivity. }
        rewrite Hstep.
        assert (HRs1 : Rs (heap ++ [g_tx t]) (done ++ Some t :: rest) (dtr ++ Some (N.of_nat (length heap)) :: rtr)).
        { pose proof (Rs_alloc heap (done ++ None :: rest) (dtr ++ None :: rtr) (length done) t HRs) as HA.
          rewrite upd_mid' in HA. rewrite Hd in HA at 2. rewrite set_at_mid in HA.
          apply HA. rewrite nth_error_app2 by lia. now rewrite Nat.sub_diag. }
        pose proof (Hnext t (N.of_nat (length heap)) (heap ++ [g_tx t]) (next + 1)%N HRs1) as HN.
        destruct (do r <- fill txc H (next + 1)%N (S (length done)) (mb_txs _ _ (b_msg _ _ _ b)) rest ;; Ok (fst r, Some t :: snd r))
          as [[n' r']|e|q]; [|exact HN|exact HN].
        destruct HN as (rtr' & heap' & Hf & HR' & (ext & Hext)). exists rtr', heap'.
        split; [exact Hf|]. split; [exact HR'|]. exists ([g_tx t] ++ ext). now rewrite app_assoc.
      * assert (Hstep : loopH (h_block b (dtr ++ None :: rtr), heap) (Z.of_nat (length done)) = Panic 1).
        { unfold loopH. cbn [h_block Kernels4.bchutil_Block_h_transactions Kernels4.bchutil_Block_h_msgBlock].
          rewrite Hidx. cbn [rbind Go3.isnil Go3.deref].
          change (Kernels3.wire_MsgBlock_Transactions hdr tok (g_msg (b_msg _ _ _ b)))
            with (map (mt_val txc) (mb_txs _ _ (b_msg _ _ _ b))).
          rewrite idx_nat, nth_res_map, Etx. reflexivity. }
        rewrite Hstep. reflexivity.
Qed.

Theorem hBlock_Transactions_tie (w : mworld) heap gb :
  R w (heap, gb) ->
  match step _ _ _ W w OpTransactions with
  | (w', OTxsV _ _) =>
      exists gb' heap',
        Kernels4.hBlock_Transactions hdr tok heap gb = Ok (h_trs gb', gb', heap')
        /\ R w' (heap', gb')
        /\ exists ext, heap' = heap ++ ext
  | (_, OPanic _ q) => Kernels4.hBlock_Transactions hdr tok heap gb = Panic q
  | (_, OErr _ c) => Kernels4.hBlock_Transactions hdr tok heap gb = Err c
  | _ => False
  end.
Proof.
  intros (trs0 & -> & HRs0). destruct w as [next [m ser hs hg slots0 gen]]. cbn [w_blk b_txs] in *.
  unfold Kernels4.hBlock_Transactions, step, h_block.
  cbn [w_blk w_next b_msg b_ser b_hash b_height b_txs b_gen Kernels4.bchutil_Block_h_txnsGenerated].
  destruct gen.
  - exists (mkH (Some (g_msg m)) ser (option_map snd hs) hg trs0 true), heap.
    split; [reflexivity|]. split; [exists trs0; split; [reflexivity|exact HRs0]|]. exists []. now rewrite app_nil_r.
  - change (natlit lits_Block_Transactions 0) with 0%nat.
    set (txs := mb_txs _ _ m).
    set (slots := if (length slots0 =? 0)%nat then repeat None (length txs) else slots0).
    set (trs := if (length slots0 =? 0)%nat then repeat None (length txs) else trs0).
    assert (HRs : Rs heap slots trs).
    { unfold slots, trs. destruct (length slots0 =? 0)%nat; [apply Rs_repeat|exact HRs0]. }
    cbn [Kernels4.bchutil_Block_h_transactions Kernels4.bchutil_Block_h_msgBlock Go3.deref rbind].
    set (b0 := mk_block txc hdr H m ser hs hg slots0 false).
    assert (Hb : forall K : gBlockH -> res (list (option N) * gBlockH * list gTx),
      (do b <- (if (Z.of_nat (length trs0) =? 0)%Z
                then Ok (Kernels4.set_bchutil_Block_h_transactions hdr tok
                           (mkH (Some (g_msg m)) ser (option_map snd hs) hg trs0 false)
                           (repeat None (Z.to_nat (Z.of_nat (length (Kernels3.wire_MsgBlock_Transactions hdr tok (g_msg m)))))))
                else Ok (mkH (Some (g_msg m)) ser (option_map snd hs) hg trs0 false)) ;; K b)
      = K (h_block b0 trs)).
    { intros K. unfold trs. destruct HRs0 as (Hlen0 & _). rewrite <- Hlen0.
      destruct (Nat.eqb_spec (length slots0) 0), (Z.eqb_spec (Z.of_nat (length slots0)) 0); try lia; [|reflexivity].
      cbn [rbind]. change (Kernels3.wire_MsgBlock_Transactions hdr tok (g_msg m)) with (map (mt_val txc) txs).
      rewrite map_length, Nat2Z.id. reflexivity. }
    rewrite Hb. clear Hb.
    cbn [h_block Kernels4.bchutil_Block_h_transactions].
    pose proof (hfill_loop b0 slots trs [] [] heap next eq_refl HRs) as HL.
    cbn [app length] in HL. change (Z.of_nat 0) with 0%Z in HL.
    destruct HRs as (Hlen & _). rewrite <- Hlen.
    change (Go.foldM _ (Go.zseq 0 (length slots)) ?st) with (Go.foldM loopH (Go.zseq 0 (length slots)) st).
    change (b_msg _ _ _ b0) with m in HL. fold txs in HL.
    fold (h_block b0 trs).
    destruct (fill txc H next 0 txs slots) as [[n' slots']|e|q].
    + destruct HL as (trs' & heap' & Hf & HR' & Hext). rewrite Hf. cbn [rbind].
      exists (mkH (Some (g_msg m)) ser (option_map snd hs) hg trs' true), heap'.
      split; [reflexivity|]. split; [|exact Hext].
      exists trs'. split; [reflexivity|exact HR'].
    + rewrite HL. reflexivity.
    + rewrite HL. reflexivity.
Qed.

End BlockTie4.

Print Assumptions Block_Bytes_generic_tie.
Print Assumptions Block_Bytes_tie.
Print Assumptions Block_Bytes_step_tie.
Print Assumptions Block_TxLoc_tie.
Print Assumptions Block_TxLoc_err_tie.
Print Assumptions NewBlockFromReader_tie.
Print Assumptions NewBlockFromReader_err_tie.
Print Assumptions NewBlockFromBytes_tie.
Print Assumptions NewTxFromReader_tie.
Print Assumptions NewTxFromBytes_tie.
Print Assumptions NewTxFromBytes_err_tie.
Print Assumptions R_index_bound_tie.
Print Assumptions R_fresh_tie.
Print Assumptions R_new_block_tie.
Print Assumptions hNewTx_tie.
Print Assumptions hTx_MsgTx_tie.
Print Assumptions hTx_Index_tie.
Print Assumptions hTx_SetIndex_tie.
Print Assumptions hTx_Hash_tie.
Print Assumptions hTx_nil_tie.
Print Assumptions hBlock_Tx_tie.
Print Assumptions hBlock_Tx_step_tie.
Print Assumptions hBlock_TxHash_tie.
Print Assumptions TxHash_shared_tie.
Print Assumptions hBlock_Transactions_tie.

(* Tie between the generated WIF functions (Gen/Kernels3.v: DecodeWIF, WIF_String, WIF_IsForNet,
   WIF_SerializePubKey, translated from wif.go) and the model Wif/Wif.v.
   Instantiation of the dependencies:
     PrivateKey_t := N (the scalar D)       Int_t := N           PublicKey_t := N * N (the point)
     bchec.PrivKeyFromBytes(curve, b) := (set_bytes b, base_mult (set_bytes b))
     PrivateKey.D := id, big.Int.Bytes := big_bytes, &priv.PublicKey := base_mult D
     base58.Decode / Encode := the model's Base58.decode / encode, chainhash.DoubleHashB := sha256d. *)
From BU Require Import Lib.Bytes Lib.Radix Lib.Sha256 Base58.Base58 Wif.Wif Wif.WifProofs
  Gen.Kernels2 Gen.Kernels3 Tie.Kernels2Lib Tie.Kernels3Lib Tie.Kernels2_Misc.
From Coq Require Import ZifyBool ZifyN ZifyNat.

Section WifTie.
Variable base_mult : N -> N * N.

Definition W := Kernels3.bchutil_WIF N.
Definition to_gen (w : wif) : W := Kernels3.mk_bchutil_WIF N (w_d w) (w_compress w) (w_net w).
Definition of_gen (w : W) : wif :=
  {| w_d := Kernels3.bchutil_WIF_PrivKey N w; w_compress := Kernels3.bchutil_WIF_CompressPubKey N w;
     w_net := Kernels3.bchutil_WIF_netID N w |}.

Lemma of_to w : of_gen (to_gen w) = w.
Proof. destruct w; reflexivity. Qed.
Lemma to_of w : to_gen (of_gen w) = w.
Proof. destruct w; reflexivity. Qed.

Definition priv_from_bytes (_ : unit) (b : list N) : N * (N * N) := (set_bytes b, base_mult (set_bytes b)).

Definition gDecodeWIF := Kernels3.DecodeWIF N unit (N * N) Base58.decode sha256d tt priv_from_bytes.

(* the model's result seen through the translation's conventions *)
Definition decode_wif_view (r : res wif) : res (option W * N) :=
  match r with
  | Ok w => Ok (Some (to_gen w), 0)
  | Err e => Ok (None, if e =? 1 then Kernels3.bchutil_ErrMalformedPrivateKey else Kernels3.bchutil_ErrChecksumMismatch)
  | Panic k => Panic k
  end.

Lemma sha256d_length x : length (sha256d x) = 32%nat.
Proof. apply sha256_length_32. Qed.

Lemma body_tie (d : list N) (c : bool) (n : nat) :
  length d = n -> (n = 38 \/ n = 37)%nat -> (if c then n = 38 else n = 37)%nat ->
  (do tosum <- (if c then do t <- Go.slice d 0%Z 34%Z ;; Ok t else do t <- Go.slice d 0%Z 33%Z ;; Ok t) ;;
   do cksum <- Go.slice (sha256d tosum) 0%Z 4%Z ;;
   do t5 <- Go.slice d (Z.of_nat (length d) - 4)%Z (Z.of_nat (length d)) ;;
   if negb (Go3.bytes_equal cksum t5) then Ok (None, Kernels3.bchutil_ErrChecksumMismatch)
   else
     do netID <- Go.idx d 0%Z ;;
     do pk <- Go.slice d 1%Z 33%Z ;;
     let '(t8, _) := priv_from_bytes tt pk in
     let privKey := t8 in
     Ok (Some (Kernels3.mk_bchutil_WIF N privKey c netID), 0))
  = decode_wif_view (decode_body d c).
Proof.
  intros Hn Hcases Hc. unfold decode_body. rewrite Hn.
  assert (Hts : (if c then do t <- Go.slice d 0%Z 34%Z ;; Ok t else do t <- Go.slice d 0%Z 33%Z ;; Ok t)
                = Ok (firstn (n - 4) d)).
  { destruct c; subst n.
    - change 34%Z with (Z.of_nat 34). rewrite slice_prefix by lia. rewrite Hc. reflexivity.
    - change 33%Z with (Z.of_nat 33). rewrite slice_prefix by lia. rewrite Hc. reflexivity. }
  rewrite Hts. cbn [rbind].
  change 4%Z with (Z.of_nat 4). rewrite slice_prefix by (rewrite sha256d_length; lia). cbn [rbind].
  rewrite <- Hn at 1 2. rewrite slice_suffix by lia. rewrite Hn. cbn [rbind].
  unfold Go3.bytes_equal.
  destruct (list_eqb _ _); cbn [negb]; [|reflexivity].
  assert (Hidx : Go.idx d 0%Z = Ok (hd 0 d)) by (destruct d; [simpl in Hn; lia|reflexivity]).
  rewrite Hidx. cbn [rbind].
  change 1%Z with (Z.of_nat 1). change 33%Z with (Z.of_nat 33).
  rewrite slice_nat by lia. cbn [rbind]. reflexivity.
Qed.

Theorem DecodeWIF_tie s : gDecodeWIF s = decode_wif_view (decode_wif s).
Proof.
  rewrite decode_wif_spec. unfold gDecodeWIF, Kernels3.DecodeWIF, decode_spec.
  remember (Base58.decode s) as d eqn:Ed. clear Ed s.
  destruct (Nat.eqb_spec (length d) 38) as [E38|N38].
  - destruct (Z.eqb_spec (Z.of_nat (length d)) 38); [|lia].
    change 33%Z with (Z.of_nat 33) at 1. rewrite idx_nat, nth_res_ok by lia. cbn [rbind].
    destruct (nth 33 d 0 =? 1); cbn [negb]; [|reflexivity].
    apply (body_tie d true 38); auto.
  - destruct (Z.eqb_spec (Z.of_nat (length d)) 38); [lia|].
    destruct (Nat.eqb_spec (length d) 37) as [E37|N37].
    + destruct (Z.eqb_spec (Z.of_nat (length d)) 37); [|lia].
      apply (body_tie d false 37); auto.
    + destruct (Z.eqb_spec (Z.of_nat (length d)) 37); [lia|]. reflexivity.
Qed.

(* (phase 5) the model's private key is a number: never a nil pointer (PrivateKey_isnil := fun _ => false) *)
Definition gString := Kernels3.WIF_String N N Base58.encode sha256d (fun d => d) (fun _ => false) big_bytes.

Theorem WIF_String_tie (w : wif) : gString (to_gen w) = Ok (wif_string w).
Proof.
  unfold gString, Kernels3.WIF_String, wif_string, wif_payload, to_gen. cbn [Kernels3.bchutil_WIF_CompressPubKey
    Kernels3.bchutil_WIF_netID Kernels3.bchutil_WIF_PrivKey].
  assert (Hcap : forall c : bool, Go3.check_cap (if c then (37 + 1)%Z else 37%Z) = Ok tt) by (intros []; reflexivity).
  rewrite Hcap. cbn [rbind app]. cbv beta. cbn [Go3.nonnil rbind].
  rewrite wif_paddedAppend_tie by (vm_compute; reflexivity).
  change (N.to_nat 32) with priv_len.
  rewrite tie_str_ck_take, tie_magic.
  set (a := if w_compress w then _ else _).
  assert (Ha : a = [w_net w] ++ pad_to priv_len (big_bytes (w_d w)) ++ (if w_compress w then [1] else [])).
  { unfold a. destruct (w_compress w); cbn [app]; [reflexivity|now rewrite app_nil_r]. }
  rewrite Ha. change 4%Z with (Z.of_nat 4). rewrite slice_prefix by (rewrite sha256d_length; lia).
  reflexivity.
Qed.

Theorem WIF_IsForNet_tie (w : wif) (p : Kernels3.chaincfg_Params) :
  Kernels3.WIF_IsForNet N (to_gen w) (Some p) = Ok (is_for_net w (Kernels3.chaincfg_Params_PrivateKeyID p)).
Proof. reflexivity. Qed.

(* a nil *chaincfg.Params is a nil dereference *)
Theorem WIF_IsForNet_nil (w : wif) : Kernels3.WIF_IsForNet N (to_gen w) None = Panic 5.
Proof. reflexivity. Qed.

Theorem WIF_SerializePubKey_tie (w : wif) :
  Kernels3.WIF_SerializePubKey N (N * N) (fun _ => false) base_mult ser_compressed ser_uncompressed (to_gen w)
  = Ok (serialize_pubkey base_mult w).
Proof. unfold Kernels3.WIF_SerializePubKey, serialize_pubkey. destruct w as [d c n]; destruct c; reflexivity. Qed.

(* (phase 5) a nil *bchec.PrivateKey panics in String and SerializePubKey, whatever the dependencies are *)
Theorem WIF_nil_key_panics (PK I PUB : Type) enc dh (fd : PK -> I) (ib : I -> list N) (isnil : PK -> bool) pp sc su (w : Kernels3.bchutil_WIF PK) :
  isnil (Kernels3.bchutil_WIF_PrivKey PK w) = true ->
  Kernels3.WIF_String PK I enc dh fd isnil ib w = Panic 5 /\
  Kernels3.WIF_SerializePubKey PK PUB isnil pp sc su w = Panic 5.
Proof.
  intro Hn. unfold Kernels3.WIF_String, Kernels3.WIF_SerializePubKey. rewrite Hn. split.
  - destruct (Kernels3.bchutil_WIF_CompressPubKey PK w); reflexivity.
  - reflexivity.
Qed.

End WifTie.

Print Assumptions DecodeWIF_tie.
Print Assumptions WIF_String_tie.
Print Assumptions WIF_IsForNet_tie.
Print Assumptions WIF_SerializePubKey_tie.

(* Tie for bloom/merkleblock.go (the second copy of the builder): bloom_merkleBlock_calcTreeWidth,
   bloom_merkleBlock_calcHash, bloom_merkleBlock_traverseAndBuild (Gen/Kernels3.v) against bl_tree_width,
   bl_calc_hash, bl_traverse_build (with bl_is_parent) of Merkle/Merkle.v.

   Factored: the generated bloom functions are shown equal, by induction on the fuel, to the generated
   merkleblock functions through the field-by-field isomorphism [to_mb] / [of_mb] of the two record types
   (the Go structs have the same fields); the theorems of Kernels3_MerkleBuild.v are then reused. *)
From BU Require Import Lib.Bytes Lib.PolyMod Merkle.Merkle Merkle.MerkleArith Merkle.ExtractProofs
  Merkle.PmtProofs Merkle.LevelProofs Merkle.PackProofs Merkle.BuildProofs
  Gen.Kernels2 Gen.Kernels3 Tie.Kernels2Lib Tie.Kernels3Lib Tie.Kernels3_MerkleLib Tie.Kernels3_MerkleBuild.
From Coq Require Import ZifyBool ZifyN ZifyNat.

Local Open Scope N_scope.

Notation BL := Kernels3.bloom_merkleBlock.

Definition to_mb (m : BL) : MB :=
  Kernels3.mk_merkleblock_MerkleBlock (Kernels3.bloom_merkleBlock_numTx m) (Kernels3.bloom_merkleBlock_allHashes m)
    (Kernels3.bloom_merkleBlock_finalHashes m) (Kernels3.bloom_merkleBlock_matchedBits m) (Kernels3.bloom_merkleBlock_bits m).
Definition of_mb (m : MB) : BL :=
  Kernels3.mk_bloom_merkleBlock (Kernels3.merkleblock_MerkleBlock_numTx m) (Kernels3.merkleblock_MerkleBlock_allHashes m)
    (Kernels3.merkleblock_MerkleBlock_finalHashes m) (Kernels3.merkleblock_MerkleBlock_matchedBits m) (Kernels3.merkleblock_MerkleBlock_bits m).

Lemma to_of m : to_mb (of_mb m) = m.
Proof. destruct m; reflexivity. Qed.
Lemma of_to m : of_mb (to_mb m) = m.
Proof. destruct m; reflexivity. Qed.

Definition bl_gen (n : N) (all : list hash) (mbits : list N) (st : list N * list hash) : BL :=
  Kernels3.mk_bloom_merkleBlock n (map Some all) (map Some (snd st)) mbits (fst st).

Lemma of_mb_gen n all mbits st : of_mb (mb_gen n all mbits st) = bl_gen n all mbits st.
Proof. reflexivity. Qed.
Lemma to_mb_gen n all mbits st : to_mb (bl_gen n all mbits st) = mb_gen n all mbits st.
Proof. reflexivity. Qed.

Ltac blsimpl :=
  cbn [to_mb Kernels3.merkleblock_MerkleBlock_numTx Kernels3.merkleblock_MerkleBlock_allHashes
       Kernels3.merkleblock_MerkleBlock_finalHashes Kernels3.merkleblock_MerkleBlock_matchedBits
       Kernels3.merkleblock_MerkleBlock_bits].

Lemma to_mb_set_bits m v :
  to_mb (Kernels3.set_bloom_merkleBlock_bits m v) = Kernels3.set_merkleblock_MerkleBlock_bits (to_mb m) v.
Proof. reflexivity. Qed.

(* ---------- calcTreeWidth ---------- *)
Theorem bloom_merkleBlock_calcTreeWidth_tie (m : BL) (height : N) :
  Kernels3.bloom_merkleBlock_calcTreeWidth m height
  = bl_tree_width (Kernels3.bloom_merkleBlock_numTx m) height.
Proof. reflexivity. Qed.
Print Assumptions bloom_merkleBlock_calcTreeWidth_tie.

Lemma bloom_calcTreeWidth_sim (m : BL) h :
  Kernels3.bloom_merkleBlock_calcTreeWidth m h = Kernels3.MerkleBlock_calcTreeWidth (to_mb m) h.
Proof. reflexivity. Qed.

(* ---------- the generated copies are the same functions ---------- *)
Section Sim.
Variable HMB : option (list N) -> option (list N) -> option (list N).

Lemma bloom_calcHash_sim : forall fuel (m : BL) height pos,
  Kernels3.bloom_merkleBlock_calcHash HMB fuel m height pos
  = Kernels3.MerkleBlock_calcHash HMB fuel (to_mb m) height pos.
Proof.
  induction fuel as [|fuel IH]; intros m height pos; [reflexivity|].
  cbn [Kernels3.bloom_merkleBlock_calcHash Kernels3.MerkleBlock_calcHash].
  destruct (height =? 0); [reflexivity|].
  rewrite !IH, bloom_calcTreeWidth_sim. reflexivity.
Qed.

Lemma bloom_traverseAndBuild_sim : forall fuel (m : BL) height pos,
  Kernels3.bloom_merkleBlock_traverseAndBuild HMB fuel m height pos
  = rmap of_mb (Kernels3.MerkleBlock_traverseAndBuild HMB fuel (to_mb m) height pos).
Proof.
  induction fuel as [|fuel IH]; intros m height pos; [reflexivity|].
  cbn [Kernels3.bloom_merkleBlock_traverseAndBuild Kernels3.MerkleBlock_traverseAndBuild].
  blsimpl.
  match goal with |- context [Go.whileM fuel ?c ?b ?s] => destruct (Go.whileM fuel c b s) as [[isParent i]|e|k] end;
    cbn [rbind rmap]; try reflexivity.
  destruct (orb (height =? 0) (isParent =? 0)).
  - rewrite bloom_calcHash_sim, to_mb_set_bits.
    match goal with |- context [Kernels3.MerkleBlock_calcHash HMB fuel ?m' height pos] =>
      destruct (Kernels3.MerkleBlock_calcHash HMB fuel m' height pos) as [t2|e|k] end; reflexivity.
  - rewrite IH, to_mb_set_bits.
    match goal with |- context [Kernels3.MerkleBlock_traverseAndBuild HMB fuel ?m' ?h' ?p'] =>
      destruct (Kernels3.MerkleBlock_traverseAndBuild HMB fuel m' h' p') as [m1|e|k] end;
      cbn [rbind rmap]; try reflexivity.
    rewrite bloom_calcTreeWidth_sim, to_of.
    match goal with |- context [if ?c then _ else _] => destruct c end.
    + rewrite IH, to_of.
      match goal with |- context [Kernels3.MerkleBlock_traverseAndBuild HMB fuel ?m' ?h' ?p'] =>
        destruct (Kernels3.MerkleBlock_traverseAndBuild HMB fuel m' h' p') as [m2|e|k] end; reflexivity.
    + reflexivity.
Qed.
End Sim.

Section BloomTie.
Variable node_hash : hash -> hash -> hash.

Definition gBCH := Kernels3.bloom_merkleBlock_calcHash (hmb node_hash).
Definition gBTB := Kernels3.bloom_merkleBlock_traverseAndBuild (hmb node_hash).

Theorem bloom_merkleBlock_calcHash_tie (m : BL) (all : list hash) :
  Kernels3.bloom_merkleBlock_allHashes m = map Some all ->
  forall (h fuel : nat) (pos : N),
  (h < fuel)%nat -> N.of_nat h < 2 ^ 32 ->
  gBCH fuel m (N.of_nat h) pos
  = rmap Some (bl_calc_hash node_hash (Kernels3.bloom_merkleBlock_numTx m) all h pos).
Proof.
  intros Hall h fuel pos Hfuel Hh. unfold gBCH. rewrite bloom_calcHash_sim, bl_calc_hash_mb.
  apply (MerkleBlock_calcHash_tie node_hash (to_mb m) all Hall h fuel pos Hfuel Hh).
Qed.

Theorem bloom_merkleBlock_traverseAndBuild_tie (n : N) (all : list hash) (mbits : list N) :
  n <= N.of_nat (length mbits) ->
  forall (h fuel : nat) (pos : N) (st : list N * list hash),
  (N.to_nat n + h + 2 <= fuel)%nat -> N.of_nat h < 2 ^ 32 ->
  gBTB fuel (bl_gen n all mbits st) (N.of_nat h) pos
  = rmap (bl_gen n all mbits) (bl_traverse_build node_hash n all mbits h pos st).
Proof.
  intros Hn h fuel pos st Hfuel Hh. unfold gBTB.
  rewrite bloom_traverseAndBuild_sim, to_mb_gen, bl_traverse_build_mb.
  pose proof (MerkleBlock_traverseAndBuild_tie node_hash n all mbits Hn h fuel pos st Hfuel Hh) as HT.
  unfold gTB in HT. rewrite HT.
  destruct (mb_traverse_build node_hash n all mbits h pos st); reflexivity.
Qed.

(* the same with the tighter fuel bound tb_fuel n h = min(n, 2^h) + h + 2 *)
Theorem bloom_merkleBlock_traverseAndBuild_tie_pow (n : N) (all : list hash) (mbits : list N) :
  n <= N.of_nat (length mbits) ->
  forall (h fuel : nat) (pos : N) (st : list N * list hash),
  (tb_fuel n h <= fuel)%nat -> N.of_nat h < 2 ^ 32 ->
  gBTB fuel (bl_gen n all mbits st) (N.of_nat h) pos
  = rmap (bl_gen n all mbits) (bl_traverse_build node_hash n all mbits h pos st).
Proof.
  intros Hn h fuel pos st Hfuel Hh. unfold gBTB.
  rewrite bloom_traverseAndBuild_sim, to_mb_gen, bl_traverse_build_mb.
  pose proof (MerkleBlock_traverseAndBuild_tie_pow node_hash n all mbits Hn h fuel pos st Hfuel Hh) as HT.
  unfold gTB in HT. rewrite HT.
  destruct (mb_traverse_build node_hash n all mbits h pos st); reflexivity.
Qed.

End BloomTie.
Print Assumptions bloom_merkleBlock_calcHash_tie.
Print Assumptions bloom_merkleBlock_traverseAndBuild_tie.
Print Assumptions bloom_merkleBlock_traverseAndBuild_tie_pow.

(* Tie between the third-mode transliterations (Gen/Kernels3.v, regenerated from the Go sources) of
   bloom/filter.go  { LoadFilter, IsLoaded, Reload, Unload, MsgFilterLoad, hash, matches, Matches,
   matchesOutPoint, MatchesOutPoint, add, Add, AddHash, addOutPoint, AddOutPoint }  and the model
   Bloom/Bloom.v.

   Abstraction: the generated record  bloom_Filter = { mtx ; msgFilterLoad : option wire_MsgFilterLoad }
   is seen as the model's  filter = option msg  by [absf]  (None <-> None,
   Some (mk_wire_MsgFilterLoad Filter HashFuncs Tweak Flags) <-> Some (MkMsg Filter HashFuncs Tweak Flags));
   [putf bf f] is the record with the mutex of bf and the message of f.  Locks are not modelled by the
   translation, so the exported wrappers (Matches, Add, ...) are their unexported bodies.

   Domain of the theorems (each one says which it needs):
     data_ok d   :  Bytes d /\ length d < 2^32          (murmur3 of model and code agree on bytes only)
     wf f        :  a loaded message has HashFuncs < 2^32 (a uint32) and len_ok_msg (len(Filter) < 2^29,
                    the model's documented domain: uint32(len)<<3 does not wrap)
     fuel_ok n f :  HashFuncs < n, i.e. fuel >= HashFuncs + 1 (the loop of add is translated as a
                    "for cond" loop because its bound is read through the receiver it writes; the
                    last iteration is the one that finds i >= HashFuncs and breaks)
     length txid = 32 and Bytes txid for the outpoint variants (chainhash.Hash = [32]byte).
   The older-mode ties Tie/Kernels2_Bloom.v and Tie/Kernels2_BloomOutPoint.v are reused: hash and
   matches are proved EQUAL to the older translations (no hypothesis), add is redone on the while loop
   with the older one-iteration lemma. *)
From BU Require Import Lib.Bytes Lib.PolyMod Gen.Xbloom Gen.Kernels Gen.Kernels2 Gen.Kernels3
  Bloom.Murmur3 Bloom.Bloom Bloom.BloomProofs
  Tie.TieTactics Tie.KernelsTieMurmur Tie.Kernels2Lib Tie.Kernels3Lib Tie.Kernels2_Bloom Tie.Kernels2_BloomOutPoint.
From Coq Require Import ZifyBool ZifyN ZifyNat.

(* ====================================================================== *)
(* 0. the abstraction                                                      *)
(* ====================================================================== *)
Definition msg_of (w : Kernels3.wire_MsgFilterLoad) : msg :=
  MkMsg (Kernels3.wire_MsgFilterLoad_Filter w) (Kernels3.wire_MsgFilterLoad_HashFuncs w)
        (Kernels3.wire_MsgFilterLoad_Tweak w) (Kernels3.wire_MsgFilterLoad_Flags w).
Definition of_msg (m : msg) : Kernels3.wire_MsgFilterLoad :=
  Kernels3.mk_wire_MsgFilterLoad (m_bytes m) (m_nhash m) (m_tweak m) (m_flags m).

Definition absf (bf : Kernels3.bloom_Filter) : filter :=
  option_map msg_of (Kernels3.bloom_Filter_msgFilterLoad bf).
Definition putf (bf : Kernels3.bloom_Filter) (f : filter) : Kernels3.bloom_Filter :=
  Kernels3.mk_bloom_Filter (Kernels3.bloom_Filter_mtx bf) (option_map of_msg f).

Lemma msg_of_of_msg m : msg_of (of_msg m) = m.
Proof. destruct m; reflexivity. Qed.
Lemma of_msg_msg_of w : of_msg (msg_of w) = w.
Proof. destruct w; reflexivity. Qed.
Lemma absf_putf bf f : absf (putf bf f) = f.
Proof. destruct f as [[a b c d]|]; reflexivity. Qed.
Lemma putf_absf bf : putf bf (absf bf) = bf.
Proof. destruct bf as [mtx [[a b c d]|]]; reflexivity. Qed.
Lemma putf_putf bf f g : putf (putf bf f) g = putf bf g.
Proof. reflexivity. Qed.
Lemma putf_mtx bf f : Kernels3.bloom_Filter_mtx (putf bf f) = Kernels3.bloom_Filter_mtx bf.
Proof. reflexivity. Qed.

(* the domain *)
Definition data_ok (d : list N) : Prop := Bytes d /\ N.of_nat (length d) < 2 ^ 32.
Definition wf_msg (m : msg) : Prop := m_nhash m < 2 ^ 32 /\ len_ok_msg m.
Definition wf (f : filter) : Prop := match f with Some m => wf_msg m | None => True end.
Definition fuel_ok (fuel : nat) (f : filter) : Prop :=
  match f with Some m => (N.to_nat (m_nhash m) < fuel)%nat | None => True end.

Lemma wf_len_ok f : wf f -> len_ok f.
Proof. destruct f as [m|]; [intros [_ H]; exact H | auto]. Qed.

(* add keeps the domain (the array length and HashFuncs do not change) *)
Lemma add_wf f x : wf f -> wf (add f x).
Proof.
  destruct f as [m|]; [|auto]. intros [Hn Hl].
  pose proof (add_params (Some m) x) as Hp. pose proof (add_len_ok (Some m) x Hl) as Hl'.
  destruct (add (Some m) x) as [m'|]; [|exact I]. cbn [params] in Hp. split; [|exact Hl'].
  injection Hp as _ E _ _. now rewrite E.
Qed.
Lemma add_fuel_ok n f x : fuel_ok n f -> fuel_ok n (add f x).
Proof.
  destruct f as [m|]; [|auto]. intros H.
  pose proof (add_params (Some m) x) as Hp.
  destruct (add (Some m) x) as [m'|]; [|exact I]. cbn [params] in Hp.
  injection Hp as _ E _ _. cbn [fuel_ok]. now rewrite E.
Qed.
Lemma add_flags f x : flags_of (add f x) = flags_of f.
Proof.
  destruct f as [m|]; [|reflexivity].
  pose proof (add_params (Some m) x) as Hp.
  destruct (add (Some m) x) as [m'|]; [|discriminate Hp]. cbn [params] in Hp.
  injection Hp as _ _ _ E. exact E.
Qed.

(* ====================================================================== *)
(* 1. LoadFilter / IsLoaded / Reload / Unload / MsgFilterLoad              *)
(* ====================================================================== *)
(* No hypothesis.  LoadFilter never returns nil; LoadFilter(nil) is an unloaded filter. *)
Theorem LoadFilter_tie w :
  exists bf, Kernels3.LoadFilter w = Some bf /\ absf bf = load_filter (option_map msg_of w).
Proof. eexists; split; reflexivity. Qed.
Print Assumptions LoadFilter_tie.

Theorem bloom_Filter_IsLoaded_tie bf :
  Kernels3.bloom_Filter_IsLoaded bf = is_loaded (absf bf).
Proof. destruct bf as [mtx [w|]]; reflexivity. Qed.
Print Assumptions bloom_Filter_IsLoaded_tie.

Theorem bloom_Filter_Reload_tie bf w :
  Kernels3.bloom_Filter_Reload bf w = putf bf (reload (absf bf) (option_map msg_of w)).
Proof.
  unfold Kernels3.bloom_Filter_Reload, Kernels3.set_bloom_Filter_msgFilterLoad, putf, reload.
  destruct w as [w|]; cbn [option_map]; [now rewrite of_msg_msg_of | reflexivity].
Qed.
Print Assumptions bloom_Filter_Reload_tie.

Theorem bloom_Filter_Unload_tie bf :
  Kernels3.bloom_Filter_Unload bf = putf bf (unload (absf bf)).
Proof. reflexivity. Qed.
Print Assumptions bloom_Filter_Unload_tie.

Theorem bloom_Filter_MsgFilterLoad_tie bf :
  option_map msg_of (Kernels3.bloom_Filter_MsgFilterLoad bf) = msg_filter_load (absf bf).
Proof. reflexivity. Qed.
Print Assumptions bloom_Filter_MsgFilterLoad_tie.

(* ====================================================================== *)
(* 2. hash                                                                 *)
(* ====================================================================== *)
(* the third-mode translation of hash is the older one on the fields of the loaded message *)
Lemma hash_k2 bf w i data :
  Kernels3.bloom_Filter_msgFilterLoad bf = Some w ->
  Kernels3.bloom_Filter_hash bf i data
  = Kernels2.Filter_hash (Kernels3.wire_MsgFilterLoad_Tweak w) (Kernels3.wire_MsgFilterLoad_Filter w) i data.
Proof. intros E. unfold Kernels3.bloom_Filter_hash, Kernels2.Filter_hash. rewrite E. reflexivity. Qed.

(* Domain: a loaded message (hash dereferences it), data_ok, and a non-zero divisor uint32(len)<<3
   (Go panics on a zero divisor, Coq's mod returns the dividend); nothing about i or the tweak. *)
Theorem bloom_Filter_hash_tie bf m i data :
  absf bf = Some m -> data_ok data -> nbits m <> 0 ->
  Kernels3.bloom_Filter_hash bf i data = Ok (bit_index m i data).
Proof.
  intros E [Hd Hl] Hn. destruct bf as [mtx [w|]]; [|discriminate E].
  injection E as <-. rewrite (hash_k2 _ w) by reflexivity.
  exact (Filter_hash_tie (msg_of w) i data Hd Hl Hn).
Qed.
Print Assumptions bloom_Filter_hash_tie.

Theorem bloom_Filter_hash_unloaded bf i data :
  absf bf = None -> Kernels3.bloom_Filter_hash bf i data = Panic 5.
Proof. destruct bf as [mtx [w|]]; [discriminate | reflexivity]. Qed.
Print Assumptions bloom_Filter_hash_unloaded.

Theorem bloom_Filter_hash_zero bf m i data :
  absf bf = Some m -> nbits m = 0 -> Kernels3.bloom_Filter_hash bf i data = Panic 3.
Proof.
  intros E Hn. destruct bf as [mtx [w|]]; [|discriminate E].
  injection E as <-. rewrite (hash_k2 _ w) by reflexivity.
  exact (Filter_hash_zero (msg_of w) i data Hn).
Qed.
Print Assumptions bloom_Filter_hash_zero.

(* ====================================================================== *)
(* 3. matches                                                              *)
(* ====================================================================== *)
Lemma matches_k2 bf data :
  Kernels3.bloom_Filter_matches bf data
  = match Kernels3.bloom_Filter_msgFilterLoad bf with
    | Some w => Kernels2.Filter_matches false (Kernels3.wire_MsgFilterLoad_Filter w)
                  (Kernels3.wire_MsgFilterLoad_HashFuncs w) (Kernels3.wire_MsgFilterLoad_Tweak w) data
    | None => Ok false
    end.
Proof. destruct bf as [mtx [w|]]; reflexivity. Qed.

Theorem bloom_Filter_matches_tie bf data :
  data_ok data -> wf (absf bf) ->
  Kernels3.bloom_Filter_matches bf data = Ok (matches (absf bf) data).
Proof.
  intros [Hd Hl] Hw. rewrite matches_k2. destruct bf as [mtx [w|]]; [|reflexivity].
  destruct Hw as [Hn Hok]. exact (Filter_matches_tie (msg_of w) data Hd Hl Hn Hok).
Qed.
Print Assumptions bloom_Filter_matches_tie.

(* the unloaded filter needs nothing *)
Theorem bloom_Filter_matches_unloaded bf data :
  absf bf = None -> Kernels3.bloom_Filter_matches bf data = Ok false.
Proof. destruct bf as [mtx [w|]]; [discriminate | reflexivity]. Qed.
Print Assumptions bloom_Filter_matches_unloaded.

(* general form with the weaker [div_ok] instead of len_ok_msg *)
Theorem bloom_Filter_matches_tie_gen bf m data :
  absf bf = Some m -> data_ok data -> m_nhash m < 2 ^ 32 -> div_ok m ->
  Kernels3.bloom_Filter_matches bf data = Ok (matches (Some m) data).
Proof.
  intros E [Hd Hl] Hn Hok. rewrite matches_k2. destruct bf as [mtx [w|]]; [|discriminate E].
  injection E as <-. exact (Filter_matches_tie_gen (msg_of w) data Hd Hl Hn Hok).
Qed.
Print Assumptions bloom_Filter_matches_tie_gen.

(* outside the model's domain (len a non-zero multiple of 2^29): the code divides by zero, the model
   answers; so len_ok cannot be dropped *)
Theorem bloom_Filter_matches_wrap_panics bf m data :
  absf bf = Some m -> length (m_bytes m) <> O -> nbits m = 0 -> 0 < m_nhash m ->
  Kernels3.bloom_Filter_matches bf data = Panic 3.
Proof.
  intros E H1 H2 H3. rewrite matches_k2. destruct bf as [mtx [w|]]; [|discriminate E].
  injection E as <-. exact (Filter_matches_wrap_panics (msg_of w) data H1 H2 H3).
Qed.
Print Assumptions bloom_Filter_matches_wrap_panics.

(* ====================================================================== *)
(* 4. add                                                                  *)
(* ====================================================================== *)
(* a "for i := 0; i < n; i++" loop translated as a while loop on (state, i) with the test inside the
   body: k + 1 iterations for the k remaining indices *)
Lemma whileC_count {S R} (cond : S * N -> bool) (body : S * N -> res (Go.ctl (S * N) R))
      (g : S -> N -> S) (P : S -> Prop) (n : N) :
  (forall p, cond p = true) ->
  (forall s i, P s -> i < n -> body (s, i) = Ok (Go.Next (g s i, (i + 1) mod 2 ^ 32))) ->
  (forall s, P s -> body (s, n) = Ok (Go.Brk (s, n))) ->
  (forall s i, P s -> i < n -> P (g s i)) ->
  n < 2 ^ 32 ->
  forall k i s fuel, N.of_nat k + i = n -> P s -> (k < fuel)%nat ->
  Go.whileC fuel cond body (s, i) = Ok (Go.Next (fold_left g (Go.nseq i k) s, n)).
Proof.
  intros Hc Hn Hb HP Hlt. induction k as [|k IH]; intros i s fuel Hk Hs Hf.
  - destruct fuel as [|fuel]; [lia|]. cbn [Go.whileC]. rewrite Hc.
    assert (i = n) by lia. subst i. rewrite Hb by exact Hs. reflexivity.
  - destruct fuel as [|fuel]; [lia|]. cbn [Go.whileC]. rewrite Hc.
    rewrite Hn by (auto; lia). rewrite N.mod_small by lia.
    cbn [Go.nseq fold_left]. apply IH; [lia | apply HP; [exact Hs | lia] | lia].
Qed.

(* too little fuel: the loop runs out (Panic 9) *)
Lemma whileC_count_short {S R} (cond : S * N -> bool) (body : S * N -> res (Go.ctl (S * N) R))
      (g : S -> N -> S) (P : S -> Prop) (n : N) :
  (forall p, cond p = true) ->
  (forall s i, P s -> i < n -> body (s, i) = Ok (Go.Next (g s i, (i + 1) mod 2 ^ 32))) ->
  (forall s i, P s -> i < n -> P (g s i)) ->
  n < 2 ^ 32 ->
  forall fuel i s, N.of_nat fuel + i <= n -> P s ->
  Go.whileC fuel cond body (s, i) = Panic 9.
Proof.
  intros Hc Hn HP Hlt. induction fuel as [|fuel IH]; intros i s Hk Hs.
  - cbn [Go.whileC]. now rewrite Hc.
  - cbn [Go.whileC]. rewrite Hc. rewrite Hn by (auto; lia). rewrite N.mod_small by lia.
    apply IH; [lia | apply HP; [exact Hs | lia]].
Qed.

(* the one-iteration lemma of the older tie, in continuation form *)
Lemma add_body_k {B} m s i data (K : list N -> res B) :
  Bytes data -> N.of_nat (length data) < 2 ^ 32 -> nbits m <> 0 ->
  length s = length (m_bytes m) ->
  (do idx <- Kernels2.Filter_hash (m_tweak m) s i data ;;
   do b <- Go.idx s (Z.of_N (N.shiftr idx 3)) ;;
   do s' <- Go.upd s (Z.of_N (N.shiftr idx 3)) (N.lor b ((N.shiftl 1 (N.land 7 idx)) mod 2 ^ 8)) ;;
   K s')
  = K (set_bit s (bit_index m i data)).
Proof.
  intros Hd Hl Hnz Hs. pose proof (add_body m s i data Hd Hl Hnz Hs) as H.
  destruct (Kernels2.Filter_hash (m_tweak m) s i data) as [idx|e|p]; cbn [rbind] in H |- *; try discriminate H.
  destruct (Go.idx s (Z.of_N (N.shiftr idx 3))) as [b|e|p]; cbn [rbind] in H |- *; try discriminate H.
  destruct (Go.upd s (Z.of_N (N.shiftr idx 3)) _) as [s'|e|p]; cbn [rbind] in H |- *; try discriminate H.
  injection H as ->. reflexivity.
Qed.

Definition mkbf (mtx : Kernels3.sync_Mutex) (m : msg) (s : list N) : Kernels3.bloom_Filter :=
  Kernels3.mk_bloom_Filter mtx (Some (Kernels3.mk_wire_MsgFilterLoad s (m_nhash m) (m_tweak m) (m_flags m))).

Lemma fold_mkbf mtx m data l : forall s,
  fold_left (fun bf i => mkbf mtx m (set_bit (filter_bytes (absf bf)) (bit_index m i data))) l (mkbf mtx m s)
  = mkbf mtx m (fold_left (fun s i => set_bit s (bit_index m i data)) l s).
Proof. induction l as [|i l IH]; intros s; cbn [fold_left]; [reflexivity|]. apply IH. Qed.

Lemma fold_set_bit_length m data l : forall s,
  length (fold_left (fun s i => set_bit s (bit_index m i data)) l s) = length s.
Proof. induction l as [|i l IH]; intros s; cbn [fold_left]; [reflexivity|]. rewrite IH. apply set_bit_length. Qed.

(* Domain: data_ok, wf (HashFuncs < 2^32, len < 2^29); fuel: HashFuncs + 1 iterations.
   The result is the receiver with the model's new message (and the same mutex). *)
Theorem bloom_Filter_add_tie fuel bf data :
  data_ok data -> wf (absf bf) -> fuel_ok fuel (absf bf) ->
  Kernels3.bloom_Filter_add fuel bf data = Ok (putf bf (add (absf bf) data)).
Proof.
  intros [Hd Hl] Hw Hf. destruct bf as [mtx [w|]]; [|reflexivity].
  destruct Hw as [Hn Hok]. cbn [absf option_map Kernels3.bloom_Filter_msgFilterLoad fuel_ok] in Hf |- *.
  set (m := msg_of w) in *.
  unfold Kernels3.bloom_Filter_add.
  cbn [Kernels3.bloom_Filter_msgFilterLoad Go3.isnil Go3.deref rbind].
  unfold add, is_empty_a, mlit_a. eval_term (lit lits_Filter_add 0).
  change (Kernels3.wire_MsgFilterLoad_Filter w) with (m_bytes m).
  destruct (Z.eqb_spec (Z.of_nat (length (m_bytes m))) 0) as [E|E].
  - destruct (N.eqb_spec (N.of_nat (length (m_bytes m))) 0); [|lia].
    subst m. destruct w; reflexivity.
  - destruct (N.eqb_spec (N.of_nat (length (m_bytes m))) 0) as [E'|_]; [lia|].
    assert (Hnz : nbits m <> 0) by (apply (len_ok_div_ok m Hok); lia).
    assert (Hbf : Kernels3.mk_bloom_Filter mtx (Some w) = mkbf mtx m (m_bytes m))
      by (unfold mkbf; subst m; destruct w; reflexivity).
    rewrite Hbf.
    erewrite (whileC_count _ _
               (fun bf i => mkbf mtx m (set_bit (filter_bytes (absf bf)) (bit_index m i data)))
               (fun bf => exists s, bf = mkbf mtx m s /\ length s = length (m_bytes m))
               (m_nhash m) _ _ _ _ Hn (N.to_nat (m_nhash m)) 0 (mkbf mtx m (m_bytes m)) fuel).
    + cbn [rbind]. rewrite fold_mkbf. rewrite hash_nums_tie by exact Hn.
      unfold indices. rewrite fold_left_map. unfold putf, mkbf, of_msg.
      cbn [option_map m_bytes m_nhash m_tweak m_flags Kernels3.bloom_Filter_mtx]. reflexivity.
    + lia.
    + exists (m_bytes m). split; reflexivity.
    + exact Hf.
    Unshelve.
    * intros [? ?]. reflexivity.
    * intros bf i (s & -> & Hs) Hi. unfold mkbf at 1 2 3 4 5 6 7.
      cbn [Kernels3.bloom_Filter_msgFilterLoad Go3.deref rbind Kernels3.wire_MsgFilterLoad_HashFuncs].
      destruct (N.ltb_spec i (m_nhash m)) as [_|Hc]; [|lia]. cbn [negb].
      rewrite (hash_k2 _ (Kernels3.mk_wire_MsgFilterLoad s (m_nhash m) (m_tweak m) (m_flags m))) by reflexivity.
      cbn [Kernels3.wire_MsgFilterLoad_Tweak Kernels3.wire_MsgFilterLoad_Filter].
      rewrite (add_body_k m s i data) by assumption.
      reflexivity.
    * intros bf (s & -> & Hs). unfold mkbf at 1.
      cbn [Kernels3.bloom_Filter_msgFilterLoad Go3.deref rbind Kernels3.wire_MsgFilterLoad_HashFuncs].
      rewrite N.ltb_irrefl. reflexivity.
    * intros bf i (s & -> & Hs) Hi. eexists. split; [reflexivity|].
      cbn [mkbf absf option_map Kernels3.bloom_Filter_msgFilterLoad msg_of filter_bytes m_bytes Kernels3.wire_MsgFilterLoad_Filter].
      rewrite set_bit_length. exact Hs.
Qed.
Print Assumptions bloom_Filter_add_tie.

(* the unloaded filter needs nothing (no fuel either) *)
Theorem bloom_Filter_add_unloaded fuel bf data :
  absf bf = None -> Kernels3.bloom_Filter_add fuel bf data = Ok bf.
Proof. destruct bf as [mtx [w|]]; [discriminate | reflexivity]. Qed.
Print Assumptions bloom_Filter_add_unloaded.

(* not enough fuel (fuel <= HashFuncs) on a loaded non-empty filter: Panic 9, so HashFuncs + 1 is
   exactly the fuel add needs *)
Theorem bloom_Filter_add_fuel_short fuel bf m data :
  absf bf = Some m -> data_ok data -> wf_msg m -> length (m_bytes m) <> O ->
  (fuel <= N.to_nat (m_nhash m))%nat ->
  Kernels3.bloom_Filter_add fuel bf data = Panic 9.
Proof.
  intros E [Hd Hl] [Hn Hok] Hne Hf. destruct bf as [mtx [w|]]; [|discriminate E].
  injection E as E. subst m. set (m := msg_of w) in *.
  unfold Kernels3.bloom_Filter_add.
  cbn [Kernels3.bloom_Filter_msgFilterLoad Go3.isnil Go3.deref rbind].
  change (Kernels3.wire_MsgFilterLoad_Filter w) with (m_bytes m).
  destruct (Z.eqb_spec (Z.of_nat (length (m_bytes m))) 0) as [E|E]; [lia|].
  assert (Hnz : nbits m <> 0) by (apply (len_ok_div_ok m Hok); lia).
  assert (Hbf : Kernels3.mk_bloom_Filter mtx (Some w) = mkbf mtx m (m_bytes m))
    by (unfold mkbf; subst m; destruct w; reflexivity).
  rewrite Hbf.
  erewrite (whileC_count_short _ _
             (fun bf i => mkbf mtx m (set_bit (filter_bytes (absf bf)) (bit_index m i data)))
             (fun bf => exists s, bf = mkbf mtx m s /\ length s = length (m_bytes m))
             (m_nhash m) _ _ _ Hn fuel 0 (mkbf mtx m (m_bytes m))).
  - reflexivity.
  - lia.
  - exists (m_bytes m). split; reflexivity.
  Unshelve.
  + intros [? ?]. reflexivity.
  + intros bf i (s & -> & Hs) Hi. unfold mkbf at 1 2 3 4 5 6 7.
    cbn [Kernels3.bloom_Filter_msgFilterLoad Go3.deref rbind Kernels3.wire_MsgFilterLoad_HashFuncs].
    destruct (N.ltb_spec i (m_nhash m)) as [_|Hc]; [|lia]. cbn [negb].
    rewrite (hash_k2 _ (Kernels3.mk_wire_MsgFilterLoad s (m_nhash m) (m_tweak m) (m_flags m))) by reflexivity.
    cbn [Kernels3.wire_MsgFilterLoad_Tweak Kernels3.wire_MsgFilterLoad_Filter].
    rewrite (add_body_k m s i data) by assumption.
    reflexivity.
  + intros bf i (s & -> & Hs) Hi. eexists. split; [reflexivity|].
    cbn [mkbf absf option_map Kernels3.bloom_Filter_msgFilterLoad msg_of filter_bytes m_bytes Kernels3.wire_MsgFilterLoad_Filter].
    rewrite set_bit_length. exact Hs.
Qed.
Print Assumptions bloom_Filter_add_fuel_short.

(* outside the model's domain (len a non-zero multiple of 2^29): the code divides by zero in the first
   iteration, the model returns a filter; so len_ok cannot be dropped *)
Theorem bloom_Filter_add_wrap_panics fuel bf m data :
  absf bf = Some m -> length (m_bytes m) <> O -> nbits m = 0 -> 0 < m_nhash m -> (0 < fuel)%nat ->
  Kernels3.bloom_Filter_add fuel bf data = Panic 3.
Proof.
  intros E Hne Hz Hn Hf. destruct bf as [mtx [w|]]; [|discriminate E].
  injection E as E. subst m. unfold Kernels3.bloom_Filter_add.
  cbn [Kernels3.bloom_Filter_msgFilterLoad Go3.isnil Go3.deref rbind].
  change (Kernels3.wire_MsgFilterLoad_Filter w) with (m_bytes (msg_of w)).
  destruct (Z.eqb_spec (Z.of_nat (length (m_bytes (msg_of w)))) 0) as [E|_]; [lia|].
  destruct fuel as [|fuel]; [lia|]. cbn [Go.whileC].
  cbn [Kernels3.bloom_Filter_msgFilterLoad Go3.deref rbind].
  change (Kernels3.wire_MsgFilterLoad_HashFuncs w) with (m_nhash (msg_of w)).
  destruct (N.ltb_spec 0 (m_nhash (msg_of w))) as [_|Hc]; [|lia]. cbn [negb].
  rewrite (hash_k2 _ w) by reflexivity.
  change (Kernels2.Filter_hash (Kernels3.wire_MsgFilterLoad_Tweak w) (Kernels3.wire_MsgFilterLoad_Filter w) 0 data)
    with (Kernels2.Filter_hash (m_tweak (msg_of w)) (m_bytes (msg_of w)) 0 data).
  rewrite Filter_hash_zero by exact Hz. reflexivity.
Qed.
Print Assumptions bloom_Filter_add_wrap_panics.

(* ====================================================================== *)
(* 5. matchesOutPoint / addOutPoint                                        *)
(* ====================================================================== *)
Definition outpoint_of (txid : list N) (index : N) : option Kernels3.wire_OutPoint :=
  Some (Kernels3.mk_wire_OutPoint txid index).

(* Domain: a non-nil outpoint whose hash has 32 bytes (the Go type [32]byte) that are bytes; wf.
   Nothing about index (the code's PutUint32 and the model's w32 agree on every N). *)
Theorem bloom_Filter_matchesOutPoint_tie bf txid index :
  length txid = 32%nat -> Bytes txid -> wf (absf bf) ->
  Kernels3.bloom_Filter_matchesOutPoint bf (outpoint_of txid index)
  = Ok (matches_outpoint (absf bf) txid index).
Proof.
  intros Hl Hb Hw. unfold Kernels3.bloom_Filter_matchesOutPoint, outpoint_of.
  cbn [Go3.deref rbind Kernels3.wire_OutPoint_Hash Kernels3.wire_OutPoint_Index].
  pose proof (outpoint_buf_tie txid index Hl) as Hbuf.
  destruct (Go.copy_at (repeat 0 36) 0%Z txid) as [b|c|k]; cbn [rbind] in Hbuf |- *; try discriminate Hbuf.
  rewrite Hbuf. cbn [rbind].
  rewrite bloom_Filter_matches_tie; [reflexivity | | exact Hw].
  split; [apply outpoint_bytes_m_Bytes; exact Hb|].
  rewrite outpoint_bytes_m_length by exact Hl. reflexivity.
Qed.
Print Assumptions bloom_Filter_matchesOutPoint_tie.

Theorem bloom_Filter_matchesOutPoint_nil bf :
  Kernels3.bloom_Filter_matchesOutPoint bf None = Panic 5.
Proof. reflexivity. Qed.
Print Assumptions bloom_Filter_matchesOutPoint_nil.

Theorem bloom_Filter_addOutPoint_tie fuel bf txid index :
  length txid = 32%nat -> Bytes txid -> wf (absf bf) -> fuel_ok fuel (absf bf) ->
  Kernels3.bloom_Filter_addOutPoint fuel bf (outpoint_of txid index)
  = Ok (putf bf (add_outpoint (absf bf) txid index)).
Proof.
  intros Hl Hb Hw Hf. unfold Kernels3.bloom_Filter_addOutPoint, outpoint_of.
  cbn [Go3.deref rbind Kernels3.wire_OutPoint_Hash Kernels3.wire_OutPoint_Index].
  pose proof (outpoint_buf_tie_add txid index Hl) as Hbuf.
  destruct (Go.copy_at (repeat 0 36) 0%Z txid) as [b|c|k]; cbn [rbind] in Hbuf |- *; try discriminate Hbuf.
  rewrite Hbuf. cbn [rbind].
  rewrite bloom_Filter_add_tie; [reflexivity | | exact Hw | exact Hf].
  rewrite <- outpoint_bytes_agree.
  split; [apply outpoint_bytes_m_Bytes; exact Hb|].
  rewrite outpoint_bytes_m_length by exact Hl. reflexivity.
Qed.
Print Assumptions bloom_Filter_addOutPoint_tie.

Theorem bloom_Filter_addOutPoint_nil fuel bf :
  Kernels3.bloom_Filter_addOutPoint fuel bf None = Panic 5.
Proof. reflexivity. Qed.
Print Assumptions bloom_Filter_addOutPoint_nil.

(* ====================================================================== *)
(* 6. the exported (locking) wrappers                                      *)
(* ====================================================================== *)
(* Locks are not modelled (sequential semantics): each wrapper is its body.  Same domains. *)
Lemma rbind_eta {A} (r : res A) : (do x <- r ;; Ok x) = r.
Proof. destruct r; reflexivity. Qed.

Theorem bloom_Filter_Matches_tie bf data :
  data_ok data -> wf (absf bf) ->
  Kernels3.bloom_Filter_Matches bf data = Ok (matches (absf bf) data).
Proof. intros Hd Hw. unfold Kernels3.bloom_Filter_Matches. rewrite rbind_eta. now apply bloom_Filter_matches_tie. Qed.
Print Assumptions bloom_Filter_Matches_tie.

Theorem bloom_Filter_MatchesOutPoint_tie bf txid index :
  length txid = 32%nat -> Bytes txid -> wf (absf bf) ->
  Kernels3.bloom_Filter_MatchesOutPoint bf (outpoint_of txid index)
  = Ok (matches_outpoint (absf bf) txid index).
Proof.
  intros Hl Hb Hw. unfold Kernels3.bloom_Filter_MatchesOutPoint. rewrite rbind_eta.
  now apply bloom_Filter_matchesOutPoint_tie.
Qed.
Print Assumptions bloom_Filter_MatchesOutPoint_tie.

Theorem bloom_Filter_Add_tie fuel bf data :
  data_ok data -> wf (absf bf) -> fuel_ok fuel (absf bf) ->
  Kernels3.bloom_Filter_Add fuel bf data = Ok (putf bf (add (absf bf) data)).
Proof. intros Hd Hw Hf. unfold Kernels3.bloom_Filter_Add. rewrite rbind_eta. now apply bloom_Filter_add_tie. Qed.
Print Assumptions bloom_Filter_Add_tie.

(* AddHash(hash *chainhash.Hash): a non-nil hash is added as stored (Bloom.step's OAddHash) *)
Theorem bloom_Filter_AddHash_tie fuel bf h :
  data_ok h -> wf (absf bf) -> fuel_ok fuel (absf bf) ->
  Kernels3.bloom_Filter_AddHash fuel bf (Some h) = Ok (putf bf (add (absf bf) h)).
Proof.
  intros Hd Hw Hf. unfold Kernels3.bloom_Filter_AddHash. cbn [Go3.deref rbind]. rewrite rbind_eta.
  now apply bloom_Filter_add_tie.
Qed.
Print Assumptions bloom_Filter_AddHash_tie.

Theorem bloom_Filter_AddHash_nil fuel bf : Kernels3.bloom_Filter_AddHash fuel bf None = Panic 5.
Proof. reflexivity. Qed.
Print Assumptions bloom_Filter_AddHash_nil.

Theorem bloom_Filter_AddOutPoint_tie fuel bf txid index :
  length txid = 32%nat -> Bytes txid -> wf (absf bf) -> fuel_ok fuel (absf bf) ->
  Kernels3.bloom_Filter_AddOutPoint fuel bf (outpoint_of txid index)
  = Ok (putf bf (add_outpoint (absf bf) txid index)).
Proof.
  intros Hl Hb Hw Hf. unfold Kernels3.bloom_Filter_AddOutPoint. rewrite rbind_eta.
  now apply bloom_Filter_addOutPoint_tie.
Qed.
Print Assumptions bloom_Filter_AddOutPoint_tie.

(* the history semantics of the model (Bloom.step) in terms of the generated functions: one exported
   call = one step, on the abstraction *)
Definition gen_step (fuel : nat) (bf : Kernels3.bloom_Filter) (o : op) : res (Kernels3.bloom_Filter * bool) :=
  match o with
  | OAdd d => do bf' <- Kernels3.bloom_Filter_Add fuel bf d ;; Ok (bf', true)
  | OAddHash h => do bf' <- Kernels3.bloom_Filter_AddHash fuel bf (Some h) ;; Ok (bf', true)
  | OAddOutPoint t i => do bf' <- Kernels3.bloom_Filter_AddOutPoint fuel bf (outpoint_of t i) ;; Ok (bf', true)
  | OMatches d => do b <- Kernels3.bloom_Filter_Matches bf d ;; Ok (bf, b)
  | OMatchesOutPoint t i => do b <- Kernels3.bloom_Filter_MatchesOutPoint bf (outpoint_of t i) ;; Ok (bf, b)
  | OReload m => Ok (Kernels3.bloom_Filter_Reload bf (option_map of_msg m), true)
  | OUnload => Ok (Kernels3.bloom_Filter_Unload bf, true)
  | OIsLoaded => Ok (bf, Kernels3.bloom_Filter_IsLoaded bf)
  end.

Definition op_ok (o : op) : Prop :=
  match o with
  | OAdd d | OAddHash d | OMatches d => data_ok d
  | OAddOutPoint t _ | OMatchesOutPoint t _ => length t = 32%nat /\ Bytes t
  | _ => True
  end.

Theorem gen_step_tie fuel bf o :
  op_ok o -> wf (absf bf) -> fuel_ok fuel (absf bf) ->
  gen_step fuel bf o = Ok (putf bf (fst (step (absf bf) o)), snd (step (absf bf) o)).
Proof.
  intros Ho Hw Hf. destruct o as [d|h|t i|d|t i|m| |]; cbn [gen_step step fst snd op_ok] in Ho |- *.
  - rewrite bloom_Filter_Add_tie by assumption. reflexivity.
  - rewrite bloom_Filter_AddHash_tie by assumption. reflexivity.
  - destruct Ho. rewrite bloom_Filter_AddOutPoint_tie by assumption. reflexivity.
  - rewrite bloom_Filter_Matches_tie by assumption. cbn [rbind]. now rewrite putf_absf.
  - destruct Ho. rewrite bloom_Filter_MatchesOutPoint_tie by assumption. cbn [rbind]. now rewrite putf_absf.
  - rewrite bloom_Filter_Reload_tie. do 3 f_equal. unfold reload.
    destruct m as [m|]; cbn [option_map]; [now rewrite msg_of_of_msg | reflexivity].
  - reflexivity.
  - rewrite bloom_Filter_IsLoaded_tie, putf_absf. reflexivity.
Qed.
Print Assumptions gen_step_tie.

(* the hypotheses are satisfiable, and the tie computes *)
Example tie3_example :
  let bf := Kernels3.mk_bloom_Filter (Kernels3.mk_sync_Mutex 0) (Some (Kernels3.mk_wire_MsgFilterLoad [0; 0] 3 5 1)) in
  Kernels3.bloom_Filter_add 4 bf [1; 2; 3] = Ok (putf bf (add (absf bf) [1; 2; 3])) /\
  wf (absf bf) /\ fuel_ok 4 (absf bf) /\ data_ok [1; 2; 3] /\
  Kernels3.bloom_Filter_add 3 bf [1; 2; 3] = Panic 9.
Proof. vm_compute. repeat split; try discriminate; try lia. repeat constructor. Qed.

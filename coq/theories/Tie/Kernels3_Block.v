(* Tie between the generated functions of tx.go and block.go (Gen/Kernels3.v: NewTx, Tx_MsgTx_, Tx_Hash_,
   Tx_Index, Tx_SetIndex, NewBlock, NewBlockFromBlockAndBytes, Block_MsgBlock_, Block_Hash, Block_Height,
   Block_SetHeight, Block_Tx, Block_Transactions_) and the model Block/Block.v.

   The model gives every object handed out by pointer an identity (allocation counter w_next); the
   translation has values only.  The abstraction therefore goes FROM the model TO the translation and erases
   identities:
     txc := option wire_MsgTx    the translation's value of a *wire.MsgTx (mt_val)
     hdr := BlockHeader_t, H := list N
     g_tx / g_block              a model wtx / block without its identities
   Dependencies: MsgTx.TxHash := tx_hash W, MsgBlock.BlockHash := block_hash W of the header. *)
From BU Require Import Lib.Bytes Lib.PolyMod Gen.Xbchutil Block.Block
  Gen.Kernels2 Gen.Kernels3 Tie.Kernels2Lib Tie.Kernels3Lib.
From Coq Require Import ZifyBool ZifyN ZifyNat.

Section BlockTie.
Variables hdr tok : Type.          (* BlockHeader_t, TokenData_t *)
Notation MsgTx := (Kernels3.wire_MsgTx tok).
Notation txc := (option MsgTx).
Notation H := (list N).
Variable W : wire txc hdr H.

Notation gTx := (Kernels3.bchutil_Tx tok).
Notation gBlock := (Kernels3.bchutil_Block hdr tok).
Notation gMsgBlock := (Kernels3.wire_MsgBlock hdr tok).
Notation mtx := (msg_tx txc).
Notation mblock := (msg_block txc hdr).
Notation mwtx := (wtx txc H).
Notation mblk := (block txc hdr H).
Notation mworld := (world txc hdr H).

(* ---------- the abstraction ---------- *)
Definition g_tx (t : mwtx) : gTx :=
  Kernels3.mk_bchutil_Tx tok (mt_val _ (w_msg _ _ t)) (option_map snd (w_hash _ _ t)) (w_index _ _ t).
Definition g_slot (s : option mwtx) : option gTx := option_map g_tx s.
Definition g_msg (m : mblock) : gMsgBlock :=
  Kernels3.mk_wire_MsgBlock hdr tok (mb_hdr _ _ m) (map (mt_val _) (mb_txs _ _ m)).
Definition g_block (b : mblk) : gBlock :=
  Kernels3.mk_bchutil_Block hdr tok (Some (g_msg (b_msg _ _ _ b))) (b_ser _ _ _ b) (option_map snd (b_hash _ _ _ b))
    (b_height _ _ _ b) (map g_slot (b_txs _ _ _ b)) (b_gen _ _ _ b).

(* ---------- the dependencies ---------- *)
Definition TxHash (m : txc) : list N := tx_hash _ _ _ W m.
Definition BlockHash (ob : option gMsgBlock) : list N :=
  match ob with Some mb => block_hash _ _ _ W (Kernels3.wire_MsgBlock_Header hdr tok mb) | None => [] end.

(* ================= tx.go ================= *)
Theorem NewTx_tie next (m : mtx) :
  Kernels3.NewTx tok (mt_val _ m) = Some (g_tx (snd (new_tx txc H next m))).
Proof. reflexivity. Qed.

(* the model observes the identity of the *wire.MsgTx, the translation its value *)
Theorem Tx_MsgTx_tie (t : mwtx) : Kernels3.Tx_MsgTx_ tok (g_tx t) = mt_val _ (w_msg _ _ t).
Proof. reflexivity. Qed.

(* (phase 5) t.msgTx.TxHash() panics on a nil message: the tie needs the message to be non-nil *)
Theorem Tx_Hash_tie next (t : mwtx) : mt_val _ (w_msg _ _ t) <> None ->
  Kernels3.Tx_Hash_ tok TxHash (g_tx t)
  = Ok (let '(_, t', ph) := wtx_hash _ _ _ W next t in (Some (snd ph), g_tx t')).
Proof.
  intro Hnn. unfold Kernels3.Tx_Hash_, wtx_hash, g_tx. destruct t as [p m [[hp hv]|] ix]; cbn in Hnn |- *.
  - reflexivity.
  - destruct (mt_val txc m) as [x|] eqn:E; [reflexivity | now elim Hnn].
Qed.

Theorem Tx_Hash_nil_tie (t : mwtx) : mt_val _ (w_msg _ _ t) = None -> w_hash _ _ t = None ->
  Kernels3.Tx_Hash_ tok TxHash (g_tx t) = Panic 5.
Proof.
  intros Hn Hh. unfold Kernels3.Tx_Hash_, g_tx. destruct t as [p m h ix]; cbn in Hn, Hh |- *. subst h. cbn.
  now rewrite Hn.
Qed.

(* the same through the model's step function *)
Theorem Tx_Hash_tstep next (t : mwtx) : mt_val _ (w_msg _ _ t) <> None ->
  match tstep _ _ _ W (next, t) TpHash with
  | ((_, t'), OHashV _ _ h) => Kernels3.Tx_Hash_ tok TxHash (g_tx t) = Ok (Some h, g_tx t')
  | _ => False
  end.
Proof.
  intro Hnn. unfold tstep. rewrite (Tx_Hash_tie next _ Hnn). destruct (wtx_hash _ _ _ W next t) as [[n' t'] ph]. reflexivity.
Qed.

Theorem Tx_Index_tie (t : mwtx) : Kernels3.Tx_Index tok (g_tx t) = w_index _ _ t.
Proof. reflexivity. Qed.

Theorem Tx_SetIndex_tie (t : mwtx) i : Kernels3.Tx_SetIndex tok (g_tx t) i = g_tx (set_index _ _ t i).
Proof. reflexivity. Qed.

(* ================= block.go: constructors and simple accessors ================= *)
Theorem NewBlock_tie next (m : mblock) :
  Kernels3.NewBlock hdr tok (Some (g_msg m)) = Some (g_block (w_blk _ _ _ (new_block txc hdr H next m))).
Proof. reflexivity. Qed.

Theorem NewBlockFromBlockAndBytes_tie next (m : mblock) bytes :
  Kernels3.NewBlockFromBlockAndBytes hdr tok (Some (g_msg m)) bytes
  = Some (g_block (w_blk _ _ _ (new_block_from_block_and_bytes txc hdr H next m bytes))).
Proof. reflexivity. Qed.

Theorem Block_MsgBlock_tie (b : mblk) : Kernels3.Block_MsgBlock_ hdr tok (g_block b) = Some (g_msg (b_msg _ _ _ b)).
Proof. reflexivity. Qed.

Theorem Block_Hash_tie (w : mworld) :
  match step _ _ _ W w OpHash with
  | (w', OHashV _ _ h) =>
      Kernels3.Block_Hash hdr tok BlockHash (g_block (w_blk _ _ _ w)) = Ok (Some h, g_block (w_blk _ _ _ w'))
  | _ => False
  end.
Proof.
  unfold step, Kernels3.Block_Hash. destruct w as [next [m ser [[hp hv]|] hg txs gen]]; reflexivity.
Qed.

Theorem Block_Height_tie (w : mworld) :
  step _ _ _ W w OpHeight = (w, OIntV _ (Kernels3.Block_Height hdr tok (g_block (w_blk _ _ _ w)))).
Proof. reflexivity. Qed.

Theorem Block_SetHeight_tie (w : mworld) h :
  Kernels3.Block_SetHeight hdr tok (g_block (w_blk _ _ _ w)) h
  = g_block (w_blk _ _ _ (fst (step _ _ _ W w (OpSetHeight h)))).
Proof. reflexivity. Qed.

(* ================= Block.Tx ================= *)
Lemma set_at_map_upd {A B} (f : A -> B) (l : list A) : forall k v,
  Go.set_at (map f l) k (f v) = map f (upd l k v).
Proof. induction l as [|x l IH]; intros [|k] v; cbn [map Go.set_at upd]; try reflexivity. now rewrite IH. Qed.

Lemma nth_res_map {A B} (f : A -> B) (l : list A) k :
  nth_res (map f l) k = match nth_error l k with Some x => Ok (f x) | None => Panic 1 end.
Proof. unfold nth_res. rewrite nth_error_map. destruct (nth_error l k); reflexivity. Qed.

Lemma idx_Z {A} (l : list A) i : (0 <= i)%Z -> Go.idx l i = nth_res l (Z.to_nat i).
Proof. intros H. unfold Go.idx. destruct (Z.ltb_spec i 0); [lia|reflexivity]. Qed.

Lemma upd_Z {A} (l : list A) i x : (0 <= i)%Z -> (Z.to_nat i < length l)%nat ->
  Go.upd l i x = Ok (Go.set_at l (Z.to_nat i) x).
Proof.
  intros H0 H. unfold Go.upd. destruct (Z.ltb_spec i 0); [lia|].
  destruct (Z.leb_spec (Z.of_nat (length l)) i); [lia|]. reflexivity.
Qed.

Lemma map_repeat {A B} (f : A -> B) x n : map f (repeat x n) = repeat (f x) n.
Proof. induction n; cbn [repeat map]; congruence. Qed.

(* the model's result seen through the translation's conventions (error site 1 = OutOfRangeError = E_RANGE) *)
Definition tx_view (r : mworld * res (nat * mwtx)) : res (option gTx * N * gBlock) :=
  match r with
  | (w', Ok (_, t)) => Ok (Some (g_tx t), 0, g_block (w_blk _ _ _ w'))
  | (w', Err e) => Ok (None, e, g_block (w_blk _ _ _ w'))
  | (_, Panic p) => Panic p
  end.

(* Domain: the index and the number of transactions are below 2^64 (Go's int / len) *)
Theorem Block_Tx_tie (w : mworld) i :
  (i < 2 ^ 64)%Z -> (Z.of_nat (length (mb_txs _ _ (b_msg _ _ _ (w_blk _ _ _ w)))) < 2 ^ 64)%Z ->
  Kernels3.Block_Tx hdr tok (g_block (w_blk _ _ _ w)) i = tx_view (do_tx _ _ _ w i).
Proof.
  intros Hi Hn. destruct w as [next [m ser hs hg slots0 gen]]. cbn [w_blk b_msg] in Hn.
  unfold Kernels3.Block_Tx, do_tx, g_block.
  cbn [w_blk w_next b_msg b_ser b_hash b_height b_txs b_gen Kernels3.bchutil_Block_msgBlock Go3.deref rbind].
  set (txs := mb_txs _ _ m) in *. set (n := length txs) in *.
  assert (Hgt : Kernels3.wire_MsgBlock_Transactions hdr tok (g_msg m) = map (mt_val _) txs) by reflexivity.
  rewrite !Hgt, !map_length. fold n.
  change (zlit lits_Block_Tx 0) with 0%Z. change (natlit lits_Block_Tx 2) with 0%nat.
  assert (Hcond : ((i <? 0)%Z || (Z.to_N (Z.of_nat n mod 2 ^ 64) <=? Z.to_N (i mod 2 ^ 64)))
                  = ((i <? 0)%Z || (Z.of_nat n <=? i)%Z)).
  { destruct (Z.ltb_spec i 0) as [|Hi0]; [reflexivity|]. cbn [orb].
    rewrite !Z.mod_small by lia.
    destruct (N.leb_spec (Z.to_N (Z.of_nat n)) (Z.to_N i)), (Z.leb_spec (Z.of_nat n) i); try reflexivity; lia. }
  rewrite Hcond.
  destruct ((i <? 0)%Z || (Z.of_nat n <=? i)%Z) eqn:Erange; [reflexivity|].
  assert (Hi0 : (0 <= i)%Z) by lia.
  set (slots := if (length slots0 =? 0)%nat then repeat None n else slots0).
  match goal with |- context [Go.idx (Kernels3.bchutil_Block_transactions hdr tok ?X) i] => set (gb := X) end.
  assert (Hb : gb = Kernels3.mk_bchutil_Block hdr tok (Some (g_msg m)) ser (option_map snd hs) hg (map g_slot slots) gen).
  { unfold gb, slots. cbn [Kernels3.bchutil_Block_transactions]. rewrite map_length.
    replace (N.to_nat (Z.to_N (Z.of_nat n mod 2 ^ 64))) with n by (rewrite Z.mod_small by lia; lia).
    destruct (Nat.eqb_spec (length slots0) 0), (Z.eqb_spec (Z.of_nat (length slots0)) 0); try lia; [|reflexivity].
    unfold Kernels3.set_bchutil_Block_transactions.
    cbn [Kernels3.bchutil_Block_msgBlock Kernels3.bchutil_Block_serializedBlock Kernels3.bchutil_Block_blockHash
         Kernels3.bchutil_Block_blockHeight Kernels3.bchutil_Block_txnsGenerated].
    now rewrite map_repeat. }
  rewrite Hb. clear Hb gb.
  cbn [Kernels3.bchutil_Block_transactions Kernels3.set_bchutil_Block_transactions
       Kernels3.bchutil_Block_msgBlock Kernels3.bchutil_Block_serializedBlock Kernels3.bchutil_Block_blockHash
       Kernels3.bchutil_Block_blockHeight Kernels3.bchutil_Block_txnsGenerated Go3.deref rbind].
  rewrite !idx_Z by exact Hi0. rewrite nth_res_map.
  destruct (nth_error slots (Z.to_nat i)) as [[t|]|] eqn:Eslot; cbn [rbind g_slot option_map Go3.isnil negb].
  - reflexivity.
  - rewrite Hgt, nth_res_map.
    destruct (nth_error txs (Z.to_nat i)) as [mt|] eqn:Etx; cbn [rbind]; [|reflexivity].
    unfold Kernels3.NewTx. cbn [Go3.deref rbind]. unfold Kernels3.Tx_SetIndex.
    cbn [Kernels3.set_bchutil_Tx_txIndex Kernels3.bchutil_Tx_msgTx Kernels3.bchutil_Tx_txHash].
    assert (Hlt : (Z.to_nat i < length (map g_slot slots))%nat).
    { rewrite map_length. apply nth_error_Some. rewrite Eslot. discriminate. }
    rewrite upd_Z by assumption. cbn [rbind].
    unfold new_tx. cbn [fst snd].
    set (t := set_index txc H (mk_wtx txc H next mt None c_TxIndexUnknown) i).
    change (Some (Kernels3.set_bchutil_Tx_txIndex tok (Kernels3.mk_bchutil_Tx tok (mt_val _ mt) None (-1)%Z) i))
      with (g_slot (Some t)).
    rewrite set_at_map_upd. reflexivity.
  - reflexivity.
Qed.

(* Block.TxHash is NOT translated: `tx.Hash()` stores the hash in the *Tx that b.Tx(txNum) returned, which
   b.transactions[txNum] also points to: a write through a shared pointer.  The translator (ownership check
   of its alias analysis) rejects the function; an earlier version translated it and dropped that write, which
   the tie against the model's step OpTxHash exposed. *)

(* ================= Block.Transactions ================= *)
(* the body of the loop L137-L143, as generated *)
Definition loopF (b : gBlock) (i : Z) : res gBlock :=
  do tx <- Go.idx (Kernels3.bchutil_Block_transactions hdr tok b) i ;;
  do b <- (
    if Go3.isnil tx then
      do t2_ <- Go3.deref (Kernels3.bchutil_Block_msgBlock hdr tok b) ;;
      do t3_ <- Go.idx (Kernels3.wire_MsgBlock_Transactions hdr tok t2_) i ;;
      let newTx := Kernels3.NewTx tok t3_ in
      do t4_ <- Go3.deref newTx ;;
      let t5_ := Kernels3.Tx_SetIndex tok t4_ i in
      let newTx := Some t5_ in
      do t6_ <- Go.upd (Kernels3.bchutil_Block_transactions hdr tok b) i newTx ;;
      let b := Kernels3.set_bchutil_Block_transactions hdr tok b t6_ in
      Ok b
    else
      Ok b
  ) ;;
  Ok b.

Lemma upd_mid' {A} (pre : list A) y suf x : upd (pre ++ y :: suf) (length pre) x = pre ++ x :: suf.
Proof. induction pre as [|p pre IHp]; cbn [app length upd]; [reflexivity|now rewrite IHp]. Qed.

Lemma fill_loop (m : mblock) ser hsh hg gen (rest : list (option mwtx)) : forall done next,
  Go.foldM loopF (Go.zseq (Z.of_nat (length done)) (length rest))
    (Kernels3.mk_bchutil_Block hdr tok (Some (g_msg m)) ser hsh hg (map g_slot (done ++ rest)) gen)
  = match fill txc H next (length done) (mb_txs _ _ m) rest with
    | Ok (_, rest') => Ok (Kernels3.mk_bchutil_Block hdr tok (Some (g_msg m)) ser hsh hg (map g_slot (done ++ rest')) gen)
    | Err e => Err e
    | Panic p => Panic p
    end.
Proof.
  induction rest as [|s rest IH]; intros done next.
  - reflexivity.
  - cbn [length Go.zseq Go.foldM].
    assert (Hidx : Go.idx (map g_slot (done ++ s :: rest)) (Z.of_nat (length done)) = Ok (g_slot s)).
    { rewrite idx_nat, nth_res_map, nth_error_app2 by lia. now rewrite Nat.sub_diag. }
    assert (Hnext : forall t next',
      Go.foldM loopF (Go.zseq (Z.of_nat (length done) + 1) (length rest))
        (Kernels3.mk_bchutil_Block hdr tok (Some (g_msg m)) ser hsh hg (map g_slot (done ++ Some t :: rest)) gen)
      = match (do r <- fill txc H next' (S (length done)) (mb_txs _ _ m) rest ;; Ok (fst r, Some t :: snd r)) with
        | Ok (_, rest') => Ok (Kernels3.mk_bchutil_Block hdr tok (Some (g_msg m)) ser hsh hg (map g_slot (done ++ rest')) gen)
        | Err e => Err e
        | Panic p => Panic p
        end).
    { intros t next'.
      replace (done ++ Some t :: rest) with ((done ++ [Some t]) ++ rest) by (now rewrite <- app_assoc).
      replace (Z.of_nat (length done) + 1)%Z with (Z.of_nat (length (done ++ [Some t])))
        by (rewrite app_length; cbn [length]; lia).
      rewrite (IH (done ++ [Some t]) next').
      replace (length (done ++ [Some t])) with (S (length done)) by (rewrite app_length; cbn [length]; lia).
      destruct (fill txc H next' (S (length done)) (mb_txs _ _ m) rest) as [[n' r']|e|p]; cbn [rbind fst snd];
        try reflexivity.
      now rewrite <- app_assoc. }
    unfold loopF at 1. cbn [Kernels3.bchutil_Block_transactions Kernels3.bchutil_Block_msgBlock].
    rewrite Hidx. cbn [rbind]. destruct s as [t|]; cbn [g_slot option_map Go3.isnil rbind fill].
    + apply Hnext.
    + cbn [Go3.deref rbind]. change (Kernels3.wire_MsgBlock_Transactions hdr tok (g_msg m)) with (map (mt_val txc) (mb_txs _ _ m)).
      rewrite idx_nat, nth_res_map.
      destruct (nth_error (mb_txs _ _ m) (length done)) as [mt|]; cbn [rbind]; [|reflexivity].
      unfold Kernels3.NewTx. cbn [Go3.deref rbind].
      rewrite upd_nat by (rewrite map_length, app_length; cbn [length]; lia). cbn [rbind].
      unfold new_tx.
      set (t := set_index txc H (mk_wtx txc H next mt None c_TxIndexUnknown) (Z.of_nat (length done))).
      change (Some (Kernels3.Tx_SetIndex tok (Kernels3.mk_bchutil_Tx tok (mt_val _ mt) None (-1)%Z) (Z.of_nat (length done))))
        with (g_slot (Some t)).
      rewrite set_at_map_upd.
      rewrite upd_mid'.
      unfold Kernels3.set_bchutil_Block_transactions.
      cbn [Kernels3.bchutil_Block_msgBlock Kernels3.bchutil_Block_serializedBlock Kernels3.bchutil_Block_blockHash
           Kernels3.bchutil_Block_blockHeight Kernels3.bchutil_Block_txnsGenerated].
      apply Hnext.
Qed.

Definition txs_view (r : mworld * obs H) : res (list (option gTx) * gBlock) :=
  match r with
  | (w', OTxsV _ _) => Ok (map g_slot (b_txs _ _ _ (w_blk _ _ _ w')), g_block (w_blk _ _ _ w'))
  | (_, OPanic _ p) => Panic p
  | (_, OErr _ e) => Err e
  | _ => Panic 0
  end.

(* every world: no side condition *)
Theorem Block_Transactions_tie (w : mworld) :
  Kernels3.Block_Transactions_ hdr tok (g_block (w_blk _ _ _ w)) = txs_view (step _ _ _ W w OpTransactions).
Proof.
  destruct w as [next [m ser hs hg slots0 gen]].
  unfold Kernels3.Block_Transactions_, step, g_block.
  cbn [w_blk w_next b_msg b_ser b_hash b_height b_txs b_gen Kernels3.bchutil_Block_txnsGenerated].
  destruct gen; [reflexivity|].
  change (natlit lits_Block_Transactions 0) with 0%nat.
  set (txs := mb_txs _ _ m).
  set (slots := if (length slots0 =? 0)%nat then repeat None (length txs) else slots0).
  cbn [Kernels3.bchutil_Block_transactions Kernels3.bchutil_Block_msgBlock Go3.deref rbind].
  match goal with |- (do b <- ?X ;; _) = _ =>
    assert (Hb : X = Ok (Kernels3.mk_bchutil_Block hdr tok (Some (g_msg m)) ser (option_map snd hs) hg (map g_slot slots) false)) end.
  { unfold slots. rewrite map_length.
    destruct (Nat.eqb_spec (length slots0) 0), (Z.eqb_spec (Z.of_nat (length slots0)) 0); try lia; [|reflexivity].
    unfold Kernels3.set_bchutil_Block_transactions.
    cbn [Kernels3.bchutil_Block_msgBlock Kernels3.bchutil_Block_serializedBlock Kernels3.bchutil_Block_blockHash
         Kernels3.bchutil_Block_blockHeight Kernels3.bchutil_Block_txnsGenerated].
    change (Kernels3.wire_MsgBlock_Transactions hdr tok (g_msg m)) with (map (mt_val txc) txs).
    rewrite map_length, Nat2Z.id, map_repeat. reflexivity. }
  rewrite Hb. cbn [rbind Kernels3.bchutil_Block_transactions]. rewrite map_length.
  pose proof (fill_loop m ser (option_map snd hs) hg false slots [] next) as HL.
  cbn [app length] in HL. change (Z.of_nat 0) with 0%Z in HL.
  change (Go.foldM _ (Go.zseq 0 (length slots)) ?b) with (Go.foldM loopF (Go.zseq 0 (length slots)) b).
  rewrite HL. fold txs.
  destruct (fill txc H next 0 txs slots) as [[n' slots']|e|p]; reflexivity.
Qed.

End BlockTie.

Print Assumptions NewTx_tie.
Print Assumptions Tx_MsgTx_tie.
Print Assumptions Tx_Hash_tie.
Print Assumptions Tx_Hash_tstep.
Print Assumptions Tx_Index_tie.
Print Assumptions Tx_SetIndex_tie.
Print Assumptions NewBlock_tie.
Print Assumptions NewBlockFromBlockAndBytes_tie.
Print Assumptions Block_MsgBlock_tie.
Print Assumptions Block_Hash_tie.
Print Assumptions Block_Height_tie.
Print Assumptions Block_SetHeight_tie.
Print Assumptions Block_Tx_tie.
Print Assumptions Block_Transactions_tie.

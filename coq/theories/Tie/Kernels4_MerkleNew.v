(* Tie for the two exported merkle-block builders that take a bloom filter (Gen/Kernels4.v):

     Kernels4.NewMerkleBlockWithFilter   merkleblock/encode.go:95   against  mb_new_with_filter
     Kernels4.bloom_NewMerkleBlock       bloom/merkleblock.go:126   against  bl_new

   of Merkle/Merkle.v.  The model's builders take the matched map as a predicate on transaction
   indices, [matched_map : nat -> bool]; here it is the lookup in the Go map returned by
   bloom.GetMatchedIndices:   map_pred mm i  =  mm[i]  (false for a missing key, and for the nil map).

   NewMerkleBlockWithFilter: instantiation of Kernels3_MerkleBlock.v (Block_t := header * list of
   transaction hashes, Tx_t := hash, Tx.Hash() := a non-nil pointer to it, Block.MsgBlock() := a non-nil
   MsgBlock with that header, AddTxHash := add_tx_hash cap); Filter_t and bloom.GetMatchedIndices stay
   ABSTRACT (the translation has them as Section variables; the theorem holds for every function).

   bloom_NewMerkleBlock: Block_t, Tx_t, TokenData_t and the dependencies of GetMatchedIndices stay
   abstract.  The block is related to the model's arguments by two hypotheses (the transactions'
   Hash() are non-nil pointers to [leaves]; MsgBlock() is non-nil with header [header]), and
   GetMatchedIndices is kept as an arbitrary successful result: the hypothesis
     Kernels3.GetMatchedIndices ... fuel block filter = Ok mm
   (this is the simpler choice: GetMatchedIndices_tie / _total of Kernels3_BloomBlock.v have exactly
   this conclusion, with mm = Some (mi_of (s_matched st)), so the two compose by rewriting; when
   GetMatchedIndices panics or runs out of fuel so does NewMerkleBlock, see bloom_NewMerkleBlock_gmi_fail).
   The packing of the bits into Flags and the AddTxHash loop are the model's (pack_bits inside bl_new):
   the generated loops have the same text as those of calcBlock and the lemmas pack_loop /
   add_hashes_loop of Kernels3_MerkleBlock.v are reused.  bloom_NewMerkleBlock_total composes the tie
   with GetMatchedIndices_total: the matched map becomes membership in the model's matched set.

   Side conditions, as for NewMerkleBlockWithTxnSet_tie: fuel >= numTx + 34; the traversal emits fewer
   than 2^32 bits (the packing loop runs over uint32(len(bits)) of them) and at most cap hashes (both
   builders DISCARD the error of AddTxHash, cap = wire's maxTxPerBlock).  The _std corollaries discharge
   them in the model's standard domain 0 < number of transactions < 2^31, number of transactions <= cap. *)
From BU Require Import Lib.Bytes Lib.PolyMod Merkle.Merkle Merkle.PmtSpec Merkle.MerkleArith Merkle.ExtractProofs
  Merkle.PmtProofs Merkle.LevelProofs Merkle.PackProofs Merkle.BuildProofs
  Gen.Kernels2 Gen.Kernels3 Gen.Kernels4 Tie.Kernels2Lib Tie.Kernels3Lib Tie.Kernels3_MerkleLib
  Tie.Kernels3_MerkleBuild Tie.Kernels3_MerkleBlock Tie.Kernels3_MerkleBloom.
From BU Require Bloom.Bloom Bloom.BloomTx Bloom.BloomTxBloom Tie.Kernels3_BloomFilter Tie.Kernels3_BloomBlock.
From Coq Require Import Lia ZifyBool ZifyN ZifyNat.

Local Open Scope N_scope.

(* matchedMap[txIndex] *)
Definition map_pred (mm : option (list (Z * bool))) (i : nat) : bool :=
  match Go3.mget Z.eqb mm (Z.of_nat i) with Some v => v | None => false end.

Lemma seq_S_cons i k : seq i (S k) = i :: seq (S i) k.
Proof. reflexivity. Qed.

(* ====================================================================== *)
(* merkleblock.NewMerkleBlockWithFilter                                    *)
(* ====================================================================== *)
Section WithFilter.
Variable node_hash : hash -> hash -> hash.
Variable cap : N.
Variable Filter_t : Type.
Variable gmi : Block -> Filter_t -> option (list (Z * bool)).

Definition gNewFilter :=
  Kernels4.NewMerkleBlockWithFilter (list N) Block unit hash Filter_t (hmb node_hash) block_msgblock
    (add_tx_hash cap) (fun b : Block => snd b) (fun h : hash => Some h) gmi.

Definition filt_body (matchedMap : option (list (Z * bool))) : MB * list N -> Z * hash -> MB * list N :=
  fun '(mBlock, matchedIndices) '(txIndex, tx) =>
      let '(mBlock, matchedIndices) :=
        if (match Go3.mget Z.eqb matchedMap txIndex with Some v_ => v_ | None => false end) then
          let mBlock := (Kernels3.set_merkleblock_MerkleBlock_matchedBits mBlock ((Kernels3.merkleblock_MerkleBlock_matchedBits mBlock) ++ [1])) in
          let matchedIndices := (matchedIndices ++ [(Z.to_N (txIndex mod 2^32))]) in
          (mBlock, matchedIndices)
        else
          let mBlock := (Kernels3.set_merkleblock_MerkleBlock_matchedBits mBlock ((Kernels3.merkleblock_MerkleBlock_matchedBits mBlock) ++ [0])) in
          (mBlock, matchedIndices)
      in
      let mBlock := (Kernels3.set_merkleblock_MerkleBlock_allHashes mBlock ((Kernels3.merkleblock_MerkleBlock_allHashes mBlock) ++ [Some tx])) in
      (mBlock, matchedIndices).

Lemma filt_loop (mm : option (list (Z * bool))) n fh bs : forall (ls : list hash) (i : nat) all mbits idxs,
  fold_left (filt_body mm) (List.combine (Go.zseq (Z.of_nat i) (length ls)) ls)
    (Kernels3.mk_merkleblock_MerkleBlock n (map Some all) fh mbits bs, idxs)
  = (Kernels3.mk_merkleblock_MerkleBlock n (map Some (all ++ ls)) fh
          (mbits ++ matched_bits 1 0 (map (map_pred mm) (seq i (length ls)))) bs,
     idxs ++ matched_indices (N.of_nat i) (map (map_pred mm) (seq i (length ls)))).
Proof.
  induction ls as [|x t IH]; intros i all mbits idxs.
  - cbn [length Go.zseq List.combine fold_left seq map matched_bits matched_indices].
    rewrite !app_nil_r. reflexivity.
  - cbn [length]. rewrite seq_S_cons.
    cbn [Go.zseq List.combine fold_left map matched_bits matched_indices].
    unfold filt_body at 2. fold (map_pred mm i).
    replace (Z.of_nat i + 1)%Z with (Z.of_nat (S i)) by lia.
    replace (N.of_nat i + 1) with (N.of_nat (S i)) by lia.
    rewrite u32_index.
    destruct (map_pred mm i); mbsimpl;
      (replace (map Some all ++ [Some x]) with (map Some (all ++ [x])) by (rewrite map_app; reflexivity));
      rewrite IH; rewrite <- !app_assoc; reflexivity.
Qed.

Theorem NewMerkleBlockWithFilter_tie (header : list N) (leaves : list hash) (filter : Filter_t) (fuel : nat) :
  let mm := gmi (header, leaves) filter in
  let n := u32 (N.of_nat (length leaves)) in
  let mbits := matched_bits 1 0 (map (map_pred mm) (seq 0 (length leaves))) in
  (N.to_nat n + 34 <= fuel)%nat ->
  (forall st, calc_st node_hash n leaves mbits = Ok st ->
     N.of_nat (length (fst st)) < 2 ^ 32 /\ N.of_nat (length (snd st)) <= cap) ->
  gNewFilter fuel (header, leaves) filter
  = rmap (fun mi : msg * list N => (Some (wire_gen (fst mi)), snd mi))
         (mb_new_with_filter node_hash header leaves (map_pred mm)).
Proof.
  intros mm n mbits Hfuel Hdom. unfold gNewFilter, Kernels4.NewMerkleBlockWithFilter. cbn [snd].
  rewrite u32_len_gen. fold n. fold mm.
  change (fold_left _ ?l ?s) with (fold_left (filt_body mm) l s).
  unfold Go.enum.
  pose proof (filt_loop mm n [] [] leaves 0%nat [] [] []) as HL. cbn [map app Z.of_nat N.of_nat] in HL.
  rewrite HL. clear HL.
  fold mbits.
  match goal with |- context [Kernels3.MerkleBlock_calcBlock ?a ?b ?c ?d ?e ?f ?g ?m ?blk] =>
    change (Kernels3.MerkleBlock_calcBlock a b c d e f g m blk)
      with (gCB node_hash cap fuel (mb_gen n leaves mbits ([], [])) (header, leaves)) end.
  rewrite MerkleBlock_calcBlock_tie; try assumption.
  - rewrite mb_new_with_filter_eq. cbv zeta. fold n. fold mbits. rewrite mb_calc_block_st.
    destruct (calc_st node_hash n leaves mbits) as [st|e|k]; reflexivity.
  - unfold mbits. rewrite matched_bits_length, map_length, seq_length. unfold n, u32, two32. lia.
Qed.

End WithFilter.
Print Assumptions NewMerkleBlockWithFilter_tie.

(* In the model's standard domain the side conditions on the traversal's output hold (the argument of
   NewMerkleBlockWithTxnSet_tie_std, for an arbitrary selection of the right length). *)
Lemma calc_st_std_dom (node_hash : hash -> hash -> hash) (cap : N) (leaves : list hash) (sel : list bool) :
  length sel = length leaves ->
  0 < N.of_nat (length leaves) < 2 ^ 31 ->
  N.of_nat (length leaves) <= cap ->
  forall st, calc_st node_hash (N.of_nat (length leaves)) leaves (matched_bits 1 0 sel) = Ok st ->
    N.of_nat (length (fst st)) < 2 ^ 32 /\ N.of_nat (length (snd st)) <= cap.
Proof.
  intros Hlen [Hpos Hsmall] Hcap st Hst. unfold calc_st in Hst.
  destruct (calc_height_ok _ Hsmall) as (H & HH & H31 & Hheight). rewrite HH in Hst. cbn [rbind] in Hst.
  assert ((0 <? N.of_nat (length leaves)) = true) as E by lia. rewrite E in Hst. clear E.
  rewrite Nat2N.id, matched_bits_b2n in Hst.
  rewrite (traverse_build_spec node_hash leaves sel Hlen Hpos Hsmall H 0 ([], []) H31) in Hst
    by (apply width_pos; exact Hpos).
  inversion Hst; subst st; clear Hst. cbn [fst snd app].
  pose proof (spec_tree_shape node_hash leaves sel Hlen Hpos Hsmall H 0) as Hshape.
  split.
  - rewrite map_length. pose proof (shape_flags_lt node_hash _ _ _ _ Hshape) as Hf.
    assert (2 ^ N.of_nat (S H) <= 2 ^ 32) by (apply N.pow_le_mono_r; lia). lia.
  - pose proof (shape_hashes_le _ H 0 _ (width_pos _ _ Hpos) Hshape) as Hh. lia.
Qed.

Lemma u32_std (k : nat) : N.of_nat k < 2 ^ 31 -> u32 (N.of_nat k) = N.of_nat k.
Proof. intros Hsmall. apply u32_small. change (2 ^ 31) with 2147483648 in Hsmall. rewrite pow32_val. lia. Qed.

Theorem NewMerkleBlockWithFilter_tie_std (node_hash : hash -> hash -> hash) (cap : N) (Filter_t : Type)
    (gmi : Block -> Filter_t -> option (list (Z * bool)))
    (header : list N) (leaves : list hash) (filter : Filter_t) (fuel : nat) :
  0 < N.of_nat (length leaves) < 2 ^ 31 ->
  N.of_nat (length leaves) <= cap ->
  (length leaves + 34 <= fuel)%nat ->
  gNewFilter node_hash cap Filter_t gmi fuel (header, leaves) filter
  = rmap (fun mi : msg * list N => (Some (wire_gen (fst mi)), snd mi))
         (mb_new_with_filter node_hash header leaves (map_pred (gmi (header, leaves) filter))).
Proof.
  intros Hdom Hcap Hfuel.
  pose proof (u32_std _ (proj2 Hdom)) as Hu.
  apply NewMerkleBlockWithFilter_tie; rewrite Hu; [lia|].
  apply calc_st_std_dom; try assumption. rewrite map_length, seq_length. reflexivity.
Qed.
Print Assumptions NewMerkleBlockWithFilter_tie_std.

(* ====================================================================== *)
(* bloom.NewMerkleBlock                                                    *)
(* ====================================================================== *)
Section BloomLoop.
Variable Tx_t : Type.
Variable Tx_Hash : Tx_t -> option (list N).

Definition bfilt_body (matchedMap : option (list (Z * bool))) : BL * list N -> Z * Tx_t -> BL * list N :=
  fun '(mBlock, matchedIndices) '(txIndex, tx) =>
      let '(mBlock, matchedIndices) :=
        if (match Go3.mget Z.eqb matchedMap txIndex with Some v_ => v_ | None => false end) then
          let mBlock := (Kernels4.set_bloom_merkleBlock_matchedBits mBlock ((Kernels3.bloom_merkleBlock_matchedBits mBlock) ++ [1])) in
          let matchedIndices := (matchedIndices ++ [(Z.to_N (txIndex mod 2^32))]) in
          (mBlock, matchedIndices)
        else
          let mBlock := (Kernels4.set_bloom_merkleBlock_matchedBits mBlock ((Kernels3.bloom_merkleBlock_matchedBits mBlock) ++ [0])) in
          (mBlock, matchedIndices)
      in
      let mBlock := (Kernels4.set_bloom_merkleBlock_allHashes mBlock ((Kernels3.bloom_merkleBlock_allHashes mBlock) ++ [(Tx_Hash tx)])) in
      (mBlock, matchedIndices).

Ltac blrsimpl :=
  unfold Kernels4.set_bloom_merkleBlock_matchedBits, Kernels4.set_bloom_merkleBlock_allHashes;
  cbn [Kernels3.bloom_merkleBlock_numTx Kernels3.bloom_merkleBlock_allHashes
       Kernels3.bloom_merkleBlock_finalHashes Kernels3.bloom_merkleBlock_matchedBits
       Kernels3.bloom_merkleBlock_bits fst snd].

Lemma bfilt_loop (mm : option (list (Z * bool))) n fh bs : forall (txs : list Tx_t) (ls : list hash) (i : nat) all mbits idxs,
  map Tx_Hash txs = map Some ls ->
  fold_left (bfilt_body mm) (List.combine (Go.zseq (Z.of_nat i) (length txs)) txs)
    (Kernels3.mk_bloom_merkleBlock n (map Some all) fh mbits bs, idxs)
  = (Kernels3.mk_bloom_merkleBlock n (map Some (all ++ ls)) fh
          (mbits ++ matched_bits 1 0 (map (map_pred mm) (seq i (length ls)))) bs,
     idxs ++ matched_indices (N.of_nat i) (map (map_pred mm) (seq i (length ls)))).
Proof using.
  induction txs as [|x t IH]; intros ls i all mbits idxs Hh.
  - destruct ls as [|y ls]; [|discriminate Hh].
    cbn [length Go.zseq List.combine fold_left seq map matched_bits matched_indices].
    rewrite !app_nil_r. reflexivity.
  - destruct ls as [|y ls]; [discriminate Hh|]. cbn [map] in Hh.
    injection Hh as Hx Ht.
    cbn [length]. rewrite seq_S_cons.
    cbn [Go.zseq List.combine fold_left map matched_bits matched_indices].
    unfold bfilt_body at 2. fold (map_pred mm i). rewrite Hx.
    replace (Z.of_nat i + 1)%Z with (Z.of_nat (S i)) by lia.
    replace (N.of_nat i + 1) with (N.of_nat (S i)) by lia.
    rewrite u32_index.
    destruct (map_pred mm i); blrsimpl;
      (change (map Some all ++ [Some y]) with (map Some all ++ map Some [y]); rewrite <- map_app);
      rewrite (IH ls) by exact Ht; rewrite <- !app_assoc; reflexivity.
Qed.

End BloomLoop.

Section BloomNew.
Variable node_hash : hash -> hash -> hash.
Variable cap : N.
Variables Block_t TokenData_t Tx_t : Type.
Variable Block_MsgBlock : Block_t -> option (Kernels3.wire_MsgBlock (list N) TokenData_t).
Variable Block_Transactions : Block_t -> list Tx_t.
Variable Tx_Hash : Tx_t -> option (list N).
Variable wire_NewOutPoint : option (list N) -> N -> option Kernels3.wire_OutPoint.
Variable GetScriptClass : list N -> N.
Variable Tx_MsgTx : Tx_t -> option (Kernels3.wire_MsgTx TokenData_t).
Variable PushedData : list N -> list (list N) * N.
Variable wire_MsgTx_TxHash : option (Kernels3.wire_MsgTx TokenData_t) -> list N.

Definition gGMI4 :=
  Kernels3.GetMatchedIndices Block_t TokenData_t Tx_t Block_Transactions Tx_Hash wire_NewOutPoint
    GetScriptClass Tx_MsgTx PushedData wire_MsgTx_TxHash.

Definition gNewBloom :=
  Kernels4.bloom_NewMerkleBlock (list N) Block_t TokenData_t Tx_t (hmb node_hash) Block_MsgBlock
    (add_tx_hash cap) Block_Transactions Tx_Hash wire_NewOutPoint GetScriptClass Tx_MsgTx PushedData
    wire_MsgTx_TxHash.


Theorem bloom_NewMerkleBlock_tie (block : Block_t) (filter : option Kernels3.bloom_Filter)
    (mm : option (list (Z * bool))) (mb : Kernels3.wire_MsgBlock (list N) TokenData_t)
    (leaves : list hash) (fuel : nat) :
  gGMI4 fuel block filter = Ok mm ->
  map Tx_Hash (Block_Transactions block) = map Some leaves ->
  Block_MsgBlock block = Some mb ->
  let header := Kernels3.wire_MsgBlock_Header _ _ mb in
  let n := u32 (N.of_nat (length leaves)) in
  let mbits := matched_bits 1 0 (map (map_pred mm) (seq 0 (length leaves))) in
  (N.to_nat n + 34 <= fuel)%nat ->
  (forall st, calc_st node_hash n leaves mbits = Ok st ->
     N.of_nat (length (fst st)) < 2 ^ 32 /\ N.of_nat (length (snd st)) <= cap) ->
  gNewBloom fuel block filter
  = rmap (fun mi : msg * list N => (Some (wire_gen (fst mi)), snd mi))
         (bl_new node_hash header leaves (map_pred mm)).
Proof using.
  intros Hgmi Hhash Hmsg header n mbits Hfuel Hdom.
  assert (Hlen : length (Block_Transactions block) = length leaves).
  { rewrite <- (map_length Tx_Hash), Hhash, map_length. reflexivity. }
  unfold gNewBloom, Kernels4.bloom_NewMerkleBlock.
  fold gGMI4. rewrite Hgmi. cbn [rbind].
  rewrite u32_len_gen, Hlen. fold n.
  match goal with |- context [fold_left ?f (Go.enum (Block_Transactions block)) ?s] =>
    change (fold_left f (Go.enum (Block_Transactions block)) s)
      with (fold_left (bfilt_body Tx_t Tx_Hash mm) (Go.enum (Block_Transactions block)) s) end.
  unfold Go.enum.
  pose proof (bfilt_loop Tx_t Tx_Hash mm n [] [] (Block_Transactions block) leaves 0%nat [] [] [] Hhash) as HL.
  cbn [map app Z.of_nat N.of_nat] in HL.
  rewrite HL. clear HL. fold mbits.
  change (Kernels3.mk_bloom_merkleBlock n (map Some leaves) [] mbits [])
    with (bl_gen n leaves mbits ([], [])).
  assert (Hn : n <= N.of_nat (length mbits)).
  { unfold mbits. rewrite matched_bits_length, map_length, seq_length. unfold n, u32, two32. lia. }
  destruct (gheight_loop_ok n fuel) as (H & HG & HM & HH); [lia|].
  change (Go.whileM fuel _ _ 0) with (gheight_loop fuel n 0). rewrite HG. cbn [rbind].
  rewrite bl_new_eq. cbv zeta. fold n. fold mbits.
  unfold calc_st in Hdom. rewrite HM in *. cbn [rbind] in *.
  change (Kernels3.bloom_merkleBlock_numTx (bl_gen n leaves mbits ([], []))) with n.
  fold (gBTB node_hash). rewrite bl_traverse_build_mb.
  assert (Hst : (if 0 <? n
                 then do m <- gBTB node_hash fuel (bl_gen n leaves mbits ([], [])) H 0 ;; Ok m
                 else Ok (bl_gen n leaves mbits ([], [])))
                = rmap (bl_gen n leaves mbits)
                    (if 0 <? n then mb_traverse_build node_hash n leaves mbits (N.to_nat H) 0 ([], []) else Ok ([], []))).
  { destruct (0 <? n); [|reflexivity].
    replace H with (N.of_nat (N.to_nat H)) at 1 by lia.
    rewrite bloom_merkleBlock_traverseAndBuild_tie by (try assumption; rewrite ?pow32_val; lia).
    rewrite bl_traverse_build_mb.
    destruct (mb_traverse_build _ _ _ _ _ _ _); reflexivity. }
  rewrite Hst. clear Hst.
  destruct (if 0 <? n then _ else _) as [st|e|k]; cbn [rmap rbind]; try reflexivity.
  destruct (Hdom st eq_refl) as [Hb Hc].
  rewrite Hmsg. cbn [Go3.deref rbind]. fold header.
  unfold bl_gen.
  cbn [Kernels3.bloom_merkleBlock_numTx Kernels3.bloom_merkleBlock_finalHashes Kernels3.bloom_merkleBlock_bits].
  rewrite add_hashes_loop by (cbn [length]; lia). cbn [app].
  rewrite u32_len by exact Hb. rewrite Nat2N.id.
  change (Go.foldM _ ?l ?s) with (Go.foldM (pack_body (fst st)) l s).
  replace (Z.to_nat ((Z.of_nat (length (fst st)) + 7) ÷ 8)) with ((length (fst st) + 7) / 8)%nat
    by (rewrite Z.quot_div_nonneg by lia; lia).
  pose proof (pack_loop header n (map Some (snd st)) ((length (fst st) + 7) / 8)%nat (fst st) [] [] eq_refl eq_refl) as HP.
  cbn [app length] in HP. change (N.of_nat 0) with 0 in HP. rewrite HP. cbn [rbind fst snd].
  unfold wire_gen. cbn [m_header m_transactions m_hashes m_flags].
  unfold pack_bits. cbn [N.eqb Pos.eqb negb]. change (N.to_nat 8) with 8%nat.
  replace (N.to_nat ((N.of_nat (length (fst st)) + 7) / 8)) with ((length (fst st) + 7) / 8)%nat by lia.
  reflexivity.
Qed.

(* GetMatchedIndices is the first statement: when it does not return normally (a panic, e.g. a nil
   filter with a non-empty block, or fuel exhausted) neither does NewMerkleBlock *)
Lemma bloom_NewMerkleBlock_gmi_fail (block : Block_t) (filter : option Kernels3.bloom_Filter) (fuel : nat) :
  (forall k, gGMI4 fuel block filter = Panic k -> gNewBloom fuel block filter = Panic k) /\
  (forall e, gGMI4 fuel block filter = Err e -> gNewBloom fuel block filter = Err e).
Proof using.
  unfold gNewBloom, Kernels4.bloom_NewMerkleBlock. fold gGMI4.
  split; intros x Hx; rewrite Hx; reflexivity.
Qed.

(* in the model's standard domain *)
Theorem bloom_NewMerkleBlock_tie_std (block : Block_t) (filter : option Kernels3.bloom_Filter)
    (mm : option (list (Z * bool))) (mb : Kernels3.wire_MsgBlock (list N) TokenData_t)
    (leaves : list hash) (fuel : nat) :
  gGMI4 fuel block filter = Ok mm ->
  map Tx_Hash (Block_Transactions block) = map Some leaves ->
  Block_MsgBlock block = Some mb ->
  0 < N.of_nat (length leaves) < 2 ^ 31 ->
  N.of_nat (length leaves) <= cap ->
  (length leaves + 34 <= fuel)%nat ->
  gNewBloom fuel block filter
  = rmap (fun mi : msg * list N => (Some (wire_gen (fst mi)), snd mi))
         (bl_new node_hash (Kernels3.wire_MsgBlock_Header _ _ mb) leaves (map_pred mm)).
Proof using.
  intros Hgmi Hhash Hmsg Hdom Hcap Hfuel.
  pose proof (u32_std _ (proj2 Hdom)) as Hu.
  apply (bloom_NewMerkleBlock_tie block filter mm mb leaves fuel Hgmi Hhash Hmsg); rewrite Hu; [lia|].
  apply calc_st_std_dom; try assumption. rewrite map_length, seq_length. reflexivity.
Qed.

End BloomNew.
Print Assumptions bloom_NewMerkleBlock_tie.
Print Assumptions bloom_NewMerkleBlock_gmi_fail.
Print Assumptions bloom_NewMerkleBlock_tie_std.

(* ====================================================================== *)
(* composed with GetMatchedIndices_total (Kernels3_BloomBlock.v)           *)
(* ====================================================================== *)
Lemma map_pred_mi (l : list nat) (i : nat) :
  map_pred (Some (Kernels3_BloomBlock.mi_of l)) i = existsb (Nat.eqb i) l.
Proof.
  unfold map_pred, Go3.mget. rewrite Kernels3_BloomBlock.map_get_mi.
  destruct (existsb (Nat.eqb i) l); reflexivity.
Qed.

Lemma bl_new_ext node_hash header leaves (f g : nat -> bool) :
  (forall i, f i = g i) -> bl_new node_hash header leaves f = bl_new node_hash header leaves g.
Proof. intros Hfg. unfold bl_new. rewrite (map_ext f g Hfg). reflexivity. Qed.

Section BloomNewTotal.
Variable node_hash : hash -> hash -> hash.
Variable cap : N.
Variables Block_t TokenData_t Tx_t : Type.
Variable Block_MsgBlock : Block_t -> option (Kernels3.wire_MsgBlock (list N) TokenData_t).
Variable Block_Transactions : Block_t -> list Tx_t.
Variable Tx_Hash : Tx_t -> option (list N).
Variable wire_NewOutPoint : option (list N) -> N -> option Kernels3.wire_OutPoint.
Variable GetScriptClass : list N -> N.
Variable Tx_MsgTx : Tx_t -> option (Kernels3.wire_MsgTx TokenData_t).
Variable PushedData : list N -> list (list N) * N.
Variable wire_MsgTx_TxHash : option (Kernels3.wire_MsgTx TokenData_t) -> list N.
Variable cls : N -> BloomTx.sclass.
Hypothesis NewOutPoint_spec : forall h i, wire_NewOutPoint (Some h) i = Some (Kernels3.mk_wire_OutPoint h i).
Hypothesis cls_spec : forall c, BloomTx.class_updates (cls c) = (c =? 1) || (c =? 5).
Hypothesis TxHash_spec : forall t h, Tx_Hash t = Some h -> wire_MsgTx_TxHash (Tx_MsgTx t) = h.

(* On the whole domain of GetMatchedIndices_total and the standard domain of the builder, with the fuel
   scan_fuel mtxs + kf of the former (kf > HashFuncs) also covering the builder's numTx + 34:
   bloom.NewMerkleBlock is bl_new applied to the membership test of the model's matched set. *)
Theorem bloom_NewMerkleBlock_total (kf : nat) (block : Block_t) (bf : Kernels3.bloom_Filter)
    (mtxs : list Kernels3_BloomBlock.mtx) (mb : Kernels3.wire_MsgBlock (list N) TokenData_t)
    (leaves : list hash) :
  Forall2 (Kernels3_BloomBlock.tx_rel TokenData_t Tx_t Tx_Hash GetScriptClass Tx_MsgTx PushedData cls)
          (Block_Transactions block) mtxs ->
  Kernels3_BloomFilter.wf (Kernels3_BloomFilter.absf bf) ->
  Kernels3_BloomFilter.fuel_ok kf (Kernels3_BloomFilter.absf bf) ->
  map Tx_Hash (Block_Transactions block) = map Some leaves ->
  Block_MsgBlock block = Some mb ->
  0 < N.of_nat (length leaves) < 2 ^ 31 ->
  N.of_nat (length leaves) <= cap ->
  (length leaves + 34 <= BloomTx.scan_fuel mtxs + kf)%nat ->
  exists st,
    Kernels3_BloomBlock.mscan (BloomTxBloom.uflag_of (Bloom.flags_of (Kernels3_BloomFilter.absf bf)))
      (Kernels3_BloomFilter.absf bf) mtxs = Some st /\
    gNewBloom node_hash cap Block_t TokenData_t Tx_t Block_MsgBlock Block_Transactions Tx_Hash wire_NewOutPoint
      GetScriptClass Tx_MsgTx PushedData wire_MsgTx_TxHash (BloomTx.scan_fuel mtxs + kf) block (Some bf)
    = rmap (fun mi : msg * list N => (Some (wire_gen (fst mi)), snd mi))
           (bl_new node_hash (Kernels3.wire_MsgBlock_Header _ _ mb) leaves
              (fun i => existsb (Nat.eqb i) (BloomTx.s_matched st))).
Proof using NewOutPoint_spec cls_spec TxHash_spec.
  intros HF Hw Hf Hhash Hmsg Hdom Hcap Hfuel.
  destruct (Kernels3_BloomBlock.GetMatchedIndices_total Block_t TokenData_t Tx_t Block_Transactions Tx_Hash
              wire_NewOutPoint GetScriptClass Tx_MsgTx PushedData wire_MsgTx_TxHash cls
              NewOutPoint_spec cls_spec TxHash_spec kf block bf mtxs HF Hw Hf) as (st & Hscan & Hgmi).
  exists st. split; [exact Hscan|].
  rewrite (bloom_NewMerkleBlock_tie_std node_hash cap Block_t TokenData_t Tx_t Block_MsgBlock Block_Transactions
             Tx_Hash wire_NewOutPoint GetScriptClass Tx_MsgTx PushedData wire_MsgTx_TxHash block (Some bf)
             (Some (Kernels3_BloomBlock.mi_of (BloomTx.s_matched st))) mb leaves _ Hgmi Hhash Hmsg Hdom Hcap Hfuel).
  rewrite (bl_new_ext node_hash _ leaves _ _ (map_pred_mi (BloomTx.s_matched st))). reflexivity.
Qed.

End BloomNewTotal.
Print Assumptions bloom_NewMerkleBlock_total.

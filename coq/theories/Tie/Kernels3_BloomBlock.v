(* Tie between the third-mode transliterations (Gen/Kernels3.v) of bloom/merkleblock.go
   { blockFilterer.checkFilterTx, GetMatchedIndices } and the model Bloom/BloomTx.v { check, scan_loop,
   scan } instantiated by the bloom filter of Bloom/Bloom.v (as Bloom/BloomTxBloom.v does:
   contains := matches, insert := add, txid_eqb := list_eqb, id_item := the bytes as stored,
   op_item := outpoint_bytes; the update flag is the loaded message's).

   State correspondence ([conc]): the generated blockFilterer {filter *Filter; matchedIndices map[int]bool}
   is  { Some (the receiver with the model's filter s_f) ; Some [(i, true) | i <- s_matched] }  (the map in
   the translation's association-list form, most recently added first, which is the order of s_matched);
   s_calls is instrumentation of the model and has no counterpart.  The spender index
   inputs map[chainhash.Hash][]*txWithIndex  corresponds to the model's insertion-ordered entry list
   by [inputs_rel]: for every key the slice stored under it is the model's [deps] of that key.

   Further assumption on the dependencies:
     TxHash_spec : tx.MsgTx().TxHash() is the hash tx.Hash() returns (bchutil.Tx caches exactly that);
   the code looks the dependants up under the former and tests the filter with the latter, the model
   has one t_id.

   Fuel.  The translation uses ONE fuel for the recursion depth of checkFilterTx and (passed down,
   minus one per level) for the loop of Filter.add, which needs HashFuncs + 1.  So with n the model's
   fuel (recursion depth) the generated function is run with n + kf, kf > HashFuncs.  The model's
   scan_fuel txs = 1 + #transactions + #inputs is enough for every block (BloomTxBloom.
   bloom_scan_terminates, transported here to the plain filter type: scan_terminates). *)
From BU Require Import Lib.Bytes Lib.PolyMod Gen.Xbloom Gen.Kernels Gen.Kernels2 Gen.Kernels3
  Bloom.Murmur3 Bloom.Bloom Bloom.BloomProofs Bloom.BloomTx Bloom.BloomTxBloom
  Tie.TieTactics Tie.Kernels2Lib Tie.Kernels3Lib Tie.Kernels2_Bloom Tie.Kernels2_BloomOutPoint
  Tie.Kernels3_BloomFilter Tie.Kernels3_BloomTx.
From Coq Require Import ZifyBool ZifyN ZifyNat.

(* ====================================================================== *)
(* maps of the translation                                                 *)
(* ====================================================================== *)
Definition mi_of (l : list nat) : list (Z * bool) := map (fun i => (Z.of_nat i, true)) l.

Lemma Zeqb_of_nat j i : Z.eqb (Z.of_nat j) (Z.of_nat i) = Nat.eqb i j.
Proof. destruct (Z.eqb_spec (Z.of_nat j) (Z.of_nat i)), (Nat.eqb_spec i j); try reflexivity; lia. Qed.

Lemma map_get_mi l i :
  Go3.map_get Z.eqb (mi_of l) (Z.of_nat i) = if existsb (Nat.eqb i) l then Some true else None.
Proof.
  induction l as [|j l IH]; cbn [mi_of map Go3.map_get existsb]; [reflexivity|].
  rewrite Zeqb_of_nat. destruct (Nat.eqb i j); cbn [orb]; [reflexivity | exact IH].
Qed.

Lemma map_del_mi l i :
  existsb (Nat.eqb i) l = false -> Go3.map_del Z.eqb (mi_of l) (Z.of_nat i) = mi_of l.
Proof.
  induction l as [|j l IH]; cbn [mi_of map Go3.map_del existsb]; [reflexivity|].
  rewrite Zeqb_of_nat. intros H. apply orb_false_iff in H as [H1 H2]. rewrite H1.
  f_equal. exact (IH H2).
Qed.

Lemma list_eqb_refl a : list_eqb a a = true.
Proof. now apply list_eqb_eq. Qed.

Lemma map_get_del {V} (l : list (list N * V)) k0 k :
  list_eqb k0 k = false ->
  Go3.map_get list_eqb (Go3.map_del list_eqb l k0) k = Go3.map_get list_eqb l k.
Proof.
  intros Hk. induction l as [|[k' v] l IH]; cbn [Go3.map_del Go3.map_get]; [reflexivity|].
  destruct (list_eqb k' k0) eqn:E0.
  - apply list_eqb_eq in E0. subst k'. rewrite Hk. exact IH.
  - cbn [Go3.map_get]. destruct (list_eqb k' k); [reflexivity | exact IH].
Qed.

Lemma map_get_set {V} (l : list (list N * V)) k0 v k :
  Go3.map_get list_eqb (Go3.map_set list_eqb l k0 v) k
  = if list_eqb k0 k then Some v else Go3.map_get list_eqb l k.
Proof.
  unfold Go3.map_set. cbn [Go3.map_get]. destruct (list_eqb k0 k) eqn:E; [reflexivity|].
  now apply map_get_del.
Qed.

Lemma fuel_ok_mono n k f : fuel_ok k f -> fuel_ok (n + k) f.
Proof. destruct f as [m|]; cbn [fuel_ok]; [lia | auto]. Qed.

(* ====================================================================== *)
(* unfolding of the model's check                                          *)
(* ====================================================================== *)
Notation mcheck := (check matches add list_eqb b_id_item b_op_item).
Notation mscan_loop := (scan_loop matches add list_eqb b_id_item b_op_item).
Notation mscan := (scan matches add list_eqb b_id_item b_op_item).
Notation mtx := (tx (list N) (list N)).

Lemma mcheck_S n fl idx st (t : mtx) i :
  mcheck (S n) fl idx st t i
  = (let '(m, f') := m_match_tx fl (s_f st) t in
     let st1 := bump st f' in
     if m then
       if is_matched st1 i then Some st1
       else fold_opt (fun s d => mcheck n fl idx s (fst d) (snd d)) (deps list_eqb idx (t_id t)) (mark st1 i)
     else Some st1).
Proof. reflexivity. Qed.

Lemma deps_app (idx1 idx2 : list (entry (list N) (list N))) h :
  deps list_eqb (idx1 ++ idx2) h = deps list_eqb idx1 h ++ deps list_eqb idx2 h.
Proof. unfold deps. now rewrite filter_app, map_app. Qed.

Section BlockTie.
Variables TokenData_t Tx_t : Type.
Variable Tx_Hash : Tx_t -> option (list N).
Variable wire_NewOutPoint : option (list N) -> N -> option Kernels3.wire_OutPoint.
Variable GetScriptClass : list N -> N.
Variable Tx_MsgTx : Tx_t -> option (Kernels3.wire_MsgTx TokenData_t).
Variable PushedData : list N -> list (list N) * N.
Variable wire_MsgTx_TxHash : option (Kernels3.wire_MsgTx TokenData_t) -> list N.
Variable cls : N -> sclass.
Hypothesis NewOutPoint_spec : forall h i, wire_NewOutPoint (Some h) i = Some (Kernels3.mk_wire_OutPoint h i).
Hypothesis cls_spec : forall c, class_updates (cls c) = (c =? 1) || (c =? 5).
Hypothesis TxHash_spec : forall t h, Tx_Hash t = Some h -> wire_MsgTx_TxHash (Tx_MsgTx t) = h.

Notation atx := (abs_tx TokenData_t Tx_t Tx_Hash GetScriptClass Tx_MsgTx PushedData cls).
Notation gcheck := (Kernels3.blockFilterer_checkFilterTx TokenData_t Tx_t Tx_Hash wire_NewOutPoint
                      GetScriptClass Tx_MsgTx PushedData wire_MsgTx_TxHash).
Notation TWI := (Kernels3.bloom_txWithIndex Tx_t).
Notation mkTWI := (Kernels3.mk_bloom_txWithIndex Tx_t).
Notation in_of' := (in_of PushedData).

(* a transaction of the translation and its model, inside the domain *)
Definition tx_rel (t : Tx_t) (mt : mtx) : Prop := atx t = Some mt /\ tx_ok mt.

Definition dep_rel (d : option TWI) (md : mtx * nat) : Prop :=
  exists t, d = Some (mkTWI t (Z.of_nat (snd md))) /\ tx_rel t (fst md).

Definition lookup (l : list (list N * list (option TWI))) (h : list N) : list (option TWI) :=
  match Go3.map_get list_eqb l h with Some v => v | None => [] end.

Definition inputs_rel (l : list (list N * list (option TWI))) (idx : list (entry (list N) (list N))) : Prop :=
  forall h, Forall2 dep_rel (lookup l h) (deps list_eqb idx h).

Lemma inputs_rel_nil : inputs_rel [] [].
Proof. intros h. constructor. Qed.

Lemma inputs_rel_add l idx h0 d md :
  inputs_rel l idx -> dep_rel d md ->
  inputs_rel (Go3.map_set list_eqb l h0 (lookup l h0 ++ [d])) (idx ++ [(h0, md)]).
Proof.
  intros Hrel Hd h. unfold lookup at 1. rewrite map_get_set, deps_app.
  unfold deps at 2. cbn [List.filter fst].
  destruct (list_eqb h0 h) eqn:E.
  - apply list_eqb_eq in E. subst h0. cbn [map snd]. apply Forall2_app; [apply Hrel | now constructor].
  - cbn [map]. rewrite app_nil_r. apply Hrel.
Qed.

(* the receiver whose mutex the states carry *)
Variable bf0 : Kernels3.bloom_Filter.

Definition conc (st : sstate filter) : Kernels3.bloom_blockFilterer :=
  Kernels3.mk_bloom_blockFilterer (Some (putf bf0 (s_f st))) (Some (mi_of (s_matched st))).

(* ====================================================================== *)
(* 10. checkFilterTx                                                       *)
(* ====================================================================== *)
(* the loop over the dependants, given the tie one level down *)
Lemma deps_fold kf flN l idx n
      (body : Kernels3.bloom_blockFilterer -> option TWI -> res Kernels3.bloom_blockFilterer) :
  (forall bf t i, body bf (Some (mkTWI t i)) = (do b <- gcheck (n + kf) bf t i (Some l) ;; Ok b)) ->
  (forall st t mt i st',
      finv kf flN (s_f st) -> tx_rel t mt ->
      mcheck n (uflag_of flN) idx st mt i = Some st' ->
      gcheck (n + kf) (conc st) t (Z.of_nat i) (Some l) = Ok (conc st') /\ finv kf flN (s_f st')) ->
  forall gds mds, Forall2 dep_rel gds mds ->
  forall st st', finv kf flN (s_f st) ->
    fold_opt (fun s d => mcheck n (uflag_of flN) idx s (fst d) (snd d)) mds st = Some st' ->
    Go.foldM body gds (conc st) = Ok (conc st') /\ finv kf flN (s_f st').
Proof.
  intros Hbody IH gds mds HF. induction HF as [|gd md gds mds Hd HF IHl]; intros st st' Hinv Hfo.
  - cbn [fold_opt] in Hfo. injection Hfo as <-. split; [reflexivity | exact Hinv].
  - cbn [fold_opt] in Hfo. cbn [Go.foldM].
    destruct (mcheck n (uflag_of flN) idx st (fst md) (snd md)) as [st1|] eqn:E1; [|discriminate Hfo].
    destruct Hd as (t & -> & Hrel).
    destruct (IH st t (fst md) (snd md) st1 Hinv Hrel E1) as [Hg Hinv1].
    rewrite Hbody, Hg. cbn [rbind]. apply IHl; assumption.
Qed.

(* Domain: the filter invariants (wf; fuel_ok kf, i.e. kf > HashFuncs; the flag byte), a transaction
   in the domain of MatchTxAndUpdate_tie, a spender index whose entries are such transactions; the
   model's check terminates with fuel n.  Then the generated function with fuel n + kf returns the
   model's state.  (The model's None = out of fuel; it does not occur for n = scan_fuel.) *)
Lemma check_tie kf flN l idx :
  inputs_rel l idx ->
  forall n st t mt i st',
    finv kf flN (s_f st) -> tx_rel t mt ->
    mcheck n (uflag_of flN) idx st mt i = Some st' ->
    gcheck (n + kf) (conc st) t (Z.of_nat i) (Some l) = Ok (conc st') /\ finv kf flN (s_f st').
Proof.
  intros Hrel. induction n as [|n IH]; intros st t mt i st' Hinv [Ha Hok] Hc; [discriminate Hc|].
  rewrite mcheck_S in Hc.
  change (S n + kf)%nat with (S (n + kf)).
  cbn [Kernels3.blockFilterer_checkFilterTx].
  unfold conc. cbn [Kernels3.bloom_blockFilterer_filter Go3.deref rbind].
  destruct Hinv as (Hw & Hfu & Hfl).
  rewrite (bloom_Filter_MatchTxAndUpdate_tie TokenData_t Tx_t Tx_Hash wire_NewOutPoint GetScriptClass Tx_MsgTx
             PushedData cls NewOutPoint_spec cls_spec (n + kf) (putf bf0 (s_f st)) t mt Ha Hok);
    rewrite ?absf_putf; [ | exact Hw | now apply fuel_ok_mono ].
  rewrite Hfl.
  pose proof (finv_match_tx kf flN (uflag_of flN) (s_f st) mt (conj Hw (conj Hfu Hfl))) as Hinv1.
  destruct (m_match_tx (uflag_of flN) (s_f st) mt) as [m f'].
  cbn [fst snd rbind] in *.
  unfold Kernels3.set_bloom_blockFilterer_filter, Kernels3.set_bloom_blockFilterer_matchedIndices.
  cbn [Kernels3.bloom_blockFilterer_matchedIndices Kernels3.bloom_blockFilterer_filter].
  destruct m.
  2:{ injection Hc as <-. split; [reflexivity | exact Hinv1]. }
  cbn [Go3.mget]. rewrite map_get_mi.
  unfold is_matched in Hc. cbn [bump s_matched] in Hc.
  destruct (existsb (Nat.eqb i) (s_matched st)) eqn:Em.
  { injection Hc as <-. split; [reflexivity | exact Hinv1]. }
  cbn [Go3.mset rbind]. unfold Go3.map_set. rewrite map_del_mi by exact Em.
  assert (Hh : wire_MsgTx_TxHash (Tx_MsgTx t) = t_id mt).
  { apply TxHash_spec. destruct (abs_tx_inv _ _ _ _ _ _ _ _ _ Ha) as (h & w & os & is_ & Hh & _ & _ & _ & ->).
    exact Hh. }
  (* (phase 5) tx.MsgTx().TxHash(): the message of a related transaction is not nil *)
  assert (Hmsg : exists w, Tx_MsgTx t = Some w).
  { destruct (abs_tx_inv _ _ _ _ _ _ _ _ _ Ha) as (h & w & os & is_ & _ & Hw' & _). now exists w. }
  destruct Hmsg as (wmsg & Hmsg). rewrite Hmsg at 1. cbn [Go3.deref rbind].
  rewrite Hh.
  change (Some ((Z.of_nat i, true) :: mi_of (s_matched st))) with (Some (mi_of (i :: s_matched st))).
  change (Kernels3.mk_bloom_blockFilterer (Some (putf (putf bf0 (s_f st)) f')) (Some (mi_of (i :: s_matched st))))
    with (conc (mark (bump st f') i)).
  pose proof (Hrel (t_id mt)) as HF. unfold lookup in HF.
  destruct (Go3.map_get list_eqb l (t_id mt)) as [gds|] eqn:Eg.
  - match goal with |- context [Go.foldM ?B gds _] => set (body := B) end.
    destruct (deps_fold kf flN l idx n body) with (gds := gds) (mds := deps list_eqb idx (t_id mt))
      (st := mark (bump st f') i) (st' := st') as [Hg Hinv'].
    + intros bf t' i'. reflexivity.
    + exact IH.
    + exact HF.
    + exact Hinv1.
    + exact Hc.
    + rewrite Hg. cbn [rbind]. split; [reflexivity | exact Hinv'].
  - inversion HF as [E1 E2|]. rewrite <- E2 in Hc. cbn [fold_opt] in Hc. injection Hc as <-.
    cbn [rbind]. split; [reflexivity | exact Hinv1].
Qed.

Theorem blockFilterer_checkFilterTx_tie kf n l idx st t mt i st' :
  inputs_rel l idx -> wf (s_f st) -> fuel_ok kf (s_f st) -> tx_rel t mt ->
  mcheck n (uflag_of (flags_of (s_f st))) idx st mt i = Some st' ->
  gcheck (n + kf) (conc st) t (Z.of_nat i) (Some l) = Ok (conc st').
Proof.
  intros Hrel Hw Hf Ht Hc.
  exact (proj1 (check_tie kf (flags_of (s_f st)) l idx Hrel n st t mt i st'
                  (conj Hw (conj Hf eq_refl)) Ht Hc)).
Qed.

(* the fuel is used up: Panic 9 (the model's None) *)
Theorem blockFilterer_checkFilterTx_no_fuel bf t i inputs :
  gcheck 0 bf t i inputs = Panic 9.
Proof. reflexivity. Qed.

(* ====================================================================== *)
(* 11. GetMatchedIndices                                                   *)
(* ====================================================================== *)
(* the loop that appends the inputs of transaction t (block index k) to the spender index *)
Definition ginp (t : Tx_t) (k : nat) (inputs : option (list (list N * list (option TWI)))) (x : option Kernels3.wire_TxIn)
  : option (list (list N * list (option TWI))) :=
  match inputs, x with
  | Some l, Some x =>
      let h := Kernels3.wire_OutPoint_Hash (Kernels3.wire_TxIn_PreviousOutPoint x) in
      Some (Go3.map_set list_eqb l h (lookup l h ++ [Some (mkTWI t (Z.of_nat k))]))
  | _, _ => inputs
  end.

Lemma build_rel t mt k : tx_rel t mt ->
  forall (ins : list Kernels3.wire_TxIn) l idx, inputs_rel l idx ->
  exists l', fold_left (ginp t k) (map Some ins) (Some l) = Some l' /\
             inputs_rel l' (idx ++ map (fun inp => (i_hash inp, (mt, k))) (map in_of' ins)).
Proof.
  intros Ht. induction ins as [|x ins IH]; intros l idx Hrel; cbn [map fold_left].
  - exists l. rewrite app_nil_r. split; [reflexivity | exact Hrel].
  - cbn [ginp].
    destruct (IH _ _ (inputs_rel_add l idx (Kernels3.wire_OutPoint_Hash (Kernels3.wire_TxIn_PreviousOutPoint x))
                        (Some (mkTWI t (Z.of_nat k))) (mt, k) Hrel
                        (ex_intro _ t (conj eq_refl Ht)))) as (l' & Hl' & Hrel').
    exists l'. split; [exact Hl'|].
    rewrite <- app_assoc in Hrel'. exact Hrel'.
Qed.

Lemma scan_loop_tie kf flN n
      (body : option (list (list N * list (option TWI))) * Kernels3.bloom_blockFilterer -> Z * Tx_t ->
              res (option (list (list N * list (option TWI))) * Kernels3.bloom_blockFilterer)) :
  (forall l bf k t w ins,
      Tx_MsgTx t = Some w -> Kernels3.wire_MsgTx_TxIn _ w = map Some ins ->
      body (Some l, bf) (Z.of_nat k, t)
      = (do bf' <- gcheck (n + kf) bf t (Z.of_nat k) (fold_left (ginp t k) (map Some ins) (Some l)) ;;
         Ok (fold_left (ginp t k) (map Some ins) (Some l), bf'))) ->
  forall txs mtxs, Forall2 tx_rel txs mtxs ->
  forall k l idx st st',
    inputs_rel l idx -> finv kf flN (s_f st) ->
    mscan_loop n (uflag_of flN) idx st k mtxs = Some st' ->
    exists l', Go.foldM body (combine (Go.zseq (Z.of_nat k) (length txs)) txs) (Some l, conc st)
               = Ok (Some l', conc st').
Proof.
  intros Hbody txs mtxs HF. induction HF as [|t mt txs mtxs Ht HF IH]; intros k l idx st st' Hrel Hinv Hs.
  - cbn [scan_loop] in Hs. injection Hs as <-. exists l. reflexivity.
  - cbn [scan_loop] in Hs. cbn [length Go.zseq combine Go.foldM].
    destruct (mcheck n (uflag_of flN) (idx ++ entries_of mt k) st mt k) as [st1|] eqn:Ec; [|discriminate Hs].
    destruct Ht as [Ha Hok].
    destruct (abs_tx_inv _ _ _ _ _ _ _ _ _ Ha) as (h & w & os & is_ & Hh & Hm & Ho & Hi & Emt).
    destruct (build_rel t mt k (conj Ha Hok) is_ l idx Hrel) as (l1 & Hl1 & Hrel1).
    assert (Eent : entries_of mt k = map (fun inp => (i_hash inp, (mt, k))) (map in_of' is_)).
    { unfold entries_of. rewrite Emt at 1. reflexivity. }
    rewrite <- Eent in Hrel1.
    rewrite (Hbody l (conc st) k t w is_ Hm Hi), Hl1.
    destruct (check_tie kf flN l1 _ Hrel1 n st t mt k st1 Hinv (conj Ha Hok) Ec) as [Hg Hinv1].
    rewrite Hg. cbn [rbind].
    replace (Z.of_nat k + 1)%Z with (Z.of_nat (S k)) by lia.
    exact (IH (S k) l1 _ st1 st' Hrel1 Hinv1 Hs).
Qed.

End BlockTie.


(* ====================================================================== *)
(* termination of the model's scan on the plain filter type                *)
(* ====================================================================== *)
(* Bloom/BloomTxBloom.v proves termination (fuel scan_fuel) for the sigma type of loaded filters with
   len < 2^29, on which the filter laws hold; the scan only uses contains/insert, so it commutes with the
   projection lf_filter to the plain [filter] of Bloom/Bloom.v. *)
Section Sim.
  Variables (F1 F2 item txid : Type).
  Variable c1 : F1 -> item -> bool.
  Variable i1 : F1 -> item -> F1.
  Variable c2 : F2 -> item -> bool.
  Variable i2 : F2 -> item -> F2.
  Variable eqb : txid -> txid -> bool.
  Variable idi : txid -> item.
  Variable opi : txid -> N -> item.
  Variable phi : F1 -> F2.
  Hypothesis Hc : forall s x, c1 s x = c2 (phi s) x.
  Hypothesis Hi : forall s x, phi (i1 s x) = i2 (phi s) x.

  Definition map_st (st : sstate F1) : sstate F2 := Build_sstate (phi (s_f st)) (s_matched st) (s_calls st).

  Lemma sim_existsb s l : existsb (c1 s) l = existsb (c2 (phi s)) l.
  Proof. induction l as [|x l IH]; cbn [existsb]; [reflexivity | now rewrite Hc, IH]. Qed.

  Lemma sim_out_hit s (o : txout item) : out_hit c1 s o = out_hit c2 (phi s) o.
  Proof. unfold out_hit. destruct (o_pushes o); [apply sim_existsb | reflexivity]. Qed.

  Lemma sim_in_hit s (inp : txin item txid) : in_hit c1 opi s inp = in_hit c2 opi (phi s) inp.
  Proof. unfold in_hit. rewrite Hc. destruct (i_pushes inp); [now rewrite sim_existsb | reflexivity]. Qed.

  Lemma sim_maybe fl s c (h : txid) i :
    phi (maybe_add_outpoint i1 opi fl s c h i) = maybe_add_outpoint i2 opi fl (phi s) c h i.
  Proof. unfold maybe_add_outpoint. destruct (flag_allows fl c); [apply Hi | reflexivity]. Qed.

  Lemma sim_match_outputs fl (h : txid) outs : forall i s m,
    match_outputs c2 i2 opi fl h i outs (phi s) m
    = (fst (match_outputs c1 i1 opi fl h i outs s m), phi (snd (match_outputs c1 i1 opi fl h i outs s m))).
  Proof.
    induction outs as [|o outs IH]; intros i s m; cbn [match_outputs]; [reflexivity|].
    rewrite <- sim_out_hit. destruct (out_hit c1 s o); [rewrite <- sim_maybe|]; apply IH.
  Qed.

  Lemma sim_match_tx fl s (t : tx item txid) :
    match_tx_update c2 i2 idi opi fl (phi s) t
    = (fst (match_tx_update c1 i1 idi opi fl s t), phi (snd (match_tx_update c1 i1 idi opi fl s t))).
  Proof.
    unfold match_tx_update. rewrite <- Hc, sim_match_outputs.
    destruct (match_outputs c1 i1 opi fl (t_id t) 0 (t_outs t) s (c1 s (idi (t_id t)))) as [m s'].
    cbn [fst snd]. destruct m; [reflexivity|]. cbn [fst snd]. f_equal.
    induction (t_ins t) as [|x l IH]; cbn [existsb]; [reflexivity | now rewrite sim_in_hit, IH].
  Qed.

  Lemma check_S {F} (c : F -> item -> bool) (ins : F -> item -> F) n fl idx st (t : tx item txid) i :
    check c ins eqb idi opi (S n) fl idx st t i
    = (let '(m, f') := match_tx_update c ins idi opi fl (s_f st) t in
       let st1 := bump st f' in
       if m then
         if is_matched st1 i then Some st1
         else fold_opt (fun s d => check c ins eqb idi opi n fl idx s (fst d) (snd d)) (deps eqb idx (t_id t)) (mark st1 i)
       else Some st1).
  Proof. reflexivity. Qed.

  Lemma sim_check fl idx : forall n st t i,
    check c2 i2 eqb idi opi n fl idx (map_st st) t i = option_map map_st (check c1 i1 eqb idi opi n fl idx st t i).
  Proof.
    induction n as [|n IH]; intros st t i; [reflexivity|].
    rewrite !check_S. cbn [map_st s_f]. rewrite sim_match_tx.
    destruct (match_tx_update c1 i1 idi opi fl (s_f st) t) as [m f']. cbn [fst snd].
    destruct m; [|reflexivity].
    change (is_matched (bump (map_st st) (phi f')) i) with (is_matched (bump st f') i).
    destruct (is_matched (bump st f') i); [reflexivity|].
    change (mark (bump (map_st st) (phi f')) i) with (map_st (mark (bump st f') i)).
    generalize (mark (bump st f') i). induction (deps eqb idx (t_id t)) as [|d ds IHd]; intros s; cbn [fold_opt]; [reflexivity|].
    rewrite IH. destruct (check c1 i1 eqb idi opi n fl idx s (fst d) (snd d)); cbn [option_map]; [apply IHd | reflexivity].
  Qed.

  Lemma sim_scan_loop n fl : forall txs idx st k,
    scan_loop c2 i2 eqb idi opi n fl idx (map_st st) k txs
    = option_map map_st (scan_loop c1 i1 eqb idi opi n fl idx st k txs).
  Proof.
    induction txs as [|t txs IH]; intros idx st k; cbn [scan_loop]; [reflexivity|].
    rewrite sim_check. destruct (check c1 i1 eqb idi opi n fl (idx ++ entries_of t k) st t k); cbn [option_map]; [apply IH | reflexivity].
  Qed.
End Sim.

Lemma scan_loop_unloaded n fl : forall (txs : list mtx) idx (st : sstate filter) k,
  s_f st = None -> exists st', mscan_loop (S n) fl idx st k txs = Some st'.
Proof.
  induction txs as [|t txs IH]; intros idx st k Hst; cbn [scan_loop]; [eexists; reflexivity|].
  assert (Hc : mcheck (S n) fl (idx ++ entries_of t k) st t k = Some (bump st None)).
  { rewrite mcheck_S. unfold m_match_tx. rewrite Hst, bloom_match_unloaded. reflexivity. }
  destruct (IH (idx ++ entries_of t k) (bump st None) (S k) eq_refl) as [st' H].
  exists st'. rewrite Hc. exact H.
Qed.

(* the model's scan terminates with its own fuel on every filter of the model's domain *)
Theorem scan_terminates f (txs : list mtx) :
  len_ok f -> exists st, mscan (uflag_of (flags_of f)) f txs = Some st.
Proof.
  destruct f as [m|]; intros Hl.
  - destruct (bloom_scan_terminates (exist _ m Hl) txs) as [st Hst].
    exists (map_st _ _ lf_filter st). unfold bloom_scan, scan in Hst. unfold scan.
    change (init_state (Some m)) with (map_st _ _ lf_filter (init_state (exist _ m Hl : lfilter))).
    rewrite (sim_scan_loop lfilter filter (list N) (list N) lf_contains lf_insert matches add list_eqb b_id_item b_op_item
               lf_filter (fun s x => eq_refl) lf_insert_is_add).
    cbn [flags_of]. change (m_flags m) with (m_flags (lf_msg (exist _ m Hl))). rewrite Hst. reflexivity.
  - apply scan_loop_unloaded. reflexivity.
Qed.
Print Assumptions scan_terminates.

Section BlockTie2.
Variables Block_t TokenData_t Tx_t : Type.
Variable Block_Transactions : Block_t -> list Tx_t.
Variable Tx_Hash : Tx_t -> option (list N).
Variable wire_NewOutPoint : option (list N) -> N -> option Kernels3.wire_OutPoint.
Variable GetScriptClass : list N -> N.
Variable Tx_MsgTx : Tx_t -> option (Kernels3.wire_MsgTx TokenData_t).
Variable PushedData : list N -> list (list N) * N.
Variable wire_MsgTx_TxHash : option (Kernels3.wire_MsgTx TokenData_t) -> list N.
Variable cls : N -> sclass.
Hypothesis NewOutPoint_spec : forall h i, wire_NewOutPoint (Some h) i = Some (Kernels3.mk_wire_OutPoint h i).
Hypothesis cls_spec : forall c, class_updates (cls c) = (c =? 1) || (c =? 5).
Hypothesis TxHash_spec : forall t h, Tx_Hash t = Some h -> wire_MsgTx_TxHash (Tx_MsgTx t) = h.

Notation gGMI := (Kernels3.GetMatchedIndices Block_t TokenData_t Tx_t Block_Transactions Tx_Hash wire_NewOutPoint
                      GetScriptClass Tx_MsgTx PushedData wire_MsgTx_TxHash).
Notation tx_rel' := (tx_rel TokenData_t Tx_t Tx_Hash GetScriptClass Tx_MsgTx PushedData cls).

(* Domain: a non-nil filter in wf, every transaction of the block in the domain of
   MatchTxAndUpdate_tie ([tx_rel]: no nil pointer, 32-byte ids, byte data, <= 2^32 outputs), the model's
   loop terminating with fuel n; generated fuel n + kf with kf > HashFuncs.  The result is the map
   { i -> true | i in s_matched }, most recently added first. *)
Theorem GetMatchedIndices_tie_gen n kf block bf mtxs st :
  Forall2 tx_rel' (Block_Transactions block) mtxs ->
  wf (absf bf) -> fuel_ok kf (absf bf) ->
  mscan_loop n (uflag_of (flags_of (absf bf))) [] (init_state (absf bf)) O mtxs = Some st ->
  gGMI (n + kf) block (Some bf) = Ok (Some (mi_of (s_matched st))).
Proof.
  intros HF Hw Hf Hs. unfold Kernels3.GetMatchedIndices.
  unfold Go.enum.
  match goal with |- context [Go.foldM ?B _ _] => set (body := B) end.
  destruct (scan_loop_tie TokenData_t Tx_t Tx_Hash wire_NewOutPoint GetScriptClass Tx_MsgTx PushedData
              wire_MsgTx_TxHash cls NewOutPoint_spec cls_spec TxHash_spec bf kf (flags_of (absf bf)) n body)
    with (txs := Block_Transactions block) (mtxs := mtxs) (k := O) (l := @nil (list N * list (option (Kernels3.bloom_txWithIndex Tx_t))))
         (idx := @nil (entry (list N) (list N))) (st := init_state (absf bf)) (st' := st) as (l' & Hl').
  - intros l b k t w ins Hm Hi. subst body. cbn beta iota. rewrite Hm. cbn [Go3.deref rbind]. rewrite Hi.
    erewrite (proj1 (foldM_pure (fun s => s <> None) (fun x => x <> None) _
                       (ginp Tx_t t k) (map Some ins) (Some l) _ _ _ _)).
    + cbn [rbind]. reflexivity.
    Unshelve.
    * intros [s|] [x|] Hs' Hx; try congruence. reflexivity.
    * intros [s|] [x|] Hs' Hx; try congruence. cbn [ginp]. discriminate.
    * discriminate.
    * apply Forall_forall. intros x Hx. apply in_map_iff in Hx as (y & <- & _). discriminate.
  - exact HF.
  - apply inputs_rel_nil.
  - repeat split; assumption.
  - exact Hs.
  - unfold conc, init_state in Hl'. cbn [s_f s_matched mi_of map] in Hl'. rewrite putf_absf in Hl'.
    change (Z.of_nat 0) with 0%Z in Hl'. rewrite Hl'. reflexivity.
Qed.

(* with the model's own fuel: scan = scan_loop (scan_fuel txs) ... *)
Theorem GetMatchedIndices_tie kf block bf mtxs st :
  Forall2 tx_rel' (Block_Transactions block) mtxs ->
  wf (absf bf) -> fuel_ok kf (absf bf) ->
  mscan (uflag_of (flags_of (absf bf))) (absf bf) mtxs = Some st ->
  gGMI (scan_fuel mtxs + kf) block (Some bf) = Ok (Some (mi_of (s_matched st))).
Proof. intros HF Hw Hf Hs. exact (GetMatchedIndices_tie_gen (scan_fuel mtxs) kf block bf mtxs st HF Hw Hf Hs). Qed.

(* total form: on the whole domain the model's scan terminates and the generated function, run with
   fuel  scan_fuel + kf = 1 + #transactions + #inputs + kf  (kf > HashFuncs), returns its matched set *)
Theorem GetMatchedIndices_total kf block bf mtxs :
  Forall2 tx_rel' (Block_Transactions block) mtxs ->
  wf (absf bf) -> fuel_ok kf (absf bf) ->
  exists st, mscan (uflag_of (flags_of (absf bf))) (absf bf) mtxs = Some st /\
             gGMI (scan_fuel mtxs + kf) block (Some bf) = Ok (Some (mi_of (s_matched st))).
Proof.
  intros HF Hw Hf. destruct (scan_terminates (absf bf) mtxs (wf_len_ok _ Hw)) as [st Hst].
  exists st. split; [exact Hst | now apply GetMatchedIndices_tie].
Qed.

(* a nil filter: the first transaction dereferences it (Go: bf.filter.MatchTxAndUpdate locks a nil
   receiver); an empty block returns the empty map *)
Theorem GetMatchedIndices_nil_filter_empty fuel block :
  Block_Transactions block = [] -> gGMI fuel block None = Ok (Some []).
Proof. intros E. unfold Kernels3.GetMatchedIndices. rewrite E. reflexivity. Qed.

Theorem GetMatchedIndices_nil_filter fuel block t rest w ins :
  Block_Transactions block = t :: rest -> Tx_MsgTx t = Some w ->
  Kernels3.wire_MsgTx_TxIn _ w = map Some ins ->
  gGMI (S fuel) block None = Panic 5.
Proof.
  intros E Em Ei. unfold Kernels3.GetMatchedIndices. rewrite E.
  unfold Go.enum. cbn [length Go.zseq combine Go.foldM]. rewrite Em. cbn [Go3.deref rbind]. rewrite Ei.
  match goal with |- context [Go.foldM ?B (map Some ins) ?s] =>
    assert (H : exists l, Go.foldM B (map Some ins) s = Ok (Some l)) end.
  { clear Ei. generalize (@nil (list N * list (option (Kernels3.bloom_txWithIndex Tx_t)))).
    induction ins as [|x ins IH]; intros l.
    - exists l. reflexivity.
    - cbn [map Go.foldM Go3.deref rbind Go3.mset]. apply IH. }
  destruct H as (l & ->). reflexivity.
Qed.

End BlockTie2.

Print Assumptions blockFilterer_checkFilterTx_tie.
Print Assumptions blockFilterer_checkFilterTx_no_fuel.
Print Assumptions GetMatchedIndices_tie_gen.
Print Assumptions GetMatchedIndices_tie.
Print Assumptions GetMatchedIndices_total.
Print Assumptions GetMatchedIndices_nil_filter_empty.
Print Assumptions GetMatchedIndices_nil_filter.

(* ====================================================================== *)
(* the hypotheses are satisfiable: a worked block                          *)
(* ====================================================================== *)
(* The instance of Bloom/BloomTxBloom.v (bloom_scan_example): a 64-byte filter with 5 hash functions,
   BloomUpdateAll, containing a 20-byte element; P pays to it, D spends P's output 0 and precedes P in
   the block.  Transactions are wire.MsgTx values, "hashed" by their version number; PushedData returns
   the script as its only push. *)
Module BlockExample.
Definition Tx_t := Kernels3.wire_MsgTx unit.
Definition idof (w : Tx_t) : list N := repeat (Z.to_N (Kernels3.wire_MsgTx_Version unit w)) 32.
Definition TxHash (t : Tx_t) : option (list N) := Some (idof t).
Definition MsgTx (t : Tx_t) : option Tx_t := Some t.
Definition MsgTxHash (w : option Tx_t) : list N := match w with Some w => idof w | None => [] end.
Definition NewOutPoint (h : option (list N)) (i : N) : option Kernels3.wire_OutPoint :=
  match h with Some h => Some (Kernels3.mk_wire_OutPoint h i) | None => None end.
Definition Pushed (s : list N) : list (list N) * N := ([s], 0).
Definition Class (s : list N) : N := 2.
Definition x20 : list N := map N.of_nat (seq 1 20).
Definition P : Tx_t :=
  Kernels3.mk_wire_MsgTx unit 101 [] [Some (Kernels3.mk_wire_TxOut unit 0 x20 tt)] 0.
Definition D : Tx_t :=
  Kernels3.mk_wire_MsgTx unit 102
    [Some (Kernels3.mk_wire_TxIn (Kernels3.mk_wire_OutPoint (repeat 101 32) 0) [1; 2; 3] 0)]
    [Some (Kernels3.mk_wire_TxOut unit 0 [9; 9; 9] tt)] 0.
Definition bf : Kernels3.bloom_Filter :=
  putf (Kernels3.mk_bloom_Filter (Kernels3.mk_sync_Mutex 0) None) (add (Some (MkMsg (repeat 0 64) 5 7 1)) x20).

Lemma NewOutPoint_ok h i : NewOutPoint (Some h) i = Some (Kernels3.mk_wire_OutPoint h i).
Proof. reflexivity. Qed.
Lemma MsgTxHash_ok (t : Tx_t) h : TxHash t = Some h -> MsgTxHash (MsgTx t) = h.
Proof. intros H. injection H as <-. reflexivity. Qed.

Ltac bytes := repeat (apply Forall_cons; [reflexivity|]); apply Forall_nil.

Example block_example :
  exists mtxs,
    Forall2 (tx_rel unit Tx_t TxHash Class MsgTx Pushed cls_bchd) [D; P] mtxs /\
    wf (absf bf) /\ fuel_ok 6 (absf bf) /\
    Kernels3.GetMatchedIndices (list Tx_t) unit Tx_t (fun b => b) TxHash NewOutPoint Class MsgTx Pushed MsgTxHash
      (scan_fuel mtxs + 6) [D; P] (Some bf) = Ok (Some [(0%Z, true); (1%Z, true)]).
Proof.
  eexists. split; [|split; [|split]].
  - constructor; [|constructor; [|constructor]].
    + split; [vm_compute; reflexivity|].
      split; [split; [reflexivity | bytes]|].
      split; [constructor; [|constructor]; cbn; constructor; [|constructor]; split; [bytes | vm_compute; reflexivity]|].
      split; [constructor; [|constructor]; split; [split; [reflexivity | bytes]|]; cbn; constructor; [|constructor]; split; [bytes | vm_compute; reflexivity]|].
      vm_compute. discriminate.
    + split; [vm_compute; reflexivity|].
      split; [split; [reflexivity | bytes]|].
      split; [constructor; [|constructor]; cbn; constructor; [|constructor]; split; [bytes | vm_compute; reflexivity]|].
      split; [constructor|].
      vm_compute. discriminate.
  - vm_compute. split; [reflexivity | reflexivity].
  - vm_compute. lia.
  - vm_compute. reflexivity.
Qed.

(* and the theorem applies to it *)
Example block_example_by_theorem :
  exists mtxs st,
    mscan (uflag_of (flags_of (absf bf))) (absf bf) mtxs = Some st /\
    Kernels3.GetMatchedIndices (list Tx_t) unit Tx_t (fun b => b) TxHash NewOutPoint Class MsgTx Pushed MsgTxHash
      (scan_fuel mtxs + 6) [D; P] (Some bf) = Ok (Some (mi_of (s_matched st))).
Proof.
  destruct block_example as (mtxs & HF & Hw & Hf & _). exists mtxs.
  exact (GetMatchedIndices_total (list Tx_t) unit Tx_t (fun b => b) TxHash NewOutPoint Class MsgTx Pushed MsgTxHash
           cls_bchd NewOutPoint_ok cls_bchd_spec MsgTxHash_ok 6 [D; P] bf mtxs HF Hw Hf).
Qed.
End BlockExample.

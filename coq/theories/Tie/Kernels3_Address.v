(* Tie between the generated address.go functions of Gen/Kernels3.v (asciiLower, encodeLegacyAddress,
   encodeCashAddress, the constructors, NewAddressPubKey, and the methods EncodeAddress / ScriptAddress /
   IsForNet / serialize / String of the six address types) and the model Address/Address.v.
   The instantiation of the abstract dependencies is in Tie/Kernels3_AddressLib.v.
   checkDecodeCashAddress and DecodeAddress are in Tie/Kernels3_DecodeAddress.v. *)
From BU Require Import Lib.Bytes Lib.PolyMod Lib.Sha256 Gen.Xbchutil Gen.Nets Base58.Base58 CashAddr.CashAddr
  Address.Bits Address.Address Address.CashProofs
  Gen.Kernels2 Gen.Kernels3 Tie.Kernels2Lib Tie.Kernels3Lib Tie.Kernels3_Base58
  Tie.Kernels2_CashAddrEncode Tie.Kernels3_AddressLib.
From Coq Require Import ZifyBool ZifyN ZifyNat.

(* ---------- asciiLower ---------- *)
Lemma asciiLower_loop (F : list N -> Z -> res (list N)) :
  (forall pre c suf, F (pre ++ c :: suf) (Z.of_nat (length pre)) = Ok (pre ++ ascii_lower_c c :: suf)) ->
  forall suf pre,
  Go.foldM F (Go.zseq (Z.of_nat (length pre)) (length suf)) (pre ++ suf) = Ok (pre ++ ascii_lower suf).
Proof.
  intros HF. induction suf as [|c t IH]; intros pre; cbn [length Go.zseq Go.foldM ascii_lower map]; [reflexivity|].
  rewrite HF.
  replace (Z.of_nat (length pre) + 1)%Z with (Z.of_nat (length (pre ++ [ascii_lower_c c])))
    by (rewrite app_length; cbn [length]; lia).
  replace (pre ++ ascii_lower_c c :: t) with ((pre ++ [ascii_lower_c c]) ++ t) by (now rewrite <- app_assoc).
  rewrite IH. unfold ascii_lower. rewrite <- app_assoc. reflexivity.
Qed.

(* no side condition: for 'A' <= c <= 'Z' the byte addition c + 32 does not wrap, and the model writes the
   same "mod 256" *)
Theorem asciiLower_tie s : Kernels3.asciiLower s = Ok (ascii_lower s).
Proof.
  unfold Kernels3.asciiLower.
  match goal with |- rbind (Go.foldM ?F _ _) _ = _ =>
    pose proof (asciiLower_loop F) as Hloop end.
  specialize (Hloop ltac:(
    intros pre c suf; cbv beta; rewrite idx_mid; cbn [rbind];
    unfold ascii_lower_c; change (AL 0) with 65; change (AL 1) with 90; change (AL 2 - AL 3) with 32;
    change (2 ^ 8) with 256;
    destruct ((65 <=? c) && (c <=? 90)); [rewrite upd_mid|]; reflexivity) s []).
  cbn [length app] in Hloop. change (Z.of_nat 0) with 0%Z in Hloop. rewrite Hloop. reflexivity.
Qed.
Print Assumptions asciiLower_tie.

(* ---------- encodeLegacyAddress / encodeCashAddress ---------- *)
Theorem encodeLegacyAddress_tie h id :
  Kernels3.encodeLegacyAddress sha256 Base58.encode h id = encode_legacy h id.
Proof.
  unfold Kernels3.encodeLegacyAddress, encode_legacy. change ripemd160_size with 20%nat.
  destruct (Nat.ltb_spec (length h) 20) as [Hlt|Hge].
  - unfold Go.slice. destruct (Z.ltb_spec (Z.of_nat (length h)) 20); [|lia].
    reflexivity.
  - change 20%Z with (Z.of_nat 20). rewrite slice_prefix by lia. cbn [rbind].
    rewrite CheckEncode_tie. reflexivity.
Qed.
Print Assumptions encodeLegacyAddress_tie.

(* 63 <= fuel: the inner loop of convertBits (see checkEncodeCashAddress_tie); the AddressType is an int
   in the code, the statement is for the non-negative values Z.of_N t *)
Theorem encodeCashAddress_tie fuel h p t : (63 <= fuel)%nat ->
  Kernels3.encodeCashAddress fuel h p (Z.of_N t) = check_encode_cash h p t.
Proof.
  intros Hfuel. unfold Kernels3.encodeCashAddress. rewrite checkEncodeCashAddress_tie by assumption.
  destruct (check_encode_cash h p t); reflexivity.
Qed.
Print Assumptions encodeCashAddress_tie.

Lemma len20 (h : list N) : negb (Z.of_nat (length h) =? 20)%Z = negb (length h =? ripemd160_size)%nat.
Proof. change ripemd160_size with 20%nat. f_equal. destruct (Nat.eqb_spec (length h) 20); lia. Qed.
Lemma len32 (h : list N) : negb (Z.of_nat (length h) =? 32)%Z = negb (length h =? sha256_size)%nat.
Proof. change sha256_size with 32%nat. f_equal. destruct (Nat.eqb_spec (length h) 32); lia. Qed.

Section AddrTie.
Variable ripemd160 : list N -> list N.
Variable P : Type.
Variable ec_parse : list N -> option P.
Variable ec_ser : N -> P -> list N.

(* ---------- constructors: every error of the model (class 10) is error site 1 ---------- *)
Definition code1 (_ : N) : N := 1.


Ltac ctor n :=
  intros; cbv beta delta [Kernels3.newAddressPubKeyHash Kernels3.newAddressScriptHashFromHash
    Kernels3.newAddressScriptHash32FromHash Kernels3.newLegacyAddressPubKeyHash
    Kernels3.newLegacyAddressScriptHashFromHash new_pkh new_sh new_sh32 new_leg_pkh new_leg_sh];
  first [rewrite len20 | rewrite len32];
  change ripemd160_size with 20%nat; change sha256_size with 32%nat;
  match goal with |- context [(length ?h =? n)%nat] => destruct (Nat.eqb_spec (length h) n) as [Hl|Hl] end;
  cbn [negb]; [|reflexivity];
  cbn [Go3.deref rbind Kernels3.bchutil_AddressPubKeyHash_hash Kernels3.bchutil_AddressScriptHash_hash
       Kernels3.bchutil_AddressScriptHash32_hash Kernels3.bchutil_LegacyAddressPubKeyHash_hash
       Kernels3.bchutil_LegacyAddressScriptHash_hash];
  rewrite copy_at_full by (rewrite repeat_length; assumption); reflexivity.

Theorem newAddressPubKeyHash_tie n h :
  Kernels3.newAddressPubKeyHash h (Some (params_of n)) = ctor_view pkh_of code1 (new_pkh P n false h).
Proof. ctor 20%nat. Qed.

Theorem newAddressScriptHashFromHash_tie n h :
  Kernels3.newAddressScriptHashFromHash h (Some (params_of n)) = ctor_view sh_of code1 (new_sh P n false h).
Proof. ctor 20%nat. Qed.

Theorem newAddressScriptHash32FromHash_tie n h :
  Kernels3.newAddressScriptHash32FromHash h (Some (params_of n)) = ctor_view sh32_of code1 (new_sh32 P n false h).
Proof. ctor 32%nat. Qed.

Theorem newLegacyAddressPubKeyHash_tie id h :
  Kernels3.newLegacyAddressPubKeyHash h id = ctor_view leg_pkh_of code1 (new_leg_pkh P id h).
Proof. ctor 20%nat. Qed.

Theorem newLegacyAddressScriptHashFromHash_tie id h :
  Kernels3.newLegacyAddressScriptHashFromHash h id = ctor_view leg_sh_of code1 (new_leg_sh P id h).
Proof. ctor 20%nat. Qed.

(* the Slp constructors: the cash constructor, then the prefix field is overwritten *)
Theorem NewSlpAddressPubKeyHash_tie n h :
  Kernels3.NewSlpAddressPubKeyHash h (Some (params_of n)) = ctor_view pkh_of code1 (new_pkh P n true h).
Proof.
  unfold Kernels3.NewSlpAddressPubKeyHash. rewrite newAddressPubKeyHash_tie. unfold new_pkh.
  destruct (length h =? ripemd160_size)%nat; reflexivity.
Qed.

Theorem NewSlpAddressScriptHashFromHash_tie n h :
  Kernels3.NewSlpAddressScriptHashFromHash h (Some (params_of n)) = ctor_view sh_of code1 (new_sh P n true h).
Proof.
  unfold Kernels3.NewSlpAddressScriptHashFromHash. rewrite newAddressScriptHashFromHash_tie. unfold new_sh.
  destruct (length h =? ripemd160_size)%nat; reflexivity.
Qed.

Theorem NewSlpAddressScriptHash32FromHash_tie n h :
  Kernels3.NewSlpAddressScriptHash32FromHash h (Some (params_of n)) = ctor_view sh32_of code1 (new_sh32 P n true h).
Proof.
  unfold Kernels3.NewSlpAddressScriptHash32FromHash. rewrite newAddressScriptHash32FromHash_tie. unfold new_sh32.
  destruct (length h =? sha256_size)%nat; reflexivity.
Qed.

(* the pointer a constructor returns, converted to the interface Address, is the image of the model's address *)
Lemma pkh_of_to_gen n slp h a : new_pkh P n slp h = Ok a ->
  Kernels3.bchutil_Address_AddressPubKeyHash (option P) (pkh_of a) = to_gen a.
Proof. unfold new_pkh. destruct (_ =? _)%nat; [|discriminate]. intros H; injection H as <-. reflexivity. Qed.
Lemma sh_of_to_gen n slp h a : new_sh P n slp h = Ok a ->
  Kernels3.bchutil_Address_AddressScriptHash (option P) (sh_of a) = to_gen a.
Proof. unfold new_sh. destruct (_ =? _)%nat; [|discriminate]. intros H; injection H as <-. reflexivity. Qed.
Lemma sh32_of_to_gen n slp h a : new_sh32 P n slp h = Ok a ->
  Kernels3.bchutil_Address_AddressScriptHash32 (option P) (sh32_of a) = to_gen a.
Proof. unfold new_sh32. destruct (_ =? _)%nat; [|discriminate]. intros H; injection H as <-. reflexivity. Qed.
Lemma leg_pkh_of_to_gen id h a : new_leg_pkh P id h = Ok a ->
  Kernels3.bchutil_Address_LegacyAddressPubKeyHash (option P) (leg_pkh_of a) = to_gen a.
Proof. unfold new_leg_pkh. destruct (_ =? _)%nat; [|discriminate]. intros H; injection H as <-. reflexivity. Qed.
Lemma leg_sh_of_to_gen id h a : new_leg_sh P id h = Ok a ->
  Kernels3.bchutil_Address_LegacyAddressScriptHash (option P) (leg_sh_of a) = to_gen a.
Proof. unfold new_leg_sh. destruct (_ =? _)%nat; [|discriminate]. intros H; injection H as <-. reflexivity. Qed.

(* ---------- NewAddressPubKey ---------- *)
(* the model's classes 5 (bchec.ParsePubKey failed) and 6 (unknown format byte) are the error sites 1 and 2 *)
Definition pubkey_code (e : N) : N := if e =? 5 then 1 else 2.

Definition gNewAddressPubKey := Kernels3.NewAddressPubKey unit (option P) tt (parse_pubkey P ec_parse).

Theorem NewAddressPubKey_tie n ser :
  gNewAddressPubKey ser (Some (params_of n)) = ctor_view pubkey_of pubkey_code (new_pubkey P ec_parse n ser).
Proof.
  unfold gNewAddressPubKey, Kernels3.NewAddressPubKey, new_pubkey, parse_pubkey.
  destruct (ec_parse ser) as [pt|]; [|reflexivity].
  change (negb (0 =? 0)) with false. cbv iota.
  change 0%Z with (Z.of_nat 0) at 1. rewrite idx_nat. unfold nth_res. change (N.to_nat (PKL 0)) with 0%nat.
  destruct (nth_error ser 0) as [b0|]; [|reflexivity]. cbn [rbind Go3.deref].
  change (PKL 1) with 2; change (PKL 2) with 3; change (PKL 3) with 6; change (PKL 4) with 7; change (PKL 5) with 4.
  destruct ((b0 =? 2) || (b0 =? 3)); [reflexivity|].
  destruct ((b0 =? 6) || (b0 =? 7)); [reflexivity|].
  destruct (b0 =? 4); reflexivity.
Qed.

Lemma pubkey_of_to_gen n ser a : new_pubkey P ec_parse n ser = Ok a ->
  Kernels3.bchutil_Address_AddressPubKey (option P) (pubkey_of a) = to_gen a.
Proof.
  unfold new_pubkey. destruct (ec_parse ser); [|discriminate]. destruct (nth_error _ _); [|discriminate].
  repeat match goal with |- context [if ?b then _ else _] => destruct b end;
    try discriminate; intros H; injection H as <-; reflexivity.
Qed.

(* ---------- methods ---------- *)
Definition serC := ser_as ec_ser PKFCompressed.
Definition serU := ser_as ec_ser PKFUncompressed.
Definition serH := ser_as ec_ser PKFHybrid.
(* (phase 5) the abstract *bchec.PublicKey is [option P]: nil is None; a method call on it is Panic 5 *)
Definition pkNil (o : option P) : bool := match o with Some _ => false | None => true end.

Theorem AddressPubKey_serialize_tie fmt pt id :
  Kernels3.AddressPubKey_serialize (option P) serC serU pkNil serH (g_pubkey fmt pt id) = Ok (serialize P ec_ser fmt pt).
Proof.
  unfold Kernels3.AddressPubKey_serialize, serialize, g_pubkey, serC, serU, serH, ser_as.
  cbn [Kernels3.bchutil_AddressPubKey_pubKeyFormat Kernels3.bchutil_AddressPubKey_pubKey pkNil Go3.nonnil rbind].
  change PKFCompressed with 1. change PKFHybrid with 2. change PKFUncompressed with 0.
  destruct (Z.eqb_spec (Z.of_N fmt) 0); [destruct (N.eqb_spec fmt 1); [lia|]; destruct (N.eqb_spec fmt 2); [lia|reflexivity]|].
  destruct (Z.eqb_spec (Z.of_N fmt) 1); [destruct (N.eqb_spec fmt 1); [reflexivity|lia]|].
  destruct (N.eqb_spec fmt 1); [lia|].
  destruct (Z.eqb_spec (Z.of_N fmt) 2); destruct (N.eqb_spec fmt 2); try lia; reflexivity.
Qed.

(* EncodeAddress, per dynamic type (63 <= fuel for the three CashAddr types, see encodeCashAddress_tie) *)
Theorem AddressPubKeyHash_EncodeAddress_tie fuel p h : (63 <= fuel)%nat ->
  Kernels3.AddressPubKeyHash_EncodeAddress fuel (g_pkh p h) = encode_address ripemd160 P ec_ser (PKH p h).
Proof.
  intros Hf. unfold Kernels3.AddressPubKeyHash_EncodeAddress, g_pkh.
  cbn [Kernels3.bchutil_AddressPubKeyHash_hash Kernels3.bchutil_AddressPubKeyHash_prefix encode_address].
  change 0%Z with (Z.of_N AddrTypePKH). rewrite encodeCashAddress_tie by assumption.
  destruct (check_encode_cash _ _ _); reflexivity.
Qed.

Theorem AddressScriptHash_EncodeAddress_tie fuel p h : (63 <= fuel)%nat ->
  Kernels3.AddressScriptHash_EncodeAddress fuel (g_sh p h) = encode_address ripemd160 P ec_ser (SH p h).
Proof.
  intros Hf. unfold Kernels3.AddressScriptHash_EncodeAddress, g_sh.
  cbn [Kernels3.bchutil_AddressScriptHash_hash Kernels3.bchutil_AddressScriptHash_prefix encode_address].
  change 1%Z with (Z.of_N AddrTypeSH). rewrite encodeCashAddress_tie by assumption.
  destruct (check_encode_cash _ _ _); reflexivity.
Qed.

(* as the code (address.go:451), the 32-byte script hash is encoded with AddrTypePayToScriptHash *)
Theorem AddressScriptHash32_EncodeAddress_tie fuel p h : (63 <= fuel)%nat ->
  Kernels3.AddressScriptHash32_EncodeAddress fuel (g_sh32 p h) = encode_address ripemd160 P ec_ser (SH32 p h).
Proof.
  intros Hf. unfold Kernels3.AddressScriptHash32_EncodeAddress, g_sh32.
  cbn [Kernels3.bchutil_AddressScriptHash32_hash Kernels3.bchutil_AddressScriptHash32_prefix encode_address].
  change 1%Z with (Z.of_N AddrTypeSH). rewrite encodeCashAddress_tie by assumption.
  destruct (check_encode_cash _ _ _); reflexivity.
Qed.

Theorem LegacyAddressPubKeyHash_EncodeAddress_tie id h :
  Kernels3.LegacyAddressPubKeyHash_EncodeAddress sha256 Base58.encode (g_leg_pkh id h)
  = encode_address ripemd160 P ec_ser (LegPKH id h).
Proof.
  unfold Kernels3.LegacyAddressPubKeyHash_EncodeAddress, g_leg_pkh.
  cbn [Kernels3.bchutil_LegacyAddressPubKeyHash_hash Kernels3.bchutil_LegacyAddressPubKeyHash_netID encode_address].
  rewrite encodeLegacyAddress_tie. destruct (encode_legacy h id); reflexivity.
Qed.

Theorem LegacyAddressScriptHash_EncodeAddress_tie id h :
  Kernels3.LegacyAddressScriptHash_EncodeAddress sha256 Base58.encode (g_leg_sh id h)
  = encode_address ripemd160 P ec_ser (LegSH id h).
Proof.
  unfold Kernels3.LegacyAddressScriptHash_EncodeAddress, g_leg_sh.
  cbn [Kernels3.bchutil_LegacyAddressScriptHash_hash Kernels3.bchutil_LegacyAddressScriptHash_netID encode_address].
  rewrite encodeLegacyAddress_tie. destruct (encode_legacy h id); reflexivity.
Qed.

Theorem AddressPubKey_EncodeAddress_tie fmt pt id :
  Kernels3.AddressPubKey_EncodeAddress (option P) sha256 Base58.encode serC serU pkNil serH (hash160 ripemd160)
    (g_pubkey fmt pt id)
  = encode_address ripemd160 P ec_ser (PubKey fmt pt id).
Proof.
  unfold Kernels3.AddressPubKey_EncodeAddress. rewrite AddressPubKey_serialize_tie. cbn [rbind].
  cbn [g_pubkey Kernels3.bchutil_AddressPubKey_pubKeyHashID encode_address].
  rewrite encodeLegacyAddress_tie. destruct (encode_legacy _ id); reflexivity.
Qed.

(* the six methods behind the interface: the method of the dynamic type of [to_gen a] *)
Definition gEncodeAddress (fuel : nat) (a : addr P) : res (list N) :=
  match a with
  | PKH p h => Kernels3.AddressPubKeyHash_EncodeAddress fuel (g_pkh p h)
  | SH p h => Kernels3.AddressScriptHash_EncodeAddress fuel (g_sh p h)
  | SH32 p h => Kernels3.AddressScriptHash32_EncodeAddress fuel (g_sh32 p h)
  | LegPKH id h => Kernels3.LegacyAddressPubKeyHash_EncodeAddress sha256 Base58.encode (g_leg_pkh id h)
  | LegSH id h => Kernels3.LegacyAddressScriptHash_EncodeAddress sha256 Base58.encode (g_leg_sh id h)
  | PubKey fmt pt id =>
      Kernels3.AddressPubKey_EncodeAddress (option P) sha256 Base58.encode serC serU pkNil serH (hash160 ripemd160)
        (g_pubkey fmt pt id)
  end.

Theorem EncodeAddress_tie fuel a : (63 <= fuel)%nat ->
  gEncodeAddress fuel a = encode_address ripemd160 P ec_ser a.
Proof.
  intros Hf. destruct a; cbn [gEncodeAddress].
  - now apply AddressPubKeyHash_EncodeAddress_tie.
  - now apply AddressScriptHash_EncodeAddress_tie.
  - now apply AddressScriptHash32_EncodeAddress_tie.
  - apply LegacyAddressPubKeyHash_EncodeAddress_tie.
  - apply LegacyAddressScriptHash_EncodeAddress_tie.
  - apply AddressPubKey_EncodeAddress_tie.
Qed.

Definition gScriptAddress (a : addr P) : res (list N) :=
  match a with
  | PKH p h => Ok (Kernels3.AddressPubKeyHash_ScriptAddress (g_pkh p h))
  | SH p h => Ok (Kernels3.AddressScriptHash_ScriptAddress (g_sh p h))
  | SH32 p h => Ok (Kernels3.AddressScriptHash32_ScriptAddress (g_sh32 p h))
  | LegPKH id h => Ok (Kernels3.LegacyAddressPubKeyHash_ScriptAddress (g_leg_pkh id h))
  | LegSH id h => Ok (Kernels3.LegacyAddressScriptHash_ScriptAddress (g_leg_sh id h))
  | PubKey fmt pt id => Kernels3.AddressPubKey_ScriptAddress (option P) serC serU pkNil serH (g_pubkey fmt pt id)
  end.

Theorem ScriptAddress_tie a : gScriptAddress a = Ok (script_address P ec_ser a).
Proof.
  destruct a; try reflexivity. cbn [gScriptAddress script_address].
  unfold Kernels3.AddressPubKey_ScriptAddress. rewrite AddressPubKey_serialize_tie. reflexivity.
Qed.

(* (phase 5) a nil public key in an AddressPubKey: every method that serialises it panics *)
Theorem AddressPubKey_nil_key_panics fmt id hx :
  let a := Kernels3.mk_bchutil_AddressPubKey (option P) fmt None id in
  Kernels3.AddressPubKey_serialize (option P) serC serU pkNil serH a = Panic 5 /\
  Kernels3.AddressPubKey_ScriptAddress (option P) serC serU pkNil serH a = Panic 5 /\
  Kernels3.AddressPubKey_String (option P) serC serU pkNil serH hx a = Panic 5.
Proof.
  assert (H : Kernels3.AddressPubKey_serialize (option P) serC serU pkNil serH
                (Kernels3.mk_bchutil_AddressPubKey (option P) fmt None id) = Panic 5).
  { unfold Kernels3.AddressPubKey_serialize. cbn [Kernels3.bchutil_AddressPubKey_pubKeyFormat Kernels3.bchutil_AddressPubKey_pubKey pkNil Go3.nonnil rbind].
    repeat match goal with |- context [if ?b then _ else _] => destruct b end; reflexivity. }
  cbv zeta. unfold Kernels3.AddressPubKey_ScriptAddress, Kernels3.AddressPubKey_String. rewrite H. repeat split.
Qed.

Definition gIsForNet (a : addr P) (net : option Kernels3.chaincfg_Params) : res bool :=
  match a with
  | PKH p h => Kernels3.AddressPubKeyHash_IsForNet (g_pkh p h) net
  | SH p h => Kernels3.AddressScriptHash_IsForNet (g_sh p h) net
  | SH32 p h => Kernels3.AddressScriptHash32_IsForNet (g_sh32 p h) net
  | LegPKH id h => Kernels3.LegacyAddressPubKeyHash_IsForNet (g_leg_pkh id h) net
  | LegSH id h => Kernels3.LegacyAddressScriptHash_IsForNet (g_leg_sh id h) net
  | PubKey fmt pt id => Kernels3.AddressPubKey_IsForNet (option P) (g_pubkey fmt pt id) net
  end.

Theorem IsForNet_tie a n : gIsForNet a (Some (params_of n)) = Ok (is_for_net P a n).
Proof.
  destruct a; try reflexivity; cbn [gIsForNet is_for_net].
  - unfold Kernels3.AddressScriptHash_IsForNet. cbn [Go3.deref rbind]. f_equal. apply list_eqb_sym.
  - unfold Kernels3.AddressScriptHash32_IsForNet. cbn [Go3.deref rbind]. f_equal. apply list_eqb_sym.
Qed.

(* a nil *chaincfg.Params is a nil dereference in every IsForNet *)
Theorem IsForNet_nil a : gIsForNet a None = Panic 5.
Proof. destruct a; reflexivity. Qed.

(* String(): hex of the serialized key for AddressPubKey (the other five types return EncodeAddress()) *)
Theorem AddressPubKey_String_tie fmt pt id :
  Kernels3.AddressPubKey_String (option P) serC serU pkNil serH hex_encode (g_pubkey fmt pt id)
  = addr_string ripemd160 P ec_ser (PubKey fmt pt id).
Proof.
  unfold Kernels3.AddressPubKey_String. rewrite AddressPubKey_serialize_tie. reflexivity.
Qed.

End AddrTie.

(* a nil *chaincfg.Params is dereferenced only after the length check *)
Theorem newAddressPubKeyHash_nil h :
  Kernels3.newAddressPubKeyHash h None = if (length h =? 20)%nat then Panic 5 else Ok (None, 1).
Proof.
  unfold Kernels3.newAddressPubKeyHash.
  destruct (Nat.eqb_spec (length h) 20); destruct (Z.eqb_spec (Z.of_nat (length h)) 20); try lia; reflexivity.
Qed.


Print Assumptions newAddressPubKeyHash_tie.
Print Assumptions newAddressScriptHashFromHash_tie.
Print Assumptions newAddressScriptHash32FromHash_tie.
Print Assumptions newLegacyAddressPubKeyHash_tie.
Print Assumptions newLegacyAddressScriptHashFromHash_tie.
Print Assumptions NewSlpAddressPubKeyHash_tie.
Print Assumptions NewSlpAddressScriptHashFromHash_tie.
Print Assumptions NewSlpAddressScriptHash32FromHash_tie.
Print Assumptions newAddressPubKeyHash_nil.
Print Assumptions NewAddressPubKey_tie.
Print Assumptions AddressPubKey_serialize_tie.
Print Assumptions AddressPubKeyHash_EncodeAddress_tie.
Print Assumptions AddressScriptHash_EncodeAddress_tie.
Print Assumptions AddressScriptHash32_EncodeAddress_tie.
Print Assumptions LegacyAddressPubKeyHash_EncodeAddress_tie.
Print Assumptions LegacyAddressScriptHash_EncodeAddress_tie.
Print Assumptions AddressPubKey_EncodeAddress_tie.
Print Assumptions EncodeAddress_tie.
Print Assumptions ScriptAddress_tie.
Print Assumptions IsForNet_tie.
Print Assumptions IsForNet_nil.
Print Assumptions AddressPubKey_String_tie.

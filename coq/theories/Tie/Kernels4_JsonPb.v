(* Tie theorems for the two JSON tree rewriters of jsonpb/jsonpb.go as translated in Gen/Kernels4.v
   (Kernels4.convertBase64, Kernels4.convertHex, Fixpoints on fuel over Kernels4.json_any) against the
   hand-written model JsonPb/JsonPb.v (convert_base64, convert_hex over json).

     to_model    : Kernels4.json_any -> json     the JSON tree held by the interface{} value
     wf          : every map is non-nil with pairwise distinct keys, recursively
     depth       : scalars 0, a container 1 + the maximum over its children

     convertBase64_tie, convertHex_tie         wf j -> depth j < fuel ->
                                               rmap to_model (generated fuel j) = model (to_model j)
                                               (map_order := the identity, the other dependencies built from
                                                the codecs of the model: i_Encoding_DecodeString, i_NewHash, ...)
     convertBase64_tie_wf, convertHex_tie_wf   ... and the generated function returns Ok j' with wf j',
                                               the same kind of value and depth j' <= depth j (the tie composes:
                                               convertHex_after_convertBase64_tie)
     convertBase64_tie_perm, convertHex_tie_perm   the same for ANY map_order that returns a permutation of its
                                               argument (what the translation assumes of `range` over a map)
     convertBase64_fuel_tight, convertHex_fuel_tight   fuel = depth j is too little for some j (Panic 9);
                                               Examples x_*_fuel_* at the end (executable codecs of JsonPb/Codecs.v)

   Both generated functions are first shown equal (for every fuel, every tree and every map_order, no
   hypothesis) to one generic fuel-recursive function [gconv] with the same loops, parameterised by what
   happens to a string value (b64_value / hex_value of the model); [gconv] is then tied to the model's
   [convert] once.  Map loop: after the keys S have been visited the current map is [cur S l0] (visited
   entries rewritten in place or deleted, the others untouched, original positions); a write d[k] through
   Go4.mset hits that position because the keys are distinct. *)
From BU Require Import Lib.Bytes Lib.PolyMod Gen.Xjsonpb Gen.Kernels2 Gen.Kernels3 Gen.Kernels4
  JsonPb.JsonPb JsonPb.JsonPbProofs Tie.Kernels2Lib.
From BU Require JsonPb.Codecs.
From Flocq Require IEEE754.BinarySingleNaN.
From Coq Require Import Lia ZifyBool ZifyN ZifyNat Sorting.Permutation.
Local Open Scope N_scope.

Notation json_any := Kernels4.json_any.
Notation json_any_map := Kernels4.json_any_map.
Notation json_any_slice := Kernels4.json_any_slice.
Notation json_any_string := Kernels4.json_any_string.
Notation json_any_float64 := Kernels4.json_any_float64.
Notation json_any_bool := Kernels4.json_any_bool.
Notation json_any_nil := Kernels4.json_any_nil.

(* ====================================================================== *)
(*                 the abstraction function, wf, depth                    *)
(* ====================================================================== *)
Definition rmap {A B} (f : A -> B) (r : res A) : res B :=
  match r with Ok a => Ok (f a) | Err e => Err e | Panic k => Panic k end.

(* a fixed text for a float64 (the rewriters never look at numbers): the fields of the binary64 *)
Definition float_text (f : Go4.float) : list N :=
  match f with
  | BinarySingleNaN.B754_zero s => [0; N.b2n s]
  | BinarySingleNaN.B754_infinity s => [1; N.b2n s]
  | BinarySingleNaN.B754_nan => [2]
  | BinarySingleNaN.B754_finite s m e _ => [3; N.b2n s; Npos m; Z.abs_N e; if (e <? 0)%Z then 1 else 0]
  end.

Fixpoint to_model (j : json_any) : json :=
  match j with
  | json_any_map None => JObj []
  | json_any_map (Some l) => JObj (map (fun kv => (fst kv, to_model (snd kv))) l)
  | json_any_slice l => JArr (map to_model l)
  | json_any_string s => JStr s
  | json_any_float64 f => JNum (float_text f)
  | json_any_bool b => JBool b
  | json_any_nil => JNull
  end.

Definition tm_kv (kv : list N * json_any) : list N * json := (fst kv, to_model (snd kv)).

Lemma to_model_map l : to_model (json_any_map (Some l)) = JObj (map tm_kv l).
Proof. reflexivity. Qed.
Lemma to_model_slice l : to_model (json_any_slice l) = JArr (map to_model l).
Proof. reflexivity. Qed.

Section All.
  Context {A : Type} (P : A -> Prop).
  Fixpoint all (l : list A) : Prop :=
    match l with [] => True | x :: t => P x /\ all t end.
End All.

Lemma all_Forall {A} (P : A -> Prop) l : all P l <-> Forall P l.
Proof.
  induction l as [|x t IH]; cbn [all]; split; intros H; auto.
  - destruct H as [Hx Ht]. constructor; [exact Hx | now apply IH].
  - inversion H as [|? ? Hx Ht]; subst. split; [exact Hx | now apply IH].
Qed.

(* every map is non-nil and its keys are pairwise distinct, recursively *)
Fixpoint wf (j : json_any) : Prop :=
  match j with
  | json_any_map None => False
  | json_any_map (Some l) => NoDup (map fst l) /\ all (fun kv => wf (snd kv)) l
  | json_any_slice l => all wf l
  | _ => True
  end.

Fixpoint depth (j : json_any) : nat :=
  match j with
  | json_any_map None => 1
  | json_any_map (Some l) => S (fold_right (fun kv m => Nat.max (depth (snd kv)) m) O l)
  | json_any_slice l => S (fold_right (fun x m => Nat.max (depth x) m) O l)
  | _ => O
  end.

Lemma wf_map l : wf (json_any_map (Some l)) <-> NoDup (map fst l) /\ Forall (fun kv => wf (snd kv)) l.
Proof. cbn [wf]. now rewrite all_Forall. Qed.
Lemma wf_slice l : wf (json_any_slice l) <-> Forall wf l.
Proof. cbn [wf]. now rewrite all_Forall. Qed.

Lemma fold_max_le {A} (f : A -> nat) l (n : nat) :
  (fold_right (fun x m => Nat.max (f x) m) O l <= n)%nat <-> Forall (fun x => (f x <= n)%nat) l.
Proof.
  induction l as [|x t IH]; cbn [fold_right]; split; intros H.
  - constructor.
  - lia.
  - constructor; [lia | apply IH; lia].
  - inversion H as [|? ? Hx Ht]; subst. apply IH in Ht. lia.
Qed.

Lemma depth_map l n :
  (depth (json_any_map (Some l)) <= S n)%nat <-> Forall (fun kv => (depth (snd kv) <= n)%nat) l.
Proof.
  cbn [depth]. rewrite <- (fold_max_le (fun kv => depth (snd kv))). lia.
Qed.
Lemma depth_slice l n :
  (depth (json_any_slice l) <= S n)%nat <-> Forall (fun x => (depth x <= n)%nat) l.
Proof.
  cbn [depth]. rewrite <- (fold_max_le depth). lia.
Qed.

(* the kind of value is kept by the rewriters (type switches on the result of the recursive call) *)
Definition shape (j j' : json_any) : Prop :=
  match j with
  | json_any_map _ => exists l', j' = json_any_map (Some l')
  | json_any_slice _ => exists l', j' = json_any_slice l'
  | _ => j' = j
  end.

(* ====================================================================== *)
(*        one generic function with the loops of the generated code       *)
(* ====================================================================== *)
Section Generic.
  (* Some s' when the string value is replaced by s' (map branch / array branch) *)
  Variable cm ca : list N -> option (list N).
  (* the order in which `range` visits a map *)
  Variable mo : forall K V : Type, list (K * V) -> list (K * V).

  Definition mstate : Type := (option (list (list N * json_any)) * json_any)%type.
  Definition sstate : Type := (list json_any * json_any)%type.

  Definition set_str (d : option (list (list N * json_any))) (data : json_any) (k tv : list N) : res mstate :=
    match cm tv with
    | Some s' => do d <- Go4.mset list_eqb d k (json_any_string s') ;; Ok (d, json_any_map d)
    | None => Ok (d, data)
    end.

  Definition upd_str (d : list json_any) (data : json_any) (i : Z) (s : list N) : res sstate :=
    match ca s with
    | Some s' => do d <- Go.upd d i (json_any_string s') ;; Ok (d, json_any_slice d)
    | None => Ok (d, data)
    end.

  Definition map_body (rec : json_any -> res json_any) : mstate -> list N * json_any -> res mstate :=
    fun '(d, data) '(k, v) =>
      match v with
      | json_any_string tv => set_str d data k tv
      | json_any_map tv =>
          do t7_ <- rec (json_any_map tv) ;;
          let tv := (match t7_ with json_any_map v_ => v_ | _ => tv end) in
          do d <- Go4.mset list_eqb d k (json_any_map tv) ;;
          Ok (d, json_any_map d)
      | json_any_slice tv =>
          do t9_ <- rec (json_any_slice tv) ;;
          let tv := (match t9_ with json_any_slice v_ => v_ | _ => tv end) in
          do d <- Go4.mset list_eqb d k (json_any_slice tv) ;;
          Ok (d, json_any_map d)
      | json_any_nil =>
          let d := Go3.mdel list_eqb d k in Ok (d, json_any_map d)
      | _ => Ok (d, data)
      end.

  Definition str_body : sstate -> Z -> res sstate :=
    fun '(d, data) i =>
      do v <- Go.idx d i ;;
      match v with
      | json_any_string s => upd_str d data i s
      | _ => Ok (d, data)
      end.

  Definition rec_body (rec : json_any -> res json_any) : sstate -> Z -> res sstate :=
    fun '(d, data) i =>
      do t <- Go.idx d i ;;
      do t <- rec t ;;
      do d <- Go.upd d i t ;;
      Ok (d, json_any_slice d).

  Fixpoint gconv (fuel : nat) (data : json_any) {struct fuel} : res json_any :=
    match fuel with O => Panic 9 | S fuel =>
    match data with
    | json_any_map d =>
        do (d, data) <- Go.foldM (map_body (gconv fuel)) (mo _ _ (Go3.mentries d)) (d, data) ;;
        Ok data
    | json_any_slice d =>
        do (d, data) <- (
          if (0 <? Z.of_nat (length d))%Z then
            do t11_ <- Go.idx d 0%Z ;;
            match t11_ with
            | json_any_string _ =>
                do (d, data) <- Go.foldM str_body (Go.zseq 0%Z (length d)) (d, data) ;;
                Ok (d, data)
            | json_any_map _ | json_any_slice _ =>
                do (d, data) <- Go.foldM (rec_body (gconv fuel)) (Go.zseq 0%Z (length d)) (d, data) ;;
                Ok (d, data)
            | _ => Ok (d, data)
            end
          else Ok (d, data)) ;;
        Ok data
    | _ => Ok data
    end
    end.
End Generic.

(* ====================================================================== *)
(*                 [gconv] against the model's [convert]                  *)
(* ====================================================================== *)
Lemma map_put_mid {V} (pre : list (list N * V)) k v v' rest :
  ~ In k (map fst pre) -> Go4.map_put list_eqb (pre ++ (k, v) :: rest) k v' = pre ++ (k, v') :: rest.
Proof.
  induction pre as [|[k0 v0] pre IH]; cbn [app Go4.map_put map fst]; intros Hk.
  - rewrite list_eqb_refl. reflexivity.
  - destruct (list_eqb k0 k) eqn:E.
    + apply list_eqb_eq in E. exfalso. apply Hk. left. exact E.
    + f_equal. apply IH. intros Hin. apply Hk. right. exact Hin.
Qed.

Lemma map_del_notin {V} (l : list (list N * V)) k :
  ~ In k (map fst l) -> Go3.map_del list_eqb l k = l.
Proof.
  induction l as [|[k0 v0] l IH]; cbn [Go3.map_del map fst]; intros Hk; [reflexivity|].
  destruct (list_eqb k0 k) eqn:E.
  - apply list_eqb_eq in E. exfalso. apply Hk. left. exact E.
  - f_equal. apply IH. intros Hin. apply Hk. right. exact Hin.
Qed.

Lemma map_del_mid {V} (pre : list (list N * V)) k v rest :
  ~ In k (map fst pre) -> ~ In k (map fst rest) ->
  Go3.map_del list_eqb (pre ++ (k, v) :: rest) k = pre ++ rest.
Proof.
  induction pre as [|[k0 v0] pre IH]; cbn [app Go3.map_del map fst]; intros Hp Hr.
  - rewrite list_eqb_refl. apply map_del_notin. exact Hr.
  - destruct (list_eqb k0 k) eqn:E.
    + apply list_eqb_eq in E. exfalso. apply Hp. left. exact E.
    + f_equal. apply IH; [|exact Hr]. intros Hin. apply Hp. right. exact Hin.
Qed.

Lemma nodup_mid {V} (pre : list (list N * V)) k v rest :
  NoDup (map fst (pre ++ (k, v) :: rest)) ->
  ~ In k (map fst pre) /\ ~ In k (map fst rest) /\ NoDup (map fst (pre ++ rest)).
Proof.
  rewrite !map_app. cbn [map fst]. intros H. apply NoDup_remove in H as [H1 H2].
  rewrite in_app_iff in H2. tauto.
Qed.

Lemma foldM_cons_ok {S A} (f : S -> A -> res S) x t s s' :
  f s x = Ok s' -> Go.foldM f (x :: t) s = Go.foldM f t s'.
Proof. intros H. cbn [Go.foldM]. rewrite H. reflexivity. Qed.

(* the two inner loops of the model, with an arbitrary function in place of the recursive call *)
Section ModelLoops.
  Variable cmf : list N -> option (list N).
  Variable R : json -> res json.
  Definition entries_of : list (list N * json) -> res (list (list N * json)) :=
    fix entries (l : list (list N * json)) : res (list (list N * json)) :=
      match l with
      | [] => Ok []
      | (k, v) :: t =>
          match v with
          | JStr tv => do t' <- entries t ;; Ok ((k, subst cmf tv) :: t')
          | JObj _ | JArr _ => do v' <- R v ;; do t' <- entries t ;; Ok ((k, v') :: t')
          | JNull => entries t
          | _ => do t' <- entries t ;; Ok ((k, v) :: t')
          end
      end.
  Definition elems_of : list json -> res (list json) :=
    fix elems (l : list json) : res (list json) :=
      match l with
      | [] => Ok []
      | x :: t => do x' <- R x ;; do t' <- elems t ;; Ok (x' :: t')
      end.

  Lemma entries_cons_null k t : entries_of ((k, JNull) :: t) = entries_of t.
  Proof. reflexivity. Qed.
  Lemma entries_cons_bool k b t :
    entries_of ((k, JBool b) :: t) = do t' <- entries_of t ;; Ok ((k, JBool b) :: t').
  Proof. reflexivity. Qed.
  Lemma entries_cons_num k n t :
    entries_of ((k, JNum n) :: t) = do t' <- entries_of t ;; Ok ((k, JNum n) :: t').
  Proof. reflexivity. Qed.
  Lemma entries_cons_str k tv t :
    entries_of ((k, JStr tv) :: t) = do t' <- entries_of t ;; Ok ((k, subst cmf tv) :: t').
  Proof. reflexivity. Qed.
  Lemma entries_cons_arr k a t :
    entries_of ((k, JArr a) :: t) = do v' <- R (JArr a) ;; do t' <- entries_of t ;; Ok ((k, v') :: t').
  Proof. reflexivity. Qed.
  Lemma entries_cons_obj k o t :
    entries_of ((k, JObj o) :: t) = do v' <- R (JObj o) ;; do t' <- entries_of t ;; Ok ((k, v') :: t').
  Proof. reflexivity. Qed.
  Lemma elems_cons x t : elems_of (x :: t) = do x' <- R x ;; do t' <- elems_of t ;; Ok (x' :: t').
  Proof. reflexivity. Qed.
End ModelLoops.

Lemma rewrite_obj lits cmf loop l :
  JsonPb.rewrite lits cmf loop (JObj l) =
  do kvs' <- entries_of cmf (JsonPb.rewrite lits cmf loop) l ;; Ok (JObj kvs').
Proof. reflexivity. Qed.

Lemma rewrite_arr lits cmf loop d :
  JsonPb.rewrite lits cmf loop (JArr d) =
  if (lit lits 1 <? N.of_nat (length d)) then
    do first <- index d (lit lits 2) ;;
    match first with
    | JStr _ => do d' <- loop d ;; Ok (JArr d')
    | JObj _ | JArr _ => do d' <- elems_of (JsonPb.rewrite lits cmf loop) d ;; Ok (JArr d')
    | _ => Ok (JArr d)
    end
  else Ok (JArr d).
Proof. reflexivity. Qed.

Section GenericTie.
  Variable lits : list Z.
  Variable cm ca : list N -> option (list N).
  Hypothesis Hl1 : lit lits 1 = 0.
  Hypothesis Hl2 : lit lits 2 = 0.
  (* `range` over a map visits every entry once, in any order *)
  Variable mo : forall K V : Type, list (K * V) -> list (K * V).
  Hypothesis Hmo : forall l : list (list N * json_any), Permutation (mo _ _ l) l.
  Local Notation cv := (JsonPb.rewrite lits cm (string_loop ca)).
  Local Notation gc := (gconv cm ca mo).

  Definition okc (m : nat) (x : json_any) : Prop := wf x /\ (depth x <= m)%nat.

  Definition spec_at (fuel : nat) : Prop :=
    forall j, wf j -> (depth j < fuel)%nat ->
    exists j', gc fuel j = Ok j' /\ cv (to_model j) = Ok (to_model j') /\ wf j' /\ shape j j' /\
               (depth j' <= depth j)%nat.

  (* ---------- the body of the map loop on a well-formed state ---------- *)
  Lemma map_body_str rec l k tv :
    map_body cm rec (Some l, json_any_map (Some l)) (k, json_any_string tv) =
    Ok (match cm tv with
        | Some s' => (Some (Go4.map_put list_eqb l k (json_any_string s')),
                      json_any_map (Some (Go4.map_put list_eqb l k (json_any_string s'))))
        | None => (Some l, json_any_map (Some l))
        end).
  Proof. unfold map_body, set_str. destruct (cm tv); reflexivity. Qed.

  Lemma map_body_map rec l k tv l' :
    rec (json_any_map tv) = Ok (json_any_map l') ->
    map_body cm rec (Some l, json_any_map (Some l)) (k, json_any_map tv) =
    Ok (Some (Go4.map_put list_eqb l k (json_any_map l')),
        json_any_map (Some (Go4.map_put list_eqb l k (json_any_map l')))).
  Proof. intros H. unfold map_body. rewrite H. reflexivity. Qed.

  Lemma map_body_slice rec l k tv l' :
    rec (json_any_slice tv) = Ok (json_any_slice l') ->
    map_body cm rec (Some l, json_any_map (Some l)) (k, json_any_slice tv) =
    Ok (Some (Go4.map_put list_eqb l k (json_any_slice l')),
        json_any_map (Some (Go4.map_put list_eqb l k (json_any_slice l')))).
  Proof. intros H. unfold map_body. rewrite H. reflexivity. Qed.

  Lemma map_body_nil rec l k :
    map_body cm rec (Some l, json_any_map (Some l)) (k, json_any_nil) =
    Ok (Some (Go3.map_del list_eqb l k), json_any_map (Some (Go3.map_del list_eqb l k))).
  Proof. reflexivity. Qed.

  Lemma map_body_float rec (st : mstate) k f : map_body cm rec st (k, json_any_float64 f) = Ok st.
  Proof. destruct st; reflexivity. Qed.
  Lemma map_body_bool rec (st : mstate) k b : map_body cm rec st (k, json_any_bool b) = Ok st.
  Proof. destruct st; reflexivity. Qed.

  (* what the loop does to the entry (k, v): the new value at k, None when the entry is deleted *)
  Definition newval (rec : json_any -> res json_any) (v : json_any) : option json_any :=
    match v with
    | json_any_nil => None
    | json_any_string tv => Some (match cm tv with Some s' => json_any_string s' | None => v end)
    | json_any_map _ | json_any_slice _ => match rec v with Ok v' => Some v' | _ => Some v end
    | _ => Some v
    end.
  (* the map after the keys S have been visited: the visited entries rewritten in place or deleted,
     the others untouched, all at their original positions *)
  Definition ent (rec : json_any -> res json_any) (S : list (list N)) (kv : list N * json_any)
    : list (list N * json_any) :=
    if existsb (list_eqb (fst kv)) S
    then match newval rec (snd kv) with Some v' => [(fst kv, v')] | None => [] end
    else [kv].
  Definition cur (rec : json_any -> res json_any) (S : list (list N)) (l : list (list N * json_any))
    : list (list N * json_any) := flat_map (ent rec S) l.

  Lemma mem_keys k (S : list (list N)) : existsb (list_eqb k) S = true <-> In k S.
  Proof.
    rewrite existsb_exists. split.
    - intros (x & Hin & E). apply list_eqb_eq in E. subst. exact Hin.
    - intros H. exists k. split; [exact H | apply list_eqb_refl].
  Qed.

  Lemma cur_cons rec S kv l : cur rec S (kv :: l) = ent rec S kv ++ cur rec S l.
  Proof. reflexivity. Qed.

  Lemma cur_app rec S l1 l2 : cur rec S (l1 ++ l2) = cur rec S l1 ++ cur rec S l2.
  Proof. apply flat_map_app. Qed.

  Lemma cur_nil rec l : cur rec [] l = l.
  Proof. induction l as [|kv l IH]; [reflexivity|]. rewrite cur_cons, IH. reflexivity. Qed.

  Lemma ent_skip rec k S kv : fst kv <> k -> ent rec (k :: S) kv = ent rec S kv.
  Proof.
    intros Hne. unfold ent. cbn [existsb].
    destruct (list_eqb (fst kv) k) eqn:E; [apply list_eqb_eq in E; contradiction|]. reflexivity.
  Qed.

  Lemma cur_skip rec k S l : ~ In k (map fst l) -> cur rec (k :: S) l = cur rec S l.
  Proof.
    induction l as [|kv l IH]; intros Hk; [reflexivity|]. cbn [map] in Hk.
    rewrite !cur_cons, ent_skip, IH; [reflexivity| |]; intros H; apply Hk; [right|left]; auto.
  Qed.

  Lemma ent_keys rec S kv k : In k (map fst (ent rec S kv)) -> k = fst kv.
  Proof.
    unfold ent. destruct (existsb _ S); [destruct (newval rec (snd kv))|]; cbn [map fst In]; intros H;
      try contradiction; destruct H as [H|H]; try contradiction; auto.
  Qed.

  Lemma cur_keys rec S l k : In k (map fst (cur rec S l)) -> In k (map fst l).
  Proof.
    induction l as [|kv l IH]; [auto|]. rewrite cur_cons, map_app, in_app_iff. cbn [map].
    intros [H|H]; [left; symmetry; eapply ent_keys; exact H | right; apply IH; exact H].
  Qed.

  Lemma cur_nodup rec S l : NoDup (map fst l) -> NoDup (map fst (cur rec S l)).
  Proof.
    induction l as [|kv l IH]; intros Hnd; [constructor|].
    cbn [map] in Hnd. inversion Hnd as [|? ? Hnin Hnd']; subst.
    rewrite cur_cons, map_app. specialize (IH Hnd').
    assert (Hn : ~ In (fst kv) (map fst (cur rec S l))) by (intros H; apply Hnin; eapply cur_keys; exact H).
    unfold ent. destruct (existsb _ S); [destruct (newval rec (snd kv))|]; cbn [map fst app];
      try exact IH; constructor; assumption.
  Qed.

  Lemma cur_step rec S l k v :
    NoDup (map fst l) -> In (k, v) l -> ~ In k S ->
    exists p q,
      cur rec S l = p ++ (k, v) :: q /\ ~ In k (map fst p) /\ ~ In k (map fst q) /\
      cur rec (k :: S) l = p ++ match newval rec v with Some v' => [(k, v')] | None => [] end ++ q.
  Proof.
    intros Hnd Hin HS. apply in_split in Hin as (l1 & l2 & ->).
    destruct (nodup_mid _ _ _ _ Hnd) as (H1 & H2 & _).
    exists (cur rec S l1), (cur rec S l2). rewrite !cur_app, !cur_cons.
    rewrite (cur_skip rec k S l1 H1), (cur_skip rec k S l2 H2).
    split.
    { unfold ent. cbn [fst snd]. destruct (existsb (list_eqb k) S) eqn:E; [apply mem_keys in E; contradiction|].
      reflexivity. }
    split. { intros H. apply H1. eapply cur_keys. exact H. }
    split. { intros H. apply H2. eapply cur_keys. exact H. }
    unfold ent. cbn [fst snd existsb]. rewrite list_eqb_refl. reflexivity.
  Qed.

  (* the generated map loop, visiting the entries [vis] of l0 in any order *)
  Lemma map_loop fuel m (IH : spec_at fuel) (Hm : (m < fuel)%nat) l0 :
    NoDup (map fst l0) -> Forall (fun kv => okc m (snd kv)) l0 ->
    forall vis S,
      NoDup (map fst vis) -> (forall kv, In kv vis -> In kv l0) -> (forall kv, In kv vis -> ~ In (fst kv) S) ->
      Go.foldM (map_body cm (gc fuel)) vis
        (Some (cur (gc fuel) S l0), json_any_map (Some (cur (gc fuel) S l0)))
      = Ok (Some (cur (gc fuel) (rev (map fst vis) ++ S) l0),
            json_any_map (Some (cur (gc fuel) (rev (map fst vis) ++ S) l0))).
  Proof.
    intros Hnd Hall. induction vis as [|[k v] vis IHv]; intros S Hndv Hin HS; [reflexivity|].
    assert (Hkv : In (k, v) l0) by (apply Hin; left; reflexivity).
    assert (HkS : ~ In k S) by (apply (HS (k, v)); left; reflexivity).
    destruct (cur_step (gc fuel) S l0 k v Hnd Hkv HkS) as (p & q & Hc & Hp & Hq & Hc').
    pose proof (proj1 (Forall_forall _ _) Hall (k, v) Hkv) as Hv. cbn [snd] in Hv.
    destruct Hv as [Hwf Hd].
    assert (Hbody : map_body cm (gc fuel)
              (Some (p ++ (k, v) :: q), json_any_map (Some (p ++ (k, v) :: q))) (k, v) =
            Ok (Some (cur (gc fuel) (k :: S) l0), json_any_map (Some (cur (gc fuel) (k :: S) l0)))).
    { rewrite Hc'. destruct v as [[tv|]|tv|tv|f|b|].
      - assert (Hlt : (depth (json_any_map (Some tv)) < fuel)%nat) by lia.
        destruct (IH _ Hwf Hlt) as (j' & Hg & _ & _ & [l' Hsh] & _). subst j'.
        rewrite (map_body_map _ _ k _ _ Hg), map_put_mid by exact Hp.
        cbn [newval]. rewrite Hg. reflexivity.
      - destruct Hwf.
      - assert (Hlt : (depth (json_any_slice tv) < fuel)%nat) by lia.
        destruct (IH _ Hwf Hlt) as (j' & Hg & _ & _ & [l' Hsh] & _). subst j'.
        rewrite (map_body_slice _ _ k _ _ Hg), map_put_mid by exact Hp.
        cbn [newval]. rewrite Hg. reflexivity.
      - rewrite map_body_str. cbn [newval]. destruct (cm tv) as [s'|]; [rewrite map_put_mid by exact Hp|];
          reflexivity.
      - rewrite map_body_float. reflexivity.
      - rewrite map_body_bool. reflexivity.
      - rewrite map_body_nil, map_del_mid by assumption. reflexivity. }
    rewrite Hc, (foldM_cons_ok _ _ _ _ _ Hbody).
    cbn [map fst] in Hndv. inversion Hndv as [|? ? Hnin Hndv']; subst.
    rewrite IHv.
    - cbn [map fst rev]. rewrite <- app_assoc. reflexivity.
    - exact Hndv'.
    - intros kv H. apply Hin. right. exact H.
    - intros kv H [E|H']; [|apply (HS kv); [right; exact H|exact H']].
      apply Hnin. rewrite E. apply in_map. exact H.
  Qed.

  (* the model's loop computes the same list, when every key has been visited *)
  Lemma entries_cur fuel m (IH : spec_at fuel) (Hm : (m < fuel)%nat) S : forall l,
    (forall kv, In kv l -> In (fst kv) S) -> Forall (fun kv => okc m (snd kv)) l ->
    entries_of cm cv (map tm_kv l) = Ok (map tm_kv (cur (gc fuel) S l)) /\
    Forall (fun kv => okc m (snd kv)) (cur (gc fuel) S l).
  Proof.
    induction l as [|[k v] l IHl]; intros HS Hall; [split; [reflexivity|constructor]|].
    inversion Hall as [|? ? Hv Hrest]; subst. cbn [snd] in Hv. destruct Hv as [Hwf Hd].
    destruct IHl as [H2 H3]; [intros kv H; apply HS; right; exact H | exact Hrest |].
    rewrite cur_cons. unfold ent. cbn [fst snd].
    replace (existsb (list_eqb k) S) with true
      by (symmetry; apply mem_keys; apply (HS (k, v)); left; reflexivity).
    change (map tm_kv ((k, v) :: l)) with ((k, to_model v) :: map tm_kv l).
    destruct v as [[tv|]|tv|tv|f|b|].
    - assert (Hlt : (depth (json_any_map (Some tv)) < fuel)%nat) by lia.
      destruct (IH _ Hwf Hlt) as (j' & Hg & Hc & Hwf' & _ & Hd').
      cbn [newval]. rewrite Hg. cbn [app]. split; [|constructor; [split; [exact Hwf'|cbn [snd]; lia]|exact H3]].
      rewrite to_model_map, entries_cons_obj, <- to_model_map, Hc. cbn [rbind]. rewrite H2. reflexivity.
    - destruct Hwf.
    - assert (Hlt : (depth (json_any_slice tv) < fuel)%nat) by lia.
      destruct (IH _ Hwf Hlt) as (j' & Hg & Hc & Hwf' & _ & Hd').
      cbn [newval]. rewrite Hg. cbn [app]. split; [|constructor; [split; [exact Hwf'|cbn [snd]; lia]|exact H3]].
      rewrite to_model_slice, entries_cons_arr, <- to_model_slice, Hc. cbn [rbind]. rewrite H2. reflexivity.
    - cbn [newval app]. change (to_model (json_any_string tv)) with (JStr tv).
      rewrite entries_cons_str, H2. unfold subst.
      split; [destruct (cm tv); reflexivity|].
      constructor; [|exact H3]. destruct (cm tv); split; try exact I; cbn [snd depth]; lia.
    - cbn [newval app]. change (to_model (json_any_float64 f)) with (JNum (float_text f)).
      rewrite entries_cons_num, H2. split; [reflexivity|]. constructor; [split; assumption|exact H3].
    - cbn [newval app]. change (to_model (json_any_bool b)) with (JBool b).
      rewrite entries_cons_bool, H2. split; [reflexivity|]. constructor; [split; assumption|exact H3].
    - cbn [newval app]. change (to_model json_any_nil) with JNull.
      rewrite entries_cons_null. split; [exact H2|exact H3].
  Qed.

  (* ---------- the string-array loop ---------- *)
  Definition str_new (x : json_any) : json_any :=
    match x with
    | json_any_string s => match ca s with Some s' => json_any_string s' | None => x end
    | _ => x
    end.

  Lemma str_new_okc m x : okc m x -> okc m (str_new x).
  Proof.
    intros H. destruct x as [o|l|s|f|b|]; try exact H. cbn [str_new]. destruct (ca s); [|exact H].
    split; [exact I | cbn [depth]; lia].
  Qed.

  Lemma str_body_at pre x suf :
    str_body ca (pre ++ x :: suf, json_any_slice (pre ++ x :: suf)) (Z.of_nat (length pre)) =
    Ok (pre ++ str_new x :: suf, json_any_slice (pre ++ str_new x :: suf)).
  Proof.
    unfold str_body. rewrite idx_mid. cbn [rbind].
    destruct x as [o|l|s|f|b|]; try reflexivity.
    unfold upd_str, str_new. destruct (ca s); [rewrite upd_mid|]; reflexivity.
  Qed.

  Lemma string_loop_tm x t :
    string_loop ca (to_model x :: t) = do t' <- string_loop ca t ;; Ok (to_model (str_new x) :: t').
  Proof.
    destruct x as [[l|]|l|s|f|b|]; try reflexivity.
    cbn [string_loop to_model string_ok str_new]. unfold subst. destruct (ca s); reflexivity.
  Qed.

  Lemma str_loop m : forall suf pre a,
    a = Z.of_nat (length pre) -> Forall (okc m) suf ->
    exists suf',
      Go.foldM (str_body ca) (Go.zseq a (length suf)) (pre ++ suf, json_any_slice (pre ++ suf))
        = Ok (pre ++ suf', json_any_slice (pre ++ suf')) /\
      string_loop ca (map to_model suf) = Ok (map to_model suf') /\
      Forall (okc m) suf'.
  Proof.
    induction suf as [|x suf IHs]; intros pre a Ha Hall.
    - exists []. cbn [length Go.zseq Go.foldM map string_loop]. repeat split; auto.
    - inversion Hall as [|? ? Hx Hrest]; subst.
      destruct (IHs (pre ++ [str_new x]) (Z.of_nat (length pre) + 1)%Z) as (suf' & H1 & H2 & H3).
      { rewrite app_length. cbn [length]. lia. }
      { exact Hrest. }
      repeat rewrite <- app_assoc in H1. cbn [app] in H1.
      exists (str_new x :: suf'). cbn [length]. rewrite zseq_S.
      rewrite (foldM_cons_ok _ _ _ _ _ (str_body_at pre x suf)).
      split; [exact H1|]. split.
      + cbn [map]. rewrite string_loop_tm, H2. reflexivity.
      + constructor; [apply str_new_okc; exact Hx | exact H3].
  Qed.

  (* ---------- the loops over an array of containers ---------- *)
  Lemma rec_body_at rec pre x x' suf :
    rec x = Ok x' ->
    rec_body rec (pre ++ x :: suf, json_any_slice (pre ++ x :: suf)) (Z.of_nat (length pre)) =
    Ok (pre ++ x' :: suf, json_any_slice (pre ++ x' :: suf)).
  Proof.
    intros H. unfold rec_body. rewrite idx_mid. cbn [rbind]. rewrite H. cbn [rbind].
    rewrite upd_mid. reflexivity.
  Qed.

  Lemma rec_loop fuel m (IH : spec_at fuel) (Hm : (m < fuel)%nat) : forall suf pre a,
    a = Z.of_nat (length pre) -> Forall (okc m) suf ->
    exists suf',
      Go.foldM (rec_body (gc fuel)) (Go.zseq a (length suf)) (pre ++ suf, json_any_slice (pre ++ suf))
        = Ok (pre ++ suf', json_any_slice (pre ++ suf')) /\
      elems_of cv (map to_model suf) = Ok (map to_model suf') /\
      Forall (okc m) suf'.
  Proof.
    induction suf as [|x suf IHs]; intros pre a Ha Hall.
    - exists []. cbn [length Go.zseq Go.foldM map]. repeat split; auto.
    - inversion Hall as [|? ? [Hwf Hd] Hrest]; subst.
      assert (Hlt : (depth x < fuel)%nat) by lia.
      destruct (IH _ Hwf Hlt) as (x' & Hg & Hc & Hwf' & _ & Hd').
      destruct (IHs (pre ++ [x']) (Z.of_nat (length pre) + 1)%Z) as (suf' & H1 & H2 & H3).
      { rewrite app_length. cbn [length]. lia. }
      { exact Hrest. }
      repeat rewrite <- app_assoc in H1. cbn [app] in H1.
      exists (x' :: suf'). cbn [length]. rewrite zseq_S.
      rewrite (foldM_cons_ok _ _ _ _ _ (rec_body_at _ pre x x' suf Hg)).
      split; [exact H1|]. split.
      + cbn [map]. rewrite elems_cons, Hc. cbn [rbind]. rewrite H2. reflexivity.
      + constructor; [split; [exact Hwf'|lia] | exact H3].
  Qed.

  (* ---------- the tie of the generic function ---------- *)
  Lemma okc_children_map l :
    wf (json_any_map (Some l)) ->
    exists m, depth (json_any_map (Some l)) = S m /\ NoDup (map fst l) /\ Forall (fun kv => okc m (snd kv)) l.
  Proof.
    intros Hwf. apply wf_map in Hwf as [Hnd Hall].
    exists (fold_right (fun kv m => Nat.max (depth (snd kv)) m) O l).
    split; [reflexivity|]. split; [exact Hnd|].
    pose proof (proj1 (depth_map l _) (le_n _)) as Hd.
    apply Forall_forall. intros kv Hin. split.
    - eapply Forall_forall in Hall; eauto.
    - eapply Forall_forall in Hd; eauto.
  Qed.

  Lemma okc_children_slice l :
    wf (json_any_slice l) ->
    exists m, depth (json_any_slice l) = S m /\ Forall (okc m) l.
  Proof.
    intros Hwf. apply wf_slice in Hwf.
    exists (fold_right (fun x m => Nat.max (depth x) m) O l).
    split; [reflexivity|].
    pose proof (proj1 (depth_slice l _) (le_n _)) as Hd.
    apply Forall_forall. intros x Hin. split.
    - eapply Forall_forall in Hwf; eauto.
    - eapply Forall_forall in Hd; eauto.
  Qed.

  Lemma okc_slice_back m l : Forall (okc m) l -> wf (json_any_slice l) /\ (depth (json_any_slice l) <= S m)%nat.
  Proof.
    intros H. split.
    - apply wf_slice. eapply Forall_impl; [|exact H]. intros x [Hx _]. exact Hx.
    - apply depth_slice. eapply Forall_impl; [|exact H]. intros x [_ Hx]. exact Hx.
  Qed.

  Lemma okc_map_back m l :
    NoDup (map fst l) -> Forall (fun kv => okc m (snd kv)) l ->
    wf (json_any_map (Some l)) /\ (depth (json_any_map (Some l)) <= S m)%nat.
  Proof.
    intros Hnd H. split.
    - apply wf_map. split; [exact Hnd|]. eapply Forall_impl; [|exact H]. intros x [Hx _]. exact Hx.
    - apply depth_map. eapply Forall_impl; [|exact H]. intros x [_ Hx]. exact Hx.
  Qed.

  Theorem gconv_spec : forall fuel, spec_at fuel.
  Proof.
    induction fuel as [|fuel IH]; intros j Hwf Hd; [lia|].
    destruct j as [[l|]|l|s|f|b|].
    - (* map *)
      destruct (okc_children_map l Hwf) as (m & Hdm & Hnd & Hall).
      assert (Hm : (m < fuel)%nat) by lia.
      pose (S := rev (map fst (mo _ _ l)) ++ []).
      assert (Hndv : NoDup (map fst (mo _ _ l))).
      { eapply Permutation_NoDup; [|exact Hnd]. apply Permutation_map. apply Permutation_sym. apply Hmo. }
      assert (Hvis : forall kv, In kv (mo _ _ l) -> In kv l).
      { intros kv H. eapply Permutation_in; [apply Hmo|exact H]. }
      pose proof (map_loop fuel m IH Hm l Hnd Hall (mo _ _ l) [] Hndv Hvis (fun _ _ H => H)) as H1.
      rewrite cur_nil in H1. fold S in H1.
      assert (HS : forall kv, In kv l -> In (fst kv) S).
      { intros kv H. unfold S. rewrite app_nil_r, <- in_rev. apply in_map.
        eapply Permutation_in; [apply Permutation_sym; apply Hmo|exact H]. }
      destruct (entries_cur fuel m IH Hm S l HS Hall) as [H2 H3].
      pose proof (cur_nodup (gc fuel) S l Hnd) as H4.
      set (r' := cur (gc fuel) S l) in *.
      destruct (okc_map_back m r' H4 H3) as [Hwf' Hd'].
      exists (json_any_map (Some r')).
      split. { cbn [gconv Go3.mentries]. rewrite H1. reflexivity. }
      split. { rewrite !to_model_map, rewrite_obj, H2. reflexivity. }
      split; [exact Hwf'|]. split; [exists r'; reflexivity|]. lia.
    - destruct Hwf.
    - (* slice *)
      destruct (okc_children_slice l Hwf) as (m & Hdm & Hall).
      assert (Hm : (m < fuel)%nat) by lia.
      destruct l as [|x l].
      { exists (json_any_slice []). split; [reflexivity|].
        split. { rewrite to_model_slice, rewrite_arr. cbn [map length]. rewrite Hl1. reflexivity. }
        split; [exact Hwf|]. split; [exists []; reflexivity|]. lia. }
      assert (Hmodel : cv (to_model (json_any_slice (x :: l))) =
                match to_model x with
                | JStr _ => do d' <- string_loop ca (map to_model (x :: l)) ;; Ok (JArr d')
                | JObj _ | JArr _ => do d' <- elems_of cv (map to_model (x :: l)) ;; Ok (JArr d')
                | _ => Ok (JArr (map to_model (x :: l)))
                end).
      { rewrite to_model_slice, rewrite_arr. rewrite Hl1, Hl2.
        replace (0 <? N.of_nat (length (map to_model (x :: l)))) with true by (cbn [map length]; lia).
        reflexivity. }
      assert (Hgen : gc (S fuel) (json_any_slice (x :: l)) =
                do st <- (match x with
                          | json_any_string _ =>
                              Go.foldM (str_body ca) (Go.zseq 0%Z (length (x :: l)))
                                (x :: l, json_any_slice (x :: l))
                          | json_any_map _ | json_any_slice _ =>
                              Go.foldM (rec_body (gc fuel)) (Go.zseq 0%Z (length (x :: l)))
                                (x :: l, json_any_slice (x :: l))
                          | _ => Ok (x :: l, json_any_slice (x :: l))
                          end) ;; Ok (snd st)).
      { cbn [gconv].
        replace (0 <? Z.of_nat (length (x :: l)))%Z with true by (cbn [length]; lia).
        change (Go.idx (x :: l) 0%Z) with (Ok x). cbn [rbind].
        destruct x as [o|xl|xs|xf|xb|]; try reflexivity.
        - destruct (Go.foldM _ _ _) as [[d0 data0]| |]; reflexivity.
        - destruct (Go.foldM _ _ _) as [[d0 data0]| |]; reflexivity.
        - destruct (Go.foldM _ _ _) as [[d0 data0]| |]; reflexivity. }
      assert (Hrec : exists suf',
                Go.foldM (rec_body (gc fuel)) (Go.zseq 0%Z (length (x :: l))) (x :: l, json_any_slice (x :: l))
                  = Ok (suf', json_any_slice suf') /\
                elems_of cv (map to_model (x :: l)) = Ok (map to_model suf') /\ Forall (okc m) suf').
      { exact (rec_loop fuel m IH Hm (x :: l) [] 0%Z eq_refl Hall). }
      assert (Hstr : exists suf',
                Go.foldM (str_body ca) (Go.zseq 0%Z (length (x :: l))) (x :: l, json_any_slice (x :: l))
                  = Ok (suf', json_any_slice suf') /\
                string_loop ca (map to_model (x :: l)) = Ok (map to_model suf') /\ Forall (okc m) suf').
      { exact (str_loop m (x :: l) [] 0%Z eq_refl Hall). }
      assert (Hsame : exists j', Ok (json_any_slice (x :: l)) = Ok j' /\
                Ok (JArr (map to_model (x :: l))) = Ok (to_model j') /\ wf j' /\
                shape (json_any_slice (x :: l)) j' /\ (depth j' <= depth (json_any_slice (x :: l)))%nat).
      { exists (json_any_slice (x :: l)). split; [reflexivity|]. split; [reflexivity|].
        split; [exact Hwf|]. split; [eexists; reflexivity|]. lia. }
      rewrite Hgen, Hmodel.
      destruct x as [[xl|]|xl|xs|xf|xb|]; try exact Hsame.
      + destruct Hrec as (suf' & H1 & H2 & H3). destruct (okc_slice_back m suf' H3) as [Hwf' Hd'].
        exists (json_any_slice suf'). rewrite H1. split; [reflexivity|].
        split. { rewrite to_model_map, H2. reflexivity. }
        split; [exact Hwf'|]. split; [eexists; reflexivity|]. lia.
      + destruct Hrec as (suf' & H1 & H2 & H3). destruct (okc_slice_back m suf' H3) as [Hwf' Hd'].
        exists (json_any_slice suf'). rewrite H1. split; [reflexivity|].
        split. { change (to_model (json_any_map None)) with (JObj []). cbn iota. rewrite H2. reflexivity. }
        split; [exact Hwf'|]. split; [eexists; reflexivity|]. lia.
      + destruct Hrec as (suf' & H1 & H2 & H3). destruct (okc_slice_back m suf' H3) as [Hwf' Hd'].
        exists (json_any_slice suf'). rewrite H1. split; [reflexivity|].
        split. { rewrite (to_model_slice xl), H2. reflexivity. }
        split; [exact Hwf'|]. split; [eexists; reflexivity|]. lia.
      + destruct Hstr as (suf' & H1 & H2 & H3). destruct (okc_slice_back m suf' H3) as [Hwf' Hd'].
        exists (json_any_slice suf'). rewrite H1. split; [reflexivity|].
        split. { change (to_model (json_any_string xs)) with (JStr xs). cbn iota. rewrite H2. reflexivity. }
        split; [exact Hwf'|]. split; [eexists; reflexivity|]. lia.
    - exists (json_any_string s). repeat split; auto.
    - exists (json_any_float64 f). repeat split; auto.
    - exists (json_any_bool b). repeat split; auto.
    - exists json_any_nil. repeat split; auto.
  Qed.
End GenericTie.

(* ====================================================================== *)
(*          the generated functions are instances of [gconv]              *)
(* ====================================================================== *)
Lemma foldM_ext_all {S A} (f g : S -> A -> res S) l s :
  (forall s x, f s x = g s x) -> Go.foldM f l s = Go.foldM g l s.
Proof. intros H. apply foldM_ext. intros; apply H. Qed.

Section Instances.
  Variable b64_decode : list N -> option (list N).
  Variable b64_encode : list N -> list N.
  Variable hex_decode : list N -> option (list N).
  Variable hex_encode : list N -> list N.
  Variable hash_from_str : list N -> option (list N).
  Variable hash_string : list N -> list N.

  (* the dependencies of the generated code, from the codecs of the model *)
  Definition i_Encoding_DecodeString (_ : unit) (s : list N) : list N * N :=
    match b64_decode s with Some d => (d, 0) | None => ([], 1) end.
  Definition i_NewHash (b : list N) : option (list N) * N :=
    match new_hash b with Some h => (Some h, 0) | None => (None, 1) end.
  Definition i_Hash_String (h : option (list N)) : list N :=
    match h with Some h => hash_string h | None => [] end.
  Definition i_NewHashFromStr (s : list N) : option (list N) * N :=
    match hash_from_str s with Some h => (Some h, 0) | None => (None, 1) end.
  Definition i_Hash_CloneBytes (h : option (list N)) : list N :=
    match h with Some h => h | None => [] end.
  Definition i_hex_DecodeString (s : list N) : list N * N :=
    match hex_decode s with Some d => (d, 0) | None => ([], 1) end.
  Definition i_Encoding_EncodeToString (_ : unit) (b : list N) : list N := b64_encode b.
  Definition i_map_order : forall K V : Type, list (K * V) -> list (K * V) := fun _ _ l => l.

  Definition map_order_t : Type := forall K V : Type, list (K * V) -> list (K * V).
  (* `range` over a map visits every entry exactly once *)
  Definition map_order_ok (mo : map_order_t) : Prop :=
    forall (K V : Type) (l : list (K * V)), Permutation (mo K V l) l.
  Lemma i_map_order_ok : map_order_ok i_map_order.
  Proof. intros K V l. apply Permutation_refl. Qed.

  Definition gen_convertBase64 (mo : map_order_t) : nat -> json_any -> res json_any :=
    Kernels4.convertBase64 unit hex_encode mo tt i_Encoding_DecodeString i_NewHash i_Hash_String.
  Definition gen_convertHex (mo : map_order_t) : nat -> json_any -> res json_any :=
    Kernels4.convertHex unit i_hex_DecodeString i_Hash_CloneBytes mo tt i_NewHashFromStr
      i_Encoding_EncodeToString.

  Local Notation cb := (b64_value b64_decode hex_encode hash_string 32).
  Local Notation ch := (hex_value b64_encode hex_decode hash_from_str 64).

  Ltac b64_case tv :=
    unfold b64_value, i_Encoding_DecodeString, i_NewHash, i_Hash_String, new_hash;
    destruct (b64_decode tv) as [dec|]; cbn [N.eqb andb];
    [ destruct (Z.eqb_spec (Z.of_nat (length dec)) 32); destruct (N.eqb_spec (N.of_nat (length dec)) 32);
      destruct (Nat.eqb_spec (length dec) 32); try lia; cbn [N.eqb andb] | ].

  Lemma convertBase64_gconv mo fuel : forall j, gen_convertBase64 mo fuel j = gconv cb cb mo fuel j.
  Proof.
    clear b64_encode hex_decode hash_from_str.   (* lia would capture them *)
    unfold gen_convertBase64.
    induction fuel as [|fuel IH]; intros j; [reflexivity|].
    cbn [Kernels4.convertBase64 gconv].
    destruct j as [d|d|s|f|b|]; try reflexivity.
    - rewrite (foldM_ext_all _ (map_body cb (gconv cb cb mo fuel))); [reflexivity|].
      intros [d0 data0] [k v]. cbn beta iota.
      destruct v as [tv|tv|tv|f|b|]; try reflexivity.
      + rewrite IH. reflexivity.
      + rewrite IH. reflexivity.
      + unfold map_body, set_str. b64_case tv; destruct d0 as [l|]; reflexivity.
    - destruct (0 <? Z.of_nat (length d))%Z; [|reflexivity].
      destruct (Go.idx d 0%Z) as [first| |]; try reflexivity. cbn [rbind].
      destruct first as [x|x|x|x|x|]; try reflexivity.
      + rewrite (foldM_ext_all _ (rec_body (gconv cb cb mo fuel))); [reflexivity|].
        intros [d0 data0] i. cbn beta iota. unfold rec_body.
        destruct (Go.idx d0 i) as [t| |]; try reflexivity. cbn [rbind]. rewrite IH. reflexivity.
      + rewrite (foldM_ext_all _ (rec_body (gconv cb cb mo fuel))); [reflexivity|].
        intros [d0 data0] i. cbn beta iota. unfold rec_body.
        destruct (Go.idx d0 i) as [t| |]; try reflexivity. cbn [rbind]. rewrite IH. reflexivity.
      + rewrite (foldM_ext_all _ (str_body cb)); [reflexivity|].
        intros [d0 data0] i. cbn beta iota. unfold str_body.
        destruct (Go.idx d0 i) as [t| |]; try reflexivity. cbn [rbind].
        destruct t as [tv|tv|tv|f|b|]; try reflexivity. cbn [negb].
        unfold upd_str. b64_case tv; try reflexivity;
          match goal with |- context [Go.upd d0 i ?v] => destruct (Go.upd d0 i v); reflexivity end.
  Qed.

  Ltac hex_case tv :=
    unfold hex_value, i_NewHashFromStr, i_Hash_CloneBytes, i_hex_DecodeString, i_Encoding_EncodeToString;
    destruct (hash_from_str tv) as [h|]; cbn [N.eqb andb];
    [ destruct (Z.eqb_spec (Z.of_nat (length tv)) 64); destruct (N.eqb_spec (N.of_nat (length tv)) 64);
      try lia; cbn [andb] | ];
    destruct (hex_decode tv) as [dec|]; cbn [N.eqb].

  Lemma convertHex_gconv mo fuel : forall j, gen_convertHex mo fuel j = gconv ch ch mo fuel j.
  Proof.
    clear b64_decode hex_encode hash_string.   (* lia would capture them *)
    unfold gen_convertHex.
    induction fuel as [|fuel IH]; intros j; [reflexivity|].
    cbn [Kernels4.convertHex gconv].
    destruct j as [d|d|s|f|b|]; try reflexivity.
    - rewrite (foldM_ext_all _ (map_body ch (gconv ch ch mo fuel))); [reflexivity|].
      intros [d0 data0] [k v]. cbn beta iota.
      destruct v as [tv|tv|tv|f|b|]; try reflexivity.
      + rewrite IH. reflexivity.
      + rewrite IH. reflexivity.
      + unfold map_body, set_str. hex_case tv; destruct d0 as [l|]; reflexivity.
    - destruct (0 <? Z.of_nat (length d))%Z; [|reflexivity].
      destruct (Go.idx d 0%Z) as [first| |]; try reflexivity. cbn [rbind].
      destruct first as [x|x|x|x|x|]; try reflexivity.
      + rewrite (foldM_ext_all _ (rec_body (gconv ch ch mo fuel))); [reflexivity|].
        intros [d0 data0] i. cbn beta iota. unfold rec_body.
        destruct (Go.idx d0 i) as [t| |]; try reflexivity. cbn [rbind]. rewrite IH. reflexivity.
      + rewrite (foldM_ext_all _ (rec_body (gconv ch ch mo fuel))); [reflexivity|].
        intros [d0 data0] i. cbn beta iota. unfold rec_body.
        destruct (Go.idx d0 i) as [t| |]; try reflexivity. cbn [rbind]. rewrite IH. reflexivity.
      + rewrite (foldM_ext_all _ (str_body ch)); [reflexivity|].
        intros [d0 data0] i. cbn beta iota. unfold str_body.
        destruct (Go.idx d0 i) as [t| |]; try reflexivity. cbn [rbind].
        destruct t as [tv|tv|tv|f|b|]; try reflexivity. cbn [negb].
        unfold upd_str. hex_case tv; try reflexivity;
          match goal with |- context [Go.upd d0 i ?v] => destruct (Go.upd d0 i v); reflexivity end.
  Qed.
  (* ---------- the literals of the model (Gen/Xjsonpb.v) ---------- *)
  Lemma lits_base64 :
    lit lits_convertBase64 0 = 32 /\ lit lits_convertBase64 1 = 0 /\
    lit lits_convertBase64 2 = 0 /\ lit lits_convertBase64 3 = 32.
  Proof. vm_compute. auto. Qed.
  Lemma lits_hex :
    lit lits_convertHex 0 = 64 /\ lit lits_convertHex 1 = 0 /\
    lit lits_convertHex 2 = 0 /\ lit lits_convertHex 3 = 64.
  Proof. vm_compute. auto. Qed.

  Lemma convert_base64_eq :
    convert_base64 b64_decode hex_encode hash_string = JsonPb.rewrite lits_convertBase64 cb (string_loop cb).
  Proof.
    unfold convert_base64, convert. destruct lits_base64 as (H0 & _ & _ & H3). rewrite H0, H3. reflexivity.
  Qed.
  Lemma convert_hex_eq :
    convert_hex b64_encode hex_decode hash_from_str = JsonPb.rewrite lits_convertHex ch (string_loop ch).
  Proof.
    unfold convert_hex, convert. destruct lits_hex as (H0 & _ & _ & H3). rewrite H0, H3. reflexivity.
  Qed.

  (* ---------- the tie theorems ---------- *)
  (* general form: for ANY order in which `range` visits a map (the Section variable map_order of the
     translation, assumed there to return a permutation).  The generated function returns, its result is the
     model's, and it is again well formed, of the same kind and not deeper (so that the theorems compose) *)
  Theorem convertBase64_tie_perm (mo : map_order_t) (fuel : nat) (j : json_any) :
    map_order_ok mo -> wf j -> (depth j < fuel)%nat ->
    exists j',
      Kernels4.convertBase64 unit hex_encode mo tt i_Encoding_DecodeString i_NewHash i_Hash_String
        fuel j = Ok j' /\
      convert_base64 b64_decode hex_encode hash_string (to_model j) = Ok (to_model j') /\
      wf j' /\ shape j j' /\ (depth j' <= depth j)%nat.
  Proof.
    intros Hmo Hwf Hd. fold (gen_convertBase64 mo fuel j). rewrite convertBase64_gconv, convert_base64_eq.
    destruct lits_base64 as (_ & H1 & H2 & _).
    exact (gconv_spec lits_convertBase64 cb cb H1 H2 mo (Hmo _ _) fuel j Hwf Hd).
  Qed.

  Theorem convertHex_tie_perm (mo : map_order_t) (fuel : nat) (j : json_any) :
    map_order_ok mo -> wf j -> (depth j < fuel)%nat ->
    exists j',
      Kernels4.convertHex unit i_hex_DecodeString i_Hash_CloneBytes mo tt i_NewHashFromStr
        i_Encoding_EncodeToString fuel j = Ok j' /\
      convert_hex b64_encode hex_decode hash_from_str (to_model j) = Ok (to_model j') /\
      wf j' /\ shape j j' /\ (depth j' <= depth j)%nat.
  Proof.
    intros Hmo Hwf Hd. fold (gen_convertHex mo fuel j). rewrite convertHex_gconv, convert_hex_eq.
    destruct lits_hex as (_ & H1 & H2 & _).
    exact (gconv_spec lits_convertHex ch ch H1 H2 mo (Hmo _ _) fuel j Hwf Hd).
  Qed.

  (* the identity instance of map_order *)
  Theorem convertBase64_tie_wf (fuel : nat) (j : json_any) :
    wf j -> (depth j < fuel)%nat ->
    exists j',
      Kernels4.convertBase64 unit hex_encode i_map_order tt i_Encoding_DecodeString i_NewHash i_Hash_String
        fuel j = Ok j' /\
      convert_base64 b64_decode hex_encode hash_string (to_model j) = Ok (to_model j') /\
      wf j' /\ shape j j' /\ (depth j' <= depth j)%nat.
  Proof. apply convertBase64_tie_perm. exact i_map_order_ok. Qed.

  Theorem convertBase64_tie (fuel : nat) (j : json_any) :
    wf j -> (depth j < fuel)%nat ->
    rmap to_model
      (Kernels4.convertBase64 unit hex_encode i_map_order tt i_Encoding_DecodeString i_NewHash i_Hash_String
         fuel j)
    = convert_base64 b64_decode hex_encode hash_string (to_model j).
  Proof.
    intros Hwf Hd. destruct (convertBase64_tie_wf fuel j Hwf Hd) as (j' & Hg & Hc & _).
    rewrite Hg, Hc. reflexivity.
  Qed.

  Theorem convertHex_tie_wf (fuel : nat) (j : json_any) :
    wf j -> (depth j < fuel)%nat ->
    exists j',
      Kernels4.convertHex unit i_hex_DecodeString i_Hash_CloneBytes i_map_order tt i_NewHashFromStr
        i_Encoding_EncodeToString fuel j = Ok j' /\
      convert_hex b64_encode hex_decode hash_from_str (to_model j) = Ok (to_model j') /\
      wf j' /\ shape j j' /\ (depth j' <= depth j)%nat.
  Proof. apply convertHex_tie_perm. exact i_map_order_ok. Qed.

  Theorem convertHex_tie (fuel : nat) (j : json_any) :
    wf j -> (depth j < fuel)%nat ->
    rmap to_model
      (Kernels4.convertHex unit i_hex_DecodeString i_Hash_CloneBytes i_map_order tt i_NewHashFromStr
         i_Encoding_EncodeToString fuel j)
    = convert_hex b64_encode hex_decode hash_from_str (to_model j).
  Proof.
    intros Hwf Hd. destruct (convertHex_tie_wf fuel j Hwf Hd) as (j' & Hg & Hc & _).
    rewrite Hg, Hc. reflexivity.
  Qed.

  (* the two ties compose: Unmarshal-side rewriting of the Marshal-side result, with the same fuel *)
  Corollary convertHex_after_convertBase64_tie (fuel : nat) (j : json_any) :
    wf j -> (depth j < fuel)%nat ->
    rmap to_model
      (do j1 <- gen_convertBase64 i_map_order fuel j ;; gen_convertHex i_map_order fuel j1)
    = (do m1 <- convert_base64 b64_decode hex_encode hash_string (to_model j) ;;
       convert_hex b64_encode hex_decode hash_from_str m1).
  Proof.
    intros Hwf Hd. destruct (convertBase64_tie_wf fuel j Hwf Hd) as (j1 & Hg & Hc & Hwf1 & _ & Hd1).
    unfold gen_convertBase64. rewrite Hg, Hc. cbn [rbind]. apply convertHex_tie; [exact Hwf1|lia].
  Qed.

  (* fuel = depth is too little: a scalar has depth 0 and the function needs one unit of fuel *)
  Lemma convertBase64_fuel_tight : exists j, wf j /\ gen_convertBase64 i_map_order (depth j) j = Panic 9.
  Proof. exists json_any_nil. split; [exact I|reflexivity]. Qed.
  Lemma convertHex_fuel_tight : exists j, wf j /\ gen_convertHex i_map_order (depth j) j = Panic 9.
  Proof. exists json_any_nil. split; [exact I|reflexivity]. Qed.
End Instances.

Print Assumptions convertBase64_tie_perm.
Print Assumptions convertHex_tie_perm.
Print Assumptions convertBase64_tie.
Print Assumptions convertBase64_tie_wf.
Print Assumptions convertHex_tie.
Print Assumptions convertHex_tie_wf.
Print Assumptions convertHex_after_convertBase64_tie.

(* ====================================================================== *)
(*        Examples with the executable codecs of JsonPb/Codecs.v          *)
(* ====================================================================== *)
Definition x_convertBase64 : nat -> json_any -> res json_any :=
  gen_convertBase64 Codecs.b64_decode Codecs.hex_encode Codecs.hash_string i_map_order.
Definition x_convertHex : nat -> json_any -> res json_any :=
  gen_convertHex Codecs.b64_encode Codecs.hex_decode Codecs.hash_from_str i_map_order.

(* {"h": <base64 of 32 bytes>, "n": null, "a": ["AQID", 0.0, "!!"], "o": {"x": [{}, true]}} *)
Definition x_doc : json_any :=
  json_any_map (Some
    [ ([104], json_any_string (Codecs.b64_encode (Go.nseq 0 32)));
      ([110], json_any_nil);
      ([97], json_any_slice [json_any_string [65; 81; 73; 68]; json_any_float64 Go4.f64_zero;
                             json_any_string [33; 33]]);
      ([111], json_any_map (Some [([120], json_any_slice [json_any_map (Some []); json_any_bool true])])) ]).

Example x_doc_depth : depth x_doc = 4%nat.
Proof. vm_compute. reflexivity. Qed.

(* the hypotheses of the tie theorems are satisfiable *)
Example x_doc_wf : wf x_doc.
Proof.
  cbn [x_doc wf all snd map fst]. repeat split; try exact I; repeat constructor; cbn [In]; intuition discriminate.
Qed.

Example x_convertBase64_run :
  rmap to_model (x_convertBase64 5 x_doc) = Codecs.conv_base64 (to_model x_doc).
Proof. vm_compute. reflexivity. Qed.

Example x_convertBase64_value :
  x_convertBase64 5 x_doc =
  Ok (json_any_map (Some
    [ ([104], json_any_string (Codecs.hash_string (Go.nseq 0 32)));
      ([97], json_any_slice [json_any_string [48; 49; 48; 50; 48; 51]; json_any_float64 Go4.f64_zero;
                             json_any_string [33; 33]]);
      ([111], json_any_map (Some [([120], json_any_slice [json_any_map (Some []); json_any_bool true])])) ])).
Proof. vm_compute. reflexivity. Qed.

Example x_convertHex_run :
  (do j1 <- x_convertBase64 5 x_doc ;; rmap to_model (x_convertHex 5 j1))
  = (do m1 <- Codecs.conv_base64 (to_model x_doc) ;; Codecs.conv_hex m1).
Proof. vm_compute. reflexivity. Qed.

(* the container needs exactly its depth: one unit less runs out of fuel *)
Example x_convertBase64_fuel_depth : exists j', x_convertBase64 4 x_doc = Ok j'.
Proof. vm_compute. eexists. reflexivity. Qed.
Example x_convertBase64_fuel_short : x_convertBase64 3 x_doc = Panic 9.
Proof. vm_compute. reflexivity. Qed.
Example x_convertHex_fuel_short : x_convertHex 3 x_doc = Panic 9.
Proof. vm_compute. reflexivity. Qed.
(* a scalar has depth 0: fuel = depth is too little *)
Example x_convertBase64_fuel_scalar : x_convertBase64 (depth (json_any_bool true)) (json_any_bool true) = Panic 9.
Proof. vm_compute. reflexivity. Qed.
Example x_convertHex_fuel_scalar : x_convertHex (depth (json_any_bool true)) (json_any_bool true) = Panic 9.
Proof. vm_compute. reflexivity. Qed.

(* the order of the visit does not matter: the same run with `range` visiting the maps backwards *)
Definition rev_order : forall K V : Type, list (K * V) -> list (K * V) := fun _ _ l => rev l.
Example x_convertBase64_rev_order :
  gen_convertBase64 Codecs.b64_decode Codecs.hex_encode Codecs.hash_string rev_order 5 x_doc
  = x_convertBase64 5 x_doc.
Proof. vm_compute. reflexivity. Qed.
Lemma rev_order_ok : map_order_ok rev_order.
Proof. intros K V l. apply Permutation_sym, Permutation_rev. Qed.

(* distinct keys are needed: with a repeated key the generated code (which writes d[k], the FIRST
   binding of k) and the model (which rewrites every entry of the association list) differ *)
Example x_dup_keys_differ :
  let j := json_any_map (Some [([97], json_any_nil); ([97], json_any_bool true)]) in
  rmap to_model (x_convertBase64 2 j) <> Codecs.conv_base64 (to_model j).
Proof. vm_compute. discriminate. Qed.


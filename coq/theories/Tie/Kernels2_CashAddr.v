(* Tie between the monadic-mode transliterations (Gen/Kernels2.v, regenerated from the Go ASTs on every
   run) of the CashAddr symbol layer of address.go and the hand-written model CashAddr/CashAddr.v.
   No literal of the source is repeated here: closed sub-terms are evaluated. *)
From BU Require Import Lib.Bytes Lib.PolyMod Gen.Kernels Gen.Kernels2 CashAddr.CashAddr
  Tie.TieTactics Tie.KernelsTie Tie.Kernels2Lib.
From Coq Require Import ZifyBool ZifyN ZifyNat.

Theorem cat_tie x y : Kernels2.cat x y = x ++ y.
Proof. reflexivity. Qed.

Theorem lowerCase_tie c : Kernels2.lowerCase c = CashAddr.lower_case c.
Proof. reflexivity. Qed.

(* ---------- expandPrefix ---------- *)
Lemma expand_loop (f : N -> N) suf : forall pre done tail,
  length done = length pre ->
  Go.foldM (fun ret i =>
      do t1_ <- Go.idx (pre ++ suf) i ;;
      do ret <- Go.upd ret i (f t1_) ;;
      Ok ret)
    (Go.zseq (Z.of_nat (length pre)) (length suf)) (done ++ repeat 0 (length suf) ++ tail)
  = Ok (done ++ map f suf ++ tail).
Proof.
  induction suf as [|c t IH]; intros pre done tail Hlen; [reflexivity|].
  cbn [length Go.zseq Go.foldM repeat app map].
  rewrite idx_mid. cbn [rbind]. rewrite <- Hlen, upd_mid. cbn [rbind].
  specialize (IH (pre ++ [c]) (done ++ [f c]) tail).
  rewrite <- !app_assoc in IH. cbn [app] in IH.
  rewrite !app_length, Nat2Z.inj_add in IH. cbn [length] in IH.
  rewrite Hlen. apply IH. lia.
Qed.

Theorem expandPrefix_tie prefix : Kernels2.expandPrefix prefix = Ok (CashAddr.expand_prefix prefix).
Proof.
  unfold Kernels2.expandPrefix, CashAddr.expand_prefix.
  eval_term (lit Xbchutil.lits_expandPrefix 2).
  replace (Z.to_nat (Z.of_nat (length prefix) + 1)) with (length prefix + 1)%nat by lia.
  rewrite Nat2Z.id, repeat_app. cbn [repeat].
  pose proof (expand_loop (fun c => N.land c 31) prefix [] [] [0] eq_refl) as H.
  cbn [app length] in H. change (Z.of_nat 0) with 0%Z in H.
  unfold rbind in *. rewrite H.
  replace (Z.of_nat (length prefix)) with (Z.of_nat (length (map (fun c => N.land c 31) prefix)))
    by now rewrite map_length.
  rewrite upd_mid. reflexivity.
Qed.

(* ---------- verifyChecksum ---------- *)
Lemma Bytes_expand_prefix prefix : Bytes (CashAddr.expand_prefix prefix).
Proof.
  unfold CashAddr.expand_prefix. apply Bytes_app. split.
  - unfold Bytes. apply Forall_forall. intros x Hx. apply in_map_iff in Hx as [c [<- _]].
    eval_term (lit Xbchutil.lits_expandPrefix 2).
    assert (N.land c 31 < 2 ^ 5) by (rewrite N.land_comm; apply land_lt_pow2; reflexivity).
    change (2 ^ 5) with 32 in *. lia.
  - repeat constructor.
Qed.

Theorem verifyChecksum_tie prefix payload : Bytes payload ->
  Kernels2.verifyChecksum prefix payload = Ok (CashAddr.verify_checksum prefix payload).
Proof.
  intros Hp. unfold Kernels2.verifyChecksum, CashAddr.verify_checksum.
  rewrite expandPrefix_tie. cbn [rbind]. unfold Kernels2.cat.
  rewrite polyMod_tie by (apply Bytes_app; split; [apply Bytes_expand_prefix | exact Hp]).
  reflexivity.
Qed.

(* Tie between the monadic-mode transliterations (Gen/Kernels2.v, regenerated from the Go ASTs on every
   run) of convertBits / packAddressData (address.go) and the hand-written models Address/Bits.v
   (convert_bits) and Address/Address.v (pack_address_data).
   No literal of the source is repeated here: the literals of the model are evaluated. *)
From BU Require Import Lib.Bytes Lib.PolyMod Gen.Kernels2 Address.Bits Address.Address
  Tie.TieTactics Tie.Kernels2Lib.
From Coq Require Import ZifyBool ZifyN ZifyNat.

Local Ltac norm64 := change (2 ^ 64) with 18446744073709551616 in *.

(* ---------- arithmetic helpers ---------- *)

(* the uint(i) conversion of the first loop is invisible behind a 64-bit mask *)
Lemma land_lor_mod64 a v m :
  m < 2 ^ 64 -> N.land (N.lor a (v mod 2 ^ 64)) m = N.land (N.lor a v) m.
Proof.
  intros Hm. apply N.bits_inj. intros k.
  rewrite !N.land_spec, !N.lor_spec.
  destruct (N.lt_ge_cases k 64) as [Hk|Hk].
  - now rewrite N.mod_pow2_bits_low.
  - assert (Hz : N.testbit m k = false).
    { rewrite <- (N.mod_small m (2 ^ 64)) by exact Hm. now apply N.mod_pow2_bits_high. }
    now rewrite Hz, !andb_false_r.
Qed.

Lemma shiftl_1_bounds e : e <= 63 -> 1 <= N.shiftl 1 e < 2 ^ 64.
Proof.
  intros He. rewrite N.shiftl_1_l. split.
  - assert (2 ^ e <> 0) by (apply N.pow_nonzero; lia). lia.
  - apply N.pow_lt_mono_r; lia.
Qed.

(* ---------- the inner loop: for bits >= tobits { ... } versus cb_emit ----------
   The loop is given by its condition and body (any terms that compute as the source does), so that
   the statement does not depend on how the translator lays out lets and patterns.
   The model conses the outputs of a non-tail recursion, the code appends to [ret]. *)
Lemma emit_tie acc tob maxv (cond : N * list N -> bool) (body : N * list N -> res (N * list N)) :
  (forall b r, cond (b, r) = (tob <=? b)) ->
  (forall b r, body (b, r) =
     Ok ((b + 2 ^ 64 - tob) mod 2 ^ 64,
         r ++ [N.land (N.shiftr acc ((b + 2 ^ 64 - tob) mod 2 ^ 64)) maxv])) ->
  1 <= tob ->
  forall f2 f1 bits ret,
  bits < 2 ^ 64 -> (N.to_nat bits <= f1)%nat -> (N.to_nat bits < f2)%nat ->
  exists b r,
    cb_emit f2 acc bits tob maxv = Ok (b, r) /\
    Go.whileM f1 cond body (bits, ret) = Ok (b, ret ++ r) /\
    b < tob.
Proof.
  intros Hcond Hbody Htob. induction f2 as [|f2 IH]; intros f1 bits ret Hb Hf1 Hf2; [lia|].
  cbn [cb_emit]. destruct (N.leb_spec tob bits) as [Hle|Hlt].
  - destruct f1 as [|f1]; [lia|]. cbn [Go.whileM]. rewrite Hcond, Hbody.
    destruct (N.leb_spec tob bits) as [_|]; [|lia].
    assert (E : (bits + 2 ^ 64 - tob) mod 2 ^ 64 = bits - tob) by (norm64; lia).
    rewrite E.
    destruct (IH f1 (bits - tob) (ret ++ [N.land (N.shiftr acc (bits - tob)) maxv]))
      as (b & r & H1 & H2 & H3); [lia | lia | lia |].
    rewrite H1, H2. cbn [rbind]. eexists _, _. split; [reflexivity|].
    rewrite <- app_assoc. split; [reflexivity | exact H3].
  - exists bits, []. rewrite app_nil_r. split; [reflexivity|]. split; [|exact Hlt].
    destruct f1; cbn [Go.whileM]; rewrite Hcond; destruct (N.leb_spec tob bits); try lia; reflexivity.
Qed.

(* ---------- the outer loop: for _, value := range uintArr { ... } versus cb_loop ----------
   [F] is the body of the range loop: it must compute as "mask the accumulator, add fromBits to bits,
   run the inner loop".  The model recurses over [data] (non-tail, concatenating the outputs), the
   code folds over uintArr = map uint data with the state (acc, bits, ret). *)
Definition acc_step (fromb maxacc acc v : N) : N :=
  N.land (N.lor ((N.shiftl acc fromb) mod 2 ^ 64) v) maxacc.

Definition body_shape (fuel : nat) (fromb tob maxv maxacc : N)
    (F : N * N * list N -> N -> res (N * N * list N)) : Prop :=
  forall acc bits ret v, exists cond body,
     F (acc, bits, ret) v =
       (do (b, r) <- Go.whileM fuel cond body ((bits + fromb) mod 2 ^ 64, ret) ;;
        Ok (acc_step fromb maxacc acc v, b, r)) /\
     (forall b r, cond (b, r) = (tob <=? b)) /\
     (forall b r, body (b, r) =
        Ok ((b + 2 ^ 64 - tob) mod 2 ^ 64,
            r ++ [N.land (N.shiftr (acc_step fromb maxacc acc v) ((b + 2 ^ 64 - tob) mod 2 ^ 64)) maxv])).

Lemma loop_tie fuel fromb tob maxv maxacc F :
  body_shape fuel fromb tob maxv maxacc F ->
  1 <= tob -> fromb + tob <= 64 -> maxacc < 2 ^ 64 -> (63 <= fuel)%nat ->
  forall data acc bits ret, bits < tob ->
  exists a b rest,
    cb_loop data acc bits fromb tob maxv maxacc = Ok (a, b, rest) /\
    Go.foldM F (map (fun i => i mod 2 ^ 64) data) (acc, bits, ret) = Ok (a, b, ret ++ rest) /\
    b < tob.
Proof.
  intros HF Htob Hsum Hmax Hfuel.
  induction data as [|v t IH]; intros acc bits ret Hbits.
  - exists acc, bits, []. rewrite app_nil_r. split; [reflexivity|]. split; [reflexivity | exact Hbits].
  - cbn [cb_loop map Go.foldM].
    destruct (HF acc bits ret (v mod 2 ^ 64)) as (cond & body & HFeq & Hc & Hb).
    rewrite HFeq. clear HFeq.
    assert (Eacc : acc_step fromb maxacc acc (v mod 2 ^ 64)
                   = N.land (N.lor (w64 (N.shiftl acc fromb)) v) maxacc).
    { unfold acc_step, w64. norm64. apply (land_lor_mod64 _ v maxacc Hmax). }
    rewrite Eacc in *. set (acc1 := N.land (N.lor (w64 (N.shiftl acc fromb)) v) maxacc) in *.
    assert (E : (bits + fromb) mod 2 ^ 64 = bits + fromb) by (norm64; lia).
    rewrite E.
    destruct (emit_tie acc1 tob maxv cond body Hc Hb Htob
                (S (N.to_nat (bits + fromb))) fuel (bits + fromb) ret)
      as (b & r & H1 & H2 & H3); [norm64; lia | lia | lia |].
    rewrite H1, H2. cbn [rbind].
    destruct (IH acc1 b (ret ++ r) H3) as (a' & b' & rest & G1 & G2 & G3).
    rewrite G1, G2. cbn [rbind]. exists a', b', (r ++ rest).
    rewrite app_assoc. split; [reflexivity|]. split; [reflexivity | exact G3].
Qed.

(* fromBits = 0: bits stays 0 and nothing is ever emitted, whatever the masks are (this covers
   tobits = 64, where the mask maxv of the model (0, truncated subtraction) and of the code (2^64-1)
   differ but are never used) *)
Lemma loop0_model tob maxv maxacc : 1 <= tob ->
  forall data acc, exists a, cb_loop data acc 0 0 tob maxv maxacc = Ok (a, 0, []).
Proof.
  intros Htob. induction data as [|v t IH]; intros acc; [exists acc; reflexivity|].
  cbn [cb_loop]. change (0 + 0) with 0. cbn [cb_emit].
  destruct (N.leb_spec tob 0); [lia|]. cbn [rbind].
  match goal with |- context [cb_loop t ?a1 _ _ _ _ _] => destruct (IH a1) as [a' H'] end.
  rewrite H'. cbn [rbind app]. now exists a'.
Qed.

Lemma loop0_code fuel tob maxv maxacc F :
  body_shape fuel 0 tob maxv maxacc F -> 1 <= tob ->
  forall (data : list N) acc ret, exists a, Go.foldM F data (acc, 0, ret) = Ok (a, 0, ret).
Proof.
  intros HF Htob. induction data as [|v t IH]; intros acc ret; [exists acc; reflexivity|].
  cbn [Go.foldM]. destruct (HF acc 0 ret v) as (cond & body & HFeq & Hc & _).
  rewrite HFeq. change ((0 + 0) mod 2 ^ 64) with 0.
  assert (W : Go.whileM fuel cond body (0, ret) = Ok (0, ret)).
  { destruct fuel; cbn [Go.whileM]; rewrite Hc; destruct (N.leb_spec tob 0); try lia; reflexivity. }
  rewrite W. cbn [rbind]. apply IH.
Qed.

(* evaluate the literals of the model (PolyMod.lit of a generated list) *)
Local Ltac eval_lits l :=
  repeat match goal with |- context [lit l ?i] => eval_term (lit l i) end.

(* the loop body of the generated code has the shape loop_tie expects; the masks it uses are
   read off by unification *)
Local Ltac solve_body_shape :=
  intros ? ? ? ?; eexists _, _; split; [reflexivity|]; split; intros; reflexivity.

(* ---------- convertBits, main domain ---------- *)
Lemma convertBits_tie_main fuel data fromb tob pad :
  1 <= tob -> tob <= 63 -> fromb + tob <= 64 -> (63 <= fuel)%nat ->
  Kernels2.convertBits fuel data fromb tob pad = convert_bits data fromb tob pad.
Proof.
  intros Htob Htob63 Hsum Hfuel.
  unfold Kernels2.convertBits, convert_bits, CB. eval_lits Xbchutil.lits_convertBits.
  cbv zeta. rewrite fold_left_append_map. cbn [app].
  match goal with |- context [Go.foldM ?F _ (?a, ?b, ?r)] =>
    epose proof (loop_tie fuel fromb tob _ _ F) as L;
    specialize (L ltac:(solve_body_shape) Htob Hsum);
    specialize (fun Hm => L Hm Hfuel data a b r)
  end.
  destruct L as (a & b & rest & H1 & H2 & H3); [apply N.mod_upper_bound; lia | lia |].
  cbn [app] in H2. rewrite H2. clear H2.
  (* the masks of the code and of the model are the same numbers on this domain *)
  pose proof (shiftl_1_bounds tob Htob63) as Bv.
  pose proof (shiftl_1_bounds (fromb + tob - 1) ltac:(lia)) as Ba.
  match type of H1 with cb_loop _ _ _ _ _ ?mv ?ma = _ =>
    match goal with |- context [cb_loop _ _ _ _ _ ?mv' ?ma'] =>
      assert (Ev : mv = mv') by (unfold w64; norm64; lia);
      assert (Ea : ma = ma');
      [| rewrite Ev, Ea in *; set (maxv := mv') in * ]
    end
  end.
  { unfold w64. replace (((fromb + tob) mod 2 ^ 64 + 2 ^ 64 - 1) mod 2 ^ 64) with (fromb + tob - 1)
      by (norm64; lia). norm64; lia. }
  clear Ev Ea. rewrite H1. clear H1. cbn [rbind].
  replace ((tob + 2 ^ 64 - b) mod 2 ^ 64) with (tob - b) by (norm64; lia).
  unfold w64. norm64.
  destruct pad.
  - cbn [rbind]. rewrite fold_left_append_map. reflexivity.
  - match goal with |- context [if ?c then Err _ else _] => destruct c end; [reflexivity|].
    cbn [rbind]. rewrite fold_left_append_map. reflexivity.
Qed.

Lemma convertBits_tie_from0 fuel data tob pad :
  1 <= tob -> Kernels2.convertBits fuel data 0 tob pad = convert_bits data 0 tob pad.
Proof.
  intros Htob.
  unfold Kernels2.convertBits, convert_bits, CB. eval_lits Xbchutil.lits_convertBits.
  cbv zeta. rewrite fold_left_append_map. cbn [app].
  match goal with |- context [Go.foldM ?F ?l (?a, ?b, ?r)] =>
    epose proof (loop0_code fuel tob _ _ F) as L;
    specialize (L ltac:(solve_body_shape) Htob l a r); destruct L as [a1 L]
  end.
  rewrite L. clear L.
  match goal with |- context [cb_loop data ?a _ _ _ ?mv ?ma] =>
    destruct (loop0_model tob mv ma Htob data a) as [a2 L]
  end.
  rewrite L. clear L. cbn [rbind].
  change (0 <? 0) with false. change (0 <=? 0) with true. cbn [orb].
  destruct pad; cbn [rbind]; [rewrite fold_left_append_map|]; reflexivity.
Qed.

(* tobits = 0: the Go loop "for bits >= 0" never ends; both the model and the transliteration
   report that as Panic 9 (out of fuel) as soon as data is not empty, and agree on empty data.
   (A statement about the two conventions, not about a run of the Go code.) *)
Lemma emit_tob0 acc maxv : forall f bits, cb_emit f acc bits 0 maxv = Panic 9.
Proof.
  induction f as [|f IH]; intros bits; [reflexivity|].
  cbn [cb_emit]. destruct (N.leb_spec 0 bits); [|lia]. rewrite IH. reflexivity.
Qed.

Lemma step_tob0 fuel fromb maxv maxacc F :
  body_shape fuel fromb 0 maxv maxacc F -> forall acc bits ret v, F (acc, bits, ret) v = Panic 9.
Proof.
  intros HF acc bits ret v. destruct (HF acc bits ret v) as (cond & body & HFeq & Hc & Hb).
  rewrite HFeq. clear HFeq.
  assert (W : forall f b r, b < 2 ^ 64 -> Go.whileM f cond body (b, r) = Panic 9).
  { induction f as [|f IH]; intros b r Hlt; cbn [Go.whileM]; rewrite Hc;
      destruct (N.leb_spec 0 b); try lia; [reflexivity|].
    rewrite Hb. replace ((b + 2 ^ 64 - 0) mod 2 ^ 64) with b by (norm64; lia). now apply IH. }
  rewrite W by (apply N.mod_upper_bound; lia). reflexivity.
Qed.

Lemma foldM_cons_panic {S A} (F : S -> A -> res S) x l s k :
  F s x = Panic k -> Go.foldM F (x :: l) s = Panic k.
Proof. intros H. cbn [Go.foldM]. now rewrite H. Qed.

Lemma convertBits_tie_tob0 fuel data fromb pad :
  Kernels2.convertBits fuel data fromb 0 pad = convert_bits data fromb 0 pad.
Proof.
  unfold Kernels2.convertBits, convert_bits, CB. eval_lits Xbchutil.lits_convertBits.
  cbv zeta. rewrite fold_left_append_map. cbn [app].
  destruct data as [|v t].
  - cbn [map Go.foldM cb_loop rbind]. change (0 <? 0) with false.
    destruct pad; cbn [rbind fold_left map]; [reflexivity|].
    rewrite !N.shiftl_0_l. unfold w64. norm64. change (0 mod 18446744073709551616) with 0.
    rewrite !N.land_0_l. destruct ((fromb <=? 0) || negb (0 =? 0)); reflexivity.
  - cbn [map cb_loop]. rewrite emit_tob0. cbn [rbind].
    match goal with |- context [Go.foldM ?F (?x :: ?l) (?a, ?b, ?r)] =>
      epose proof (step_tob0 fuel fromb _ _ F ltac:(solve_body_shape) a b r x) as L;
      rewrite (foldM_cons_panic F x l _ _ L)
    end.
    reflexivity.
Qed.

(* ---------- convertBits ----------
   No hypothesis on [data]: the uint(i) conversions of the first loop only matter above bit 63, which
   the mask maxAcc < 2^64 removes.
   fromb + tob <= 64 (the domain announced in Address/Bits.v): beyond, 1 << (fromBits+tobits-1) wraps
     to 0 and the model's truncated subtraction gives maxAcc = 0 where the code has 2^64-1; it also
     keeps bits + fromBits from wrapping.  Not needed when fromb = 0 (bits stays 0, nothing is
     emitted) nor when tob = 0.
   63 <= fuel: between outer iterations bits < tob, so the inner loop runs at most
     (bits + fromb) / tob <= 63 times.  Not needed when fromb = 0 or tob = 0. *)
Theorem convertBits_tie_gen fuel data fromb tob pad :
  tob = 0 \/ fromb = 0 \/ (fromb + tob <= 64 /\ (63 <= fuel)%nat) ->
  Kernels2.convertBits fuel data fromb tob pad = Bits.convert_bits data fromb tob pad.
Proof.
  intros H. destruct (N.eq_dec tob 0) as [->|Ht]; [apply convertBits_tie_tob0|].
  destruct (N.eq_dec fromb 0) as [->|Hf]; [apply convertBits_tie_from0; lia|].
  apply convertBits_tie_main; lia.
Qed.
Print Assumptions convertBits_tie_gen.

Theorem convertBits_tie fuel data fromb tob pad :
  fromb + tob <= 64 -> (63 <= fuel)%nat ->
  Kernels2.convertBits fuel data fromb tob pad = Bits.convert_bits data fromb tob pad.
Proof. intros. apply convertBits_tie_gen. auto. Qed.
Print Assumptions convertBits_tie.

(* ---------- packAddressData ---------- *)
Lemma add_sub_mod64 x c : c <= 2 ^ 64 -> (x mod 2 ^ 64 + 2 ^ 64 - c) mod 2 ^ 64 = (x + 2 ^ 64 - c) mod 2 ^ 64.
Proof.
  intros Hc. rewrite <- !N.add_sub_assoc by exact Hc. now rewrite N.add_mod_idemp_l by lia.
Qed.

Lemma len_mod64 n : Z.to_N (Z.of_nat n mod 2 ^ 64) = N.of_nat n mod 2 ^ 64.
Proof. rewrite <- nat_N_Z. rewrite <- (N2Z.id (N.of_nat n mod 2 ^ 64)). f_equal. now rewrite N2Z.inj_mod. Qed.

Theorem packAddressData_tie fuel t h :
  (63 <= fuel)%nat ->
  Kernels2.packAddressData fuel (Z.of_N t) h = Address.pack_address_data t h.
Proof.
  intros Hfuel.
  unfold Kernels2.packAddressData, pack_address_data, PK, AddrTypePKH, AddrTypeSH, lenN.
  eval_lits Xbchutil.lits_packAddressData.
  eval_term (Z.to_N Xbchutil.c_AddrTypePayToPubKeyHash).
  eval_term (Z.to_N Xbchutil.c_AddrTypePayToScriptHash).
  cbv zeta.
  (* the AddressType test: Go compares ints, the model naturals *)
  repeat match goal with |- context [(Z.of_N t =? ?z)%Z] =>
    replace (Z.of_N t =? z)%Z with (t =? Z.to_N z) by lia
  end.
  cbn [Z.to_N].
  match goal with |- (if ?c then _ else _) = _ => destruct c eqn:Ht end; [reflexivity|].
  replace (Z.to_N (Z.of_N t mod 2 ^ 64)) with t by lia.
  (* len(addrHash) as uint, minus a constant, mod 2^64 *)
  rewrite len_mod64, add_sub_mod64 by lia.
  rewrite nat_N_Z. cbn [Z.of_N].
  unfold w64. norm64. change (2 ^ 8) with 256.
  match goal with |- (if ?c then _ else _) = _ => destruct c end; [reflexivity|].
  match goal with |- (if ?c then _ else _) = _ => destruct c end; [reflexivity|].
  cbn [app]. rewrite convertBits_tie by lia. reflexivity.
Qed.
Print Assumptions packAddressData_tie.

(* ---------- the hypotheses are sharp ---------- *)
(* fromb + tob = 65: the model's maxAcc is 0 (truncated subtraction after the wrapped shift), the code's 2^64-1 *)
Example convertBits_tie_domain_sharp :
  Kernels2.convertBits 64 (repeat 255 8) 8 57 true <> Bits.convert_bits (repeat 255 8) 8 57 true.
Proof. vm_compute. discriminate. Qed.

(* fuel = 62: the inner loop needs 63 iterations for 63 -> 1 *)
Example convertBits_tie_fuel_sharp :
  Kernels2.convertBits 62 [1] 63 1 true <> Bits.convert_bits [1] 63 1 true.
Proof. vm_compute. discriminate. Qed.

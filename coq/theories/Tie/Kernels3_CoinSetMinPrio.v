(* Tie between the generated MinPriorityCoinSelector.CoinSelect (Gen/Kernels3.v, a Fixpoint on fuel translated from
   coinset/coins.go) and the model CoinSet.min_priority (instantiated with the 64-bit wrap w64), for the
   instantiation of the abstract container/list, list.Element and Coin objects of Tie/Kernels3_CoinSet.v.

   Part 1 (mirror): the body of the generated Fixpoint, cut into its loops ([g_cutoff], [g_extend], [g_topup],
   [g_outer_body], [g_level]) with the recursive call as a parameter; [gMinPrio_S] proves BY CONVERSION that one
   unfolding of the generated function is [g_level] (so a change of the generated body breaks that lemma).
   Part 2: each loop against the model's [find_cutoff], [extend], [topup], [outer].
   Part 3: the theorem, by induction on the fuel.

   Domain of [MinPriority_tie]: every (maxin, mc, minavg, target) in Z and every list of non-nil coins (values and
   confirmations any Z: both sides wrap to int64 in the same places, the translation's "int ... assumed not to
   overflow" notes concern sums of list lengths / MaxInputs, which Z represents exactly); the receiver is a
   value.  Fuel: len(coins) + 1.  Result: the model's result read through [sel_view] (Kernels3_CoinSet.v).
   No input was found on which model and generated code disagree: the equality is unconditional. *)
From BU Require Import Lib.Bytes Gen.Kernels2 Gen.Kernels3 CoinSet.CoinSet CoinSet.CoinSetProofs
  Tie.Kernels2Lib Tie.Kernels3Lib Tie.Kernels3_CoinSet.
From Coq Require Import ZifyBool ZifyN ZifyNat.

(* ================= Part 1: the mirror ================= *)
Local Open Scope N_scope.

Notation L := (list coin) (only parsing).
Notation C := (option coin) (only parsing).
Notation E := (nat * list coin)%type (only parsing).
Notation Coins := (Kernels3.coinset_Coins (list coin)) (only parsing).

(* x.Coins() for x of interface type Coins *)
Definition coins_of (fuel : nat) (sel : Coins) : res (list C) :=
  match sel with
  | Kernels3.coinset_Coins_CoinSet _ (Some r_) => gCoins fuel r_
  | Kernels3.coinset_Coins_CoinSet _ None => Panic 5
  | Kernels3.coinset_Coins_nil _ => Panic 5
  end.

Section Mirror.
Variables srt_rev_amt srt_va : list C -> list C.
Variable rec_g : Kernels3.coinset_MinPriorityCoinSelector -> Z -> list C -> res (Coins * N).
Variable fuel : nat.
Variables maxin mc minavg targetValue : Z.

Definition g_cutoff (possibleCoins : list C) (idxs : list Z) (cutoffIndex : Z) : res (Go.ctl Z (Coins * N)) :=
  Go.foldC (R := (Coins * N)) (fun cutoffIndex i =>
      do t1_ <- Go.idx possibleCoins i ;;
      if (minavg <=? (c_valueage t1_))%Z then
        let cutoffIndex := i in
        Ok (Go.Brk cutoffIndex)
      else
      Ok (Go.Next cutoffIndex)
    ) idxs cutoffIndex.

Definition g_topup_body (possibleCoins : list C) (cutoffIndex i_2 : Z) : Z -> res (Go.ctl Z (Coins * N)) :=
  (fun numLow =>
    do t6_ <- Go.slice possibleCoins cutoffIndex (i_2 + 1%Z)%Z ;;
    let allHigh := (gNewCoinSet t6_) in
    do t7_ <- Go3.deref allHigh ;;
    let newTargetValue := (Go.wrapZ 64 (targetValue - (Kernels3.CoinSet_TotalValue L t7_))%Z) in
    do t8_ <- Go3.deref allHigh ;;
    let newMaxInputs := ((Kernels3.CoinSet_Num L l_len t8_) + numLow)%Z in
    let newMaxInputs :=
      if (numLow <? newMaxInputs)%Z then
        let newMaxInputs := numLow in
        newMaxInputs
      else
        newMaxInputs
    in
    do t9_ <- Go3.deref allHigh ;;
    do t10_ <- Go3.deref allHigh ;;
    let needValueAge := (Go.wrapZ 64 ((Go.wrapZ 64 (minavg * ((Kernels3.CoinSet_Num L l_len t9_) + numLow)%Z)%Z) - (Kernels3.CoinSet_TotalValueAge L t10_))%Z) in
    do t11_ <- Go.quotZ needValueAge numLow ;;
    let newMinAvgValueAge := (Go.wrapZ 64 t11_) in
    do t13_ <- (if (0%Z <? needValueAge)%Z then (do t12_ <- Go.remZ needValueAge numLow ;; Ok (negb (t12_ =? 0%Z)%Z)) else Ok false) ;;
    let newMinAvgValueAge :=
      if t13_ then
        let newMinAvgValueAge := (Go.wrapZ 64 (newMinAvgValueAge + 1)%Z) in
        newMinAvgValueAge
      else
        newMinAvgValueAge
    in
    do t14_ <- Go.slice possibleCoins 0%Z cutoffIndex ;;
    do (t15_, t16_) <- rec_g (Kernels3.mk_coinset_MinPriorityCoinSelector newMaxInputs mc newMinAvgValueAge) newTargetValue t14_ ;;
    let lowSelect := t15_ in
    let err_2 := t16_ in
    if (negb (err_2 =? 0)) then
      let numLow := (numLow + 1)%Z in
      Ok (Go.Next numLow)
    else
    do t17_ <- coins_of fuel lowSelect ;;
    do allHigh <-
      Go.foldM (fun allHigh coin =>
        do t18_ <- Go3.deref allHigh ;;
        let t19_ := gPushCoin t18_ coin in
        let allHigh := (Some t19_) in
        Ok allHigh
      ) t17_ allHigh ;;
    Ok (Go.Ret ((Kernels3.coinset_Coins_CoinSet L allHigh), 0))
  ).

Definition g_topup (wfuel : nat) (possibleCoins : list C) (cutoffIndex i_2 : Z) (numLow : Z) : res (Go.ctl Z (Coins * N)) :=
  Go.whileC (R := (Coins * N)) wfuel (fun numLow => (andb (numLow <=? cutoffIndex)%Z (((numLow + (i_2 - cutoffIndex)%Z)%Z + 1%Z)%Z <=? maxin)%Z))
    (g_topup_body possibleCoins cutoffIndex i_2) numLow.

Definition g_extend (possibleCoins : list C) (idxs : list Z) (extendedCoins : option GS) : res (Go.ctl (option GS) (Coins * N)) :=
  Go.foldC (R := (Coins * N)) (fun extendedCoins n =>
    do t22_ <- Go3.deref extendedCoins ;;
    if (maxin <=? (Kernels3.CoinSet_Num L l_len t22_))%Z then
      Ok (Go.Brk extendedCoins)
    else
    do t23_ <- Go.idx possibleCoins n ;;
    if ((c_valueage t23_) =? 0%Z)%Z then
      Ok (Go.Next extendedCoins)
    else
    do t24_ <- Go3.deref extendedCoins ;;
    do t25_ <- Go.idx possibleCoins n ;;
    let t26_ := gPushCoin t24_ t25_ in
    let extendedCoins := (Some t26_) in
    do t27_ <- Go3.deref extendedCoins ;;
    do t28_ <- Go3.deref extendedCoins ;;
    do t29_ <- Go.quotZ (Kernels3.CoinSet_TotalValueAge L t27_) (Kernels3.CoinSet_Num L l_len t28_) ;;
    do t31_ <- (if ((Go.wrapZ 64 t29_) <? minavg)%Z then Ok true else (do t30_ <- Go3.deref extendedCoins ;; Ok (negb (Kernels3.satisfiesTargetValue targetValue mc (Kernels3.CoinSet_TotalValue L t30_))))) ;;
    if t31_ then
      do t32_ <- Go3.deref extendedCoins ;;
      do (t33_, t34_) <- gPopCoin t32_ ;;
      let extendedCoins := (Some t34_) in
      Ok (Go.Next extendedCoins)
    else
    Ok (Go.Next extendedCoins)
  ) idxs extendedCoins.

Definition g_outer_body (possibleCoins : list C) (cutoffIndex : Z) : unit -> Z -> res (Go.ctl unit (Coins * N)) :=
  fun (_ : unit) i_2 =>
    do possibleHighCoins <- Go.slice possibleCoins cutoffIndex (i_2 + 1%Z)%Z ;;
    do (t4_, t5_) <- gMinNumber srt_rev_amt fuel (Kernels3.mk_coinset_MinNumberCoinSelector maxin mc) targetValue possibleHighCoins ;;
    let highSelect := t4_ in
    let err := t5_ in
    if (negb (err =? 0)) then
      let numLow := 1%Z in
      do t20_ <- g_topup fuel possibleCoins cutoffIndex i_2 numLow ;;
      match t20_ with
      | Go.Ret r_ => Ok (Go.Ret r_)
      | Go.Next numLow | Go.Brk numLow =>
          Ok (Go.Next tt)
      end
    else
      do t21_ <- coins_of fuel highSelect ;;
      let extendedCoins := (gNewCoinSet t21_) in
      do t35_ <- g_extend possibleCoins (Go.zseq 0%Z (Z.to_nat cutoffIndex)) extendedCoins ;;
      match t35_ with
      | Go.Ret r_ => Ok (Go.Ret r_)
      | Go.Next extendedCoins | Go.Brk extendedCoins =>
          Ok (Go.Ret ((Kernels3.coinset_Coins_CoinSet L extendedCoins), 0))
      end.

Definition g_level (coins : list C) : res (Coins * N) :=
  let possibleCoins := (@nil C) in
  let possibleCoins := (possibleCoins ++ coins) in
  let possibleCoins := (srt_va possibleCoins) in
  let cutoffIndex := (-1)%Z in
  do t2_ <- g_cutoff possibleCoins (Go.zseq 0%Z (Z.to_nat (Z.of_nat (List.length possibleCoins)))) cutoffIndex ;;
  match t2_ with
  | Go.Ret r_ => Ok r_
  | Go.Next cutoffIndex | Go.Brk cutoffIndex =>
      if (cutoffIndex <? 0%Z)%Z then
        Ok ((Kernels3.coinset_Coins_nil L), Kernels3.coinset_ErrCoinsNoSelectionAvailable)
      else
      do t36_ <-
        Go.foldC (R := (Coins * N)) (g_outer_body possibleCoins cutoffIndex)
          (Go.zseq cutoffIndex (Z.to_nat ((Z.of_nat (List.length possibleCoins)) - cutoffIndex)%Z)) tt ;;
      match t36_ with
      | Go.Ret r_ => Ok r_
      | Go.Next _ | Go.Brk _ =>
          Ok ((Kernels3.coinset_Coins_nil L), Kernels3.coinset_ErrCoinsNoSelectionAvailable)
      end
  end.
End Mirror.

Definition gMinPrio (srt_rev_amt srt_va : list C -> list C) :=
  Kernels3.MinPriorityCoinSelector_CoinSelect L C E l_push c_value c_valueage e_value l_remove l_back e_isnil c_nil
    l_front l_len e_next l_new srt_rev_amt srt_va.

(* one unfolding of the generated Fixpoint is the mirror *)
Lemma gMinPrio_S srt_rev_amt srt_va (f : nat) (maxin mc minavg target : Z) (coins : list C) :
  gMinPrio srt_rev_amt srt_va (S f) (Kernels3.mk_coinset_MinPriorityCoinSelector maxin mc minavg) target coins
  = g_level srt_rev_amt srt_va (gMinPrio srt_rev_amt srt_va f) f maxin mc minavg target coins.
Proof. reflexivity. Qed.

Lemma gMinPrio_O srt_rev_amt srt_va s target coins : gMinPrio srt_rev_amt srt_va O s target coins = Panic 9.
Proof. reflexivity. Qed.

(* ================= Part 2: the loops ================= *)
Local Open Scope Z_scope.

Lemma w64_range z : -9223372036854775808 <= w64 z < 9223372036854775808.
Proof. unfold w64. lia. Qed.

Lemma quot_between a b : 0 < b -> (0 <= a -> 0 <= Z.quot a b <= a) /\ (a <= 0 -> a <= Z.quot a b <= 0).
Proof.
  intros Hb. split; intros Ha.
  - rewrite Z.quot_div_nonneg by lia. pose proof (Z.mul_div_le a b Hb). pose proof (Z.div_pos a b Ha Hb). nia.
  - replace a with (- (- a)) at 2 by lia. rewrite Z.quot_opp_l by lia. rewrite Z.quot_div_nonneg by lia.
    pose proof (Z.mul_div_le (- a) b Hb). pose proof (Z.div_pos (- a) b ltac:(lia) Hb). nia.
Qed.

(* an int64 divided by a positive int stays an int64 *)
Lemma wrap_quot a b : 1 <= b -> Go.wrapZ 64 (Z.quot (w64 a) b) = Z.quot (w64 a) b.
Proof.
  intros Hb. rewrite wrapZ64_w64. apply w64_id.
  pose proof (w64_range a) as Hr. destruct (quot_between (w64 a) b ltac:(lia)) as [Hp Hn].
  destruct (Z.le_gt_cases 0 (w64 a)) as [H0|H0]; [specialize (Hp H0)|specialize (Hn ltac:(lia))]; lia.
Qed.

(* ---------- the cut-off loop ---------- *)
Lemma cutoff_tie (minavg : Z) : forall (suf pre : list coin) (acc : Z),
  g_cutoff minavg (map Some (pre ++ suf)) (Go.zseq (Z.of_nat (length pre)) (length suf)) acc
  = Ok (Go.Next (match find_cutoff w64 minavg suf (length pre) with Some c => Z.of_nat c | None => acc end)).
Proof.
  induction suf as [|x suf IH]; intros pre acc; [reflexivity|].
  unfold g_cutoff. cbn [length Go.zseq Go.foldC find_cutoff]. rewrite idx_map_some. cbn [rbind c_valueage].
  rewrite Z.geb_leb. destruct (minavg <=? va w64 x); [reflexivity|].
  specialize (IH (pre ++ [x]) acc). rewrite <- app_assoc, app_length in IH. cbn [app length] in IH.
  replace (Z.of_nat (length pre + 1)) with (Z.of_nat (length pre) + 1) in IH by lia.
  replace (length pre + 1)%nat with (S (length pre)) in IH by lia. exact IH.
Qed.

Lemma find_cutoff_lt w minavg : forall pc i c, find_cutoff w minavg pc i = Some c -> (i <= c < i + length pc)%nat.
Proof.
  induction pc as [|y t IH]; intros i c H; cbn [find_cutoff] in H; [discriminate|].
  destruct (va w y >=? minavg).
  - injection H as <-. cbn [length]. lia.
  - apply IH in H. cbn [length]. lia.
Qed.

(* ---------- the extension loop over possibleCoins[0:cutoff] ---------- *)
Lemma cs_num_push c s : cs_num (push w64 c s) = cs_num s + 1.
Proof. unfold cs_num, push. cbn [cs_list]. rewrite app_length. cbn [length]. lia. Qed.

Lemma extend_tie (maxin mc minavg target : Z) (pc : list coin) : forall (lows pre rest : list coin) (s : coinset),
  pc = pre ++ lows ++ rest ->
  g_extend maxin mc minavg target (map Some pc) (Go.zseq (Z.of_nat (length pre)) (length lows)) (Some (to_gen s))
  = Ok (Go.Next (Some (to_gen (extend w64 maxin mc minavg target lows s)))).
Proof.
  induction lows as [|x lows IH]; intros pre rest s Hpc; [reflexivity|].
  assert (Hidx : Go.idx (map Some pc) (Z.of_nat (length pre)) = Ok (Some x)).
  { rewrite Hpc. cbn [app]. apply idx_map_some. }
  assert (Hnext : forall s', g_extend maxin mc minavg target (map Some pc)
                    (Go.zseq (Z.of_nat (length pre) + 1) (length lows)) (Some (to_gen s'))
                  = Ok (Go.Next (Some (to_gen (extend w64 maxin mc minavg target lows s'))))).
  { intros s'. specialize (IH (pre ++ [x]) rest s'). rewrite app_length in IH. cbn [length] in IH.
    replace (Z.of_nat (length pre + 1)) with (Z.of_nat (length pre) + 1) in IH by lia.
    apply IH. rewrite Hpc, <- app_assoc. reflexivity. }
  unfold g_extend in *. cbn [length Go.zseq Go.foldC extend]. cbn [Go3.deref rbind].
  change (Kernels3.CoinSet_Num L l_len (to_gen s)) with (cs_num s).
  rewrite Z.geb_leb. destruct (maxin <=? cs_num s) eqn:Hmax; [reflexivity|].
  rewrite Hidx. cbn [rbind c_valueage]. rewrite lit_skip_va_eq.
  destruct (va w64 x =? 0) eqn:Hva; [apply Hnext|].
  change (gPushCoin (to_gen s) (Some x)) with (to_gen (push w64 x s)).
  cbn [Go3.deref rbind].
  change (Kernels3.CoinSet_Num L l_len (to_gen (push w64 x s))) with (cs_num (push w64 x s)).
  change (Kernels3.CoinSet_TotalValueAge L (to_gen (push w64 x s))) with (cs_tva (push w64 x s)).
  change (Kernels3.CoinSet_TotalValue L (to_gen (push w64 x s))) with (cs_tv (push w64 x s)).
  assert (Hnum : 1 <= cs_num (push w64 x s)) by (rewrite cs_num_push; unfold cs_num; lia).
  unfold Go.quotZ. destruct (Z.eqb_spec (cs_num (push w64 x s)) 0) as [E0|_]; [lia|]. cbn [rbind].
  assert (Htva : cs_tva (push w64 x s) = w64 (cs_tva s + va w64 x)) by reflexivity.
  rewrite Htva at 1. rewrite wrap_quot by exact Hnum. rewrite <- Htva.
  rewrite satisfiesTargetValue_tie.
  destruct (Z.quot (cs_tva (push w64 x s)) (cs_num (push w64 x s)) <? minavg); cbn [orb rbind Go3.deref].
  - rewrite PopCoin_tie. destruct (pop w64 (push w64 x s)) as [o s'']. cbn [rbind snd]. apply Hnext.
  - destruct (satisfies w64 target mc (cs_tv (push w64 x s))); cbn [negb].
    + apply Hnext.
    + rewrite PopCoin_tie. destruct (pop w64 (push w64 x s)) as [o s'']. cbn [rbind snd]. apply Hnext.
Qed.

(* ---------- the top-up loop (numLow) ---------- *)
Lemma slice_mid (a b c : list coin) :
  Go.slice (map Some (a ++ b ++ c)) (Z.of_nat (length a)) (Z.of_nat (length a + length b)) = Ok (map Some b).
Proof.
  rewrite slice_nat by (rewrite ?map_length, ?app_length; lia). f_equal.
  rewrite !map_app.
  rewrite skipn_app, skipn_all2 by (rewrite map_length; lia). rewrite map_length, Nat.sub_diag. cbn [skipn app].
  replace (length a + length b - length a)%nat with (length (map (@Some coin) b)) by (rewrite map_length; lia).
  rewrite firstn_app, Nat.sub_diag, firstn_all. cbn [firstn]. apply app_nil_r.
Qed.

Lemma slice_low (a b : list coin) :
  Go.slice (map Some (a ++ b)) 0 (Z.of_nat (length a)) = Ok (map Some a).
Proof.
  rewrite slice_prefix by (rewrite map_length, app_length; lia). f_equal.
  rewrite map_app. replace (length a) with (length (map (@Some coin) a)) by apply map_length.
  rewrite firstn_app, Nat.sub_diag, firstn_all. cbn [firstn]. apply app_nil_r.
Qed.

Lemma foldM_push (l : list coin) : forall s,
  Go.foldM (fun (allHigh : option GS) (coin : option coin) =>
      do t18_ <- Go3.deref allHigh ;;
      let t19_ := gPushCoin t18_ coin in
      let allHigh := (Some t19_) in
      Ok allHigh) (map Some l) (Some (to_gen s))
  = Ok (Some (to_gen (fold_left (fun s c => push w64 c s) l s))).
Proof.
  induction l as [|c l IH]; intros s; [reflexivity|].
  cbn [map Go.foldM Go3.deref rbind fold_left].
  change (gPushCoin (to_gen s) (Some c)) with (to_gen (push w64 c s)). apply IH.
Qed.

Section TopUp.
Variable rec_g : Kernels3.coinset_MinPriorityCoinSelector -> Z -> list C -> res (Coins * N).
Variable rec : recsel.
Variable fuel : nat.
Variables maxin mc minavg target : Z.
Variables low hi rest : list coin.
Variables cutoff i_2 : Z.
Hypothesis Hcut : cutoff = Z.of_nat (length low).
Hypothesis Hi2 : i_2 + 1 = Z.of_nat (length low + length hi).
Hypothesis Hrec : forall mx av tg,
  rec_g (Kernels3.mk_coinset_MinPriorityCoinSelector mx mc av) tg (map Some low) = sel_view (snd (rec mx mc av tg low)).
Hypothesis Hreclen : forall mx av tg s, snd (rec mx mc av tg low) = Ok s -> (length (cs_list s) <= fuel)%nat.

Lemma topup_body_tie (numlow : Z) : 1 <= numlow ->
  g_topup_body rec_g fuel mc minavg target (map Some (low ++ hi ++ rest)) cutoff i_2 numlow =
  let allhigh := new_coinset w64 hi in
  let newtarget := w64 (target - cs_tv allhigh) in
  let newmax := if cs_num allhigh + numlow >? numlow then numlow else cs_num allhigh + numlow in
  let newavg := new_minavg w64 minavg allhigh numlow in
  match rec newmax mc newavg newtarget low with
  | (_, Ok lowsel) =>
      Ok (Go.Ret (Kernels3.coinset_Coins_CoinSet L
                    (Some (to_gen (fold_left (fun s c => push w64 c s) (cs_list lowsel) allhigh))), 0%N))
  | (_, Panic p) => Panic p
  | (_, Err _) => Ok (Go.Next (numlow + 1))
  end.
Proof using Hcut Hi2 Hrec Hreclen.
  clear maxin.
  intros Hnl. unfold g_topup_body.
  rewrite Hi2, Hcut, slice_mid. cbn [rbind]. rewrite NewCoinSet_tie. cbn [Go3.deref rbind].
  set (allhigh := new_coinset w64 hi).
  change (Kernels3.CoinSet_TotalValue L (to_gen allhigh)) with (cs_tv allhigh).
  change (Kernels3.CoinSet_TotalValueAge L (to_gen allhigh)) with (cs_tva allhigh).
  change (Kernels3.CoinSet_Num L l_len (to_gen allhigh)) with (cs_num allhigh).
  change (Go.wrapZ 64) with w64.
  set (need := w64 (w64 (minavg * (cs_num allhigh + numlow)) - cs_tva allhigh)).
  unfold Go.quotZ, Go.remZ. destruct (Z.eqb_spec numlow 0) as [E0|_]; [lia|]. cbn [rbind].
  assert (Hq : w64 (Z.quot need numlow) = Z.quot need numlow).
  { rewrite <- wrapZ64_w64. unfold need. apply wrap_quot, Hnl. }
  rewrite Hq.
  assert (Ht13 : (if 0 <? need then Ok (negb (Z.rem need numlow =? 0)) else Ok false)
                 = Ok ((need >? 0) && negb (Z.rem need numlow =? 0))).
  { rewrite Z.gtb_ltb. destruct (0 <? need); reflexivity. }
  rewrite Ht13. cbn [rbind].
  rewrite (slice_low low (hi ++ rest)). cbn [rbind].
  assert (Havg : (if (need >? 0) && negb (Z.rem need numlow =? 0) then w64 (Z.quot need numlow + 1) else Z.quot need numlow)
                 = new_minavg w64 minavg allhigh numlow).
  { unfold new_minavg. rewrite lit_need_pos_eq, lit_rem_zero_eq. reflexivity. }
  rewrite Havg.
  assert (Hmax : (if numlow <? cs_num allhigh + numlow then numlow else cs_num allhigh + numlow)
                 = (if cs_num allhigh + numlow >? numlow then numlow else cs_num allhigh + numlow)).
  { rewrite Z.gtb_ltb. reflexivity. }
  rewrite Hmax. cbv zeta. rewrite Hrec.
  pose proof (Hreclen (if cs_num allhigh + numlow >? numlow then numlow else cs_num allhigh + numlow)
                (new_minavg w64 minavg allhigh numlow) (w64 (target - cs_tv allhigh))) as Hlen.
  destruct (rec _ mc _ _ low) as [br [lowsel|e|p]]; cbn [snd sel_view rbind] in *.
  - cbn [N.eqb negb coins_of]. rewrite Coins_tie by (apply Hlen; reflexivity). cbn [rbind].
    rewrite foldM_push. reflexivity.
  - reflexivity.
  - reflexivity.
Qed.
Lemma topup_tie : forall (k wf : nat) (numlow : Z),
  1 <= numlow -> numlow + Z.of_nat k = cutoff + 1 -> (k <= wf)%nat ->
  let W := g_topup rec_g fuel maxin mc minavg target wf (map Some (low ++ hi ++ rest)) cutoff i_2 numlow in
  match topup w64 rec maxin mc minavg target cutoff low hi k numlow with
  | Some (_, Ok s) => W = Ok (Go.Ret (Kernels3.coinset_Coins_CoinSet L (Some (to_gen s)), 0%N))
  | Some (_, Panic p) => W = Panic p
  | Some (_, Err _) => False
  | None => exists st, W = Ok (Go.Next st)
  end.
Proof using Hcut Hi2 Hrec Hreclen.
  induction k as [|k IH]; intros wf numlow Hnl Hk Hwf; cbv zeta.
  - cbn [topup]. exists numlow. unfold g_topup.
    assert (Hc : (numlow <=? cutoff) = false) by lia.
    destruct wf; cbn [Go.whileC]; rewrite Hc; reflexivity.
  - cbn [topup]. rewrite lit_topup_slack_eq. unfold g_topup.
    replace (i_2 - cutoff) with (Z.of_nat (length hi) - 1) by lia.
    destruct wf as [|wf]; [lia|]. cbn [Go.whileC].
    destruct ((numlow <=? cutoff) && (numlow + (Z.of_nat (length hi) - 1) + 1 <=? maxin)) eqn:Hc.
    + destruct (Z.eqb_spec numlow 0) as [E0|_]; [lia|].
      rewrite (topup_body_tie numlow Hnl). cbv zeta.
      destruct (rec _ mc _ _ low) as [br [lowsel|e|p]].
      * reflexivity.
      * specialize (IH wf (numlow + 1) ltac:(lia) ltac:(lia) ltac:(lia)). cbv zeta in IH. unfold g_topup in IH.
        replace (i_2 - cutoff) with (Z.of_nat (length hi) - 1) in IH by lia. exact IH.
      * reflexivity.
    + eexists. reflexivity.
Qed.
End TopUp.

(* ---------- model side: the selectors do not panic, and select at most as many coins as offered ---------- *)
Lemma mi_loop_len w maxin mc target : forall coins n s,
  match mi_loop w maxin mc target n coins s with
  | Ok s' => (length (cs_list s') <= length (cs_list s) + length coins)%nat
  | Err _ => True
  | Panic _ => False
  end.
Proof.
  induction coins as [|c t IH]; intros n s; cbn [mi_loop]; [exact I|].
  destruct (n <? maxin); [|exact I].
  destruct (satisfies w target mc (cs_tv (push w c s))).
  - cbn [push cs_list length]. rewrite app_length. cbn [length]. lia.
  - specialize (IH (n + 1) (push w c s)). destruct (mi_loop w maxin mc target (n + 1) t (push w c s)); auto.
    cbn [push cs_list] in IH. rewrite app_length in IH. cbn [length] in *. lia.
Qed.

Lemma min_number_len w sort_by maxin mc target coins :
  (forall less l, length (sort_by less l) = length l) ->
  match min_number w sort_by maxin mc target coins with
  | Ok s' => (length (cs_list s') <= length coins)%nat
  | Err _ => True
  | Panic _ => False
  end.
Proof.
  intros Hlen. unfold min_number, min_index.
  pose proof (mi_loop_len w maxin mc target (sort_by (reverse less_amt) coins) lit_mi_start (cs_empty)) as H.
  destruct (mi_loop _ _ _ _ _ _ _); auto. rewrite Hlen in H. exact H.
Qed.

Lemma pop_push_list w x s : cs_list (snd (pop w (push w x s))) = cs_list s.
Proof.
  unfold pop. cbn [push cs_list]. rewrite rev_app_distr. cbn [rev app snd removed cs_list]. apply rev_involutive.
Qed.

Lemma extend_len w maxin mc minavg target : forall lows s,
  (length (cs_list (extend w maxin mc minavg target lows s)) <= length (cs_list s) + length lows)%nat.
Proof.
  induction lows as [|x t IH]; intros s; cbn [extend length]; [lia|].
  destruct (cs_num s >=? maxin); [lia|].
  destruct (va w x =? lit_skip_va); [specialize (IH s); lia|].
  destruct (_ || _).
  - specialize (IH (snd (pop w (push w x s)))). rewrite pop_push_list in IH. lia.
  - specialize (IH (push w x s)). cbn [push cs_list] in IH. rewrite app_length in IH. cbn [length] in IH. lia.
Qed.

Lemma fold_push_list' w l : forall s, cs_list (fold_left (fun s c => push w c s) l s) = cs_list s ++ l.
Proof.
  induction l as [|c l IH]; intros s; cbn [fold_left]; [now rewrite app_nil_r|].
  rewrite IH. cbn [push cs_list]. now rewrite <- app_assoc.
Qed.

Lemma new_coinset_list' w l : cs_list (new_coinset w l) = l.
Proof. unfold new_coinset. now rewrite fold_push_list'. Qed.

Lemma topup_len w (rec : recsel) maxin mc minavg target cutoff low hi :
  (forall mx mc' av tg s, snd (rec mx mc' av tg low) = Ok s -> (length (cs_list s) <= length low)%nat) ->
  forall k numlow br s, topup w rec maxin mc minavg target cutoff low hi k numlow = Some (br, Ok s) ->
  (length (cs_list s) <= length hi + length low)%nat.
Proof.
  intros Hrec. induction k as [|k IH]; intros numlow br s H; cbn [topup] in H; [discriminate|].
  destruct (_ && _); [|discriminate].
  destruct (numlow =? 0); [discriminate|]. cbv zeta in H.
  match type of H with context [rec ?a ?b ?c ?d low] => pose proof (Hrec a b c d) as Hr; destruct (rec a b c d low) as [br' [ls|e|p]] end.
  - injection H as _ <-. rewrite fold_push_list', new_coinset_list', app_length.
    specialize (Hr ls eq_refl). lia.
  - eapply IH, H.
  - discriminate.
Qed.

Lemma outer_len w sort_by (rec : recsel) maxin mc minavg target cutoff low :
  (forall less l, length (sort_by less l) = length l) ->
  (forall mx mc' av tg s, snd (rec mx mc' av tg low) = Ok s -> (length (cs_list s) <= length low)%nat) ->
  forall rest hi_acc s, snd (outer w sort_by rec maxin mc minavg target cutoff low hi_acc rest) = Ok s ->
  (length (cs_list s) <= length low + length hi_acc + length rest)%nat.
Proof.
  intros Hlen Hrec. induction rest as [|x rest IH]; intros hi_acc s H; cbn [outer] in H; [discriminate|].
  cbv zeta in H.
  pose proof (min_number_len w sort_by maxin mc target (hi_acc ++ [x]) Hlen) as Hmn.
  destruct (min_number w sort_by maxin mc target (hi_acc ++ [x])) as [hs|e|p].
  - cbn [snd] in H. injection H as <-.
    pose proof (extend_len w maxin mc minavg target low (new_coinset w (cs_list hs))) as He.
    rewrite new_coinset_list' in He. rewrite app_length in Hmn. cbn [length] in *. lia.
  - destruct (topup w rec maxin mc minavg target cutoff low (hi_acc ++ [x]) (Z.to_nat cutoff) lit_numlow_start)
      as [[br r]|] eqn:Et.
    + cbn [snd] in H. subst r. apply topup_len in Et; [|exact Hrec]. rewrite app_length in Et. cbn [length] in *. lia.
    + apply IH in H. rewrite app_length in H. cbn [length] in *. lia.
  - contradiction.
Qed.

Lemma firstn_skipn_len {A} (c : nat) (l : list A) : (c <= length l)%nat ->
  length (firstn c l) = c /\ length (skipn c l) = (length l - c)%nat.
Proof. intros H. rewrite firstn_length, skipn_length. lia. Qed.

Lemma min_priority_len sort_by :
  (forall less l, length (sort_by less l) = length l) ->
  forall m maxin mc minavg target coins s,
  snd (min_priority w64 sort_by m maxin mc minavg target coins) = Ok s -> (length (cs_list s) <= length coins)%nat.
Proof.
  intros Hlen. induction m as [|m IH]; intros maxin mc minavg target coins s H; cbn [min_priority] in H; [discriminate|].
  cbv zeta in H.
  destruct (find_cutoff w64 minavg (sort_by (less_va w64) coins) 0) as [c|] eqn:Ec; [|discriminate].
  apply find_cutoff_lt in Ec. rewrite Hlen in Ec.
  apply outer_len in H; [|exact Hlen|].
  - destruct (firstn_skipn_len c (sort_by (less_va w64) coins)) as [H1 H2]; [rewrite Hlen; lia|].
    rewrite H1, H2, Hlen in H. cbn [length] in H. lia.
  - intros mx mc' av tg s' Hs'. apply IH in Hs'. exact Hs'.
Qed.

(* ---------- the outer loop (i from cutoff) ---------- *)
Section Outer.
Variable sort_by : (coin -> coin -> bool) -> list coin -> list coin.
Variables srt_rev_amt : list C -> list C.
Hypothesis Hlen : forall less l, length (sort_by less l) = length l.
Hypothesis Hrev_amt : forall l, srt_rev_amt (map Some l) = map Some (sort_by (reverse less_amt) l).
Variable rec_g : Kernels3.coinset_MinPriorityCoinSelector -> Z -> list C -> res (Coins * N).
Variable rec : recsel.
Variable fuel : nat.
Variables maxin mc minavg target : Z.
Variables low pc : list coin.
Variable cutoff : Z.
Hypothesis Hcut : cutoff = Z.of_nat (length low).
Hypothesis Hrec : forall mx av tg,
  rec_g (Kernels3.mk_coinset_MinPriorityCoinSelector mx mc av) tg (map Some low) = sel_view (snd (rec mx mc av tg low)).
Hypothesis Hreclen : forall mx av tg s, snd (rec mx mc av tg low) = Ok s -> (length (cs_list s) <= fuel)%nat.
Hypothesis Hfuel_low : (length low <= fuel)%nat.

Lemma outer_tie : forall (rest hi_acc : list coin),
  pc = low ++ hi_acc ++ rest -> (length hi_acc + length rest <= fuel)%nat ->
  Go.foldC (g_outer_body srt_rev_amt rec_g fuel maxin mc minavg target (map Some pc) cutoff)
    (Go.zseq (Z.of_nat (length low + length hi_acc)) (length rest)) tt
  = match snd (outer w64 sort_by rec maxin mc minavg target cutoff low hi_acc rest) with
    | Ok s => Ok (Go.Ret (Kernels3.coinset_Coins_CoinSet L (Some (to_gen s)), 0%N))
    | Err _ => Ok (Go.Next tt)
    | Panic p => Panic p
    end.
Proof using Hlen Hrev_amt Hcut Hrec Hreclen Hfuel_low.
  induction rest as [|x rest IH]; intros hi_acc Hpc Hf; [reflexivity|].
  cbn [length Go.zseq Go.foldC outer]. cbv zeta.
  set (hi := hi_acc ++ [x]).
  assert (Hpc' : pc = low ++ hi ++ rest) by (unfold hi; rewrite Hpc, <- app_assoc; reflexivity).
  assert (Hlhi : length hi = S (length hi_acc)) by (unfold hi; rewrite app_length; cbn [length]; lia).
  assert (Hi2 : Z.of_nat (length low + length hi_acc) + 1 = Z.of_nat (length low + length hi)) by lia.
  cbn [length] in Hf.
  (* the rest of the loop, by the induction hypothesis *)
  assert (Hnext : Go.foldC (g_outer_body srt_rev_amt rec_g fuel maxin mc minavg target (map Some pc) cutoff)
                    (Go.zseq (Z.of_nat (length low + length hi_acc) + 1) (length rest)) tt
                  = match snd (outer w64 sort_by rec maxin mc minavg target cutoff low hi rest) with
                    | Ok s => Ok (Go.Ret (Kernels3.coinset_Coins_CoinSet L (Some (to_gen s)), 0%N))
                    | Err _ => Ok (Go.Next tt)
                    | Panic p => Panic p
                    end).
  { rewrite Hi2. apply IH; [exact Hpc'|lia]. }
  assert (Hsl : Go.slice (map Some pc) cutoff (Z.of_nat (length low + length hi_acc) + 1) = Ok (map Some hi))
    by (rewrite Hi2, Hcut, Hpc'; apply slice_mid).
  unfold g_outer_body at 1. rewrite Hsl. cbn [rbind].
  rewrite (MinNumber_tie sort_by srt_rev_amt Hlen Hrev_amt) by lia.
  pose proof (min_number_len w64 sort_by maxin mc target hi Hlen) as Hmn.
  destruct (min_number w64 sort_by maxin mc target hi) as [hs|e|p]; cbn [sel_view rbind].
  - (* MinNumber succeeded: extension loop *)
    cbn [N.eqb negb coins_of]. rewrite Coins_tie by lia. cbn [rbind]. rewrite NewCoinSet_tie.
    replace (Z.to_nat cutoff) with (length low) by lia.
    pose proof (extend_tie maxin mc minavg target pc low [] (hi ++ rest) (new_coinset w64 (cs_list hs)) Hpc') as He.
    cbn [length] in He. change (Z.of_nat 0) with 0 in He. rewrite He. reflexivity.
  - (* MinNumber failed: top-up loop *)
    change (negb (Kernels3.coinset_ErrCoinsNoSelectionAvailable =? 0)%N) with true. cbv iota.
    rewrite lit_numlow_start_eq.
    pose proof (topup_tie rec_g rec fuel maxin mc minavg target low hi rest cutoff
                  (Z.of_nat (length low + length hi_acc)) Hcut Hi2
                  Hrec Hreclen
                  (Z.to_nat cutoff) fuel 1 ltac:(lia) ltac:(lia) ltac:(lia)) as Ht.
    cbv zeta in Ht. rewrite <- Hpc' in Ht.
    destruct (topup w64 rec maxin mc minavg target cutoff low hi (Z.to_nat cutoff) 1) as [[br [s|e'|p]]|].
    + rewrite Ht. reflexivity.
    + contradiction.
    + rewrite Ht. reflexivity.
    + destruct Ht as [st Ht]. rewrite Ht. cbn [rbind]. exact Hnext.
  - contradiction.
Qed.
End Outer.

(* ================= Part 3: the theorem ================= *)
Section MinPriority.
Variable sort_by : (coin -> coin -> bool) -> list coin -> list coin.
Variables srt_rev_amt srt_va : list C -> list C.
(* sort.Sort keeps the length; sort.Sort(sort.Reverse(byAmount(x))) and sort.Sort(byValueAge(x)) are the
   model's sorts for the corresponding Less *)
Hypothesis Hlen : forall less l, length (sort_by less l) = length l.
Hypothesis Hrev_amt : forall l, srt_rev_amt (map Some l) = map Some (sort_by (reverse less_amt) l).
Hypothesis Hva : forall l, srt_va (map Some l) = map Some (sort_by (less_va w64) l).

(* any generated fuel f > len(coins) against any model fuel m > len(coins) *)
Lemma MinPriority_fuel : forall (m f : nat) (maxin mc minavg target : Z) (coins : list coin),
  (length coins < m)%nat -> (length coins < f)%nat ->
  gMinPrio srt_rev_amt srt_va f (Kernels3.mk_coinset_MinPriorityCoinSelector maxin mc minavg) target (map Some coins)
  = sel_view (snd (min_priority w64 sort_by m maxin mc minavg target coins)).
Proof using Hlen Hrev_amt Hva.
  induction m as [|m IH]; intros f maxin mc minavg target coins Hm Hf; [lia|].
  destruct f as [|f]; [lia|].
  rewrite gMinPrio_S. unfold g_level. cbn [app min_priority]. cbv zeta. rewrite Hva.
  set (pc := sort_by (less_va w64) coins).
  assert (Hpcl : length pc = length coins) by apply Hlen.
  rewrite map_length, Nat2Z.id.
  pose proof (cutoff_tie minavg pc [] (-1)) as Hc. cbn [app length] in Hc. change (Z.of_nat 0) with 0 in Hc.
  rewrite Hc. cbn [rbind]. clear Hc.
  destruct (find_cutoff w64 minavg pc 0) as [c|] eqn:Ec; [|reflexivity].
  apply find_cutoff_lt in Ec. cbn [Nat.add] in Ec.
  destruct (Z.ltb_spec (Z.of_nat c) 0) as [Hneg|_]; [lia|].
  destruct (firstn_skipn_len c pc ltac:(lia)) as [Hl1 Hl2].
  set (low := firstn c pc) in *. set (rest := skipn c pc) in *.
  assert (Hpc : pc = low ++ [] ++ rest) by (symmetry; apply firstn_skipn).
  replace (Go.zseq (Z.of_nat c) (Z.to_nat (Z.of_nat (length pc) - Z.of_nat c)))
    with (Go.zseq (Z.of_nat (length low + length (@nil coin))) (length rest))
    by (cbn [length]; rewrite Hl1, Hl2, Nat.add_0_r; f_equal; lia).
  rewrite (outer_tie sort_by srt_rev_amt Hlen Hrev_amt (gMinPrio srt_rev_amt srt_va f) (min_priority w64 sort_by m) f
             maxin mc minavg target low pc (Z.of_nat c)).
  - destruct (snd (outer w64 sort_by (min_priority w64 sort_by m) maxin mc minavg target (Z.of_nat c) low [] rest));
      reflexivity.
  - lia.
  - intros mx av tg. apply IH; lia.
  - intros mx av tg s Hs. apply (min_priority_len sort_by Hlen) in Hs. lia.
  - lia.
  - exact Hpc.
  - cbn [length]. lia.
Qed.

(* fuel: one unit per level of recursion (each level recurses on possibleCoins[0:cutoff], strictly shorter) which
   also bounds every `for cond` loop of the level (numLow <= cutoff; the MinIndex scan and Coins() walk at most
   len(coins) elements): len(coins) + 1 suffices *)
Theorem MinPriority_tie (fuel : nat) (maxin mc minavg target : Z) (coins : list coin) :
  (length coins < fuel)%nat ->
  gMinPrio srt_rev_amt srt_va fuel (Kernels3.mk_coinset_MinPriorityCoinSelector maxin mc minavg) target (map Some coins)
  = sel_view (snd (min_priority_sel w64 sort_by maxin mc minavg target coins)).
Proof using Hlen Hrev_amt Hva.
  intros Hf. unfold min_priority_sel. apply MinPriority_fuel; lia.
Qed.

(* without fuel the generated function reports Panic 9, at every level *)
Theorem MinPriority_no_fuel s target coins : gMinPrio srt_rev_amt srt_va O s target coins = Panic 9.
Proof using. reflexivity. Qed.
End MinPriority.
Print Assumptions MinPriority_tie.
Print Assumptions MinPriority_no_fuel.

(* ================= corollary: with that fuel the generated function does not panic ================= *)
Definition np (r : branch * res coinset) : Prop := match snd r with Panic _ => False | _ => True end.

Lemma topup_np w rec maxin mc minavg target cutoff low hi :
  (forall a b c d, np (rec a b c d low)) ->
  forall k numlow r, 1 <= numlow -> topup w rec maxin mc minavg target cutoff low hi k numlow = Some r -> np r.
Proof.
  intros Hrec. induction k as [|k IH]; intros numlow r Hnl H; cbn [topup] in H; [discriminate|].
  destruct ((numlow <=? cutoff) && _); [|discriminate].
  destruct (Z.eqb_spec numlow 0) as [Hz|_]; [lia|]. cbv zeta in H.
  match type of H with context [rec ?a ?b ?c ?d low] => specialize (Hrec a b c d); destruct (rec a b c d low) as [br rr] end.
  destruct rr as [ls|e|p]; cbn in Hrec.
  - injection H as <-. exact I.
  - apply (IH (numlow + 1)); [lia|exact H].
  - destruct Hrec.
Qed.

Lemma outer_np w sort_by rec maxin mc minavg target cutoff low :
  (forall a b c d, np (rec a b c d low)) ->
  forall rest hi_acc, np (outer w sort_by rec maxin mc minavg target cutoff low hi_acc rest).
Proof.
  intros Hrec. induction rest as [|x rest IH]; intros hi_acc; cbn [outer]; [exact I|]. rewrite lit_numlow_start_eq.
  destruct (min_number w sort_by maxin mc target (hi_acc ++ [x])); [exact I| |];
    (destruct (topup w rec maxin mc minavg target cutoff low (hi_acc ++ [x]) (Z.to_nat cutoff) 1) as [r|] eqn:Et;
     [eapply (topup_np _ _ _ _ _ _ _ _ _ Hrec _ 1); [lia|eassumption]|apply IH]).
Qed.

Lemma min_priority_np sort_by : (forall less l, length (sort_by less l) = length l) ->
  forall fuel maxin mc minavg target coins,
  (length coins < fuel)%nat -> np (min_priority w64 sort_by fuel maxin mc minavg target coins).
Proof.
  intros Hlen. induction fuel as [|fuel IH]; intros maxin mc minavg target coins Hf; [lia|]. cbn [min_priority]. cbv zeta.
  destruct (find_cutoff w64 minavg (sort_by (less_va w64) coins) 0) as [c|] eqn:Ec; [|exact I].
  apply find_cutoff_lt in Ec. rewrite Hlen in Ec.
  apply outer_np. intros a b c' d. apply IH. rewrite firstn_length, Hlen. lia.
Qed.

Theorem MinPriority_no_panic sort_by srt_rev_amt srt_va :
  (forall less l, length (sort_by less l) = length l) ->
  (forall l, srt_rev_amt (map Some l) = map Some (sort_by (reverse less_amt) l)) ->
  (forall l, srt_va (map Some l) = map Some (sort_by (less_va w64) l)) ->
  forall fuel maxin mc minavg target coins, (length coins < fuel)%nat ->
  exists r, gMinPrio srt_rev_amt srt_va fuel (Kernels3.mk_coinset_MinPriorityCoinSelector maxin mc minavg) target
              (map Some coins) = Ok r.
Proof.
  intros Hlen Hra Hva fuel maxin mc minavg target coins Hf.
  rewrite (MinPriority_tie sort_by srt_rev_amt srt_va Hlen Hra Hva) by exact Hf.
  pose proof (min_priority_np sort_by Hlen (S (length coins)) maxin mc minavg target coins ltac:(lia)) as Hnp.
  unfold min_priority_sel, np in *.
  destruct (snd (min_priority w64 sort_by (S (length coins)) maxin mc minavg target coins)); cbn [sel_view];
    [eexists; reflexivity | eexists; reflexivity | contradiction].
Qed.
Print Assumptions MinPriority_no_panic.

(* ================= the hypotheses are satisfiable: the model's insertion sort on both sides ================= *)
Fixpoint unsome (l : list C) : list coin :=
  match l with [] => [] | Some x :: t => x :: unsome t | None :: t => unsome t end.
Lemma unsome_map l : unsome (map Some l) = l.
Proof. induction l as [|x l IH]; cbn [map unsome]; [reflexivity|now rewrite IH]. Qed.
(* a sort of the abstract Coin slices from a sort of the model's coin lists *)
Definition lift_sort (f : list coin -> list coin) (l : list C) : list C := map Some (f (unsome l)).
Lemma lift_sort_spec f l : lift_sort f (map Some l) = map Some (f l).
Proof. unfold lift_sort. now rewrite unsome_map. Qed.

Theorem MinPriority_tie_isort (fuel : nat) (maxin mc minavg target : Z) (coins : list coin) :
  (length coins < fuel)%nat ->
  gMinPrio (lift_sort (isort (reverse less_amt))) (lift_sort (isort (less_va w64))) fuel
    (Kernels3.mk_coinset_MinPriorityCoinSelector maxin mc minavg) target (map Some coins)
  = sel_view (snd (min_priority_sel w64 isort maxin mc minavg target coins)).
Proof.
  apply (MinPriority_tie isort).
  - intros less l. apply Permutation.Permutation_length, isort_perm.
  - intros l. apply lift_sort_spec.
  - intros l. apply lift_sort_spec.
Qed.
Print Assumptions MinPriority_tie_isort.

(* a run through the top-up branch with a recursive call (branch BrTopUp BrExtend of the model) *)
Definition ex_coins : list coin :=
  [mkCoin 0 2 0; mkCoin 1 3 1; mkCoin 2 5 3; mkCoin 3 4 3; mkCoin 4 2 1].
Example MinPriority_example :
  fst (min_priority_sel w64 isort 4 1 5 11 ex_coins) = BrTopUp BrExtend
  /\ gMinPrio (lift_sort (isort (reverse less_amt))) (lift_sort (isort (less_va w64))) 6
       (Kernels3.mk_coinset_MinPriorityCoinSelector 4 1 5) 11 (map Some ex_coins)
     = Ok (Kernels3.coinset_Coins_CoinSet L
             (Some (Kernels3.mk_coinset_CoinSet L [mkCoin 3 4 3; mkCoin 2 5 3; mkCoin 0 2 0] 11 27)), 0%N).
Proof. split; vm_compute; reflexivity. Qed.

(* Tie between the generated CoinSet bookkeeping (Gen/Kernels2.v: CoinSet_PushCoin, CoinSet_removeElement,
   CoinSet_PopCoin, CoinSet_ShiftCoin, translated from coinset/coins.go over ABSTRACT container/list and
   Coin objects) and the model CoinSet/CoinSet.v, for the instantiation of the abstract objects by the
   model's own representation:
     List_t    := list coin            (front first)
     Element_t := option (nat * coin)  (nil | the element at a position, with its value)
     Coin_t    := option coin          (nil | a coin)
   int64 arithmetic is the two's-complement wrap on both sides (Go.wrapZ 64 = CoinSet.w64). *)
From BU Require Import Lib.Bytes Gen.Kernels2 CoinSet.CoinSet Tie.Kernels2Lib.
From Coq Require Import ZifyBool ZifyN ZifyNat.
Open Scope Z_scope.

Lemma wrapZ64_w64 z : Go.wrapZ 64 z = CoinSet.w64 z.
Proof. reflexivity. Qed.

(* ---- the instantiation ---- *)
Definition L := list coin.
Definition E := option (nat * coin).
Definition C := option coin.

Definition l_push (l : L) (c : C) : E * L :=
  match c with Some x => (Some (length l, x), l ++ [x]) | None => (None, l) end.
Definition l_back (l : L) : E :=
  match rev l with [] => None | x :: _ => Some ((length l - 1)%nat, x) end.
Definition l_front (l : L) : E :=
  match l with [] => None | x :: _ => Some (O, x) end.
Definition l_remove (l : L) (e : E) : unit * L :=
  match e with Some (i, _) => (tt, firstn i l ++ skipn (S i) l) | None => (tt, l) end.
Definition e_isnil (e : E) : bool := match e with None => true | Some _ => false end.
Definition e_value (e : E) : res C := match e with Some (_, x) => Ok (Some x) | None => Panic 4 end.
Definition c_value (c : C) : Z := match c with Some x => cval x | None => 0 end.
Definition c_valueage (c : C) : Z := match c with Some x => va w64 x | None => 0 end.

Theorem PushCoin_tie (s : coinset) (c : coin) :
  Kernels2.CoinSet_PushCoin l_push c_value c_valueage (cs_list s) (cs_tv s) (cs_tva s) (Some c)
  = let s' := push w64 c s in (cs_list s', cs_tv s', cs_tva s').
Proof. reflexivity. Qed.
Print Assumptions PushCoin_tie.

Lemma remove_last (r : list coin) (c : coin) :
  firstn (length (rev r ++ [c]) - 1) (rev r ++ [c]) ++ skipn (S (length (rev r ++ [c]) - 1)) (rev r ++ [c]) = rev r.
Proof.
  rewrite app_length. cbn [length]. replace (length (rev r) + 1 - 1)%nat with (length (rev r)) by lia.
  rewrite firstn_app, Nat.sub_diag, firstn_all. cbn [firstn]. rewrite app_nil_r.
  rewrite skipn_all2 by (rewrite app_length; cbn [length]; lia). apply app_nil_r.
Qed.

Theorem PopCoin_tie (s : coinset) :
  Kernels2.CoinSet_PopCoin l_back e_isnil (None : C) e_value l_remove c_value c_valueage
    (cs_list s) (cs_tv s) (cs_tva s)
  = let '(o, s') := pop w64 s in Ok (o, cs_list s', cs_tv s', cs_tva s').
Proof.
  destruct s as [l tv tva]. unfold Kernels2.CoinSet_PopCoin, pop, l_back. cbn [cs_list cs_tv cs_tva].
  destruct (rev l) as [|c r] eqn:E; [reflexivity|].
  cbn [e_isnil]. unfold Kernels2.CoinSet_removeElement. cbn [e_value rbind l_remove c_value c_valueage].
  unfold removed. cbn [cs_list cs_tv cs_tva]. rewrite !wrapZ64_w64.
  assert (Hl : l = rev r ++ [c]) by (rewrite <- (rev_involutive l), E; reflexivity).
  rewrite Hl, remove_last. reflexivity.
Qed.
Print Assumptions PopCoin_tie.

Theorem ShiftCoin_tie (s : coinset) :
  Kernels2.CoinSet_ShiftCoin l_front e_isnil (None : C) e_value l_remove c_value c_valueage
    (cs_list s) (cs_tv s) (cs_tva s)
  = let '(o, s') := shift w64 s in Ok (o, cs_list s', cs_tv s', cs_tva s').
Proof.
  destruct s as [l tv tva]. unfold Kernels2.CoinSet_ShiftCoin, shift, l_front. cbn [cs_list cs_tv cs_tva].
  destruct l as [|c r]; [reflexivity|].
  cbn [e_isnil]. unfold Kernels2.CoinSet_removeElement. cbn [e_value rbind l_remove c_value c_valueage].
  unfold removed. cbn [cs_list cs_tv cs_tva firstn skipn app]. rewrite !wrapZ64_w64. reflexivity.
Qed.
Print Assumptions ShiftCoin_tie.
